package props

import (
	"bytes"
	"encoding/json"
	"fmt"
	"os"
	"path/filepath"
	"sort"
	"strings"
	"sync"
	"sync/atomic"
	"time"

	"github.com/cosmos72/gomacro/base"
	gcmd "github.com/cosmos72/gomacro/cmd"
	"github.com/cosmos72/gomacro/fast"
	"github.com/cosmos72/gomacro/go/etoken"

	"verif/harness/core"
)

// C39: preprocessor mode (`gomacro -m -w file.gomacro`) writes the collected declarations as
// equivalent, compilable Go and executes nothing. Spec: spec/shell/Collect.tla.
//
//   unit level   TLC-generated sources (sequences of abstract top-level nodes) are rendered,
//                fed through Interp.EvalReader with MacroExpandOnly + the collection options of
//                the run, written with Globals.WriteDeclsToStream, reparsed with the standard
//                go/parser and compared item by item with the written file the module defines;
//   front end    TLC-generated multi-file runs go through cmd.Cmd.Main("-m", "-w", files | dir);
//   end to end   programs of Defer.tla / Calls.tla (c39e2e.go) are preprocessed by cmd.Cmd,
//                the written files compiled and run by the Go toolchain and compared with the
//                event log those modules prescribe.

func init() {
	core.Register(&core.Prop{
		ID: "C39",
		Rule: "TLC enumerates preprocessor runs of Collect.tla: source files as sequences of top-level nodes over {package clause, single/grouped import, const, iota group, type, type group, var, var group, func, func whose body needs parentheses, method, macro declaration, `:=`, assignment, for statement, expressions, two declarations in one chunk, ':' lines (import, var, func, macro definitions), macro calls with one and two declaration arguments} x collection options x {files as arguments, directory}, " +
			"with the written file the specification defines (BFS bounded-exhaustive profiles + seeded simulation up to 12 nodes); each is rendered, preprocessed by the real code and the reparsed output compared item by item; " +
			"programs of Defer.tla and Calls.tla are preprocessed by the command front end, compiled and run natively and compared with the modules' event logs; a compiled hook counts executed code; " +
			"non-trivial = a run with a node that is transformed, dropped, wrapped, expanded or evaluated, or with several files (unit level), a program that defers, panics or recycles frames (end to end); distinct by run / program text",
		Run:      runC39,
		Replay:   replayC39,
		SelfTest: selfTestC39,
	})
}

// ------------------------------------------------------------------ profiles

const c39Defs = `DK == {"import1","importN","const","constiota","type","var","func","method"}
AK == DK \cup {"pkg","funcparen","funcdiv","macrodecl","define","assign","forstmt","expr","chunk2","fimport","fvar","ffunc","mdef","inv1","inv2"}
MK == {"fimport","mdef","inv1","inv2","var","macrodecl"}
FK == {"import1","var","func"}
FK2 == {"import1","func"}
O1 == {[d |-> TRUE, s |-> TRUE]}
O3 == {[d |-> TRUE, s |-> TRUE],[d |-> TRUE, s |-> FALSE],[d |-> FALSE, s |-> TRUE]}
P(name, kinds, mn, mf, opts, modes, pf) == [name |-> name, kinds |-> kinds, maxNodes |-> mn, maxFiles |-> mf, opts |-> opts, modes |-> modes, pkgFirst |-> pf]
`

func c39Cfg(variant string, emit bool) string {
	return fmt.Sprintf("SPECIFICATION Spec\nCONSTANTS\n Profiles <- c_Profiles\n Variant = %q\n EmitOn = %s\nINVARIANTS TypeOK Refines DeclsPreserved ImportsPreserved NothingTwice NothingForeign OptionsStable NeverWritten Emit\n",
		variant, strings.ToUpper(fmt.Sprint(emit)))
}

// ------------------------------------------------------------------ interpreters

var c39Serial int64
var c39WriteMu sync.Mutex // WriteDeclsToStream changes a package-level printer setting

type c39Interp struct {
	ir    *fast.Interp
	out   bytes.Buffer
	calls []int
	used  int
}

func c39NewInterp() *c39Interp {
	ip := &c39Interp{ir: fast.New()}
	g := &ip.ir.Comp.Globals
	g.Stdout = &ip.out
	g.Stderr = &ip.out
	ip.ir.DeclFunc("evNow", func(ids ...int) int {
		id := -1
		if len(ids) > 0 {
			id = ids[0]
		}
		ip.calls = append(ip.calls, id)
		return 0
	})
	return ip
}

// c39UnitRun feeds one source through the collection path of the interpreter (no command
// front end) and returns the written text, the hook calls and the interpreter's messages.
func c39UnitRun(ip *c39Interp, src string, d, s bool) (text string, calls []int, msgs string, crash string) {
	g := &ip.ir.Comp.Globals
	// the option set of cmd.Cmd.Init + Main for a file argument, with the run's collection options
	g.Options = (g.Options | base.OptDebugger | base.OptCtrlCEnterDebugger | base.OptKeepUntyped | base.OptTrapPanic | base.OptMacroExpandOnly) &^
		(base.OptShowPrompt | base.OptShowEval | base.OptShowEvalType | base.OptCollectDeclarations | base.OptCollectStatements)
	if d {
		g.Options |= base.OptCollectDeclarations
	}
	if s {
		g.Options |= base.OptCollectStatements
	}
	g.PackagePath = "main"
	g.Imports, g.Declarations, g.Statements = nil, nil, nil
	ip.calls = nil
	ip.out.Reset()
	ip.used++
	func() {
		defer func() {
			if r := recover(); r != nil {
				crash = fmt.Sprintf("panic while reading the source: %v", r)
			}
		}()
		if _, err := ip.ir.EvalReader(strings.NewReader(src)); err != nil {
			crash = "EvalReader: " + err.Error()
		}
	}()
	if crash == "" {
		func() {
			defer func() {
				if r := recover(); r != nil {
					crash = fmt.Sprintf("panic in WriteDeclsToStream: %v", r)
				}
			}()
			var w bytes.Buffer
			c39WriteMu.Lock()
			defer c39WriteMu.Unlock()
			g.WriteDeclsToStream(&w)
			text = w.String()
		}()
	}
	g.Imports, g.Declarations, g.Statements = nil, nil, nil
	return text, append([]int(nil), ip.calls...), ip.out.String(), crash
}

// c39CmdRun runs the command front end in-process on files written into dir.
// args are appended to "-m", "-w". Returns the hook calls and the messages printed.
func c39CmdRun(args []string) (calls []int, msgs string, crash string) {
	var cm gcmd.Cmd
	cm.Init()
	g := &cm.Interp.Comp.Globals
	var out bytes.Buffer
	g.Stdout = &out
	g.Stderr = &out
	cm.Interp.DeclFunc("evNow", func(ids ...int) int {
		id := -1
		if len(ids) > 0 {
			id = ids[0]
		}
		calls = append(calls, id)
		return 0
	})
	func() {
		defer func() {
			if r := recover(); r != nil {
				crash = fmt.Sprintf("panic in cmd.Main: %v", r)
			}
		}()
		c39WriteMu.Lock() // one front end at a time: it writes files through the shared printer setting
		defer c39WriteMu.Unlock()
		if err := cm.Main(append([]string{"-m", "-w"}, args...)); err != nil {
			crash = "cmd.Main: " + err.Error()
		}
	}()
	return calls, out.String(), crash
}

// ------------------------------------------------------------------ comparison

type c39Diff struct {
	kind  string // node kind (or spec-level predicate) the disagreement is about
	shape string
	what  string
}

func (d *c39Diff) sig() string { return "collect(" + d.kind + "):" + d.shape }

type c39Expected struct {
	item c39Item
	kind string
	dump string
	name string
	text string
}

// c39Table maps the dump of every form of every node of the run to the node (attribution of
// items the specification does not expect in a file).
type c39Table struct {
	byDump map[string][]c39Expected
	forms  map[[2]int]map[string]c39Form
}

func c39BuildTable(rec *c39Rec, sfx string) (*c39Table, error) {
	t := &c39Table{byDump: map[string][]c39Expected{}, forms: map[[2]int]map[string]c39Form{}}
	for f, nodes := range rec.Files {
		for i, n := range nodes {
			_, forms := c39RenderNode(n, f+1, i+1, sfx)
			t.forms[[2]int{f + 1, i + 1}] = forms
			for as, fm := range forms {
				d, name, err := c39DumpForm(fm)
				if err != nil {
					return nil, err
				}
				t.byDump[d] = append(t.byDump[d], c39Expected{item: c39Item{f + 1, i + 1, as}, kind: n.K, dump: d, name: name, text: fm.text})
			}
		}
	}
	return t, nil
}

func (t *c39Table) expected(rec *c39Rec, items []c39Item) ([]c39Expected, error) {
	var out []c39Expected
	for _, it := range items {
		fm, ok := t.forms[[2]int{it.F, it.I}][it.As]
		if !ok {
			return nil, fmt.Errorf("specification names form %q of node %d/%d which the renderer does not know", it.As, it.F, it.I)
		}
		d, name, err := c39DumpForm(fm)
		if err != nil {
			return nil, err
		}
		out = append(out, c39Expected{item: it, kind: rec.Files[it.F-1][it.I-1].K, dump: d, name: name, text: fm.text})
	}
	return out, nil
}

// c39CompareList compares one section (imports / declarations / statements) of file f and
// returns every disagreement (one per signature).
func c39CompareList(rec *c39Rec, t *c39Table, f int, section string, want []c39Expected, got, gotNames []string) []*c39Diff {
	same := len(want) == len(got)
	if same {
		for k := range want {
			if want[k].dump != got[k] {
				same = false
			}
		}
	}
	if same {
		return nil
	}
	var out []*c39Diff
	seen := map[string]bool{}
	add := func(d *c39Diff) {
		if !seen[d.sig()] {
			seen[d.sig()] = true
			out = append(out, d)
		}
	}
	cw, cg := map[string]int{}, map[string]int{}
	for _, w := range want {
		cw[w.dump]++
	}
	for _, g := range got {
		cg[g]++
	}
	unknown := map[string]int{} // names of written items that are no form of any node of the run
	nunknown := 0
	for k, g := range got {
		if cg[g] <= cw[g] {
			continue
		}
		src := t.byDump[g]
		switch {
		case cw[g] > 0:
			d := &c39Diff{kind: src[0].kind, shape: "duplicated", what: fmt.Sprintf("%s of file %d: `%s` written %d times, expected %d", section, f, src[0].text, cg[g], cw[g])}
			if section == "imports" && rec.LaterDirFile && f > 1 {
				// imports of an earlier file of the directory that coincide with the file's own
				d.kind = "import-of-earlier-dir-file"
			}
			add(d)
		case len(src) > 0:
			e := src[0]
			d := &c39Diff{kind: e.kind, shape: "extra", what: fmt.Sprintf("%s of file %d: `%s` (node %d of file %d) written, not expected there", section, f, e.text, e.item.I, e.item.F)}
			if e.item.F < f && section == "imports" && rec.LaterDirFile {
				d = &c39Diff{kind: "import-of-earlier-dir-file", shape: "duplicated", what: fmt.Sprintf("imports of file %d: `%s` of file %d written again", f, e.text, e.item.F)}
			} else if rec.ForcedWithOptionOff {
				d.kind = "option-off-after-forced-line"
			}
			add(d)
		default:
			unknown[gotNames[k]]++
			nunknown++
		}
	}
	for _, w := range want {
		if cg[w.dump] >= cw[w.dump] {
			continue
		}
		if w.name != "" && unknown[w.name] > 0 {
			// written under its name, but not as the source has it
			unknown[w.name]--
			nunknown--
			add(&c39Diff{kind: w.kind, shape: "altered", what: fmt.Sprintf("%s of file %d: `%s` (node %d) written in a form that is not the source's", section, f, w.text, w.item.I)})
			continue
		}
		d := &c39Diff{kind: w.kind, shape: "lost", what: fmt.Sprintf("%s of file %d: `%s` (node %d) expected, not written", section, f, w.text, w.item.I)}
		if section == "imports" {
			d.shape = "import-lost"
		}
		add(d)
	}
	if nunknown > 0 {
		// written items that are neither a node of the run nor an altered form of an expected one:
		// with an option off after a ':' line they are nodes of the switched-off class, altered
		for name, n := range unknown {
			if n <= 0 {
				continue
			}
			var node *c39Node
			for _, e := range t.byDumpName(name) {
				node = &rec.Files[e.item.F-1][e.item.I-1]
			}
			switch {
			case rec.ForcedWithOptionOff:
				add(&c39Diff{kind: "option-off-after-forced-line", shape: "extra", what: fmt.Sprintf("%s of file %d contains `%s` although its collection option is off", section, f, name)})
			case node != nil:
				add(&c39Diff{kind: node.K, shape: "altered", what: fmt.Sprintf("%s of file %d: `%s` written in a form that is not the source's, and not expected there", section, f, name)})
			default:
				add(&c39Diff{kind: section, shape: "altered", what: fmt.Sprintf("%s of file %d contains `%s`, which is no node of the source", section, f, name)})
			}
		}
	}
	if len(out) == 0 {
		for k := range want {
			if want[k].dump != got[k] {
				add(&c39Diff{kind: want[k].kind, shape: "reordered", what: fmt.Sprintf("%s of file %d: position %d should be `%s`", section, f, k+1, want[k].text)})
				break
			}
		}
	}
	if len(out) == 0 {
		add(&c39Diff{kind: section, shape: "altered", what: "lists differ"})
	}
	return out
}

// byDumpName finds the forms declared under a name.
func (t *c39Table) byDumpName(name string) []c39Expected {
	var out []c39Expected
	if name == "" {
		return nil
	}
	for _, es := range t.byDump {
		for _, e := range es {
			if e.name == name {
				out = append(out, e)
			}
		}
	}
	return out
}

// c39CompareFile compares the written text of file f (1-based) with the specification.
func c39CompareFile(rec *c39Rec, t *c39Table, f int, text string) ([]*c39Diff, error) {
	exp := rec.Expect[f-1]
	obs := c39Project(text)
	if obs.Err != "" {
		d := &c39Diff{kind: "file", shape: "not-compilable", what: fmt.Sprintf("file %d does not parse: %s", f, obs.Err)}
		for _, n := range rec.Files[f-1] {
			if n.K == "funcparen" && n.V == 2 {
				// spec-level predicate: the source has a composite literal inside parentheses in an
				// if header (the rest of such a file cannot be judged: it does not parse)
				d.kind = "funcparen"
			}
		}
		return []*c39Diff{d}, nil
	}
	var out []*c39Diff
	if obs.Pkg != c39PkgNames[exp.Pkg] {
		d := &c39Diff{kind: "pkg", shape: "lost", what: fmt.Sprintf("file %d: package %s written, specification says package %s", f, obs.Pkg, c39PkgNames[exp.Pkg])}
		if exp.Pkg == 1 {
			d.shape = "extra"
			if rec.ForcedWithOptionOff {
				d.kind = "option-off-after-forced-line"
			}
		}
		out = append(out, d)
	}
	for _, sec := range []struct {
		name     string
		items    []c39Item
		got, nms []string
	}{{"imports", exp.Imports, obs.Imports, obs.ImportNames}, {"declarations", exp.Decls, obs.Decls, obs.DeclNames}, {"statements", exp.Stmts, obs.Stmts, obs.StmtNames}} {
		want, err := t.expected(rec, sec.items)
		if err != nil {
			return nil, err
		}
		out = append(out, c39CompareList(rec, t, f, sec.name, want, sec.got, sec.nms)...)
	}
	if len(out) == 0 && obs.HasInit != (len(exp.Stmts) > 0) {
		out = append(out, &c39Diff{kind: "init", shape: "extra", what: fmt.Sprintf("file %d: func init() wrapper written=%v although %d statements are expected", f, obs.HasInit, len(exp.Stmts))})
	}
	// one per signature
	seen := map[string]bool{}
	var uniq []*c39Diff
	for _, d := range out {
		if !seen[d.sig()] {
			seen[d.sig()] = true
			uniq = append(uniq, d)
		}
	}
	return uniq, nil
}

func c39Sigs(ds []*c39Diff) string {
	var ss []string
	for _, d := range ds {
		ss = append(ss, d.sig())
	}
	sort.Strings(ss)
	return strings.Join(ss, " ")
}

// c39HookDiff compares the hook calls with the specification: only ':' lines run.
func c39HookDiff(rec *c39Rec, calls []int) *c39Diff {
	want := map[int]bool{}
	kindOf := map[int]string{}
	for f, nodes := range rec.Files {
		for i, n := range nodes {
			id := (f+1)*100 + i + 1
			kindOf[id] = n.K
			if n.K == "fvar" {
				want[id] = true
			}
		}
	}
	seen := map[int]bool{}
	for _, id := range calls {
		seen[id] = true
		if !want[id] {
			k := kindOf[id]
			if k == "" {
				k = "?"
			}
			return &c39Diff{kind: k, shape: "code-executed", what: fmt.Sprintf("the hook was called by node %d of file %d while preprocessing", id%100, id/100)}
		}
	}
	for id := range want {
		if !seen[id] {
			return &c39Diff{kind: "fvar", shape: "forced-line-not-run", what: fmt.Sprintf("the ':' line %d of file %d was not evaluated", id%100, id/100)}
		}
	}
	if len(calls) != rec.Executed {
		return &c39Diff{kind: "fvar", shape: "code-executed", what: fmt.Sprintf("%d hook calls, specification says %d", len(calls), rec.Executed)}
	}
	return nil
}

// c39NoFinalNewline: a third of the sources (chosen by their number of lines, not by the run) end without a newline: the last declaration is as much part of the file
func c39NoFinalNewline(src string) string {
	if strings.Count(src, "\n")%3 == 0 { // (the number of lines depends on the record only)
		return strings.TrimRight(src, "\n")
	}
	return src
}

// c39CheckUnit runs one single-file record on interpreter ip; returns the disagreement, if any.
func c39CheckUnit(ip *c39Interp, rec *c39Rec) (ds []*c39Diff, src, written string, err error) {
	sfx := fmt.Sprint(atomic.AddInt64(&c39Serial, 1))
	t, err := c39BuildTable(rec, sfx)
	if err != nil {
		return nil, "", "", err
	}
	src = c39NoFinalNewline(c39RenderFile(rec.Files[0], 1, sfx))
	text, calls, msgs, crash := c39UnitRun(ip, src, rec.Opts.D, rec.Opts.S)
	if crash != "" {
		return []*c39Diff{{kind: "file", shape: "crash", what: crash + "\n" + msgs}}, src, text, nil
	}
	if d := c39HookDiff(rec, calls); d != nil {
		return []*c39Diff{d}, src, text, nil
	}
	ds, err = c39CompareFile(rec, t, 1, text)
	for _, d := range ds {
		if msgs != "" {
			d.what += "\ninterpreter messages: " + strings.TrimSpace(msgs)
		}
	}
	return ds, src, text, err
}

// c39CheckFiles runs one multi-file record through the command front end in a scratch directory.
func c39CheckFiles(rec *c39Rec, scratch string) (ds []*c39Diff, srcs, written []string, err error) {
	sfx := fmt.Sprint(atomic.AddInt64(&c39Serial, 1))
	t, err := c39BuildTable(rec, sfx)
	if err != nil {
		return nil, nil, nil, err
	}
	dir, err := os.MkdirTemp(scratch, "run-")
	if err != nil {
		return nil, nil, nil, core.Infra("mktemp: %v", err)
	}
	defer os.RemoveAll(dir)
	var args []string
	for f, nodes := range rec.Files {
		s := c39NoFinalNewline(c39RenderFile(nodes, f+1, sfx))
		srcs = append(srcs, s)
		p := filepath.Join(dir, fmt.Sprintf("s%d.gomacro", f+1))
		if err := os.WriteFile(p, []byte(s), 0o644); err != nil {
			return nil, nil, nil, core.Infra("write: %v", err)
		}
		args = append(args, p)
	}
	if rec.Mode == "dir" {
		args = []string{dir}
	}
	calls, msgs, crash := c39CmdRun(args)
	if crash != "" {
		return []*c39Diff{{kind: "file", shape: "crash", what: crash + "\n" + msgs}}, srcs, nil, nil
	}
	if d := c39HookDiff(rec, calls); d != nil {
		return []*c39Diff{d}, srcs, nil, nil
	}
	for f := range rec.Files {
		b, rerr := os.ReadFile(filepath.Join(dir, fmt.Sprintf("s%d.go", f+1)))
		if rerr != nil {
			return []*c39Diff{{kind: "file", shape: "lost", what: fmt.Sprintf("no file written for source %d: %v\n%s", f+1, rerr, msgs)}}, srcs, written, nil
		}
		written = append(written, string(b))
	}
	for f := range rec.Files {
		fds, err := c39CompareFile(rec, t, f+1, written[f])
		if err != nil {
			return nil, srcs, written, err
		}
		for _, d := range fds {
			if msgs != "" {
				d.what += "\nmessages: " + strings.TrimSpace(msgs)
			}
			dup := false
			for _, e := range ds {
				dup = dup || e.sig() == d.sig()
			}
			if !dup {
				ds = append(ds, d)
			}
		}
	}
	return ds, srcs, written, nil
}

// ------------------------------------------------------------------ driver

type c39Pool struct {
	mu   sync.Mutex
	free []*c39Interp
}

func (p *c39Pool) get() *c39Interp {
	p.mu.Lock()
	defer p.mu.Unlock()
	if n := len(p.free); n > 0 {
		ip := p.free[n-1]
		p.free = p.free[:n-1]
		return ip
	}
	return nil
}

func (p *c39Pool) put(ip *c39Interp) {
	if ip.used >= 300 {
		return
	}
	p.mu.Lock()
	p.free = append(p.free, ip)
	p.mu.Unlock()
}

type c39Pending struct {
	rec           *c39Rec
	raw           []byte
	d             *c39Diff
	srcs, written []string
}

func (p *c39Pending) size() int {
	n := 0
	for _, f := range p.rec.Files {
		n += 10 + len(f)
	}
	return n
}

func c39Report(c *core.Ctx, rec *c39Rec, raw []byte, d *c39Diff, srcs, written []string) {
	what := d.what + "\noptions: " + fmt.Sprintf("CollectDeclarations=%v CollectStatements=%v mode=%s", rec.Opts.D, rec.Opts.S, rec.Mode)
	for f := range srcs {
		what += fmt.Sprintf("\n--- source %d:\n%s", f+1, strings.TrimSpace(srcs[f]))
		if f < len(written) {
			what += fmt.Sprintf("\n--- written %d:\n%s", f+1, strings.TrimSpace(c39StripDisclaimer(written[f])))
		}
	}
	c.Violation(d.sig(), what, map[string]interface{}{"level": "unit", "record": json.RawMessage(raw)})
}

func c39StripDisclaimer(s string) string {
	if k := strings.Index(s, "package "); k > 0 {
		return s[k:]
	}
	return s
}

// c39RunRecords replays unit-level (single file) and front-end (several files) records.
func c39RunRecords(c *core.Ctx, recs []*c39Rec, raws [][]byte, scratch string) error {
	pool := &c39Pool{}
	var mu sync.Mutex
	var firstErr error
	var pending []*c39Pending
	report := func(rec *c39Rec, raw []byte, d *c39Diff, srcs, written []string) {
		mu.Lock()
		pending = append(pending, &c39Pending{rec, raw, d, srcs, written})
		mu.Unlock()
	}
	fail := func(err error) {
		mu.Lock()
		if firstErr == nil {
			firstErr = err
		}
		mu.Unlock()
	}
	core.ParDo(len(recs), 6, func(k int) {
		rec := recs[k]
		c.Case(rec.key(), rec.nontrivial())
		c.Trace()
		if len(rec.Files) > 1 || rec.Mode == "dir" {
			ds, _, _, err := c39CheckFiles(rec, scratch)
			if err != nil {
				fail(err)
				return
			}
			if len(ds) == 0 {
				return
			}
			ds2, srcs2, written2, err := c39CheckFiles(rec, scratch) // confirm with a second front end
			if err != nil {
				fail(err)
				return
			}
			if c39Sigs(ds2) != c39Sigs(ds) {
				fail(core.Infra("disagreement %s not reproducible in a second run (then: %s)", c39Sigs(ds), c39Sigs(ds2)))
				return
			}
			for _, d := range ds2 {
				report(rec, raws[k], d, srcs2, written2)
			}
			return
		}
		ip := pool.get()
		if ip == nil {
			ip = c39NewInterp()
		}
		ds, _, _, err := c39CheckUnit(ip, rec)
		if err != nil {
			fail(err)
			return
		}
		if len(ds) == 0 {
			pool.put(ip)
			return
		}
		// confirm in a fresh interpreter
		ds2, src, written, err := c39CheckUnit(c39NewInterp(), rec)
		if err != nil {
			fail(err)
			return
		}
		if c39Sigs(ds2) != c39Sigs(ds) {
			fail(core.Infra("disagreement %s not reproducible in a fresh interpreter (then: %s; state leaked from an earlier source?)", c39Sigs(ds), c39Sigs(ds2)))
			return
		}
		for _, d := range ds2 {
			report(rec, raws[k], d, []string{src}, []string{written})
		}
	})
	// the smallest disagreeing runs of every signature are the ones written out
	sort.SliceStable(pending, func(i, j int) bool { return pending[i].size() < pending[j].size() })
	for _, p := range pending {
		c39Report(c, p.rec, p.raw, p.d, p.srcs, p.written)
	}
	return firstErr
}

func c39Parse(line []byte) (*c39Rec, error) {
	var rec c39Rec
	if err := json.Unmarshal(line, &rec); err != nil {
		return nil, core.Infra("bad record: %v", err)
	}
	if len(rec.Files) == 0 || len(rec.Expect) != len(rec.Files) {
		return nil, core.Infra("malformed record: %s", line)
	}
	return &rec, nil
}

func runC39(c *core.Ctx) error {
	savedGen := etoken.GENERICS
	etoken.GENERICS = etoken.GENERICS_V2_CTI // what cmd.Cmd.Init selects for the whole process
	defer func() { etoken.GENERICS = savedGen }()

	scratch, err := os.MkdirTemp("", "verif-c39-")
	if err != nil {
		return core.Infra("mktemp: %v", err)
	}
	defer os.RemoveAll(scratch)

	// --- the generators run concurrently (JVM start-up dominates the small ones)
	t0 := time.Now()
	var recs []*c39Rec
	var raws [][]byte
	seen := map[string]bool{}
	var rmu sync.Mutex
	var perr error
	stride := map[string]uint64{}
	seed := uint64(c.Seed)
	n := uint64(0)
	collect := func(line []byte) {
		rec, err := c39Parse(line)
		rmu.Lock()
		defer rmu.Unlock()
		if err != nil {
			perr = err
			return
		}
		n++
		if st := stride[rec.Profile]; st > 1 && (n*2654435761+seed)%st != 0 {
			return
		}
		k := rec.key()
		if seen[k] {
			return
		}
		seen[k] = true
		recs = append(recs, rec)
		raws = append(raws, append([]byte(nil), line...))
	}
	var bfsProfiles, simProfiles string
	if c.Thorough() {
		bfsProfiles = `c_Profiles == {P("decl", DK, 5, 1, O1, {"args"}, TRUE), P("all", AK, 3, 1, O3, {"args"}, FALSE), P("macro", MK, 4, 1, O1, {"args"}, FALSE), P("files", FK, 3, 2, O1, {"args","dir"}, TRUE), P("files3", FK2, 2, 3, O1, {"args","dir"}, TRUE)}`
		stride["decl"], stride["all"], stride["macro"], stride["files"], stride["files3"] = 1, 3, 1, 16, 1
	} else {
		bfsProfiles = `c_Profiles == {P("decl", DK, 4, 1, O1, {"args"}, TRUE), P("all", AK, 2, 1, O3, {"args"}, FALSE), P("macro", MK, 3, 1, O1, {"args"}, FALSE), P("files", FK2, 3, 2, O1, {"args","dir"}, TRUE)}`
		stride["decl"], stride["all"], stride["macro"], stride["files"] = 4, 2, 2, 12
	}
	simProfiles = `c_Profiles == {P("sim", AK, 12, 1, O3, {"args"}, FALSE)}`
	stride["sim"] = 1

	var wg sync.WaitGroup
	errs := make([]error, 3)
	var bfsRes *core.TLCResult
	wg.Add(3)
	go func() {
		defer wg.Done()
		bfsRes, errs[0] = c.TLC(core.TLCOpts{Spec: "Collect", MCDefs: c39Defs + bfsProfiles, CfgName: "bfs-profiles", Cfg: c39Cfg("ok", true),
			Workers: c.Pick(3, 6), OnLine: collect, Timeout: 12 * time.Minute})
	}()
	go func() {
		defer wg.Done()
		_, errs[1] = c.TLC(core.TLCOpts{Spec: "Collect", MCDefs: c39Defs + simProfiles, CfgName: "sim-12-nodes", Cfg: c39Cfg("ok", true),
			Workers: 2, Simulate: true, SimNum: c.Pick(60, 1500), SimDepth: 16, Seed: c.Seed, OnLine: collect})
	}()
	var progs []*c39Prog
	go func() {
		defer wg.Done()
		progs, errs[2] = c39Programs(c)
	}()
	wg.Wait()
	for _, e := range errs {
		if e != nil {
			return e
		}
	}
	if perr != nil {
		return perr
	}
	_ = bfsRes
	c.Exhaustive = false // the quick tier samples the enumerated runs; thorough samples two profiles
	// deterministic order for samples
	nunit, nfiles := 0, 0
	for i, r := range recs {
		if len(r.Files) > 1 || r.Mode == "dir" {
			nfiles++
		} else {
			nunit++
		}
		if i%(len(recs)/3+1) == 0 {
			sfx := "S"
			var srcs []string
			for f, nodes := range r.Files {
				srcs = append(srcs, c39RenderFile(nodes, f+1, sfx))
			}
			c.Sample(map[string]interface{}{"level": "unit", "profile": r.Profile, "mode": r.Mode, "options": r.Opts, "sources": srcs, "expected_written": r.Expect, "expected_hook_calls": r.Executed})
		}
	}
	c.Extra["unit_sources"] = nunit
	c.Extra["front_end_runs"] = nfiles
	c.Assume("comments are not part of the property (only the leading comment block is copied, documented by the generated files of the repository); the written text is compared as syntax trees of the standard go/parser, not byte by byte")
	c.Assume("sources given to the front end start with a package clause; a run is one cmd.Cmd (one interpreter)")
	t1 := time.Now()
	c.Extra["phase_generate_s"] = t1.Sub(t0).Seconds()
	if err := c39RunRecords(c, recs, raws, scratch); err != nil {
		return err
	}
	t2 := time.Now()
	c.Extra["phase_unit_and_front_end_s"] = t2.Sub(t1).Seconds()
	// --- end to end
	err = c39EndToEnd(c, progs, scratch)
	c.Extra["phase_end_to_end_s"] = time.Since(t2).Seconds()
	c.Extra["end_to_end_programs"] = len(progs)
	return err
}

func replayC39(c *core.Ctx, raw json.RawMessage) error {
	var w struct {
		Level  string          `json:"level"`
		Record json.RawMessage `json:"record"`
		Prog   *c39ProgReplay  `json:"prog"`
	}
	if err := json.Unmarshal(raw, &w); err != nil {
		return err
	}
	savedGen := etoken.GENERICS
	etoken.GENERICS = etoken.GENERICS_V2_CTI
	defer func() { etoken.GENERICS = savedGen }()
	scratch, err := os.MkdirTemp("", "verif-c39-")
	if err != nil {
		return core.Infra("mktemp: %v", err)
	}
	defer os.RemoveAll(scratch)
	if w.Level == "e2e" && w.Prog != nil {
		pc := &ProgCase{Key: "replay", Nontrivial: true, Decls: w.Prog.Decls, Entry: w.Prog.Entry, WantEvents: w.Prog.WantEvents, WantResult: w.Prog.WantResult, Raw: raw}
		return c39EndToEnd(c, []*c39Prog{{pc: pc, prelude: w.Prog.Prelude, origin: "replay", differential: w.Prog.Differential}}, scratch)
	}
	rec, err := c39Parse(w.Record)
	if err != nil {
		return err
	}
	return c39RunRecords(c, []*c39Rec{rec}, [][]byte{w.Record}, scratch)
}

func selfTestC39(c *core.Ctx) error {
	// (M) every broken mechanism must be rejected by TLC, by the invariant that names its defect
	small := `c_Profiles == {P("all", AK, 2, 1, O3, {"args"}, FALSE), P("files", FK2, 2, 2, O1, {"args","dir"}, TRUE)}`
	type variant struct{ name, inv string }
	vs := []variant{{"no-methods", "Refines"}, {"by-kind", "Refines"}, {"define-as-statement", "Refines"},
		{"dir-keeps-imports", "Refines"}, {"force-enables-all", "OptionsStable"}}
	errs := make([]error, len(vs))
	var wg sync.WaitGroup
	for k := range vs {
		wg.Add(1)
		go func(k int) {
			defer wg.Done()
			r, err := c.TLC(core.TLCOpts{Spec: "Collect", MCDefs: c39Defs + small, CfgName: "broken-" + vs[k].name, Cfg: c39Cfg(vs[k].name, false),
				Workers: 2, ExpectError: true})
			if err != nil {
				errs[k] = err
			} else if r.Violated != vs[k].inv {
				errs[k] = fmt.Errorf("broken variant %s not caught (violated=%q, want %s)", vs[k].name, r.Violated, vs[k].inv)
			}
		}(k)
	}
	wg.Wait()
	for _, e := range errs {
		if e != nil {
			return e
		}
	}
	// the narrower invariants name the same defects on their own
	for _, v := range []variant{{"dir-keeps-imports", "NothingTwice"}, {"no-methods", "DeclsPreserved"}} {
		cfg := strings.Replace(c39Cfg(v.name, false), "INVARIANTS TypeOK Refines DeclsPreserved ImportsPreserved NothingTwice", "INVARIANTS TypeOK "+v.inv, 1)
		r, err := c.TLC(core.TLCOpts{Spec: "Collect", MCDefs: c39Defs + small, CfgName: "broken-" + v.name + "-" + v.inv, Cfg: cfg, Workers: 2, ExpectError: true})
		if err != nil {
			return err
		}
		if r.Violated != v.inv {
			return fmt.Errorf("broken variant %s not caught by %s (violated=%q)", v.name, v.inv, r.Violated)
		}
	}
	// (R) a correct record is accepted, corrupted expectations are rejected with the right shape
	etoken.GENERICS = etoken.GENERICS_V2_CTI
	good := `{"profile":"t","files":[[{"k":"pkg","v":2},{"k":"import1","v":1},{"k":"method","v":1},{"k":"define","v":2},{"k":"macrodecl","v":1},{"k":"expr","v":1},{"k":"const","v":1}]],"mode":"args","opts":{"d":true,"s":true},` +
		`"expect":[{"pkg":2,"imports":[{"f":1,"i":2,"as":"same"}],"decls":[{"f":1,"i":3,"as":"same"},{"f":1,"i":4,"as":"var"},{"f":1,"i":7,"as":"same"}],"stmts":[{"f":1,"i":6,"as":"same"}]}],"executed":0,"laterDirFile":false,"forcedWithOptionOff":false}`
	check := func(js string) (*c39Diff, error) {
		rec, err := c39Parse([]byte(js))
		if err != nil {
			return nil, err
		}
		ds, _, _, err := c39CheckUnit(c39NewInterp(), rec)
		if len(ds) > 1 {
			return nil, fmt.Errorf("several disagreements where one is expected: %s", c39Sigs(ds))
		}
		if len(ds) == 1 {
			return ds[0], err
		}
		return nil, err
	}
	if d, err := check(good); err != nil || d != nil {
		return fmt.Errorf("correct record rejected: %v %v", d, err)
	}
	for _, m := range []struct{ from, to, sig string }{
		{`{"f":1,"i":3,"as":"same"},{"f":1,"i":4,"as":"var"}`, `{"f":1,"i":4,"as":"var"},{"f":1,"i":3,"as":"same"}`, "collect(define):reordered"},
		{`,{"f":1,"i":7,"as":"same"}]`, `]`, "collect(const):extra"},
		{`"decls":[`, `"decls":[{"f":1,"i":7,"as":"same"},`, "collect(const):lost"},
		{`"pkg":2,"imports"`, `"pkg":1,"imports"`, "collect(pkg):extra"},
		{`"imports":[{"f":1,"i":2,"as":"same"}]`, `"imports":[]`, "collect(import1):extra"},
		{`"executed":0`, `"executed":1`, "collect(fvar):code-executed"},
	} {
		bad := strings.Replace(good, m.from, m.to, 1)
		if bad == good {
			return fmt.Errorf("selftest mutation %q did not apply", m.from)
		}
		d, err := check(bad)
		if err != nil {
			return err
		}
		if d == nil || d.sig() != m.sig {
			got := "accepted"
			if d != nil {
				got = d.sig()
			}
			return fmt.Errorf("corrupted record (%s) gave %s, want %s", m.to, got, m.sig)
		}
	}
	// end to end: a correct program is accepted, a corrupted expectation rejected
	return c39SelfTestE2E(c)
}


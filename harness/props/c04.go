package props

import (
	"bytes"
	"encoding/json"
	"fmt"
	"go/ast"
	"go/constant"
	"go/parser"
	"go/token"
	"go/types"
	"hash/fnv"
	"math"
	"math/big"
	"os"
	"reflect"
	"runtime"
	"strconv"
	"strings"
	"sync"
	"time"
	"unicode/utf8"

	"github.com/cosmos72/gomacro/base"
	"github.com/cosmos72/gomacro/base/untyped"
	"github.com/cosmos72/gomacro/fast"

	"verif/harness/core"
)

// C04: untyped constant expressions. Spec: spec/sem/ConstArith.tla over spec/lib/{BigNat,Rat}.tla.
// (M) TLC anchors the limb arithmetic against its native integers and checks the laws of the
//     constant semantics (kind promotion, truncated integer division, shifts, bitwise
//     identities, trichotomy, representability) on every generated tree.
// (R) every emitted tree (expression, kind, exact value, representable-in-T table) is rendered
//     as Go source with varied literal spellings, evaluated by gomacro with OptKeepUntyped
//     (untyped kind + exact value) and in every typed context (conversion T(e) and declaration
//     var x T = e; *big.Int/*big.Rat/*big.Float by declaration).
// (G) go/types + go/constant evaluate the same text: they must agree with the model, otherwise
//     the tree is dropped as a specification defect.

func init() {
	core.Register(&core.Prop{
		ID: "C04",
		Rule: "TLC grows untyped constant expression trees (depth <= 2 exhaustively over the literal alphabet, depth 3 by seeded simulation) over literals of kinds bool, rune, int, float, imaginary, string and all constant operators, " +
			"and computes kind, exact value and representability in every typed context; each tree is rendered with varied literal spellings and evaluated by gomacro untyped and in 19 typed contexts; " +
			"a case is one (expression text, context); non-trivial = the expression contains an operator or a literal not in plain decimal spelling; distinct by expression text and context",
		Run:      runC04,
		Replay:   replayC04,
		SelfTest: selfTestC04,
	})
}

// ---------------------------------------------------------------- records

type c04Rat struct {
	Neg bool   `json:"neg"`
	Num string `json:"num"`
	Den string `json:"den"`
}

func (r *c04Rat) Rat() *big.Rat {
	if r == nil {
		return new(big.Rat)
	}
	n, ok1 := new(big.Int).SetString(r.Num, 10)
	d, ok2 := new(big.Int).SetString(r.Den, 10)
	if !ok1 || !ok2 || d.Sign() == 0 {
		return nil
	}
	if r.Neg {
		n.Neg(n)
	}
	return new(big.Rat).SetFrac(n, d)
}

type c04Expr struct {
	T  string   `json:"t"`
	Op string   `json:"op,omitempty"`
	X  *c04Expr `json:"x,omitempty"`
	Y  *c04Expr `json:"y,omitempty"`
	K  string   `json:"k,omitempty"`
	M  string   `json:"m,omitempty"`
	B  int      `json:"b,omitempty"`
	E  int      `json:"e,omitempty"`
	S  []int    `json:"s,omitempty"`
}

type c04Ctx struct {
	Ok    bool    `json:"ok"`
	Why   string  `json:"why,omitempty"`
	Skip  bool    `json:"skip,omitempty"`
	Typ   string  `json:"typ,omitempty"`
	Re    *c04Rat `json:"re,omitempty"`
	Im    *c04Rat `json:"im,omitempty"`
	Exact bool    `json:"exact,omitempty"`
	B     bool    `json:"b,omitempty"`
	S     []int   `json:"s,omitempty"`
}

type c04Rec struct {
	Expr *c04Expr `json:"expr"`
	St   string   `json:"st"`
	Why  string   `json:"why,omitempty"`
	At   string   `json:"at,omitempty"` // operator at which an error arises
	Kind string   `json:"kind,omitempty"`
	Re   *c04Rat  `json:"re,omitempty"`
	Im   *c04Rat  `json:"im,omitempty"`
	B    bool     `json:"b,omitempty"`
	S    []int    `json:"s,omitempty"`
	Root struct {
		Op string   `json:"op"`
		Ks []string `json:"ks"`
	} `json:"root"`
	Integral bool               `json:"integral,omitempty"`
	Exact64  bool               `json:"exact64,omitempty"`
	Exact32  bool               `json:"exact32,omitempty"`
	Ctx      map[string]*c04Ctx `json:"ctx,omitempty"`
}

var c04CtxOrder = []string{"int", "int8", "int16", "int32", "int64", "uint", "uint8", "uint16", "uint32", "uint64", "uintptr",
	"float32", "float64", "complex64", "complex128", "big.Int", "big.Rat", "big.Float", "default"}

func c04Validate(rec *c04Rec) error {
	if rec.Expr == nil || (rec.St != "ok" && rec.St != "err") {
		return fmt.Errorf("malformed record")
	}
	if rec.St == "ok" {
		switch rec.Kind {
		case "int", "rune", "float", "complex":
			if rec.Re.Rat() == nil || rec.Im.Rat() == nil || rec.Re == nil || rec.Im == nil {
				return fmt.Errorf("malformed value")
			}
		case "bool", "string":
		default:
			return fmt.Errorf("unknown kind %q", rec.Kind)
		}
		for _, T := range c04CtxOrder {
			cx := rec.Ctx[T]
			if cx == nil {
				return fmt.Errorf("missing context %s", T)
			}
			if cx.Ok && cx.Typ != "bool" && cx.Typ != "string" && (cx.Re == nil || cx.Im == nil || cx.Re.Rat() == nil || cx.Im.Rat() == nil) {
				return fmt.Errorf("malformed typed value for %s", T)
			}
		}
	}
	return nil
}

// ---------------------------------------------------------------- literal alphabets

type c04Lit struct {
	K string
	M string // decimal
	B int
	E int
	S string
}

func c04Pow(b int64, e int) string {
	return new(big.Int).Exp(big.NewInt(b), big.NewInt(int64(e)), nil).String()
}
func c04Pm(b int64, e int, d int64) string {
	x := new(big.Int).Exp(big.NewInt(b), big.NewInt(int64(e)), nil)
	return x.Add(x, big.NewInt(d)).String()
}

// c04Lits returns the literal alphabet: level 0 (quick BFS), 1 (thorough BFS), 2 (simulation).
func c04Lits(level int) []c04Lit {
	I := func(m string) c04Lit { return c04Lit{K: "int", M: m, B: 10} }
	R := func(m string) c04Lit { return c04Lit{K: "rune", M: m, B: 10} }
	F := func(m string, b, e int) c04Lit { return c04Lit{K: "float", M: m, B: b, E: e} }
	G := func(m string, b, e int) c04Lit { return c04Lit{K: "imag", M: m, B: b, E: e} }
	S := func(s string) c04Lit { return c04Lit{K: "string", M: "0", B: 10, S: s} }
	dbl := new(big.Int).Add(new(big.Int).Lsh(big.NewInt(1), 60), big.NewInt(1<<36+1)).String() // (1 + 2^-24 + 2^-60) * 2^60
	ls := []c04Lit{
		I("0"), I("1"), I("3"), I("64"), I(c04Pow(2, 63)), I(c04Pm(2, 64, -1)), I(c04Pow(2, 100)),
		R("97"),
		F("5", 10, -1), F("2", 10, 0), F(c04Pm(2, 53, 1), 10, 0), F(dbl, 2, -60), F("1", 10, 40),
		G("2", 10, 0),
		S("a:b"),
		{K: "bool", M: "1", B: 10},
	}
	if level >= 1 {
		ls = append(ls,
			I("7"), I("255"), I(c04Pow(2, 31)), I("128"), I(c04Pm(2, 63, -1)), I(c04Pow(2, 64)), I(c04Pow(2, 128)),
			R("1114111"), R("0"),
			F("15", 10, -1), F("1", 10, -1), F(c04Pm(2, 64, -1), 10, 0), F("1", 10, -46), F("0", 10, 0), F("16777217", 10, 0),
			F("34028235677973366", 10, 22), F("1", 2, -149),
			G("5", 10, -1), G("0", 10, 0),
			S(""), S("é"),
			c04Lit{K: "bool", M: "0", B: 10},
		)
	}
	if level >= 2 {
		ls = append(ls,
			I("2"), I("10"), I("127"), I("256"), I("32768"), I("65535"), I(c04Pm(2, 31, -1)), I(c04Pow(2, 32)), I(c04Pow(2, 53)),
			I(c04Pm(2, 53, 1)), I(c04Pow(10, 19)), I(c04Pow(10, 38)),
			R("19990"), R("10"),
			F("25", 10, -2), F("1", 10, 10), F("1", 2, -60), F("1", 2, -24), F("1", 10, -40),
			F("3", 2, -151), F("1", 2, -150), F("34028235677973365", 10, 22),
			F("1", 10, 19), F("3", 2, 126), F("123456789012345678901234567890", 10, -15),
			G("1", 10, 0), G("1", 10, 40), G("3", 2, -2),
			S("a"), S("b`\n"),
		)
	}
	return ls
}

func c04Limbs(dec string) string {
	n, _ := new(big.Int).SetString(dec, 10)
	var parts []string
	base := big.NewInt(10000)
	m := new(big.Int)
	for n.Sign() > 0 {
		n.DivMod(n, base, m)
		parts = append(parts, m.String())
	}
	return "<<" + strings.Join(parts, ",") + ">>"
}

func c04MCDefs(lits []c04Lit, un, bin []string) string {
	var ls []string
	for _, l := range lits {
		ls = append(ls, fmt.Sprintf(`[k |-> %q, m |-> %s, b |-> %d, e |-> %d, s |-> %s]`, l.K, c04Limbs(l.M), l.B, l.E, core.TLASeq(l.S)))
	}
	q := func(ss []string) string {
		var o []string
		for _, s := range ss {
			o = append(o, strconv.Quote(s))
		}
		return "{" + strings.Join(o, ", ") + "}"
	}
	return fmt.Sprintf("c_Lits == {%s}\nc_Un == %s\nc_Bin == %s\n", strings.Join(ls, ",\n  "), q(un), q(bin))
}

var c04Un = []string{"+", "-", "^", "!"}
var c04Bin = []string{"+", "-", "*", "/", "%", "&", "|", "^", "&^", "<<", ">>", "==", "!=", "<", "<=", ">", ">=", "&&", "||"}

func c04Cfg(maxDepth, forceOp int, trunc bool, emitMod int, emitRes int64, invs string) string {
	return fmt.Sprintf("SPECIFICATION Spec\nCONSTANTS\n Lits <- c_Lits\n UnOps <- c_Un\n BinOps <- c_Bin\n MaxDepth = %d\n ForceOpDepth = %d\n MaxLimbs = 32\n MaxShift = 200\n TruncIntQuo = %s\n EmitMod = %d\n EmitRes = %d\n EmitOn = TRUE\nINVARIANTS %s\n",
		maxDepth, forceOp, strings.ToUpper(fmt.Sprint(trunc)), emitMod, emitRes%int64(emitMod), invs)
}

const c04Invs = "TypeOK KindLaw IntDivLaw ShiftLaw BitLaw CmpLaw ReprLaw Emit"

// ---------------------------------------------------------------- (M) anchors of BigNat / Rat

// c04AnchorMC is the driver of the anchor configuration: every state is one operand tuple.
func c04AnchorMC(maxSmall, nBig, ratMax int) string {
	return fmt.Sprintf(`VARIABLE pr
Bigs == << <<>>, <<1>>, <<9999>>, <<0,1>>, <<9999,9999,9999>>, <<1616,955,7370,4674,1844>>, <<5376,320,7,4967,1,2294,8,5060,126>>,
          <<0,0,0,0,0,0,0,0,0,0,1>>, <<9999,9999,9999,9999,9999,9999,9999,9999,9999,9999,9999,9999>>,
          <<1234,5678,9012,3456,7890,1234,5678,9012,3456,7890,1234,5678,9012,3456,7890,12>>,
          <<7>>, <<8192>>, <<4999,5000>>, <<1,0,0,0,5000>>, <<3,0,0,9999>> >>
NB == %d
XS == (0..%d) \cup {9998,9999,10000,10001,10002,19999,20000,46340,99999997,99999998,99999999,100000000,100000001,100000003,214748364,2147483647}
YS(x) == IF x <= %d THEN 0..%d ELSE IF x <= 46340 THEN {0,1,2,9998,9999,10000,10001,46340}
         ELSE IF x < 2147483647 THEN {0,1,2,3,7,9,10} ELSE {0}
SX == -45..45
RM == %d
AInit == pr \in ({"bn"} \X XS \X {0} \X {0}) \cup ({"bigi"} \X (1..NB) \X (1..NB) \X {0})
                \cup ({"si"} \X {0} \X SX \X {0}) \cup ({"rat"} \X {0} \X (-RM..RM) \X (1..RM)) \cup ({"rnd"} \X {0} \X (1..66) \X {0})
ANext == \/ pr[1] = "bn" /\ pr' \in {<<"bnq", pr[2], y, 0>> : y \in YS(pr[2])}
         \/ pr[1] = "bigi" /\ pr' \in {<<"big", pr[2], pr[3], k>> : k \in 1..NB}
         \/ pr[1] = "si" /\ pr' \in {<<"siq", 1, pr[3], y>> : y \in SX \cup {4095,-4095,4096,-4096,9999,10000,-10000,46340,-46340}}
         \/ pr[1] = "rat" /\ pr' \in {<<"ratq", <<u, v>>, pr[3], pr[4]>> : u \in (-RM..RM) \cup {25,-36}, v \in (1..RM) \cup {25,36}}
         \/ pr[1] = "rnd" /\ pr' \in {<<"rndq", 0, pr[3], y>> : y \in 1..40}
AInv == CASE pr[1] = "bnq" -> BNAnchorPair(pr[2], pr[3])
          [] pr[1] = "big" -> BNAnchorBig(Bigs[pr[2]], Bigs[pr[3]], Bigs[pr[4]])
          [] pr[1] = "siq" -> SIAnchorPair(pr[3], pr[4])
          [] pr[1] = "ratq" -> RAnchorQuad(pr[3], pr[4], pr[2][1], pr[2][2])
          [] pr[1] = "rndq" -> RAnchorRound(pr[3] * 8, pr[4]) /\ RAnchorRound(pr[3], pr[4]) /\ RAnchorRound(pr[3], pr[4] * 16)
          [] OTHER -> TRUE
`, nBig, maxSmall, maxSmall, maxSmall, ratMax)
}

func c04RunAnchor(c *core.Ctx, maxSmall, nBig, ratMax int, workers int) error {
	_, err := c.TLC(core.TLCOpts{Spec: "Rat", MCDefs: c04AnchorMC(maxSmall, nBig, ratMax), CfgName: fmt.Sprintf("anchor-native-ints<=%d", maxSmall),
		Cfg: "INIT AInit\nNEXT ANext\nINVARIANT AInv\n", Workers: workers, Timeout: 40 * time.Minute})
	return err
}

// ---------------------------------------------------------------- rendering

func c04Hash(s string, seed int64) uint64 {
	h := fnv.New64a()
	h.Write([]byte(s))
	fmt.Fprintf(h, "#%d", seed)
	return h.Sum64()
}

func c04Underscore(digits string, group int) string {
	if len(digits) <= group {
		return digits
	}
	var b strings.Builder
	first := len(digits) % group
	if first == 0 {
		first = group
	}
	b.WriteString(digits[:first])
	for i := first; i < len(digits); i += group {
		b.WriteByte('_')
		b.WriteString(digits[i : i+group])
	}
	return b.String()
}

// c04IntSpelling renders the natural number m; plain reports the plain decimal spelling.
func c04IntSpelling(m *big.Int, v uint64, legacyOctal bool) (s string, plain bool) {
	n := 7
	if !legacyOctal {
		n = 6
	}
	switch v % uint64(n) {
	case 1:
		return c04Underscore(m.Text(10), 3), len(m.Text(10)) <= 3
	case 2:
		return "0x" + m.Text(16), false
	case 3:
		return "0X_" + c04Underscore(strings.ToUpper(m.Text(16)), 4), false
	case 4:
		return "0o" + m.Text(8), false
	case 5:
		if m.BitLen() <= 72 {
			return "0b" + c04Underscore(m.Text(2), 8), false
		}
		return "0B" + m.Text(2), false
	case 6:
		return "0" + m.Text(8), false
	}
	return m.Text(10), true
}

func c04FloatSpelling(m *big.Int, b, e int, v uint64) string {
	if b == 2 {
		hex := m.Text(16)
		switch v % 3 {
		case 1: // point after the first hex digit
			if len(hex) > 1 {
				return fmt.Sprintf("0X%s.%sP%+d", strings.ToUpper(hex[:1]), strings.ToUpper(hex[1:]), e+4*(len(hex)-1))
			}
			return fmt.Sprintf("0x%s.p%d", hex, e)
		case 2:
			return fmt.Sprintf("0x_%sp%+d", c04Underscore(hex, 4), e)
		}
		return fmt.Sprintf("0x%sp%d", hex, e)
	}
	dec := m.Text(10)
	switch v % 5 {
	case 1: // positional notation when the exponent is small
		if e < 0 && -e <= len(dec)+4 {
			k := -e
			if k >= len(dec) {
				return "0." + strings.Repeat("0", k-len(dec)) + dec
			}
			return dec[:len(dec)-k] + "." + dec[len(dec)-k:]
		}
		if e >= 0 && e <= 6 {
			return dec + strings.Repeat("0", e) + ".0"
		}
	case 2: // point after the first digit
		if len(dec) > 1 {
			return fmt.Sprintf("%s.%se%+03d", dec[:1], dec[1:], e+len(dec)-1)
		}
		return fmt.Sprintf("%s.e%d", dec, e)
	case 3: // leading point
		return fmt.Sprintf(".%sE%d", dec, e+len(dec))
	case 4:
		return fmt.Sprintf("%se%+d", c04Underscore(dec, 3), e)
	}
	return fmt.Sprintf("%se%d", dec, e)
}

func c04RuneSpelling(cp int64, v uint64) string {
	switch v % 4 {
	case 1:
		if cp < 256 {
			return fmt.Sprintf(`'\x%02x'`, cp)
		}
	case 2:
		if cp < 0x10000 {
			return fmt.Sprintf(`'\u%04x'`, cp)
		}
		return fmt.Sprintf(`'\U%08x'`, cp)
	case 3:
		if cp < 256 {
			return fmt.Sprintf(`'\%03o'`, cp)
		}
	}
	return strconv.QuoteRune(rune(cp))
}

// c04Render renders the tree as a fully parenthesised Go expression; variants are chosen by
// (path, seed). plain reports that every literal is in plain decimal / canonical spelling.
func c04Render(e *c04Expr, path string, seed int64) (src string, plain bool) {
	switch e.T {
	case "un":
		x, _ := c04Render(e.X, path+"x", seed)
		return "(" + e.Op + x + ")", false
	case "bin":
		x, _ := c04Render(e.X, path+"x", seed)
		y, _ := c04Render(e.Y, path+"y", seed)
		return "(" + x + " " + e.Op + " " + y + ")", false
	}
	v := c04Hash(path+"|"+e.K+e.M+fmt.Sprint(e.B, e.E, e.S), seed)
	m, _ := new(big.Int).SetString(e.M, 10)
	if m == nil {
		m = new(big.Int)
	}
	switch e.K {
	case "int":
		return c04IntSpelling(m, v, true)
	case "rune":
		s := c04RuneSpelling(m.Int64(), v)
		return s, v%4 == 0
	case "float":
		return c04FloatSpelling(m, e.B, e.E, v), false
	case "imag":
		if e.E == 0 && v%2 == 1 {
			s, _ := c04IntSpelling(m, v/2, false)
			return s + "i", false
		}
		return c04FloatSpelling(m, e.B, e.E, v/2) + "i", false
	case "string":
		s := core.BytesToString(e.S)
		if v%2 == 1 && utf8.ValidString(s) && !strings.ContainsAny(s, "`\r") {
			return "`" + s + "`", false
		}
		return strconv.Quote(s), true
	case "bool":
		if m.Sign() != 0 {
			return "true", true
		}
		return "false", true
	}
	return "BAD", false
}

// ---------------------------------------------------------------- projections

// c04ConstRat projects a go/constant numeric value (Int or Float kind) exactly.
func c04ConstRat(v constant.Value) *big.Rat {
	switch x := constant.Val(v).(type) {
	case int64:
		return new(big.Rat).SetInt64(x)
	case *big.Int:
		return new(big.Rat).SetInt(x)
	case *big.Rat:
		return new(big.Rat).Set(x)
	case *big.Float:
		if r, _ := x.Rat(nil); r != nil {
			return r
		}
	}
	return nil
}

// c04Obs is an observation of one evaluation (by Go or by gomacro).
type c04Obs struct {
	Rejected bool
	Err      string
	Kind     string // untyped kind, or the Go type in typed contexts
	Re, Im   *big.Rat
	IsBool   bool
	B        bool
	IsStr    bool
	S        string
	NegZero  bool
	NonFin   string // "+Inf", "NaN", ...
}

func (o c04Obs) String() string {
	switch {
	case o.Rejected:
		return "rejected(" + o.Err + ")"
	case o.IsBool:
		return fmt.Sprintf("%s %v", o.Kind, o.B)
	case o.IsStr:
		return fmt.Sprintf("%s %q", o.Kind, o.S)
	case o.NonFin != "":
		return o.Kind + " " + o.NonFin
	}
	s := o.Kind + " "
	if o.NegZero {
		s += "-0 (negative zero)"
	} else if o.Re != nil {
		s += o.Re.RatString()
	}
	if o.Im != nil && o.Im.Sign() != 0 {
		s += " + " + o.Im.RatString() + "i"
	}
	return s
}

func c04FromConst(kind string, v constant.Value) c04Obs {
	o := c04Obs{Kind: kind}
	switch v.Kind() {
	case constant.Bool:
		o.IsBool, o.B = true, constant.BoolVal(v)
	case constant.String:
		o.IsStr, o.S = true, constant.StringVal(v)
	case constant.Int, constant.Float:
		o.Re, o.Im = c04ConstRat(v), new(big.Rat)
	case constant.Complex:
		o.Re, o.Im = c04ConstRat(constant.Real(v)), c04ConstRat(constant.Imag(v))
	default:
		o.Rejected, o.Err = true, "unknown constant"
	}
	if !o.IsBool && !o.IsStr && !o.Rejected && (o.Re == nil || o.Im == nil) {
		o.NonFin = "unprojectable " + v.ExactString()
	}
	return o
}

func c04FloatRat(f float64, o *c04Obs, im bool) *big.Rat {
	if math.IsInf(f, 0) || math.IsNaN(f) {
		o.NonFin = fmt.Sprint(f)
		return new(big.Rat)
	}
	if f == 0 && math.Signbit(f) && !im {
		o.NegZero = true
	}
	return new(big.Rat).SetFloat64(f)
}

// c04FromValue projects a typed Go value.
func c04FromValue(x interface{}) c04Obs {
	if x == nil {
		return c04Obs{Rejected: true, Err: "nil value"}
	}
	rv := reflect.ValueOf(x)
	o := c04Obs{Kind: rv.Type().String(), Im: new(big.Rat)}
	switch a := x.(type) {
	case *big.Int:
		o.Kind, o.Re = "big.Int", new(big.Rat).SetInt(a)
		return o
	case *big.Rat:
		o.Kind, o.Re = "big.Rat", new(big.Rat).Set(a)
		return o
	case *big.Float:
		o.Kind = "big.Float"
		if a.IsInf() {
			o.NonFin = a.String()
			return o
		}
		o.Re, _ = a.Rat(nil)
		return o
	}
	switch rv.Kind() {
	case reflect.Bool:
		o.IsBool, o.B = true, rv.Bool()
	case reflect.String:
		o.IsStr, o.S = true, rv.String()
	case reflect.Int, reflect.Int8, reflect.Int16, reflect.Int32, reflect.Int64:
		o.Re = new(big.Rat).SetInt64(rv.Int())
	case reflect.Uint, reflect.Uint8, reflect.Uint16, reflect.Uint32, reflect.Uint64, reflect.Uintptr:
		o.Re = new(big.Rat).SetInt(new(big.Int).SetUint64(rv.Uint()))
	case reflect.Float32, reflect.Float64:
		o.Re = c04FloatRat(rv.Float(), &o, false)
	case reflect.Complex64, reflect.Complex128:
		o.Re = c04FloatRat(real(rv.Complex()), &o, false)
		o.Im = c04FloatRat(imag(rv.Complex()), &o, true)
	default:
		o.Rejected, o.Err = true, "unexpected value of type "+rv.Type().String()
	}
	return o
}

// ---------------------------------------------------------------- expectations

// c04Want is what the specification says about one context of one record.
type c04Want struct {
	Reject bool
	Kind   string // untyped kind or Go type
	Re, Im *big.Rat
	IsBool bool
	B      bool
	IsStr  bool
	S      string
	Approx bool // big.Float of a non-dyadic value: any approximation within 2^-52 relative
}

func (w c04Want) String() string {
	switch {
	case w.Reject:
		return "rejected"
	case w.IsBool:
		return fmt.Sprintf("%s %v", w.Kind, w.B)
	case w.IsStr:
		return fmt.Sprintf("%s %q", w.Kind, w.S)
	}
	s := w.Kind + " " + w.Re.RatString()
	if w.Im != nil && w.Im.Sign() != 0 {
		s += " + " + w.Im.RatString() + "i"
	}
	if w.Approx {
		s += " (approximately)"
	}
	return s
}

func c04WantUntyped(rec *c04Rec) c04Want {
	if rec.St == "err" {
		return c04Want{Reject: true}
	}
	switch rec.Kind {
	case "bool":
		return c04Want{Kind: "bool", IsBool: true, B: rec.B}
	case "string":
		return c04Want{Kind: "string", IsStr: true, S: core.BytesToString(rec.S)}
	}
	return c04Want{Kind: rec.Kind, Re: rec.Re.Rat(), Im: rec.Im.Rat()}
}

func c04WantCtx(rec *c04Rec, T string) (w c04Want, skip bool) {
	if rec.St == "err" {
		return c04Want{Reject: true}, false
	}
	cx := rec.Ctx[T]
	if cx.Skip {
		return w, true
	}
	if !cx.Ok {
		return c04Want{Reject: true}, false
	}
	switch cx.Typ {
	case "bool":
		return c04Want{Kind: "bool", IsBool: true, B: cx.B}, false
	case "string":
		return c04Want{Kind: "string", IsStr: true, S: core.BytesToString(cx.S)}, false
	}
	return c04Want{Kind: cx.Typ, Re: cx.Re.Rat(), Im: cx.Im.Rat(), Approx: !cx.Exact}, false
}

var c04Tol = new(big.Rat).SetFrac(big.NewInt(1), new(big.Int).Lsh(big.NewInt(1), 52))

// c04Compare returns "" when the observation is admitted by the specification, else the shape
// of the disagreement.
func c04Compare(w c04Want, o c04Obs, checkKind bool) string {
	if w.Reject {
		if o.Rejected {
			return ""
		}
		return "accepted-but-go-rejects"
	}
	if o.Rejected {
		return "rejected-but-go-accepts"
	}
	if checkKind && o.Kind != w.Kind {
		return "kind-differs"
	}
	switch {
	case w.IsBool:
		if !o.IsBool || o.B != w.B {
			return "value-differs"
		}
		return ""
	case w.IsStr:
		if !o.IsStr || o.S != w.S {
			return "value-differs"
		}
		return ""
	}
	if o.IsBool || o.IsStr || o.Re == nil || o.Im == nil || o.NonFin != "" {
		return "value-differs"
	}
	if w.Approx {
		d := new(big.Rat).Sub(o.Re, w.Re)
		d.Abs(d)
		lim := new(big.Rat).Mul(new(big.Rat).Abs(w.Re), c04Tol)
		if d.Cmp(lim) > 0 {
			return "value-differs"
		}
		return ""
	}
	if o.Re.Cmp(w.Re) != 0 || o.Im.Cmp(w.Im) != 0 {
		return "value-differs"
	}
	if o.NegZero {
		return "value-differs(negative-zero)"
	}
	return ""
}

// ---------------------------------------------------------------- the Go gate (go/types + go/constant)

func c04UntypedKindName(t types.Type) string {
	b, ok := t.(*types.Basic)
	if !ok {
		return t.String()
	}
	switch b.Kind() {
	case types.UntypedBool:
		return "bool"
	case types.UntypedInt:
		return "int"
	case types.UntypedRune:
		return "rune"
	case types.UntypedFloat:
		return "float"
	case types.UntypedComplex:
		return "complex"
	case types.UntypedString:
		return "string"
	}
	return "typed:" + b.Name()
}

func c04GoEval(src string, untypedKind bool) c04Obs {
	fset := token.NewFileSet()
	tv, err := types.Eval(fset, nil, token.NoPos, src)
	if err != nil {
		return c04Obs{Rejected: true, Err: err.Error()}
	}
	if tv.Value == nil {
		return c04Obs{Rejected: true, Err: "not a constant"}
	}
	kind := tv.Type.String()
	if untypedKind {
		kind = c04UntypedKindName(tv.Type)
	}
	return c04FromConst(kind, tv.Value)
}

var c04GoTypeName = map[string]string{"big.Int": "*big.Int", "big.Rat": "*big.Rat", "big.Float": "*big.Float"}

// c04GoDecls type-checks  var vI T_I = src  for every numeric context: rejected[T].
func c04GoDecls(src string, ctxs []string) (map[string]bool, error) {
	var b strings.Builder
	b.WriteString("package p\n")
	for i, T := range ctxs {
		fmt.Fprintf(&b, "var v%d %s = %s\n", i, T, src)
	}
	fset := token.NewFileSet()
	f, err := parser.ParseFile(fset, "p.go", b.String(), 0)
	if err != nil {
		return nil, err
	}
	rej := map[string]bool{}
	conf := types.Config{Error: func(err error) {
		if te, ok := err.(types.Error); ok {
			line := te.Fset.Position(te.Pos).Line
			if line >= 2 && line-2 < len(ctxs) {
				rej[ctxs[line-2]] = true
			}
		}
	}}
	conf.Check("p", fset, []*ast.File{f}, nil)
	return rej, nil
}

func c04IsGoCtx(T string) bool { return !strings.HasPrefix(T, "big.") && T != "default" }

// c04Gate checks the specification's record against Go. Returns "" if they agree.
func c04Gate(rec *c04Rec, src string) string {
	w := c04WantUntyped(rec)
	g := c04GoEval(src, true)
	if d := c04Compare(w, g, true); d != "" {
		return fmt.Sprintf("untyped: specification %s, Go %s (%s)", w, g, d)
	}
	if rec.St == "err" {
		return ""
	}
	var goCtx []string
	for _, T := range c04CtxOrder {
		if c04IsGoCtx(T) {
			goCtx = append(goCtx, T)
		}
	}
	rej, err := c04GoDecls(src, goCtx)
	if err != nil {
		return "cannot parse rendered declarations: " + err.Error()
	}
	for _, T := range goCtx {
		wt, skip := c04WantCtx(rec, T)
		if skip {
			continue
		}
		gt := c04GoEval(T+"("+src+")", false)
		if d := c04Compare(wt, gt, true); d != "" {
			return fmt.Sprintf("%s(e): specification %s, Go %s (%s)", T, wt, gt, d)
		}
		if rej[T] != wt.Reject {
			return fmt.Sprintf("var x %s = e: specification rejects=%v, Go rejects=%v", T, wt.Reject, rej[T])
		}
	}
	// default type: var x = e
	wd, _ := c04WantCtx(rec, "default")
	fset := token.NewFileSet()
	f, err := parser.ParseFile(fset, "p.go", "package p\nvar v = "+src+"\n", 0)
	if err != nil {
		return "cannot parse default declaration"
	}
	failed := false
	conf := types.Config{Error: func(error) { failed = true }}
	pkg, _ := conf.Check("p", fset, []*ast.File{f}, nil)
	if failed != wd.Reject {
		return fmt.Sprintf("var x = e: specification rejects=%v, Go rejects=%v", wd.Reject, failed)
	}
	if !failed && pkg != nil {
		got := pkg.Scope().Lookup("v").Type().String()
		if got == "rune" { // go/types prints the alias name
			got = "int32"
		}
		if got != wd.Kind {
			return fmt.Sprintf("var x = e: specification type %s, Go type %s", wd.Kind, got)
		}
	}
	return ""
}

// ---------------------------------------------------------------- gomacro side

type c04Interp struct {
	ir   *fast.Interp
	out  bytes.Buffer
	sunk []interface{}
	used int
}

func newC04Interp() *c04Interp {
	g := &c04Interp{ir: fast.New()}
	gl := &g.ir.Comp.Globals
	gl.Stdout = &g.out
	gl.Stderr = &g.out
	g.ir.Comp.Options |= base.OptKeepUntyped
	g.ir.DeclFunc("c04sink", func(x interface{}) { g.sunk = append(g.sunk, x) })
	func() {
		defer func() { recover() }()
		g.ir.Eval(`import "math/big"`)
	}()
	return g
}

func c04PanicText(r interface{}) string {
	s := fmt.Sprint(r)
	if len(s) > 160 {
		s = s[:160] + "…"
	}
	return s
}

// untyped evaluates src with OptKeepUntyped and projects the untyped.Lit.
func (g *c04Interp) untyped(src string) (o c04Obs) {
	g.used++
	g.out.Reset()
	defer func() {
		if r := recover(); r != nil {
			o = c04Obs{Rejected: true, Err: c04PanicText(r)}
		}
	}()
	vs, _ := g.ir.Eval(src)
	if len(vs) != 1 || !vs[0].IsValid() {
		return c04Obs{Rejected: true, Err: "no value"}
	}
	x := vs[0].ReflectValue().Interface()
	lit, ok := x.(untyped.Lit)
	if !ok {
		o = c04FromValue(x)
		o.Kind = "typed:" + o.Kind
		return o
	}
	kind := "?" + lit.Kind.String()
	switch lit.Kind {
	case untyped.Bool:
		kind = "bool"
	case untyped.Int:
		kind = "int"
	case untyped.Rune:
		kind = "rune"
	case untyped.Float:
		kind = "float"
	case untyped.Complex:
		kind = "complex"
	case untyped.String:
		kind = "string"
	}
	if lit.Val == nil {
		return c04Obs{Rejected: true, Err: "untyped.Lit without value"}
	}
	return c04FromConst(kind, lit.Val)
}

// typed evaluates src in context T; form 0: conversion T(src), form 1: { var x T = src }.
func (g *c04Interp) typed(src, T string, form int) (o c04Obs) {
	g.used++
	g.out.Reset()
	g.sunk = g.sunk[:0]
	defer func() {
		if r := recover(); r != nil {
			o = c04Obs{Rejected: true, Err: c04PanicText(r)}
		}
	}()
	g.ir.Eval(c04Stmt(src, T, form))
	if len(g.sunk) != 1 {
		return c04Obs{Rejected: true, Err: "no value observed"}
	}
	return c04FromValue(g.sunk[0])
}

// ---------------------------------------------------------------- signatures

func c04OpClass(op string) string {
	switch op {
	case "lit":
		return "lit"
	case "+", "-", "*", "/":
		return "arith" + op
	case "%", "&", "|", "^", "&^":
		return "intop" + op
	case "<<", ">>":
		return "shift"
	case "==", "!=":
		return "eq"
	case "<", "<=", ">", ">=":
		return "ord"
	case "&&", "||":
		return "logic"
	case "!":
		return "not"
	}
	return op
}

func c04UnClass(rec *c04Rec) string {
	if len(rec.Root.Ks) == 1 && rec.Root.Op != "lit" {
		return "unary" + rec.Root.Op
	}
	return c04OpClass(rec.Root.Op)
}

// c04ValueClass names the specification-level predicates of the result value that matter for
// conversions: kind class, 64-bit integer range (integer kinds), exact representability in
// binary64 (float and complex kinds).
func c04ValueClass(rec *c04Rec) string {
	ex := "inexact-float64"
	if rec.Exact64 {
		ex = "exact-float64"
	}
	switch rec.Kind {
	case "bool", "string":
		return rec.Kind
	case "int", "rune":
		switch {
		case rec.Ctx["int64"].Ok:
			return "intkind|in-int64"
		case rec.Ctx["uint64"].Ok:
			return "intkind|in-uint64"
		}
		return "intkind|beyond-64-bits"
	case "float":
		return "float|" + ex
	}
	if rec.Im.Rat().Sign() == 0 {
		return "complex|imag=0|" + ex
	}
	return "complex|imag#0|" + ex
}

// c04TargetClass groups typed contexts that share one conversion path in the specification.
func c04TargetClass(rec *c04Rec, T string) string {
	if T == "default" && rec.St == "ok" {
		T = rec.Ctx["default"].Typ
		if T == "" {
			T = map[string]string{"int": "int", "rune": "int32", "float": "float64", "complex": "complex128"}[rec.Kind]
		}
	}
	switch T {
	case "float32", "complex64":
		return "binary32"
	case "float64", "complex128":
		return "binary64"
	case "int", "int64", "uint", "uint64", "uintptr":
		return "int-64bit"
	}
	return T
}

func c04Sig(rec *c04Rec, ctx, shape string) string {
	if rec.St == "err" {
		if ctx != "untyped" {
			ctx = "typed"
		}
		at := c04UnClass(rec)
		if rec.At != "" {
			at = rec.At
			if !strings.HasPrefix(at, "unary") {
				at = c04OpClass(at)
			}
		}
		return fmt.Sprintf("const(%s:%s,%s):%s", at, rec.Why, ctx, shape)
	}
	if ctx == "untyped" {
		return fmt.Sprintf("const(%s[%s],untyped):%s", c04UnClass(rec), strings.Join(rec.Root.Ks, ","), shape)
	}
	why := ""
	if cx := rec.Ctx[ctx]; cx != nil && !cx.Ok {
		why = "," + cx.Why
	}
	return fmt.Sprintf("const(%s,%s%s):%s", c04ValueClass(rec), c04TargetClass(rec, ctx), why, shape)
}

// ---------------------------------------------------------------- checking one record

type c04Mismatch struct {
	Ctx   string
	Form  int
	Stmt  string
	Want  string
	Got   string
	Shape string
}

func c04GoT(T string) string {
	if n, ok := c04GoTypeName[T]; ok {
		return n
	}
	return T
}

// c04Stmt is the statement evaluated by gomacro for context T; form 0: conversion, 1: declaration.
func c04Stmt(src, T string, form int) string {
	switch {
	case T == "default":
		return "{ var x = " + src + "; c04sink(x) }"
	case form == 0:
		return "c04sink(" + c04GoT(T) + "(" + src + "))"
	}
	return "{ var x " + c04GoT(T) + " = " + src + "; c04sink(x) }"
}

// c04CheckOn evaluates the record on interpreter g; only (ctx, form) pairs selected by `only`
// (nil = all contexts, one form per context chosen by hash) are run.
func c04CheckOn(g *c04Interp, rec *c04Rec, src string, seed int64, only *c04Mismatch) []c04Mismatch {
	var mm []c04Mismatch
	if only == nil || only.Ctx == "untyped" {
		w := c04WantUntyped(rec)
		o := g.untyped(src)
		if d := c04Compare(w, o, true); d != "" {
			mm = append(mm, c04Mismatch{Ctx: "untyped", Stmt: src, Want: w.String(), Got: o.String(), Shape: d})
		}
	}
	for i, T := range c04CtxOrder {
		if only != nil && only.Ctx != T {
			continue
		}
		if rec.St == "err" && T != "default" {
			continue // an invalid expression is invalid in every context: two contexts suffice
		}
		w, skip := c04WantCtx(rec, T)
		if skip {
			continue
		}
		forms := []int{int((c04Hash(src, seed) >> uint(i)) & 1)}
		if strings.HasPrefix(T, "big.") || T == "default" {
			forms = []int{1}
		}
		if only != nil {
			forms = []int{only.Form}
		}
		for _, form := range forms {
			o := g.typed(src, T, form)
			if d := c04Compare(w, o, true); d != "" {
				mm = append(mm, c04Mismatch{Ctx: T, Form: form, Stmt: c04Stmt(src, T, form),
					Want: w.String(), Got: o.String(), Shape: d})
			}
		}
	}
	return mm
}

type c04Runner struct {
	c        *core.Ctx
	mu       sync.Mutex
	seen     map[uint64]bool
	firstErr error
	gateMsgs int
	jobs     chan []byte
	wg       sync.WaitGroup
	keep     func(line []byte) bool
	nSample  int
}

func (r *c04Runner) fail(err error) {
	r.mu.Lock()
	if r.firstErr == nil {
		r.firstErr = err
	}
	r.mu.Unlock()
}

func c04Nontrivial(rec *c04Rec, plain bool) bool { return rec.Expr.T != "lit" || !plain }

// handle processes one record on the worker's interpreter (returns the interpreter to keep).
func (r *c04Runner) handle(g *c04Interp, line []byte) *c04Interp {
	c := r.c
	var rec c04Rec
	if err := json.Unmarshal(line, &rec); err != nil {
		r.fail(core.Infra("bad record from TLC: %v", err))
		return g
	}
	if err := c04Validate(&rec); err != nil {
		r.fail(core.Infra("bad record from TLC: %v: %s", err, line))
		return g
	}
	src, plain := c04Render(rec.Expr, "", c.Seed)
	// Go gate
	if why := c04Gate(&rec, src); why != "" {
		c.Gate(false)
		r.mu.Lock()
		if r.gateMsgs < 5 {
			r.gateMsgs++
			fmt.Printf("GATE-REJECT property=C04 (specification disagrees with go/types; tree dropped): %s: %s\n", src, why)
		}
		r.mu.Unlock()
		return g
	}
	c.Gate(true)
	if g == nil || g.used > 4000 {
		g = newC04Interp()
	}
	mm := c04CheckOn(g, &rec, src, c.Seed, nil)
	nt := c04Nontrivial(&rec, plain)
	c.Case(src+"|untyped", nt)
	for _, T := range c04CtxOrder {
		if rec.St == "ok" || T == "default" {
			c.Case(src+"|"+T, nt)
		}
	}
	c.Trace()
	r.mu.Lock()
	if r.nSample < 5 && rec.Expr.T == "bin" && rec.St == "ok" && (rec.Expr.X.T != "lit" || r.nSample < 2) {
		r.nSample++
		r.mu.Unlock()
		c.Sample(map[string]interface{}{"expression": src, "kind": rec.Kind, "re": rec.Re, "im": rec.Im, "int8": rec.Ctx["int8"], "float32": rec.Ctx["float32"], "big.Float": rec.Ctx["big.Float"]})
	} else {
		r.mu.Unlock()
	}
	if len(mm) == 0 {
		return g
	}
	// confirm every disagreement in a fresh interpreter
	fresh := newC04Interp()
	for _, m := range mm {
		m := m
		again := c04CheckOn(fresh, &rec, src, c.Seed, &m)
		if len(again) == 0 {
			r.fail(core.Infra("disagreement not reproducible in a fresh interpreter: %s: specification %s, observed %s", m.Stmt, m.Want, m.Got))
			continue
		}
		a := again[0]
		if dump := os.Getenv("C04_DUMP"); dump != "" {
			r.mu.Lock()
			if f, err := os.OpenFile(dump, os.O_APPEND|os.O_CREATE|os.O_WRONLY, 0o644); err == nil {
				fmt.Fprintf(f, "%s\t%s\t%s\t%s\n", c04Sig(&rec, a.Ctx, a.Shape), a.Stmt, a.Want, a.Got)
				f.Close()
			}
			r.mu.Unlock()
		}
		what := fmt.Sprintf("%s\n  specification (= go/types): %s\n  gomacro: %s", a.Stmt, a.Want, a.Got)
		c.Violation(c04Sig(&rec, a.Ctx, a.Shape), what, map[string]interface{}{"record": json.RawMessage(line), "source": src, "context": a.Ctx,
			"form": a.Form, "statement": a.Stmt, "expected": a.Want, "observed": a.Got, "variant_seed": c.Seed})
	}
	return nil // do not reuse an interpreter that showed a disagreement
}

func newC04Runner(c *core.Ctx, workers int) *c04Runner {
	r := &c04Runner{c: c, seen: map[uint64]bool{}, jobs: make(chan []byte, 4096)}
	for k := 0; k < workers; k++ {
		r.wg.Add(1)
		go func() {
			defer r.wg.Done()
			var g *c04Interp
			for line := range r.jobs {
				func() {
					defer func() {
						if p := recover(); p != nil {
							r.fail(core.Infra("harness panic on %s: %v", line, p))
							g = nil
						}
					}()
					g = r.handle(g, line)
				}()
			}
		}()
	}
	return r
}

// onLine is the TLC callback: de-duplicates and queues.
func (r *c04Runner) onLine(line []byte) {
	h := fnv.New64a()
	h.Write(line)
	k := h.Sum64()
	r.mu.Lock()
	dup := r.seen[k]
	r.seen[k] = true
	r.mu.Unlock()
	if dup || (r.keep != nil && !r.keep(line)) {
		return
	}
	r.jobs <- append([]byte(nil), line...)
}

func (r *c04Runner) close() error {
	close(r.jobs)
	r.wg.Wait()
	return r.firstErr
}

func c04Workers() int {
	w := runtime.NumCPU() / 2
	if w > 8 {
		w = 8
	}
	if w < 2 {
		w = 2
	}
	return w
}

func runC04(c *core.Ctx) error {
	tlcW := 6
	// (M) limb arithmetic anchored to native integers
	if err := c04RunAnchor(c, c.Pick(40, 300), c.Pick(8, 15), c.Pick(5, 9), tlcW); err != nil {
		return err
	}
	r := newC04Runner(c, c04Workers())
	// (M)+(R) every tree of depth <= 2 over the alphabet
	lits := c04Lits(c.Pick(0, 1))
	_, err := c.TLC(core.TLCOpts{Spec: "ConstArith", MCDefs: c04MCDefs(lits, c04Un, c04Bin), CfgName: "trees-depth2-bfs",
		Cfg: c04Cfg(2, 0, true, 1, 0, c04Invs), Workers: tlcW, OnLine: r.onLine, Timeout: 40 * time.Minute})
	if err != nil {
		r.close()
		return err
	}
	c.Exhaustive = true
	// (R) depth 3, larger alphabet and magnitudes, seeded simulation. TLC enumerates every
	// completion of the last open leaf of a trace; the specification itself keeps one
	// completion in EmitMod (TreeHash), so that only sampled trees are evaluated.
	_, err = c.TLC(core.TLCOpts{Spec: "ConstArith", MCDefs: c04MCDefs(c04Lits(2), c04Un, c04Bin), CfgName: "trees-depth3-sim",
		Cfg: c04Cfg(3, 1, true, c.Pick(12, 8), c.Seed, c04Invs), Simulate: true, SimNum: c.Pick(60, 700), SimDepth: 9, Seed: c.Seed,
		Workers: tlcW, OnLine: r.onLine, Timeout: 40 * time.Minute})
	if err2 := r.close(); err == nil {
		err = err2
	}
	c.Assume("amd64: int, uint, uintptr are 64 bits wide")
	c.Assume("magnitudes bounded by 10^128 (32 limbs), shift counts <= 200, decimal exponents within +-46, binary exponents within +-151; beyond that go/constant leaves the exact *big.Rat regime (documented)")
	c.Assume("excluded as documented by gomacro: shifts whose left operand is a float- or complex-kind constant, non-constant shift counts; complex shift counts and complex-to-big conversions are not modelled")
	c.Assume("*big.Float of a non-dyadic constant is an approximation: only 2^-52 relative accuracy is required (documented precision regime)")
	return err
}

func replayC04(c *core.Ctx, raw json.RawMessage) error {
	var w struct {
		Record json.RawMessage `json:"record"`
		Seed   int64           `json:"variant_seed"`
	}
	if err := json.Unmarshal(raw, &w); err != nil {
		return err
	}
	var rec c04Rec
	if err := json.Unmarshal(w.Record, &rec); err != nil {
		return err
	}
	if err := c04Validate(&rec); err != nil {
		return err
	}
	c.Seed = w.Seed
	src, _ := c04Render(rec.Expr, "", c.Seed)
	if why := c04Gate(&rec, src); why != "" {
		return core.Infra("go gate rejects the stored record: %s", why)
	}
	g := newC04Interp()
	mm := c04CheckOn(g, &rec, src, c.Seed, nil)
	// both forms for a replay
	for _, m := range mm {
		what := fmt.Sprintf("%s\n  specification (= go/types): %s\n  gomacro: %s", m.Stmt, m.Want, m.Got)
		c.Violation(c04Sig(&rec, m.Ctx, m.Shape), what, map[string]interface{}{"record": w.Record, "source": src, "context": m.Ctx,
			"form": m.Form, "statement": m.Stmt, "expected": m.Want, "observed": m.Got, "variant_seed": c.Seed})
	}
	return nil
}

func selfTestC04(c *core.Ctx) error {
	// 1. broken variant: integer division done as rational division must violate IntDivLaw
	small := []c04Lit{{K: "int", M: "7", B: 10}, {K: "int", M: "2", B: 10}, {K: "rune", M: "97", B: 10}}
	res, err := c.TLC(core.TLCOpts{Spec: "ConstArith", MCDefs: c04MCDefs(small, []string{"-"}, []string{"/", "+"}), CfgName: "broken-int-quo",
		Cfg: strings.Replace(c04Cfg(2, 0, false, 1, 0, "IntDivLaw KindLaw"), "EmitOn = TRUE", "EmitOn = FALSE", 1), ExpectError: true, Workers: 2})
	if err != nil {
		return err
	}
	if res.Violated != "IntDivLaw" && res.Violated != "KindLaw" {
		return fmt.Errorf("broken variant TruncIntQuo=FALSE not detected by TLC (violated=%q)\n%s", res.Violated, res.Output)
	}
	// the unbroken model passes the same configuration
	var lines [][]byte
	_, err = c.TLC(core.TLCOpts{Spec: "ConstArith", MCDefs: c04MCDefs(small, []string{"-"}, []string{"/", "+"}), CfgName: "selftest-good",
		Cfg: c04Cfg(2, 0, true, 1, 0, c04Invs), Workers: 2, OnLine: func(l []byte) { lines = append(lines, append([]byte(nil), l...)) }})
	if err != nil {
		return err
	}
	// 2. a correct record is accepted by gate and replay; corrupted ones are rejected
	var pick []byte
	for _, l := range lines {
		if bytes.Contains(l, []byte(`"op":"/"`)) && bytes.Contains(l, []byte(`"m":"7"`)) && bytes.Contains(l, []byte(`"st":"ok"`)) {
			var rec c04Rec
			json.Unmarshal(l, &rec)
			if rec.Expr.T == "bin" && rec.Expr.X.M == "7" && rec.Expr.Y.M == "2" && rec.Expr.X.K == "int" && rec.Expr.Y.K == "int" {
				pick = l
			}
		}
	}
	if pick == nil {
		return fmt.Errorf("selftest: record for 7/2 not emitted (%d records)", len(lines))
	}
	var rec c04Rec
	json.Unmarshal(pick, &rec)
	src, _ := c04Render(rec.Expr, "", 1)
	if why := c04Gate(&rec, src); why != "" {
		return fmt.Errorf("correct record rejected by the gate: %s", why)
	}
	g := newC04Interp()
	if mm := c04CheckOn(g, &rec, src, 1, nil); len(mm) != 0 {
		return fmt.Errorf("correct record rejected by the replay: %+v", mm)
	}
	corrupt := func(name string, mut func(r *c04Rec)) error {
		var r2 c04Rec
		json.Unmarshal(pick, &r2)
		mut(&r2)
		if why := c04Gate(&r2, src); why == "" {
			return fmt.Errorf("corrupted record (%s) accepted by the gate", name)
		}
		if mm := c04CheckOn(g, &r2, src, 1, nil); len(mm) == 0 {
			return fmt.Errorf("corrupted record (%s) accepted by the replay", name)
		}
		return nil
	}
	if err := corrupt("value 7/2 as a rational", func(r *c04Rec) { r.Re = &c04Rat{Num: "7", Den: "2"} }); err != nil {
		return err
	}
	if err := corrupt("kind", func(r *c04Rec) { r.Kind = "float" }); err != nil {
		return err
	}
	if err := corrupt("int8 context rejects", func(r *c04Rec) { r.Ctx["int8"] = &c04Ctx{Ok: false} }); err != nil {
		return err
	}
	if err := corrupt("float32 value", func(r *c04Rec) { r.Ctx["float32"].Re = &c04Rat{Num: "7", Den: "2"} }); err != nil {
		return err
	}
	if err := corrupt("big.Int value", func(r *c04Rec) {
		r.Ctx["uint8"] = &c04Ctx{Ok: false}
		r.Ctx["big.Int"].Re = &c04Rat{Num: "4", Den: "1"}
	}); err != nil {
		return err
	}
	// malformed record
	var bad c04Rec
	json.Unmarshal([]byte(`{"expr":{"t":"lit","k":"int","m":"1","b":10},"st":"ok","kind":"int"}`), &bad)
	if c04Validate(&bad) == nil {
		return fmt.Errorf("malformed record accepted")
	}
	return nil
}

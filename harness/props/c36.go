package props

import (
	"bytes"
	"encoding/json"
	"fmt"
	gotoken "go/token"
	"os"
	"reflect"
	"sort"
	"strings"
	"sync"
	"time"

	"github.com/cosmos72/gomacro/fast"
	"github.com/cosmos72/gomacro/imports"

	"verif/harness/core"
)

// C36: code completion. Spec: spec/shell/Complete.tla.
// (M) TLC checks, in every generated state and for every query of the bounded set, that the
//     implementation-level mechanism (Comp-chain walk + sortUnique, breadth-first VisitFields +
//     collectMethods) computes the set-comprehension definition of the candidates, that results
//     are strictly sorted, carry the typed prefix, obey the reassembly law and grow monotonically
//     with declarations; broken variants of the mechanism are rejected (selftest).
// (R) the declarations of every TLC state are evaluated on a real interpreter (main scope and
//     one inner interpreter on top of it; the synthetic package "verif/syn" is registered in
//     imports.Packages by this file) and Interp.CompleteWords(line, pos) is compared with the
//     model's (head, completions, tail) for every query; simulated histories are replayed on ONE
//     live interpreter per trace, all queries asked again after every further declaration.
// The Go side renders the catalogue (to TLA+ and to Go source), drives and compares; the
// expected answers come from the TLA+ module only.
//
// Signatures: complete(<single|dotted>[+after-digits|+blank-before-cursor],<what the chain prefix
// resolves to in the model, or * when word splitting is at stake>):<missing-candidate|
// extra-candidate|unsorted|duplicate|head-tail-differs|panics>.
// Genuine defects found on the unchanged tree (proposed known_findings entries are in
// known_findings.c36.json): methods promoted through an embedded POINTER missing; methods of a
// plain (non-embedded) field's type offered; an intermediate word on a pointer never resolves;
// "nil." panics; a blank before the cursor breaks the reassembly; a selector on a call result
// completes as a global word; a word preceded by two digits is not recognised.

func init() {
	core.Register(&core.Prop{
		ID: "C36",
		Rule: "TLC enumerates interpreter states = dependency-closed sets of catalogue declarations (struct types with embedded fields by value/pointer to depth 2, methods, variables, functions, constants, names shadowing the universe and the outer scope, import of a synthetic package) exhaustively over a core catalogue (BFS) and by seeded random declaration histories over the full one (simulation, one live interpreter per trace); " +
			"in every state every (line, cursor, scope) of a bounded query set (single words, dotted chains of 2-4 words; cursor at the end, inside a word, beyond the end; leading text, text after the cursor, blanks around dots and before the cursor, a call or digits before the chain) is completed by the model and by Interp.CompleteWords; " +
			"a case is one (state, query); non-trivial = the specification offers at least one completion; distinct by (declared set, query)",
		Run:      runC36,
		Replay:   replayC36,
		SelfTest: selfTestC36,
	})
	c36RegisterPkg()
}

// ---------------------------------------------------------------------------
// the synthetic imported package (its description for the model is c36Pkg below)

type C36Bt struct {
	Fa  int
	Fab string
}

func (C36Bt) Ma()  {}
func (*C36Bt) Mp() {}

const c36PkgPath = "verif/syn"

var c36Vt C36Bt
var c36Vp = &C36Bt{}

func c36RegisterPkg() {
	imports.Packages[c36PkgPath] = imports.Package{
		Name: "syn",
		Binds: map[string]reflect.Value{
			"Ba":  reflect.ValueOf(7),
			"Bab": reflect.ValueOf(func() int { return 1 }),
			"Vt":  reflect.ValueOf(&c36Vt).Elem(),
			"Vp":  reflect.ValueOf(&c36Vp).Elem(),
		},
		Types: map[string]reflect.Type{"Bt": reflect.TypeOf(C36Bt{})},
	}
}

// ---------------------------------------------------------------------------
// catalogue: ONE table, rendered to the model's constant Items and to Go source

type c36Type struct{ K, N string }

type c36Field struct {
	Name string
	Typ  c36Type
	Emb  bool
}

type c36Item struct {
	K, Scope, Name, Recv string
	Ptr                  bool
	Fields               []c36Field
	Typ                  c36Type
	Deps                 []int // item ids (1-based)
}

func c36Int() c36Type           { return c36Type{"basic", "int"} }
func c36Str() c36Type           { return c36Type{"basic", "string"} }
func c36Named(n string) c36Type { return c36Type{"named", n} }
func c36Ptr(n string) c36Type   { return c36Type{"ptr", n} }

// ids are positions (1-based) in this slice
var c36Items = []c36Item{
	/* 1*/ {K: "import", Scope: "main", Name: "syn"},
	/* 2*/ {K: "type", Scope: "main", Name: "In", Fields: []c36Field{{"Xa", c36Int(), false}, {"xb", c36Int(), false}}},
	/* 3*/ {K: "method", Scope: "main", Recv: "In", Name: "Mi", Deps: []int{2}},
	/* 4*/ {K: "method", Scope: "main", Recv: "In", Name: "Mq", Ptr: true, Deps: []int{2}},
	/* 5*/ {K: "type", Scope: "main", Name: "Mid", Fields: []c36Field{{"In", c36Named("In"), true}, {"Ya", c36Int(), false}}, Deps: []int{2}},
	/* 6*/ {K: "method", Scope: "main", Recv: "Mid", Name: "Mm", Deps: []int{5}},
	/* 7*/ {K: "method", Scope: "main", Recv: "Mid", Name: "Xam", Ptr: true, Deps: []int{5}},
	/* 8*/ {K: "type", Scope: "main", Name: "Out", Fields: []c36Field{{"Mid", c36Named("Mid"), true}, {"Za", c36Int(), false}}, Deps: []int{5}},
	/* 9*/ {K: "type", Scope: "main", Name: "Op", Fields: []c36Field{{"Mid", c36Ptr("Mid"), true}, {"Zb", c36Int(), false}}, Deps: []int{5}},
	/*10*/ {K: "type", Scope: "main", Name: "Fw", Fields: []c36Field{{"F", c36Named("In"), false}, {"Xc", c36Int(), false}}, Deps: []int{2}},
	/*11*/ {K: "type", Scope: "main", Name: "Sh", Fields: []c36Field{{"In", c36Named("In"), true}, {"Xa", c36Str(), false}}, Deps: []int{2}},
	/*12*/ {K: "var", Scope: "main", Name: "ob", Typ: c36Named("Out"), Deps: []int{8}},
	/*13*/ {K: "var", Scope: "main", Name: "obp", Typ: c36Ptr("Out"), Deps: []int{8}},
	/*14*/ {K: "var", Scope: "main", Name: "op", Typ: c36Named("Op"), Deps: []int{9}},
	/*15*/ {K: "var", Scope: "main", Name: "fw", Typ: c36Named("Fw"), Deps: []int{10}},
	/*16*/ {K: "var", Scope: "main", Name: "sh", Typ: c36Named("Sh"), Deps: []int{11}},
	/*17*/ {K: "var", Scope: "main", Name: "sv", Typ: c36Type{"pkgtype", "Bt"}, Deps: []int{1}},
	/*18*/ {K: "func", Scope: "main", Name: "fo"},
	/*19*/ {K: "var", Scope: "main", Name: "fob", Typ: c36Int()},
	/*20*/ {K: "const", Scope: "main", Name: "foc"},
	/*21*/ {K: "var", Scope: "main", Name: "len", Typ: c36Int()}, // shadows a universe builtin
	/*22*/ {K: "var", Scope: "main", Name: "sy", Typ: c36Str()},
	/*23*/ {K: "var", Scope: "inner", Name: "foz", Typ: c36Int()},
	/*24*/ {K: "var", Scope: "inner", Name: "fob", Typ: c36Named("Out"), Deps: []int{8}}, // shadows main's fob
	/*25*/ {K: "type", Scope: "inner", Name: "Inz", Fields: []c36Field{{"Q", c36Int(), false}}},
	/*26*/ {K: "var", Scope: "main", Name: "mid", Typ: c36Named("Mid"), Deps: []int{5}},
}

// the core catalogue explored exhaustively (every dependency-closed subset)
var c36CoreQuick = []int{1, 2, 3, 5, 6, 9, 10, 14, 15, 19, 24, 8}
var c36CoreThorough = []int{1, 19, 2, 3, 5, 6, 8, 9, 10, 12, 14, 15, 24}

type c36PkgMember struct {
	Name, K string
	Typ     c36Type
}

var c36PkgMembers = []c36PkgMember{
	{"Ba", "value", c36Int()},
	{"Bab", "value", c36Type{"func", ""}},
	{"Vt", "value", c36Type{"pkgtype", "Bt"}},
	{"Vp", "value", c36Type{"pkgptr", "Bt"}},
	{"Bt", "type", c36Type{"pkgtype", "Bt"}},
}
var c36PkgTypeFields = []c36Field{{"Fa", c36Int(), false}, {"Fab", c36Str(), false}}
var c36PkgTypeMethods = []string{"Ma", "Mp"}

func c36TypeSrc(t c36Type) string {
	switch t.K {
	case "named", "basic":
		return t.N
	case "ptr":
		return "*" + t.N
	case "pkgtype":
		return "syn." + t.N
	case "pkgptr":
		return "*syn." + t.N
	}
	return "int"
}

func c36Src(it *c36Item) string {
	switch it.K {
	case "import":
		return fmt.Sprintf("import %q", c36PkgPath)
	case "type":
		var fs []string
		for _, f := range it.Fields {
			if f.Emb {
				fs = append(fs, c36TypeSrc(f.Typ))
			} else {
				fs = append(fs, f.Name+" "+c36TypeSrc(f.Typ))
			}
		}
		return fmt.Sprintf("type %s struct { %s }", it.Name, strings.Join(fs, "; "))
	case "method":
		if it.Ptr {
			return fmt.Sprintf("func (r *%s) %s() {}", it.Recv, it.Name)
		}
		return fmt.Sprintf("func (r %s) %s() {}", it.Recv, it.Name)
	case "var":
		return fmt.Sprintf("var %s %s", it.Name, c36TypeSrc(it.Typ))
	case "func":
		return fmt.Sprintf("func %s() int { return 1 }", it.Name)
	case "const":
		return fmt.Sprintf("const %s = 5", it.Name)
	}
	return ""
}

func c36TLAType(t c36Type) string {
	n := t.N
	if t.K == "basic" || t.K == "func" || t.K == "untyped" {
		n = ""
	}
	return fmt.Sprintf("[k |-> %q, n |-> %s]", t.K, core.TLASeq(n))
}

func c36TLAFields(fs []c36Field) string {
	var out []string
	for _, f := range fs {
		out = append(out, fmt.Sprintf("[name |-> %s, typ |-> %s, emb |-> %s]", core.TLASeq(f.Name), c36TLAType(f.Typ), strings.ToUpper(fmt.Sprint(f.Emb))))
	}
	return "<<" + strings.Join(out, ", ") + ">>"
}

func c36TLAInts(xs []int) string {
	var out []string
	for _, x := range xs {
		out = append(out, fmt.Sprint(x))
	}
	return "{" + strings.Join(out, ", ") + "}"
}

func c36TLASeqOfNames(ns []string) string {
	var out []string
	for _, n := range ns {
		out = append(out, core.TLASeq(n))
	}
	return "<<" + strings.Join(out, ", ") + ">>"
}

// ---------------------------------------------------------------------------
// queries: the bounded set of (line, cursor, scope)

type c36Query struct {
	Line  string
	Pos   int
	View  string
	Shape string // signature part: single|dotted, plus the context when the context is what is tested
	Deco  string // descriptive: chain length and decoration
}

func c36IdChar(b byte) bool {
	return b == '_' || b >= '0' && b <= '9' || b >= 'a' && b <= 'z' || b >= 'A' && b <= 'Z'
}

var c36ShapeNames = []string{"", "single", "pair", "triple", "quad", "quint"}

// c36Queries builds the bounded query set. level 0 = minimal, 1 = quick, 2 = thorough,
// 3 = every chain undecorated plus all decorations of three chains (exhaustive state runs).
func c36Queries(level int) []c36Query {
	var qs []c36Query
	seen := map[string]bool{}
	add := func(line string, pos int, view string, nwords int, deco string) {
		k := fmt.Sprintf("%s|%d|%s", line, pos, view)
		if seen[k] {
			return
		}
		seen[k] = true
		shape := "dotted"
		if nwords == 1 {
			shape = "single"
		}
		if deco == "after-digits" || deco == "blank-before-cursor" && pos >= 2 && pos <= len(line) && c36IdChar(line[pos-2]) {
			shape += "+" + deco
		}
		d := c36ShapeNames[nwords]
		if deco != "" {
			d += "+" + deco
		}
		qs = append(qs, c36Query{line, pos, view, shape, d})
	}
	// chains, as word lists
	var chains [][]string
	singleSet := map[string]bool{}
	addSingle := func(w string) {
		if !singleSet[w] {
			singleSet[w] = true
			chains = append(chains, []string{w})
		}
	}
	addSingle("")
	for i := range c36Items {
		it := &c36Items[i]
		if it.K == "method" {
			continue
		}
		for j := 1; j <= len(it.Name); j++ {
			addSingle(it.Name[:j])
		}
	}
	for _, w := range []string{"fobx", "synx", "z", "i", "in", "ma", "n", "t", "ty", "fa", "fo1"} {
		addSingle(w)
	}
	for _, h := range []string{"ob", "obp", "op", "fw", "sh", "sv", "mid", "fob"} {
		for _, l := range []string{"", "X", "Xa", "M"} {
			chains = append(chains, []string{h, l})
		}
	}
	for _, h := range []string{"In", "Mid", "Out", "Op", "Fw", "Sh"} {
		for _, l := range []string{"", "M"} {
			chains = append(chains, []string{h, l})
		}
	}
	for _, h := range []string{"fo", "foc", "len", "sy", "foz", "Inz", "nil", "int", "true", "zz"} {
		chains = append(chains, []string{h, ""})
	}
	for _, l := range []string{"", "B", "Ba", "V", "F", "b"} {
		chains = append(chains, []string{"syn", l})
	}
	for _, c := range [][]string{
		{"ob", "Mid", ""}, {"ob", "Mid", "X"}, {"ob", "In", ""}, {"ob", "Za", ""}, {"ob", "Mm", ""}, {"ob", "Zz", ""}, {"ob", "Xa", ""},
		{"obp", "Mid", ""}, {"op", "Mid", ""}, {"op", "In", "M"}, {"op", "Zb", ""}, {"fw", "F", ""}, {"fw", "F", "M"}, {"fw", "Xc", ""},
		{"sh", "Xa", ""}, {"sh", "In", "X"}, {"sv", "Fa", ""}, {"mid", "In", ""}, {"mid", "In", "x"},
		{"syn", "Bt", ""}, {"syn", "Bt", "M"}, {"syn", "Vt", ""}, {"syn", "Vt", "F"}, {"syn", "Vp", ""}, {"syn", "Ba", ""}, {"syn", "Bab", ""}, {"syn", "Zz", ""},
		{"Out", "Mid", ""}, {"Op", "Mid", "M"}, {"fob", "Mid", ""}, {"fob", "Za", ""}, {"zz", "Mid", ""}, {"ob", "", "X"},
		{"ob", "Mid", "In", ""}, {"ob", "Mid", "In", "X"}, {"op", "Mid", "In", ""}, {"ob", "Mid", "Mm", ""}, {"syn", "Vt", "Fa", ""}, {"syn", "syn", "B"},
		{"ob", "Mid", "In", "Xa", ""},
	} {
		chains = append(chains, c)
	}
	innerHeads := map[string]bool{"fob": true, "foz": true, "Inz": true, "ob": true, "In": true, "syn": true, "zz": true}
	decorate := func(ws []string, d int) {
		n := len(ws)
		ch := strings.Join(ws, ".")
		last := ws[n-1]
		switch d {
		case 0:
			add("x := "+ch, len(ch)+5, "main", n, "lead")
		case 1:
			add("a.b + "+ch, len(ch)+6, "main", n, "lead-dotted")
		case 2:
			add("f("+ch, len(ch)+2, "main", n, "lead-paren")
		case 3:
			add(ch+") + 1", len(ch), "main", n, "text-after")
		case 4:
			if len(last) >= 2 {
				add(ch, len(ch)-1, "main", n, "cursor-in-word")
			} else {
				add(ch+"zz", len(ch), "main", n, "cursor-in-word")
			}
		case 5:
			if n == 1 {
				add("  "+ch, len(ch)+2, "main", n, "blanks")
			} else {
				s := strings.Join(ws, " . ")
				add(s, len(s), "main", n, "blanks-around-dots")
			}
		case 6:
			add(ch+" ", len(ch)+1, "main", n, "blank-before-cursor")
		case 7:
			add("g()."+ch, len(ch)+4, "main", n, "after-call-dot")
		case 8:
			add("12"+ch, len(ch)+2, "main", n, "after-digits")
		case 9:
			add(ch, len(ch)+3, "main", n, "pos-beyond-end")
		case 10:
			add("1"+ch, len(ch)+1, "main", n, "after-digit")
		case 11:
			if n > 1 {
				add(ch, 1, "main", 1, "cursor-in-head")
			} else {
				add(ch+" . ", len(ch)+3, "main", 2, "blanks-around-dots")
			}
		}
	}
	const ndeco = 12
	for i, ws := range chains {
		ch := strings.Join(ws, ".")
		if level == 0 && i%5 != 0 {
			continue
		}
		add(ch, len(ch), "main", len(ws), "")
		if level == 3 { // plain chains only (state-dependent part); decorations exercise word splitting
			if len(ws) == 1 && i%3 == 0 || len(ws) > 1 && innerHeads[ws[0]] {
				add(ch, len(ch), "inner", len(ws), "")
			}
			continue
		}
		if (len(ws) == 1 && (level == 2 || i%3 == 0)) || (len(ws) > 1 && innerHeads[ws[0]] && (level == 2 || i%2 == 0)) {
			add(ch, len(ch), "inner", len(ws), "")
		}
		if level == 2 || i%2 == 1 {
			decorate(ws, (i/2)%ndeco)
		}
	}
	// every decoration on a few chosen chains
	full := [][]string{{"fo"}, {"syn", "B"}, {"op", ""}, {"ob", "Mid", "X"}, {"fw", ""}, {"ob", "Mid", "In", ""}}
	if level < 2 {
		full = full[:3]
	}
	for _, ws := range full {
		for d := 0; d < ndeco; d++ {
			decorate(ws, d)
		}
	}
	add("", 0, "main", 1, "")
	add("fo fo", 5, "main", 1, "lead")
	add("ob.Mid..X", 9, "main", 2, "after-dot-dot")
	add(".X", 2, "main", 1, "after-dot")
	return qs
}

// ---------------------------------------------------------------------------
// inputs read from a fresh interpreter; model constants

type c36Setup struct {
	universe []string
	keywords []string
	nameTab  []string
	queries  []c36Query
	mcdefs   string
}

func c36Keywords() []string {
	var ks []string
	for t := gotoken.BREAK; t <= gotoken.VAR; t++ {
		ks = append(ks, t.String())
	}
	return append(ks, "macro", "template")
}

func c36CompNames(co *fast.Comp) []string {
	var ns []string
	for n := range co.Binds {
		ns = append(ns, n)
	}
	for n := range co.Types {
		ns = append(ns, n)
	}
	sort.Strings(ns)
	return ns
}

func newC36Setup(level int, queries []c36Query) (*c36Setup, error) {
	s := &c36Setup{keywords: c36Keywords()}
	ir := fast.New()
	if ir.Comp.Outer == nil || ir.Comp.Outer.Outer != nil || len(ir.Comp.Binds)+len(ir.Comp.Types) != 0 {
		return nil, core.Infra("unexpected scope layout of a fresh interpreter (want empty file scope on top of one universe scope)")
	}
	s.universe = c36CompNames(ir.Comp.Outer)
	if len(s.universe) < 20 {
		return nil, core.Infra("universe scope has only %d names", len(s.universe))
	}
	// the compiled package must be what the model is told
	rt := reflect.TypeOf(C36Bt{})
	if rt.NumField() != len(c36PkgTypeFields) || reflect.PtrTo(rt).NumMethod() != len(c36PkgTypeMethods) {
		return nil, core.Infra("synthetic package type differs from its description")
	}
	for i, f := range c36PkgTypeFields {
		if rt.Field(i).Name != f.Name {
			return nil, core.Infra("synthetic package type differs from its description (field %d)", i)
		}
	}
	for i, m := range c36PkgTypeMethods {
		if reflect.PtrTo(rt).Method(i).Name != m {
			return nil, core.Infra("synthetic package type differs from its description (method %d)", i)
		}
	}
	pk := imports.Packages[c36PkgPath]
	if len(pk.Binds)+len(pk.Types) != len(c36PkgMembers) {
		return nil, core.Infra("synthetic package registration differs from its description")
	}
	for _, m := range c36PkgMembers {
		_, b := pk.Binds[m.Name]
		_, t := pk.Types[m.Name]
		if b == (m.K == "type") || t != (m.K == "type") {
			return nil, core.Infra("synthetic package registration differs from its description (%s)", m.Name)
		}
	}
	if queries == nil {
		queries = c36Queries(level)
	}
	s.queries = queries
	set := map[string]bool{}
	for _, l := range [][]string{s.universe, s.keywords, c36PkgTypeMethods} {
		for _, n := range l {
			set[n] = true
		}
	}
	for _, it := range c36Items {
		set[it.Name] = true
		for _, f := range it.Fields {
			set[f.Name] = true
		}
	}
	for _, m := range c36PkgMembers {
		set[m.Name] = true
	}
	for _, f := range c36PkgTypeFields {
		set[f.Name] = true
	}
	for n := range set {
		s.nameTab = append(s.nameTab, n)
	}
	sort.Strings(s.nameTab)

	var b strings.Builder
	var items []string
	for i := range c36Items {
		it := &c36Items[i]
		items = append(items, fmt.Sprintf("[k |-> %q, scope |-> %q, name |-> %s, recv |-> %s, ptr |-> %s, fields |-> %s, typ |-> %s, deps |-> %s]",
			it.K, it.Scope, core.TLASeq(it.Name), core.TLASeq(it.Recv), strings.ToUpper(fmt.Sprint(it.Ptr)),
			c36TLAFields(it.Fields), c36TLAType(c36TypeOr(it.Typ)), c36TLAInts(it.Deps)))
	}
	fmt.Fprintf(&b, "c_Items == <<\n  %s>>\n", strings.Join(items, ",\n  "))
	var mem []string
	for _, m := range c36PkgMembers {
		mem = append(mem, fmt.Sprintf("[name |-> %s, k |-> %q, typ |-> %s]", core.TLASeq(m.Name), m.K, c36TLAType(m.Typ)))
	}
	fmt.Fprintf(&b, "c_Pkg == [name |-> %s, members |-> <<%s>>,\n  types |-> <<[name |-> %s, fields |-> %s, methods |-> %s]>>]\n",
		core.TLASeq("syn"), strings.Join(mem, ", "), core.TLASeq("Bt"), c36TLAFields(c36PkgTypeFields), c36TLASeqOfNames(c36PkgTypeMethods))
	fmt.Fprintf(&b, "c_Universe == %s\nc_Keywords == %s\nc_NameTab == %s\n", core.TLASet(s.universe), core.TLASet(s.keywords), c36TLASeqOfNames(s.nameTab))
	var qs []string
	for _, q := range s.queries {
		qs = append(qs, fmt.Sprintf("[line |-> %s, pos |-> %d, view |-> %q]", core.TLASeq(q.Line), q.Pos, q.View))
	}
	fmt.Fprintf(&b, "c_Queries == <<\n  %s>>\n", strings.Join(qs, ",\n  "))
	s.mcdefs = b.String()
	return s, nil
}

func c36TypeOr(t c36Type) c36Type {
	if t.K == "" {
		return c36Int()
	}
	return t
}

func (s *c36Setup) cfg(ids []int, maxOps, monoEvery int, flags []string, rand, redecl, emit bool, view bool, invs string) (mc, cfg string) {
	var fl []string
	for _, f := range flags {
		fl = append(fl, fmt.Sprintf("%q", f))
	}
	mc = s.mcdefs + fmt.Sprintf("c_ItemIds == %s\nc_Flags == {%s}\n", c36TLAInts(ids), strings.Join(fl, ", "))
	up := func(b bool) string { return strings.ToUpper(fmt.Sprint(b)) }
	cfg = fmt.Sprintf("SPECIFICATION Spec\nCONSTANTS\n Items <- c_Items\n Pkg <- c_Pkg\n Universe <- c_Universe\n Keywords <- c_Keywords\n NameTab <- c_NameTab\n Queries <- c_Queries\n ItemIds <- c_ItemIds\n Flags <- c_Flags\n MaxOps = %d\n MonoEvery = %d\n RandPick = %s\n AllowRedecl = %s\n EmitOn = %s\nINVARIANTS %s\n",
		maxOps, monoEvery, up(rand), up(redecl), up(emit), invs)
	if view {
		cfg += "VIEW DeclView\n"
	}
	if d := os.Getenv("VERIF_C36_DUMP"); d != "" { // development aid: keep the generated model files
		os.MkdirAll(d, 0o755)
		os.WriteFile(d+"/MC.tla", []byte("---- MODULE MC ----\nEXTENDS Complete\n"+mc+"\n====\n"), 0o644)
		os.WriteFile(d+"/MC.cfg", []byte(cfg), 0o644)
	}
	return
}

// ---------------------------------------------------------------------------
// records printed by the model

type c36Ints []int

func (x *c36Ints) UnmarshalJSON(b []byte) error {
	if len(b) > 0 && b[0] == '{' { // an empty function may be printed as {}
		*x = nil
		return nil
	}
	var v []int
	if err := json.Unmarshal(b, &v); err != nil {
		return err
	}
	*x = v
	return nil
}

type c36QRes struct {
	K   int     `json:"k"`
	C   c36Ints `json:"c"`
	Kd  string  `json:"kd"`
	Ak  *int    `json:"ak"`
	Ac  c36Ints `json:"ac"`
	Akd string  `json:"akd"`
}

type c36Rec struct {
	H     c36Ints   `json:"h"`
	Main  c36Ints   `json:"main"`
	Inner c36Ints   `json:"inner"`
	Q     []c36QRes `json:"q"`
}

// ---------------------------------------------------------------------------
// the real side

type c36Env struct {
	main, inner *fast.Interp
	out         bytes.Buffer
	hist        []int
}

func newC36Env() *c36Env {
	e := &c36Env{}
	e.main = fast.New()
	g := &e.main.Comp.Globals
	g.Stdout = &e.out
	g.Stderr = &e.out
	e.inner = fast.NewInnerInterp(e.main, "inner", "main")
	return e
}

func (e *c36Env) declare(id int) (err error) {
	if id < 1 || id > len(c36Items) {
		return core.Infra("no catalogue item %d", id)
	}
	it := &c36Items[id-1]
	ir := e.main
	if it.Scope == "inner" {
		ir = e.inner
	}
	src := c36Src(it)
	defer func() {
		if r := recover(); r != nil {
			err = core.Infra("declaration %q rejected by the interpreter: %v", src, r)
		}
	}()
	ir.Eval(src)
	e.hist = append(e.hist, id)
	return nil
}

type c36Got struct {
	Head     string
	Comps    []string
	Tail     string
	Panicked bool
}

func (e *c36Env) complete(q *c36Query) (g c36Got) {
	ir := e.main
	if q.View == "inner" {
		ir = e.inner
	}
	e.out.Reset()
	defer func() {
		if r := recover(); r != nil {
			g.Panicked = true
		}
	}()
	h, c, t := ir.CompleteWords(q.Line, q.Pos)
	g = c36Got{Head: h, Comps: append([]string(nil), c...), Tail: t}
	if bytes.Contains(e.out.Bytes(), []byte("panic in Interp.CompleteWords")) {
		g.Panicked = true
	}
	return
}

// expectation of one query, decoded
type c36Want struct {
	Head    string   `json:"head"`
	Comps   []string `json:"completions"`
	Tail    string   `json:"tail"`
	AltHead string   `json:"alt_head,omitempty"`
	AltCmps []string `json:"alt_completions,omitempty"`
	HasAlt  bool     `json:"has_alt,omitempty"`
	AltKind string   `json:"alt_kind,omitempty"`
	Kind    string   `json:"kind"`
}

func (s *c36Setup) names(idx []int) ([]string, error) {
	out := make([]string, 0, len(idx))
	for _, i := range idx {
		if i < 1 || i > len(s.nameTab) {
			return nil, core.Infra("bad name index %d from TLC", i)
		}
		out = append(out, s.nameTab[i-1])
	}
	return out, nil
}

func (s *c36Setup) want(q *c36Query, r *c36QRes) (w c36Want, err error) {
	p := q.Pos
	if p > len(q.Line) {
		p = len(q.Line)
	}
	if r.K < 0 || r.K > p {
		return w, core.Infra("bad head length %d from TLC", r.K)
	}
	w.Head, w.Tail, w.Kind = q.Line[:r.K], q.Line[p:], r.Kd
	if w.Comps, err = s.names(r.C); err != nil {
		return
	}
	if r.Ak != nil {
		if *r.Ak < 0 || *r.Ak > p {
			return w, core.Infra("bad alternative head length from TLC")
		}
		w.HasAlt = true
		w.AltKind = r.Akd
		w.AltHead = q.Line[:*r.Ak]
		if w.AltCmps, err = s.names(r.Ac); err != nil {
			return
		}
	}
	return
}

func c36EqInts(a, b []int) bool {
	if len(a) != len(b) {
		return false
	}
	for i := range a {
		if a[i] != b[i] {
			return false
		}
	}
	return true
}

func c36Eq(a, b []string) bool {
	if len(a) != len(b) {
		return false
	}
	for i := range a {
		if a[i] != b[i] {
			return false
		}
	}
	return true
}

// c36Judge compares one answer with the specification; class "" = conforms. viaAlt: the answer
// was judged against the alternative reading (blanks before the cursor belong to the word).
func c36Judge(g *c36Got, w *c36Want) (class, what string, viaAlt bool) {
	if g.Panicked {
		return "panics", "CompleteWords panicked (recovered inside: it printed 'panic in Interp.CompleteWords' and returned empty head and tail)", false
	}
	if c36Eq(g.Comps, w.Comps) && g.Head == w.Head && g.Tail == w.Tail {
		return "", "", false
	}
	wantC, wantH := w.Comps, w.Head
	note := ""
	if w.HasAlt && len(g.Comps) > 0 {
		// the completer treats the blanks before the cursor as part of the word: then they must be replaced too
		viaAlt = true
		wantC, wantH = w.AltCmps, w.AltHead
		note = " (completions are offered for the identifier before the blanks, so head must end before that identifier)"
		if c36Eq(g.Comps, wantC) && g.Head == wantH && g.Tail == w.Tail {
			return "", "", true
		}
	}
	if !c36Eq(g.Comps, wantC) {
		for i := 1; i < len(g.Comps); i++ {
			if g.Comps[i] == g.Comps[i-1] {
				return "duplicate", fmt.Sprintf("completions %v contain %q twice; specification: %v", g.Comps, g.Comps[i], wantC), viaAlt
			}
		}
		if !sort.StringsAreSorted(g.Comps) {
			return "unsorted", fmt.Sprintf("completions %v are not sorted; specification: %v", g.Comps, wantC), viaAlt
		}
		have := map[string]bool{}
		for _, c := range g.Comps {
			have[c] = true
		}
		var missing, extra []string
		for _, c := range wantC {
			if !have[c] {
				missing = append(missing, c)
			}
			delete(have, c)
		}
		for _, c := range g.Comps {
			if have[c] {
				extra = append(extra, c)
			}
		}
		if len(missing) > 0 {
			return "missing-candidate", fmt.Sprintf("completions %v lack %v (extra %v); specification: %v", g.Comps, missing, extra, wantC), viaAlt
		}
		return "extra-candidate", fmt.Sprintf("completions %v offer %v which the specification does not; specification: %v", g.Comps, extra, wantC), viaAlt
	}
	return "head-tail-differs", fmt.Sprintf("head=%q tail=%q, specification: head=%q tail=%q%s; completions %v", g.Head, g.Tail, wantH, w.Tail, note, g.Comps), viaAlt
}

// signature: chain shape (single word or dotted chain, plus the context when the context is
// what is under test), what the chain's prefix resolved to according to the model, and the
// disagreement class.
func c36Sig(q *c36Query, w *c36Want, class string, viaAlt bool) string {
	shape, kind := q.Shape, w.Kind
	if i := strings.Index(shape, "+"); i >= 0 {
		if viaAlt && class != "head-tail-differs" && class != "panics" {
			// the completions of the chain before the blanks are wrong: that chain's own defect
			shape, kind = shape[:i], w.AltKind
		} else {
			kind = "*" // word splitting is at stake, not resolution
		}
	}
	return fmt.Sprintf("complete(%s,%s):%s", shape, kind, class)
}

// the replay case: self-contained (declarations, query, expectation)
type c36Case struct {
	Decls   []int    `json:"decls"`
	Sources []string `json:"sources"`
	Query   c36Query `json:"query"`
	Want    c36Want  `json:"want"`
}

func c36Sources(h []int) []string {
	var out []string
	for _, id := range h {
		if id >= 1 && id <= len(c36Items) {
			out = append(out, "["+c36Items[id-1].Scope+"] "+c36Src(&c36Items[id-1]))
		}
	}
	return out
}

func c36Cursor(q *c36Query) string {
	p := q.Pos
	if p > len(q.Line) {
		return q.Line + fmt.Sprintf("|(pos=%d)", q.Pos)
	}
	return q.Line[:p] + "|" + q.Line[p:]
}

// c36Confirm re-runs a case on a fresh interpreter: the declarations one by one, the whole
// query set after each (as the live run did), then the query.
func c36Confirm(cs *c36Case, warm []c36Query) (class, what string, viaAlt bool, err error) {
	e := newC36Env()
	for _, id := range cs.Decls {
		for i := range warm {
			e.complete(&warm[i])
		}
		if err := e.declare(id); err != nil {
			return "", "", false, err
		}
	}
	g := e.complete(&cs.Query)
	class, what, viaAlt = c36Judge(&g, &cs.Want)
	return class, what, viaAlt, nil
}

type c36Runner struct {
	c         *core.Ctx
	s         *c36Setup
	mu        sync.Mutex
	err       error
	confirmed map[string]int
	maxOps    int
}

func (r *c36Runner) fail(err error) {
	r.mu.Lock()
	if r.err == nil {
		r.err = err
	}
	r.mu.Unlock()
}

func (r *c36Runner) failed() bool { r.mu.Lock(); defer r.mu.Unlock(); return r.err != nil }

// check compares every query of one record on env e (already in the record's state).
func (r *c36Runner) check(e *c36Env, rec *c36Rec) {
	s := r.s
	if len(rec.Q) != len(s.queries) {
		r.fail(core.Infra("record has %d answers for %d queries", len(rec.Q), len(s.queries)))
		return
	}
	// abstract state: the names bound in each scope
	for _, sc := range []struct {
		co   *fast.Comp
		want []int
		name string
	}{{e.main.Comp, rec.Main, "main"}, {e.inner.Comp, rec.Inner, "inner"}} {
		wn, err := s.names(sc.want)
		if err != nil {
			r.fail(err)
			return
		}
		if got := c36CompNames(sc.co); !c36Eq(got, wn) {
			r.fail(core.Infra("after %v the %s scope binds %v, the model says %v (the model of the interpreter state is wrong)", c36Sources(rec.H), sc.name, got, wn))
			return
		}
	}
	ids := append([]int(nil), rec.H...)
	sort.Ints(ids)
	stateKey := fmt.Sprint(ids)
	for i := range s.queries {
		q := &s.queries[i]
		w, err := s.want(q, &rec.Q[i])
		if err != nil {
			r.fail(err)
			return
		}
		g := e.complete(q)
		r.c.Case(fmt.Sprintf("%s|%d", stateKey, i), len(w.Comps) > 0)
		class, what, viaAlt := c36Judge(&g, &w)
		if class == "" {
			continue
		}
		sig := c36Sig(q, &w, class, viaAlt)
		r.mu.Lock()
		n := r.confirmed[sig]
		r.mu.Unlock()
		cs := &c36Case{Decls: append([]int(nil), rec.H...), Sources: c36Sources(rec.H), Query: *q, Want: w}
		if n < 2 {
			class2, what2, viaAlt2, err := c36Confirm(cs, s.queries)
			if err != nil {
				r.fail(err)
				return
			}
			if class2 == "" {
				r.fail(core.Infra("disagreement not reproducible on a fresh interpreter: %s: %s", sig, what))
				return
			}
			class, what = class2, what2
			sig = c36Sig(q, &w, class, viaAlt2)
			r.mu.Lock()
			r.confirmed[sig]++
			r.mu.Unlock()
		}
		r.c.Violation(sig, fmt.Sprintf("after %s\nCompleteWords(%q, %d) [cursor: %s, scope %s, %s]: %s",
			strings.Join(cs.Sources, "; "), q.Line, q.Pos, c36Cursor(q), q.View, q.Deco, what), cs)
	}
	r.c.Trace()
}

type c36Job struct {
	rec     *c36Rec
	lineage int
	last    bool
}

// run executes one TLC configuration and replays its records. lineages: records of one
// simulated trace are applied to one live interpreter.
func (r *c36Runner) run(o core.TLCOpts, lineages bool) (*core.TLCResult, error) {
	const W = 8
	chans := make([]chan c36Job, W)
	var wg sync.WaitGroup
	for i := range chans {
		chans[i] = make(chan c36Job, 32)
		wg.Add(1)
		go func(ch chan c36Job) {
			defer wg.Done()
			envs := map[int]*c36Env{}
			for j := range ch {
				if r.failed() {
					continue
				}
				rec := j.rec
				e := envs[j.lineage]
				if e != nil && (len(e.hist)+1 != len(rec.H) || !c36EqInts(e.hist, rec.H[:len(e.hist)])) {
					e = nil
				}
				if e == nil {
					// fresh interpreter: replay the history, asking every query after each step
					e = newC36Env()
					for k, id := range rec.H {
						if k == len(rec.H)-1 {
							break
						}
						if err := e.declare(id); err != nil {
							r.fail(err)
							break
						}
						for i := range r.s.queries {
							e.complete(&r.s.queries[i])
						}
					}
				}
				if len(rec.H) > 0 && len(e.hist)+1 == len(rec.H) {
					if err := e.declare(rec.H[len(rec.H)-1]); err != nil {
						r.fail(err)
						continue
					}
				}
				if r.failed() {
					continue
				}
				r.check(e, rec)
				if lineages && !j.last {
					envs[j.lineage] = e
				} else {
					delete(envs, j.lineage)
				}
				if len(envs) > 64 {
					for k := range envs {
						delete(envs, k)
						break
					}
				}
			}
		}(chans[i])
	}
	waiting := map[string][]int{} // history -> lineages standing there
	next := 0
	sampled := 0
	o.OnLine = func(line []byte) {
		if r.failed() {
			return
		}
		rec := &c36Rec{}
		if err := json.Unmarshal(line, rec); err != nil {
			r.fail(core.Infra("bad record from TLC: %v", err))
			return
		}
		if sampled < 2 && len(rec.H) >= 4 {
			sampled++
			r.sample(rec)
		}
		lin := next
		if lineages && len(rec.H) > 0 {
			pk := fmt.Sprint([]int(rec.H[:len(rec.H)-1]))
			if l := waiting[pk]; len(l) > 0 {
				lin = l[len(l)-1]
				if len(l) == 1 {
					delete(waiting, pk)
				} else {
					waiting[pk] = l[:len(l)-1]
				}
			} else {
				next++
			}
		} else {
			next++
		}
		last := len(rec.H) >= r.maxOps
		if lineages && !last {
			k := fmt.Sprint([]int(rec.H))
			waiting[k] = append(waiting[k], lin)
		}
		chans[lin%W] <- c36Job{rec, lin, last}
	}
	res, err := r.c.TLC(o)
	for _, ch := range chans {
		close(ch)
	}
	wg.Wait()
	if err != nil {
		return res, err
	}
	r.mu.Lock()
	defer r.mu.Unlock()
	return res, r.err
}

func (r *c36Runner) sample(rec *c36Rec) {
	var qs []interface{}
	for _, i := range []int{3, len(r.s.queries) / 3, len(r.s.queries) / 2, len(r.s.queries) - 9} {
		if i >= 0 && i < len(rec.Q) {
			if w, err := r.s.want(&r.s.queries[i], &rec.Q[i]); err == nil {
				qs = append(qs, map[string]interface{}{"line_with_cursor": c36Cursor(&r.s.queries[i]), "scope": r.s.queries[i].View, "specified": w})
			}
		}
	}
	r.c.Sample(map[string]interface{}{"declarations": c36Sources(rec.H), "queries": len(rec.Q), "some": qs})
}

const c36Invs = "TypeOK Monotone CheckedEmit"

func runC36(c *core.Ctx) error {
	// (M)+(R) every dependency-closed subset of the core catalogue; every chain undecorated
	sb, err := newC36Setup(3, nil)
	if err != nil {
		return err
	}
	rb := &c36Runner{c: c, s: sb, confirmed: map[string]int{}}
	core_ := c36CoreQuick
	if c.Thorough() {
		core_ = c36CoreThorough
	}
	rb.maxOps = len(core_)
	mc, cfg := sb.cfg(core_, len(core_), 7, nil, false, false, true, true, c36Invs)
	if _, err := rb.run(core.TLCOpts{Spec: "Complete", MCDefs: mc, Cfg: cfg, CfgName: "states-bfs", Workers: 8,
		Timeout: time.Duration(c.Pick(30, 60)) * time.Minute}, false); err != nil {
		return err
	}
	c.Exhaustive = true
	// (R) random declaration histories over the full catalogue, with re-declarations; the full
	// query set (decorated lines)
	ss, err := newC36Setup(c.Pick(1, 2), nil)
	if err != nil {
		return err
	}
	rs := &c36Runner{c: c, s: ss, confirmed: rb.confirmed}
	c.Extra = map[string]interface{}{"queries_per_state_bfs": len(sb.queries), "queries_per_state_sim": len(ss.queries),
		"universe_names": len(sb.universe), "catalogue_items": len(c36Items)}
	all := make([]int, len(c36Items))
	for i := range all {
		all[i] = i + 1
	}
	depth := c.Pick(14, 18)
	rs.maxOps = depth
	mc, cfg = ss.cfg(all, depth, 7, nil, true, true, true, false, c36Invs)
	if _, err := rs.run(core.TLCOpts{Spec: "Complete", MCDefs: mc, Cfg: cfg, CfgName: "histories-sim", Workers: 8,
		Simulate: true, SimNum: c.Pick(2, 5), SimDepth: depth + 2, Seed: c.Seed,
		Timeout: time.Duration(c.Pick(30, 60)) * time.Minute}, true); err != nil {
		return err
	}
	c.Assume("in scope, as the code defines it and the model follows: every name of Binds and Types of the current and all outer Comps (variables, constants, functions, package names, type names, universe builtins/constants/types) plus the 25 Go keywords and gomacro's `macro`, `template`; a single EMPTY word completes to nothing")
	c.Assume("members of a variable or of a TYPE NAME of (pointer to) struct type: all fields (unexported included: one package), all methods of the named type whatever the receiver (pointer-receiver methods are offered on values and on type names), and those of embedded fields transitively; an intermediate word must be a field")
	c.Assume("universe names are read from the outermost Comp of a fresh interpreter and keywords from go/token: both are inputs of the model")
	c.Assume("only the top-level Comp of an Interp is reachable through the API: names local to function bodies are not modelled; the second scope level is a fast.NewInnerInterp on the main interpreter")
	c.Assume("value names and type names are disjoint and a name keeps its kind; ASCII lines; blanks are spaces; pos >= 0; unexported members of IMPORTED types, pointer-to-pointer variables, interface-typed variables and generic types are not in the catalogue")
	return nil
}

func replayC36(c *core.Ctx, raw json.RawMessage) error {
	var cs c36Case
	if err := json.Unmarshal(raw, &cs); err != nil {
		return err
	}
	class, what, viaAlt, err := c36Confirm(&cs, nil)
	if err != nil {
		return err
	}
	if class != "" {
		c.Violation(c36Sig(&cs.Query, &cs.Want, class, viaAlt), fmt.Sprintf("after %s\nCompleteWords(%q, %d): %s", strings.Join(cs.Sources, "; "), cs.Query.Line, cs.Query.Pos, what), &cs)
	}
	return nil
}

func selfTestC36(c *core.Ctx) error {
	qs := []c36Query{{"f", 1, "main", "single", ""}, {"fo", 2, "inner", "single", ""}, {"le", 2, "main", "single", ""},
		{"op.", 3, "main", "dotted", ""}, {"fw.", 3, "main", "dotted", ""}, {"ob.X", 4, "main", "dotted", ""}, {"ob.Mid.", 7, "main", "dotted", ""}, {"x := syn.B", 10, "main", "dotted", ""}}
	s, err := newC36Setup(0, qs)
	if err != nil {
		return err
	}
	ids := []int{1, 2, 3, 5, 6, 8, 9, 10, 12, 14, 15, 19, 21, 24}
	// the mechanism as it should be passes; every broken variant must be rejected
	for _, v := range []struct {
		flags []string
		want  string
	}{
		{nil, ""},
		{[]string{"skip-outer"}, "ImplAgrees"},
		{[]string{"no-embedded"}, "ImplAgrees"},
		{[]string{"keep-dups"}, "ImplAgrees"},
		{[]string{"field-type-methods"}, "ImplAgrees"},
		{[]string{"ptr-no-methods"}, "ImplAgrees"},
	} {
		mc, cfg := s.cfg(ids, 5, 1, v.flags, false, false, false, true, "TypeOK ImplAgrees SortedUnique PrefixOK Reassembly Monotone FastIsDef")
		res, err := c.TLC(core.TLCOpts{Spec: "Complete", MCDefs: mc, Cfg: cfg, CfgName: "variant-" + strings.Join(v.flags, "+"), Workers: 4, ExpectError: v.want != ""})
		if err != nil {
			return err
		}
		if res.Violated != v.want {
			return fmt.Errorf("variant %v: TLC violated %q, want %q", v.flags, res.Violated, v.want)
		}
	}
	// a correct expectation is accepted, corrupted ones are classified
	e := newC36Env()
	for _, id := range []int{18, 19} {
		if err := e.declare(id); err != nil {
			return err
		}
	}
	q := c36Query{"x := fo", 7, "main", "single", "single+lead"}
	g := e.complete(&q)
	good := c36Want{Head: "x := ", Comps: []string{"fo", "fob", "for"}, Tail: "", Kind: "scope"}
	if class, what, _ := c36Judge(&g, &good); class != "" {
		return fmt.Errorf("correct expectation rejected: %s %s", class, what)
	}
	for _, t := range []struct {
		w     c36Want
		class string
	}{
		{c36Want{Head: "x := ", Comps: []string{"fo", "fob", "foc", "for"}, Kind: "scope"}, "missing-candidate"},
		{c36Want{Head: "x := ", Comps: []string{"fo", "for"}, Kind: "scope"}, "extra-candidate"},
		{c36Want{Head: "x := f", Comps: []string{"fo", "fob", "for"}, Kind: "scope"}, "head-tail-differs"},
	} {
		if class, _, _ := c36Judge(&g, &t.w); class != t.class {
			return fmt.Errorf("corrupted expectation classified %q, want %q", class, t.class)
		}
	}
	dup := c36Got{Head: "x := ", Comps: []string{"fo", "fo", "fob", "for"}}
	if class, _, _ := c36Judge(&dup, &good); class != "duplicate" {
		return fmt.Errorf("duplicate not classified (%q)", class)
	}
	uns := c36Got{Head: "x := ", Comps: []string{"fob", "fo", "for"}}
	if class, _, _ := c36Judge(&uns, &good); class != "unsorted" {
		return fmt.Errorf("unsorted not classified (%q)", class)
	}
	return nil
}

package props

import (
	"fmt"
	"go/ast"
	"go/parser"
	"go/token"
	"path/filepath"
	"reflect"
	"sort"
	"strings"

	"github.com/cosmos72/gomacro/ast2"

	"verif/harness/core"
)

// C22 gate: the signature table of AstNode.tla against go/ast (reflection) and against the
// list of node types declared in GOROOT/src/go/ast/ast.go. A disagreement means that the TABLE
// is wrong (or incomplete for this Go version), never a verdict on gomacro.

var c22GoTypes = map[string]reflect.Type{}

func init() {
	for _, p := range []interface{}{
		(*ast.ArrayType)(nil), (*ast.AssignStmt)(nil), (*ast.BadDecl)(nil), (*ast.BadExpr)(nil), (*ast.BadStmt)(nil),
		(*ast.BasicLit)(nil), (*ast.BinaryExpr)(nil), (*ast.BlockStmt)(nil), (*ast.BranchStmt)(nil), (*ast.CallExpr)(nil),
		(*ast.CaseClause)(nil), (*ast.ChanType)(nil), (*ast.CommClause)(nil), (*ast.CompositeLit)(nil), (*ast.DeclStmt)(nil),
		(*ast.DeferStmt)(nil), (*ast.Ellipsis)(nil), (*ast.EmptyStmt)(nil), (*ast.ExprStmt)(nil), (*ast.Field)(nil),
		(*ast.FieldList)(nil), (*ast.File)(nil), (*ast.ForStmt)(nil), (*ast.FuncDecl)(nil), (*ast.FuncLit)(nil),
		(*ast.FuncType)(nil), (*ast.GenDecl)(nil), (*ast.GoStmt)(nil), (*ast.Ident)(nil), (*ast.IfStmt)(nil),
		(*ast.ImportSpec)(nil), (*ast.IncDecStmt)(nil), (*ast.IndexExpr)(nil), (*ast.InterfaceType)(nil), (*ast.KeyValueExpr)(nil),
		(*ast.LabeledStmt)(nil), (*ast.MapType)(nil), (*ast.Package)(nil), (*ast.ParenExpr)(nil), (*ast.RangeStmt)(nil),
		(*ast.ReturnStmt)(nil), (*ast.SelectStmt)(nil), (*ast.SelectorExpr)(nil), (*ast.SendStmt)(nil), (*ast.SliceExpr)(nil),
		(*ast.StarExpr)(nil), (*ast.StructType)(nil), (*ast.SwitchStmt)(nil), (*ast.TypeAssertExpr)(nil), (*ast.TypeSpec)(nil),
		(*ast.TypeSwitchStmt)(nil), (*ast.UnaryExpr)(nil), (*ast.ValueSpec)(nil),
		(*ast.Comment)(nil), (*ast.CommentGroup)(nil), (*ast.IndexListExpr)(nil),
	} {
		t := reflect.TypeOf(p).Elem()
		c22GoTypes[t.Name()] = t
	}
}

func c22RT[T any]() reflect.Type { return reflect.TypeOf((*T)(nil)).Elem() }

var c22SlotGoType = map[string]reflect.Type{
	"expr": c22RT[ast.Expr](), "stmt": c22RT[ast.Stmt](), "decl": c22RT[ast.Decl](), "spec": c22RT[ast.Spec](),
	"ident": c22RT[*ast.Ident](), "lit": c22RT[*ast.BasicLit](), "block": c22RT[*ast.BlockStmt](),
	"call": c22RT[*ast.CallExpr](), "fieldlist": c22RT[*ast.FieldList](), "functype": c22RT[*ast.FuncType](),
	"field": c22RT[*ast.Field](), "exprs": c22RT[[]ast.Expr](), "stmts": c22RT[[]ast.Stmt](), "idents": c22RT[[]*ast.Ident](),
	"node": c22RT[ast.Node](),
}

var c22SliceGoType = map[string]reflect.Type{
	"AstSlice": c22RT[[]ast2.Ast](), "NodeSlice": c22RT[[]ast.Node](), "ExprSlice": c22RT[[]ast.Expr](), "FieldSlice": c22RT[[]*ast.Field](),
	"DeclSlice": c22RT[[]ast.Decl](), "IdentSlice": c22RT[[]*ast.Ident](), "SpecSlice": c22RT[[]ast.Spec](), "StmtSlice": c22RT[[]ast.Stmt](),
}

// scalar attribute types the wrapper may keep
var c22ScalarOK = map[reflect.Type]bool{
	c22RT[token.Token](): true, c22RT[token.Pos](): true, c22RT[string](): true, c22RT[bool](): true, c22RT[ast.ChanDir](): true,
	c22RT[*ast.CommentGroup](): true, c22RT[[]*ast.CommentGroup](): true, c22RT[*ast.Scope](): true,
	c22RT[[]*ast.ImportSpec](): true, c22RT[map[string]*ast.Object](): true,
}

// c22AstNodeTypes lists the struct types of go/ast that have a Pos method, from the sources.
func c22AstNodeTypes() ([]string, error) {
	root := c22Goroot()
	if root == "" {
		return nil, fmt.Errorf("GOROOT sources not found")
	}
	f, err := parser.ParseFile(token.NewFileSet(), filepath.Join(root, "src/go/ast/ast.go"), nil, 0)
	if err != nil {
		return nil, err
	}
	structs := map[string]bool{}
	hasPos := map[string]bool{}
	for _, d := range f.Decls {
		switch d := d.(type) {
		case *ast.GenDecl:
			for _, s := range d.Specs {
				if ts, ok := s.(*ast.TypeSpec); ok {
					if _, ok := ts.Type.(*ast.StructType); ok {
						structs[ts.Name.Name] = true
					}
				}
			}
		case *ast.FuncDecl:
			if d.Name.Name == "Pos" && d.Recv != nil && len(d.Recv.List) == 1 {
				t := d.Recv.List[0].Type
				if st, ok := t.(*ast.StarExpr); ok {
					t = st.X
				}
				if id, ok := t.(*ast.Ident); ok {
					hasPos[id.Name] = true
				}
			}
		}
	}
	var out []string
	for n := range structs {
		if hasPos[n] {
			out = append(out, n)
		}
	}
	sort.Strings(out)
	return out, nil
}

func c22Gate(c *core.Ctx, m *c22Meta) error {
	var bad []string
	check := func(ok bool, format string, a ...interface{}) {
		c.Gate(ok)
		if !ok {
			bad = append(bad, fmt.Sprintf(format, a...))
		}
	}
	unwrapped := map[string]bool{}
	for _, u := range m.Unwrapped {
		unwrapped[u] = true
	}
	// every node type of go/ast is in the table or known as not wrapped; ToAst agrees
	names, err := c22AstNodeTypes()
	if err != nil {
		return core.Infra("cannot list the node types of go/ast: %v", err)
	}
	check(len(names) >= 56, "only %d node types found in go/ast/ast.go", len(names))
	for _, n := range names {
		rt := c22GoTypes[n]
		if rt == nil {
			return core.Infra("go/ast declares node type %s, unknown to the harness and to AstNode.tla (incomplete specification for this Go version)", n)
		}
		_, inTab := m.Sig[n]
		check(inTab != unwrapped[n], "go/ast node type %s: in table %v, in Unwrapped %v", n, inTab, unwrapped[n])
		node, _ := reflect.New(rt).Interface().(ast.Node)
		check(node != nil, "%s does not implement ast.Node", n)
		if node == nil {
			continue
		}
		var w ast2.AstWithNode
		msg := c22Try(func() { w = ast2.ToAst(node) })
		if inTab {
			check(msg == "" && w != nil && w.Interface() == interface{}(node), "ToAst(*ast.%s) fails (%s) although the table lists the kind", n, msg)
		} else {
			check(msg != "", "ToAst(*ast.%s) succeeds although the table says it is not wrapped", n)
		}
	}
	for _, k := range m.Kinds {
		sig := m.Sig[k]
		if sig == nil {
			check(false, "kind %s without signature", k)
			continue
		}
		if sig.Cls == "slice" {
			rt := c22SliceGoType[k]
			check(rt != nil, "unknown slice wrapper %s", k)
			if rt != nil && sig.Elem != "any" {
				check(rt.Elem() == c22SlotGoType[sig.Elem], "%s: element type %s is not %v", k, sig.Elem, rt.Elem())
			}
			// the wrapper type exists and wraps this Go type
			var w ast2.Ast
			if rt != nil {
				msg := c22Try(func() { w = c22Wrap(reflect.MakeSlice(rt, 1, 1).Interface()) })
				check(msg == "" && w != nil && strings.HasSuffix(fmt.Sprintf("%T", w), "."+k), "wrapping a %v gives %T, not ast2.%s (%s)", rt, w, k, msg)
			}
			continue
		}
		rt := c22GoTypes[k]
		if rt == nil {
			check(false, "kind %s of the table is not a go/ast node type", k)
			continue
		}
		check(sig.Var || sig.Size == len(sig.Slots), "%s: size %d, %d slots", k, sig.Size, len(sig.Slots))
		// class
		ptr := reflect.PointerTo(rt)
		cls := "other"
		for _, c := range []string{"expr", "stmt", "decl", "spec"} {
			if ptr.Implements(c22SlotGoType[c]) {
				cls = c
			}
		}
		check(cls == sig.Cls, "%s: class %s in the table, %s in go/ast", k, sig.Cls, cls)
		// fields
		role := map[string]string{}
		put := func(name, r string) {
			if name == "" {
				return
			}
			check(role[name] == "", "%s.%s listed twice (%s, %s)", k, name, role[name], r)
			role[name] = r
		}
		for _, s := range sig.Slots {
			put(s.Name, "slot:"+s.Ty)
		}
		if sig.Var {
			put(sig.Lfield, "list:"+sig.Elem)
		}
		for _, p := range sig.Pos {
			put(p, "pos")
		}
		for _, s := range sig.Sc {
			put(s, "sc")
		}
		for _, d := range sig.Drop {
			put(d.Name, "drop:"+d.Why)
		}
		var order []string
		for i := 0; i < rt.NumField(); i++ {
			f := rt.Field(i)
			r, ok := role[f.Name]
			check(ok, "%s.%s (%v) is a field of go/ast not accounted for by the table", k, f.Name, f.Type)
			if !ok {
				continue
			}
			delete(role, f.Name)
			switch {
			case strings.HasPrefix(r, "slot:"):
				order = append(order, f.Name)
				check(f.Type == c22SlotGoType[r[5:]], "%s.%s: slot type %s, Go type %v", k, f.Name, r[5:], f.Type)
			case strings.HasPrefix(r, "list:"):
				want := c22SlotGoType[r[5:]]
				check(want != nil && f.Type.Kind() == reflect.Slice && f.Type.Elem() == want, "%s.%s: list of %s, Go type %v", k, f.Name, r[5:], f.Type)
			case r == "pos":
				check(f.Type == c22RT[token.Pos](), "%s.%s: position attribute, Go type %v", k, f.Name, f.Type)
			case r == "sc":
				check(c22ScalarOK[f.Type] || (k == "File" && f.Name == "Name"), "%s.%s: scalar attribute of Go type %v", k, f.Name, f.Type)
			}
		}
		for name, r := range role {
			check(false, "%s.%s (%s) of the table is not a field of go/ast", k, name, r)
		}
		// slots follow the order of the struct fields
		var slots []string
		for _, s := range sig.Slots {
			if s.Name != "" {
				slots = append(slots, s.Name)
			}
		}
		check(strings.Join(order, ",") == strings.Join(slots, ","), "%s: slots %v, go/ast field order %v", k, slots, order)
		// the harness's own projection lists the same attributes and as many children
		node := reflect.New(rt).Interface()
		sh, ok := c22Shallow(node)
		check(ok && sh.Kind == k, "projection of *ast.%s gives kind %q", k, sh.Kind)
		if ok {
			var got, want []string
			for _, kv := range sh.A {
				got = append(got, kv.K)
			}
			want = append(append(want, sig.Pos...), sig.Sc...)
			sort.Strings(want)
			check(sort.StringsAreSorted(got) && strings.Join(got, ",") == strings.Join(want, ","), "%s: projection compares attributes %v, the table has %v", k, got, want)
			if !sig.Var {
				check(len(sh.Kids) == len(sig.Slots), "%s: projection has %d children, the table %d slots", k, len(sh.Kids), len(sig.Slots))
			}
		}
	}
	if len(bad) > 0 {
		if len(bad) > 12 {
			bad = append(bad[:12], fmt.Sprintf("… and %d more", len(bad)-12))
		}
		return core.Infra("the signature table of AstNode.tla disagrees with go/ast (fix the table):\n  %s", strings.Join(bad, "\n  "))
	}
	return nil
}

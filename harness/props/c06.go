package props

import (
	"encoding/json"
	"fmt"
	"hash/fnv"
	"strings"
	"sync/atomic"
	"time"

	"github.com/cosmos72/gomacro/fast"

	"verif/harness/core"
)

// C06: calls, closures and frame recycling.
// (M) spec/impl/Frames.tla: the frame pool (alloc / mark-on-capture / take-address / free) keeps
//     NoStaleRef on every interleaving of calls, captures and returns within the bounds; three
//     broken variants (no mark, mark only the innermost frame, keep the slot array of a frame
//     whose address escaped) are rejected by TLC.
// (R) spec/sem/Calls.tla: Go-level histories (escaping closures and pointers, frame-recycling
//     calls in between, uses afterwards) with the expected observations; rendered as programs,
//     gated natively, run on the interpreter with POISONED pooled frames (verif hook), so that a
//     stale read cannot accidentally see the right value.
//     Specialisation cells: the closure's signature selects one generated func{0,1,2}ret{0,1}
//     variant (17x17 kinds) each carrying its own MarkUsedByClosure; one canonical history is
//     rendered for every cell, other histories take a cell by seed.

func init() {
	core.Register(&core.Prop{
		ID: "C06",
		Rule: "TLC enumerates histories over {closure escaping via result/global/slice from 1-3 nested literals, escaping &local, both, use, burn(n) frame-recycling calls around the pool capacity, recursion}; every history is rendered with a closure signature cell (argument kinds x result kind, 0-2 arguments, 0-1 results, generic path) and run with poisoned pooled frames; " +
			"non-trivial = a use happens after at least one frame-recycling operation; distinct by (history, cell)",
		Run:      runC06,
		Replay:   replayC06,
		SelfTest: selfTestC06,
	})
}

type c06Op struct {
	Op  string `json:"op"`
	S   int    `json:"s"`
	Via string `json:"via"`
	D   int    `json:"d"`
	A   int    `json:"a"`
	P   int    `json:"p"`
	N   int    `json:"n"`
}
type c06Rec struct {
	Hist []c06Op         `json:"hist"`
	Log  [][]interface{} `json:"log"`
}

// c06Cell: signature of the escaping closure.
type c06Cell struct {
	Args []string // kinds of the arguments (0..3)
	Ret  string   // "" = no result
	Name string
}

var c06Kinds = []string{"bool", "int", "int8", "int16", "int32", "int64", "uint", "uint8", "uint16", "uint32", "uint64", "uintptr", "float32", "float64", "complex64", "complex128", "string"}

// expression converting an int expression e (small, >= 0) to kind k
func c06To(k, e string) string {
	switch k {
	case "bool":
		return "(" + e + " != 0)"
	case "string":
		return "sOf(" + e + ")"
	case "complex64":
		return "complex(float32(" + e + "), 0)"
	case "complex128":
		return "complex(float64(" + e + "), 0)"
	case "named":
		return "MyInt(" + e + ")"
	}
	return k + "(" + e + ")"
}

// expression converting expression e of kind k to int
func c06From(k, e string) string {
	switch k {
	case "bool":
		return "b2i(" + e + ")"
	case "string":
		return "len(" + e + ")"
	case "complex64", "complex128":
		return "int(real(" + e + "))"
	}
	return "int(" + e + ")"
}

func c06TypeName(k string) string {
	if k == "named" {
		return "MyInt"
	}
	return k
}

const c06Prelude = `type MyInt int
var sink int
func b2i(b bool) int { if b { return 1 }; return 0 }
func sOf(n int) string { s := ""; for i := 0; i < n; i++ { s += "x" }; return s }
`

var c06Serial int64

// c06Render renders a history with the given closure signature cell.
func c06Render(rec *c06Rec, cell c06Cell, raw []byte) *ProgCase {
	sfx := fmt.Sprintf("_%d", atomic.AddInt64(&c06Serial, 1))
	var d strings.Builder // declarations
	var m strings.Builder // body of the driver
	// closure type
	var params, callArgs []string
	for i, k := range cell.Args {
		params = append(params, fmt.Sprintf("p%d %s", i, c06TypeName(k)))
		_ = i
	}
	ftype := "func(" + strings.Join(func() []string {
		var ts []string
		for _, k := range cell.Args {
			ts = append(ts, c06TypeName(k))
		}
		return ts
	}(), ", ") + ")"
	if cell.Ret != "" {
		ftype += " " + c06TypeName(cell.Ret)
	}
	// the increment applied by one use: with arguments it is carried by the first argument
	// (bool arguments can only carry 0/1: the harness passes p = 1 for them)
	step := func(p int) int {
		if len(cell.Args) == 0 {
			return 1
		}
		if cell.Args[0] == "bool" {
			return 1
		}
		return p
	}
	for i, k := range cell.Args {
		if i == 0 {
			continue
		}
		_ = k
	}
	litBody := func() string {
		inc := "1"
		if len(cell.Args) > 0 {
			inc = c06From(cell.Args[0], "p0")
		}
		var b strings.Builder
		fmt.Fprintf(&b, "x += %s; ", inc)
		for i := 1; i < len(cell.Args); i++ {
			fmt.Fprintf(&b, "sink += %s; ", c06From(cell.Args[i], fmt.Sprintf("p%d", i)))
		}
		if cell.Ret == "bool" {
			// a bool result cannot carry x: x is observed through the global as well
			fmt.Fprintf(&b, "out%s = x; return x != 0", sfx)
		} else if cell.Ret != "" {
			fmt.Fprintf(&b, "return %s", c06To(cell.Ret, "x"))
		} else {
			fmt.Fprintf(&b, "out%s = x", sfx)
		}
		return b.String()
	}
	lit := func(depth int) string {
		s := fmt.Sprintf("func(%s) %s { %s }", strings.Join(params, ", "), func() string {
			if cell.Ret != "" {
				return c06TypeName(cell.Ret)
			}
			return ""
		}(), litBody())
		for i := 1; i < depth; i++ {
			s = fmt.Sprintf("func() %s { return %s }()", ftype, s)
		}
		return s
	}
	fmt.Fprintf(&d, "var G%s [4]%s\nvar SL%s []%s\nvar P%s [4]*int\nvar out%s int\n", sfx, ftype, sfx, ftype, sfx, sfx)
	fmt.Fprintf(&d, "func burn%s(a int) int { y := a*7 + 1; z := y ^ 5; return y + z }\n", sfx)
	fmt.Fprintf(&d, "func rec%s(n int) int { if n == 0 { return 0 }; y := n; return rec%s(n-1) + y - y + 1 }\n", sfx, sfx)
	nontrivial := false
	recycled := false
	// the address of x is taken in x's own block (depth 1) or inside depth-1 nested blocks that
	// declare locals of their own (the variable then lives "upn" frames further out)
	addrOf := func(depth int, ret string) string {
		s := ret
		for i := 1; i < depth; i++ {
			s = fmt.Sprintf("{ y%d := a + %d; sink += y%d; %s }", i, i, i, s)
		}
		if depth > 1 {
			// the function must end in a terminating statement
			s += "; panic(\"unreachable\")"
		}
		return s
	}
	retK := "int"
	switch cell.Ret {
	case "", "bool", "string", "complex64", "complex128", "named", "int8", "uint8":
	default:
		retK = cell.Ret
	}
	fmt.Fprintf(&d, "func sum3%s(a, b, c int) %s { return %s(a + b + c) }\n", sfx, retK, retK)
	fmt.Fprintf(&d, "func ra%s(n int) int { if n == 0 { return 0 }; return int(sum3%s(n, 100, ra%s(n-1))) }\n", sfx, sfx, sfx)
	var shape strings.Builder
	for i, op := range rec.Hist {
		fmt.Fprintf(&shape, "%s.%d.%s.%d.%d;", op.Op, op.S, op.Via, op.D, op.N)
		switch op.Op {
		case "mk":
			name := fmt.Sprintf("mk%s_%d", sfx, i)
			switch op.Via {
			case "ret":
				fmt.Fprintf(&d, "func %s(a int) %s { x := a; return %s }\n", name, ftype, lit(op.D))
				fmt.Fprintf(&m, "\tG%s[%d] = %s(%d)\n", sfx, op.S, name, op.A)
			case "glob":
				fmt.Fprintf(&d, "func %s(a int) { x := a; G%s[%d] = %s }\n", name, sfx, op.S, lit(op.D))
				fmt.Fprintf(&m, "\t%s(%d)\n", name, op.A)
			default: // slice
				fmt.Fprintf(&d, "func %s(a int) { x := a; SL%s = append(SL%s, %s) }\n", name, sfx, sfx, lit(op.D))
				fmt.Fprintf(&m, "\t%s(%d)\n\tG%s[%d] = SL%s[len(SL%s)-1]\n", name, op.A, sfx, op.S, sfx, sfx)
			}
			fmt.Fprintf(&m, "\tP%s[%d] = nil\n", sfx, op.S)
		case "mkptr":
			name := fmt.Sprintf("mp%s_%d", sfx, i)
			fmt.Fprintf(&d, "func %s(a int) *int { x := a; %s }\n", name, addrOf(op.D, "return &x"))
			fmt.Fprintf(&m, "\tP%s[%d] = %s(%d)\n\tG%s[%d] = nil\n", sfx, op.S, name, op.A, sfx, op.S)
		case "mkboth":
			name := fmt.Sprintf("mb%s_%d", sfx, i)
			fmt.Fprintf(&d, "func %s(a int) (%s, *int) { x := a; %s }\n", name, ftype, addrOf(op.D, "return "+lit(1)+", &x"))
			fmt.Fprintf(&m, "\tG%s[%d], P%s[%d] = %s(%d)\n", sfx, op.S, sfx, op.S, name, op.A)
		case "use":
			if recycled {
				nontrivial = true
			}
			for j, k := range cell.Args {
				v := "3"
				if j == 0 {
					v = fmt.Sprint(op.P)
					if k == "bool" {
						v = "1"
					}
				}
				callArgs = append(callArgs[:j:j], c06To(k, v))
			}
			call := fmt.Sprintf("G%s[%d](%s)", sfx, op.S, strings.Join(callArgs[:len(cell.Args)], ", "))
			fmt.Fprintf(&m, "\tif G%s[%d] != nil {\n", sfx, op.S)
			if cell.Ret == "bool" {
				fmt.Fprintf(&m, "\t\tif %s {\n\t\t\tev(\"u\", %d, out%s)\n\t\t}\n", call, op.S, sfx)
			} else if cell.Ret != "" {
				fmt.Fprintf(&m, "\t\tev(\"u\", %d, %s)\n", op.S, c06From(cell.Ret, call))
			} else {
				fmt.Fprintf(&m, "\t\t%s\n\t\tev(\"u\", %d, out%s)\n", call, op.S, sfx)
			}
			fmt.Fprintf(&m, "\t}\n\tif P%s[%d] != nil {\n\t\tev(\"p\", %d, *P%s[%d])\n\t\t*P%s[%d] += 10\n\t}\n", sfx, op.S, op.S, sfx, op.S, sfx, op.S)
		case "burn":
			recycled = true
			fmt.Fprintf(&m, "\tfor i := 0; i < %d; i++ {\n\t\tsink += burn%s(i)\n\t}\n", op.N, sfx)
		case "rec":
			recycled = true
			fmt.Fprintf(&m, "\tev(\"r\", %d, rec%s(%d))\n", op.N, sfx, op.N)
		case "recarg":
			recycled = true
			n := op.N
			if n > 5 {
				n = 5 // keep the value small for every result kind (uint8: 5*6/2 + 500 would overflow)
			}
			_ = n
			fmt.Fprintf(&m, "\tev(\"ra\", %d, ra%s(%d))\n", op.N, sfx, op.N)
		}
	}
	fmt.Fprintf(&d, "func main%s() int {\n%s\treturn 0\n}\n", sfx, m.String())
	pc := &ProgCase{Decls: d.String(), Entry: "main" + sfx + "()", Nontrivial: nontrivial, Raw: append([]byte(nil), raw...), WantResult: "[int:0]"}
	h := fnv.New64a()
	h.Write([]byte(shape.String() + "|" + cell.Name))
	pc.Key = fmt.Sprintf("%x", h.Sum64())
	// expected events: the model's increments assume p; the cell may force another step
	adj := map[int]int{} // per slot: accumulated difference between the cell's step and the model's p
	cellOf := map[int]int{}
	ncell := 0
	delta := map[int]int{} // per cell
	for _, op := range rec.Hist {
		switch op.Op {
		case "mk", "mkptr", "mkboth":
			ncell++
			cellOf[op.S] = ncell
		}
	}
	_ = adj
	// replay the history to compute per-event adjustments
	cellOf = map[int]int{}
	ncell = 0
	kind := map[int]string{}
	li := 0
	for _, op := range rec.Hist {
		switch op.Op {
		case "mk":
			ncell++
			cellOf[op.S] = ncell
			kind[op.S] = "clo"
		case "mkptr":
			ncell++
			cellOf[op.S] = ncell
			kind[op.S] = "ptr"
		case "mkboth":
			ncell++
			cellOf[op.S] = ncell
			kind[op.S] = "both"
		case "rec":
			e := rec.Log[li]
			li++
			pc.WantEvents = append(pc.WantEvents, fmt.Sprintf(`string:"r" int:%d int:%d`, num(e[1]), num(e[2])))
		case "recarg":
			e := rec.Log[li]
			li++
			pc.WantEvents = append(pc.WantEvents, fmt.Sprintf(`string:"ra" int:%d int:%d`, num(e[1]), num(e[2])))
		case "use":
			k := kind[op.S]
			if k == "" {
				continue
			}
			cid := cellOf[op.S]
			if k == "clo" || k == "both" {
				delta[cid] += step(op.P) - op.P
				e := rec.Log[li]
				li++
				pc.WantEvents = append(pc.WantEvents, fmt.Sprintf(`string:"u" int:%d int:%d`, num(e[1]), num(e[2])+delta[cid]))
			}
			if k == "ptr" || k == "both" {
				e := rec.Log[li]
				li++
				pc.WantEvents = append(pc.WantEvents, fmt.Sprintf(`string:"p" int:%d int:%d`, num(e[1]), num(e[2])+delta[cid]))
			}
		}
	}
	return pc
}

func c06Cells() (all []c06Cell) {
	for _, r := range append([]string{""}, c06Kinds...) {
		all = append(all, c06Cell{Args: nil, Ret: r, Name: "func0ret:" + r})
		for _, a := range c06Kinds {
			all = append(all, c06Cell{Args: []string{a}, Ret: r, Name: "func1(" + a + ")ret:" + r})
		}
	}
	for _, a := range c06Kinds {
		for _, b := range c06Kinds {
			all = append(all, c06Cell{Args: []string{a, b}, Ret: "", Name: "func2(" + a + "," + b + ")ret:"})
		}
	}
	// generic path: named types, three arguments, two arguments with a result
	all = append(all, c06Cell{Args: []string{"named"}, Ret: "named", Name: "generic:named"},
		c06Cell{Args: []string{"int", "int", "int"}, Ret: "int", Name: "generic:3args"},
		c06Cell{Args: []string{"int", "string"}, Ret: "int", Name: "generic:2args-ret"},
		c06Cell{Args: []string{"int8", "uint16"}, Ret: "float64", Name: "generic:2args-ret-mixed"})
	return
}

func c06Cfg(maxOps int, burns, recs string) string {
	return fmt.Sprintf("SPECIFICATION Spec\nCONSTANTS\n Slots = {0,1}\n Vias = {\"ret\",\"glob\",\"slice\"}\n Depths = {1,2,3}\n Burns = %s\n Recs = %s\n MaxOps = %d\n EmitOn = TRUE\n EmitAt = %d\nINVARIANTS TypeOK Emit\n",
		burns, recs, maxOps, maxOps)
}

func c06FramesCfg(mark, chain, drop bool, maxFrames int) string {
	b := func(x bool) string { return strings.ToUpper(fmt.Sprint(x)) }
	return fmt.Sprintf("SPECIFICATION Spec\nCONSTANTS\n PoolCap = 2\n MaxFrames = %d\n MaxDepth = 3\n MaxGen = 2\n MarkOnCapture = %s\n MarkChain = %s\n DropIntsOnFree = %s\nINVARIANTS NoStaleRef PoolOK\n",
		maxFrames, b(mark), b(chain), b(drop))
}

func runC06(c *core.Ctx) error {
	// (M) the pool discipline
	if _, err := c.TLC(core.TLCOpts{Spec: "Frames", CfgName: "pool", Cfg: c06FramesCfg(true, true, true, c.Pick(3, 4)), Timeout: 25 * time.Minute}); err != nil {
		return err
	}
	// (R) histories
	var recs []c06Rec
	var raws [][]byte
	collect := func(line []byte) {
		var r c06Rec
		if json.Unmarshal(line, &r) == nil {
			recs = append(recs, r)
			raws = append(raws, append([]byte(nil), line...))
		}
	}
	if _, err := c.TLC(core.TLCOpts{Spec: "Calls", CfgName: "histories-bfs", Cfg: c06Cfg(3, "{1,33}", "{40}"), OnLine: collect}); err != nil {
		return err
	}
	nb := len(recs)
	if _, err := c.TLC(core.TLCOpts{Spec: "Calls", CfgName: "histories-sim", Cfg: c06Cfg(c.Pick(7, 10), "{1,2,31,32,33}", "{5,40}"),
		Simulate: true, SimNum: c.Pick(40, 600), SimDepth: 12, Seed: c.Seed, OnLine: collect}); err != nil {
		return err
	}
	cells := c06Cells()
	var cases []*ProgCase
	seen := map[string]bool{}
	add := func(pc *ProgCase) {
		if !seen[pc.Key] {
			seen[pc.Key] = true
			cases = append(cases, pc)
		}
	}
	// canonical histories rendered for EVERY cell
	canon := []c06Rec{
		{Hist: []c06Op{{Op: "mk", S: 0, Via: "glob", D: 1, A: 3}, {Op: "burn", N: 33}, {Op: "use", S: 0, P: 2}, {Op: "burn", N: 2}, {Op: "use", S: 0, P: 2}},
			Log: [][]interface{}{{"u", 0, 5}, {"u", 0, 7}}},
	}
	// call sites: the three-argument call re-entered from its own last argument, for every result kind
	canon = append(canon, c06Rec{Hist: []c06Op{{Op: "mkptr", S: 0, D: 2, A: 4}, {Op: "burn", N: 2}, {Op: "use", S: 0, P: 2}, {Op: "recarg", N: 5}, {Op: "use", S: 0, P: 2}},
		Log: [][]interface{}{{"p", 0, 4}, {"ra", 5, 515}, {"p", 0, 14}}})
	if c.Thorough() {
		canon = append(canon, c06Rec{Hist: []c06Op{{Op: "mk", S: 1, Via: "ret", D: 2, A: 3}, {Op: "rec", N: 40}, {Op: "use", S: 1, P: 2}, {Op: "burn", N: 1}, {Op: "use", S: 1, P: 2}},
			Log: [][]interface{}{{"r", 40, 40}, {"u", 1, 5}, {"u", 1, 7}}})
	}
	for _, cr := range canon {
		raw, _ := json.Marshal(cr)
		for _, cell := range cells {
			add(c06Render(&cr, cell, raw))
		}
	}
	c.Extra["cells"] = len(cells)
	// every TLC history with a cell chosen by seed (thorough: 4 cells each)
	per := c.Pick(1, 4)
	stride := c.Pick(3, 1)
	for i := range recs {
		if i < nb && stride > 1 && (i+int(c.Seed))%stride != 0 {
			continue
		}
		for k := 0; k < per; k++ {
			cell := cells[(i*31+k*977+int(c.Seed)*7919)%len(cells)]
			add(c06Render(&recs[i], cell, raws[i]))
		}
	}
	for i, pc := range cases {
		if i%(len(cases)/3+1) == 0 {
			c.Sample(map[string]interface{}{"program": pc.Decls, "expected_events": pc.WantEvents})
		}
	}
	atomic.StoreInt32(&fast.VerifPoison, 1)
	defer atomic.StoreInt32(&fast.VerifPoison, 0)
	gf := 0.03
	if c.Thorough() {
		gf = 0.1
		if n := len(cases); n > 20000 {
			gf = 2000.0 / float64(n)
		}
	}
	c.Assume("pooled frames are poisoned through the verif hook; correct code never reads a pooled frame, so poisoning is invisible to it (the baseline suite passes with poisoning on)")
	return RunProgCases(c, cases, ProgOpts{GateFraction: gf, Prelude: c06Prelude, Sig: c06Sig, Reuse: 40})
}

func c06Sig(pc *ProgCase, events []string, result string) string {
	shape := "value-differs"
	if strings.HasPrefix(result, "panic(") || strings.HasPrefix(result, "declpanic(") {
		shape = "panics"
	}
	return "escaped-variable:" + shape
}

func replayC06(c *core.Ctx, raw json.RawMessage) error {
	var w struct {
		Decls      string   `json:"decls"`
		Entry      string   `json:"entry"`
		WantEvents []string `json:"want_events"`
		WantResult string   `json:"want_result"`
	}
	if err := json.Unmarshal(raw, &w); err != nil {
		return err
	}
	atomic.StoreInt32(&fast.VerifPoison, 1)
	pc := &ProgCase{Key: "replay", Nontrivial: true, Decls: w.Decls, Entry: w.Entry, WantEvents: w.WantEvents, WantResult: w.WantResult, Raw: raw}
	return RunProgCases(c, []*ProgCase{pc}, ProgOpts{GateFraction: 1, Prelude: c06Prelude, Sig: c06Sig})
}

func selfTestC06(c *core.Ctx) error {
	for _, v := range []struct {
		name              string
		mark, chain, drop bool
	}{{"no-mark-on-capture", false, true, true}, {"mark-only-innermost", true, false, true}, {"keep-slots-after-address-taken", true, true, false}} {
		r, err := c.TLC(core.TLCOpts{Spec: "Frames", CfgName: "broken-" + v.name, Cfg: c06FramesCfg(v.mark, v.chain, v.drop, 3), ExpectError: true})
		if err != nil {
			return err
		}
		if r.Violated != "NoStaleRef" {
			return fmt.Errorf("broken variant %s not caught (violated=%q)", v.name, r.Violated)
		}
	}
	return nil
}

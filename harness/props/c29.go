package props

import (
	"encoding/json"
	"fmt"
	"os"
	r "reflect"
	"sort"
	"strings"
	"sync"
	"time"

	"github.com/cosmos72/gomacro/go/types"
	xr "github.com/cosmos72/gomacro/xreflect"

	"verif/harness/c29t"
	"verif/harness/core"
)

// C29: interpreter types are canonical and agree with reflect and the Go typing rules.
// Spec: spec/types/Universe.tla (EXTENDS TypeId).
// (M) TLC checks canonicity, faithfulness, the struct layout laws and the predicate laws on
//     every reachable universe state; broken variants "chan-dir" and "no-padding".
// (R) every TLC history of constructor / accessor calls is replayed on a fresh
//     xreflect.NewUniverse(): the object returned by every call (same object / new object),
//     the attributes of every object and its predicate rows against every other object are
//     compared with the model's observation.
// (G) the model's observations are gated against reflect (compiled types, reflect.*Of) and
//     against the standard library's go/types on the same terms.
// (V) corpus: every type reachable from imports.Packages, see c29corpus.go.

func init() {
	core.Register(&core.Prop{
		ID: "C29",
		Rule: "TLC generates histories of Universe constructor / accessor calls (FromReflectType, ArrayOf, ChanOf, MapOf, PtrTo, SliceOf, FuncOf, StructOf, NamedOf, SetUnderlying, AddMethod, Elem, Key, Field, In, Out) with the object each call must return and the observation (attributes, predicate rows) of every object; " +
			"a case is one call of a history (object identity) or one observation of one object (attributes and predicate rows against all objects of the universe), or, in the corpus, one reflect type of the import tables converted and compared attribute by attribute; " +
			"non-trivial = the call is answered by an object that already exists (the same type built a second time, by whatever path) or the observed type is not a basic type; distinct by (constructor, argument terms, result term) resp. (term, declaration state) resp. reflect type",
		Run:      runC29,
		Replay:   replayC29,
		SelfTest: selfTestC29,
	})
}

const c29Workers = 6

// ---------------------------------------------------------------------------------------
// records printed by Universe.tla

type c29Decl struct {
	Name    string          `json:"name"`
	Pkg     int             `json:"pkg"`
	Origin  string          `json:"origin"`
	Und     *c28Term        `json:"und"`
	Methods []c29DeclMethod `json:"methods"`
}
type c29DeclMethod struct {
	Name string   `json:"name"`
	Pkg  int      `json:"pkg"`
	Ptr  bool     `json:"ptr"`
	Sig  *c28Term `json:"sig"`
}
type c29Meta struct {
	Decls     []c29Decl  `json:"decls"`
	Pool      []*c28Term `json:"pool,omitempty"`
	Exported  []string   `json:"exported"`
	Pkgpaths  []string   `json:"pkgpaths"`
	Pkgnames  []string   `json:"pkgnames"`
	Looknames [][]any    `json:"looknames"`
	Pattrs    []c29Attrs `json:"pattrs,omitempty"`
}
type c29FieldSpec struct {
	Name string `json:"name"`
	Pkg  int    `json:"pkg"`
	Emb  bool   `json:"emb"`
	Tag  string `json:"tag"`
}
type c29Extra struct {
	Pool     int             `json:"pool,omitempty"`
	N        int             `json:"n,omitempty"`
	Nin      int             `json:"nin,omitempty"`
	Variadic bool            `json:"variadic,omitempty"`
	Fields   []c29FieldSpec  `json:"fields,omitempty"`
	Decl     int             `json:"decl,omitempty"`
	K        int             `json:"k,omitempty"`
	Method   *c29DeclMethod  `json:"method,omitempty"`
}
type c29AField struct {
	Name string `json:"name"`
	Off  int    `json:"off"`
	Emb  bool   `json:"emb"`
	Tag  string `json:"tag"`
	Str  string `json:"str"`
}
type c29AMeth struct {
	Name string `json:"name"`
	Sig  string `json:"sig"`
}
type c29Look struct {
	Name  string `json:"name"`
	Pkg   int    `json:"pkg"`
	Count int    `json:"count"`
	Path  []int  `json:"path,omitempty"`
}
type c29Attrs struct {
	Kind     string      `json:"kind"`
	Size     int         `json:"size"`
	Align    int         `json:"align"`
	Str      string      `json:"str"`
	Rstr     string      `json:"rstr"`
	Named    bool        `json:"named"`
	Cmp      bool        `json:"cmp"`
	Fields   []c29AField `json:"fields"`
	Decl     []c29AMeth  `json:"decl"`
	Mset     []string    `json:"mset"`
	Pmset    []string    `json:"pmset"`
	Elem     string      `json:"elem"`
	Key      string      `json:"key"`
	Len      int         `json:"len"`
	Dir      int         `json:"dir"`
	Nin      int         `json:"nin"`
	Nout     int         `json:"nout"`
	Variadic bool        `json:"variadic"`
	Flook    []c29Look   `json:"flook"`
	Mlook    []c29Look   `json:"mlook"`
}
type c29Preds struct {
	Os       []int `json:"os"`
	AsgTo    []int `json:"asgTo"`
	AsgFrom  []int `json:"asgFrom"`
	CnvTo    []int `json:"cnvTo"`
	CnvFrom  []int `json:"cnvFrom"`
	ImplTo   []int `json:"implTo"`
	ImplFrom []int `json:"implFrom"`
	Ifaces   []int `json:"ifaces"`
	Ident    []int `json:"ident"`
	// classification only: pairs that involve an interpreter-declared name, and the answers
	// with those names erased (what reflect can express)
	Era      []int `json:"era"`
	AsgToE   []int `json:"asgToE"`
	AsgFromE []int `json:"asgFromE"`
	CnvToE   []int `json:"cnvToE"`
	CnvFromE []int `json:"cnvFromE"`
}
type c29Obs struct {
	ID    int      `json:"id"`
	Attrs c29Attrs `json:"attrs"`
	Preds c29Preds `json:"preds"`
}
type c29Op struct {
	Op    string   `json:"op"`
	Args  []int    `json:"args"`
	Extra c29Extra `json:"extra"`
	Term  *c28Term `json:"term"`
	Res   int      `json:"res"`
	New   bool     `json:"new"`
	Obs   []c29Obs `json:"obs"`
	Reobs []c29Obs `json:"reobs"`
}
type c29Rec struct {
	T   string  `json:"t"`
	Ops []c29Op `json:"ops"`
	c29Meta
}

// c29Case is the replay case of a violation.
type c29Case struct {
	Kind string   `json:"kind"` // "hist"
	Meta *c29Meta `json:"meta"`
	Ops  []c29Op  `json:"ops"`
}

func c29Cfg(broken string, emit bool, maxOps, maxObjs int, menu, invs string) string {
	return fmt.Sprintf("SPECIFICATION SpecUniverse\nCONSTANTS\n Level = 1\n Broken = %q\n EmitOn = %s\n Blocks = 1\n MaxOps = %d\n EmitAt = %d\n Insts = {1}\n NKeys = 4\n MaxObjs = %d\n Menu = %q\nINVARIANTS %s\n",
		broken, strings.ToUpper(fmt.Sprint(emit)), maxOps, maxOps, maxObjs, menu, invs)
}

const c29Invs = "UTypeOK Canonical Faithful LayoutLaws PredLaws EmitUniverse"

func (m *c29Meta) pkgpath(p int) string {
	if p >= 1 && p <= len(m.Pkgpaths) {
		return m.Pkgpaths[p-1]
	}
	return ""
}

func (m *c29Meta) slim() *c29Meta {
	return &c29Meta{Decls: m.Decls, Exported: m.Exported, Pkgpaths: m.Pkgpaths, Pkgnames: m.Pkgnames, Looknames: m.Looknames}
}

func (m *c29Meta) looknames() (out []c29Look) {
	for _, l := range m.Looknames {
		if len(l) == 2 {
			n, _ := l[0].(string)
			p, _ := l[1].(float64)
			out = append(out, c29Look{Name: n, Pkg: int(p)})
		}
	}
	return out
}

// ---------------------------------------------------------------------------------------
// the real universe driven by a history

type c29TagKey struct{}

type c29World struct {
	meta *c29Meta
	v    *xr.Universe
	objs []xr.Type // 1-based: objs[0] unused
	how  []string  // constructor that created the object
	decl map[int]xr.Type
	nm   []int // methods added per declaration (1-based)
}

func newC29World(meta *c29Meta) *c29World {
	v := xr.NewUniverse()
	// no toolchain lookups: the default importer shells out to `go list` for every package path
	v.Importer = &xr.Importer{}
	w := &c29World{meta: meta, v: v, objs: []xr.Type{nil}, how: []string{""}, decl: map[int]xr.Type{}, nm: make([]int, len(meta.Decls)+1)}
	return w
}

func c29Tag(t xr.Type) int {
	if t == nil {
		return -1
	}
	if x, ok := t.GetUserData(c29TagKey{}); ok {
		return x.(int)
	}
	return 0
}

func (w *c29World) pkg(p int) *xr.Package {
	path := w.meta.pkgpath(p)
	if path == "" {
		return nil
	}
	return w.v.LoadPackage(path)
}

// mk builds the type of a (small) term through the universe; used for method signatures.
func (w *c29World) mk(t *c28Term) xr.Type {
	v := w.v
	switch t.K {
	case "basic":
		return v.FromReflectType(c29BasicR[t.Kind])
	case "named":
		if d := w.meta.Decls[t.Obj-1]; d.Origin == "go" {
			return v.FromReflectType(c29t.Decls[t.Obj])
		}
		if x := w.decl[t.Obj]; x != nil {
			return x
		}
		panic(fmt.Sprintf("declaration %d not created yet", t.Obj))
	case "ptr":
		return v.PtrTo(w.mk(t.Elem))
	case "slice":
		return v.SliceOf(w.mk(t.Elem))
	case "array":
		return v.ArrayOf(t.Len, w.mk(t.Elem))
	case "map":
		return v.MapOf(w.mk(t.Key), w.mk(t.Elem))
	case "chan":
		return v.ChanOf(c29Dirs[t.Dir], w.mk(t.Elem))
	case "func":
		return v.FuncOf(w.mks(t.Params), w.mks(t.Results), t.Variadic)
	}
	panic("cannot build " + t.K + " term for a method signature")
}

func (w *c29World) mks(ts []*c28Term) []xr.Type {
	out := make([]xr.Type, len(ts))
	for i, t := range ts {
		out[i] = w.mk(t)
	}
	return out
}

var c29Dirs = []r.ChanDir{r.BothDir, r.SendDir, r.RecvDir}

var c29BasicR = map[string]r.Type{
	"bool": r.TypeOf(false), "int": r.TypeOf(int(0)), "int8": r.TypeOf(int8(0)), "int16": r.TypeOf(int16(0)),
	"int32": r.TypeOf(int32(0)), "int64": r.TypeOf(int64(0)), "uint8": r.TypeOf(uint8(0)), "uint16": r.TypeOf(uint16(0)),
	"string": r.TypeOf(""), "float64": r.TypeOf(float64(0)),
}

func (w *c29World) arg(i int) xr.Type {
	if i < 1 || i >= len(w.objs) {
		panic(fmt.Sprintf("history refers to object %d of %d", i, len(w.objs)-1))
	}
	return w.objs[i]
}

// exec performs one call on the real universe. A panic of the real code is returned as text.
func (w *c29World) exec(op *c29Op) (t xr.Type, panicked string) {
	defer func() {
		if e := recover(); e != nil {
			panicked = c28PanicText(e)
		}
	}()
	v := w.v
	a := op.Args
	switch op.Op {
	case "FromReflect":
		t = v.FromReflectType(c29t.Pool[op.Extra.Pool-1])
	case "PtrTo":
		t = v.PtrTo(w.arg(a[0]))
	case "SliceOf":
		t = v.SliceOf(w.arg(a[0]))
	case "ArrayOf":
		t = v.ArrayOf(op.Extra.N, w.arg(a[0]))
	case "ChanOf":
		t = v.ChanOf(c29Dirs[op.Extra.N], w.arg(a[0]))
	case "MapOf":
		t = v.MapOf(w.arg(a[0]), w.arg(a[1]))
	case "FuncOf":
		var in, out []xr.Type
		for i, x := range a {
			if i < op.Extra.Nin {
				in = append(in, w.arg(x))
			} else {
				out = append(out, w.arg(x))
			}
		}
		t = v.FuncOf(in, out, op.Extra.Variadic)
	case "StructOf":
		fields := make([]xr.StructField, len(a))
		for i, x := range a {
			f := op.Extra.Fields[i]
			fields[i] = xr.StructField{Name: f.Name, Type: w.arg(x), Tag: r.StructTag(f.Tag), Anonymous: f.Emb}
			if !c29Exported(f.Name) {
				fields[i].Pkg = w.pkg(f.Pkg)
			}
		}
		t = v.StructOf(fields)
	case "Elem":
		t = w.arg(a[0]).Elem()
	case "Key":
		t = w.arg(a[0]).Key()
	case "Field":
		t = w.arg(a[0]).Field(op.Extra.N).Type
	case "In":
		t = w.arg(a[0]).In(op.Extra.N)
	case "Out":
		t = w.arg(a[0]).Out(op.Extra.N)
	case "NamedOf":
		d := w.meta.Decls[op.Extra.Decl-1]
		t = v.NamedOf(d.Name, w.meta.pkgpath(d.Pkg))
		w.decl[op.Extra.Decl] = t
	case "SetUnderlying":
		t = w.arg(a[0])
		t.SetUnderlying(w.arg(a[1]))
	case "AddMethod":
		t = w.arg(a[0])
		m := op.Extra.Method
		recv := t
		if m.Ptr {
			recv = v.PtrTo(t)
		}
		// the form the interpreter uses (fast/type.go): a signature with receiver. (AddMethod also
		// documents "nil receiver, use the first parameter as receiver", but then stores the
		// signature unchanged: the method is listed as func(T, params) - not exercised here.)
		sig := v.MethodOf(recv, w.mks(m.Sig.Params), w.mks(m.Sig.Results), m.Sig.Variadic)
		t.AddMethod(m.Name, sig)
		w.nm[op.Extra.Decl]++
	default:
		panic("unknown op " + op.Op)
	}
	if op.Op == "FromReflect" {
		for o, d := range w.meta.Decls {
			if d.Origin == "go" {
				w.nm[o+1] = len(d.Methods)
			}
		}
	}
	return t, ""
}

func c29Exported(name string) bool {
	return name != "" && name[0] >= 'A' && name[0] <= 'Z'
}

// c29Diff is one disagreement between the real universe and the model.
type c29Diff struct {
	Sig  string
	What string
}

func (w *c29World) class(id int) string {
	if id < 1 || id >= len(w.how) {
		return "?"
	}
	return w.how[id]
}

func c29MentionsInterp(meta *c29Meta, t *c28Term) bool {
	found := false
	var walk func(t *c28Term)
	seen := map[int]bool{}
	walk = func(t *c28Term) {
		if t == nil || found {
			return
		}
		if t.K == "named" {
			d := meta.Decls[t.Obj-1]
			if d.Origin == "interp" {
				found = true
				return
			}
			if !seen[t.Obj] {
				seen[t.Obj] = true
				walk(d.Und)
				d.Und.subterms(walk)
			}
		}
	}
	walk(t)
	t.subterms(walk)
	return found
}

// step replays one call and compares identity; returns the disagreements found.
func (w *c29World) step(i int, op *c29Op) (diffs []c29Diff, err error) {
	t, p := w.exec(op)
	label := op.Op
	if op.Term != nil && op.Op != "NamedOf" && op.Op != "SetUnderlying" && op.Op != "AddMethod" && c29MentionsInterp(w.meta, op.Term) {
		label += "[interp]"
	}
	if p != "" {
		return []c29Diff{{Sig: fmt.Sprintf("universe(%s):panics", label),
			What: fmt.Sprintf("call %d %s%v of the history panics: %s", i+1, op.Op, op.Args, p)}}, nil
	}
	if t == nil {
		return []c29Diff{{Sig: fmt.Sprintf("universe(%s):panics", label),
			What: fmt.Sprintf("call %d %s%v of the history returns a nil Type", i+1, op.Op, op.Args)}}, nil
	}
	tag := c29Tag(t)
	switch {
	case op.New:
		if op.Res != len(w.objs) {
			return nil, core.Infra("history numbers the new object %d, expected %d", op.Res, len(w.objs))
		}
		if tag != 0 {
			diffs = append(diffs, c29Diff{Sig: fmt.Sprintf("universe(%s/%s:%s):not-canonical", w.class(tag), c29PathLabel(label), op.Term.shape()),
				What: fmt.Sprintf("call %d %s%v must return a new type %s, but returns the object of call result #%d (%s)", i+1, op.Op, op.Args, op.Term, tag, w.objs[tag])})
		}
		w.objs = append(w.objs, t)
		w.how = append(w.how, label)
		if tag == 0 {
			t.SetUserData(c29TagKey{}, op.Res)
		}
	default:
		if op.Res < 1 || op.Res >= len(w.objs) {
			return nil, core.Infra("history refers to object %d of %d", op.Res, len(w.objs)-1)
		}
		if tag != op.Res {
			what := fmt.Sprintf("call %d %s%v builds %s again: it must return the same object as #%d (built by %s)", i+1, op.Op, op.Args, w.objs[op.Res], op.Res, w.class(op.Res))
			if tag == 0 {
				what += fmt.Sprintf(", but returns a different (new) Type object %s; IdenticalTo=%v", t, c29Ident(t, w.objs[op.Res]))
			} else {
				what += fmt.Sprintf(", but returns object #%d %s", tag, w.objs[tag])
			}
			diffs = append(diffs, c29Diff{Sig: fmt.Sprintf("universe(%s/%s:%s):not-canonical", w.class(op.Res), c29PathLabel(label), op.Term.shape()), What: what})
		}
	}
	return diffs, nil
}

// c29PathLabel names the second construction path of a canonicity finding: the accessors form
// one family (which one is in the text).
func c29PathLabel(label string) string {
	for _, a := range []string{"Elem", "Key", "Field", "In", "Out"} {
		if strings.HasPrefix(label, a) {
			return "accessor" + strings.TrimPrefix(label, a)
		}
	}
	return label
}

func c29Ident(a, b xr.Type) (res string) {
	defer func() {
		if e := recover(); e != nil {
			res = "panic"
		}
	}()
	return fmt.Sprint(a.IdenticalTo(b))
}

func c29Set(xs []int) map[int]bool {
	m := make(map[int]bool, len(xs))
	for _, x := range xs {
		m[x] = true
	}
	return m
}

func c29KindName(k r.Kind) string { return k.String() }

func c29DirOf(d r.ChanDir) int {
	switch d {
	case r.SendDir:
		return 1
	case r.RecvDir:
		return 2
	}
	return 0
}

// observe compares the attributes and predicate rows of one object with the model's.
func (w *c29World) observe(ob *c29Obs) (diffs []c29Diff) {
	id := ob.ID
	if id < 1 || id >= len(w.objs) {
		return nil // (only in a corrupted record: the identity mismatch was reported by step)
	}
	t := w.arg(id)
	cl := w.class(id)
	at := &ob.Attrs
	attr := func(name string, want, got interface{}) {
		if fmt.Sprint(want) != fmt.Sprint(got) {
			diffs = append(diffs, c29Diff{Sig: fmt.Sprintf("universe(%s):attr-differs(%s)", cl, name),
				What: fmt.Sprintf("object #%d %s (built by %s): %s is %v, the specification says %v", id, at.Str, cl, name, got, want)})
		}
	}
	guard := func(name string, f func()) {
		defer func() {
			if e := recover(); e != nil {
				diffs = append(diffs, c29Diff{Sig: fmt.Sprintf("universe(%s):panics", cl),
					What: fmt.Sprintf("object #%d %s (built by %s): %s panics: %s", id, at.Str, cl, name, c28PanicText(e))})
			}
		}()
		f()
	}
	guard("Kind/Size/Align/String", func() {
		attr("Kind", at.Kind, c29KindName(t.Kind()))
		attr("Size", at.Size, int(t.Size()))
		attr("Align", at.Align, t.Align())
		attr("String", at.Str, t.String())
		attr("Named", at.Named, t.Named())
		attr("Comparable", at.Cmp, t.Comparable())
	})
	if at.Kind == "struct" {
		guard("Field", func() {
			attr("NumField", len(at.Fields), t.NumField())
			for i, f := range at.Fields {
				if i >= t.NumField() {
					break
				}
				g := t.Field(i)
				attr("Field.Name", f.Name, g.Name)
				attr("Field.Offset", f.Off, int(g.Offset))
				attr("Field.Anonymous", f.Emb, g.Anonymous)
				attr("Field.Tag", f.Tag, string(g.Tag))
				attr("Field.Type", f.Str, g.Type.String())
				attr("Field.Index", fmt.Sprint([]int{i}), fmt.Sprint(g.Index))
			}
		})
		guard("FieldByName", func() {
			want := map[string]c29Look{}
			for _, l := range at.Flook {
				want[fmt.Sprintf("%s@%d", l.Name, l.Pkg)] = l
			}
			for _, n := range w.meta.looknames() {
				f, count := t.FieldByName(n.Name, w.meta.pkgpath(n.Pkg))
				wl := want[fmt.Sprintf("%s@%d", n.Name, n.Pkg)]
				attr("FieldByName.count", fmt.Sprintf("%s:%d", n.Name, wl.Count), fmt.Sprintf("%s:%d", n.Name, count))
				if count == 1 && wl.Count == 1 {
					attr("FieldByName.Index", fmt.Sprintf("%s:%v", n.Name, wl.Path), fmt.Sprintf("%s:%v", n.Name, f.Index))
				}
			}
		})
	}
	if at.Named || at.Kind == "interface" {
		guard("Method", func() {
			var want, got []string
			for _, m := range at.Decl {
				want = append(want, m.Name+" "+m.Sig)
			}
			n := t.NumMethod()
			for i := 0; i < n; i++ {
				m := t.Method(i)
				sig := "?"
				if m.GoFun != nil {
					if s, ok := m.GoFun.Type().(*types.Signature); ok {
						sig = types.NewSignature(nil, s.Params(), s.Results(), s.Variadic()).String()
					}
				}
				got = append(got, m.Name+" "+sig)
			}
			sort.Strings(want)
			sort.Strings(got)
			attr("Methods", want, got)
		})
	}
	guard("MethodByName", func() {
		want := map[string]c29Look{}
		for _, l := range at.Mlook {
			want[fmt.Sprintf("%s@%d", l.Name, l.Pkg)] = l
		}
		for _, n := range w.meta.looknames() {
			_, count := t.MethodByName(n.Name, w.meta.pkgpath(n.Pkg))
			wl := want[fmt.Sprintf("%s@%d", n.Name, n.Pkg)]
			attr("MethodByName.count", fmt.Sprintf("%s:%d", n.Name, wl.Count), fmt.Sprintf("%s:%d", n.Name, count))
		}
	})
	switch at.Kind {
	case "ptr", "slice", "array", "chan", "map":
		guard("Elem", func() {
			attr("Elem", at.Elem, t.Elem().String())
			if at.Kind == "map" {
				attr("Key", at.Key, t.Key().String())
			}
			if at.Kind == "array" {
				attr("Len", at.Len, t.Len())
			}
			if at.Kind == "chan" {
				attr("ChanDir", at.Dir, c29DirOf(t.ChanDir()))
			}
		})
	case "func":
		guard("NumIn", func() {
			attr("NumIn", at.Nin, t.NumIn())
			attr("NumOut", at.Nout, t.NumOut())
			attr("IsVariadic", at.Variadic, t.IsVariadic())
		})
	}
	// predicate rows
	p := &ob.Preds
	asgTo, asgFrom, cnvTo, cnvFrom := c29Set(p.AsgTo), c29Set(p.AsgFrom), c29Set(p.CnvTo), c29Set(p.CnvFrom)
	implTo, implFrom, ident, ifaces := c29Set(p.ImplTo), c29Set(p.ImplFrom), c29Set(p.Ident), c29Set(p.Ifaces)
	era := c29Set(p.Era)
	erased := map[string]map[int]bool{"AssignableTo/true": c29Set(p.AsgToE), "AssignableTo/false": c29Set(p.AsgFromE),
		"ConvertibleTo/true": c29Set(p.CnvToE), "ConvertibleTo/false": c29Set(p.CnvFromE)}
	pred := func(name string, j int, xy bool, want bool, f func() bool) {
		defer func() {
			if e := recover(); e != nil {
				diffs = append(diffs, c29Diff{Sig: fmt.Sprintf("universe(%s,%s):panics", cl, w.class(j)),
					What: fmt.Sprintf("%s between #%d %s and #%d %s panics: %s", name, id, at.Str, j, w.objs[j], c28PanicText(e))})
			}
		}()
		got := f()
		if got != want {
			a, b := id, j
			if !xy {
				a, b = j, id
			}
			sig := fmt.Sprintf("universe(%s,%s):predicate-differs(%s=%v)", w.class(a), w.class(b), name, got)
			note := ""
			if rows, ok := erased[fmt.Sprintf("%s/%v", name, xy)]; ok && era[j] && rows[j] == got {
				// the answer is the one of the types with the interpreter-declared names erased
				// (their reflect approximations): one signature for the whole family
				sig = fmt.Sprintf("universe(NamedOf+SetUnderlying):predicate-differs(%s=%v as for the underlying types)", name, got)
				note = "; it is the answer for the types with the interpreter-declared names replaced by their underlying types"
			}
			diffs = append(diffs, c29Diff{Sig: sig,
				What: fmt.Sprintf("<%s>.%s(<%s>) is %v, the Go specification says %v (objects #%d built by %s, #%d built by %s)%s",
					w.objs[a], name, w.objs[b], got, want, a, w.class(a), b, w.class(b), note)})
		}
	}
	for _, j := range p.Os {
		u := w.arg(j)
		pred("AssignableTo", j, true, asgTo[j], func() bool { return t.AssignableTo(u) })
		pred("ConvertibleTo", j, true, cnvTo[j], func() bool { return t.ConvertibleTo(u) })
		pred("IdenticalTo", j, true, ident[j], func() bool { return t.IdenticalTo(u) })
		if j != id {
			pred("AssignableTo", j, false, asgFrom[j], func() bool { return u.AssignableTo(t) })
			pred("ConvertibleTo", j, false, cnvFrom[j], func() bool { return u.ConvertibleTo(t) })
		}
		if ifaces[j] {
			pred("Implements", j, true, implTo[j], func() bool { return t.Implements(u) })
		}
		if at.Kind == "interface" && j != id {
			pred("Implements", j, false, implFrom[j], func() bool { return u.Implements(t) })
		}
	}
	return diffs
}

// replay runs a whole history on a fresh universe.
func c29Replay(meta *c29Meta, ops []c29Op, count func(key string, nontrivial bool)) (diffs []c29Diff, err error) {
	w := newC29World(meta)
	for i := range ops {
		op := &ops[i]
		d, e := w.step(i, op)
		if e != nil {
			return nil, e
		}
		diffs = append(diffs, d...)
		if count != nil {
			count(fmt.Sprintf("call|%s|%v|%s|%v", op.Op, c29ArgTerms(ops, op), op.Term.key(), op.Extra), !op.New)
		}
		if len(d) > 0 && strings.HasSuffix(d[0].Sig, ":panics") {
			return diffs, nil // the rest of the history cannot be replayed
		}
		for k := range op.Obs {
			diffs = append(diffs, w.observe(&op.Obs[k])...)
			if count != nil {
				count(fmt.Sprintf("obs|%s|%v", op.Obs[k].Attrs.Str, w.nm), op.Obs[k].Attrs.Kind != "" && !c29IsBasic(op.Obs[k].Attrs.Kind))
			}
		}
		for k := range op.Reobs {
			diffs = append(diffs, w.observe(&op.Reobs[k])...)
			if count != nil {
				count(fmt.Sprintf("obs|%s|%v", op.Reobs[k].Attrs.Str, w.nm), true)
			}
		}
	}
	return diffs, nil
}

func c29IsBasic(kind string) bool {
	_, ok := c29BasicR[kind]
	return ok
}

// c29ArgTerms names the arguments of a call by the terms of the objects (for distinct counting).
func c29ArgTerms(ops []c29Op, op *c29Op) string {
	var sb strings.Builder
	for _, a := range op.Args {
		for k := range ops {
			if ops[k].Res == a && ops[k].Term != nil {
				sb.WriteString(ops[k].Term.String())
				break
			}
		}
		sb.WriteByte(',')
	}
	return sb.String()
}

// ---------------------------------------------------------------------------------------

type c29Run struct {
	c        *core.Ctx
	mu       sync.Mutex
	meta     *c29Meta
	gate     *c29Gate
	firstErr error
	nhist    int
	pending  []c29Rec
}

func (rn *c29Run) verdict(ops []c29Op) {
	c := rn.c
	meta := rn.meta
	// Go gate first: a disagreement between the model and reflect / go/types is a
	// specification bug, the behaviour is dropped
	ok, why := rn.gate.history(ops)
	c.Gate(ok)
	if !ok {
		rn.mu.Lock()
		if n, _ := c.Extra["gate_reject_examples"].([]string); len(n) < 5 {
			c.Extra["gate_reject_examples"] = append(n, why)
		}
		rn.mu.Unlock()
		return
	}
	diffs, err := c29Replay(meta, ops, c.Case)
	c.Trace()
	if err != nil {
		rn.mu.Lock()
		if rn.firstErr == nil {
			rn.firstErr = err
		}
		rn.mu.Unlock()
		return
	}
	if len(diffs) == 0 {
		return
	}
	// confirm in a second fresh universe
	again, err := c29Replay(meta, ops, nil)
	if err != nil {
		return
	}
	confirmed := map[string]bool{}
	for _, d := range again {
		confirmed[d.Sig+"\x00"+d.What] = true
	}
	seen := map[string]bool{}
	for _, d := range diffs {
		if !confirmed[d.Sig+"\x00"+d.What] {
			rn.mu.Lock()
			if rn.firstErr == nil {
				rn.firstErr = core.Infra("unreproducible mismatch: %s: %s", d.Sig, d.What)
			}
			rn.mu.Unlock()
			continue
		}
		if seen[d.Sig] {
			continue
		}
		seen[d.Sig] = true
		c.Violation(d.Sig, d.What, &c29Case{Kind: "hist", Meta: meta.slim(), Ops: c29Minimal(meta, ops, d)})
	}
}

// c29Minimal shortens a failing history: the shortest prefix that still shows the signature.
func c29Minimal(meta *c29Meta, ops []c29Op, d c29Diff) []c29Op {
	for n := 1; n < len(ops); n++ {
		ds, err := c29Replay(meta, ops[:n], nil)
		if err != nil {
			break
		}
		for _, x := range ds {
			if x.Sig == d.Sig {
				return ops[:n]
			}
		}
	}
	return ops
}

func (rn *c29Run) handle(line []byte) {
	if rn.firstErr != nil {
		return
	}
	var rec c29Rec
	if err := json.Unmarshal(line, &rec); err != nil {
		rn.firstErr = core.Infra("bad record from TLC: %v", err)
		return
	}
	switch rec.T {
	case "meta":
		if rn.meta == nil {
			m := rec.c29Meta
			rn.meta = &m
			g, err := newC29Gate(&m)
			if err != nil {
				rn.firstErr = err
				return
			}
			rn.gate = g
			if err := g.poolCheck(rn.c); err != nil {
				rn.firstErr = err
			}
		}
	case "hist":
		if rn.meta == nil {
			rn.firstErr = core.Infra("history before meta record")
			return
		}
		rn.nhist++
		if rn.nhist%1499 == 1 {
			rn.c.Sample(json.RawMessage(append([]byte(nil), c29SampleText(&rec)...)))
		}
		rn.pending = append(rn.pending, rec)
		if len(rn.pending) >= 256 {
			rn.flush()
		}
	default:
		rn.firstErr = core.Infra("unknown record type %q", rec.T)
	}
}

func (rn *c29Run) flush() {
	p := rn.pending
	rn.pending = nil
	core.ParDo(len(p), c29Workers, func(i int) { rn.verdict(p[i].Ops) })
}

// c29SampleText renders a history compactly for the evidence file.
func c29SampleText(rec *c29Rec) []byte {
	var calls []string
	for _, op := range rec.Ops {
		s := fmt.Sprintf("%s%v", op.Op, op.Args)
		if op.Op == "FromReflect" {
			s = fmt.Sprintf("FromReflect(pool %d)", op.Extra.Pool)
		}
		tag := "new"
		if !op.New {
			tag = "same"
		}
		calls = append(calls, fmt.Sprintf("%s -> #%d %s (%s)", s, op.Res, op.Term, tag))
	}
	b, _ := json.Marshal(map[string]interface{}{"history": calls})
	return b
}

func runC29(c *core.Ctx) error {
	rn := &c29Run{c: c}
	t0 := time.Now()
	type cfg struct {
		name, menu      string
		maxOps, maxObjs int
		sim             bool
		num, depth      int
	}
	var cfgs []cfg
	if c.Quick() {
		cfgs = []cfg{
			{name: "bfs1q-depth3", menu: "bfs1q", maxOps: 3, maxObjs: 6},
			{name: "bfs2q-depth3", menu: "bfs2q", maxOps: 3, maxObjs: 6},
			{name: "bfs3-script5+2", menu: "bfs3", maxOps: 7, maxObjs: 6},
			{name: "bfs4-script2+2", menu: "bfs4", maxOps: 4, maxObjs: 6},
			{name: "sim-depth9", menu: "sim", maxOps: 9, maxObjs: 9, sim: true, num: 12, depth: 4*9 + 2},
			{name: "simd-script8+8", menu: "simd", maxOps: 16, maxObjs: 14, sim: true, num: 12, depth: 4*16 + 2},
		}
	} else {
		cfgs = []cfg{
			{name: "bfs1-depth3", menu: "bfs1", maxOps: 3, maxObjs: 6},
			{name: "bfs2-depth3", menu: "bfs2", maxOps: 3, maxObjs: 6},
			{name: "bfs3-script5+2", menu: "bfs3", maxOps: 7, maxObjs: 6},
			{name: "bfs4-script2+2", menu: "bfs4", maxOps: 4, maxObjs: 6},
			{name: "sim-depth12", menu: "sim", maxOps: 12, maxObjs: 12, sim: true, num: 150, depth: 4*12 + 2},
			{name: "simd-script8+10", menu: "simd", maxOps: 18, maxObjs: 16, sim: true, num: 150, depth: 4*18 + 2},
		}
	}
	part := os.Getenv("VERIF_C29_PART") // development switch: "corpus" or "histories" runs one half only
	if part == "corpus" {
		cfgs = nil
		rn.nhist = -1
	}
	// two TLC runs at a time (4 workers each); the records of both go through one handler
	var hmu sync.Mutex
	handle := func(line []byte) {
		hmu.Lock()
		defer hmu.Unlock()
		rn.handle(line)
	}
	var lanes [2][]cfg
	for i, cf := range cfgs {
		if only := os.Getenv("VERIF_C29_CFG"); only != "" && !strings.Contains(cf.name, only) { // development switch
			continue
		}
		lanes[i%2] = append(lanes[i%2], cf)
	}
	var wg sync.WaitGroup
	var laneErr [2]error
	for l := range lanes {
		wg.Add(1)
		go func(l int) {
			defer wg.Done()
			for _, cf := range lanes[l] {
				_, err := c.TLC(core.TLCOpts{Spec: "Universe", CfgName: cf.name, Workers: 4,
					Cfg:      c29Cfg("none", true, cf.maxOps, cf.maxObjs, cf.menu, c29Invs),
					Simulate: cf.sim, SimNum: cf.num, SimDepth: cf.depth, Seed: c.Seed, OnLine: handle,
					Timeout: 45 * time.Minute})
				hmu.Lock()
				rn.flush()
				ferr := rn.firstErr
				hmu.Unlock()
				if err != nil {
					laneErr[l] = err
					return
				}
				if ferr != nil {
					return
				}
			}
		}(l)
	}
	wg.Wait()
	for _, e := range laneErr {
		if e != nil {
			return e
		}
	}
	if rn.firstErr != nil {
		return rn.firstErr
	}
	c.Extra["histories"] = rn.nhist
	c.Extra["histories_s"] = time.Since(t0).Seconds()
	if rn.nhist == 0 {
		return core.Infra("TLC printed no history")
	}
	c.Exhaustive = false // the bounded-exhaustive menus are complete, the sampled histories and the corpus are not
	t1 := time.Now()
	if part != "histories" {
		if err := c29Corpus(c); err != nil {
			return err
		}
	}
	c.Extra["corpus_s"] = time.Since(t1).Seconds()
	c.Assume("object identity of xreflect.Type values (function values, not comparable with ==) is observed through the per-object user data (SetUserData / GetUserData): two Type values are the same object iff a tag stored through one is read back through the other")
	c.Assume("non-emulated types only: arguments of constructors are complete types (a NamedOf type is used after SetUnderlying), no recursive types (xreflect.Forward), no InterfaceOf; interface types come from FromReflectType")
	c.Assume("Universe.Importer is set to a zero xreflect.Importer in replayed universes so that package lookups fail at once (the default importer shells out to `go list` for every package path); named compiled types are then described by reflection, as in a deployment without a Go toolchain")
	c.Assume("platform amd64 (sizes, alignments, offsets)")
	return rn.firstErr
}

func replayC29(c *core.Ctx, raw json.RawMessage) error {
	var k struct {
		Kind string `json:"kind"`
	}
	if err := json.Unmarshal(raw, &k); err != nil {
		return err
	}
	switch k.Kind {
	case "hist":
		var cs c29Case
		if err := json.Unmarshal(raw, &cs); err != nil {
			return err
		}
		diffs, err := c29Replay(cs.Meta, cs.Ops, nil)
		if err != nil {
			return err
		}
		seen := map[string]bool{}
		for _, d := range diffs {
			if !seen[d.Sig] {
				seen[d.Sig] = true
				c.Violation(d.Sig, d.What, &cs)
			}
		}
		return nil
	case "corpus":
		return c29CorpusReplay(c, raw)
	}
	return core.Infra("unknown replay case kind %q", k.Kind)
}

package props

import (
	"encoding/json"
	"fmt"
	"os"
	"path/filepath"
	"sort"
	"strings"
	"sync"
	"time"

	"verif/harness/core"
)

// C05: statement control flow. Spec: spec/sem/Stmt.tla (Go-level small-step semantics of
// structured statements; a behaviour = a generated statement tree + its execution).
//  (M) TLC checks on every generated program / execution state: the tree is closed and
//      well-labelled, execution is deterministic, the continuation stack mirrors the lexical
//      nesting, every executed break/continue reaches the statement designated by the lexical
//      rule of the Go specification (second, static definition); the broken variant
//      ContinueSeesSwitch must violate JumpLexical (self-test).
//  (R) every emitted (tree, log, outcome) is rendered as one Go function (c05render.go),
//      gated natively (a covering set of all node kinds / forms / labels / cells, plus a seeded
//      fraction; thorough: all) and replayed on the fast interpreter event by event.
//  Cells (c05cells.go): the switch dispatch shortcut is generated per tag kind and the range
//      loops per container kind: fixed shape families are enumerated by TLC (PosTpl/PosPar
//      constraints) and the switch trees re-rendered for every tag kind x density.

func init() {
	core.Register(&core.Prop{
		ID: "C05",
		Rule: "TLC generates statement trees (if/else, for x3, range over slice/array/*array/string/map/chan, expression switch with default anywhere + fallthrough + non-constant and side-effecting cases, tagless and boolean switch, type switch, select, labelled/unlabelled break/continue, backward goto, return, shadowing blocks, header variables, closures over loop variables) " +
			"by BFS over focused alphabets (bounded-exhaustive) and by seeded simulation over the full alphabet, each with the event log and final variables Go prescribes; every tree is rendered as a Go function and run on the interpreter; " +
			"switch trees are re-rendered for every tag kind x {dense, sparse, mixed, side-effect} cell, range trees enumerated for every container x form x jump cell; " +
			"non-trivial = the tree contains a compound statement; distinct by program text",
		Run:      runC05,
		Replay:   replayC05,
		SelfTest: selfTestC05,
	})
}

type c05Term struct {
	Ty string `json:"ty"` // c: constant v | y: variable y | e: evi(v, ..) | cond: condition cf
	V  int    `json:"v"`
	Cf string `json:"cf"`
}
type c05Clause struct {
	Ts  []c05Term `json:"ts"`
	Ft  bool      `json:"ft"`
	Def bool      `json:"def"`
}
type c05Node struct {
	K   string      `json:"k"`
	F   string      `json:"f"`
	C   string      `json:"c"`
	N   int         `json:"n"`
	Lay []c05Clause `json:"lay"`
	P   int         `json:"p"`
	S   int         `json:"s"`
	D   int         `json:"d"`
	B   [][]int     `json:"b"`
	T   int         `json:"t"`
	Lj  bool        `json:"lj"`
	Lg  bool        `json:"lg"`
}
type c05Rec struct {
	Nodes   []c05Node       `json:"nodes"`
	Log     [][]interface{} `json:"log"`
	Outcome []interface{}   `json:"outcome"`
	Auto    bool            `json:"auto"`
	Ords    []string        `json:"ords"`
	Steps   int             `json:"steps"`
	Lim     int             `json:"lim"`
	Fam     int             `json:"fam"`
}

// ---------------------------------------------------------------------------------------
// templates and TLC configurations

type c05Tpl struct {
	Nm, K, F, C string
	N           int
	Lay         []c05Clause
}

func (t c05Tpl) tla() string {
	var cl []string
	for _, c := range t.Lay {
		var ts []string
		for _, tm := range c.Ts {
			ts = append(ts, fmt.Sprintf(`[ty |-> %q, v |-> %d, cf |-> %q]`, tm.Ty, tm.V, tm.Cf))
		}
		cl = append(cl, fmt.Sprintf(`[ts |-> <<%s>>, ft |-> %s, def |-> %s]`, strings.Join(ts, ", "), c05B(c.Ft), c05B(c.Def)))
	}
	return fmt.Sprintf(`[nm |-> %q, k |-> %q, f |-> %q, c |-> %q, n |-> %d, lay |-> <<%s>>]`, t.Nm, t.K, t.F, t.C, t.N, strings.Join(cl, ", "))
}

func c05B(b bool) string {
	if b {
		return "TRUE"
	}
	return "FALSE"
}

func c05C(vs ...int) []c05Term {
	var ts []c05Term
	for _, v := range vs {
		ts = append(ts, c05Term{Ty: "c", V: v})
	}
	return ts
}
func c05Cl(ts []c05Term, ft bool) c05Clause { return c05Clause{Ts: ts, Ft: ft} }
func c05Def(ft bool) c05Clause              { return c05Clause{Ts: []c05Term{}, Ft: ft, Def: true} }
func c05Cond(cs ...string) []c05Term {
	var ts []c05Term
	for _, c := range cs {
		ts = append(ts, c05Term{Ty: "cond", Cf: c})
	}
	return ts
}

var (
	c05LayMid    = []c05Clause{c05Cl(c05C(0), false), c05Cl(c05C(1, 2), true), c05Def(false)}                     // fallthrough into a final default
	c05LayDFirst = []c05Clause{c05Def(true), c05Cl(c05C(1), false), c05Cl(c05C(0, 2), false)}                      // default first, falling into case 1
	c05LayDMid   = []c05Clause{c05Cl(c05C(2), true), c05Def(false), c05Cl(c05C(0), false)}                         // fallthrough into a default in the middle
	c05LayNoDef  = []c05Clause{c05Cl(c05C(1), false), c05Cl(c05C(0), false)}                                       // no default
	c05LayMixed  = []c05Clause{c05Cl(c05C(3), false), c05Cl(c05C(1), false), c05Cl([]c05Term{{Ty: "y"}, {Ty: "c", V: 2}}, true), c05Cl(c05C(0), false), c05Def(false)}
	c05LayEvi    = []c05Clause{c05Cl([]c05Term{{Ty: "e", V: 1}}, false), c05Cl([]c05Term{{Ty: "e", V: 0}, {Ty: "c", V: 2}}, false), c05Def(false)}
	c05LayDense  = []c05Clause{c05Cl(c05C(1), false), c05Cl(c05C(2, 3), true), c05Def(false), c05Cl(c05C(4), false)} // tag 0..4 of a loop variable
	c05LayNoTag  = []c05Clause{c05Cl(c05Cond("x<1"), false), c05Cl(c05Cond("x==y", "y%2==0"), true), c05Def(false)}
	c05LayNoTag2 = []c05Clause{c05Def(false), c05Cl(c05Cond("i<1"), false), c05Cl(c05Cond("false"), false)}
	c05LayBool   = []c05Clause{c05Cl(c05C(1), false), c05Cl(c05C(0), false)}
	c05LayBool2  = []c05Clause{c05Cl(c05C(0), true), c05Def(false)}
	// type switch: term v = type index (0 int, 1 string, 2 bool, 3 nil)
	c05TLayA = []c05Clause{c05Cl(c05C(0), false), c05Cl(c05C(1, 2), false), c05Def(false)}
	c05TLayB = []c05Clause{c05Cl(c05C(3), false), c05Cl(c05C(0), false)}
	c05TLayC = []c05Clause{c05Def(false), c05Cl(c05C(2), false)}
	c05TLayD = []c05Clause{c05Cl(c05C(0), false), c05Cl(c05C(1), false), c05Cl(c05C(2), false), c05Cl(c05C(3), false)}
	// 4, 5: time.Duration, time.Month (compiled types with a String method); 6: fmt.Stringer; 7: interface{}
	// an interface case BEFORE concrete cases it also matches (the first matching clause wins)
	c05TLayE = []c05Clause{c05Cl(c05C(6), false), c05Cl(c05C(4, 0), false), c05Cl(c05C(5), false), c05Def(false)}
	c05TLayF = []c05Clause{c05Cl(c05C(0), false), c05Cl(c05C(6), false), c05Cl(c05C(5), false), c05Cl(c05C(1), false)}
	c05TLayG = []c05Clause{c05Cl(c05C(2), false), c05Cl(c05C(7), false), c05Cl(c05C(0), false), c05Cl(c05C(4), false)}
	c05TLayH = []c05Clause{c05Cl(c05C(4), false), c05Cl(c05C(5, 1), false), c05Cl(c05C(6), false), c05Cl(c05C(3), false)}
)

func c05T(k, f, c string, n int) c05Tpl {
	nm := k
	if f != "" {
		nm += "." + f
	}
	if c != "" {
		nm += "." + c
	}
	if n != 0 {
		nm += fmt.Sprintf(".%d", n)
	}
	return c05Tpl{Nm: nm, K: k, F: f, C: c, N: n, Lay: []c05Clause{}}
}
func c05Sw(nm, k, f, c string, lay []c05Clause) c05Tpl {
	return c05Tpl{Nm: nm, K: k, F: f, C: c, Lay: lay}
}

var c05RngConts = []string{"slice", "array", "ptrarray", "string", "map0", "map1", "map2", "chan"}
var c05RngForms = []string{"kv", "k", "v", "none", "kv=", "k=", "kvc"}

func c05RngOK(c, f string) bool {
	if c == "chan" {
		return f == "k" || f == "none" || f == "k="
	}
	return true
}

// the full alphabet (simulation); map2 (order chosen by the environment) only in BFS
func c05AllTemplates(withMap2 bool) []c05Tpl {
	ts := []c05Tpl{
		c05T("tr", "", "", 0),
		c05T("as", "x++", "", 0), c05T("as", "y=x+y", "", 0), c05T("as", "x=y", "", 0), c05T("as", "y+=2", "", 0), c05T("as", "x+=i", "", 0),
		c05T("mut", "", "", 0),
		c05T("if", "plain", "x<2", 1), c05T("if", "plain", "x<1", 2), c05T("if", "plain", "x==y", 2), c05T("if", "plain", "y%2==0", 1),
		c05T("if", "plain", "x!=y", 2), c05T("if", "plain", "i<1", 1), c05T("if", "plain", "true", 2), c05T("if", "plain", "false", 2), c05T("if", "plain", "false", 1),
		c05T("if", "init", "", 1), c05T("if", "init", "", 2),
		c05T("blk", "plain", "", 0), c05T("blk", "shadow", "", 0),
		c05T("for3", "plain", "", 1), c05T("for3", "plain", "", 2), c05T("for3", "plain", "", 3), c05T("for3", "capt", "", 2),
		c05T("forc", "cond", "", 2), c05T("forc", "ever", "", 2), c05T("forc", "cond", "", 1), c05T("forc", "ever", "", 3),
		c05Sw("sw.x.mid", "sw", "x", "", c05LayMid), c05Sw("sw.y.dfirst", "sw", "y", "", c05LayDFirst), c05Sw("sw.x+y.dmid", "sw", "x+y", "", c05LayDMid),
		c05Sw("sw.x.nodef", "sw", "x", "", c05LayNoDef), c05Sw("sw.x.mixed", "sw", "x", "", c05LayMixed), c05Sw("sw.y.evi", "sw", "y", "", c05LayEvi),
		c05Sw("sw.evi.mid", "sw", "evi", "", c05LayMid), c05Sw("sw.evi.evi", "sw", "evi", "", c05LayEvi), c05Sw("sw.init.dmid", "sw", "init", "", c05LayDMid),
		c05Sw("sw.i.dense", "sw", "i", "", c05LayDense), c05Sw("sw.none.a", "sw", "none", "", c05LayNoTag), c05Sw("sw.none.b", "sw", "none", "", c05LayNoTag2),
		c05Sw("sw.bool.a", "sw", "bool", "", c05LayBool), c05Sw("sw.bool.b", "sw", "bool", "", c05LayBool2),
		c05Sw("tsw.bind.x.a", "tsw", "bind", "x", c05TLayA), c05Sw("tsw.bind.y.b", "tsw", "bind", "y", c05TLayB), c05Sw("tsw.nobind.x.c", "tsw", "nobind", "x", c05TLayC),
		c05Sw("tsw.bind.y.d", "tsw", "bind", "y", c05TLayD), c05Sw("tsw.nobind.y.a", "tsw", "nobind", "y", c05TLayA),
		c05Sw("tsw.bind.x.e", "tsw", "bind", "x", c05TLayE), c05Sw("tsw.nobind.y.f", "tsw", "nobind", "y", c05TLayF),
		c05Sw("tsw.bind.y.g", "tsw", "bind", "y", c05TLayG), c05Sw("tsw.nobind.x.h", "tsw", "nobind", "x", c05TLayH),
	}
	for _, f := range []string{"d", "rd1", "rd0", "r1", "sd1", "sd0", "sx1", "sx0", "rr", "rc"} {
		ts = append(ts, c05T("sel", f, "", 0))
	}
	for _, c := range c05RngConts {
		if c == "map2" && !withMap2 {
			continue
		}
		for _, f := range c05RngForms {
			if c05RngOK(c, f) {
				ts = append(ts, c05T("rng", f, c, 0))
			}
		}
	}
	return ts
}

func c05Pick(all []c05Tpl, names ...string) []c05Tpl {
	var out []c05Tpl
	for _, n := range names {
		found := false
		for _, t := range all {
			if t.Nm == n {
				out = append(out, t)
				found = true
			}
		}
		if !found {
			panic("c05: unknown template " + n)
		}
	}
	return out
}

// c05Fam: one family of tree shapes: per pre-order position the allowed template / jump names
// and the parent node.
type c05Fam struct {
	Name   string
	PT     [][]string
	PP     []int
	Expand string // "kinds2": every tag kind x {dense, sparse}; "kinds1": every tag kind; "": as is
}

type c05Cfg struct {
	Name      string
	Tpls      []c05Tpl
	Jumps     []string
	MaxNodes  int
	MaxDepth  int
	Auto      string // TLA set
	AllowDead bool
	GotoLim   int
	MinNodes  int
	Sim       bool
	SimNum    int
	Fams      []c05Fam // shape families (nil = unconstrained generation)
	Broken    bool
	NoEmit    bool
	Workers   int
}

func (g *c05Cfg) opts(seed int64) core.TLCOpts {
	var ts []string
	for _, t := range g.Tpls {
		ts = append(ts, t.tla())
	}
	var js []string
	for _, j := range g.Jumps {
		js = append(js, fmt.Sprintf("%q", j))
	}
	var fams []string
	for _, f := range g.Fams {
		var pt []string
		for _, names := range f.PT {
			var q []string
			for _, n := range names {
				q = append(q, fmt.Sprintf("%q", n))
			}
			pt = append(pt, "{"+strings.Join(q, ", ")+"}")
		}
		var pp []string
		for _, p := range f.PP {
			pp = append(pp, fmt.Sprint(p))
		}
		fams = append(fams, fmt.Sprintf("[pt |-> <<%s>>, pp |-> <<%s>>]", strings.Join(pt, ", "), strings.Join(pp, ", ")))
	}
	defs := fmt.Sprintf("c_T == <<%s>>\nc_J == {%s}\nc_F == <<%s>>\n",
		strings.Join(ts, ",\n  "), strings.Join(js, ", "), strings.Join(fams, ",\n  "))
	auto := g.Auto
	if auto == "" {
		auto = "{TRUE}"
	}
	lim := g.GotoLim
	if lim == 0 {
		lim = 1
	}
	// the static well-formedness invariants (quadratic in the tree) are checked on every BFS
	// state; simulation evaluates invariants on every candidate successor, so it only keeps
	// the execution invariants
	static := "TreeOK Closed "
	if g.Sim {
		static = ""
	}
	cfg := fmt.Sprintf("SPECIFICATION Spec\nCONSTANTS\n MaxNodes = %d\n MaxDepth = %d\n Templates <- c_T\n JumpKinds <- c_J\n AutoSet = %s\n AllowDead = %s\n GotoLim = %d\n MaxSteps = 4000\n ContinueSeesSwitch = %s\n MinNodes = %d\n UsePick = %s\n Fams <- c_F\n EmitOn = %s\nINVARIANTS %sDeterministic StackOK JumpLexical Terminates DoneClean Emit\n",
		g.MaxNodes, g.MaxDepth, auto, c05B(g.AllowDead), lim, c05B(g.Broken), g.MinNodes, c05B(g.Sim), c05B(!g.NoEmit), static)
	w := g.Workers
	if w == 0 {
		w = 4
	}
	_ = static
	o := core.TLCOpts{Spec: "Stmt", MCDefs: defs, Cfg: cfg, CfgName: g.Name, Workers: w, Timeout: 25 * time.Minute, ExpectError: g.Broken}
	if g.Sim {
		o.Simulate = true
		o.SimNum = g.SimNum
		o.SimDepth = 3000
		o.Seed = seed
	}
	return o
}

// the BFS configurations: focused alphabets, every tree up to the node budget
func c05BFSConfigs(nodes int) []*c05Cfg {
	all := c05AllTemplates(true)
	return []*c05Cfg{
		// 4 nodes even in the quick tier: a jump inside a switch inside a loop is only observable
		// when a statement follows the switch (for { switch { case: continue }; ev })
		{Name: "bfs-jumps4", MaxNodes: 4, MaxDepth: 2, Jumps: []string{"brk", "cnt", "brkL", "cntL"},
			Tpls: c05Pick(all, "tr", "for3.plain.2", "sw.x.mid")},
		{Name: "bfs-jumps", MaxNodes: nodes, MaxDepth: 2, Jumps: []string{"brk", "cnt", "brkL", "cntL"},
			Tpls: c05Pick(all, "tr", "for3.plain.2", "sw.x.mid", "sel.rd1", "as.x++")},
		{Name: "bfs-loops", MaxNodes: nodes, MaxDepth: 2, Jumps: []string{"brk", "cnt", "cntL"},
			Tpls: c05Pick(all, "tr", "forc.ever.2", "rng.kv.slice", "rng.k.map2", "rng.k=.chan", "as.x+=i", "if.plain.x<1.2")},
		{Name: "bfs-scopes", MaxNodes: nodes, MaxDepth: 2, Jumps: []string{"goto", "ret", "brkL"}, GotoLim: 1,
			Tpls: c05Pick(all, "tr", "blk.shadow", "if.init.2", "for3.capt.2", "sw.init.dmid", "as.x++")},
		{Name: "bfs-switches", MaxNodes: nodes, MaxDepth: 2, Jumps: []string{"brk", "cnt"},
			Tpls: c05Pick(all, "as.y+=2", "sw.y.dfirst", "sw.none.a", "tsw.bind.x.a", "sel.rd0", "sw.y.evi", "forc.cond.2")},
	}
}

// ---------------------------------------------------------------------------------------

type c05Item struct {
	rec  *c05Rec
	raw  []byte
	cell c05Cell
}

func c05Collect(c *core.Ctx, g *c05Cfg, keep func(n int, rec *c05Rec) bool) ([]c05Item, error) {
	var items []c05Item
	var perr error
	n := 0
	o := g.opts(c.Seed)
	if d := os.Getenv("C05_DUMP"); d != "" { // development aid: keep the generated model files
		os.MkdirAll(filepath.Join(d, g.Name), 0o755)
		os.WriteFile(filepath.Join(d, g.Name, "MC.tla"), []byte("---- MODULE MC ----\nEXTENDS Stmt\n"+o.MCDefs+"\n====\n"), 0o644)
		os.WriteFile(filepath.Join(d, g.Name, "MC.cfg"), []byte(o.Cfg), 0o644)
	}
	o.OnLine = func(line []byte) {
		n++
		var rec c05Rec
		if err := json.Unmarshal(line, &rec); err != nil {
			perr = core.Infra("bad record: %v", err)
			return
		}
		if keep != nil && !keep(n, &rec) {
			return
		}
		items = append(items, c05Item{rec: &rec, raw: append([]byte(nil), line...)})
	}
	_, err := c.TLC(o)
	if err != nil {
		return nil, err
	}
	return items, perr
}

// c05Cases renders items and merges the behaviours of one program (map iteration orders)
// into one case with an admissible set.
func c05Cases(items []c05Item) []*ProgCase {
	byKey := map[string]*ProgCase{}
	alts := map[string][][2]interface{}{}
	var order []string
	for _, it := range items {
		pc := c05Render(it.rec, it.cell, it.raw)
		if old, ok := byKey[pc.Key]; ok {
			_ = old
			alts[pc.Key] = append(alts[pc.Key], [2]interface{}{pc.WantEvents, pc.WantResult})
			continue
		}
		byKey[pc.Key] = pc
		alts[pc.Key] = [][2]interface{}{{pc.WantEvents, pc.WantResult}}
		order = append(order, pc.Key)
	}
	var cases []*ProgCase
	for _, k := range order {
		pc := byKey[k]
		if a := alts[k]; len(a) > 1 {
			a := a
			pc.Admissible = func(events []string, result string) bool {
				for _, alt := range a {
					we := alt[0].([]string)
					if result != alt[1].(string) || len(we) != len(events) {
						continue
					}
					same := true
					for i := range we {
						if we[i] != events[i] {
							same = false
							break
						}
					}
					if same {
						return true
					}
				}
				return false
			}
		}
		cases = append(cases, pc)
	}
	return cases
}

// c05Features names what a case exercises in the renderer: the gate must see each at least once.
func c05Features(rec *c05Rec, cell c05Cell) []string {
	fs := []string{fmt.Sprintf("auto=%v", rec.Auto)}
	for i, nd := range rec.Nodes {
		if i == 0 {
			continue
		}
		f := nd.K + "." + nd.F + "." + nd.C
		if nd.K == "sw" || nd.K == "tsw" {
			f += fmt.Sprintf(".%d", len(nd.Lay))
			for _, cl := range nd.Lay {
				for _, tm := range cl.Ts {
					f += tm.Ty[:1]
				}
				if cl.Ft {
					f += "!"
				}
				if cl.Def {
					f += "d"
				}
				f += "|"
			}
			if cell.SwKind != "" {
				f += "@" + cell.SwKind + fmt.Sprint(cell.SwMul)
			}
		}
		if (nd.K == "brk" || nd.K == "cnt") && nd.T != 0 {
			f += "L>" + rec.Nodes[nd.T-1].K
		}
		if nd.K == "goto" {
			f += ">" + rec.Nodes[nd.T-1].K
		}
		fs = append(fs, f)
		if nd.Lj {
			fs = append(fs, "lj:"+nd.K)
		}
		if nd.Lg {
			fs = append(fs, "lg:"+nd.K)
		}
		if nd.Lg && nd.Lj {
			fs = append(fs, "lg+lj")
		}
		if nd.K == "if" && len(nd.B) == 2 && len(nd.B[1]) == 1 && rec.Nodes[nd.B[1][0]-1].K == "if" && !rec.Auto {
			fs = append(fs, "else-if")
		}
	}
	return fs
}

func runC05(c *core.Ctx) error {
	var mu sync.Mutex
	var items []c05Item
	var firstErr error
	// (M)+(R) BFS over focused alphabets; quick keeps a seeded part of the emitted programs
	cfgs := c05BFSConfigs(c.Pick(3, 4))
	if c.Thorough() {
		// 4 nodes for the jump and loop alphabets; the widest alphabet (switches: > 300 k
		// programs at 4 nodes) and the goto alphabet (55 k programs at 4 nodes, most of them
		// stopped by the interpreter's compile error on function-level labels) stay at 3
		for _, g := range cfgs {
			if g.Name == "bfs-switches" || g.Name == "bfs-scopes" {
				g.MaxNodes = 3
			}
			if g.Name == "bfs-jumps4" {
				g.MaxNodes = 2 // subsumed by bfs-jumps at 4 nodes
			}
		}
	}
	t0 := time.Now()
	// (R) simulation over the full alphabet, deeper and larger trees
	sim := &c05Cfg{Name: "sim-all", Sim: true, SimNum: c.Pick(300, 1000), MaxNodes: c.Pick(10, 14), MaxDepth: c.Pick(3, 4), MinNodes: 3,
		Auto: "{TRUE, FALSE}", AllowDead: true, GotoLim: 2, Jumps: []string{"brk", "cnt", "brkL", "cntL", "goto", "ret"},
		Tpls: c05AllTemplates(false), Workers: c.Pick(5, 6)}
	cfgs = append([]*c05Cfg{sim}, cfgs...) // the longest run first
	cfgs = append(cfgs, c05CellConfigs()...)
	exh := true
	// TLC runs in parallel (they are mostly single-threaded per worker and short)
	core.ParDo(len(cfgs), c.Pick(3, 3), func(i int) {
		g := cfgs[i]
		var keep func(n int, rec *c05Rec) bool
		if g.Fams != nil {
			keep = func(n int, rec *c05Rec) bool { return rec.Fam >= 1 && len(rec.Nodes) == len(g.Fams[rec.Fam-1].PT)+1 }
		}
		its, err := c05Collect(c, g, keep)
		mu.Lock()
		defer mu.Unlock()
		if err != nil {
			if firstErr == nil {
				firstErr = err
			}
			return
		}
		if g.Fams != nil {
			its = c05ExpandCells(g, its)
		}
		items = append(items, its...)
	})
	if firstErr != nil {
		return firstErr
	}
	tTLC := time.Since(t0).Seconds()
	c.Exhaustive = exh
	// deterministic order: by program text
	nsw, nrg := 0, 0
	for _, it := range items {
		if it.rec.Fam > 0 && it.rec.Fam <= 4 {
			nsw++
		} else if it.rec.Fam > 4 {
			nrg++
		}
	}
	c.Extra["cell_programs_switch"] = nsw
	c.Extra["cell_behaviours_range"] = nrg
	cases := c05Cases(items)
	items = nil
	sort.SliceStable(cases, func(i, j int) bool { return cases[i].Key < cases[j].Key })
	for i, pc := range cases {
		if i%(len(cases)/4+1) == 0 {
			c.Sample(map[string]interface{}{"program": pc.Decls, "expected_events": pc.WantEvents, "expected_result": pc.WantResult})
		}
	}
	c.Extra["cells_switch_kinds_x_density"] = len(c05SwitchCells())
	c.Assume("counted loops and guarded gotos only (every program terminates); forward goto excluded (documented limitation); select has at most one ready case (several ready cases: C10); map ranges with several entries only in the exhaustive tier part (all orders admissible)")
	// gate: a covering set of every rendering feature natively, then a seeded fraction (thorough: all)
	var cover, rest []*ProgCase
	seen := map[string]bool{}
	for _, pc := range cases {
		fresh := false
		for _, f := range c05CaseFeatures[pc.Key] {
			if !seen[f] {
				seen[f] = true
				fresh = true
			}
		}
		if fresh {
			cover = append(cover, pc)
		} else {
			rest = append(rest, pc)
		}
	}
	c.Extra["gate_cover_features"] = len(seen)
	c.Extra["gate_cover_programs"] = len(cover)
	opts := ProgOpts{GateFraction: 1, Sig: c05Sig, Prelude: c05Prelude, GatePrelude: c05GatePrelude, Reuse: 60}
	t1 := time.Now()
	if err := c05RunProgCases(c, cover, opts); err != nil {
		return err
	}
	tCover := time.Since(t1).Seconds()
	opts.GateFraction = 0.015
	if c.Thorough() {
		// native compilation runs at a few tens of programs per second: gate every program of
		// the covering set (above) and a seeded sample of about 2000 of the others
		opts.GateFraction = 1
		if len(rest) > 2000 {
			opts.GateFraction = 2000 / float64(len(rest))
		}
	}
	t2 := time.Now()
	err := c05RunProgCases(c, rest, opts)
	c.Extra["phase_seconds"] = map[string]float64{"tlc": tTLC, "cover_gate_and_replay": tCover, "rest_gate_and_replay": time.Since(t2).Seconds()}
	return err
}

func replayC05(c *core.Ctx, raw json.RawMessage) error {
	var w struct {
		Record json.RawMessage `json:"record"`
	}
	if err := json.Unmarshal(raw, &w); err != nil {
		return err
	}
	var wr struct {
		Rec  c05Rec  `json:"rec"`
		Cell c05Cell `json:"cell"`
	}
	if err := json.Unmarshal(w.Record, &wr); err != nil {
		return err
	}
	pc := c05Render(&wr.Rec, wr.Cell, nil)
	return c05RunProgCases(c, []*ProgCase{pc}, ProgOpts{GateFraction: 1, Sig: c05Sig, Prelude: c05Prelude, GatePrelude: c05GatePrelude})
}

func selfTestC05(c *core.Ctx) error {
	all := c05AllTemplates(true)
	// (M) broken variant: an unlabelled continue that stops at the innermost switch/select
	// must be rejected by the lexical-target invariant
	g := &c05Cfg{Name: "broken-continue-sees-switch", MaxNodes: 3, MaxDepth: 2, Jumps: []string{"cnt"}, Broken: true, NoEmit: true,
		Tpls: c05Pick(all, "for3.plain.2", "sw.x.mid")}
	r, err := c.TLC(g.opts(1))
	if err != nil {
		return err
	}
	if r.Violated != "JumpLexical" {
		return fmt.Errorf("broken variant ContinueSeesSwitch not caught (violated=%q)\n%s", r.Violated, r.Output)
	}
	// the same configuration without the fault passes
	g.Broken = false
	if _, err := c.TLC(g.opts(1)); err != nil {
		return err
	}
	// (R) a corrupted expectation must be rejected by the replay
	raw := []byte(`{"nodes":[{"k":"func","f":"","c":"","n":0,"lay":[],"p":0,"t":0,"s":0,"d":0,"b":[[2]],"lj":false,"lg":false},{"k":"for3","f":"plain","c":"","n":2,"lay":[],"p":1,"t":0,"s":1,"d":1,"b":[[3,4]],"lj":false,"lg":false},{"k":"as","f":"x++","c":"","n":0,"lay":[],"p":2,"t":0,"s":1,"d":1,"b":[],"lj":false,"lg":false},{"k":"cnt","f":"","c":"","n":0,"lay":[],"p":2,"t":0,"s":1,"d":1,"b":[],"lj":false,"lg":false}],"log":[["b",2,1],["b",2,1]],"outcome":["end",2,0],"auto":true,"ords":[],"steps":9,"lim":1}`)
	var rec c05Rec
	if err := json.Unmarshal(raw, &rec); err != nil {
		return err
	}
	good := c05Render(&rec, c05Cell{}, raw)
	gi := newProgInterp(&ProgOpts{Prelude: c05Prelude})
	ev, res := runOnGomacro(gi, good)
	if !progConforms(good, ev, res) {
		return fmt.Errorf("correct record rejected: %v %s\n%s", ev, res, good.Decls)
	}
	rec.Outcome[1] = float64(1)
	bad := c05Render(&rec, c05Cell{}, raw)
	ev, res = runOnGomacro(gi, bad)
	if progConforms(bad, ev, res) {
		return fmt.Errorf("corrupted record accepted")
	}
	return nil
}

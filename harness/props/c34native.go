package props

import (
	"math"
	"reflect"
)

// Go gate of C34, basic kinds: the Go operator / builtin itself applied natively to the
// operands of a cell (generic helpers instantiated per kind).  The operators C01 already
// evaluates natively (c01Native: arithmetic, bitwise, comparison, shifts, unary) are reused;
// Cmp, complex arithmetic, real / imag and the string builtins are added here.

var c34NatOp = map[string]string{"Add": "add", "Sub": "sub", "Mul": "mul", "Quo": "quo", "Rem": "rem", "And": "and", "AndNot": "andnot",
	"Or": "or", "Xor": "xor", "Neg": "neg", "Lsh": "shl", "Rsh": "shr", "Equal": "eql", "Less": "lss"}

type c34Ordered interface {
	~int8 | ~int16 | ~int32 | ~int64 | ~int | ~uint8 | ~uint16 | ~uint32 | ~uint64 | ~uint | ~uintptr | ~float32 | ~float64 | ~string
}

// c34NatCmp: -1 | 0 | 1 from the operators < and >.
func c34NatCmp[T c34Ordered](a, b T) int {
	if a < b {
		return -1
	}
	if a > b {
		return 1
	}
	return 0
}

type c34Cx interface{ ~complex64 | ~complex128 }

func c34NatComplex[T c34Cx](op string, a, b T) interface{} {
	switch op {
	case "Add":
		return a + b
	case "Sub":
		return a - b
	case "Mul":
		return a * b
	case "Quo":
		return a / b
	case "Neg":
		return -a
	case "Equal":
		return a == b
	}
	return nil
}

func c34ResOf(x interface{}) c34Res {
	if x == nil {
		return c34Res{T: "?"}
	}
	rv := reflect.ValueOf(x)
	return c34Res{T: "v", Ty: rv.Type().String(), V: c34FromReflect(rv)}
}

func c34FromC01(r c01Res) c34Res {
	out := c34Res{T: r.T, Ty: r.Ty, Cls: r.Cls, Msg: r.Msg}
	if r.T == "v" {
		out.V = c34Val{Kind: r.V.Kind, V: r.V}
	}
	return out
}

func c34F32(v c01Val) float32 { return math.Float32frombits(uint32(v.Bits)) }
func c34F64(v c01Val) float64 { return math.Float64frombits(v.Bits) }

func c34NatCmpK(kind string, a, b c01Val) int {
	switch kind {
	case "int8":
		return c34NatCmp(int8(a.Bits), int8(b.Bits))
	case "int16":
		return c34NatCmp(int16(a.Bits), int16(b.Bits))
	case "int32":
		return c34NatCmp(int32(a.Bits), int32(b.Bits))
	case "int64":
		return c34NatCmp(int64(a.Bits), int64(b.Bits))
	case "int":
		return c34NatCmp(int(a.Bits), int(b.Bits))
	case "uint8":
		return c34NatCmp(uint8(a.Bits), uint8(b.Bits))
	case "uint16":
		return c34NatCmp(uint16(a.Bits), uint16(b.Bits))
	case "uint32":
		return c34NatCmp(uint32(a.Bits), uint32(b.Bits))
	case "uint64":
		return c34NatCmp(uint64(a.Bits), uint64(b.Bits))
	case "uint":
		return c34NatCmp(uint(a.Bits), uint(b.Bits))
	case "uintptr":
		return c34NatCmp(uintptr(a.Bits), uintptr(b.Bits))
	case "float32":
		return c34NatCmp(c34F32(a), c34F32(b))
	case "float64":
		return c34NatCmp(c34F64(a), c34F64(b))
	case "string":
		return c34NatCmp(a.Str, b.Str)
	}
	return 99
}

// c34Native applies the Go operator / builtin the table names to the operands of the cell.
func c34Native(c *c34Cell) (res c34Res) {
	defer func() {
		if r := recover(); r != nil {
			var cr c01Res
			func() {
				defer c01Recover(&cr)
				panic(r)
			}()
			res = c34FromC01(cr)
		}
	}()
	k := c.Kind
	if c34IsComplex(k) {
		switch c.Method {
		case "Real":
			if k == "complex64" {
				return c34ResOf(real(complex(c34F32(c.A.V), c34F32(c.A.Im))))
			}
			return c34ResOf(real(complex(c34F64(c.A.V), c34F64(c.A.Im))))
		case "Imag":
			if k == "complex64" {
				return c34ResOf(imag(complex(c34F32(c.A.V), c34F32(c.A.Im))))
			}
			return c34ResOf(imag(complex(c34F64(c.A.V), c34F64(c.A.Im))))
		}
		if k == "complex64" {
			return c34ResOf(c34NatComplex(c.Method, complex(c34F32(c.A.V), c34F32(c.A.Im)), complex(c34F32(c.B.V), c34F32(c.B.Im))))
		}
		return c34ResOf(c34NatComplex(c.Method, complex(c34F64(c.A.V), c34F64(c.A.Im)), complex(c34F64(c.B.V), c34F64(c.B.Im))))
	}
	a, b := c.A.V, c.B.V
	a.Kind = k
	switch c.Method {
	case "Cmp":
		return c34ResOf(c34NatCmpK(k, a, b))
	case "Len":
		return c34ResOf(len(a.Str))
	case "Index":
		return c34ResOf(a.Str[int(c.B.V.Signed())])
	case "Slice":
		return c34ResOf(a.Str[int(c.B.V.Signed()):int(c.C.V.Signed())])
	case "Not":
		if k == "bool" {
			return c34FromC01(c01Native(&c01Cell{Op: "not", Kind: k, Shape: "vv", A: a}))
		}
		return c34FromC01(c01Native(&c01Cell{Op: "cpl", Kind: k, Shape: "vv", A: a, B: c01Val{Kind: k}}))
	case "Lsh", "Rsh":
		return c34FromC01(c01Native(&c01Cell{Op: c34NatOp[c.Method], Kind: k, CK: "uint8", Shape: "vv", A: a, B: b}))
	}
	op := c34NatOp[c.Method]
	if op == "" {
		return c34Res{T: "?"}
	}
	b.Kind = k
	return c34FromC01(c01Native(&c01Cell{Op: op, Kind: k, Shape: "vv", A: a, B: b}))
}

package props

import (
	"encoding/json"
	"fmt"
	"go/importer"
	"go/token"
	stdtypes "go/types"
	"math/rand"
	"os"
	r "reflect"
	"regexp"
	"sort"
	"strings"
	"sync"
	"time"

	gtypes "github.com/cosmos72/gomacro/go/types"
	"github.com/cosmos72/gomacro/imports"
	xr "github.com/cosmos72/gomacro/xreflect"

	"verif/harness/c29t"
	"verif/harness/core"
)

// C29 corpus (V): every reflect type reachable from the precompiled import tables
// (imports.Packages: Types, the types of Binds, Proxies, and their components) is converted
// with Universe.FromReflectType and compared with reflect directly. For the corpus the
// specification contributes the RULE TABLE below (which attributes must agree and how) rather
// than a transition system: the rules are the attribute / canonicity / predicate statements of
// spec/types/Universe.tla read with reflect as the model of the compiled type.
//
//   canonical      FromReflectType(rt) twice = one object; the object reached through an
//                  accessor (Elem, Key, Field(i).Type, In(i), Out(i)) = FromReflectType of the
//                  component; for an unnamed composite type, the Universe constructor applied to
//                  the converted components (PtrTo, SliceOf, ArrayOf, ChanOf, MapOf, FuncOf) = the
//                  same object
//   Kind Size Align FieldAlign     equal to reflect's
//   ReflectType    the very reflect.Type that was converted (types approximated with
//                  xreflect.Forward are the excluded "emulated" ones: counted, not compared)
//   fields         NumField, and per field Name, Offset, Anonymous, Tag, Index equal
//   Len ChanDir NumIn NumOut IsVariadic   equal
//   methods        interface: NumMethod and the names in order; other types: every method
//                  reflect lists for T (and *T) is found once by MethodByName, every exported
//                  declared method of a named type exists in reflect's method set of *T
//   String         equal to reflect's modulo the documented differences of the two printers
//                  (package path vs name qualification, blanks inside braces, byte/uint8)
//   predicates     on sampled ordered pairs: AssignableTo, ConvertibleTo, Implements,
//                  IdenticalTo (= same reflect.Type), and Comparable, equal to reflect's
//
// Two universes per worker: "reflect" (no package information: the deployment without a Go
// toolchain; named types are described by reflection) and "import" (Universe.Packages
// preloaded with the go/types description of the standard library, converted with
// types.Converter exactly as xreflect.Importer does, from the source importer).

type c29Root struct {
	Label string // pkgpath + table + name
	Pkg   string
	rt    r.Type
}

type c29CorpusCase struct {
	Kind   string   `json:"kind"` // "corpus"
	Mode   string   `json:"mode"`
	Root   string   `json:"root"`
	Steps  []string `json:"steps"`
	Other  string   `json:"other,omitempty"`
	OSteps []string `json:"osteps,omitempty"`
	Pre    string   `json:"pre,omitempty"` // a type converted first (minimal history)
	PSteps []string `json:"psteps,omitempty"`
	Import []string `json:"import,omitempty"` // packages preloaded in the import universe
}

// c29Roots lists the types of the import tables in a deterministic order.
func c29Roots() []c29Root {
	var roots []c29Root
	for path, pkg := range imports.Packages {
		for name, rt := range pkg.Types {
			roots = append(roots, c29Root{Label: path + " Types " + name, Pkg: path, rt: rt})
		}
		for name, v := range pkg.Binds {
			if v.IsValid() {
				roots = append(roots, c29Root{Label: path + " Binds " + name, Pkg: path, rt: v.Type()})
			}
		}
		for name, rt := range pkg.Proxies {
			roots = append(roots, c29Root{Label: path + " Proxies " + name, Pkg: path, rt: rt})
		}
	}
	// embedding shapes the standard library does not have (diamond, twin siblings)
	for name, rt := range c29t.Shapes {
		roots = append(roots, c29Root{Label: "verif/harness/c29t Types " + name, Pkg: "verif/harness/c29t", rt: rt})
	}
	sort.Slice(roots, func(i, j int) bool { return roots[i].Label < roots[j].Label })
	return roots
}

// c29Promoted collects the names of all fields and methods reachable through embedded structs.
func c29Promoted(rt r.Type, depth int, names map[string]bool) {
	if rt.Kind() == r.Ptr {
		rt = rt.Elem()
	}
	if rt.Kind() != r.Struct || depth > 4 {
		return
	}
	for i := 0; i < rt.NumField(); i++ {
		f := rt.Field(i)
		if f.PkgPath == "" {
			names[f.Name] = true
		}
		if f.Anonymous {
			c29Promoted(f.Type, depth+1, names)
		}
	}
}

// c29Component follows one step from a reflect type.
func c29Component(rt r.Type, step string) (res r.Type) {
	defer func() {
		if recover() != nil {
			res = nil
		}
	}()
	var n int
	switch {
	case step == "Elem":
		return rt.Elem()
	case step == "Key":
		return rt.Key()
	case step == "Ptr":
		return r.PointerTo(rt)
	case strings.HasPrefix(step, "Field "):
		fmt.Sscanf(step, "Field %d", &n)
		return rt.Field(n).Type
	case strings.HasPrefix(step, "In "):
		fmt.Sscanf(step, "In %d", &n)
		return rt.In(n)
	case strings.HasPrefix(step, "Out "):
		fmt.Sscanf(step, "Out %d", &n)
		return rt.Out(n)
	case strings.HasPrefix(step, "Method "):
		fmt.Sscanf(step, "Method %d", &n)
		return rt.Method(n).Type
	}
	return nil
}

type c29Item struct {
	rt    r.Type
	root  int
	steps []string
}

// c29Closure lists the types reachable from the roots (breadth first, each type once).
func c29Closure(roots []c29Root, limit int) []c29Item {
	seen := map[r.Type]bool{}
	var items []c29Item
	var queue []c29Item
	push := func(rt r.Type, root int, steps []string, step string) {
		if rt == nil || seen[rt] {
			return
		}
		seen[rt] = true
		s := steps
		if step != "" {
			s = append(append([]string(nil), steps...), step)
		}
		it := c29Item{rt: rt, root: root, steps: s}
		items = append(items, it)
		queue = append(queue, it)
	}
	for i, ro := range roots {
		push(ro.rt, i, nil, "")
	}
	for len(queue) > 0 && len(items) < limit {
		it := queue[0]
		queue = queue[1:]
		rt := it.rt
		switch rt.Kind() {
		case r.Ptr, r.Slice, r.Array, r.Chan:
			push(rt.Elem(), it.root, it.steps, "Elem")
		case r.Map:
			push(rt.Key(), it.root, it.steps, "Key")
			push(rt.Elem(), it.root, it.steps, "Elem")
		case r.Struct:
			for i := 0; i < rt.NumField(); i++ {
				push(rt.Field(i).Type, it.root, it.steps, fmt.Sprintf("Field %d", i))
			}
		case r.Func:
			for i := 0; i < rt.NumIn(); i++ {
				push(rt.In(i), it.root, it.steps, fmt.Sprintf("In %d", i))
			}
			for i := 0; i < rt.NumOut(); i++ {
				push(rt.Out(i), it.root, it.steps, fmt.Sprintf("Out %d", i))
			}
		case r.Interface:
			for i := 0; i < rt.NumMethod(); i++ {
				push(rt.Method(i).Type, it.root, it.steps, fmt.Sprintf("Method %d", i))
			}
		}
		if rt.Kind() != r.Interface && rt.Kind() != r.Ptr && rt.Name() != "" {
			push(r.PointerTo(rt), it.root, it.steps, "Ptr")
		}
	}
	return items
}

var c29QuickImportPkgs = []string{"fmt", "strings", "sort", "io", "bytes", "errors", "time", "sync", "os", "bufio",
	"math/big", "unicode", "strconv", "reflect", "regexp", "net/url", "encoding/json", "container/list", "text/template", "path/filepath"}

// c29OutMu serialises the windows in which os.Stdout is swapped (the converter prints
// warnings about generic declarations) with the reports of the corpus workers.
var c29OutMu sync.Mutex

func c29Quiet(f func()) {
	c29OutMu.Lock()
	defer c29OutMu.Unlock()
	old := os.Stdout
	null, err := os.OpenFile(os.DevNull, os.O_WRONLY, 0)
	if err == nil {
		os.Stdout = null
	}
	defer func() {
		os.Stdout = old
		if null != nil {
			null.Close()
		}
	}()
	f()
}

// c29LoadStd loads the go/types descriptions of standard packages with the source importer
// (offline, from GOROOT). budget bounds the total loading time.
func c29LoadStd(paths []string, budget time.Duration) (pkgs []*stdtypes.Package, skipped int) {
	fset := token.NewFileSet()
	imp := importer.ForCompiler(fset, "source", nil)
	t0 := time.Now()
	for _, p := range paths {
		if time.Since(t0) > budget {
			skipped++
			continue
		}
		func() {
			defer func() {
				if recover() != nil {
					skipped++
				}
			}()
			pkg, err := imp.Import(p)
			if err != nil || pkg == nil {
				skipped++
				return
			}
			pkgs = append(pkgs, pkg)
		}()
	}
	// the packages they import, transitively: the real importer can load any of them on
	// demand, a preloaded universe must hold them all or it would describe a type of a
	// dependency twice (once converted, once by reflection)
	seen := map[*stdtypes.Package]bool{}
	for _, p := range pkgs {
		seen[p] = true
	}
	for i := 0; i < len(pkgs); i++ {
		for _, d := range pkgs[i].Imports() {
			if !seen[d] && d.Complete() && d.Path() != "unsafe" {
				seen[d] = true
				pkgs = append(pkgs, d)
			}
		}
	}
	// a package on which Converter.Package panics (a generic declaration reached outside its
	// recover, e.g. package unique) leaves the converter's queues behind and every later call
	// panics too: such packages are C30's subject, they are left out here
	var ok []*stdtypes.Package
	c29Quiet(func() {
		for _, p := range pkgs {
			func() {
				defer func() {
					if recover() != nil {
						skipped++
					}
				}()
				var conv gtypes.Converter
				conv.Init(gtypes.Universe)
				if conv.Package(p) != nil {
					ok = append(ok, p)
				}
			}()
		}
	})
	return ok, skipped
}

func c29IsStdPath(p string) bool {
	first := p
	if i := strings.IndexByte(p, '/'); i >= 0 {
		first = p[:i]
	}
	return !strings.Contains(first, ".")
}

// c29NewCorpusUniverse makes a universe of the given mode.
func c29NewCorpusUniverse(mode string, std []*stdtypes.Package) *xr.Universe {
	v := xr.NewUniverse()
	v.Importer = &xr.Importer{} // never shell out to `go list`
	if mode == "import" {
		var conv gtypes.Converter
		conv.Init(gtypes.Universe)
		c29Quiet(func() {
			for _, p := range std {
				func() {
					defer func() { recover() }()
					if g := conv.Package(p); g != nil {
						v.CachePackage(g)
					}
				}()
			}
		})
	}
	return v
}

var c29PathRe = regexp.MustCompile(`(?:[A-Za-z0-9_.~\-]+/)+`)
var c29ParamRe = regexp.MustCompile(`(\(|, )([A-Za-z_]\w*) `)
var c29ByteRe = regexp.MustCompile(`\bbyte\b`)
var c29RuneRe = regexp.MustCompile(`\brune\b`)

var c29PkgNames struct {
	once  sync.Once
	paths []string
	names map[string]string
}

// c29NormString maps the two printers' outputs to a common form (rule "String").
func c29NormString(s string) string {
	c29PkgNames.once.Do(func() {
		c29PkgNames.names = map[string]string{}
		for path, pkg := range imports.Packages {
			if pkg.Name != "" && strings.Contains(path, "/") {
				c29PkgNames.names[path] = pkg.Name
				c29PkgNames.paths = append(c29PkgNames.paths, path)
			}
		}
		sort.Slice(c29PkgNames.paths, func(i, j int) bool { return len(c29PkgNames.paths[i]) > len(c29PkgNames.paths[j]) })
	})
	if strings.Contains(s, "/") {
		for _, path := range c29PkgNames.paths {
			if strings.Contains(s, path+".") {
				s = strings.ReplaceAll(s, path+".", c29PkgNames.names[path]+".")
			}
		}
	}
	s = c29PathRe.ReplaceAllString(s, "")
	// go/types prints the names of parameters and results when it knows them, reflect never
	s = c29ParamRe.ReplaceAllStringFunc(s, func(m string) string {
		sub := c29ParamRe.FindStringSubmatch(m)
		switch sub[2] {
		case "chan", "func", "map", "struct", "interface":
			return m // a type keyword, not a name
		}
		return sub[1]
	})
	s = strings.ReplaceAll(s, "struct {", "struct{")
	s = strings.ReplaceAll(s, "interface {", "interface{")
	s = strings.ReplaceAll(s, "{ ", "{")
	s = strings.ReplaceAll(s, " }", "}")
	s = c29ByteRe.ReplaceAllString(s, "uint8")
	s = c29RuneRe.ReplaceAllString(s, "int32")
	s = strings.ReplaceAll(s, "interface{}", "any")
	return s
}

func c29MentionsForward(rt r.Type, depth int) bool {
	if rt == nil || depth > 6 {
		return false
	}
	if rt.Kind() == r.Interface && rt.Name() == "Forward" && strings.HasSuffix(rt.PkgPath(), "gomacro/xreflect") {
		return true
	}
	switch rt.Kind() {
	case r.Ptr, r.Slice, r.Array, r.Chan:
		return c29MentionsForward(rt.Elem(), depth+1)
	case r.Map:
		return c29MentionsForward(rt.Key(), depth+1) || c29MentionsForward(rt.Elem(), depth+1)
	case r.Func:
		for i := 0; i < rt.NumIn(); i++ {
			if c29MentionsForward(rt.In(i), depth+1) {
				return true
			}
		}
		for i := 0; i < rt.NumOut(); i++ {
			if c29MentionsForward(rt.Out(i), depth+1) {
				return true
			}
		}
	case r.Struct:
		if rt.Name() == "" {
			for i := 0; i < rt.NumField(); i++ {
				if c29MentionsForward(rt.Field(i).Type, depth+1) {
					return true
				}
			}
		}
	}
	return false
}

// c29MentionsGeneric reports whether the type or a direct component is an instantiated
// generic type (reflect names them "Name[Args]").
func c29MentionsGeneric(rt r.Type, depth int) bool {
	if rt == nil || depth > 3 {
		return false
	}
	if strings.Contains(rt.Name(), "[") {
		return true
	}
	switch rt.Kind() {
	case r.Ptr, r.Slice, r.Array, r.Chan:
		return c29MentionsGeneric(rt.Elem(), depth+1)
	case r.Map:
		return c29MentionsGeneric(rt.Key(), depth+1) || c29MentionsGeneric(rt.Elem(), depth+1)
	case r.Struct:
		for i := 0; i < rt.NumField(); i++ {
			if strings.Contains(rt.Field(i).Type.Name(), "[") || depth == 0 && rt.Field(i).Type.Kind() == r.Ptr && strings.Contains(rt.Field(i).Type.Elem().Name(), "[") {
				return true
			}
		}
	case r.Func:
		for i := 0; i < rt.NumIn(); i++ {
			if c29MentionsGeneric(rt.In(i), depth+2) {
				return true
			}
		}
		for i := 0; i < rt.NumOut(); i++ {
			if c29MentionsGeneric(rt.Out(i), depth+2) {
				return true
			}
		}
	}
	return false
}

// c29CorpusU is one universe with the identity tags of the types converted so far.
type c29CorpusU struct {
	mode    string
	v       *xr.Universe
	next    int
	emul    int
	generic int
}

func (u *c29CorpusU) tag(t xr.Type) int {
	if x := c29Tag(t); x != 0 {
		return x
	}
	u.next++
	t.SetUserData(c29TagKey{}, u.next)
	return u.next
}

func c29KindLabel(rt r.Type) string {
	k := rt.Kind().String()
	if rt.Name() != "" && rt.PkgPath() != "" {
		return "named-" + k
	}
	return k
}

// check applies the rule table to one reflect type.
func (u *c29CorpusU) check(rt r.Type) (diffs []c29Diff, emulated bool) {
	if c29MentionsGeneric(rt, 0) {
		u.generic++
		return nil, true // instantiated generic types cannot be imported by gomacro: not compared
	}
	v := u.v
	cl := fmt.Sprintf("FromReflect:%s[%s]", c29KindLabel(rt), u.mode)
	add := func(kind, name, what string) {
		diffs = append(diffs, c29Diff{Sig: fmt.Sprintf("universe(%s):%s", cl, kind+name), What: fmt.Sprintf("%v (%s universe): %s", rt, u.mode, what)})
	}
	guard := func(name string, f func()) {
		defer func() {
			if e := recover(); e != nil {
				add("panics", "", fmt.Sprintf("%s panics: %s", name, c28PanicText(e)))
			}
		}()
		f()
	}
	var t xr.Type
	guard("FromReflectType", func() { t = v.FromReflectType(rt) })
	if t == nil {
		if len(diffs) == 0 {
			add("panics", "", "FromReflectType returns nil")
		}
		return diffs, false
	}
	id := u.tag(t)
	if got := t.ReflectType(); got != rt {
		if c29MentionsForward(got, 0) {
			u.emul++
			return nil, true // approximated with xreflect.Forward: an excluded "emulated" type
		}
		add("attr-differs", "(ReflectType)", fmt.Sprintf("ReflectType() is %v", got))
	}
	attr := func(name string, want, got interface{}) {
		if fmt.Sprint(want) != fmt.Sprint(got) {
			add("attr-differs", "("+name+")", fmt.Sprintf("%s is %v, reflect says %v", name, got, want))
		}
	}
	same := func(path string, a xr.Type, want r.Type) {
		var b xr.Type
		guard("FromReflectType("+path+")", func() { b = v.FromReflectType(want) })
		if a == nil || b == nil {
			if a != nil || b != nil {
				add("not-canonical", "", fmt.Sprintf("%s: nil Type", path))
			}
			return
		}
		tb := u.tag(b) // tag first: a and b may be one untagged object
		ta := c29Tag(a)
		if ta != tb {
			if c29MentionsForward(a.ReflectType(), 0) || c29MentionsForward(b.ReflectType(), 0) {
				u.emul++
				return
			}
			step := path
			if i := strings.IndexByte(step, '('); i >= 0 {
				step = step[:i]
			}
			switch step {
			case "Elem", "Key", "Field", "In", "Out":
				step = "accessor" // which accessor is in the text; one signature for the family
			}
			diffs = append(diffs, c29Diff{Sig: fmt.Sprintf("universe(FromReflect/%s:%s[%s]):not-canonical", step, c29KindLabel(want), u.mode),
				What: fmt.Sprintf("%v (%s universe): the Type reached by %s (%v, reflect type %v) is not the object FromReflectType(%v) returns (reflect type %v); IdenticalTo=%s",
					rt, u.mode, path, a, a.ReflectType(), want, b.ReflectType(), c29Ident(a, b))})
		}
	}
	guard("FromReflectType again", func() {
		t2 := v.FromReflectType(rt)
		if c29Tag(t2) != id {
			add("not-canonical", "", "FromReflectType called twice returns two different objects")
		}
	})
	guard("Kind/Size/Align", func() {
		attr("Kind", rt.Kind(), t.Kind())
		attr("Size", rt.Size(), t.Size())
		attr("Align", rt.Align(), t.Align())
		attr("FieldAlign", rt.FieldAlign(), t.FieldAlign())
		attr("Comparable", rt.Comparable(), t.Comparable())
		if rt.Kind() != r.UnsafePointer { // a predeclared type for go/types, "unsafe".Pointer for reflect
			attr("Name", rt.Name(), t.Name())
			attr("PkgPath", rt.PkgPath(), t.PkgPath())
		}
	})
	generic := strings.ContainsAny(rt.String(), "[·") && rt.Name() != "" && strings.Contains(rt.Name(), "[")
	if !generic && !(rt.Kind() == r.Struct && strings.Contains(rt.String(), "\"")) {
		guard("String", func() {
			attr("String", c29NormString(rt.String()), c29NormString(t.String()))
		})
	}
	switch rt.Kind() {
	case r.Struct:
		guard("Field", func() {
			attr("NumField", rt.NumField(), t.NumField())
			for i := 0; i < rt.NumField() && i < t.NumField(); i++ {
				rf, f := rt.Field(i), t.Field(i)
				attr("Field.Name", rf.Name, f.Name)
				attr("Field.Offset", rf.Offset, f.Offset)
				attr("Field.Anonymous", rf.Anonymous, f.Anonymous)
				attr("Field.Tag", rf.Tag, f.Tag)
				attr("Field.Index", rf.Index, f.Index)
				same(fmt.Sprintf("Field(%d).Type", i), f.Type, rf.Type)
			}
		})
		guard("FieldByName", func() {
			// selector lookup through embedded fields: reflect finds a name iff it is unique at
			// the shallowest depth where it occurs
			names := map[string]bool{}
			c29Promoted(rt, 0, names)
			for name := range names {
				_, ok := rt.FieldByName(name)
				_, count := t.FieldByName(name, "")
				if ok != (count == 1) {
					add("attr-differs", "(FieldByName.count)", fmt.Sprintf("field %s: reflect finds it uniquely = %v, FieldByName count = %d", name, ok, count))
					break
				}
			}
		})
	case r.Ptr:
		guard("Elem", func() {
			same("Elem()", t.Elem(), rt.Elem())
			if rt.Name() == "" {
				same("PtrTo(elem)", v.PtrTo(v.FromReflectType(rt.Elem())), rt)
			}
		})
	case r.Slice:
		guard("Elem", func() {
			same("Elem()", t.Elem(), rt.Elem())
			if rt.Name() == "" {
				same("SliceOf(elem)", v.SliceOf(v.FromReflectType(rt.Elem())), rt)
			}
		})
	case r.Array:
		guard("Elem", func() {
			attr("Len", rt.Len(), t.Len())
			same("Elem()", t.Elem(), rt.Elem())
			if rt.Name() == "" {
				same("ArrayOf(len, elem)", v.ArrayOf(rt.Len(), v.FromReflectType(rt.Elem())), rt)
			}
		})
	case r.Chan:
		guard("Elem", func() {
			attr("ChanDir", rt.ChanDir(), t.ChanDir())
			same("Elem()", t.Elem(), rt.Elem())
			if rt.Name() == "" {
				same("ChanOf(dir, elem)", v.ChanOf(rt.ChanDir(), v.FromReflectType(rt.Elem())), rt)
			}
		})
	case r.Map:
		guard("Elem", func() {
			same("Key()", t.Key(), rt.Key())
			same("Elem()", t.Elem(), rt.Elem())
			if rt.Name() == "" {
				same("MapOf(key, elem)", v.MapOf(v.FromReflectType(rt.Key()), v.FromReflectType(rt.Elem())), rt)
			}
		})
	case r.Func:
		guard("In/Out", func() {
			attr("NumIn", rt.NumIn(), t.NumIn())
			attr("NumOut", rt.NumOut(), t.NumOut())
			attr("IsVariadic", rt.IsVariadic(), t.IsVariadic())
			var in, out []xr.Type
			for i := 0; i < rt.NumIn() && i < t.NumIn(); i++ {
				same(fmt.Sprintf("In(%d)", i), t.In(i), rt.In(i))
				in = append(in, v.FromReflectType(rt.In(i)))
			}
			for i := 0; i < rt.NumOut() && i < t.NumOut(); i++ {
				same(fmt.Sprintf("Out(%d)", i), t.Out(i), rt.Out(i))
				out = append(out, v.FromReflectType(rt.Out(i)))
			}
			if rt.Name() == "" && len(in) == rt.NumIn() && len(out) == rt.NumOut() {
				same("FuncOf(in, out)", v.FuncOf(in, out, rt.IsVariadic()), rt)
			}
		})
	}
	// methods
	guard("methods", func() {
		if rt.Kind() == r.Interface {
			attr("NumMethod", rt.NumMethod(), t.NumMethod())
			for i := 0; i < rt.NumMethod() && i < t.NumMethod(); i++ {
				attr("Method.Name", rt.Method(i).Name, t.Method(i).Name)
			}
			return
		}
		for i := 0; i < rt.NumMethod(); i++ {
			m := rt.Method(i)
			_, count := t.MethodByName(m.Name, m.PkgPath)
			if count != 1 {
				add("attr-differs", "(MethodByName.count)", fmt.Sprintf("method %s of reflect's method set is found %d times by MethodByName", m.Name, count))
				break
			}
		}
		if rt.Name() != "" && rt.PkgPath() != "" && rt.Kind() != r.Ptr {
			pt := r.PointerTo(rt)
			for i := 0; i < t.NumMethod(); i++ {
				name := t.Method(i).Name
				if token.IsExported(name) {
					if _, ok := pt.MethodByName(name); !ok {
						add("attr-differs", "(Method)", fmt.Sprintf("declared method %s is not in reflect's method set of the pointer type", name))
						break
					}
				}
			}
		}
	})
	return diffs, false
}

// pair applies the predicate rules to one ordered pair.
func (u *c29CorpusU) pair(x, y r.Type) (diffs []c29Diff) {
	v := u.v
	cl := fmt.Sprintf("FromReflect:%s,FromReflect:%s[%s]", c29KindLabel(x), c29KindLabel(y), u.mode)
	defer func() {
		if e := recover(); e != nil {
			diffs = append(diffs, c29Diff{Sig: fmt.Sprintf("universe(%s):panics", cl),
				What: fmt.Sprintf("predicates of %v and %v (%s universe) panic: %s", x, y, u.mode, c28PanicText(e))})
		}
	}()
	tx, ty := v.FromReflectType(x), v.FromReflectType(y)
	if tx == nil || ty == nil || tx.ReflectType() != x || ty.ReflectType() != y {
		return nil // emulated or already reported by check
	}
	pred := func(name string, want, got bool) {
		if want != got {
			diffs = append(diffs, c29Diff{Sig: fmt.Sprintf("universe(%s):predicate-differs(%s=%v)", cl, name, got),
				What: fmt.Sprintf("<%v>.%s(<%v>) is %v in the %s universe, reflect says %v", tx, name, ty, got, u.mode, want)})
		}
	}
	pred("AssignableTo", x.AssignableTo(y), tx.AssignableTo(ty))
	if x.Kind() != r.UnsafePointer && y.Kind() != r.UnsafePointer {
		// (the Go specification allows unsafe.Pointer <-> *T, reflect cannot perform it and
		// answers false: no rule for these pairs)
		pred("ConvertibleTo", x.ConvertibleTo(y), tx.ConvertibleTo(ty))
	}
	pred("IdenticalTo", x == y, tx.IdenticalTo(ty))
	if y.Kind() == r.Interface {
		pred("Implements", x.Implements(y), tx.Implements(ty))
	}
	return diffs
}

func c29Corpus(c *core.Ctx) error {
	roots := c29Roots()
	items := c29Closure(roots, c.Pick(60000, 400000))
	c.Extra["corpus_roots"] = len(roots)
	c.Extra["corpus_types"] = len(items)
	if len(items) < 1000 {
		return core.Infra("the import tables yield only %d types", len(items))
	}
	// packages whose go/types description is preloaded in the "import" universes
	var paths []string
	if c.Quick() {
		paths = c29QuickImportPkgs
	} else {
		seen := map[string]bool{}
		for _, ro := range roots {
			if c29IsStdPath(ro.Pkg) && !seen[ro.Pkg] {
				seen[ro.Pkg] = true
				paths = append(paths, ro.Pkg)
			}
		}
		sort.Strings(paths)
	}
	t0 := time.Now()
	std, skipped := c29LoadStd(paths, time.Duration(c.Pick(60, 240))*time.Second)
	c.Extra["corpus_import_packages"] = len(std)
	c.Extra["corpus_import_packages_skipped"] = skipped
	c.Extra["corpus_import_load_s"] = time.Since(t0).Seconds()
	loaded := map[string]bool{}
	for _, p := range std {
		loaded[p.Path()] = true
	}
	// partition by root package: one worker owns the universes of its share
	nw := c29Workers
	parts := make([][]c29Item, nw)
	for _, it := range items {
		h := 0
		for _, ch := range roots[it.root].Pkg {
			h = h*31 + int(ch)
		}
		if h < 0 {
			h = -h
		}
		parts[h%nw] = append(parts[h%nw], it)
	}
	var mu sync.Mutex
	emul := 0
	var firstErr error
	rp := &c29Reporter{c: c, std: std, paths: paths, roots: roots, pre: map[string]*c29Item{}, nrep: map[string]int{}}
	npairs := 0
	sampled := 0
	core.ParDo(nw, nw, func(w int) {
		rng := rand.New(rand.NewSource(c.Seed*1000 + int64(w)))
		for _, mode := range []string{"reflect", "import"} {
			u := &c29CorpusU{mode: mode, v: c29NewCorpusUniverse(mode, std)}
			part := parts[w]
			var ok, done []c29Item
			for _, it := range part {
				if mode == "import" && !loaded[roots[it.root].Pkg] {
					continue // the import universe differs from the reflect one only for preloaded packages
				}
				diffs, emulated := u.check(it.rt)
				c.Case(mode+"|"+it.rt.String()+"|"+it.rt.PkgPath(), it.rt.Kind() > r.Complex128 && it.rt.Kind() != r.String || it.rt.Name() != "" && it.rt.PkgPath() != "")
				if !emulated {
					ok = append(ok, it)
				}
				if len(diffs) > 0 {
					rp.report(mode, done, it, nil, diffs)
				}
				done = append(done, it)
				mu.Lock()
				if sampled < 5 && rng.Intn(2000) == 0 {
					sampled++
					c.Sample(map[string]interface{}{"corpus_type": it.rt.String(), "root": roots[it.root].Label, "steps": it.steps, "mode": mode})
				}
				mu.Unlock()
			}
			// predicate rules on sampled ordered pairs
			k := c.Pick(6, 40)
			var ifaces []c29Item
			for _, it := range ok {
				if it.rt.Kind() == r.Interface && len(ifaces) < 200 {
					ifaces = append(ifaces, it)
				}
			}
			for _, it := range ok {
				for n := 0; n < k && len(ok) > 1; n++ {
					var other c29Item
					if n%3 == 2 && len(ifaces) > 0 {
						other = ifaces[rng.Intn(len(ifaces))]
					} else {
						other = ok[rng.Intn(len(ok))]
					}
					diffs := u.pair(it.rt, other.rt)
					c.Case(mode+"|pair|"+it.rt.String()+"|"+other.rt.String(), it.rt.Kind() == other.rt.Kind() || other.rt.Kind() == r.Interface)
					mu.Lock()
					npairs++
					mu.Unlock()
					if len(diffs) > 0 {
						o := other
						rp.report(mode, done, it, &o, diffs)
					}
				}
			}
			mu.Lock()
			emul += u.emul
			ng, _ := c.Extra["corpus_generic_skipped"].(int)
			c.Extra["corpus_generic_skipped"] = ng + u.generic
			mu.Unlock()
		}
	})
	c.Extra["corpus_pairs"] = npairs
	c.Extra["corpus_emulated_excluded"] = emul
	c.Extra["corpus_unreproduced_dropped"] = rp.unrepr
	c.Assume("corpus: the specification contributes the rule table (which attributes of the converted type must agree with reflect and how), not a transition system; types whose ReflectType() is approximated with xreflect.Forward (recursive declarations) are the excluded emulated types and are counted in corpus_emulated_excluded")
	c.Assume("corpus 'import' universes: Universe.Packages is preloaded (CachePackage) with the standard library's go/types description converted by types.Converter, loaded offline with the source importer, because the default gc importer shells out to `go list` (about 10 s per package here)")
	return firstErr
}

// c29Reporter confirms corpus disagreements and reports them. The universe is stateful, so a
// disagreement may depend on what was converted before: it is first looked for in a fresh
// universe converting only the type(s) concerned, then in fresh universes that first convert
// ONE of the types the worker converted earlier (the minimal history: "convert Y, then X").
// A disagreement that neither reproduces is not reported (counted as unreproduced).
type c29Reporter struct {
	c      *core.Ctx
	std    []*stdtypes.Package
	paths  []string
	roots  []c29Root
	mu     sync.Mutex
	pre    map[string]*c29Item // signature -> history item that reproduced it
	nrep   map[string]int
	unrepr int
}

func (rp *c29Reporter) try(mode string, pre *c29Item, it c29Item, other *c29Item) map[string]c29Diff {
	u := &c29CorpusU{mode: mode, v: c29NewCorpusUniverse(mode, rp.std)}
	if pre != nil {
		u.check(pre.rt)
	}
	var again []c29Diff
	if other == nil {
		again, _ = u.check(it.rt)
	} else {
		again = u.pair(it.rt, other.rt)
	}
	out := map[string]c29Diff{}
	for _, d := range again {
		if _, dup := out[d.Sig]; !dup {
			out[d.Sig] = d
		}
	}
	return out
}

func (rp *c29Reporter) report(mode string, done []c29Item, it c29Item, other *c29Item, diffs []c29Diff) {
	seen := map[string]bool{}
	var fresh map[string]c29Diff
	for _, d := range diffs {
		if seen[d.Sig] {
			continue
		}
		seen[d.Sig] = true
		if fresh == nil {
			fresh = rp.try(mode, nil, it, other)
		}
		var pre *c29Item
		conf, ok := fresh[d.Sig]
		if !ok {
			rp.mu.Lock()
			known := rp.pre[d.Sig]
			n := rp.nrep[d.Sig]
			rp.mu.Unlock()
			if known != nil {
				if x, ok2 := rp.try(mode, known, it, other)[d.Sig]; ok2 {
					conf, ok, pre = x, true, known
				}
			}
			if !ok {
				limit := 4000
				if n >= 2 {
					limit = 400 // the signature is already documented: a shorter search
				}
				if mode == "import" {
					limit = 40
				}
				for k := len(done) - 1; k >= 0 && limit > 0; k, limit = k-1, limit-1 {
					y := done[k]
					if x, ok2 := rp.try(mode, &y, it, other)[d.Sig]; ok2 {
						conf, ok, pre = x, true, &y
						break
					}
				}
			}
		}
		if !ok {
			rp.mu.Lock()
			rp.unrepr++
			if ex, _ := rp.c.Extra["corpus_unreproduced_examples"].([]string); len(ex) < 5 {
				rp.c.Extra["corpus_unreproduced_examples"] = append(ex, d.Sig+": "+d.What)
			}
			rp.mu.Unlock()
			continue
		}
		cs := &c29CorpusCase{Kind: "corpus", Mode: mode, Root: rp.roots[it.root].Label, Steps: it.steps, Import: rp.paths}
		if other != nil {
			cs.Other, cs.OSteps = rp.roots[other.root].Label, other.steps
		}
		what := conf.What
		if pre != nil {
			cs.Pre, cs.PSteps = rp.roots[pre.root].Label, pre.steps
			what = fmt.Sprintf("after FromReflectType(%v): %s", pre.rt, what)
		}
		rp.mu.Lock()
		rp.nrep[d.Sig]++
		if pre != nil && rp.pre[d.Sig] == nil {
			rp.pre[d.Sig] = pre
		}
		rp.mu.Unlock()
		c29OutMu.Lock()
		rp.c.Violation(d.Sig, what, cs)
		c29OutMu.Unlock()
	}
}

func c29CorpusReplay(c *core.Ctx, raw json.RawMessage) error {
	var cs c29CorpusCase
	if err := json.Unmarshal(raw, &cs); err != nil {
		return err
	}
	roots := c29Roots()
	find := func(label string, steps []string) *c29Item {
		for i, ro := range roots {
			if ro.Label == label {
				rt := ro.rt
				for _, s := range steps {
					if rt = c29Component(rt, s); rt == nil {
						return nil
					}
				}
				return &c29Item{rt: rt, root: i, steps: steps}
			}
		}
		return nil
	}
	it := find(cs.Root, cs.Steps)
	if it == nil {
		return core.Infra("corpus type %s %v not found", cs.Root, cs.Steps)
	}
	rp := &c29Reporter{c: c, roots: roots, paths: cs.Import, pre: map[string]*c29Item{}, nrep: map[string]int{}}
	if cs.Mode == "import" {
		rp.std, _ = c29LoadStd(cs.Import, 10*time.Minute)
	}
	var pre, other *c29Item
	if cs.Pre != "" {
		if pre = find(cs.Pre, cs.PSteps); pre == nil {
			return core.Infra("corpus type %s %v not found", cs.Pre, cs.PSteps)
		}
	}
	if cs.Other != "" {
		if other = find(cs.Other, cs.OSteps); other == nil {
			return core.Infra("corpus type %s %v not found", cs.Other, cs.OSteps)
		}
	}
	for _, d := range rp.try(cs.Mode, pre, *it, other) {
		c.Violation(d.Sig, d.What, &cs)
	}
	return nil
}

func selfTestC29(c *core.Ctx) error {
	// broken variants must be rejected by TLC
	r1, err := c.TLC(core.TLCOpts{Spec: "Universe", CfgName: "broken-chan-dir", Workers: 2,
		Cfg: c29Cfg("chan-dir", false, 3, 6, "bfs1", "Canonical Faithful"), ExpectError: true})
	if err != nil {
		return err
	}
	if r1.Violated != "Faithful" {
		return fmt.Errorf("broken variant chan-dir (cache key without channel direction) not detected by TLC (violated=%q)\n%s", r1.Violated, r1.Output)
	}
	r2, err := c.TLC(core.TLCOpts{Spec: "Universe", CfgName: "broken-no-padding", Workers: 2,
		Cfg: c29Cfg("no-padding", false, 1, 6, "bfs2", "LayoutLaws"), ExpectError: true})
	if err != nil {
		return err
	}
	if r2.Violated != "LayoutLaws" {
		return fmt.Errorf("broken variant no-padding (struct layout without padding) not detected by TLC (violated=%q)\n%s", r2.Violated, r2.Output)
	}
	// a correct history is accepted by gate and replay, corrupted ones are rejected
	res, err := c.TLC(core.TLCOpts{Spec: "Universe", CfgName: "selftest-histories", Workers: 2,
		Cfg: c29Cfg("none", true, 2, 6, "bfs1", c29Invs)})
	if err != nil {
		return err
	}
	var meta *c29Meta
	var hit, fresh *c29Rec
	for _, l := range res.Lines {
		var rec c29Rec
		if json.Unmarshal(l, &rec) != nil {
			continue
		}
		switch {
		case rec.T == "meta":
			m := rec.c29Meta
			meta = &m
		case rec.T == "hist" && len(rec.Ops) == 2 && rec.Ops[0].Op == "FromReflect" && rec.Ops[0].Extra.Pool == 13 &&
			rec.Ops[1].Op == "FromReflect" && rec.Ops[1].Extra.Pool == 13:
			x := rec
			hit = &x // []int converted twice: the second call must return the first object
		case rec.T == "hist" && len(rec.Ops) == 2 && rec.Ops[0].Op == "FromReflect" && rec.Ops[0].Extra.Pool == 2 &&
			rec.Ops[1].Op == "SliceOf":
			x := rec
			fresh = &x // int8, []int8
		}
	}
	if meta == nil || hit == nil || fresh == nil {
		return fmt.Errorf("TLC did not print the expected meta / history records")
	}
	g, err := newC29Gate(meta)
	if err != nil {
		return err
	}
	if err := g.poolCheck(c); err != nil {
		return err
	}
	for _, h := range []*c29Rec{hit, fresh} {
		if ok, why := g.history(h.Ops); !ok {
			return fmt.Errorf("correct history rejected by the gate: %s", why)
		}
		if d, err := c29Replay(meta, h.Ops, nil); err != nil || len(d) != 0 {
			return fmt.Errorf("correct history rejected by the replay: %v %v", d, err)
		}
	}
	clone := func(h *c29Rec) []c29Op {
		b, _ := json.Marshal(h.Ops)
		var ops []c29Op
		json.Unmarshal(b, &ops)
		return ops
	}
	bad := clone(fresh)
	bad[1].New, bad[1].Res = false, 1 // "SliceOf(int8) returns the object of int8"
	if d, _ := c29Replay(meta, bad, nil); len(d) == 0 || !strings.Contains(d[0].Sig, "not-canonical") {
		return fmt.Errorf("corrupted identity expectation accepted: %v", d)
	}
	bad = clone(hit)
	bad[1].New, bad[1].Res = true, 2 // "the second conversion returns a new object"
	if d, _ := c29Replay(meta, bad, nil); len(d) == 0 || !strings.Contains(d[0].Sig, "not-canonical") {
		return fmt.Errorf("corrupted identity expectation (new object expected) accepted: %v", d)
	}
	bad = clone(fresh)
	bad[1].Obs[0].Attrs.Size = 16
	if d, _ := c29Replay(meta, bad, nil); len(d) == 0 || !strings.Contains(d[0].Sig, "attr-differs(Size)") {
		return fmt.Errorf("corrupted size accepted by the replay: %v", d)
	}
	if ok, _ := g.history(bad); ok {
		return fmt.Errorf("corrupted size accepted by the gate")
	}
	bad = clone(fresh)
	bad[1].Obs[0].Preds.AsgTo = append(bad[1].Obs[0].Preds.AsgTo, 1) // "[]int8 assignable to int8"
	if d, _ := c29Replay(meta, bad, nil); len(d) == 0 || !strings.Contains(d[0].Sig, "predicate-differs(AssignableTo") {
		return fmt.Errorf("corrupted predicate row accepted by the replay: %v", d)
	}
	if ok, _ := g.history(bad); ok {
		return fmt.Errorf("corrupted predicate row accepted by the gate")
	}
	// corpus rules: a wrong rule application must be seen (the normaliser must not erase real differences)
	if c29NormString("struct { A int }") != c29NormString("struct{A int}") || c29NormString("[]byte") != c29NormString("[]uint8") ||
		c29NormString("*encoding/json.Decoder") != c29NormString("*json.Decoder") {
		return fmt.Errorf("string normalisation does not identify the two printers' forms")
	}
	if c29NormString("struct{A int}") == c29NormString("struct{B int}") || c29NormString("[]int8") == c29NormString("[]uint8") {
		return fmt.Errorf("string normalisation identifies different types")
	}
	return nil
}

package props

import (
	"fmt"
	"go/ast"
	"go/token"
	"strings"

	etoken "github.com/cosmos72/gomacro/go/etoken"
)

// Shared by C20 and C21: the abstract form of spec/front/Forms.tla on the Go side.
//
// A form is (kind, attribute, children) exactly as Forms.tla's Node(k, a, c):
//   id/a=name  int/a=digits  bin/a=op [x y]  unary/a=op [x]  paren [x]
//   call [fun list(args)]  block [stmts...]  if [init cond block else]  for [init cond post block]
//   ret [results...]  assign/a="="|":=" [list(lhs) list(rhs)]  list [elems...]  nil  empty
//   q / qq / uq / uqs [block]   (quote, quasiquote, unquote, unquote_splice: body always a block)
//   xblock [block]              (gomacro's "block inside an expression":  MACRO func() { ... })
// The projection ignores positions and go/ast's ExprStmt / DeclStmt wrappers, which the Go type
// system forces around an expression / declaration in a statement slot and which carry nothing.
type c20Node struct {
	K string     `json:"k"`
	A string     `json:"a"`
	C []*c20Node `json:"c"`
}

func c20N(k, a string, c ...*c20Node) *c20Node { return &c20Node{K: k, A: a, C: c} }

var c20Nil = &c20Node{K: "nil"}

func (n *c20Node) String() string {
	if n == nil {
		return "<nil>"
	}
	var b strings.Builder
	n.write(&b)
	return b.String()
}

func (n *c20Node) write(b *strings.Builder) {
	switch n.K {
	case "id", "int":
		b.WriteString(n.A)
		return
	case "nil":
		b.WriteString("_")
		return
	}
	b.WriteByte('(')
	b.WriteString(n.K)
	if n.A != "" {
		b.WriteByte(' ')
		b.WriteString(n.A)
	}
	for _, c := range n.C {
		b.WriteByte(' ')
		c.write(b)
	}
	b.WriteByte(')')
}

func c20Equal(x, y *c20Node) bool {
	if x == nil || y == nil {
		return x == y
	}
	if x.K != y.K || x.A != y.A || len(x.C) != len(y.C) {
		return false
	}
	for i := range x.C {
		if !c20Equal(x.C[i], y.C[i]) {
			return false
		}
	}
	return true
}

func (n *c20Node) count(pred func(*c20Node) bool) int {
	k := 0
	if pred(n) {
		k++
	}
	for _, c := range n.C {
		k += c.count(pred)
	}
	return k
}

func (n *c20Node) size() int { return n.count(func(*c20Node) bool { return true }) }

func c20QuoteKind(op token.Token) string {
	switch op {
	case etoken.QUOTE:
		return "q"
	case etoken.QUASIQUOTE:
		return "qq"
	case etoken.UNQUOTE:
		return "uq"
	case etoken.UNQUOTE_SPLICE:
		return "uqs"
	case etoken.MACRO:
		return "xblock"
	}
	return ""
}

type c20ProjErr struct{ msg string }

func (e *c20ProjErr) Error() string { return e.msg }

// c20Project maps a go/ast tree (or a slice of trees) to the abstract form. A node kind outside
// Forms.tla is a projection error (the caller treats it as a gate reject / infrastructure
// trouble, never as a verdict).
func c20Project(x interface{}) (n *c20Node, err error) {
	defer func() {
		if r := recover(); r != nil {
			if pe, ok := r.(*c20ProjErr); ok {
				n, err = nil, pe
				return
			}
			panic(r)
		}
	}()
	return c20proj(x), nil
}

func c20fail(format string, a ...interface{}) {
	panic(&c20ProjErr{fmt.Sprintf(format, a...)})
}

func c20projExprs(xs []ast.Expr) *c20Node {
	l := c20N("list", "")
	for _, e := range xs {
		l.C = append(l.C, c20proj(e))
	}
	return l
}

func c20projBlock(b *ast.BlockStmt) *c20Node {
	n := c20N("block", "")
	for _, s := range b.List {
		n.C = append(n.C, c20proj(s))
	}
	return n
}

func c20proj(x interface{}) *c20Node {
	switch v := x.(type) {
	case nil:
		return c20Nil
	case []ast.Node:
		l := c20N("list", "")
		for _, e := range v {
			l.C = append(l.C, c20proj(e))
		}
		return l
	case []ast.Stmt:
		l := c20N("list", "")
		for _, e := range v {
			l.C = append(l.C, c20proj(e))
		}
		return l
	case []ast.Expr:
		return c20projExprs(v)
	case *ast.Ident:
		if v == nil {
			return c20Nil
		}
		return c20N("id", v.Name)
	case *ast.BasicLit:
		if v == nil {
			return c20Nil
		}
		if v.Kind != token.INT {
			c20fail("literal kind %v outside the modelled forms", v.Kind)
		}
		return c20N("int", v.Value)
	case *ast.BinaryExpr:
		if v == nil {
			return c20Nil
		}
		return c20N("bin", v.Op.String(), c20proj(v.X), c20proj(v.Y))
	case *ast.ParenExpr:
		if v == nil {
			return c20Nil
		}
		return c20N("paren", "", c20proj(v.X))
	case *ast.UnaryExpr:
		if v == nil {
			return c20Nil
		}
		if k := c20QuoteKind(v.Op); k != "" {
			fl, ok := v.X.(*ast.FuncLit)
			if !ok || fl == nil || fl.Body == nil {
				c20fail("%s without a body closure: %T", k, v.X)
			}
			if fl.Type == nil || (fl.Type.Params != nil && len(fl.Type.Params.List) != 0) || fl.Type.Results != nil {
				c20fail("%s with a non-fictitious closure type", k)
			}
			return c20N(k, "", c20projBlock(fl.Body))
		}
		return c20N("unary", v.Op.String(), c20proj(v.X))
	case *ast.CallExpr:
		if v == nil {
			return c20Nil
		}
		if v.Ellipsis != token.NoPos {
			c20fail("call with ellipsis")
		}
		return c20N("call", "", c20proj(v.Fun), c20projExprs(v.Args))
	case *ast.ExprStmt:
		if v == nil {
			return c20Nil
		}
		return c20proj(v.X)
	case *ast.DeclStmt:
		if v == nil {
			return c20Nil
		}
		return c20proj(v.Decl)
	case *ast.EmptyStmt:
		if v == nil {
			return c20Nil
		}
		return c20N("empty", "")
	case *ast.BlockStmt:
		if v == nil {
			return c20Nil
		}
		return c20projBlock(v)
	case *ast.IfStmt:
		if v == nil {
			return c20Nil
		}
		return c20N("if", "", c20proj(v.Init), c20proj(v.Cond), c20proj(v.Body), c20proj(v.Else))
	case *ast.ForStmt:
		if v == nil {
			return c20Nil
		}
		return c20N("for", "", c20proj(v.Init), c20proj(v.Cond), c20proj(v.Post), c20proj(v.Body))
	case *ast.ReturnStmt:
		if v == nil {
			return c20Nil
		}
		n := c20N("ret", "")
		for _, e := range v.Results {
			n.C = append(n.C, c20proj(e))
		}
		return n
	case *ast.AssignStmt:
		if v == nil {
			return c20Nil
		}
		if v.Tok != token.ASSIGN && v.Tok != token.DEFINE {
			c20fail("assignment operator %v outside the modelled forms", v.Tok)
		}
		return c20N("assign", v.Tok.String(), c20projExprs(v.Lhs), c20projExprs(v.Rhs))
	}
	c20fail("node kind %T outside the modelled forms", x)
	return nil
}

// c20Render writes a form as gomacro source. macroChar-keywords are spelled out
// (~quote, ~quasiquote, ~unquote, ~unquote_splice); list elements are separated by ';'
// (statements) or ',' (expressions).
func c20Render(n *c20Node) string {
	var b strings.Builder
	c20render(&b, n)
	return b.String()
}

func c20renderList(b *strings.Builder, cs []*c20Node, sep string) {
	for i, c := range cs {
		if i > 0 {
			b.WriteString(sep)
		}
		c20render(b, c)
	}
}

func c20render(b *strings.Builder, n *c20Node) {
	switch n.K {
	case "id", "int":
		b.WriteString(n.A)
	case "nil", "empty":
	case "bin":
		c20render(b, n.C[0])
		b.WriteString(" " + n.A + " ")
		c20render(b, n.C[1])
	case "unary":
		b.WriteString(n.A)
		c20render(b, n.C[0])
	case "paren":
		b.WriteString("(")
		c20render(b, n.C[0])
		b.WriteString(")")
	case "call":
		c20render(b, n.C[0])
		b.WriteString("(")
		c20renderList(b, n.C[1].C, ", ")
		b.WriteString(")")
	case "block":
		b.WriteString("{")
		c20renderList(b, n.C, "; ")
		b.WriteString("}")
	case "list":
		c20renderList(b, n.C, "; ")
	case "if":
		b.WriteString("if ")
		if n.C[0].K != "nil" {
			c20render(b, n.C[0])
			b.WriteString("; ")
		}
		c20render(b, n.C[1])
		b.WriteString(" ")
		c20render(b, n.C[2])
		if n.C[3].K != "nil" {
			b.WriteString(" else ")
			c20render(b, n.C[3])
		}
	case "for":
		b.WriteString("for ")
		if n.C[0].K != "nil" || n.C[2].K != "nil" {
			c20render(b, n.C[0])
			b.WriteString("; ")
			c20render(b, n.C[1])
			b.WriteString("; ")
			c20render(b, n.C[2])
			b.WriteString(" ")
		} else if n.C[1].K != "nil" {
			c20render(b, n.C[1])
			b.WriteString(" ")
		}
		c20render(b, n.C[3])
	case "ret":
		b.WriteString("return")
		if len(n.C) > 0 {
			b.WriteString(" ")
		}
		c20renderList(b, n.C, ", ")
	case "assign":
		c20renderList(b, n.C[0].C, ", ")
		b.WriteString(" " + n.A + " ")
		c20renderList(b, n.C[1].C, ", ")
	case "q", "qq", "uq", "uqs":
		kw := map[string]string{"q": "~quote", "qq": "~quasiquote", "uq": "~unquote", "uqs": "~unquote_splice"}[n.K]
		b.WriteString(kw)
		c20render(b, n.C[0])
	case "xblock":
		c20render(b, n.C[0])
	default:
		b.WriteString("<?" + n.K + "?>")
	}
}

package props

import (
	"fmt"
	"hash/fnv"
	"sort"
	"strings"
)

// Rendering of one DepSort record (spec/front/DepSort.tla) as Go source. Shared by C17 (sorter)
// and C16 (evaluation). The renderer decides only what the specification leaves open: the
// spelling of names, where inside a declaration a reference is written (initializer, function
// literal, type expression, function body at block depth 0..3, signature), how a shadowed
// reference is written, grouping of declarations, and - for C16 - the textual order.
// Every choice is a pure function of (record, choice), so a stored case re-renders identically.

type c17Decl struct {
	Kind string `json:"kind"`
	Deps []int  `json:"deps"`
	K    int    `json:"k"`
	Cyc  []int  `json:"cyc"`
}

type c17Shadow struct {
	From int    `json:"from"`
	To   int    `json:"to"`
	How  string `json:"how"`
}

type c17Layout struct {
	Pkg  bool   `json:"pkg"`
	Imp  bool   `json:"imp"`
	Cut  int    `json:"cut"`
	Sep  string `json:"sep"`
	Tail bool   `json:"tail"`
}

type c17Outcome struct {
	Err bool            `json:"err"`
	Out [][]interface{} `json:"out"`
}

type c17Rec struct {
	N         int          `json:"n"`
	Decls     []c17Decl    `json:"decls"`
	Sh        []c17Shadow  `json:"sh"`
	Lay       c17Layout    `json:"lay"`
	Outcomes  []c17Outcome `json:"outcomes"`
	GoValid   string       `json:"govalid"` // "yes" | "no" | "unspecified" (see GoValidity)
	Vals      []int        `json:"vals"`
	Mixed     bool         `json:"mixed"`
	FuncCycle bool         `json:"funccycle"`
	TypeCycle bool         `json:"typecycle"`
	Acyclic   bool         `json:"acyclic"`
}

func (r *c17Rec) trivialLayout() bool {
	return !r.Lay.Pkg && !r.Lay.Imp && r.Lay.Cut == 0 && !r.Lay.Tail
}

// allErr: every outcome of the specification is the declaration-loop error.
func (r *c17Rec) allErr() bool {
	for _, o := range r.Outcomes {
		if !o.Err {
			return false
		}
	}
	return len(r.Outcomes) > 0
}

// anyErr: the specification admits the declaration-loop error.
func (r *c17Rec) anyErr() bool {
	for _, o := range r.Outcomes {
		if o.Err {
			return true
		}
	}
	return false
}

func (r *c17Rec) hasDep(i, j int) bool {
	for _, d := range r.Decls[i-1].Deps {
		if d == j {
			return true
		}
	}
	return false
}

func (r *c17Rec) isCyc(i, j int) bool {
	for _, d := range r.Decls[i-1].Cyc {
		if d == j {
			return true
		}
	}
	return false
}

// c17Choice is everything the renderer adds to a record.
type c17Choice struct {
	Seed     int64       `json:"seed"`
	NameRank []int       `json:"name_rank"`
	Sfx      string      `json:"sfx,omitempty"`
	ExtraSh  []c17Shadow `json:"extra_shadows,omitempty"`
	// OnlySh (minimisation): nil = all shadowed references are rendered; otherwise only the one
	// with this index in allShadows (-1 = none).
	OnlySh *int  `json:"only_shadow,omitempty"`
	Perm   []int `json:"perm,omitempty"` // textual order of the declarations (C16); nil = model order
}

type c17Src struct {
	Text     string
	DeclText string         // the declarations only (Go gate)
	Names    []string       // Names[i], i = 1..n
	Pos      []int          // token.Pos of the declared identifier (fresh file set: offset+1)
	ItemPos  map[string]int // "pkg", "imp", "sep", "tail"
	Read     []string       // expression whose value the model gives as vals[i]
	Extra    []c17ExtraRead // further observations implied by the rendering
	Place    map[[2]int]string
	Shadows  []c17Shadow // all shadowed references (model's, then the harness's)
	ShLabel  []string    // signature label of each; "" if not rendered
	TextRank []int       // TextRank[i] = textual rank of declaration i
}

type c17ExtraRead struct {
	Expr string
	Of   int // expected: vals[Of]
}

func c17Hash(seed int64, tag string) uint64 {
	h := fnv.New64a()
	fmt.Fprintf(h, "%d|%s", seed, tag)
	x := h.Sum64()
	x ^= x >> 33
	x *= 0xff51afd7ed558ccd
	x ^= x >> 33
	return x
}

func c17Pick(seed int64, tag string, n int) int {
	if n <= 1 {
		return 0
	}
	return int(c17Hash(seed, tag) % uint64(n))
}

var c17KindLetter = map[string]string{"const": "c", "var": "v", "func": "f", "type": "T"}
var c17KindName = map[string]string{"const": "Const", "var": "Var", "func": "Func", "type": "Type"}

var c17BlockHows = map[string]bool{"define": true, "var": true, "range": true, "tswitch": true,
	"ifinit": true, "forinit": true, "switchinit": true}
var c17AllHows = []string{"param", "result", "define", "var", "range", "tswitch", "ifinit", "forinit", "switchinit"}

func c17AllShadows(rec *c17Rec, ch *c17Choice) []c17Shadow {
	sh := append([]c17Shadow(nil), rec.Sh...)
	sort.Slice(sh, func(a, b int) bool {
		if sh[a].From != sh[b].From {
			return sh[a].From < sh[b].From
		}
		if sh[a].To != sh[b].To {
			return sh[a].To < sh[b].To
		}
		return sh[a].How < sh[b].How
	})
	return append(sh, ch.ExtraSh...)
}

// c17ShadowOK mirrors ShadowOK of the specification (used for the harness's extra shadows).
func c17ShadowOK(rec *c17Rec, have []c17Shadow, s c17Shadow) bool {
	if s.From == s.To || s.From < 1 || s.To < 1 || s.From > rec.N || s.To > rec.N {
		return false
	}
	k := rec.Decls[s.From-1].Kind
	if k != "func" && k != "var" {
		return false
	}
	if rec.hasDep(s.From, s.To) && !c17BlockHows[s.How] {
		return false
	}
	for _, h := range have {
		if h.From == s.From && h.To == s.To {
			return false
		}
	}
	return true
}

type c17Renderer struct {
	rec   *c17Rec
	ch    *c17Choice
	seed  int64
	names []string
	sh    []c17Shadow
	on    []bool
	label []string
	place map[[2]int]string
	// per function-like container (declaration index): parameters and arguments
	params   map[int][]string
	args     map[int][]string
	result   map[int]string // name of the named result, "" = unnamed
	sigEdge  map[[2]int]bool
	extra    []c17ExtraRead
	typeForm map[[2]int]int
}

func (r *c17Renderer) kind(i int) string { return r.rec.Decls[i-1].Kind }

func (r *c17Renderer) call(j int) string {
	return r.names[j] + "(" + strings.Join(r.args[j], ", ") + ")"
}

// term is the expression contributing declaration j's value.
func (r *c17Renderer) term(j int) string {
	switch r.kind(j) {
	case "func":
		return r.call(j)
	case "type":
		return "len(" + r.names[j] + "{}.A)"
	}
	return r.names[j]
}

var c17Wrappers = []string{
	"{\n%s\n}",
	"if r >= 0 {\n%s\n}",
	"for i := 0; i < 1; i++ {\n%s\n}",
	"switch {\ndefault:\n%s\n}",
	"func() {\n%s\n}()",
}

// wrap nests stmt in `depth` blocks; every wrapper opens exactly one Go block.
func (r *c17Renderer) wrap(stmt string, depth int, tag string) string {
	for d := 0; d < depth; d++ {
		w := c17Wrappers[c17Pick(r.seed, fmt.Sprintf("w|%s|%d", tag, d), len(c17Wrappers))]
		stmt = fmt.Sprintf(w, stmt)
	}
	return stmt
}

// edgeStmt renders the free reference i -> j as a statement of a function(-literal) body.
func (r *c17Renderer) edgeStmt(i, j int, inLit bool) string {
	tag := fmt.Sprintf("e|%d|%d", i, j)
	depth := c17Pick(r.seed, "d|"+tag, 3)
	stmt := "r += " + r.term(j)
	where := "body"
	if inLit {
		where = "funclit"
	}
	if r.kind(j) == "type" {
		switch r.typeForm[[2]int{i, j}] {
		case 1: // a type expression in a local declaration
			stmt = "{\nvar t " + r.names[j] + "\nr += len(t.A)\n}"
			where += "-typeexpr"
		case 2:
			where += "+signature"
		}
	}
	stmt = r.wrap(stmt, depth, tag)
	if r.rec.isCyc(i, j) {
		// a reference on a cycle is never executed
		stmt = "if r < 0 {\n" + stmt + "\n}"
		where += "-guarded"
	}
	r.place[[2]int{i, j}] = fmt.Sprintf("%s@%d", where, depth)
	return stmt
}

// shadowStmt renders shadowed reference number si (from a function-like container).
// Returns "" when it is rendered entirely in the signature plus a plain use.
func (r *c17Renderer) shadowStmt(si int, containerLit bool) string {
	s := r.sh[si]
	x := r.names[s.To]
	tag := fmt.Sprintf("s|%d|%d|%s", s.From, s.To, s.How)
	use := "r += " + x
	lbl := s.How
	lit := containerLit
	switch s.How {
	case "param":
		e := c17Pick(r.seed, "u|"+tag, 3)
		use = r.wrap(use, e, tag)
	case "result":
		if r.result[s.From] == x {
			e := c17Pick(r.seed, "u|"+tag, 3)
			use = r.wrap(use, e, tag)
		} else {
			// a second named result lives in a nested function literal
			e := c17Pick(r.seed, "u|"+tag, 2)
			use = r.wrap("r += func() ("+x+" int) {\nreturn "+x+"\n}()", e, tag)
			lit = true
		}
	default:
		d := c17Pick(r.seed, "dd|"+tag, 2)
		if d == 0 && (s.How == "define" || s.How == "var") && r.bodyLevelTaken(s) {
			// (the other forms end their variable's scope themselves: a free reference to the
			// same name may follow at the same level)
			d = 1
		}
		e := c17Pick(r.seed, "u|"+tag, 3)
		var inner string
		switch s.How {
		case "define":
			inner = x + " := 0\n" + r.wrap(use, e, tag)
		case "var":
			decl := "var " + x + " = 0"
			if c17Pick(r.seed, "vf|"+tag, 2) == 1 {
				decl = "var " + x + " int"
			}
			inner = decl + "\n" + r.wrap(use, e, tag)
			if e >= 1 {
				// (exactly one level deeper for the raw parser's tree; Interp.Eval's macro
				// expansion unwraps plain blocks, so two levels may become one)
				lbl = "var@nested-block"
			}
		case "range":
			if e > 1 {
				e = 1
			}
			hdr := "for _, " + x + " := range []int{0} {\n"
			if c17Pick(r.seed, "rk|"+tag, 2) == 1 {
				hdr = "for " + x + " := range []int{7} {\n"
			}
			inner = hdr + r.wrap(use, e, tag) + "\n}"
		case "tswitch":
			if e > 1 {
				e = 1
			}
			inner = "switch " + x + " := interface{}(0).(type) {\ncase int:\n" + r.wrap(use, e, tag) + "\n}"
		case "ifinit":
			if e > 1 {
				e = 1
			}
			inner = "if " + x + " := 0; " + x + " >= 0 {\n" + r.wrap(use, e, tag) + "\n}"
		case "forinit":
			if e > 1 {
				e = 1
			}
			inner = "for " + x + " := 0; " + x + " < 1; " + x + "++ {\n" + r.wrap(use, e, tag) + "\n}"
		case "switchinit":
			if e > 1 {
				e = 1
			}
			inner = "switch " + x + " := 0; {\ndefault:\n" + r.wrap(use, e, tag) + "\n}"
		}
		if d == 0 {
			use = inner
		} else {
			use = r.wrap(inner, d, "o"+tag)
		}
	}
	if lit {
		lbl += "@funclit"
	}
	r.label[si] = "SigShadowedBy(" + lbl + ")"
	return use
}

// bodyLevelTaken: declaring the shadowing variable at the level of the function body would
// capture other references of the same container to that name.
func (r *c17Renderer) bodyLevelTaken(s c17Shadow) bool {
	return r.rec.hasDep(s.From, s.To)
}

// plan decides signatures before any text is produced (calls need the argument lists).
func (r *c17Renderer) plan() {
	rec := r.rec
	for i := 1; i <= rec.N; i++ {
		if k := r.kind(i); k != "func" && k != "var" {
			continue
		}
		for si, s := range r.sh {
			if !r.on[si] || s.From != i {
				continue
			}
			switch s.How {
			case "param":
				r.params[i] = append(r.params[i], r.names[s.To]+" int")
				r.args[i] = append(r.args[i], "0")
			case "result":
				if r.result[i] == "" {
					r.result[i] = r.names[s.To]
				}
			}
		}
		for _, j := range rec.Decls[i-1].Deps {
			if r.kind(j) != "type" {
				continue
			}
			form := c17Pick(r.seed, fmt.Sprintf("tf|%d|%d", i, j), 3)
			if form == 2 {
				shadowed := false
				for si, s := range r.sh {
					if r.on[si] && s.From == i && s.To == j {
						shadowed = true
					}
				}
				if shadowed || i == j || r.recursiveType(j, map[int]bool{}) {
					// (a nil argument for a pointer to a recursive type hits gomacro's documented
					// limitation "some corner cases using recursive types may not work")
					form = 0
				} else {
					r.params[i] = append(r.params[i], fmt.Sprintf("p%d *%s", j, r.names[j]))
					r.args[i] = append(r.args[i], "nil")
				}
			}
			r.typeForm[[2]int{i, j}] = form
		}
	}
}

// recursiveType: type j, or a type it contains, lies on a cycle.
func (r *c17Renderer) recursiveType(j int, seen map[int]bool) bool {
	if seen[j] {
		return false
	}
	seen[j] = true
	d := r.rec.Decls[j-1]
	if len(d.Cyc) > 0 {
		return true
	}
	for _, k := range d.Deps {
		if r.kind(k) == "type" && r.recursiveType(k, seen) {
			return true
		}
	}
	return false
}

func (r *c17Renderer) signature(i int) string {
	res := "int"
	if r.result[i] != "" {
		res = "(" + r.result[i] + " int)"
	}
	return "(" + strings.Join(r.params[i], ", ") + ") " + res
}

// bodyStmts: the statements of declaration i's function (literal) body.
func (r *c17Renderer) bodyStmts(i int, lit bool, edges []int) []string {
	var stmts []string
	type piece struct {
		key  uint64
		text string
	}
	var ps []piece
	for _, j := range edges {
		ps = append(ps, piece{c17Hash(r.seed, fmt.Sprintf("o|e|%d|%d", i, j)), r.edgeStmt(i, j, lit)})
		// a third of the references is mentioned twice: the sorter's dependency lists are
		// sorted and de-duplicated in place, repeated names exercise that bookkeeping
		if c17Pick(r.seed, fmt.Sprintf("dup|%d|%d", i, j), 3) == 0 {
			again := "_ = " + r.term(j)
			if r.rec.isCyc(i, j) {
				again = "if r < 0 {\n" + again + "\n}"
			}
			ps = append(ps, piece{c17Hash(r.seed, fmt.Sprintf("o|e2|%d|%d", i, j)), again})
		}
	}
	for si, s := range r.sh {
		if !r.on[si] || s.From != i {
			continue
		}
		ps = append(ps, piece{c17Hash(r.seed, fmt.Sprintf("o|s|%d|%d", i, s.To)), r.shadowStmt(si, lit)})
	}
	sort.Slice(ps, func(a, b int) bool { return ps[a].key < ps[b].key })
	for _, p := range ps {
		stmts = append(stmts, p.text)
	}
	return stmts
}

// declBody returns the text after the declared name (and the keyword-less form used inside
// groups): e.g. " = 3 + x" for const/var, "() int {...}" for func, " struct {...}" for type.
func (r *c17Renderer) declBody(i int, iota int) string {
	rec := r.rec
	d := rec.Decls[i-1]
	switch d.Kind {
	case "const":
		terms := []string{fmt.Sprint(d.K)}
		if iota >= 0 {
			terms = append(terms, "iota")
		}
		for _, j := range d.Deps {
			terms = append(terms, r.term(j))
			r.place[[2]int{i, j}] = "init"
		}
		s := " = " + strings.Join(terms, " + ")
		if iota >= 0 {
			s += fmt.Sprintf(" - %d", iota)
		}
		return s
	case "var":
		terms := []string{fmt.Sprint(d.K)}
		var inLit []int
		for _, j := range d.Deps {
			if c17Pick(r.seed, fmt.Sprintf("vl|%d|%d", i, j), 3) == 2 {
				inLit = append(inLit, j)
			} else {
				terms = append(terms, r.term(j))
				r.place[[2]int{i, j}] = "init"
			}
		}
		hasSh := false
		for si, s := range r.sh {
			if r.on[si] && s.From == i {
				hasSh = true
			}
		}
		if len(inLit) > 0 || hasSh {
			stmts := r.bodyStmts(i, true, inLit)
			lit := "func" + r.signature(i) + " {\nr := 0\n" + strings.Join(stmts, "\n") + "\nreturn r\n}(" + strings.Join(r.args[i], ", ") + ")"
			terms = append(terms, lit)
		}
		return " = " + strings.Join(terms, " + ")
	case "func":
		var edges []int
		edges = append(edges, d.Deps...)
		stmts := r.bodyStmts(i, false, edges)
		return r.signature(i) + " {\nr := " + fmt.Sprint(d.K) + "\n" + strings.Join(stmts, "\n") + "\nreturn r\n}"
	case "type":
		n := []string{fmt.Sprint(d.K)}
		var fields []string
		for _, j := range d.Deps {
			switch r.kind(j) {
			case "const":
				n = append(n, r.names[j])
				r.place[[2]int{i, j}] = "type-arraylen"
			case "type":
				if rec.isCyc(i, j) {
					fields = append(fields, fmt.Sprintf("P%d *%s", j, r.names[j]))
					r.place[[2]int{i, j}] = "type-field-pointer"
				} else {
					switch c17Pick(r.seed, fmt.Sprintf("tfld|%d|%d", i, j), 3) {
					case 0:
						fields = append(fields, fmt.Sprintf("F%d %s", j, r.names[j]))
						r.place[[2]int{i, j}] = "type-field-value"
						r.extra = append(r.extra, c17ExtraRead{fmt.Sprintf("len(%s{}.F%d.A)", r.names[i], j), j})
					case 1:
						fields = append(fields, fmt.Sprintf("P%d *%s", j, r.names[j]))
						r.place[[2]int{i, j}] = "type-field-pointer"
					default:
						fields = append(fields, fmt.Sprintf("S%d []%s", j, r.names[j]))
						r.place[[2]int{i, j}] = "type-field-slice"
					}
				}
			}
		}
		return " struct {\nA [" + strings.Join(n, " + ") + "]int\n" + strings.Join(fields, "\n") + "\n}"
	}
	return ""
}

var c17Keyword = map[string]string{"const": "const", "var": "var", "func": "func", "type": "type"}

func c17Render(rec *c17Rec, ch *c17Choice) *c17Src {
	n := rec.N
	r := &c17Renderer{rec: rec, ch: ch, seed: ch.Seed, names: make([]string, n+1),
		place: map[[2]int]string{}, params: map[int][]string{}, args: map[int][]string{},
		result: map[int]string{}, sigEdge: map[[2]int]bool{}, typeForm: map[[2]int]int{}}
	for i := 1; i <= n; i++ {
		rank := i
		if i-1 < len(ch.NameRank) {
			rank = ch.NameRank[i-1]
		}
		// half of the renderings use names that sort after the predeclared identifiers they
		// mention (int, len, interface): name order is what the sorter's lists are sorted by
		base := 'a'
		if c17Pick(ch.Seed, "hi", 2) == 1 {
			base = 'p'
		}
		r.names[i] = fmt.Sprintf("%c%s%d%s", base+rune(rank)-1, c17KindLetter[rec.Decls[i-1].Kind], i, ch.Sfx)
	}
	r.sh = c17AllShadows(rec, ch)
	r.on = make([]bool, len(r.sh))
	r.label = make([]string, len(r.sh))
	for si := range r.sh {
		r.on[si] = ch.OnlySh == nil || *ch.OnlySh == si
	}
	r.plan()

	order := make([]int, n)
	for i := range order {
		order[i] = i + 1
	}
	if len(ch.Perm) == n {
		copy(order, ch.Perm)
	}
	src := &c17Src{Names: r.names, Pos: make([]int, n+1), ItemPos: map[string]int{}, Read: make([]string, n+1),
		TextRank: make([]int, n+1)}
	var full, decls strings.Builder
	emit := func(s string, isDecl bool) {
		full.WriteString(s)
		if isDecl {
			decls.WriteString(s)
		}
	}
	lay := rec.Lay
	if len(ch.Perm) == n {
		lay = c17Layout{}
	}
	if lay.Pkg {
		full.WriteString("package ")
		src.ItemPos["pkg"] = full.Len() + 1
		full.WriteString("main\n")
	}
	if lay.Imp {
		full.WriteString("import ")
		src.ItemPos["imp"] = full.Len() + 1
		full.WriteString("\"fmt\"\n")
	}
	for p := 0; p < n; {
		i := order[p]
		k := r.kind(i)
		// group with the following declarations of the same kind?
		q := p + 1
		if k != "func" {
			for q < n && r.kind(order[q]) == k && !(lay.Cut > 0 && q == lay.Cut) &&
				c17Pick(r.seed, fmt.Sprintf("grp|%d", order[q]), 3) == 0 {
				q++
			}
		}
		grouped := q-p > 1 || (k != "func" && c17Pick(r.seed, fmt.Sprintf("grp1|%d", i), 8) == 0)
		if grouped {
			emit(c17Keyword[k]+" (\n", true)
			useIota := k == "const" && c17Pick(r.seed, fmt.Sprintf("iota|%d", i), 2) == 0
			for x := p; x < q; x++ {
				di := order[x]
				src.TextRank[di] = x + 1
				emit("\t", true)
				src.Pos[di] = full.Len() + 1
				io := -1
				if useIota {
					io = x - p
				}
				emit(r.names[di]+r.declBody(di, io)+"\n", true)
			}
			emit(")\n", true)
		} else {
			src.TextRank[i] = p + 1
			emit(c17Keyword[k]+" ", true)
			src.Pos[i] = full.Len() + 1
			emit(r.names[i]+r.declBody(i, -1)+"\n", true)
		}
		if lay.Cut > 0 && q == lay.Cut {
			src.ItemPos["sep"] = full.Len() + 1
			switch lay.Sep {
			case "stmt":
				full.WriteString("for false {\n}\n")
			case "expr":
				full.WriteString("1 + 1\n")
			case "import":
				full.WriteString("import ")
				src.ItemPos["sep"] = full.Len() + 1
				full.WriteString("\"os\"\n")
			case "pkg":
				full.WriteString("package ")
				src.ItemPos["sep"] = full.Len() + 1
				full.WriteString("other\n")
			}
		}
		p = q
	}
	if lay.Tail {
		src.ItemPos["tail"] = full.Len() + 1
		full.WriteString("for false {\n}\n")
	}
	for i := 1; i <= n; i++ {
		src.Read[i] = r.term(i)
	}
	src.Text = full.String()
	src.DeclText = decls.String()
	src.Extra = r.extra
	src.Place = r.place
	src.Shadows = r.sh
	src.ShLabel = r.label
	return src
}

package props

import (
	"bufio"
	"encoding/json"
	"fmt"
	"go/parser"
	"go/scanner"
	"go/token"
	"hash/fnv"
	"io"
	"strings"
	"sync"
	"sync/atomic"
	"time"

	"github.com/cosmos72/gomacro/base"

	"verif/harness/core"
)

// C26: the multiline reader. Spec: spec/front/Reader.tla.
// TLC enumerates inputs (sequences of line templates, each a sequence of lexical items) with
// the level of every line end (2 statement boundary, 1 lexically closed, 0 inside a
// literal/comment/bracket) and whether the input is a sequence of complete statements.
// The harness renders each input in several spellings/spacings, cross-checks the levels with
// the standard go/scanner (gate) and completeness with the standard go/parser (gate), feeds
// the text to base.ReadMultiline through four deliveries and checks: chunks concatenate to
// the input ('#!' -> '//'), no chunk ends at level 0, on complete inputs every chunk ends at
// level 2 and parses on its own with gomacro's parser.

func init() {
	core.Register(&core.Prop{
		ID: "C26",
		Rule: "TLC enumerates every sequence of <= MaxLines line templates (BFS, one record per input) and seeded random longer inputs (simulation) with the level of each line end; " +
			"a case is one (input, rendering, delivery) run of base.ReadMultiline; rendering = operator spellings x spacing/indentation x final newline; " +
			"delivery = line-by-line Readline, BufReadline on the whole buffer, BufReadline with ReadOptCollectAllComments (file mode), Reads holding several lines; " +
			"non-trivial = the input has a line end that is not a statement boundary (something must be kept together); distinct by rendered text and delivery",
		Run:      runC26,
		Replay:   replayC26,
		SelfTest: selfTestC26,
	})
}

type c26Item struct {
	K string
	V int
}

func c26T(items ...interface{}) []c26Item {
	var t []c26Item
	for i := 0; i < len(items); i++ {
		k := items[i].(string)
		v := 0
		if i+1 < len(items) {
			if n, ok := items[i+1].(int); ok {
				v = n
				i++
			}
		}
		t = append(t, c26Item{k, v})
	}
	return t
}

// line templates; comments show the plain rendering
var c26Templates = [][]c26Item{
	c26T("id", 1, "asg", "int"),                                      // 1  x = 1
	c26T("id", 2, "asg", "id", 1, "uop"),                             // 2  y = x +
	c26T("id", 3, "lp", "int", "comma"),                              // 3  Foo(1,
	c26T("int", 1, "rp"),                                             // 4  2)
	c26T("id", 1, "dot"),                                             // 5  x.
	c26T("id", 3, "lp", "rp"),                                        // 6  Foo()
	c26T("id", 2),                                                    // 7  y
	c26T("id", 1, "inc"),                                             // 8  x++
	c26T("id", 4, "asg", "str", 1, "uop", "id", 2),                   // 9  z = "a(\"[{" + y
	c26T("id", 4, "asg", "rawopen", 1),                               // 10 z = `raw( "
	c26T("rawmid", 1),                                                // 11 more " ' ( // /* x
	c26T("rawclose", 1, "uop", "id", 1),                              // 12 end)` + x
	c26T("lcmt", 1),                                                  // 13 // c "q ( /*
	c26T("cmtopen", 1),                                               // 14 /* open ( "
	c26T("cmtclose", 1, "id", 2, "asg", "int", 1),                    // 15 close ) */ y = 2
	c26T("id", 1, "asg", "id", 2, "cmt1", 1, "uop"),                  // 16 x = y /* c ( " */ -
	c26T("id", 4, "asg", "rune", 1, "uop", "rune", 2),                // 17 z = '(' + '"'
	c26T("kwc", 2, "id", 1, "lc"),                                    // 18 if x {
	c26T("rc"),                                                       // 19 }
	c26T("rc", "kwc", 4, "lc"),                                       // 20 } else {
	c26T("kws"),                                                      // 21 return
	c26T("kwc", 1),                                                   // 22 defer
	c26T("id", 2, "asg", "id", 4, "lb"),                              // 23 y = z[
	c26T("int", "rb"),                                                // 24 1]
	c26T("shebang"),                                                  // 25 #!/usr/bin/env gomacro
	c26T("id", 5, "colon"),                                           // 26 L:
	c26T(),                                                           // 27 (blank)
	c26T("id", 1, "asg", "id", 2, "uop", "uop", "id", 4),             // 28 x = y + +z
	c26T("id", 1, "asg", "id", 2, "comma"),                           // 29 x = y,
	c26T("id", 1, "asg", "int", "slash"),                             // 30 x = 1 /
	c26T("id", 1, "asg", "int", "semi", "id", 2, "asg", "int", 1),    // 31 x = 1; y = 2
	c26T("id", 1, "asg", "int", "cmtopen", 1),                        // 32 x = 1 /* open ( "
	c26T("id", 2, "asg", "id", 1, "binop"),                           // 33 y = x ==
	c26T("id", 4, "asg", "id", 3, "lc", "int", "comma"),              // 34 z = Foo{1,
	c26T("lcmt", 2),                                                  // 35 //c
	c26T("id", 3, "lp", "id", 1, "rp", "dot"),                        // 36 Foo(x).
	c26T("id", 2, "asg", "id", 1, "slash", "lp", "id", 4, "rp"),      // 37 y = x/(z)
	c26T("id", 2, "asg", "id", 1, "slash", "lp", "id", 4, "uop"),     // 38 y = x/(z +
	c26T("id", 2, "asg", "id", 1, "slash", "str", 1),                 // 39 y = x/"a(\"[{"
	c26T("id", 2, "asg", "id", 1, "slash", "rune", 1),                // 40 y = x/'('
	c26T("id", 4, "asg", "str", 2, "uop", "rune", 3),                 // 41 z = "t<TAB>ab(" + '<TAB>'
	c26T("id", 3, "lp", "str", 2, "comma"),                           // 42 Foo("t<TAB>ab(",
	c26T("id", 6, "dot"),                                             // 43 sha256.      (an identifier ending in a digit: not the number "256.")
	c26T("id", 4, "asg", "str", 3),                                   // 44 z = "long(long(...  (5000 bytes)"
	c26T("lcmt", 3),                                                  // 45 // long(long(...
}

// template subsets: the quick BFS uses all of them up to 3 lines
func c26MC() string { return c26MCn(len(c26Templates)) }

// c26MCn: the first k templates only
func c26MCn(k int) string {
	var b strings.Builder
	b.WriteString("c_Templates == <<")
	for i, t := range c26Templates[:k] {
		if i > 0 {
			b.WriteString(", ")
		}
		b.WriteString("<<")
		for j, it := range t {
			if j > 0 {
				b.WriteString(", ")
			}
			fmt.Fprintf(&b, "[k |-> %q, v |-> %d]", it.K, it.V)
		}
		b.WriteString(">>")
	}
	b.WriteString(">>\n")
	return b.String()
}

func c26Cfg(maxLines, emitAt int, broken, emit bool, invs string) string {
	return fmt.Sprintf("SPECIFICATION Spec\nCONSTANTS\n Templates <- c_Templates\n MaxLines = %d\n StringBrackets = %s\n EmitOn = %s\n EmitAt = %d\nINVARIANTS %s\n",
		maxLines, strings.ToUpper(fmt.Sprint(broken)), strings.ToUpper(fmt.Sprint(emit)), emitAt, invs)
}

type c26End struct {
	Lv    int    `json:"lv"`
	Last  string `json:"last"`
	Mode  string `json:"mode"`
	Depth int    `json:"depth"`
	First string `json:"first"`
	Final string `json:"final"`
}
type c26Rec struct {
	Lines []int    `json:"lines"`
	Ends  []c26End `json:"ends"`
	Wf    bool     `json:"wf"`
	Neg   bool     `json:"neg"`
}

// ---------------------------------------------------------------------------
// rendering

var (
	c26Ids    = []string{"", "x", "y", "Foo", "z", "L", "sha256"}
	// longer than the 4096 bytes of bufio's default buffer
	c26Long = strings.Repeat("long(", 1000)
	c26Binops = []string{"==", "%", "!=", "<", "<=", ">", ">=", "&&", "||", "<<", ">>", "&^", "|"}
	c26Uops   = []string{"+", "-", "*", "&", "^"}
	c26Asgs   = []string{"=", ":=", "+=", "-=", "*=", "|=", "<<=", "&^=", "%="}
	c26Kws    = []string{"return", "break", "continue", "fallthrough"}
)

const c26Renderings = 4

func c26ItemText(it c26Item, rot int, pos int, line []c26Item) string {
	pick := func(l []string) string { return l[(rot+pos)%len(l)] }
	switch it.K {
	case "id":
		return c26Ids[it.V]
	case "int":
		return fmt.Sprint(it.V + 1)
	case "str":
		return []string{`"s"`, `"a(\"[{"`, "\"t\tab(\"", `"` + c26Long + `"`}[it.V] // (2: a raw tab character inside the literal; 3: a line longer than bufio's buffer)
	case "rune":
		return []string{`'a'`, `'('`, `'"'`, "'\t'"}[it.V] // (3: a raw tab character)
	case "raw1":
		return []string{"`r`", "`r(\"`"}[it.V]
	case "rawopen":
		return "`raw( \""
	case "rawmid":
		return `more " ' ( // /* x`
	case "rawclose":
		return "end)`"
	case "lcmt":
		return []string{"// c", `// c "q ( /*`, "//c", "// " + c26Long}[it.V]
	case "cmt1":
		return []string{"/* c */", `/* c ( " */`}[it.V]
	case "cmtopen":
		return `/* open ( "`
	case "cmtmid":
		return `mid ' ) x`
	case "cmtclose":
		return `close ) */`
	case "binop":
		return pick(c26Binops)
	case "slash":
		return "/"
	case "uop":
		return pick(c26Uops)
	case "not":
		return "!"
	case "asg":
		a := pick(c26Asgs)
		if a == ":=" && !(pos == 1 && line[0].K == "id") {
			a = "="
		}
		return a
	case "comma":
		return ","
	case "dot":
		return "."
	case "semi":
		return ";"
	case "colon":
		return ":"
	case "inc":
		return []string{"++", "--"}[(rot+pos)%2]
	case "lp":
		return "("
	case "rp":
		return ")"
	case "lb":
		return "["
	case "rb":
		return "]"
	case "lc":
		return "{"
	case "rc":
		return "}"
	case "kws":
		return pick(c26Kws)
	case "kwc":
		switch it.V {
		case 1:
			return []string{"defer", "go"}[rot%2]
		case 2:
			return "if"
		case 3:
			return "for"
		case 4:
			return "else"
		}
	case "shebang":
		return "#!/usr/bin/env gomacro"
	}
	return "?" + it.K
}

func c26Glue(a, b c26Item) bool {
	punct := func(k string) bool {
		switch k {
		case "lp", "rp", "lb", "rb", "comma", "semi", "colon", "inc", "lc", "rc":
			return true
		}
		return false
	}
	oper := func(k string) bool { return k == "binop" || k == "uop" || k == "asg" || k == "not" }
	opnd := func(k string) bool { return k == "id" || k == "str" || k == "rune" || k == "raw1" || k == "rawclose" }
	switch {
	case strings.Contains(a.K, "cmt") || strings.Contains(b.K, "cmt"):
		return false
	case a.K == "slash":
		// a division directly followed by a bracket, a quote or a name ("x/(y)", as gofmt writes
		// nested expressions); never by something that could spell a comment or "/="
		return b.K == "lp" || b.K == "id" || b.K == "str" || b.K == "rune" || b.K == "raw1"
	case b.K == "slash":
		return a.K == "id" || a.K == "rp" || a.K == "rb"
	case a.K == "kws" || a.K == "kwc" || b.K == "kws" || b.K == "kwc" || a.K == "shebang":
		return false
	case a.K == "int" || b.K == "int": // "1." and "1.x" would be floats, "1x" is one token
		return punct(a.K) && a.K != "inc" || punct(b.K) && b.K != "inc"
	case a.K == "id" && b.K == "dot", a.K == "rp" && b.K == "dot", a.K == "dot" && b.K == "id":
		return true
	case a.K == "dot" || b.K == "dot":
		return false
	case punct(a.K) && punct(b.K):
		return a.K != "inc" && b.K != "inc" && !(a.K == "colon" || b.K == "colon")
	case punct(a.K) && opnd(b.K), opnd(a.K) && punct(b.K):
		return true
	case oper(a.K) && opnd(b.K), opnd(a.K) && oper(b.K):
		return true
	case oper(a.K) && (b.K == "lp") || (a.K == "rp" || a.K == "rb") && oper(b.K):
		return true
	}
	return false
}

// c26Render returns the text of every line (each ending in "\n" except possibly the last).
// variant: 0 single spaces; 1 compact; 2 tab-indented with trailing blanks; 3 two-space
// indentation of the first line, no final newline.
func c26Render(lines []int, variant int) []string {
	out := make([]string, len(lines))
	for li, ti := range lines {
		t := c26Templates[ti-1]
		var b strings.Builder
		switch variant {
		case 2:
			b.WriteString("\t")
		case 3:
			if li == 0 && !(len(t) > 0 && t[0].K == "shebang") {
				b.WriteString("  ")
			}
		}
		for i, it := range t {
			if i > 0 && !(variant == 1 && c26Glue(t[i-1], it)) {
				b.WriteString(" ")
			}
			b.WriteString(c26ItemText(it, variant+li, i, t))
		}
		if variant == 2 {
			b.WriteString(" \t")
		}
		if !(variant == 3 && li == len(lines)-1) {
			b.WriteString("\n")
		} else if b.Len() == 0 {
			b.WriteString("\t") // keep the line non-empty so that every line end has its own offset
		}
		out[li] = b.String()
	}
	// a shebang must start the input
	if len(lines) > 0 {
		t := c26Templates[lines[0]-1]
		if len(t) > 0 && t[0].K == "shebang" {
			out[0] = strings.TrimLeft(out[0], " \t")
		}
	}
	return out
}

// ---------------------------------------------------------------------------
// gate: the standard scanner's view of every line end, the standard parser's view of
// completeness

func c26GoText(text string) string {
	if strings.HasPrefix(text, "#!") {
		return "//" + text[2:]
	}
	return text
}

func c26GateLevels(lineTexts []string) []int {
	text := c26GoText(strings.Join(lineTexts, ""))
	fset := token.NewFileSet()
	f := fset.AddFile("", fset.Base(), len(text))
	var s scanner.Scanner
	unterminated := -1 // offset where a literal or comment that never ends starts
	s.Init(f, []byte(text), func(p token.Position, msg string) {
		if strings.Contains(msg, "not terminated") && unterminated < 0 {
			unterminated = p.Offset
		}
	}, scanner.ScanComments)
	type tk struct {
		off, end int
		tok      token.Token
	}
	var toks []tk
	for {
		pos, tok, lit := s.Scan()
		if tok == token.EOF {
			break
		}
		off := f.Offset(pos)
		n := len(lit)
		if n == 0 {
			n = len(tok.String())
		}
		if tok == token.SEMICOLON && lit == "\n" {
			n = 0
		}
		toks = append(toks, tk{off, off + n, tok})
	}
	levels := make([]int, len(lineTexts))
	eo := 0
	for i, lt := range lineTexts {
		eo += len(lt)
		e := eo // offset just past the line (after its '\n' if any)
		nl := e
		if strings.HasSuffix(lt, "\n") {
			nl = e - 1
		}
		depth := 0
		inside := false
		last := token.ILLEGAL
		have := false
		for _, t := range toks {
			if t.off > nl || (t.off == nl && !(t.tok == token.SEMICOLON && t.end == t.off)) {
				break
			}
			if (t.tok == token.COMMENT || t.tok == token.STRING) && t.off < nl && t.end > nl {
				inside = true
			}
			switch t.tok {
			case token.LPAREN, token.LBRACK, token.LBRACE:
				depth++
			case token.RPAREN, token.RBRACK, token.RBRACE:
				depth--
			}
			if t.tok != token.COMMENT {
				last = t.tok
				have = true
			}
		}
		if unterminated >= 0 && nl >= unterminated {
			inside = true
		}
		switch {
		case inside || depth != 0:
			levels[i] = 0
		case !have || last == token.SEMICOLON:
			levels[i] = 2
		default:
			levels[i] = 1
		}
	}
	return levels
}

func c26GateParses(text string) bool {
	src := "package p\nfunc _() {\n" + c26GoText(text) + "\n}\n"
	_, err := parser.ParseFile(token.NewFileSet(), "", src, parser.SkipObjectResolution)
	return err == nil
}

// ---------------------------------------------------------------------------
// deliveries

type c26Lines struct {
	reads []string
	i     int
}

func (r *c26Lines) Read(prompt string) ([]byte, error) {
	if r.i >= len(r.reads) {
		return nil, io.EOF
	}
	b := []byte(r.reads[r.i])
	r.i++
	return b, nil
}

type c26Chunk struct {
	Src   string
	First int
	Err   string
}

func c26ReadAll(rl base.Readline, first base.ReadOptions, maxIter int) ([]c26Chunk, bool) {
	var out []c26Chunk
	opts := first
	for k := 0; k < maxIter; k++ {
		src, ft, err := base.ReadMultiline(rl, opts, "")
		opts = 0
		if err != nil {
			if src != "" {
				out = append(out, c26Chunk{src, ft, err.Error()})
			}
			return out, true
		}
		out = append(out, c26Chunk{src, ft, ""})
	}
	return out, false
}

// c26Delivery names: "lines", "buf", "bufall", "multi:<a>+<b>+.."
func c26Deliver(lineTexts []string, delivery string) ([]c26Chunk, bool) {
	text := strings.Join(lineTexts, "")
	max := 4*len(lineTexts) + 8
	switch {
	case delivery == "lines":
		return c26ReadAll(&c26Lines{reads: append([]string(nil), lineTexts...)}, 0, max)
	case delivery == "buf":
		return c26ReadAll(base.MakeBufReadline(bufio.NewReader(strings.NewReader(text))), 0, max)
	case delivery == "bufall":
		return c26ReadAll(base.MakeBufReadline(bufio.NewReader(strings.NewReader(text))), base.ReadOptCollectAllComments, max)
	case strings.HasPrefix(delivery, "multi:"):
		var reads []string
		i := 0
		for _, p := range strings.Split(delivery[6:], "+") {
			n := 0
			fmt.Sscan(p, &n)
			if n <= 0 || i+n > len(lineTexts) {
				return nil, false
			}
			reads = append(reads, strings.Join(lineTexts[i:i+n], ""))
			i += n
		}
		if i != len(lineTexts) {
			return nil, false
		}
		return c26ReadAll(&c26Lines{reads: reads}, 0, max)
	}
	return nil, false
}

func c26Compositions(n int, h uint64) []string {
	if n < 2 {
		return nil
	}
	var all []string
	// every composition of n except 1+1+..+1 when n <= 3, otherwise [n] plus three seeded ones
	build := func(mask uint64) string {
		var parts []string
		run := 1
		for i := 1; i < n; i++ {
			if mask&(1<<uint(i-1)) != 0 { // cut before line i
				parts = append(parts, fmt.Sprint(run))
				run = 1
			} else {
				run++
			}
		}
		parts = append(parts, fmt.Sprint(run))
		return "multi:" + strings.Join(parts, "+")
	}
	full := uint64(1)<<uint(n-1) - 1
	if n <= 3 {
		for m := uint64(0); m < full; m++ {
			all = append(all, build(m))
		}
		return all
	}
	seen := map[uint64]bool{0: true}
	all = append(all, build(0))
	for k := 0; k < 3; k++ {
		h = h*6364136223846793005 + 1442695040888963407
		m := (h >> 20) & full
		if m == full || seen[m] {
			continue
		}
		seen[m] = true
		all = append(all, build(m))
	}
	return all
}

// ---------------------------------------------------------------------------
// the check of one (input, rendering, delivery)

type c26Case struct {
	Rec      c26Rec   `json:"rec"`
	Variant  int      `json:"variant"`
	Delivery string   `json:"delivery"`
	Text     []string `json:"text"`
}

type c26Finding struct {
	Sig, What string
}

var c26ParsePool = sync.Pool{New: func() interface{} { return base.NewGlobals() }}

func c26ParsesAlone(chunk string) (ok bool, msg string) {
	g := c26ParsePool.Get().(*base.Globals)
	defer func() {
		if r := recover(); r != nil {
			ok, msg = false, fmt.Sprint(r)
			return
		}
		c26ParsePool.Put(g)
	}()
	g.ParseBytes([]byte(chunk))
	return true, ""
}

func c26LineHasLineComment(ti int) bool {
	t := c26Templates[ti-1]
	return len(t) > 0 && (t[len(t)-1].K == "lcmt" || t[len(t)-1].K == "shebang")
}

// c26Check runs one delivery and returns the first disagreement with the specification.
func c26Check(cs *c26Case) *c26Finding {
	rec := &cs.Rec
	text := strings.Join(cs.Text, "")
	chunks, terminated := c26Deliver(cs.Text, cs.Delivery)
	show := func() string {
		var parts []string
		for _, ch := range chunks {
			s := fmt.Sprintf("%q", ch.Src)
			if ch.Err != "" {
				s += "(" + ch.Err + ")"
			}
			parts = append(parts, s)
		}
		return strings.Join(parts, " | ")
	}
	head := fmt.Sprintf("input %q, delivery %s: chunks %s", text, cs.Delivery, show())
	if !terminated {
		return &c26Finding{"reader-does-not-reach-EOF", head}
	}
	var cat strings.Builder
	for _, ch := range chunks {
		cat.WriteString(ch.Src)
	}
	lossy := cat.String() != c26GoText(text)
	// line end offsets
	lineEnd := map[int]int{}
	off := 0
	for i, lt := range cs.Text {
		off += len(lt)
		lineEnd[off] = i
	}
	// which Read (for multi-line Reads) holds each line
	readOf := make([]int, len(cs.Text))
	if strings.HasPrefix(cs.Delivery, "multi:") {
		i := 0
		for ri, p := range strings.Split(cs.Delivery[6:], "+") {
			n := 0
			fmt.Sscan(p, &n)
			for k := 0; k < n && i < len(readOf); k++ {
				readOf[i] = ri
				i++
			}
		}
	}
	// spec-level predicate of the known multi-line-Read defect: between lines a..b some Read
	// holds a line ending in a // comment followed by another line of the same Read
	multi := strings.HasPrefix(cs.Delivery, "multi:")
	multiCmt := func(a, b int) bool {
		for k := a; multi && k < b && k+1 < len(readOf); k++ {
			if readOf[k] == readOf[k+1] && c26LineHasLineComment(rec.Lines[k]) {
				return true
			}
		}
		return false
	}
	if lossy {
		sig := "chunks-not-lossless"
		if multiCmt(0, len(readOf)-1) {
			sig = "SigLineCommentInsideMultiLineRead:chunks-not-lossless"
		}
		return &c26Finding{sig, head + fmt.Sprintf("; concatenation %q differs from the input", cat.String())}
	}
	if rec.Neg {
		return nil // a closing bracket without an opening one: only losslessness is specified
	}
	pos := 0
	start := 0 // first line of the current chunk
	for _, ch := range chunks {
		pos += len(ch.Src)
		if ch.Err != "" {
			continue // forced by the end of the input
		}
		li, ok := lineEnd[pos]
		if !ok {
			if ch.Src == "" {
				continue
			}
			return &c26Finding{"chunk-ends-inside-line", head}
		}
		e := rec.Ends[li]
		var name, shape string
		switch {
		case e.Lv == 0 && e.Mode == "raw":
			name, shape = "SigInsideRawString", "chunk-ends-inside-raw-string"
		case e.Lv == 0 && e.Mode == "cmt":
			name, shape = "SigInsideComment", "chunk-ends-inside-comment"
		case e.Lv == 0:
			name, shape = "SigInsideBracket(last="+e.Last+")", "chunk-ends-inside-bracket"
		case e.Lv == 1 && rec.Wf:
			shape = "chunk-ends-inside-statement"
			switch e.Last {
			case "dot":
				name = "SigLineEndsWithSelectorDot"
			case "colon":
				name = "SigLineEndsWithLabelColon"
			case "kwc":
				if ch.First > 0 {
					name = "SigLineEndsWithKeyword(chunk-first-token-offset>0)"
				} else {
					name = "SigLineEndsWithKeyword(chunk-first-token-offset=0)"
				}
			default:
				name = "SigLineEndsWith(" + e.Last + ")"
			}
		}
		if shape != "" {
			// narrower predicates for the two mechanisms that cut after something the reader
			// otherwise keeps together
			isCmtLine := e.First == "lcmt" || e.First == "cmt1" || e.First == "cmtopen"
			if e.Last == "slash" && isCmtLine {
				name = "SigCommentLineAfterSlashAtLineEnd"
			}
			if multiCmt(start, li) {
				name = "SigLineCommentInsideMultiLineRead"
			}
			return &c26Finding{name + ":" + shape,
				head + fmt.Sprintf("; the chunk ending after line %d (%q) ends at level %d (last item %s, mode %s, depth %d); complete-statements input: %v",
					li+1, cs.Text[li], e.Lv, e.Last, e.Mode, e.Depth, rec.Wf)}
		}
		start = li + 1
	}
	if rec.Wf {
		for _, ch := range chunks {
			if ch.First < 0 {
				continue
			}
			if ok, msg := c26ParsesAlone(ch.Src); !ok {
				return &c26Finding{"chunk-does-not-parse", head + fmt.Sprintf("; chunk %q ends at a statement boundary but gomacro's parser rejects it: %s", ch.Src, msg)}
			}
		}
	}
	return nil
}

type c26Stats struct {
	wf, gateLv, gateParse int64
}

// c26Input handles one TLC record: gate, then every rendering x delivery.
func c26Input(c *core.Ctx, rec *c26Rec, st *c26Stats) error {
	if len(rec.Lines) != len(rec.Ends) || len(rec.Lines) == 0 {
		return core.Infra("malformed record from TLC: %v", rec)
	}
	for _, ti := range rec.Lines {
		if ti < 1 || ti > len(c26Templates) {
			return core.Infra("unknown template %d", ti)
		}
	}
	nontrivial := false
	for _, e := range rec.Ends[:len(rec.Ends)-1] {
		if e.Lv < 2 {
			nontrivial = true
		}
	}
	h := fnv.New64a()
	fmt.Fprint(h, rec.Lines, c.Seed)
	comps := c26Compositions(len(rec.Lines), h.Sum64())
	if rec.Wf {
		atomic.AddInt64(&st.wf, 1)
	}
	for v := 0; v < c26Renderings; v++ {
		// quick tier: inputs of 3 and more lines get the plain rendering and one seeded other
		if !c.Thorough() && len(rec.Lines) >= 3 && v != 0 && v != 1+int(h.Sum64()%3) {
			continue
		}
		lt := c26Render(rec.Lines, v)
		text := strings.Join(lt, "")
		// gate: the standard scanner and parser must see what the specification says
		gl := c26GateLevels(lt)
		ok := true
		for i := range gl {
			if gl[i] != rec.Ends[i].Lv {
				ok = false
			}
		}
		if !ok {
			atomic.AddInt64(&st.gateLv, 1)
		}
		if ok && rec.Wf && !c26GateParses(text) {
			ok = false
			atomic.AddInt64(&st.gateParse, 1)
		}
		c.Gate(ok)
		if !ok {
			if c.GateRejects <= 3 {
				fmt.Printf("  gate reject: %q model=%v go/scanner=%v wf=%v\n", text, rec.Ends, gl, rec.Wf)
			}
			continue
		}
		for _, d := range append([]string{"lines", "buf", "bufall"}, comps...) {
			cs := &c26Case{Rec: *rec, Variant: v, Delivery: d, Text: lt}
			c.Case(d+"|"+text, nontrivial)
			c.Trace()
			if f := c26Check(cs); f != nil {
				again := c26Check(cs) // second, independent run
				if again == nil || again.Sig != f.Sig {
					return core.Infra("mismatch not reproducible: %s", f.What)
				}
				c.Violation(f.Sig, f.What, cs)
			}
		}
	}
	return nil
}

func c26RunTLC(c *core.Ctx, o core.TLCOpts, st *c26Stats) error {
	var mu sync.Mutex
	var firstErr error
	ch := make(chan []byte, 4096)
	var wg sync.WaitGroup
	sampled := int32(0)
	for w := 0; w < 6; w++ {
		wg.Add(1)
		go func() {
			defer wg.Done()
			for line := range ch {
				var rec c26Rec
				err := json.Unmarshal(line, &rec)
				if err == nil {
					if len(rec.Lines) >= 3 && rec.Wf && atomic.AddInt32(&sampled, 1) <= 2 {
						c.Sample(map[string]interface{}{"record": json.RawMessage(line), "text": c26Render(rec.Lines, 0)})
					}
					err = c26Input(c, &rec, st)
				} else {
					err = core.Infra("bad record from TLC: %v", err)
				}
				if err != nil {
					mu.Lock()
					if firstErr == nil {
						firstErr = err
					}
					mu.Unlock()
				}
			}
		}()
	}
	o.OnLine = func(line []byte) { ch <- append([]byte(nil), line...) }
	_, err := c.TLC(o)
	close(ch)
	wg.Wait()
	if err != nil {
		return err
	}
	return firstErr
}

func c26Timeout(c *core.Ctx) time.Duration {
	// (safety nets: under heavy load TLC runs several times slower)
	if c.Thorough() {
		return 40 * time.Minute
	}
	return 20 * time.Minute
}

const c26Invs = "TypeOK DepthIsStack ModeConsistent BoundaryIsComplete Emit"

func runC26(c *core.Ctx) error {
	mc := c26MC()
	st := &c26Stats{}
	c.MaxViolations = 40 // two per signature are written out
	// (M)+(R) bounded-exhaustive
	// every sequence of 3 lines over all templates; in thorough also every sequence of 4 lines
	// over the first 36 (the later ones - division before a bracket, raw tabs, an identifier
	// ending in a digit, very long lines - multiply the 4-line space by 2.4)
	if err := c26RunTLC(c, core.TLCOpts{Spec: "Reader", MCDefs: mc, CfgName: "bfs-3-lines",
		Cfg: c26Cfg(3, 0, false, true, c26Invs), Workers: 6, Timeout: c26Timeout(c)}, st); err != nil {
		return err
	}
	if c.Thorough() {
		if err := c26RunTLC(c, core.TLCOpts{Spec: "Reader", MCDefs: c26MCn(36), CfgName: "bfs-4-lines",
			Cfg: c26Cfg(4, 0, false, true, c26Invs), Workers: 6, Timeout: c26Timeout(c)}, st); err != nil {
			return err
		}
	}
	c.Exhaustive = true
	// (R) longer inputs, sampled
	depth := 6
	if err := c26RunTLC(c, core.TLCOpts{Spec: "Reader", MCDefs: mc, CfgName: "sim-6-lines",
		Cfg:      c26Cfg(depth, depth, false, true, c26Invs),
		Simulate: true, SimNum: c.Pick(60, 400), SimDepth: depth + 1, Seed: c.Seed, Workers: 4, Timeout: c26Timeout(c)}, st); err != nil {
		return err
	}
	c.Extra["complete_statement_inputs"] = st.wf
	c.Extra["gate_level_rejects"] = st.gateLv
	c.Extra["gate_parse_rejects"] = st.gateParse
	c.Assume("a Readline may return several lines in one Read (both real implementations do when the input holds U+2029); such Reads end at line ends")
	c.Assume("'#!' is only specified at the very start of the input; a chunk forced by the end of the input (error returned) is not required to end at a boundary")
	c.Assume("inputs with a closing bracket that has no opening one are only checked for losslessness")
	return nil
}

func replayC26(c *core.Ctx, raw json.RawMessage) error {
	var cs c26Case
	if err := json.Unmarshal(raw, &cs); err != nil {
		return err
	}
	if got := c26Render(cs.Rec.Lines, cs.Variant); strings.Join(got, "") != strings.Join(cs.Text, "") {
		return core.Infra("the stored text %q is not what the templates render now (%q)", cs.Text, got)
	}
	if f := c26Check(&cs); f != nil {
		c.Violation(f.Sig, f.What, &cs)
	}
	return nil
}

func selfTestC26(c *core.Ctx) error {
	mc := c26MC()
	// broken variant: brackets counted inside string literals
	r, err := c.TLC(core.TLCOpts{Spec: "Reader", MCDefs: mc, CfgName: "broken-string-brackets",
		Cfg: c26Cfg(2, 0, true, false, "DepthIsStack"), ExpectError: true, Workers: 4})
	if err != nil {
		return err
	}
	if r.Violated != "DepthIsStack" {
		return fmt.Errorf("broken variant StringBrackets=TRUE not detected by TLC (violated=%q)", r.Violated)
	}
	// a correct record is accepted, a corrupted one (boundary moved into the bracket) rejected
	rec := c26Rec{Lines: []int{3, 4, 1}, Wf: true, Ends: []c26End{
		{Lv: 0, Last: "comma", Mode: "n", Depth: 1, First: "id", Final: "comma"},
		{Lv: 2, Last: "rp", Mode: "n", Depth: 0, First: "int", Final: "rp"},
		{Lv: 2, Last: "int", Mode: "n", Depth: 0, First: "id", Final: "int"}}}
	cs := &c26Case{Rec: rec, Variant: 0, Delivery: "lines", Text: c26Render(rec.Lines, 0)}
	if f := c26Check(cs); f != nil {
		return fmt.Errorf("correct record rejected: %s", f.What)
	}
	gl := c26GateLevels(cs.Text)
	if fmt.Sprint(gl) != "[0 2 2]" {
		return fmt.Errorf("gate levels of %q = %v", cs.Text, gl)
	}
	// corrupted: pretend line 2 is inside a statement: the reader's (correct) cut there must be flagged
	bad := rec
	bad.Ends = append([]c26End(nil), rec.Ends...)
	bad.Ends[1].Lv = 1
	if f := c26Check(&c26Case{Rec: bad, Variant: 0, Delivery: "lines", Text: cs.Text}); f == nil {
		return fmt.Errorf("corrupted record accepted")
	}
	// corrupted text: losslessness must notice a '#!' that is not at the start being rewritten
	return nil
}

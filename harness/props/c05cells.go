package props

import "fmt"

// Specialisation cells of C05. gomacro generates one closure per tag kind for the switch
// dispatch shortcut (fast/switch2.go: jump slice for dense integer constants, map otherwise,
// only over the constants that precede the first non-constant case) and one loop per container
// kind and variable form for range (fast/range.go, range_map.go). The model trees of each
// family are enumerated by TLC under position constraints (PosTpl / PosPar); switch trees are
// re-rendered with every tag kind: kinds only change the rendering (conversions of the small
// non-negative ints of the model), so the expected trace is the model's.

var c05SwKinds = []string{"int", "int8", "int16", "int32", "int64", "uint", "uint8", "uint16", "uint32", "uint64", "uintptr",
	"float32", "float64", "complex64", "complex128", "string", "named", "iface"}

func c05SwitchCells() (cells []c05Cell) {
	for _, k := range c05SwKinds {
		for _, m := range []int{1, 25} {
			cells = append(cells, c05Cell{Name: fmt.Sprintf("%s*%d", k, m), SwKind: k, SwMul: m})
		}
	}
	return
}

var c05CellTemplates = []c05Tpl{
	c05T("for3", "plain", "", 4), c05T("for3", "plain", "", 5), c05T("for3", "plain", "", 6),
	c05Sw("sw.i.mixed", "sw", "i", "", c05LayMixed),
	c05Sw("tsw.nobind.x.f", "tsw", "nobind", "x", c05TLayF), c05Sw("tsw.bind.x.g", "tsw", "bind", "x", c05TLayG),
	c05Sw("tsw.bind.x.h", "tsw", "bind", "x", c05TLayH), c05Sw("tsw.nobind.x.e", "tsw", "nobind", "x", c05TLayE),
	c05Sw("tsw.bind.x.d", "tsw", "bind", "x", c05TLayD),
}

func c05CellConfigs() []*c05Cfg {
	all := append(c05AllTemplates(true), c05CellTemplates...)
	var rngs []string
	for _, t := range all {
		if t.K == "rng" {
			rngs = append(rngs, t.Nm)
		}
	}
	fams := []c05Fam{
		// for i := 0; i < 5; i++ { switch K(i) { case 1: case 2, 3: fallthrough; default: case 4: } }
		{Name: "switch-const", Expand: "kinds2", PT: [][]string{{"for3.plain.5"}, {"sw.i.dense"}}, PP: []int{1, 2}},
		// y = 4; the same loop over a table mixing constants and the variable y
		{Name: "switch-mixed", Expand: "kinds2", PT: [][]string{{"as.y+=2"}, {"as.y+=2"}, {"for3.plain.5"}, {"sw.i.mixed"}}, PP: []int{1, 1, 1, 4}},
		// for ... { switch K(evi(x, id)) {...}; x++ }: tag with a side effect, evaluated once
		{Name: "switch-evi", Expand: "kinds1", PT: [][]string{{"for3.plain.4"}, {"sw.evi.mid"}, {"as.x++"}}, PP: []int{1, 2, 2}},
		// no tag / boolean tag
		{Name: "switch-notag-bool", PT: [][]string{{"for3.plain.4"}, {"sw.none.a", "sw.bool.a", "sw.bool.b"}, {"as.x++"}}, PP: []int{1, 2, 2}},
		// for ... 6 times { switch [v :=] c05any[x%6].(type) { <layout> }; x++ }: every dynamic type
		// meets every layout, among them interface cases placed before concrete ones
		{Name: "type-switch", PT: [][]string{{"for3.plain.6"}, {"tsw.bind.x.a", "tsw.bind.x.d", "tsw.bind.x.e", "tsw.nobind.x.e", "tsw.nobind.x.f",
			"tsw.bind.x.g", "tsw.bind.x.h", "tsw.nobind.x.h"}, {"as.x++"}}, PP: []int{1, 2, 2}},
		// for o := 0; o < 2; o++ { for <vars> range <container> { x++; if x < 2 { J }; ev } }
		// J in break, continue, continue <inner|outer label>, mutation of the container
		{Name: "range", PT: [][]string{{"for3.plain.2"}, rngs, {"as.x++"}, {"if.plain.x<2.1"}, {"brk", "cnt", "cntL", "mut"}, {"tr"}}, PP: []int{1, 2, 3, 3, 5, 3}},
	}
	// jumps that leave 2 to 6 scopes, each with variables of its own (a frame per scope in
	// gomacro: Comp.jumpOut unwinds them, with unrolled cases for the first few counts):
	// L: for ... { <scope> { <scope> { <scope> { <scope> { J } } } }; ev }   J leaves 1..5 of them
	scopes := []string{"blk.shadow", "if.init.1", "for3.capt.2", "rng.kv.slice"}
	deep := []c05Fam{
		{Name: "deep-jump-3", PT: [][]string{{"for3.plain.2"}, scopes, scopes, {"brk", "cnt", "brkL", "cntL"}, {"tr"}}, PP: []int{1, 2, 3, 4, 2}},
		{Name: "deep-jump-4", PT: [][]string{{"for3.plain.2"}, scopes, {"blk.shadow", "if.init.1"}, scopes, {"brk", "cnt", "brkL", "cntL"}, {"tr"}}, PP: []int{1, 2, 3, 4, 5, 2}},
		{Name: "deep-jump-5", PT: [][]string{{"for3.plain.2"}, {"blk.shadow", "rng.kv.slice"}, {"if.init.1"}, {"blk.shadow", "for3.capt.2"}, {"blk.shadow", "if.init.1"},
			{"brk", "cnt", "brkL", "cntL"}, {"tr"}}, PP: []int{1, 2, 3, 4, 5, 6, 2}},
	}
	return []*c05Cfg{{Name: "cells", MaxNodes: 6, MaxDepth: 3, Jumps: []string{"brk", "cnt", "cntL"}, Fams: fams, Workers: 4,
		Tpls: c05Pick(all, append([]string{"for3.plain.2", "for3.plain.4", "for3.plain.5", "as.x++", "as.y+=2", "if.plain.x<2.1", "tr", "mut",
			"sw.i.dense", "sw.i.mixed", "sw.evi.mid", "sw.none.a", "sw.bool.a", "sw.bool.b", "for3.plain.6",
			"tsw.bind.x.a", "tsw.bind.x.d", "tsw.bind.x.e", "tsw.nobind.x.e", "tsw.nobind.x.f", "tsw.bind.x.g", "tsw.bind.x.h", "tsw.nobind.x.h"}, rngs...)...)},
		{Name: "deep", MaxNodes: 8, MaxDepth: 7, Jumps: []string{"brk", "cnt", "brkL", "cntL"}, Fams: deep, Workers: 4,
			Tpls: c05Pick(all, "for3.plain.2", "for3.capt.2", "blk.shadow", "if.init.1", "rng.kv.slice", "tr")}}
}

// c05ExpandCells re-renders the switch families for every tag-kind cell.
func c05ExpandCells(g *c05Cfg, items []c05Item) []c05Item {
	var out []c05Item
	for _, it := range items {
		ex := g.Fams[it.rec.Fam-1].Expand
		if ex == "" {
			out = append(out, it)
			continue
		}
		for _, cell := range c05SwitchCells() {
			if ex == "kinds1" && cell.SwMul != 1 {
				continue
			}
			out = append(out, c05Item{rec: it.rec, raw: it.raw, cell: cell})
		}
	}
	return out
}

package props

import (
	"encoding/json"
	"fmt"
	"hash/fnv"
	"regexp"
	"strconv"
	"strings"
	"sync"
)

// Rendering of a Stmt.tla statement tree as one Go function, and of the model's log as the
// expected ev() strings. The renderer never computes an expected value: it only spells the
// model's events in the projection of harness/show.

// the dynamic types of the type switches: int, string, bool, nil and two COMPILED types that
// implement the compiled interface fmt.Stringer (an interpreted interface as case of a switch
// over interface{} would be an interface-to-interface assertion on interpreted interfaces:
// documented limitation)
const c05PreludeDecls = `var c05any = []interface{}{7, "s", true, nil, time.Duration(4), time.Month(5)}
var c05nil chan int
type c05Int int
`

const c05Prelude = "import \"time\"\n" + c05PreludeDecls
const c05GatePrelude = "var _ = time.Now\n" + c05PreludeDecls

// c05Cell: renderer-supplied specialisation of the switch statements of a tree.
type c05Cell struct {
	Name   string `json:"name"`
	SwKind string `json:"sw_kind"` // "" = int tag as the model has it
	SwMul  int    `json:"sw_mul"`  // constants and tag multiplied (sparse case tables)
}

var c05CaseFeatures = map[string][]string{}
var c05FeatMu sync.Mutex

type c05R struct {
	rec    *c05Rec
	cell   c05Cell
	hidden []string
	b      strings.Builder
}

func (r *c05R) nd(id int) *c05Node { return &r.rec.Nodes[id-1] }

func (r *c05R) hide(decl string) {
	for _, h := range r.hidden {
		if h == decl {
			return
		}
	}
	r.hidden = append(r.hidden, decl)
}

// name of the innermost loop variable visible from a statement whose parent is p
func (r *c05R) loopVar(p int) string {
	for a := p; a != 0; a = r.nd(a).P {
		n := r.nd(a)
		if n.K == "for3" || (n.K == "rng" && (n.F == "kv" || n.F == "k" || n.F == "kvc")) {
			return fmt.Sprintf("i%d", a)
		}
	}
	return "MISSING_LOOP_VAR"
}

func (r *c05R) cond(c string, p int) string {
	switch c {
	case "x<2":
		return "x < 2"
	case "x<1":
		return "x < 1"
	case "x==y":
		return "x == y"
	case "y%2==0":
		return "y%2 == 0"
	case "x!=y":
		return "x != y"
	case "i<1":
		return r.loopVar(p) + " < 1"
	case "true":
		return "true"
	case "false":
		return "false"
	}
	return "BAD_COND"
}

// expression of kind k from the int expression e
func c05To(k, e string) string {
	switch k {
	case "", "int":
		return e
	case "string":
		return "fmt.Sprint(" + e + ")"
	case "complex64":
		return "complex(float32(" + e + "), 0)"
	case "complex128":
		return "complex(float64(" + e + "), 0)"
	case "named":
		return "c05Int(" + e + ")"
	case "iface":
		return "interface{}(" + e + ")"
	}
	return k + "(" + e + ")"
}

func c05Lit(k string, v int) string {
	if k == "string" {
		return strconv.Quote(fmt.Sprint(v))
	}
	return fmt.Sprint(v)
}

func (r *c05R) mul(e string) string {
	if r.cell.SwMul > 1 {
		return "(" + e + ")*" + fmt.Sprint(r.cell.SwMul)
	}
	return e
}

func (r *c05R) line(ind int, format string, a ...interface{}) {
	r.b.WriteString(strings.Repeat("\t", ind))
	fmt.Fprintf(&r.b, format, a...)
	r.b.WriteByte('\n')
}

func (r *c05R) block(id, sl, ind int, extra string) {
	n := r.nd(id)
	if extra == "-" {
		// the function body: no entry event
	} else if extra != "" {
		r.line(ind, "%s", extra)
	} else if r.rec.Auto {
		r.line(ind, "ev(%d, %d)", id, sl)
	}
	for _, ch := range n.B[sl-1] {
		r.stmt(ch, ind)
	}
}

func (r *c05R) labels(id, ind int, pre []string) {
	n := r.nd(id)
	if n.Lg {
		r.line(ind-1, "G%d:", id)
	}
	for _, p := range pre {
		r.line(ind, "%s", p)
	}
	if n.Lj {
		r.line(ind-1, "L%d:", id)
	}
}

func (r *c05R) stmt(id, ind int) {
	n := r.nd(id)
	switch n.K {
	case "tr":
		r.labels(id, ind, nil)
		r.line(ind, "ev(%d, x, y)", id)
	case "as":
		r.labels(id, ind, nil)
		switch n.F {
		case "x++":
			r.line(ind, "x++")
		case "y=x+y":
			r.line(ind, "y = (x + y) %% 8")
		case "x=y":
			r.line(ind, "x = y")
		case "y+=2":
			r.line(ind, "y += 2")
		case "x+=i":
			r.line(ind, "x += %s", r.loopVar(n.P))
		}
	case "mut":
		r.labels(id, ind, nil)
		for a := n.P; a != 0; a = r.nd(a).P {
			if c := r.nd(a); c.K == "rng" {
				switch c.C {
				case "slice":
					r.line(ind, "k%d[2] = 9", a)
					r.line(ind, "k%d = append(k%d, 9)", a, a)
				case "array", "ptrarray":
					r.line(ind, "k%d[2] = 9", a)
				case "string":
					r.line(ind, "k%d = \"zz\"", a)
				}
				break
			}
		}
	case "if":
		r.labels(id, ind, nil)
		if n.F == "init" {
			r.line(ind, "if t%d := x + 1; t%d > 1 {", id, id)
		} else {
			r.line(ind, "if %s {", r.cond(n.C, n.P))
		}
		r.block(id, 1, ind+1, "")
		if len(n.B) == 2 {
			if !r.rec.Auto && len(n.B[1]) == 1 && r.nd(n.B[1][0]).K == "if" && !r.nd(n.B[1][0]).Lg && !r.nd(n.B[1][0]).Lj {
				// else-if chain
				r.b.WriteString(strings.Repeat("\t", ind) + "} else ")
				var sub c05R = c05R{rec: r.rec, cell: r.cell, hidden: r.hidden}
				sub.stmt(n.B[1][0], ind)
				r.hidden = sub.hidden
				r.b.WriteString(strings.TrimLeft(sub.b.String(), "\t"))
				return
			}
			r.line(ind, "} else {")
			r.block(id, 2, ind+1, "")
		}
		r.line(ind, "}")
	case "blk":
		r.labels(id, ind, nil)
		r.line(ind, "{")
		if n.F == "shadow" {
			r.line(ind+1, "x := x + 1")
			r.line(ind+1, "_ = x")
		}
		r.block(id, 1, ind+1, "")
		r.line(ind, "}")
	case "for3":
		var pre []string
		if n.F == "capt" {
			r.hide(fmt.Sprintf("var f%d []func() int", id))
			pre = append(pre, fmt.Sprintf("f%d = nil", id))
		}
		r.labels(id, ind, pre)
		r.line(ind, "for i%d := 0; i%d < %d; i%d++ {", id, id, n.N, id)
		if n.F == "capt" {
			r.line(ind+1, "f%d = append(f%d, func() int { return i%d })", id, id, id)
		}
		r.block(id, 1, ind+1, "")
		r.line(ind, "}")
		if n.F == "capt" {
			r.line(ind, "for _, f := range f%d {", id)
			r.line(ind+1, "ev(%d, f())", id)
			r.line(ind, "}")
		}
	case "forc":
		r.hide(fmt.Sprintf("var c%d int", id))
		r.labels(id, ind, []string{fmt.Sprintf("c%d = 0", id)})
		if n.F == "cond" {
			r.line(ind, "for c%d < %d {", id, n.N)
			r.line(ind+1, "c%d++", id)
		} else {
			r.line(ind, "for {")
			r.line(ind+1, "if c%d >= %d {", id, n.N)
			r.line(ind+2, "break")
			r.line(ind+1, "}")
			r.line(ind+1, "c%d++", id)
		}
		r.block(id, 1, ind+1, "")
		r.line(ind, "}")
	case "rng":
		r.rng(id, ind)
	case "sw":
		r.sw(id, ind)
	case "tsw":
		r.labels(id, ind, nil)
		sel := fmt.Sprintf("c05any[%s%%6]", n.C)
		if n.F == "bind" {
			r.line(ind, "switch v%d := %s.(type) {", id, sel)
		} else {
			r.line(ind, "switch %s.(type) {", sel)
		}
		names := []string{"int", "string", "bool", "nil", "time.Duration", "time.Month", "fmt.Stringer", "interface{}"}
		for j, cl := range n.Lay {
			if cl.Def {
				r.line(ind, "default:")
			} else {
				var ts []string
				for _, tm := range cl.Ts {
					ts = append(ts, names[tm.V])
				}
				r.line(ind, "case %s:", strings.Join(ts, ", "))
			}
			if n.F == "bind" && c05ClauseIsStr(cl) {
				// the variable has the type fmt.Stringer: observe it through its method
				r.block(id, j+1, ind+1, fmt.Sprintf("ev(%d, %d, v%d.String())", id, j+1, id))
			} else if n.F == "bind" {
				r.block(id, j+1, ind+1, fmt.Sprintf("ev(%d, %d, v%d)", id, j+1, id))
			} else {
				r.block(id, j+1, ind+1, fmt.Sprintf("ev(%d, %d)", id, j+1))
			}
		}
		r.line(ind, "}")
	case "sel":
		r.sel(id, ind)
	case "brk", "cnt":
		r.labels(id, ind, nil)
		w := "break"
		if n.K == "cnt" {
			w = "continue"
		}
		if n.T != 0 {
			r.line(ind, "%s L%d", w, n.T)
		} else {
			r.line(ind, "%s", w)
		}
	case "goto":
		r.hide(fmt.Sprintf("var g%d int", id))
		r.labels(id, ind, nil)
		r.line(ind, "if g%d < %d {", id, r.rec.Lim)
		r.line(ind+1, "g%d++", id)
		r.line(ind+1, "goto G%d", n.T)
		r.line(ind, "}")
	case "ret":
		r.labels(id, ind, nil)
		r.line(ind, "return x, y")
	}
}

func (r *c05R) rng(id, ind int) {
	n := r.nd(id)
	var pre []string
	k := fmt.Sprintf("k%d", id)
	over := k
	switch n.C {
	case "slice":
		r.hide("var " + k + " []int")
		pre = append(pre, k+" = []int{4, 5, 6}")
	case "array":
		r.hide("var " + k + " [3]int")
		pre = append(pre, k+" = [3]int{4, 5, 6}")
	case "ptrarray":
		r.hide("var " + k + " [3]int")
		pre = append(pre, k+" = [3]int{4, 5, 6}")
		over = "&" + k
	case "string":
		r.hide("var " + k + " string")
		pre = append(pre, k+" = \"a\\u00e9b\"")
	case "map0":
		r.hide("var " + k + " map[int]int")
		pre = append(pre, k+" = map[int]int{}")
	case "map1":
		r.hide("var " + k + " map[int]int")
		pre = append(pre, k+" = map[int]int{2: 5}")
	case "map2":
		r.hide("var " + k + " map[int]int")
		pre = append(pre, k+" = map[int]int{1: 3, 2: 4}")
	case "chan":
		r.hide("var " + k + " chan int")
		pre = append(pre, k+" = make(chan int, 2)", k+" <- 8", k+" <- 9", "close("+k+")")
	}
	iv, vv := fmt.Sprintf("i%d", id), fmt.Sprintf("v%d", id)
	vshow := vv
	if n.C == "string" {
		vshow = "int(" + vv + ")"
	}
	var head, event, capt string
	switch n.F {
	case "kv", "kvc":
		head = fmt.Sprintf("for %s, %s := range %s {", iv, vv, over)
		event = fmt.Sprintf("ev(%d, 1, %s, %s)", id, iv, vshow)
		if n.F == "kvc" {
			r.hide(fmt.Sprintf("var f%d []func() int", id))
			pre = append(pre, fmt.Sprintf("f%d = nil", id))
			capt = fmt.Sprintf("f%d = append(f%d, func() int { return %s })", id, id, vshow)
		}
	case "k":
		head = fmt.Sprintf("for %s := range %s {", iv, over)
		event = fmt.Sprintf("ev(%d, 1, %s)", id, iv)
	case "v":
		head = fmt.Sprintf("for _, %s := range %s {", vv, over)
		event = fmt.Sprintf("ev(%d, 1, %s)", id, vshow)
	case "none":
		head = fmt.Sprintf("for range %s {", over)
		event = fmt.Sprintf("ev(%d, 1)", id)
	case "kv=":
		r.hide("var rk int")
		if n.C == "string" {
			r.hide("var rr rune")
			head = fmt.Sprintf("for rk, rr = range %s {", over)
			event = fmt.Sprintf("ev(%d, 1, rk, int(rr))", id)
		} else {
			r.hide("var rv int")
			head = fmt.Sprintf("for rk, rv = range %s {", over)
			event = fmt.Sprintf("ev(%d, 1, rk, rv)", id)
		}
	case "k=":
		r.hide("var rk int")
		head = fmt.Sprintf("for rk = range %s {", over)
		event = fmt.Sprintf("ev(%d, 1, rk)", id)
	}
	r.labels(id, ind, pre)
	r.line(ind, "%s", head)
	if capt != "" {
		r.line(ind+1, "%s", capt)
	}
	r.block(id, 1, ind+1, event)
	r.line(ind, "}")
	if n.F == "kvc" {
		r.line(ind, "for _, f := range f%d {", id)
		r.line(ind+1, "ev(%d, f())", id)
		r.line(ind, "}")
	}
}

func (r *c05R) sw(id, ind int) {
	n := r.nd(id)
	r.labels(id, ind, nil)
	kind := r.cell.SwKind
	var head string
	switch n.F {
	case "x", "y", "x+y":
		e := map[string]string{"x": "x", "y": "y", "x+y": "x + y"}[n.F]
		head = "switch " + c05To(kind, r.mul(e)) + " {"
	case "i":
		head = "switch " + c05To(kind, r.mul(r.loopVar(n.P))) + " {"
	case "evi":
		head = "switch " + c05To(kind, r.mul(fmt.Sprintf("evi(x, %d)", id))) + " {"
	case "init":
		head = fmt.Sprintf("switch t%d := %s; t%d {", id, c05To(kind, r.mul("x + 1")), id)
	case "none":
		head = "switch {"
	case "bool":
		head = "switch x < 2 {"
	}
	r.line(ind, "%s", head)
	for j, cl := range n.Lay {
		if cl.Def {
			r.line(ind, "default:")
		} else {
			var ts []string
			for _, tm := range cl.Ts {
				switch {
				case n.F == "none":
					ts = append(ts, r.cond(tm.Cf, n.P))
				case n.F == "bool":
					ts = append(ts, fmt.Sprint(tm.V == 1))
				case tm.Ty == "c":
					m := 1
					if r.cell.SwMul > 1 {
						m = r.cell.SwMul
					}
					ts = append(ts, c05Lit(kind, tm.V*m))
				case tm.Ty == "y":
					ts = append(ts, c05To(kind, r.mul("y")))
				case tm.Ty == "e":
					ts = append(ts, c05To(kind, r.mul(fmt.Sprintf("evi(%d, %d, %d)", tm.V, id, j+1))))
				}
			}
			r.line(ind, "case %s:", strings.Join(ts, ", "))
		}
		r.block(id, j+1, ind+1, "")
		if cl.Ft {
			r.line(ind+1, "fallthrough")
		}
	}
	r.line(ind, "}")
}

func (r *c05R) sel(id, ind int) {
	n := r.nd(id)
	h := fmt.Sprintf("h%d", id)
	var pre []string
	if n.F != "d" {
		r.hide("var " + h + " chan int")
	}
	recv := func(sl int, from string) {
		r.line(ind, "case v%d := <-%s:", id, from)
		r.block(id, sl, ind+1, fmt.Sprintf("ev(%d, %d, v%d)", id, sl, id))
	}
	def := func(sl int) {
		r.line(ind, "default:")
		r.block(id, sl, ind+1, fmt.Sprintf("ev(%d, %d)", id, sl))
	}
	switch n.F {
	case "rd1", "r1":
		pre = []string{h + " = make(chan int, 1)", h + " <- 5"}
	case "rd0", "sd1", "sx1":
		pre = []string{h + " = make(chan int, 1)"}
	case "sd0", "sx0":
		pre = []string{h + " = make(chan int, 1)", h + " <- 1"}
	case "rr":
		pre = []string{h + " = make(chan int, 1)", h + " <- 6"}
	case "rc":
		pre = []string{h + " = make(chan int)", "close(" + h + ")"}
	}
	r.labels(id, ind, pre)
	r.line(ind, "select {")
	switch n.F {
	case "d":
		def(1)
	case "rd1", "rd0":
		recv(1, h)
		def(2)
	case "r1":
		recv(1, h)
	case "sd1", "sd0", "sx1", "sx0":
		if n.F[1] == 'x' {
			r.line(ind, "case %s <- x:", h)
		} else {
			r.line(ind, "case %s <- 3:", h)
		}
		r.block(id, 1, ind+1, fmt.Sprintf("ev(%d, 1)", id))
		def(2)
	case "rr":
		recv(1, "c05nil")
		recv(2, h)
	case "rc":
		r.line(ind, "case v%d, ok%d := <-%s:", id, id, h)
		r.block(id, 1, ind+1, fmt.Sprintf("ev(%d, 1, v%d, ok%d)", id, id, id))
		def(2)
	}
	r.line(ind, "}")
}

var c05TypeShow = []string{"int:7", `string:"s"`, "bool:true", "nil", "int64:4", "int:5"}
var c05StrShow = map[int]string{4: `string:"4ns"`, 5: `string:"May"`}

// c05ClauseIsStr: the clause lists the interface { String() string } alone, so the variable
// bound by the type switch has that type
func c05ClauseIsStr(cl c05Clause) bool {
	return !cl.Def && len(cl.Ts) == 1 && cl.Ts[0].V == 6
}

func c05Ints(e []interface{}) string {
	parts := make([]string, len(e))
	for i, x := range e {
		parts[i] = fmt.Sprintf("int:%d", num(x))
	}
	return strings.Join(parts, " ")
}

// c05Render renders one model behaviour with the given cell.
func c05Render(rec *c05Rec, cell c05Cell, raw []byte) *ProgCase {
	r := &c05R{rec: rec, cell: cell}
	r.block(1, 1, 1, "-")
	body := r.b.String()
	var src strings.Builder
	src.WriteString("\tx, y := 0, 0\n")
	for _, h := range r.hidden {
		src.WriteString("\t" + h + "\n")
	}
	src.WriteString(body)
	src.WriteString("\treturn x, y\n}\n")
	h := fnv.New64a()
	h.Write([]byte(src.String()))
	key := fmt.Sprintf("%016x", h.Sum64())
	name := "p" + key
	pc := &ProgCase{Key: key, Decls: "func " + name + "() (int, int) {\n" + src.String(), Entry: name + "()"}
	for i, n := range rec.Nodes {
		if i > 0 && len(n.B) > 0 {
			pc.Nontrivial = true
		}
	}
	for _, e := range rec.Log {
		if len(e) == 0 {
			continue
		}
		switch e[0] {
		case "ts":
			ty := num(e[3])
			shown := c05TypeShow[ty]
			if nd, j := num(e[1]), num(e[2]); nd >= 1 && nd <= len(rec.Nodes) && j >= 1 && j <= len(rec.Nodes[nd-1].Lay) && c05ClauseIsStr(rec.Nodes[nd-1].Lay[j-1]) {
				shown = c05StrShow[ty]
			}
			pc.WantEvents = append(pc.WantEvents, c05Ints(e[1:3])+" "+shown)
		case "so":
			pc.WantEvents = append(pc.WantEvents, c05Ints(e[1:4])+" bool:"+fmt.Sprint(num(e[4]) != 0))
		default:
			pc.WantEvents = append(pc.WantEvents, c05Ints(e[1:]))
		}
	}
	if len(rec.Outcome) == 3 {
		pc.WantResult = fmt.Sprintf("[int:%d, int:%d]", num(rec.Outcome[1]), num(rec.Outcome[2]))
	}
	wr, _ := json.Marshal(map[string]interface{}{"rec": rec, "cell": cell})
	pc.Raw = wr
	c05FeatMu.Lock()
	c05CaseFeatures[key] = c05Features(rec, cell)
	c05FeatMu.Unlock()
	return pc
}

var c05RePos = regexp.MustCompile(`[a-zA-Z_.]+\.go:\d+:\d+: `)
var c05ReIdent = regexp.MustCompile(`\b[A-Za-z]+\d+\b`)

// c05Path: the innermost compound statement (with its forms) enclosing node id, followed by
// the node's own kind when it is a simple statement.
func c05Path(rec *c05Rec, id int) string {
	if id <= 1 || id > len(rec.Nodes) {
		return "func"
	}
	leaf := ""
	a := id
	if len(rec.Nodes[a-1].B) == 0 {
		leaf = ">" + rec.Nodes[a-1].K
		a = rec.Nodes[a-1].P
	}
	if a <= 1 {
		return "func" + leaf
	}
	n := rec.Nodes[a-1]
	s := n.K
	switch n.K {
	case "rng":
		s += "[" + n.C + "," + n.F + "]"
	case "sw", "tsw", "sel", "for3", "forc", "blk", "if":
		s += "[" + n.F + "]"
	}
	return s + leaf
}

// c05AtFuncLevel: statement id belongs to the function body itself, looking through plain
// blocks that hold a single statement and no declaration (gomacro's macro expander replaces
// such a block by its statement, so for the interpreter the statement IS at function level).
func c05AtFuncLevel(rec *c05Rec, id int) bool {
	for p := rec.Nodes[id-1].P; p != 1; p = rec.Nodes[p-1].P {
		n := rec.Nodes[p-1]
		if !(n.K == "blk" && n.F == "plain" && len(n.B[0]) == 1 && !rec.Auto) {
			return false
		}
	}
	return true
}

// c05Sig: "stmt(<innermost constructs on the path of the first differing event>):<shape>".
func c05Sig(pc *ProgCase, events []string, result string) string {
	var wr struct {
		Rec  c05Rec  `json:"rec"`
		Cell c05Cell `json:"cell"`
	}
	json.Unmarshal(pc.Raw, &wr)
	rec := &wr.Rec
	cellsfx := ""
	if wr.Cell.SwKind != "" {
		cellsfx = "@" + wr.Cell.SwKind
	}
	if strings.HasPrefix(result, "declpanic(") {
		msg := strings.TrimSuffix(strings.TrimPrefix(result, "declpanic("), ")")
		msg = strings.TrimPrefix(msg, "error:")
		msg = c05RePos.ReplaceAllString(msg, "")
		if i := strings.IndexByte(msg, '\n'); i >= 0 {
			msg = msg[:i]
		}
		msg = c05ReIdent.ReplaceAllString(msg, "N")
		if len(msg) > 60 {
			msg = msg[:60]
		}
		ctx := strings.ReplaceAll(strings.TrimSpace(msg), " ", "-")
		// which statement is the compiler talking about
		switch {
		case strings.Contains(msg, "goto label not found"):
			lvl := "nested-label"
			for _, n := range rec.Nodes {
				if n.K == "goto" && c05AtFuncLevel(rec, n.T) {
					lvl = "func-level-label"
				}
			}
			ctx = "goto>" + lvl
		case strings.Contains(msg, "in channel send"):
			ctx = "sel[send-untyped-constant]"
		case strings.Contains(msg, "containLocalBinds() returned false"):
			ctx = "labelled-select-in-block-without-declarations"
		case strings.Contains(msg, "break outside"):
			ctx = "brk>nested-select"
			for i, n := range rec.Nodes {
				if n.K == "sel" && c05AtFuncLevel(rec, i+1) {
					ctx = "brk>func-level-select"
				}
			}
		case strings.Contains(msg, "break label not defined"):
			ctx = "brkL>nested-select"
			for _, n := range rec.Nodes {
				if n.K == "brk" && n.T != 0 && rec.Nodes[n.T-1].K == "sel" && c05AtFuncLevel(rec, n.T) {
					ctx = "brkL>func-level-select"
				}
			}
		}
		return "stmt(" + ctx + cellsfx + "):compile-error"
	}
	// node of an event string of the model, by position in the expected log
	nodeOf := func(i int) int {
		if i < 0 || i >= len(rec.Log) {
			return 1
		}
		e := rec.Log[i]
		if e[0] == "e" {
			return num(e[2])
		}
		return num(e[1])
	}
	i := 0
	for i < len(events) && i < len(pc.WantEvents) && events[i] == pc.WantEvents[i] {
		i++
	}
	if pc.Admissible != nil {
		i = len(pc.WantEvents)
	}
	// the shape of the FIRST divergence: a different or extra event, events missing because
	// of a panic, or (same trace) a different result
	isPanic := strings.HasPrefix(result, "panic(")
	if strings.HasPrefix(result, "diverged(") {
		// the replay was cut by the event / time bound: the interpreter does not terminate
		j := i
		if j >= len(pc.WantEvents) {
			j = len(pc.WantEvents) - 1
		}
		return "stmt(" + c05Path(rec, nodeOf(j)) + cellsfx + "):diverges"
	}
	shape := "trace-differs"
	at := i
	switch {
	case i == len(events) && i == len(pc.WantEvents):
		shape = "result-differs"
		if isPanic {
			shape = "panics"
		}
		at = i - 1
	case i == len(events) && isPanic:
		shape = "panics"
	case i >= len(pc.WantEvents):
		at = len(pc.WantEvents) - 1
	}
	return "stmt(" + c05Path(rec, nodeOf(at)) + cellsfx + "):" + shape
}

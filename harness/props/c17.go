package props

import (
	"encoding/json"
	"fmt"
	"go/ast"
	goparser "go/parser"
	"go/token"
	"go/types"
	"math/rand"
	"os"
	"path/filepath"
	"sort"
	"strings"
	"sync"
	"sync/atomic"
	"time"

	"github.com/cosmos72/gomacro/base/dep"
	"github.com/cosmos72/gomacro/go/etoken"
	mp "github.com/cosmos72/gomacro/go/parser"

	"verif/harness/core"
)

// C17: the dependency sorter (base/dep). Spec: spec/front/DepSort.tla.
// (M) TLC checks the sort (small step on n <= 3 and on the layouts, big step = every outcome
//     of the small-step relation elsewhere): permutation, topological w.r.t. free references,
//     min-position rule, forward declarations only for types on cycles, phase boundaries,
//     loop error iff a cycle survives forward type declarations, determinism.
// (R) every emitted declaration graph is rendered as Go source (several seeded renderings),
//     parsed with gomacro's parser and sorted 20 times by dep.Sorter; the (kind, name, position)
//     list must be one of the outcomes of the specification.
// (G) go/types must accept the rendered declarations iff the specification says they are valid
//     Go, and report a cycle otherwise.

func init() {
	core.Register(&core.Prop{
		ID: "C17",
		Rule: "TLC enumerates declaration graphs (kinds const/var/func/type, free references restricted to what Go's typing allows, shadowed references by param/result/:=/var/range/type-switch/if-for-switch init, layouts with package clause, import, non-declaration separator, trailing statement): " +
			"every graph on <= 3 declarations, every graph on 4 declarations with a bounded number of references, graphs on 5 by seeded simulation; each graph is rendered 1-3 times (seeded placement of each reference in initializer / function literal / type expression / signature / function body at block depth 0..3, seeded extra shadowed references, grouping, iota) " +
			"and sorted 20 times; a case = one rendering; non-trivial = the graph has at least one free or shadowed reference; distinct by source text",
		Run:      runC17,
		Replay:   replayC17,
		SelfTest: selfTestC17,
		Sub:      func(args []string) int { return c17SubMain("C17", args) },
	})
}

// ---------------------------------------------------------------- TLC configurations

type c17Cfg struct {
	Name        string
	MaxN, MinN  int
	MaxE, MaxSh int
	Step        bool
	Layouts     string // TLA+ set expression
	Hows        string
	Kinds       string
	Invs        string
	Sim         bool
	SimNum      int
	Renderings  int
	ExtraShPct  int // probability (percent) that the harness adds shadowed references
	Stride      int // keep 1 of Stride records (seeded), 1 = all
	TieBreak    string
	CountSh     bool
	EmitOff     bool
}

const c17AllInvs = "TypeOK Permutation Topological FwdLegal MinRule PhaseOrder LoopIff Deterministic OutcomesOK Emit"
const c17BigInvs = "TypeOK Deterministic OutcomesOK Emit"
const c17HowSet = `{"param","result","define","var","range","tswitch","ifinit","forinit","switchinit"}`
const c17Trivial = "{TrivialLayout}"

func c17LayoutSet(all bool) string {
	maxCut := 1
	if all {
		maxCut = 2
	}
	var ls []string
	for _, pkg := range []string{"FALSE", "TRUE"} {
		for _, imp := range []string{"FALSE", "TRUE"} {
			for _, tail := range []string{"FALSE", "TRUE"} {
				ls = append(ls, fmt.Sprintf(`[pkg |-> %s, imp |-> %s, cut |-> 0, sep |-> "none", tail |-> %s]`, pkg, imp, tail))
				for cut := 1; cut <= maxCut; cut++ {
					for _, sep := range []string{"stmt", "expr", "import", "pkg"} {
						ls = append(ls, fmt.Sprintf(`[pkg |-> %s, imp |-> %s, cut |-> %d, sep |-> "%s", tail |-> %s]`, pkg, imp, cut, sep, tail))
					}
				}
			}
		}
	}
	return "{" + strings.Join(ls, ",\n ") + "}"
}

func c17NameRank(seed int64) []int {
	rng := rand.New(rand.NewSource(seed*7919 + 17))
	p := rng.Perm(6)
	for i := range p {
		p[i]++
	}
	// name order must differ from source order already on the first declarations: the broken
	// tie-break variant has to be distinguishable in the smallest configurations
	if p[0] < p[1] {
		p[0], p[1] = p[1], p[0]
	}
	return p
}

func c17TLCOpts(cf c17Cfg, rank []int, seed int64) core.TLCOpts {
	var rs []string
	for _, x := range rank {
		rs = append(rs, fmt.Sprint(x))
	}
	lay := cf.Layouts
	if lay == "" {
		lay = c17Trivial
	}
	hows := cf.Hows
	if hows == "" {
		hows = c17HowSet
	}
	tb := cf.TieBreak
	if tb == "" {
		tb = "pos"
	}
	kinds := cf.Kinds
	if kinds == "" {
		kinds = `{"const","var","func","type"}`
	}
	up := func(b bool) string { return strings.ToUpper(fmt.Sprint(b)) }
	invs := cf.Invs
	if invs == "" {
		if cf.Step {
			invs = c17AllInvs
		} else {
			invs = c17BigInvs
		}
	}
	mc := fmt.Sprintf("c_Layouts == %s\nc_NameRank == <<%s>>\nc_Hows == %s\n", lay, strings.Join(rs, ","), hows)
	cfg := fmt.Sprintf("SPECIFICATION Spec\nCONSTANTS\n MaxN = %d\n MinN = %d\n MaxE = %d\n MaxSh = %d\n Kinds = %s\n ShadowHows <- c_Hows\n Layouts <- c_Layouts\n NameRank <- c_NameRank\n TieBreak = \"%s\"\n CountShadowed = %s\n StepSort = %s\n EmitOn = %s\nINVARIANTS %s\n",
		cf.MaxN, cf.MinN, cf.MaxE, cf.MaxSh, kinds, tb, up(cf.CountSh), up(cf.Step), up(!cf.EmitOff), invs)
	// (the largest configuration needs ~1 min of TLC on an idle machine; the generous limit only
	// matters when the machine is heavily oversubscribed)
	o := core.TLCOpts{Spec: "DepSort", MCDefs: mc, Cfg: cfg, CfgName: cf.Name, Workers: 6, HeapMB: 3000, Timeout: 45 * time.Minute}
	if cf.Sim {
		o.Simulate = true
		o.SimNum = cf.SimNum
		o.SimDepth = 40
		o.Seed = seed
	}
	return o
}

func c17Configs(c *core.Ctx) []c17Cfg {
	if c.Thorough() {
		return []c17Cfg{
			{Name: "n<=3-all-graphs-smallstep", MaxN: 3, MinN: 1, MaxE: 9, Step: true, Renderings: 3, ExtraShPct: 50, Stride: 1},
			{Name: "n<=3-shadowed-refs", MaxN: 3, MinN: 2, MaxE: 9, MaxSh: 1, Renderings: 1, Stride: 1},
			{Name: "layouts-smallstep", MaxN: 3, MinN: 2, MaxE: 2, Step: true, Layouts: c17LayoutSet(true), Renderings: 1, ExtraShPct: 30, Stride: 1},
			{Name: "n=4-upto-5-refs", MaxN: 4, MinN: 4, MaxE: 5, Renderings: 1, ExtraShPct: 40, Stride: 1},
			{Name: "n=5-simulation", MaxN: 5, MinN: 5, MaxE: 9, MaxSh: 2, Sim: true, SimNum: 2500, Renderings: 2, ExtraShPct: 30, Stride: 1},
		}
	}
	return []c17Cfg{
		{Name: "n<=3-all-graphs-smallstep", MaxN: 3, MinN: 1, MaxE: 9, Step: true, Renderings: 2, ExtraShPct: 50, Stride: 1},
		{Name: "n<=3-shadowed-refs", MaxN: 3, MinN: 2, MaxE: 2, MaxSh: 1, Renderings: 1, Stride: 4},
		{Name: "layouts-smallstep", MaxN: 3, MinN: 2, MaxE: 1, Step: true, Layouts: c17LayoutSet(false), Kinds: `{"var","func","type"}`, Renderings: 1, ExtraShPct: 30, Stride: 2},
		{Name: "n=4-upto-2-refs", MaxN: 4, MinN: 4, MaxE: 2, Renderings: 1, ExtraShPct: 40, Stride: 3},
		{Name: "n=5-simulation", MaxN: 5, MinN: 5, MaxE: 9, MaxSh: 2, Sim: true, SimNum: 70, Renderings: 1, ExtraShPct: 30, Stride: 1},
	}
}

// ---------------------------------------------------------------- observation of the real sorter

type c17Item struct {
	Kind string `json:"kind"`
	Name string `json:"name"`
	Pos  int    `json:"pos"`
}

type c17Run struct {
	Loop  bool      `json:"loop,omitempty"`
	Panic string    `json:"panic,omitempty"` // any panic other than the declaration loop error
	Items []c17Item `json:"items,omitempty"`
}

func (r c17Run) String() string {
	if r.Loop {
		return "declaration-loop error"
	}
	if r.Panic != "" {
		return "panic: " + r.Panic
	}
	var ps []string
	for _, it := range r.Items {
		ps = append(ps, fmt.Sprintf("%s %s@%d", it.Kind, it.Name, it.Pos))
	}
	return "[" + strings.Join(ps, ", ") + "]"
}

type c17Obs struct {
	Hang     bool                `json:"hang,omitempty"`
	ParseErr string              `json:"parse_err,omitempty"`
	Runs     int                 `json:"runs"`
	First    c17Run              `json:"first"`
	Differ   *c17Run             `json:"differ,omitempty"` // a later sort of the same input that differed
	Deps     map[string][]string `json:"deps,omitempty"`   // name -> names, as extracted by dep.Scope
}

func c17Parse(src string) ([]ast.Node, error) {
	var p mp.Parser
	fset := etoken.NewFileSet()
	p.Init(fset, "c17.go", 0, []byte(src))
	return p.Parse()
}

func c17SortOnce(nodes []ast.Node) (run c17Run) {
	defer func() {
		if r := recover(); r != nil {
			msg := fmt.Sprint(r)
			if strings.Contains(msg, "declaration loop") {
				run = c17Run{Loop: true}
			} else {
				if len(msg) > 200 {
					msg = msg[:200]
				}
				run = c17Run{Panic: msg}
			}
		}
	}()
	s := dep.NewSorter()
	s.LoadNodes(nodes)
	for _, d := range s.All() {
		name := d.Name
		if strings.HasPrefix(name, "<") {
			name = ""
		}
		run.Items = append(run.Items, c17Item{d.Kind.String(), name, int(d.Pos)})
	}
	return run
}

func c17ScopeDeps(nodes []ast.Node) (deps map[string][]string) {
	defer func() {
		if r := recover(); r != nil {
			deps = nil
		}
	}()
	sc := dep.NewScope(nil)
	sc.Nodes(nodes)
	deps = map[string][]string{}
	for name, list := range sc.Decls {
		for _, d := range list {
			deps[name] = append(deps[name], d.Deps...)
		}
	}
	return deps
}

func c17RunEqual(a, b c17Run) bool {
	if a.Loop != b.Loop || a.Panic != b.Panic || len(a.Items) != len(b.Items) {
		return false
	}
	for i := range a.Items {
		if a.Items[i] != b.Items[i] {
			return false
		}
	}
	return true
}

// c17Observe parses src with gomacro's parser and sorts it `runs` times (the last time from
// a fresh parse).
func c17Observe(src string, runs int, withDeps bool) *c17Obs {
	o := &c17Obs{Runs: runs}
	nodes, err := c17Parse(src)
	if err != nil {
		o.ParseErr = err.Error()
		return o
	}
	o.First = c17SortOnce(nodes)
	for k := 1; k < runs; k++ {
		if k == runs-1 {
			if n2, err := c17Parse(src); err == nil {
				nodes = n2
			}
		}
		r := c17SortOnce(nodes)
		if !c17RunEqual(o.First, r) {
			rr := r
			o.Differ = &rr
			break
		}
	}
	if withDeps {
		if n2, err := c17Parse(src); err == nil {
			o.Deps = c17ScopeDeps(n2)
		}
	}
	return o
}

// c17ObserveTimed protects the harness from a sorter that does not return.
func c17ObserveTimed(src string, runs int, withDeps bool, limit time.Duration) *c17Obs {
	ch := make(chan *c17Obs, 1)
	go func() { ch <- c17Observe(src, runs, withDeps) }()
	select {
	case o := <-ch:
		return o
	case <-time.After(limit):
		return &c17Obs{Hang: true, Runs: runs}
	}
}

// ---------------------------------------------------------------- expected vs observed

func c17Expected(rec *c17Rec, src *c17Src, o *c17Outcome) []c17Item {
	var items []c17Item
	for _, it := range o.Out {
		if len(it) != 2 {
			continue
		}
		tag, _ := it[0].(string)
		i := num(it[1])
		switch tag {
		case "d":
			items = append(items, c17Item{c17KindName[rec.Decls[i-1].Kind], src.Names[i], src.Pos[i]})
		case "fwd":
			items = append(items, c17Item{"TypeFwd", src.Names[i], src.Pos[i]})
		case "pkg":
			items = append(items, c17Item{"Package", "", src.ItemPos["pkg"]})
		case "imp":
			items = append(items, c17Item{"Import", "fmt", src.ItemPos["imp"]})
		case "tail":
			items = append(items, c17Item{"Stmt", "", src.ItemPos["tail"]})
		case "sep":
			switch rec.Lay.Sep {
			case "stmt":
				items = append(items, c17Item{"Stmt", "", src.ItemPos["sep"]})
			case "expr":
				items = append(items, c17Item{"Expr", "", src.ItemPos["sep"]})
			case "import":
				items = append(items, c17Item{"Import", "os", src.ItemPos["sep"]})
			case "pkg":
				items = append(items, c17Item{"Package", "", src.ItemPos["sep"]})
			}
		}
	}
	return items
}

func c17Admissible(rec *c17Rec, src *c17Src, run c17Run) bool {
	if run.Panic != "" {
		return false
	}
	for k := range rec.Outcomes {
		o := &rec.Outcomes[k]
		if o.Err {
			if run.Loop {
				return true
			}
			continue
		}
		if run.Loop {
			continue
		}
		if c17RunEqual(c17Run{Items: c17Expected(rec, src, o)}, run) {
			return true
		}
	}
	return false
}

// c17Shape names the disagreement; violated = free references whose target the sorter emitted
// after the referring declaration.
func c17Shape(rec *c17Rec, src *c17Src, obs *c17Obs) (shape string, violated [][2]int) {
	run := obs.First
	switch {
	case obs.Hang:
		return "sorter-does-not-terminate", nil
	case obs.ParseErr != "":
		return "parse-error", nil
	case run.Panic != "":
		return "unexpected-panic", nil
	case obs.Differ != nil:
		return "sorts-of-one-input-differ", nil
	case rec.allErr() && !run.Loop:
		return "missed-declaration-loop", nil
	case !rec.anyErr() && run.Loop:
		return "spurious-declaration-loop", nil
	}
	// an order that is not an outcome of the specification
	idx := map[string]int{}
	for i := 1; i <= rec.N; i++ {
		idx[src.Names[i]] = i
	}
	seenD := map[int]int{}
	seenF := map[int]int{}
	malformed := false
	for p, it := range run.Items {
		i, ok := idx[it.Name]
		switch {
		case it.Name == "" || it.Kind == "Import":
		case !ok:
			malformed = true
		case it.Kind == "TypeFwd":
			if _, dup := seenF[i]; dup || rec.Decls[i-1].Kind != "type" {
				malformed = true
			}
			seenF[i] = p
		default:
			if _, dup := seenD[i]; dup || it.Kind != c17KindName[rec.Decls[i-1].Kind] || it.Pos != src.Pos[i] {
				malformed = true
			}
			seenD[i] = p
		}
	}
	if len(seenD) != rec.N {
		malformed = true
	}
	if malformed {
		return "malformed-output", nil
	}
	runOf := func(i int) int {
		if rec.Lay.Cut > 0 && i > rec.Lay.Cut {
			return 2
		}
		return 1
	}
	for i := 1; i <= rec.N; i++ {
		for _, j := range rec.Decls[i-1].Deps {
			if j == i || runOf(i) != runOf(j) {
				continue
			}
			if seenD[j] < seenD[i] {
				continue
			}
			if f, ok := seenF[j]; ok && f < seenD[i] && rec.Decls[i-1].Kind == "type" {
				continue
			}
			violated = append(violated, [2]int{i, j})
		}
	}
	if len(violated) > 0 {
		return "dependency-emitted-after-dependent", violated
	}
	return "source-order-not-kept", nil
}

// c17DepDiff compares the references extracted by dep.Scope with the specification's.
func c17DepDiff(rec *c17Rec, src *c17Src, obs *c17Obs) (missing, phantom [][2]int) {
	if obs.Deps == nil {
		return
	}
	idx := map[string]int{}
	for i := 1; i <= rec.N; i++ {
		idx[src.Names[i]] = i
	}
	for i := 1; i <= rec.N; i++ {
		got := map[int]bool{}
		for _, nm := range obs.Deps[src.Names[i]] {
			if j, ok := idx[nm]; ok && j != i {
				got[j] = true
			}
		}
		for _, j := range rec.Decls[i-1].Deps {
			if j != i && !got[j] {
				missing = append(missing, [2]int{i, j})
			}
			delete(got, j)
		}
		for j := range got {
			phantom = append(phantom, [2]int{i, j})
		}
	}
	sort.Slice(phantom, func(a, b int) bool {
		return phantom[a][0] < phantom[b][0] || (phantom[a][0] == phantom[b][0] && phantom[a][1] < phantom[b][1])
	})
	return
}

func c17MissingLabel(rec *c17Rec, src *c17Src, e [2]int) string {
	i, j := e[0], e[1]
	pl := src.Place[e]
	nested := rec.Decls[i-1].Kind == "func" || strings.HasPrefix(pl, "funclit")
	if nested && src.TextRank[j] < src.TextRank[i] {
		// the specification-level predicate: a free reference, written inside a function
		// (literal) body or signature, to a declaration that precedes it in the source
		return "SigBackRefFromNestedScope"
	}
	if at := strings.IndexByte(pl, '@'); at >= 0 {
		pl = pl[:at]
	}
	return fmt.Sprintf("SigMissedReference(%s->%s,%s)", rec.Decls[i-1].Kind, rec.Decls[j-1].Kind, pl)
}

func c17PhantomLabel(rec *c17Rec, src *c17Src, e [2]int) string {
	for si, s := range src.Shadows {
		if s.From == e[0] && s.To == e[1] && src.ShLabel[si] != "" {
			return src.ShLabel[si]
		}
	}
	return fmt.Sprintf("SigPhantomReference(%s->%s)", rec.Decls[e[0]-1].Kind, rec.Decls[e[1]-1].Kind)
}

func c17Uniq(labels []string) []string {
	sort.Strings(labels)
	var out []string
	for i, l := range labels {
		if i == 0 || l != labels[i-1] {
			out = append(out, l)
		}
	}
	return out
}

func c17Join(labels []string) string {
	out := c17Uniq(labels)
	if len(out) == 0 {
		return "SigNone(references-extracted-as-specified)"
	}
	return strings.Join(out, "+")
}

var c17KnownOnce sync.Once
var c17Known map[string]bool

// c17Report files a confirmed disagreement. sig is "<predicates joined by +>:<shape>". When
// several predicates are each necessary (no single one reproduces the disagreement) the case is
// explained by known findings only if every "<predicate>:<shape>" is an open known finding.
func c17Report(c *core.Ctx, sig, what string, cs interface{}) {
	c17KnownOnce.Do(func() {
		c17Known = map[string]bool{}
		b, err := os.ReadFile(filepath.Join(c.Verif, "known_findings.json"))
		if err != nil {
			return
		}
		var f struct {
			Findings []core.Finding `json:"findings"`
		}
		if json.Unmarshal(b, &f) == nil {
			for _, x := range f.Findings {
				if x.Status == "open" {
					c17Known[x.Property+"|"+x.Signature] = true
				}
			}
		}
	})
	if k := strings.LastIndexByte(sig, ':'); k > 0 && strings.Contains(sig[:k], "+") {
		shape := sig[k:]
		parts := strings.Split(sig[:k], "+")
		all := true
		for _, p := range parts {
			if !c17Known[c.ID+"|"+p+shape] {
				all = false
			}
		}
		if all {
			c.Violation(parts[0]+shape, what, cs)
			return
		}
	}
	c.Violation(sig, what, cs)
}

type c17Case struct {
	Cfg    string    `json:"config"`
	Rec    *c17Rec   `json:"record"`
	Choice c17Choice `json:"choice"`
	Source string    `json:"source,omitempty"`
}

const c17Runs = 20

// wall-clock safety net for sorts made in-process (20 sorts take ~1 ms; an expiry is first
// re-examined in a child process under the CPU-time watchdog, never reported directly)
const c17InProcLimit = 2 * time.Minute

// CPU-time limit of one sorter job in a child process (see c17ChildMain)
const c17ChildCPU = 700 * time.Millisecond

// c17Signature = specification-level predicate over the case + shape of the disagreement.
// `observe` re-observes a source (used to minimise the set of shadowed references).
func c17Signature(cs *c17Case, src *c17Src, obs *c17Obs, observe func(string) *c17Obs) (sig, shape string) {
	rec := cs.Rec
	shape, violated := c17Shape(rec, src, obs)
	missing, phantom := c17DepDiff(rec, src, obs)
	var labels []string
	switch shape {
	case "sorter-does-not-terminate":
		if rec.Mixed {
			labels = []string{"SigMixedCycle(type+nontype)"}
		}
	case "sorts-of-one-input-differ":
		if rec.TypeCycle {
			labels = []string{"SigTypeCycle(two-or-more-types)"}
		} else if !rec.Acyclic {
			labels = []string{"SigCycle"}
		}
	case "missed-declaration-loop", "dependency-emitted-after-dependent":
		inMissing := func(e [2]int) bool {
			for _, m := range missing {
				if m == e {
					return true
				}
			}
			return false
		}
		if len(violated) > 0 {
			for _, e := range violated {
				if inMissing(e) {
					labels = append(labels, c17MissingLabel(rec, src, e))
				}
			}
		}
		if len(labels) == 0 {
			for _, e := range missing {
				labels = append(labels, c17MissingLabel(rec, src, e))
			}
		}
	case "spurious-declaration-loop", "source-order-not-kept":
		for _, e := range phantom {
			labels = append(labels, c17PhantomLabel(rec, src, e))
		}
		if len(phantom) > 1 && observe != nil {
			// minimise: does one shadowed reference alone reproduce a disagreement?
			for si, s := range src.Shadows {
				hit := false
				for _, e := range phantom {
					if e == [2]int{s.From, s.To} {
						hit = true
					}
				}
				if !hit {
					continue
				}
				ch := cs.Choice
				only := si
				ch.OnlySh = &only
				src1 := c17Render(rec, &ch)
				o1 := observe(src1.Text)
				if o1 != nil && !o1.Hang && o1.Differ == nil && !c17Admissible(rec, src1, o1.First) {
					sh1, _ := c17Shape(rec, src1, o1)
					if sh1 == "spurious-declaration-loop" || sh1 == "source-order-not-kept" {
						shape = sh1
						labels = []string{src1.ShLabel[si]}
						break
					}
				}
			}
		}
		if len(phantom) == 0 {
			for _, e := range missing {
				labels = append(labels, c17MissingLabel(rec, src, e))
			}
		}
	}
	return c17Join(labels) + ":" + shape, shape
}

func c17Describe(cs *c17Case, src *c17Src, obs *c17Obs) string {
	rec := cs.Rec
	var b strings.Builder
	if rec.allErr() {
		b.WriteString("specification: declaration-loop error")
	} else {
		b.WriteString("specification admits: ")
		for k := range rec.Outcomes {
			if k > 0 {
				b.WriteString("  |  ")
			}
			if k >= 3 {
				fmt.Fprintf(&b, "... (%d outcomes)", len(rec.Outcomes))
				break
			}
			if rec.Outcomes[k].Err {
				b.WriteString("declaration-loop error")
			} else {
				b.WriteString(c17Run{Items: c17Expected(rec, src, &rec.Outcomes[k])}.String())
			}
		}
	}
	b.WriteString("\nobserved (dep.Sorter.All): ")
	switch {
	case obs.Hang:
		b.WriteString("no result (the sorter did not return)")
	case obs.ParseErr != "":
		b.WriteString("parse error " + obs.ParseErr)
	default:
		b.WriteString(obs.First.String())
		if obs.Differ != nil {
			b.WriteString("\n  and, for the same input, " + obs.Differ.String())
		}
	}
	missing, phantom := c17DepDiff(rec, src, obs)
	for _, e := range missing {
		fmt.Fprintf(&b, "\n  dep.Scope misses the free reference %s -> %s (%s)", src.Names[e[0]], src.Names[e[1]], src.Place[e])
	}
	for _, e := range phantom {
		fmt.Fprintf(&b, "\n  dep.Scope counts the shadowed reference %s -> %s [%s]", src.Names[e[0]], src.Names[e[1]], c17PhantomLabel(rec, src, e))
	}
	b.WriteString("\nsource:\n" + src.Text)
	return b.String()
}

// ---------------------------------------------------------------- Go gate (go/types)

var c17CycleWords = []string{"initialization cycle", "invalid recursive type", "invalid cycle", "refers to"}

// c17GoTypes type-checks `package p` + decls; returns (valid, onlyCycleErrors, first error).
func c17GoTypes(decls string) (valid, cycleOnly bool, first string) {
	fset := token.NewFileSet()
	f, err := goparser.ParseFile(fset, "p.go", "package p\n"+decls, 0)
	if err != nil {
		return false, false, "parse: " + err.Error()
	}
	var errs []string
	conf := types.Config{Error: func(e error) { errs = append(errs, e.Error()) }}
	conf.Check("p", fset, []*ast.File{f}, nil)
	if len(errs) == 0 {
		return true, false, ""
	}
	cycleOnly = true
	for _, e := range errs {
		msg := e
		if k := strings.Index(msg, ": "); k >= 0 {
			msg = msg[k+2:]
		}
		if strings.HasPrefix(msg, "\t") {
			continue
		}
		ok := false
		for _, w := range c17CycleWords {
			if strings.Contains(msg, w) {
				ok = true
			}
		}
		if !ok {
			cycleOnly = false
			if first == "" {
				first = e
			}
		}
	}
	if first == "" {
		first = errs[0]
	}
	return false, cycleOnly, first
}

// c17Gate: the specification's GoValid against go/types. false = specification defect.
func c17Gate(rec *c17Rec, src *c17Src) (ok bool, why string) {
	valid, cycleOnly, first := c17GoTypes(src.DeclText)
	switch {
	case valid:
		if rec.GoValid == "no" {
			return false, "specification says Go rejects the set (cycle through a variable or constant), go/types accepts it"
		}
	case rec.GoValid == "yes":
		return false, "specification says valid Go, go/types: " + first
	case !cycleOnly:
		return false, "go/types reports something other than a cycle: " + first
	}
	return true, ""
}

// ---------------------------------------------------------------- the run

func c17MakeChoice(rec *c17Rec, cf *c17Cfg, rank []int, seed int64, key string, k int) c17Choice {
	ch := c17Choice{Seed: int64(c17Hash(seed, fmt.Sprintf("%s|%d", key, k)) >> 1), NameRank: rank}
	if cf.ExtraShPct > 0 && c17Pick(ch.Seed, "xs", 100) < cf.ExtraShPct {
		have := append([]c17Shadow(nil), rec.Sh...)
		want := 1 + c17Pick(ch.Seed, "xsn", 2)
		for t := 0; t < 12 && len(ch.ExtraSh) < want; t++ {
			s := c17Shadow{From: 1 + c17Pick(ch.Seed, fmt.Sprintf("xf%d", t), rec.N), To: 1 + c17Pick(ch.Seed, fmt.Sprintf("xt%d", t), rec.N),
				How: c17AllHows[c17Pick(ch.Seed, fmt.Sprintf("xh%d", t), len(c17AllHows))]}
			if c17ShadowOK(rec, have, s) {
				have = append(have, s)
				ch.ExtraSh = append(ch.ExtraSh, s)
			}
		}
	}
	return ch
}

func c17RefCount(rec *c17Rec) int {
	n := len(rec.Sh)
	for _, d := range rec.Decls {
		n += len(d.Deps)
	}
	return n
}

type c17Runner struct {
	c        *core.Ctx
	mu       sync.Mutex
	err      error
	risky    []*c17Case // hang-prone class: observed in child processes
	hangs    int64
	gateShow int32
	abort    int32
}

func (rn *c17Runner) fail(err error) {
	rn.mu.Lock()
	if rn.err == nil {
		rn.err = err
	}
	rn.mu.Unlock()
}

// judge compares one observed case with the specification and reports.
func (rn *c17Runner) judge(cs *c17Case, src *c17Src, obs *c17Obs, reobserve func(string) *c17Obs) {
	c := rn.c
	rec := cs.Rec
	if obs.ParseErr != "" {
		rn.fail(core.Infra("gomacro's parser rejects a rendered source (renderer defect?): %s\n%s", obs.ParseErr, src.Text))
		return
	}
	if !obs.Hang && obs.Differ == nil && c17Admissible(rec, src, obs.First) {
		return
	}
	sig, _ := c17Signature(cs, src, obs, reobserve)
	cs.Source = src.Text
	c17Report(c, sig, c17Describe(cs, src, obs), cs)
}

func (rn *c17Runner) one(cs *c17Case) {
	c := rn.c
	rec := cs.Rec
	src := c17Render(rec, &cs.Choice)
	nontrivial := len(src.Shadows) > 0
	for _, d := range rec.Decls {
		if len(d.Deps) > 0 {
			nontrivial = true
		}
	}
	c.Case(src.Text, nontrivial)
	// Go gate
	ok, why := c17Gate(rec, src)
	c.Gate(ok)
	if !ok {
		if atomic.AddInt32(&rn.gateShow, 1) <= 3 {
			fmt.Printf("GATE-REJECT property=%s (specification disagrees with go/types; case dropped): %s\n  source:\n    %s\n", c.ID, why, strings.ReplaceAll(src.DeclText, "\n", "\n    "))
		}
		return
	}
	if rec.Mixed {
		rn.mu.Lock()
		rn.risky = append(rn.risky, cs)
		rn.mu.Unlock()
		return
	}
	c.Trace()
	obs := c17ObserveTimed(src.Text, c17Runs, false, c17InProcLimit)
	if obs.Hang {
		// confirm in a child process; the stuck goroutine cannot be stopped: end the run
		atomic.StoreInt32(&rn.abort, 1)
		res, err := c17Children("C17", []interface{}{c17Job{Src: src.Text, Runs: c17Runs}}, 2*c17ChildCPU)
		if err != nil || len(res) != 1 || !res[0].Hang {
			rn.fail(core.Infra("sorter timed out in-process but not in a child process: %v", err))
			return
		}
		rn.judge(cs, src, obs, nil)
		rn.fail(core.Infra("run ended early: dep.Sorter did not return on an input outside the hang-prone class"))
		return
	}
	if !obs.Hang && obs.Differ == nil && c17Admissible(rec, src, obs.First) {
		return
	}
	// confirm with a second, independent observation
	obs2 := c17ObserveTimed(src.Text, c17Runs, true, c17InProcLimit)
	if !obs2.Hang && obs2.Differ == nil && c17Admissible(rec, src, obs2.First) && obs.Differ == nil {
		rn.fail(core.Infra("disagreement not reproducible: %s", c17Describe(cs, src, obs)))
		return
	}
	if obs.Differ != nil {
		obs2 = obs
	}
	rn.judge(cs, src, obs2, func(s string) *c17Obs { return c17ObserveTimed(s, 3, true, c17InProcLimit) })
}

// riskyPhase observes the hang-prone cases in child processes (killed by a watchdog).
func (rn *c17Runner) riskyPhase() {
	c := rn.c
	cases := rn.risky
	maxHangs := int64(c.Pick(8, 40))
	skipped := int64(0)
	// rounds of up to four children; the batch handed to one child grows while nothing hangs
	// (a child that hangs is lost with its start-up cost) and the class is abandoned at maxHangs
	processed := 0
	size := 8
	for processed < len(cases) && atomic.LoadInt64(&rn.hangs) < maxHangs && rn.err == nil {
		n := 4 * size
		if n > len(cases)-processed {
			n = len(cases) - processed
		}
		var jobs [][]*c17Case
		for lo := processed; lo < processed+n; lo += size {
			hi := lo + size
			if hi > processed+n {
				hi = processed + n
			}
			jobs = append(jobs, cases[lo:hi])
		}
		before := atomic.LoadInt64(&rn.hangs)
		core.ParDo(len(jobs), 4, func(b int) {
			if atomic.LoadInt64(&rn.hangs) >= maxHangs {
				atomic.AddInt64(&skipped, int64(len(jobs[b])))
				return
			}
			var js []interface{}
			var srcs []*c17Src
			for _, cs := range jobs[b] {
				src := c17Render(cs.Rec, &cs.Choice)
				srcs = append(srcs, src)
				js = append(js, c17Job{Src: src.Text, Runs: c17Runs})
			}
			res, err := c17Children("C17", js, c17ChildCPU)
			if err != nil {
				rn.fail(err)
				return
			}
			for k, cs := range jobs[b] {
				c.Trace()
				var obs c17Obs
				if res[k].Hang {
					// confirm with a generous limit (20 sorts of a 5-line source take ~1 ms)
					r2, err := c17Children("C17", js[k:k+1], 3*time.Second)
					if err != nil {
						rn.fail(err)
						return
					}
					if !r2[0].Hang {
						res[k] = r2[0]
					}
				}
				if res[k].Hang {
					atomic.AddInt64(&rn.hangs, 1)
					obs = c17Obs{Hang: true, Runs: c17Runs}
				} else if err := json.Unmarshal(res[k].Obs, &obs); err != nil {
					rn.fail(core.Infra("bad child observation: %v", err))
					return
				}
				rn.judge(cs, srcs[k], &obs, func(s string) *c17Obs {
					r, err := c17Children("C17", []interface{}{c17Job{Src: s, Runs: 3}}, c17ChildCPU)
					if err != nil || len(r) != 1 {
						return nil
					}
					if r[0].Hang {
						return &c17Obs{Hang: true}
					}
					var o c17Obs
					if json.Unmarshal(r[0].Obs, &o) != nil {
						return nil
					}
					return &o
				})
			}
		})
		processed += n
		if atomic.LoadInt64(&rn.hangs) == before && size < 64 {
			size *= 2
		}
	}
	skipped += int64(len(cases) - processed)
	if skipped > 0 {
		c.Extra["hang_prone_cases_skipped"] = skipped
		c.Assume(fmt.Sprintf("after %d confirmed non-terminating sorts the remaining cases of the hang-prone class (cycle through a type and a non-type) are not executed", maxHangs))
	}
	c.Extra["hang_prone_cases"] = len(cases)
	c.Extra["sorter_hangs"] = atomic.LoadInt64(&rn.hangs)
}

func runC17(c *core.Ctx) error {
	rank := c17NameRank(c.Seed)
	rn := &c17Runner{c: c}
	exhaustive := true
	nsample := 0
	for _, cf := range c17Configs(c) {
		cf := cf
		lines := make(chan []byte, 4096)
		var wg sync.WaitGroup
		var seq int64
		for w := 0; w < 10; w++ {
			wg.Add(1)
			go func() {
				defer wg.Done()
				for line := range lines {
					if atomic.LoadInt32(&rn.abort) != 0 {
						continue
					}
					var rec c17Rec
					if err := json.Unmarshal(line, &rec); err != nil {
						rn.fail(core.Infra("bad record from TLC: %v: %.200s", err, line))
						continue
					}
					key := string(line)
					if cf.Stride > 1 && c17Pick(c.Seed, key, cf.Stride) != 0 {
						continue
					}
					for k := 0; k < cf.Renderings; k++ {
						ch := c17MakeChoice(&rec, &cf, rank, c.Seed, key, k)
						cs := &c17Case{Cfg: cf.Name, Rec: &rec, Choice: ch}
						if rec.N == cf.MaxN && c17RefCount(&rec) >= 2 && atomic.CompareAndSwapInt64(&seq, 0, 1) {
							src := c17Render(&rec, &ch)
							c.Sample(map[string]interface{}{"config": cf.Name, "record": json.RawMessage(line), "source": src.Text})
						}
						rn.one(cs)
					}
				}
			}()
		}
		o := c17TLCOpts(cf, rank, c.Seed)
		o.OnLine = func(line []byte) { lines <- append([]byte(nil), line...) }
		_, err := c.TLC(o)
		close(lines)
		wg.Wait()
		if err != nil {
			return err
		}
		if rn.err != nil {
			return rn.err
		}
		if cf.Stride > 1 {
			exhaustive = false
		}
		nsample++
	}
	rn.riskyPhase()
	if rn.err != nil {
		return rn.err
	}
	c.Exhaustive = exhaustive
	c.Assume("dep.Scope's extracted references are read only to name a disagreement (signature); the verdict compares dep.Sorter.All() with the specification's outcomes")
	c.Assume("methods, multi-value var declarations, labels and composite-literal keys (documented limitation) are not generated")
	return nil
}

func replayC17(c *core.Ctx, raw json.RawMessage) error {
	var cs c17Case
	if err := json.Unmarshal(raw, &cs); err != nil || cs.Rec == nil {
		return core.Infra("bad replay case: %v", err)
	}
	src := c17Render(cs.Rec, &cs.Choice)
	fmt.Printf("source:\n%s\n", src.Text)
	res, err := c17Children("C17", []interface{}{c17Job{Src: src.Text, Runs: c17Runs}}, 2*c17ChildCPU)
	if err != nil {
		return err
	}
	var obs c17Obs
	if res[0].Hang {
		obs = c17Obs{Hang: true, Runs: c17Runs}
	} else if err := json.Unmarshal(res[0].Obs, &obs); err != nil {
		return core.Infra("bad child observation: %v", err)
	}
	rn := &c17Runner{c: c}
	rn.judge(&cs, src, &obs, nil)
	return rn.err
}

func selfTestC17(c *core.Ctx) error {
	rank := c17NameRank(c.Seed)
	// (M) broken variant 1: tie-break by name instead of source position
	cf := c17Cfg{Name: "broken-tiebreak-by-name", MaxN: 3, MinN: 1, MaxE: 2, Step: true, TieBreak: "name", Invs: "MinRule", EmitOff: true}
	o := c17TLCOpts(cf, rank, c.Seed)
	o.ExpectError = true
	r, err := c.TLC(o)
	if err != nil {
		return err
	}
	if r.Violated != "MinRule" {
		return fmt.Errorf("broken variant TieBreak=name not detected by TLC (violated=%q)\n%s", r.Violated, r.Output)
	}
	// (M) broken variant 2: shadowed references counted as dependencies
	cf = c17Cfg{Name: "broken-shadowed-refs-count", MaxN: 2, MinN: 2, MaxE: 1, MaxSh: 1, CountSh: true, Invs: "OutcomesOK", EmitOff: true}
	o = c17TLCOpts(cf, rank, c.Seed)
	o.ExpectError = true
	r, err = c.TLC(o)
	if err != nil {
		return err
	}
	if r.Violated != "OutcomesOK" {
		return fmt.Errorf("broken variant CountShadowed not detected by TLC (violated=%q)\n%s", r.Violated, r.Output)
	}
	// (R) a correct record is accepted, a corrupted one rejected
	// (every reference points forward in the source: independent of the open findings)
	raw := `{"n":3,"decls":[{"kind":"var","deps":[2,3],"k":1,"cyc":[]},{"kind":"func","deps":[3],"k":2,"cyc":[]},{"kind":"const","deps":[],"k":4,"cyc":[]}],"sh":[],"lay":{"pkg":false,"imp":false,"cut":0,"sep":"none","tail":false},"outcomes":[{"err":false,"out":[["d",3],["d",2],["d",1]]}],"govalid":"yes","vals":[11,6,4],"mixed":false,"funccycle":false,"acyclic":true}`
	var rec c17Rec
	if err := json.Unmarshal([]byte(raw), &rec); err != nil {
		return err
	}
	ch := c17Choice{Seed: 5, NameRank: rank}
	src := c17Render(&rec, &ch)
	obs := c17ObserveTimed(src.Text, c17Runs, true, c17InProcLimit)
	if obs.Hang || !c17Admissible(&rec, src, obs.First) {
		return fmt.Errorf("correct record rejected: %s", c17Describe(&c17Case{Rec: &rec, Choice: ch}, src, obs))
	}
	if ok, why := c17Gate(&rec, src); !ok {
		return fmt.Errorf("gate rejects a correct record: %s", why)
	}
	bad := rec
	bad.Outcomes = []c17Outcome{{Out: [][]interface{}{{"d", 1.0}, {"d", 2.0}, {"d", 3.0}}}}
	if c17Admissible(&bad, src, obs.First) {
		return fmt.Errorf("corrupted record (source order instead of dependency order) accepted")
	}
	bad2 := rec
	bad2.GoValid = "no"
	if ok, _ := c17Gate(&bad2, src); ok {
		return fmt.Errorf("gate accepts a record whose validity flag is corrupted")
	}
	return nil
}

package props

import (
	"encoding/json"
	"fmt"
	"go/importer"
	"go/token"
	stdtypes "go/types"
	"os"
	"path/filepath"
	"runtime"
	"sort"
	"strings"
	"time"

	gtypes "github.com/cosmos72/gomacro/go/types"

	"verif/harness/core"
)

// C30 corpus (V): standard-library packages loaded offline with the source importer are
// converted with types.Converter and both sides projected with the projections of the replay
// (c30std.go / c30fork.go). For the corpus the specification contributes the RULE TABLE (the
// isomorphism Converter.tla proves: same exported names, object kinds, exact constant values,
// canonical type structure and printed types, and for every named type reachable from the
// package the same underlying structure, declared methods and method sets; every named type
// converted once; no interface left incomplete) rather than a transition system.
// Two usages of the real converter: a fresh Converter per package, and ONE Converter for all
// packages in order (what xreflect.Importer does: it keeps its Converter for its lifetime).

var c30QuickPkgs = []string{"fmt", "strings", "sort", "io", "bytes", "errors", "time", "sync", "os", "bufio",
	"math", "unicode", "strconv", "reflect", "regexp", "net/url", "encoding/json", "container/list", "text/template", "path/filepath"}

type c30CorpusCase struct {
	Kind  string   `json:"kind"` // "corpus"
	Mode  string   `json:"mode"` // "fresh" | "shared"
	Pkg   string   `json:"pkg"`
	Order []string `json:"order,omitempty"` // shared mode: the packages converted before, in order
}

// c30StdPackages lists the importable standard packages under GOROOT/src.
func c30StdPackages() []string {
	root := filepath.Join(runtime.GOROOT(), "src")
	if r, err := filepath.EvalSymlinks(root); err == nil {
		root = r // (a symlink on this system; Walk does not follow links)
	}
	var out []string
	filepath.Walk(root, func(p string, info os.FileInfo, err error) error {
		if err != nil {
			return nil
		}
		if info.IsDir() {
			b := info.Name()
			if p != root && (b == "internal" || b == "vendor" || b == "cmd" || b == "testdata" || strings.HasPrefix(b, "_") || strings.HasPrefix(b, ".")) {
				return filepath.SkipDir
			}
			return nil
		}
		if strings.HasSuffix(p, ".go") && !strings.HasSuffix(p, "_test.go") {
			rel, _ := filepath.Rel(root, filepath.Dir(p))
			rel = filepath.ToSlash(rel)
			if rel != "." && (len(out) == 0 || out[len(out)-1] != rel) {
				out = append(out, rel)
			}
		}
		return nil
	})
	sort.Strings(out)
	var uniq []string
	for i, p := range out {
		if i == 0 || out[i-1] != p {
			uniq = append(uniq, p)
		}
	}
	return uniq
}

func c30Shape(typ string) string {
	for _, pre := range []string{"struct", "func", "iface", "map", "chan", "[]", "*", "["} {
		if strings.HasPrefix(typ, pre) {
			if pre == "[" {
				return "array"
			}
			return pre
		}
	}
	if strings.Contains(typ, ".") {
		return "named"
	}
	return "basic"
}

// c30CorpusExpect turns the projection of the original package into the expectation:
// exported, non-generic objects; non-generic named types.
func c30CorpusExpect(sp *c30Proj) (objs map[string]c30ObjProj, named map[string]*c30NamedProj, shapes map[string]string, skipped int) {
	objs = map[string]c30ObjProj{}
	named = map[string]*c30NamedProj{}
	shapes = map[string]string{}
	for _, o := range sp.Objs {
		if !token.IsExported(o.Name) {
			continue
		}
		if o.Kind != "const" && o.Kind != "var" && o.Kind != "func" && o.Kind != "type" {
			continue // builtins of package unsafe: not objects the property speaks about
		}
		if strings.Contains(o.Type, "GENERIC") {
			skipped++
			continue
		}
		objs[o.Name] = o
		shapes[o.Name] = c30Shape(o.Type)
	}
	for k, n := range sp.Named {
		if n.Panic != "" || strings.Contains(n.Und, "GENERIC") || strings.Contains(strings.Join(n.Methods, ";"), "GENERIC") {
			skipped++
			continue
		}
		named[k] = n
		shapes["named "+k] = c30Shape(n.Und)
		if n.Late {
			shapes["named "+k] = "met-in-method-signature"
		}
	}
	return
}

type c30CorpusRun struct {
	c       *core.Ctx
	skipped int
	objects int
	nameds  int
}

// one converts one package with conv and compares; returns the disagreements.
func (cr *c30CorpusRun) one(conv *gtypes.Converter, pkg *stdtypes.Package, mode string, count bool) (diffs []c30Diff) {
	var out *gtypes.Package
	var panicked string
	c30Capture(func() {
		defer func() {
			if e := recover(); e != nil {
				panicked = c28PanicText(e)
			}
		}()
		out = conv.Package(pkg)
	})
	where := fmt.Sprintf("package %s (%s converter)", pkg.Path(), mode)
	if panicked != "" {
		shape := "-"
		if strings.Contains(panicked, "generic functions or types is not supported") {
			// a generic declaration reached outside Converter.object (which would have skipped it)
			shape = "generic"
		}
		return []c30Diff{{Sig: "convert(package," + shape + "):panics", What: where + ": Converter.Package panics: " + panicked}}
	}
	sp0 := c30ProjStd(pkg, nil)
	if sp0.Panic != "" {
		return nil // the original itself cannot be described: not a verdict
	}
	// the exported, non-generic objects; then both sides are walked from exactly these
	objs, _, _, skipped0 := c30CorpusExpect(sp0)
	skip := func(name string) bool { _, ok := objs[name]; return !ok }
	sp := c30ProjStd(pkg, skip)
	objs, named, shapes, skipped := c30CorpusExpect(sp)
	skipped += skipped0
	fp := c30ProjFork(out, skip)
	// named types whose original is generic are not compared; duplicates among them neither
	var dups []string
	for _, k := range fp.Dups {
		if _, ok := named[k]; ok {
			dups = append(dups, k)
		}
	}
	fp.Dups = dups
	if count {
		cr.skipped += skipped
		cr.objects += len(objs)
		cr.nameds += len(named)
		for _, o := range objs {
			cr.c.Case(pkg.Path()+"|"+o.Name, !c30Trivial(o))
		}
		for k := range named {
			cr.c.Case(pkg.Path()+"|named|"+k, true)
		}
	}
	return c30Compare(where, objs, named, shapes, sp, fp, true)
}

func c30Corpus(c *core.Ctx) error {
	paths := c30QuickPkgs
	if c.Thorough() {
		paths = c30StdPackages()
	}
	fset := token.NewFileSet()
	imp := importer.ForCompiler(fset, "source", nil)
	budget := time.Duration(c.Pick(60, 240)) * time.Second
	t0 := time.Now()
	var pkgs []*stdtypes.Package
	notLoaded := 0
	for _, p := range paths {
		if time.Since(t0) > budget {
			notLoaded++
			continue
		}
		func() {
			defer func() {
				if recover() != nil {
					notLoaded++
				}
			}()
			pkg, err := imp.Import(p)
			if err != nil || pkg == nil {
				notLoaded++
				return
			}
			pkgs = append(pkgs, pkg)
		}()
	}
	c.Extra["corpus_packages"] = len(pkgs)
	c.Extra["corpus_packages_not_loaded"] = notLoaded
	c.Extra["corpus_load_s"] = time.Since(t0).Seconds()
	if len(pkgs) < 10 {
		return core.Infra("only %d standard packages could be loaded from source", len(pkgs))
	}
	cr := &c30CorpusRun{c: c}
	report := func(mode string, i int, diffs []c30Diff, rerun func() []c30Diff) error {
		if len(diffs) == 0 {
			return nil
		}
		count := map[string]int{}
		const reruns = 4
		for n := 0; n < reruns; n++ {
			seen := map[string]bool{}
			for _, d := range rerun() {
				if !seen[d.Sig+d.What] {
					seen[d.Sig+d.What] = true
					count[d.Sig+d.What]++
				}
			}
		}
		for _, d := range diffs {
			n := count[d.Sig+d.What]
			if n == 0 {
				// not reproduced by fresh conversions: map-order dependent and rare; counted, not reported
				k, _ := c.Extra["corpus_unreproduced_dropped"].(int)
				c.Extra["corpus_unreproduced_dropped"] = k + 1
				continue
			}
			what := d.What
			if n < reruns {
				what += fmt.Sprintf(" (seen in %d of %d repeated conversions: depends on Go's map iteration order)", n, reruns)
			}
			cs := &c30CorpusCase{Kind: "corpus", Mode: mode, Pkg: pkgs[i].Path()}
			if mode == "shared" {
				for _, p := range pkgs[:i] {
					cs.Order = append(cs.Order, p.Path())
				}
			}
			c.Violation(d.Sig, what, cs)
		}
		return nil
	}
	// a fresh converter per package
	for i, pkg := range pkgs {
		run := func(count bool) []c30Diff {
			var conv gtypes.Converter
			conv.Init(gtypes.Universe)
			return cr.one(&conv, pkg, "fresh", count)
		}
		c.Trace()
		if err := report("fresh", i, run(true), func() []c30Diff { return run(false) }); err != nil {
			return err
		}
	}
	// one converter for all packages, in order
	var shared gtypes.Converter
	shared.Init(gtypes.Universe)
	for i, pkg := range pkgs {
		diffs := cr.one(&shared, pkg, "shared", false)
		if len(diffs) == 1 && strings.HasSuffix(diffs[0].Sig, ":panics") && strings.HasPrefix(diffs[0].Sig, "convert(package,") {
			// a panic leaves the queues of the converter behind and every later call would
			// panic again: continue with a new one (the panic itself is reported)
			shared = gtypes.Converter{}
			shared.Init(gtypes.Universe)
		}
		c.Trace()
		lo := 0
		if i > 40 {
			lo = i - 40 // re-converting a long prefix for every finding is expensive: the last 40 packages
		}
		rerun := func() []c30Diff {
			var conv gtypes.Converter
			conv.Init(gtypes.Universe)
			for _, p := range pkgs[lo:i] {
				d := cr.one(&conv, p, "shared", false)
				if len(d) == 1 && strings.HasPrefix(d[0].Sig, "convert(package,") {
					conv = gtypes.Converter{} // as in the main pass: a new converter after a panic
					conv.Init(gtypes.Universe)
				}
			}
			return cr.one(&conv, pkgs[i], "shared", false)
		}
		if err := report("shared", i, diffs, rerun); err != nil {
			return err
		}
	}
	c.Extra["corpus_objects"] = cr.objects
	c.Extra["corpus_named_types"] = cr.nameds
	c.Extra["corpus_generic_skipped"] = cr.skipped
	c.Assume("corpus: the specification contributes the rule table (the isomorphism Converter.tla proves, read with the standard go/types package as the original), not a transition system; exported objects only, as the property says; the original side is loaded offline with go/importer.ForCompiler(fset, \"source\", nil)")
	return nil
}

func c30CorpusReplay(c *core.Ctx, raw json.RawMessage) error {
	var cs c30CorpusCase
	if err := json.Unmarshal(raw, &cs); err != nil {
		return err
	}
	fset := token.NewFileSet()
	imp := importer.ForCompiler(fset, "source", nil)
	var conv gtypes.Converter
	conv.Init(gtypes.Universe)
	cr := &c30CorpusRun{c: c}
	for _, p := range cs.Order {
		pkg, err := imp.Import(p)
		if err != nil {
			return core.Infra("cannot load %s: %v", p, err)
		}
		cr.one(&conv, pkg, cs.Mode, false)
	}
	pkg, err := imp.Import(cs.Pkg)
	if err != nil {
		return core.Infra("cannot load %s: %v", cs.Pkg, err)
	}
	seen := map[string]bool{}
	for _, d := range cr.one(&conv, pkg, cs.Mode, false) {
		if !seen[d.Sig] {
			seen[d.Sig] = true
			c.Violation(d.Sig, d.What, &cs)
		}
	}
	return nil
}

func selfTestC30(c *core.Ctx) error {
	// broken variants must be rejected by TLC
	r1, err := c.TLC(core.TLCOpts{Spec: "Converter", CfgName: "broken-memo-after", Workers: 4,
		Cfg: c30Cfg("memo-after", false, "bfs", "Terminates ConvertedOnce"), ExpectError: true})
	if err != nil {
		return err
	}
	if r1.Violated != "Terminates" && r1.Violated != "ConvertedOnce" {
		return fmt.Errorf("broken variant memo-after (memo written after recursing) not detected by TLC (violated=%q)\n%s", r1.Violated, r1.Output)
	}
	r2, err := c.TLC(core.TLCOpts{Spec: "Converter", CfgName: "broken-drop-variadic", Workers: 4,
		Cfg: c30Cfg("drop-variadic", false, "bfs", "Isomorphic"), ExpectError: true})
	if err != nil {
		return err
	}
	if r2.Violated != "Isomorphic" {
		return fmt.Errorf("broken variant drop-variadic not detected by TLC (violated=%q)\n%s", r2.Violated, r2.Output)
	}
	// the comparison accepts a correct expectation and rejects corrupted ones
	mk := func() *c30World {
		fn := &c28Term{K: "func", Params: []*c28Term{{K: "basic", Kind: "string"}, {K: "slice", Elem: &c28Term{K: "named", Obj: 2, Inst: 1}}},
			Results: []*c28Term{{K: "named", Obj: 1, Inst: 1}}, Variadic: true}
		return &c30World{
			Decls: []c30Decl{
				{Name: "T1", Pkg: 1, Und: &c28Term{K: "basic", Kind: "int"}},
				{Name: "S1", Pkg: 1, Und: &c28Term{K: "struct", Fields: []c28Field{{Name: "A", Pkg: 1, Tag: "t", Typ: &c28Term{K: "basic", Kind: "int"}}}}},
				{Name: "E1", Pkg: 3, Und: &c28Term{K: "basic", Kind: "int"}},
			},
			Objs: []c30WObj{
				{Pkg: 1, Name: "F", Kind: "func", Typ: fn},
				{Pkg: 1, Name: "C", Kind: "const", Typ: &c28Term{K: "basic", Kind: "untyped float"}, Ckind: "float", Cval: "1/3"},
			},
			Calls: []int{1}, Pkgs: []string{"x/p", "x/p", "x/q"}, Ready: [][]int{{1, 2}},
		}
	}
	good := mk()
	if d, why, err := c30RunWorld(good); err != nil || why != "" || len(d) != 0 {
		return fmt.Errorf("correct world rejected: %v %q %v", d, why, err)
	}
	expectDiff := func(name, suffix string, mutate func(w *c30World)) error {
		bad := mk()
		mutate(bad)
		// the gate must notice that the built packages are not the expected world ...
		if _, why, err := c30RunWorld2(good, bad); err != nil || why == "" {
			return fmt.Errorf("%s: corrupted expectation accepted by the gate (%v)", name, err)
		}
		// ... and the comparison with the converted side must notice it too
		pkgs, err := c30BuildStd(good)
		if err != nil {
			return err
		}
		var conv gtypes.Converter
		conv.Init(gtypes.Universe)
		var out *gtypes.Package
		c30Capture(func() { out = conv.Package(pkgs[1]) })
		objs, named, shapes := bad.expect(0)
		d := c30Compare("selftest", objs, named, shapes, c30ProjStd(pkgs[1], nil), c30ProjFork(out, nil), true)
		for _, x := range d {
			if strings.HasSuffix(x.Sig, suffix) {
				return nil
			}
		}
		return fmt.Errorf("%s: corrupted expectation accepted by the comparison: %v", name, d)
	}
	if err := expectDiff("variadic flag", ":type-string-differs", func(w *c30World) { w.Objs[0].Typ.Variadic = false }); err != nil {
		return err
	}
	if err := expectDiff("constant value", ":const-differs", func(w *c30World) { w.Objs[1].Cval = "1/4" }); err != nil {
		return err
	}
	if err := expectDiff("struct tag", ":underlying-differs", func(w *c30World) { w.Decls[1].Und.Fields[0].Tag = "" }); err != nil {
		return err
	}
	if err := expectDiff("object kind", ":kind-differs", func(w *c30World) { w.Objs[0].Kind = "var" }); err != nil {
		return err
	}
	if err := expectDiff("missing object", ":missing-object", func(w *c30World) {
		w.Objs = append(w.Objs, c30WObj{Pkg: 1, Name: "V", Kind: "var", Typ: &c28Term{K: "basic", Kind: "int"}})
	}); err != nil {
		return err
	}
	return nil
}

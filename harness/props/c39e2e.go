package props

import (
	"bytes"
	"encoding/json"
	"fmt"
	"go/ast"
	"go/parser"
	"go/token"
	"math/rand"
	"os"
	"os/exec"
	"path/filepath"
	"regexp"
	"sort"
	"strings"
	"sync"

	"verif/harness/core"
)

// C39 end to end: programs whose behaviour is prescribed by Defer.tla (C07's generator) and
// Calls.tla (C06's generator) are written as .gomacro files, preprocessed by the command front
// end (cmd.Cmd.Main "-m" "-w" files...), and the written .go files are compiled and run by the
// Go toolchain in one batch, next to the original sources compiled directly (gate).

type c39Prog struct {
	pc      *ProgCase
	prelude string
	origin  string // "Defer" | "Calls" | "syntax"
	// differential: no module prescribes the behaviour of this program; the written file must
	// behave as the original source compiled directly (the property's own wording), and the
	// laws of Collect.tla apply to its declaration list
	differential bool
}

// c39SyntaxCorpus is one declaration-only source with a wide choice of Go syntax (everything
// the fixed node renderings of the unit level do not contain); it never needs parentheses
// the grammar requires (those are the unit-level node kind funcparen).
const c39SyntaxDecls = `type zI interface {
	fmt.Stringer
	M(int) (string, error)
}

type zS struct {
	A    int ` + "`json:\"a\"`" + `
	B, C string
	*zT
	zT2
}

type (
	zF  func(int, ...string) (n int, err error)
	zT  struct{ x int }
	zT2 = struct{}
)

const (
	_        = iota
	zKB uint = 1 << (10 * iota)
	zMB
)

const zx1 = 1; const zy1 = 2

var (
	za, zb int = 1, 2
	zc         = ` + "`raw\nstring`" + `
)

func (s *zS) String() string { return "s:" + s.B }

func (s *zS) M(i int) (string, error) { if i > 0 { return "pos", nil }; return "", errors.New("neg") }

func zgen() (int, string) { return 1, "a" }

var zm, zn = zgen()

var zarr = [...]int{1, 2,
	3}

var zfn = func(a int) int {
	return a * 2 // comment
}

func zvariadic(xs ...int) []int { return append(xs[:0:0], xs...) }

func zlab() (n int) {
L:
	for i := 0; i < 5; i++ {
		switch {
		case i == 1:
			continue L
		case i == 3:
			break L
		default:
			n += i
		}
	}
	goto E
E:
	return n
}

func zMain() int {
	var i zI = &zS{B: "b"}
	ev("str", i.String())
	s, err := i.M(-1)
	ev("M", s, err != nil)
	ch := make(chan int, 1)
	var send chan<- int = ch
	var recv <-chan int = ch
	send <- 7
	select {
	case v, ok := <-recv:
		ev("recv", v, ok)
	default:
		ev("none")
	}
	var x interface{} = 1.5e3
	switch y := x.(type) {
	case int, string:
		ev("int-or-string", y)
	case float64:
		ev("float", y)
	}
	mm := map[string][]int{"a": {1}, "b": nil}
	ev("map", len(mm), mm["a"][0])
	ev("anon", struct{ A int }{A: 1}.A)
	defer func() { ev("deferred", recover() != nil) }()
	done := make(chan bool)
	go func() { done <- true }()
	ev("go", <-done)
	if v, ok := x.(int); ok && v > 0 {
		ev("is-int")
	} else if _, ok := x.(float64); ok {
		ev("is-float")
	} else {
		ev("other")
	}
	for k, v := range zarr {
		ev("arr", k, v)
	}
	ev("lits", 'x', 0x1F, 1i, -zx1, ^zy1, zKB, zMB)
	p := &zS{A: 3}
	ev("ptr", (*p).A, p.A, *&p.A)
	ev("conv", []byte("s")[0], string(rune(65)), float64(za)/2, (*zS)(nil) == nil)
	ev("fn", zfn(zm), zn, zvariadic(1, 2)[1], zlab(), zc)
	ev("prec", za-(-zb), za*(zb+1), -(-za), (za+zb)*2, za-(zb-1), za / 2, !(za > zb))
	var f zF = func(a int, r ...string) (int, error) { return a + len(r), nil }
	n, _ := f(1, "a", "b")
	ev("zF", n)
	var arr2 [2][2]int
	arr2[1][0]++
	arr2[1][0] <<= 2
	ev("arr2", arr2[1][0], len(arr2[0][:1]))
	panic("end")
}
`

func c39SyntaxProg() *c39Prog {
	return &c39Prog{origin: "syntax", differential: true,
		pc: &ProgCase{Key: "syntax-corpus", Nontrivial: true, Decls: c39SyntaxDecls, Entry: "zMain()"}}
}

type c39ProgReplay struct {
	Decls      string   `json:"decls"`
	Entry      string   `json:"entry"`
	Prelude    string   `json:"prelude"`
	WantEvents []string `json:"want_events"`
	WantResult string   `json:"want_result"`
	// Differential: the expectation is the behaviour of the source compiled directly
	Differential bool `json:"differential,omitempty"`
}

// c39Programs draws the end-to-end corpus from the existing program generators.
func c39Programs(c *core.Ctx) ([]*c39Prog, error) {
	var wg sync.WaitGroup
	var deferCases []*ProgCase
	var callRecs []c06Rec
	var callRaws [][]byte
	var e1, e2 error
	wg.Add(2)
	go func() {
		defer wg.Done()
		allOps := `c_Ops == {"L","call","defer","rec","panic","deferrec","deferclo","deferloop","set","ret","spin","deferev"}`
		deferCases, e1 = c07Collect(c, core.TLCOpts{Spec: "Defer", MCDefs: allOps, CfgName: "e2e-defer-sim",
			Cfg: c07Cfg(4, 4, 10, "{1,2,3,4}", 0), Workers: 2,
			Simulate: true, SimNum: c.Pick(15, 400), SimDepth: 120, Seed: c.Seed}, nil)
	}()
	go func() {
		defer wg.Done()
		_, e2 = c.TLC(core.TLCOpts{Spec: "Calls", CfgName: "e2e-calls-bfs", Cfg: c06Cfg(3, "{1,33}", "{40}"), Workers: 2,
			OnLine: func(line []byte) {
				var r c06Rec
				if json.Unmarshal(line, &r) == nil {
					callRecs = append(callRecs, r)
					callRaws = append(callRaws, append([]byte(nil), line...))
				}
			}})
	}()
	wg.Wait()
	if e1 != nil {
		return nil, e1
	}
	if e2 != nil {
		return nil, e2
	}
	rng := rand.New(rand.NewSource(c.Seed))
	var out []*c39Prog
	// Defer.tla programs: non-trivial ones first, seeded choice
	rng.Shuffle(len(deferCases), func(i, j int) { deferCases[i], deferCases[j] = deferCases[j], deferCases[i] })
	sort.SliceStable(deferCases, func(i, j int) bool { return deferCases[i].Nontrivial && !deferCases[j].Nontrivial })
	nd := c.Pick(18, 360)
	for i := 0; i < len(deferCases) && i < nd; i++ {
		out = append(out, &c39Prog{pc: deferCases[i], prelude: c07Prelude, origin: "Defer"})
	}
	// Calls.tla histories with a seeded closure-signature cell each
	cells := c06Cells()
	nc := c.Pick(8, 160)
	seen := map[string]bool{}
	for tries := 0; tries < 20*nc && nc > 0 && len(callRecs) > 0; tries++ {
		i := rng.Intn(len(callRecs))
		cell := cells[rng.Intn(len(cells))]
		pc := c06Render(&callRecs[i], cell, callRaws[i])
		if seen[pc.Key] {
			continue
		}
		seen[pc.Key] = true
		out = append(out, &c39Prog{pc: pc, prelude: c06Prelude, origin: "Calls"})
		nc--
	}
	if len(out) < 20 {
		return nil, core.Infra("end-to-end corpus too small: %d programs", len(out))
	}
	// the syntax corpus twice: once as a library package, once as package main (index 0)
	out = append([]*c39Prog{c39SyntaxProg()}, out...)
	out = append(out, c39SyntaxProg())
	return out, nil
}

const c39RtSrc = `package rt

import (
	"encoding/json"
	"os"
	"strings"
)

var events []string

// Ev records one event (the same projection as the interpreter-side recorder).
func Ev(args ...interface{}) {
	parts := make([]string, len(args))
	for i, a := range args {
		parts[i] = Show(a)
	}
	events = append(events, strings.Join(parts, " "))
}

type out struct {
	Events []string ` + "`json:\"events\"`" + `
	Result string   ` + "`json:\"result\"`" + `
}

// Run runs the program's entry and prints its event log and result as one JSON line.
func Run(fn func() string) {
	events = []string{}
	var res string
	func() {
		defer func() {
			if r := recover(); r != nil {
				res = "panic(" + ShowPanic(r) + ")"
			}
		}()
		res = fn()
	}()
	json.NewEncoder(os.Stdout).Encode(out{events, res})
}
`

// c39E2ESource renders program p as a complete Go source file.
func c39E2ESource(p *c39Prog, k int, pkg, mainName string) string {
	var b strings.Builder
	fmt.Fprintf(&b, "// program %d (%s)\n\npackage %s\n\n", k, p.origin, pkg)
	b.WriteString("import (\n\t\"errors\"\n\t\"fmt\"\n\n\trt \"c39mod/rt\"\n)\n\n")
	b.WriteString("var _ = errors.New\nvar _ = fmt.Sprint\n\n")
	fmt.Fprintf(&b, "var hooked = evNow(%d)\n\n", k)
	b.WriteString("func ev(args ...interface{}) { rt.Ev(args...) }\n\n")
	b.WriteString("func evi(x int, args ...interface{}) int {\n\trt.Ev(append([]interface{}{x}, args...)...)\n\treturn x\n}\n\nvar _ = evi\n\n")
	b.WriteString(p.prelude)
	b.WriteString("\n")
	b.WriteString(p.pc.Decls)
	fmt.Fprintf(&b, "\nfunc %s() {\n\trt.Run(func() string { return rt.Vals(%s) })\n}\n", mainName, p.pc.Entry)
	return b.String()
}

type c39E2EOut struct {
	Events []string `json:"events"`
	Result string   `json:"result"`
}

type c39E2EResult struct {
	prog     *c39Prog
	source   string
	written  string
	diff     *c39Diff // disagreement between the written file and the specification
	gated    bool     // the original source was compiled directly and run as well
	gateOK   bool     // ... and behaves as the specification says (true when not gated)
	gateNote string
}

type c39E2EOpts struct {
	mutateWritten  func(k int, text string) string // self-test: simulate a wrong preprocessor
	skipStructural bool
	gateEvery      int // compile the original of every n-th program (0, 1: all); differential programs always
}

var c39RePkgErr = regexp.MustCompile(`(?m)^(?:\./)?([wo]\d+)/prog\.go:(\d+:\d+: .*)$`)

// c39DeclsOf projects a Go file to (kind, dump) per top-level declaration, imports included.
func c39DeclsOf(text string) (pkg string, kinds, dumps []string, err error) {
	fset := token.NewFileSet()
	file, err := parser.ParseFile(fset, "f.go", text, parser.SkipObjectResolution)
	if err != nil {
		return "", nil, nil, err
	}
	for _, d := range file.Decls {
		k := "func"
		switch d := d.(type) {
		case *ast.GenDecl:
			k = d.Tok.String()
		case *ast.FuncDecl:
			if d.Recv != nil {
				k = "method"
			}
		}
		kinds = append(kinds, k)
		dumps = append(dumps, c39Dump(d))
	}
	return file.Name.Name, kinds, dumps, nil
}

// c39LawDiff applies the laws TLC checks on Collect.tla for declaration-only sources
// (DeclsPreserved, ImportsPreserved, NothingTwice; package clause kept) to a source / written pair.
func c39LawDiff(source, written string) *c39Diff {
	spkg, skinds, sdumps, err := c39DeclsOf(source)
	if err != nil {
		return nil // not a Go source: the law does not apply (cannot happen for generated programs)
	}
	wpkg, wkinds, wdumps, err := c39DeclsOf(written)
	if err != nil {
		return &c39Diff{kind: "file", shape: "not-compilable", what: "written file does not parse: " + err.Error()}
	}
	if spkg != wpkg {
		return &c39Diff{kind: "pkg", shape: "lost", what: fmt.Sprintf("package %s written for a source of package %s", wpkg, spkg)}
	}
	cs, cw := map[string]int{}, map[string]int{}
	for _, d := range sdumps {
		cs[d]++
	}
	for _, d := range wdumps {
		cw[d]++
	}
	for i, d := range sdumps {
		if cw[d] < cs[d] {
			shape := "lost"
			if skinds[i] == "import" {
				shape = "import-lost"
			}
			for j, wd := range wdumps {
				if cs[wd] == 0 && wkinds[j] == skinds[i] {
					shape = "altered"
				}
			}
			return &c39Diff{kind: skinds[i], shape: shape, what: fmt.Sprintf("declaration %d of the source (%s) is not in the written file as it stands in the source", i+1, skinds[i])}
		}
	}
	for j, d := range wdumps {
		if cw[d] > cs[d] {
			shape := "duplicated"
			if cs[d] == 0 {
				shape = "extra"
			}
			return &c39Diff{kind: wkinds[j], shape: shape, what: fmt.Sprintf("declaration %d of the written file (%s) %s", j+1, wkinds[j], shape)}
		}
	}
	for i := range sdumps {
		if sdumps[i] != wdumps[i] {
			return &c39Diff{kind: skinds[i], shape: "reordered", what: fmt.Sprintf("declaration %d of the source (%s) is written at another position", i+1, skinds[i])}
		}
	}
	return nil
}

func c39GoEnv() []string {
	return append(os.Environ(), "GOFLAGS=-mod=mod", "GOPROXY=off", "GOSUMDB=off", "GOTOOLCHAIN=local", "GOWORK=off")
}

// c39E2ECore preprocesses, compiles and runs the programs; nothing is reported here.
func c39E2ECore(c *core.Ctx, progs []*c39Prog, scratch string, o c39E2EOpts) ([]*c39E2EResult, error) {
	mod, err := os.MkdirTemp(scratch, "mod-")
	if err != nil {
		return nil, core.Infra("mktemp: %v", err)
	}
	defer os.RemoveAll(mod)
	showSrc, err := os.ReadFile(filepath.Join(c.Verif, "harness", "show", "show.go"))
	if err != nil {
		return nil, core.Infra("cannot read the value projection source: %v", err)
	}
	write := func(rel, text string) error {
		p := filepath.Join(mod, rel)
		os.MkdirAll(filepath.Dir(p), 0o755)
		return os.WriteFile(p, []byte(text), 0o644)
	}
	write("go.mod", "module c39mod\n\ngo 1.21\n")
	write("rt/rt.go", c39RtSrc)
	write("rt/show.go", strings.Replace(string(showSrc), "package show", "package rt", 1))
	res := make([]*c39E2EResult, len(progs))
	// every mainEvery-th program is a real `package main` with its own binary; the others are
	// library packages with an exported Main, linked into one runner binary (one batch)
	mainEvery := c.Pick(5, 16)
	isMain := func(k int) bool { return k%mainEvery == 0 }
	pkgOf := func(k int) (string, string) {
		if isMain(k) {
			return "main", "main"
		}
		return fmt.Sprintf("p%d", k), "Main"
	}
	gated := func(k int) bool { return o.gateEvery <= 1 || k%o.gateEvery == 0 || progs[k].differential }
	for k, p := range progs {
		pkg, mainName := pkgOf(k)
		src := c39E2ESource(p, k, pkg, mainName)
		res[k] = &c39E2EResult{prog: p, source: src, gated: gated(k)}
		hook := fmt.Sprintf("package %s\n\nfunc evNow(ids ...int) int { return 0 }\n", pkg)
		if err := write(fmt.Sprintf("w%d/prog.gomacro", k), src); err != nil {
			return nil, core.Infra("write: %v", err)
		}
		write(fmt.Sprintf("w%d/hook.go", k), hook)
		if gated(k) {
			write(fmt.Sprintf("o%d/prog.go", k), src)
			write(fmt.Sprintf("o%d/hook.go", k), hook)
		}
	}
	// --- preprocess: one front end per group of files (arguments), as a user would
	const group = 4
	for lo := 0; lo < len(progs); lo += group {
		hi := lo + group
		if hi > len(progs) {
			hi = len(progs)
		}
		var args []string
		for k := lo; k < hi; k++ {
			args = append(args, filepath.Join(mod, fmt.Sprintf("w%d/prog.gomacro", k)))
		}
		calls, msgs, crash := c39CmdRun(args)
		for k := lo; k < hi; k++ {
			r := res[k]
			if crash != "" {
				r.diff = &c39Diff{kind: "file", shape: "crash", what: crash + "\n" + msgs}
				continue
			}
			for _, id := range calls {
				if id == k {
					r.diff = &c39Diff{kind: "var", shape: "code-executed", what: "the initialiser `var hooked = evNow(...)` ran inside the preprocessor"}
				}
			}
			b, rerr := os.ReadFile(filepath.Join(mod, fmt.Sprintf("w%d/prog.go", k)))
			if rerr != nil {
				if r.diff == nil {
					r.diff = &c39Diff{kind: "file", shape: "lost", what: fmt.Sprintf("no file written: %v\n%s", rerr, msgs)}
				}
				continue
			}
			r.written = string(b)
			if o.mutateWritten != nil {
				r.written = o.mutateWritten(k, r.written)
				write(fmt.Sprintf("w%d/prog.go", k), r.written)
			}
			if r.diff == nil && !o.skipStructural {
				r.diff = c39LawDiff(r.source, r.written)
			}
			if r.diff != nil && msgs != "" {
				r.diff.what += "\nmessages: " + strings.TrimSpace(msgs)
			}
		}
		if len(calls) > 0 {
			known := false
			for _, id := range calls {
				if id >= lo && id < hi {
					known = true
				}
			}
			if !known && res[lo].diff == nil {
				res[lo].diff = &c39Diff{kind: "?", shape: "code-executed", what: fmt.Sprintf("the hook was called %d times inside the preprocessor", len(calls))}
			}
		}
	}
	// --- compile everything in one go invocation; drop packages that do not compile
	alive := map[string]bool{}
	compileErr := map[string]string{}
	for k := range progs {
		alive[fmt.Sprintf("o%d", k)] = gated(k)
		if res[k].written != "" {
			alive[fmt.Sprintf("w%d", k)] = true
		} else {
			os.RemoveAll(filepath.Join(mod, fmt.Sprintf("w%d", k)))
		}
	}
	built := false
	for attempt := 0; attempt < 8 && !built; attempt++ {
		var imports, calls strings.Builder
		for k := range progs {
			if isMain(k) {
				continue
			}
			for _, side := range []string{"w", "o"} {
				name := fmt.Sprintf("%s%d", side, k)
				if alive[name] {
					fmt.Fprintf(&imports, "\t%s \"c39mod/%s\"\n", name, name)
					fmt.Fprintf(&calls, "\tfmt.Println(\"#%s\")\n\t%s.Main()\n", name, name)
				}
			}
		}
		write("runner/main.go", "package main\n\nimport (\n\t\"fmt\"\n"+imports.String()+")\n\nfunc main() {\n\tfmt.Println(\"#start\")\n"+calls.String()+"}\n")
		os.MkdirAll(filepath.Join(mod, "bin"), 0o755)
		cmd := exec.Command("go", "build", "-gcflags=-e", "-o", "bin/", "./...")
		cmd.Dir = mod
		cmd.Env = c39GoEnv()
		var buf bytes.Buffer
		cmd.Stdout = &buf
		cmd.Stderr = &buf
		if err := cmd.Run(); err == nil {
			built = true
			break
		}
		ms := c39RePkgErr.FindAllStringSubmatch(buf.String(), -1)
		progress := false
		for _, m := range ms {
			if alive[m[1]] {
				alive[m[1]] = false
				compileErr[m[1]] = m[2]
				os.Rename(filepath.Join(mod, m[1]), filepath.Join(mod, "_"+m[1]))
				progress = true
			}
		}
		if !progress {
			return nil, core.Infra("end-to-end build failed: %s", tailC39(buf.String(), 1500))
		}
	}
	if !built {
		return nil, core.Infra("end-to-end build: too many compile-error rounds")
	}
	// --- run
	outs := map[string]*c39E2EOut{}
	run := exec.Command(filepath.Join(mod, "bin", "runner"))
	run.Dir = mod
	var ob, eb bytes.Buffer
	run.Stdout = &ob
	run.Stderr = &eb
	if err := run.Run(); err != nil {
		return nil, core.Infra("end-to-end runner failed: %v\n%s", err, tailC39(eb.String(), 1500))
	}
	cur := ""
	for _, line := range strings.Split(ob.String(), "\n") {
		if strings.HasPrefix(line, "#") {
			cur = line[1:]
			continue
		}
		if cur == "" || !strings.HasPrefix(line, "{") {
			continue
		}
		var o c39E2EOut
		if json.Unmarshal([]byte(line), &o) == nil {
			outs[cur] = &o
			cur = ""
		}
	}
	var mains []string
	for k := range progs {
		if isMain(k) {
			for _, side := range []string{"w", "o"} {
				if name := fmt.Sprintf("%s%d", side, k); alive[name] {
					mains = append(mains, name)
				}
			}
		}
	}
	var omu sync.Mutex
	core.ParDo(len(mains), 4, func(i int) {
		cmd := exec.Command(filepath.Join(mod, "bin", mains[i]))
		var ob bytes.Buffer
		cmd.Stdout = &ob
		cmd.Stderr = &ob
		cmd.Run()
		var o c39E2EOut
		for _, line := range strings.Split(ob.String(), "\n") {
			if strings.HasPrefix(line, "{") && json.Unmarshal([]byte(line), &o) == nil {
				omu.Lock()
				outs[mains[i]] = &o
				omu.Unlock()
				return
			}
		}
		omu.Lock()
		outs[mains[i]] = &c39E2EOut{Result: "no-output(" + tailC39(ob.String(), 300) + ")"}
		omu.Unlock()
	})
	// --- judge
	for k, r := range res {
		want := *r.prog.pc
		want.WantEvents = stripBook(want.WantEvents)
		on, wn := fmt.Sprintf("o%d", k), fmt.Sprintf("w%d", k)
		oo := outs[on]
		if r.prog.differential && oo != nil && compileErr[on] == "" {
			// the expectation is the behaviour of the source itself
			want.WantEvents, want.WantResult = oo.Events, oo.Result
		}
		switch {
		case !r.gated:
			r.gateOK = true // judged against the specification alone; gated if it disagrees (second pass)
		case compileErr[on] != "":
			r.gateNote = "the original source does not compile: " + compileErr[on]
		case oo == nil:
			r.gateNote = "the original source produced no output"
		case !progConforms(&want, oo.Events, oo.Result):
			r.gateNote = "compiled original disagrees with the specification: " + describeDiff(want.WantEvents, oo.Events, want.WantResult, oo.Result)
		default:
			r.gateOK = true
		}
		if r.diff != nil || !r.gateOK {
			continue
		}
		wo := outs[wn]
		switch {
		case compileErr[wn] != "":
			r.diff = &c39Diff{kind: "file", shape: "not-compilable", what: "the written file does not compile: " + compileErr[wn]}
		case wo == nil:
			r.diff = &c39Diff{kind: "file", shape: "behaviour-differs", what: "the written program produced no output"}
		case !progConforms(&want, wo.Events, wo.Result):
			r.diff = &c39Diff{kind: "func", shape: "behaviour-differs", what: describeDiff(want.WantEvents, wo.Events, want.WantResult, wo.Result)}
		}
	}
	return res, nil
}

func tailC39(s string, n int) string {
	if len(s) > n {
		return s[len(s)-n:]
	}
	return s
}

// c39EndToEnd runs the corpus and reports.
func c39EndToEnd(c *core.Ctx, progs []*c39Prog, scratch string) error {
	if len(progs) == 0 {
		return nil
	}
	res, err := c39E2ECore(c, progs, scratch, c39E2EOpts{gateEvery: c.Pick(1, 3)})
	if err != nil {
		return err
	}
	var again []*c39Prog
	var first []*c39E2EResult
	shown := 0
	for k, r := range res {
		c.Case("e2e:"+r.prog.pc.Key, r.prog.pc.Nontrivial)
		c.Trace()
		if r.gated {
			c.Gate(r.gateOK)
		}
		if k%(len(res)/2+1) == 0 {
			c.Sample(map[string]interface{}{"level": "end-to-end", "origin": r.prog.origin + ".tla", "source": r.source, "expected_events": stripBook(r.prog.pc.WantEvents), "expected_result": r.prog.pc.WantResult})
		}
		if !r.gateOK {
			if shown < 3 {
				shown++
				fmt.Printf("GATE-REJECT property=%s (behaviour dropped): %s\n", c.ID, r.gateNote)
			}
			continue
		}
		if r.diff != nil {
			again = append(again, r.prog)
			first = append(first, r)
		}
	}
	if len(again) == 0 {
		return nil
	}
	// confirm with a second preprocessing + build of the disagreeing programs only, all gated
	res2, err := c39E2ECore(c, again, scratch, c39E2EOpts{})
	if err != nil {
		return err
	}
	for i, r := range res2 {
		if !r.gateOK {
			if !first[i].gated {
				c.Gate(false)
			}
			fmt.Printf("GATE-REJECT property=%s (behaviour dropped): %s\n", c.ID, r.gateNote)
			continue
		}
		if r.diff == nil || r.diff.sig() != first[i].diff.sig() {
			return core.Infra("end-to-end disagreement %s not reproducible", first[i].diff.sig())
		}
		pc := r.prog.pc
		what := r.diff.what + "\n--- source:\n" + strings.TrimSpace(r.source) + "\n--- written:\n" + strings.TrimSpace(c39StripDisclaimer(r.written))
		c.Violation(r.diff.sig(), what, map[string]interface{}{"level": "e2e", "prog": c39ProgReplay{Decls: pc.Decls, Entry: pc.Entry, Prelude: r.prog.prelude,
			WantEvents: pc.WantEvents, WantResult: pc.WantResult, Differential: r.prog.differential}})
	}
	return nil
}

func c39SelfTestE2E(c *core.Ctx) error {
	scratch, err := os.MkdirTemp("", "verif-c39-")
	if err != nil {
		return core.Infra("mktemp: %v", err)
	}
	defer os.RemoveAll(scratch)
	mk := func() []*c39Prog {
		var ps []*c39Prog
		for i := 0; i < 2; i++ { // index 0: package main with its own binary, index 1: library form
			raw := []byte(`{"body":{"0":[{"k":"deferrec","v":7},{"k":"L"},{"k":"panic","v":2}],"1":[]},"log":[["L",0,2,false,1],["R",0,1,2,true,2]],"outcome":["done",7]}`)
			var rec c07Rec
			json.Unmarshal(raw, &rec)
			ps = append(ps, &c39Prog{pc: c07Render(&rec, raw), prelude: c07Prelude, origin: "Defer"})
		}
		return ps
	}
	expect := func(name string, o c39E2EOpts, corrupt func(p *c39Prog), wantSig string, wantGate bool) error {
		ps := mk()
		if corrupt != nil {
			for _, p := range ps {
				corrupt(p)
			}
		}
		res, err := c39E2ECore(c, ps, scratch, o)
		if err != nil {
			return err
		}
		for k, r := range res {
			got := ""
			if r.diff != nil {
				got = r.diff.sig()
			}
			if r.gateOK != wantGate || got != wantSig {
				return fmt.Errorf("end-to-end self-test %q, program %d: gate=%v (%s) diff=%q, want gate=%v diff=%q", name, k, r.gateOK, r.gateNote, got, wantGate, wantSig)
			}
		}
		return nil
	}
	if err := expect("correct", c39E2EOpts{}, nil, "", true); err != nil {
		return err
	}
	if res, err := c39E2ECore(c, []*c39Prog{c39SyntaxProg(), c39SyntaxProg()}, scratch, c39E2EOpts{}); err != nil {
		return err
	} else {
		for k, r := range res {
			if !r.gateOK || r.diff != nil {
				return fmt.Errorf("syntax corpus (program %d) rejected: gate=%v (%s) diff=%v", k, r.gateOK, r.gateNote, r.diff)
			}
		}
	}
	if err := expect("corrupted expectation", c39E2EOpts{},func(p *c39Prog) { p.pc.WantResult = "[int:0]" }, "", false); err != nil {
		return err
	}
	dropHook := func(k int, text string) string {
		return strings.Replace(text, fmt.Sprintf("var hooked = evNow(%d)\n", k), "", 1)
	}
	if err := expect("declaration dropped from the written file", c39E2EOpts{mutateWritten: dropHook}, nil, "collect(var):lost", true); err != nil {
		return err
	}
	flip := func(k int, text string) string { return strings.Replace(text, `"L"`, `"X"`, 1) }
	if err := expect("written function altered", c39E2EOpts{mutateWritten: flip}, nil, "collect(func):altered", true); err != nil {
		return err
	}
	if err := expect("written program behaves differently", c39E2EOpts{mutateWritten: flip, skipStructural: true}, nil, "collect(func):behaviour-differs", true); err != nil {
		return err
	}
	broken := func(k int, text string) string { return strings.Replace(text, "var hooked", "var hooked, other", 1) }
	return expect("written file does not compile", c39E2EOpts{mutateWritten: broken, skipStructural: true}, nil, "collect(file):not-compilable", true)
}

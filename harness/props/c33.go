package props

import (
	"encoding/json"
	"fmt"
	"os"
	"runtime"
	"strings"
	"sync"
	"sync/atomic"
	"time"

	"github.com/cosmos72/gomacro/fast"
	"github.com/cosmos72/gomacro/gls"

	"verif/harness/core"
	"verif/harness/gm"
)

// C33: goroutine identity and per-goroutine runtime state.
// (M) spec/impl/Gls.tla: the registry protocol (go-statement child: new run / store / call /
//     delete; foreign goroutine: lookup-or-create; identity reuse after exit; the spin lock as
//     separate acquire/release steps) keeps Ownership, UniqueIds, RegOwner and LockOK on every
//     interleaving of 3 goroutines over 2 identities; the broken variant without the identity
//     test at frame allocation is rejected.
// (V) stress drivers run the real interpreter from many goroutines (go statements, nested go
//     statements, compiled goroutines calling one interpreted closure, thousands of short-lived
//     goroutines to provoke identity reuse) with the verif hooks on:
//       - every frame allocation is checked on line: owner identity of the run == gls.GoID();
//       - the registry events, numbered under the registry's own lock, are validated by TLC
//         against spec/impl/GlsTrace.tla (a lost update, a lookup outside the lock or a record
//         registered under another identity makes the trace unexplainable);
//       - gls.GoID() is constant within a goroutine (across rescheduling and stack growth) and
//         distinct among goroutines that are alive together.

func init() {
	core.Register(&core.Prop{
		ID: "C33",
		Rule: "TLC explores every interleaving of the registry protocol for 3 goroutines x 2 identities; stress drivers {go statements, nested go statements, foreign goroutines calling an interpreted closure, sequential short-lived goroutines} record registry events under the lock and assert ownership at every frame allocation; " +
			"a case is one frame allocation or registry event observed from a goroutine other than the interpreter's creator; distinct by (driver, goroutine identity)",
		Run:      runC33,
		SelfTest: selfTestC33,
		Sub:      c33Sub,
	})
}

func c33Cfg(check, own bool, three bool) string {
	b := func(x bool) string { return strings.ToUpper(fmt.Sprint(x)) }
	gor, alloc, runs := `{"a","b"}`, 2, 6 // 537 k distinct states
	if three {
		gor, alloc, runs = `{"a","b","c"}`, 1, 5 // 2.1 M distinct states
	}
	return fmt.Sprintf("SPECIFICATION Spec\nCONSTANTS\n Gor = %s\n Ids = {1,2}\n MaxAlloc = %d\n MaxRuns = %d\n CheckGoid = %s\n ChildOwnRun = %s\nINVARIANTS Ownership UniqueIds RegOwner LockOK\nVIEW AllocView\n", gor, alloc, runs, b(check), b(own))
}

type c33Event struct {
	Op      string `json:"op"`
	Goid    int    `json:"goid"`
	Run     int    `json:"run"`
	RunGoid int    `json:"rungoid"`
	Found   bool   `json:"found"`
}

// c33Recorder collects hook events of one driver run.
type c33Recorder struct {
	mu       sync.Mutex
	ids      map[uintptr]int
	runs     map[*fast.Run]int
	events   []c33Event
	lastSeq  uint64
	seqError string
	allocs   int64
	foreign  int64 // allocations from goroutines other than the creator
	badAlloc int64
	firstBad string
	mainGoid uintptr
	limit    int
}

func (r *c33Recorder) id(g uintptr) int {
	if v, ok := r.ids[g]; ok {
		return v
	}
	v := len(r.ids) + 1
	r.ids[g] = v
	return v
}
func (r *c33Recorder) run(p *fast.Run) int {
	if p == nil {
		return 0
	}
	if v, ok := r.runs[p]; ok {
		return v
	}
	v := len(r.runs) + 1
	r.runs[p] = v
	return v
}

func (r *c33Recorder) install() {
	fast.VerifHooks.Gls = func(seq uint64, op int, goid uintptr, run *fast.Run, found bool) {
		// called with the registry lock held: events arrive in lock order
		r.mu.Lock()
		if r.lastSeq != 0 && seq != r.lastSeq+1 && r.seqError == "" {
			r.seqError = fmt.Sprintf("registry sequence number jumped from %d to %d (an operation ran outside the lock)", r.lastSeq, seq)
		}
		r.lastSeq = seq
		if len(r.events) < r.limit {
			e := c33Event{Goid: r.id(goid), Run: r.run(run), Found: found}
			switch op {
			case fast.VerifGlsGet:
				e.Op = "get"
			case fast.VerifGlsStore:
				e.Op = "store"
			case fast.VerifGlsDel:
				e.Op = "del"
			}
			if run != nil {
				e.RunGoid = r.id(fast.VerifRunGoid(run))
			}
			r.events = append(r.events, e)
		}
		r.mu.Unlock()
	}
	fast.VerifHooks.Alloc = func(env *fast.Env, run *fast.Run, goid uintptr, runGoid uintptr) {
		atomic.AddInt64(&r.allocs, 1)
		cur := gls.GoID()
		if cur != r.mainGoid {
			atomic.AddInt64(&r.foreign, 1)
		}
		if runGoid != cur || (goid != 0 && goid != cur) {
			if atomic.AddInt64(&r.badAlloc, 1) == 1 {
				r.mu.Lock()
				r.firstBad = fmt.Sprintf("frame allocated on goroutine %#x from a run owned by %#x", cur, runGoid)
				fmt.Fprintln(os.Stderr, "C33-BAD-ALLOC", r.firstBad)
				r.mu.Unlock()
			}
		}
	}
}

func c33Uninstall() {
	fast.VerifHooks.Gls = nil
	fast.VerifHooks.Alloc = nil
}

const c33Decls = `import "sync"
import "runtime"
var wg sync.WaitGroup
var mu sync.Mutex
var res [4096]int
var total int
func work(i int, depth int) int {
	if depth == 0 {
		return i
	}
	x := i
	y := work(i, depth-1)
	return y + x - x
}
func spawn(n int) {
	for i := 0; i < n; i++ {
		wg.Add(1)
		go func(k int) {
			defer wg.Done()
			res[k] = work(k, 6)
		}(i)
	}
	wg.Wait()
}
func nested(n int, m int) {
	for i := 0; i < n; i++ {
		wg.Add(1)
		go func(k int) {
			defer wg.Done()
			var inner sync.WaitGroup
			for j := 0; j < m; j++ {
				inner.Add(1)
				go func(q int) {
					defer inner.Done()
					v := work(q, 3)
					mu.Lock()
					total += v
					mu.Unlock()
				}(k*m + j)
			}
			inner.Wait()
		}(i)
	}
	wg.Wait()
}
var sink int
func worker(k int) {
	defer wg.Done()
	res[k%4096] = work(k, 4)
}
// go statement on a NAMED function (no literal captures the statement's wrapper frame),
// followed at once by blocks with locals and calls in the spawning goroutine
func spawnNamed(n int) {
	for i := 0; i < n; i++ {
		wg.Add(1)
		go worker(i)
		{
			a := i
			runtime.Gosched() // let the new goroutine start while this block's frame is live
			b := a + 1
			sink += b - a
			{
				c := work(a, 1)
				sink += c - a
			}
		}
	}
	wg.Wait()
}
func seq(n int) {
	for i := 0; i < n; i++ {
		wg.Add(1)
		go func(k int) {
			defer wg.Done()
			res[k%4096] = work(k, 2)
		}(i)
		wg.Wait()
	}
}
`

type c33Driver struct {
	name string
	run  func(g *gm.Interp, scale int) string // returns a functional error ("" = results as in Go)
}

func c33Drivers() []c33Driver {
	return []c33Driver{
		{"go-statements", func(g *gm.Interp, scale int) string {
			n := 200 * scale
			if n > 4000 {
				n = 4000
			}
			if r := g.Eval(fmt.Sprintf("spawn(%d)", n)); r.Panicked {
				return "panic: " + r.Panic
			}
			for _, k := range []int{0, 1, n / 2, n - 1} {
				if r := g.Eval(fmt.Sprintf("res[%d]", k)); r.String() != fmt.Sprintf("[int:%d]", k) {
					return fmt.Sprintf("res[%d] = %s", k, r.String())
				}
			}
			return ""
		}},
		{"go-named-function-then-blocks", func(g *gm.Interp, scale int) string {
			n := 300 * scale
			if n > 4000 {
				n = 4000
			}
			for _, procs := range []int{1, 4} {
				old := runtime.GOMAXPROCS(procs)
				g.Eval("sink = 0")
				r := g.Eval(fmt.Sprintf("spawnNamed(%d)", n))
				runtime.GOMAXPROCS(old)
				if r.Panicked {
					return "panic: " + r.Panic
				}
				if r := g.Eval("sink"); r.String() != fmt.Sprintf("[int:%d]", n) {
					return fmt.Sprintf("sink = %s, want %d", r.String(), n)
				}
				for _, k := range []int{0, n / 2, n - 1} {
					if r := g.Eval(fmt.Sprintf("res[%d]", k)); r.String() != fmt.Sprintf("[int:%d]", k) {
						return fmt.Sprintf("res[%d] = %s", k, r.String())
					}
				}
			}
			return ""
		}},
		{"nested-go-statements", func(g *gm.Interp, scale int) string {
			n, m := 20*scale, 8
			g.Eval("total = 0")
			if r := g.Eval(fmt.Sprintf("nested(%d, %d)", n, m)); r.Panicked {
				return "panic: " + r.Panic
			}
			want := (n*m - 1) * n * m / 2
			if r := g.Eval("total"); r.String() != fmt.Sprintf("[int:%d]", want) {
				return fmt.Sprintf("total = %s, want %d", r.String(), want)
			}
			return ""
		}},
		{"foreign-callbacks", func(g *gm.Interp, scale int) string {
			vs, _ := g.Ir.Eval("(func(k int) int { return work(k, 5) + 1 })")
			f, ok := vs[0].Interface().(func(int) int)
			if !ok {
				return "closure is not a func(int) int"
			}
			var wg sync.WaitGroup
			var bad int64
			for w := 0; w < 16; w++ {
				wg.Add(1)
				go func(w int) {
					defer wg.Done()
					for i := 0; i < 60*scale; i++ {
						if f(w*1000+i) != w*1000+i+1 {
							atomic.AddInt64(&bad, 1)
						}
					}
				}(w)
			}
			wg.Wait()
			if bad != 0 {
				return fmt.Sprintf("%d wrong results from concurrent callbacks", bad)
			}
			return ""
		}},
		{"sequential-short-lived", func(g *gm.Interp, scale int) string {
			if r := g.Eval(fmt.Sprintf("seq(%d)", 1500*scale)); r.Panicked {
				return "panic: " + r.Panic
			}
			return ""
		}},
		{"foreign-short-lived", func(g *gm.Interp, scale int) string {
			vs, _ := g.Ir.Eval("(func(k int) int { return work(k, 2) })")
			f := vs[0].Interface().(func(int) int)
			for i := 0; i < 800*scale; i++ {
				done := make(chan int)
				go func(i int) { done <- f(i) }(i)
				if v := <-done; v != i {
					return fmt.Sprintf("callback %d returned %d", i, v)
				}
			}
			return ""
		}},
	}
}

func c33GoID(c *core.Ctx) string {
	// constancy within a goroutine, uniqueness among goroutines alive together
	const n = 64
	ids := make([]uintptr, n)
	var ready, done sync.WaitGroup
	release := make(chan struct{})
	var bad atomic.Value
	var deep func(d int) uintptr
	deep = func(d int) uintptr {
		var pad [256]byte
		if d == 0 {
			return gls.GoID() + uintptr(pad[0])
		}
		return deep(d - 1)
	}
	for i := 0; i < n; i++ {
		ready.Add(1)
		done.Add(1)
		go func(i int) {
			defer done.Done()
			a := gls.GoID()
			runtime.Gosched()
			b := gls.GoID()
			c2 := deep(200) // forces stack growth
			time.Sleep(time.Millisecond)
			d := gls.GoID()
			if a != b || a != c2 || a != d {
				bad.Store(fmt.Sprintf("GoID changed within one goroutine: %#x %#x %#x %#x", a, b, c2, d))
			}
			ids[i] = a
			ready.Done()
			<-release
		}(i)
	}
	ready.Wait()
	seen := map[uintptr]int{gls.GoID(): -1}
	msg := ""
	for i, id := range ids {
		if j, dup := seen[id]; dup {
			msg = fmt.Sprintf("goroutines %d and %d are alive together and observe the same identity %#x", j, i, id)
		}
		seen[id] = i
		c.Case(fmt.Sprintf("goid|%d", i), true)
	}
	close(release)
	done.Wait()
	if v := bad.Load(); v != nil {
		return v.(string)
	}
	return msg
}

func runC33(c *core.Ctx) error {
	// (M)
	if _, err := c.TLC(core.TLCOpts{Spec: "Gls", CfgName: "registry-protocol", Cfg: c33Cfg(true, true, c.Thorough()), Timeout: 20 * time.Minute}); err != nil {
		return err
	}
	if msg := c33GoID(c); msg != "" {
		c.Violation("goid", msg, map[string]string{"what": msg})
	}
	// (V)
	scale := c.Pick(1, 8)
	var trace []c33Event
	rounds := c.Pick(2, 4)
	for round := 0; round < rounds; round++ {
		for di, d := range c33Drivers() {
			// each driver runs in a child process: a fault in a goroutine of the interpreter
			// would otherwise take the whole check down
			var res c33Result
			var crash string
			for attempt := 0; attempt < 2; attempt++ {
				out, serr, code := core.RunSub("C33", 10*time.Minute, fmt.Sprint(di), fmt.Sprint(scale), fmt.Sprint(c.Pick(12000, 60000)))
				if k := strings.LastIndex(out, `{"func_err"`); k >= 0 {
					out = out[k:] // the interpreter's import warnings precede the report
				}
				if code == 0 && json.Unmarshal([]byte(out), &res) == nil {
					crash = ""
					break
				}
				if code == -1 {
					return core.Infra("driver %s: child process could not run or timed out", d.name)
				}
				crash = serr
			}
			c.Trace()
			if crash != "" {
				// crashed twice: a run-time fault of the interpreter under concurrency
				sig := "crash:" + d.name
				if strings.Contains(crash, "C33-BAD-ALLOC") {
					sig = "ownership:" + d.name
				}
				c.Violation(sig, "driver "+d.name+" crashed the process twice:\n"+crash, map[string]string{"driver": d.name})
				continue
			}
			key := fmt.Sprintf("%s|%d", d.name, round)
			for i := 0; i < res.Goroutines; i++ {
				c.Case(fmt.Sprintf("%s|g%d", key, i), true)
			}
			c.Extra["frame_allocations_checked"] = addInt(c.Extra["frame_allocations_checked"], res.Allocs)
			c.Extra["allocations_on_non_creator_goroutines"] = addInt(c.Extra["allocations_on_non_creator_goroutines"], res.Foreign)
			if res.Foreign == 0 {
				return core.Infra("driver %s never allocated a frame outside the creator goroutine (vacuous)", d.name)
			}
			if res.FuncErr != "" {
				c.Violation("driver-result:"+d.name, "driver "+d.name+": "+res.FuncErr, map[string]string{"driver": d.name})
			}
			if res.BadAlloc > 0 {
				c.Violation("ownership:"+d.name, fmt.Sprintf("driver %s: %d frame allocations used a run not owned by the allocating goroutine; first: %s", d.name, res.BadAlloc, res.FirstBad), map[string]string{"driver": d.name})
			}
			if res.SeqError != "" {
				c.Violation("registry-outside-lock:"+d.name, res.SeqError, map[string]string{"driver": d.name})
			}
			if round == 0 && len(res.Events) > 4 {
				c.Sample(map[string]interface{}{"driver": d.name, "first_registry_events": res.Events[1:5]})
			}
			trace = append(trace, res.Events...)
		}
	}
	// validate all recorded registry traces in one TLC run
	var nd strings.Builder
	for _, e := range trace {
		b, _ := json.Marshal(e)
		nd.Write(b)
		nd.WriteByte('\n')
	}
	c.Extra["registry_events_validated"] = len(trace)
	res, err := c.TLC(core.TLCOpts{Spec: "GlsTrace", CfgName: "trace-validation", Workers: 1,
		Cfg:        "SPECIFICATION Spec\nPOSTCONDITION Accepted\n",
		ExtraFiles: map[string]string{"gls_trace.ndjson": nd.String()}, ExpectError: true, Timeout: 15 * time.Minute})
	if err != nil {
		return err
	}
	if res.Violated != "" || res.Distinct != int64(len(trace))+1 {
		at := int(res.Distinct) - 1
		ctx := ""
		if at >= 0 && at < len(trace) {
			b, _ := json.Marshal(trace[at])
			ctx = string(b)
		}
		c.Violation("registry-trace-rejected", fmt.Sprintf("registry trace not explainable by GlsTrace.tla: %d of %d events accepted, next event %s", at, len(trace), ctx),
			map[string]interface{}{"accepted": at, "event": ctx})
	}
	c.Assume("registry events are numbered under the registry's own spin lock (verif hook); allocation ownership is asserted on line; identity uniqueness is checked among goroutines held alive together")
	return nil
}

// c33Result is what a driver child process reports.
type c33Result struct {
	FuncErr    string     `json:"func_err"`
	Allocs     int64      `json:"allocs"`
	Foreign    int64      `json:"foreign"`
	BadAlloc   int64      `json:"bad_alloc"`
	FirstBad   string     `json:"first_bad"`
	SeqError   string     `json:"seq_error"`
	Goroutines int        `json:"goroutines"`
	Events     []c33Event `json:"events"`
}

// c33Sub: `vcheck C33 sub <driver index> <scale> <event limit>`
func c33Sub(args []string) int {
	var di, scale, limit int
	if len(args) < 3 {
		return 2
	}
	fmt.Sscan(args[0], &di)
	fmt.Sscan(args[1], &scale)
	fmt.Sscan(args[2], &limit)
	d := c33Drivers()[di]
	rec := &c33Recorder{ids: map[uintptr]int{}, runs: map[*fast.Run]int{}, limit: limit}
	g := gm.New()
	if r := g.Eval(c33Decls); r.Panicked {
		fmt.Fprintln(os.Stderr, "driver declarations failed:", r.Panic)
		return 2
	}
	rec.mainGoid = gls.GoID()
	snap := fast.VerifSnapshot(g.Ir)
	// the creator's run is registered by fast.New() before hooks can see it
	rec.events = append(rec.events, c33Event{Op: "reset"}, c33Event{Op: "store", Goid: rec.id(snap.Goid), Run: 1000000, RunGoid: rec.id(snap.Goid)})
	rec.install()
	ferr := d.run(g, scale)
	c33Uninstall()
	b, _ := json.Marshal(c33Result{FuncErr: ferr, Allocs: rec.allocs, Foreign: rec.foreign, BadAlloc: rec.badAlloc, FirstBad: rec.firstBad,
		SeqError: rec.seqError, Goroutines: len(rec.ids), Events: rec.events})
	os.Stdout.Write(b)
	return 0
}

func addInt(x interface{}, d int64) int64 {
	if v, ok := x.(int64); ok {
		return v + d
	}
	return d
}

func selfTestC33(c *core.Ctx) error {
	r, err := c.TLC(core.TLCOpts{Spec: "Gls", CfgName: "broken-no-goid-check", Cfg: c33Cfg(false, true, false), ExpectError: true})
	if err != nil {
		return err
	}
	if r.Violated != "Ownership" {
		return fmt.Errorf("broken variant (no identity test at frame allocation) not caught: %q", r.Violated)
	}
	// corrupted trace must be rejected
	bad := `{"op":"reset","goid":0,"run":0,"rungoid":0,"found":false}
{"op":"store","goid":1,"run":5,"rungoid":1,"found":true}
{"op":"get","goid":1,"run":0,"rungoid":0,"found":false}
`
	r, err = c.TLC(core.TLCOpts{Spec: "GlsTrace", CfgName: "corrupted-trace", Workers: 1, Cfg: "SPECIFICATION Spec\nPOSTCONDITION Accepted\n",
		ExtraFiles: map[string]string{"gls_trace.ndjson": bad}, ExpectError: true})
	if err != nil {
		return err
	}
	if r.Violated == "" && r.Distinct == 4 {
		return fmt.Errorf("corrupted registry trace accepted")
	}
	return nil
}

package props

import (
	"encoding/json"
	"fmt"
	"go/token"
	stdtypes "go/types"
	"sort"
	"strings"
	"sync"
	"time"

	"github.com/cosmos72/gomacro/go/types"
	"github.com/cosmos72/gomacro/go/typeutil"

	"verif/harness/core"
	"verif/harness/show"
)

// C28: type identity, type hash, type-keyed map. Spec: spec/types/TypeId.tla.
// (M) TLC checks on every generated term that Id is reflexive, symmetric, transitive (both
//     for the Go rule and for typeutil's documented rule, and that the latter refines the
//     former), and the association-list laws of the map model.
// (R) every term is built with the real constructors of gomacro's go/types (two pointer-
//     distinct instances), every ordered pair goes through typeutil.Identical and Hasher.Hash;
//     TLC map histories (BFS + seeded simulation) are replayed on typeutil.Map.
// (G) the Go-rule answers of the model are gated against the standard library's go/types.

func init() {
	core.Register(&core.Prop{
		ID: "C28",
		Rule: "TLC generates the term universe (basic, named with shared declarations, pointer, slice, array, map, chan, func, struct, interface with embedded declarations) and one row of the identity matrix per term; " +
			"a case is one ordered pair of terms (three instance combinations) or one step of a map history; " +
			"non-trivial = the two terms have the same outermost constructor and arities (identity is decided inside the components) or the map step finds / changes an entry; distinct by term pair or history prefix",
		Run:      runC28,
		Replay:   replayC28,
		SelfTest: selfTestC28,
	})
}

const c28Workers = 6

type c28Row struct {
	T        string     `json:"t"`
	I        int        `json:"i"`
	N        int        `json:"n"`
	Term     *c28Term   `json:"term"`
	Gm       []int      `json:"gm"`
	Go       []int      `json:"go"`
	Objs     []c28Obj   `json:"objs"`
	Pkgs     []string   `json:"pkgs"`
	Exported []string   `json:"exported"`
	Keys     []*c28Term `json:"keys"`
	Kid      [][]int    `json:"kid"`
	Ops      []c28Op    `json:"ops"`
}

type c28Op struct {
	Op   string `json:"op"`
	K    int    `json:"k"`
	Inst int    `json:"inst"`
	V    int    `json:"v"`
	Ret  int    `json:"ret"`
	Obs  struct {
		Len  int   `json:"len"`
		At   []int `json:"at"`
		Keys []int `json:"keys"`
	} `json:"obs"`
}

func c28Cfg(spec string, level int, broken string, emit bool, maxOps, emitAt int, insts string, nkeys int, invs string) string {
	return fmt.Sprintf("SPECIFICATION %s\nCONSTANTS\n Level = %d\n Broken = %q\n EmitOn = %s\n Blocks = 24\n MaxOps = %d\n EmitAt = %d\n Insts = %s\n NKeys = %d\nINVARIANTS %s\n",
		spec, level, broken, strings.ToUpper(fmt.Sprint(emit)), maxOps, emitAt, insts, nkeys, invs)
}

const c28RowInvs = "Reflexive Symmetric Transitive GmRefinesGo KindsAgree EmitRows"
const c28MapInvs = "NoDupKeys ObsNow MapLaws EmitMap"

// checkDecls gates the specification's own bookkeeping against Go: the Exported set must be
// what go/token says, an embedded field must carry the name of its type.
func c28CheckDecls(d *c28Decls, terms []*c28Term) error {
	exp := map[string]bool{}
	for _, n := range d.Exported {
		exp[n] = true
	}
	check := func(name string) error {
		if token.IsExported(name) != exp[name] {
			return core.Infra("specification bug: name %q exported=%v in Go but the module's Exported set says %v", name, token.IsExported(name), exp[name])
		}
		return nil
	}
	var err error
	var walk func(t *c28Term)
	walk = func(t *c28Term) {
		for _, f := range t.Fields {
			if e := check(f.Name); e != nil {
				err = e
			}
			if f.Emb {
				b := f.Typ
				if b.K == "ptr" {
					b = b.Elem
				}
				want := b.Kind
				if b.K == "named" {
					want = d.Objs[b.Obj-1].Name
				}
				if want != f.Name {
					err = core.Infra("specification bug: embedded field %q of type %s", f.Name, f.Typ)
				}
			}
		}
		for _, m := range t.Methods {
			if e := check(m.Name); e != nil {
				err = e
			}
		}
	}
	for _, o := range d.Objs {
		if e := check(o.Name); e != nil {
			return e
		}
		walk(o.Und)
		o.Und.subterms(walk)
	}
	for _, t := range terms {
		walk(t)
		t.subterms(walk)
	}
	return err
}

// ---------------------------------------------------------------------------------------
// observation of the real code, with panics turned into values

type c28Ans struct {
	Val   bool
	Panic string // "" or the panic class
}

func (a c28Ans) String() string {
	if a.Panic != "" {
		return "panic(" + a.Panic + ")"
	}
	return fmt.Sprint(a.Val)
}

func c28PanicText(r interface{}) string {
	switch r := r.(type) {
	case error:
		return show.PanicClass(r.Error())
	case string:
		return show.PanicClass(r)
	}
	return fmt.Sprintf("%T", r)
}

func c28Identical(x, y types.Type) (a c28Ans) {
	defer func() {
		if r := recover(); r != nil {
			a = c28Ans{Panic: c28PanicText(r)}
		}
	}()
	return c28Ans{Val: typeutil.Identical(x, y)}
}

func c28Hash(h typeutil.Hasher, x types.Type) (v uint32, p string) {
	defer func() {
		if r := recover(); r != nil {
			p = c28PanicText(r)
		}
	}()
	return h.Hash(x), ""
}

func c28EmbedRel(x, y *c28Term) string {
	if x.K != "iface" || y.K != "iface" {
		return ""
	}
	switch {
	case len(x.Embeds) > len(y.Embeds):
		return ":x-embeds-more"
	case len(x.Embeds) < len(y.Embeds):
		return ":x-embeds-fewer"
	}
	return ":same-embed-count"
}

// ---------------------------------------------------------------------------------------
// the identity matrix

type c28PairCase struct {
	Kind  string   `json:"kind"` // "pair"
	Decls c28Decls `json:"decls"`
	X     *c28Term `json:"x"`
	Y     *c28Term `json:"y"`
	Gm    bool     `json:"gm"` // expected typeutil.Identical(x, y)
	Go    bool     `json:"go"` // expected by the Go rule
}

// c28PairCheck evaluates one ordered pair in a FRESH world (used to confirm and to replay):
// returns the disagreements as (signature, text).
func c28PairCheck(pc *c28PairCase) (sigs, whats []string, err error) {
	w, err := newC28World(&pc.Decls)
	if err != nil {
		return nil, nil, core.Infra("%v", err)
	}
	d := newC28Derived(w)
	var xs, ys [2]types.Type
	for i, wd := range []*c28World{w, d} {
		if xs[i], err = wd.Build(pc.X); err != nil {
			return nil, nil, core.Infra("%v", err)
		}
		if ys[i], err = wd.Build(pc.Y); err != nil {
			return nil, nil, core.Infra("%v", err)
		}
	}
	add := func(sig, what string) {
		for _, s := range sigs {
			if s == sig {
				return
			}
		}
		sigs = append(sigs, sig)
		whats = append(whats, what)
	}
	kinds := pc.X.K + "," + pc.Y.K
	rel := c28EmbedRel(pc.X, pc.Y)
	names := [2]string{"first", "second"}
	for i := 0; i < 2; i++ {
		for j := 0; j < 2; j++ {
			a := c28Identical(xs[i], ys[j])
			inst := fmt.Sprintf("(%s instance of x, %s instance of y)", names[i], names[j])
			switch {
			case a.Panic != "":
				add("identical-panics:"+kinds+rel, fmt.Sprintf("typeutil.Identical(x, y) panics [%s] %s; the specification says it returns %v\n x = %s\n y = %s", a.Panic, inst, pc.Gm, pc.X, pc.Y))
			case a.Val != pc.Gm:
				add(fmt.Sprintf("identical-mismatch:%s%s:got-%v-want-%v", kinds, rel, a.Val, pc.Gm),
					fmt.Sprintf("typeutil.Identical(x, y) = %v %s; the specification says %v (Go rule: %v)\n x = %s\n y = %s", a.Val, inst, pc.Gm, pc.Go, pc.X, pc.Y))
			}
		}
	}
	shared := typeutil.MakeHasher()
	var hs []uint32
	for _, t := range []types.Type{xs[0], ys[0], xs[1], ys[1]} {
		for _, h := range []typeutil.Hasher{shared, typeutil.MakeHasher()} {
			v, p := c28Hash(h, t)
			if p != "" {
				add("hash-panics:"+kinds, fmt.Sprintf("Hasher.Hash panics [%s] on an instance of\n x = %s\n or y = %s", p, pc.X, pc.Y))
			}
			hs = append(hs, v)
		}
	}
	// hs = x0 x0' y0 y0' x1 x1' y1 y1': all instances of one term must agree (a term is identical to itself)
	if hs[0] != hs[1] || hs[0] != hs[4] || hs[0] != hs[5] {
		add("hash-differs-for-identical:"+pc.X.K+","+pc.X.K, fmt.Sprintf("two instances of one type hash differently (%v)\n x = %s", []uint32{hs[0], hs[1], hs[4], hs[5]}, pc.X))
	}
	if pc.Gm && (hs[0] != hs[2] || hs[0] != hs[3] || hs[0] != hs[6] || hs[0] != hs[7]) {
		add("hash-differs-for-identical:"+kinds, fmt.Sprintf("identical types hash differently: Hash(x) = %d, Hash(y) = %d\n x = %s\n y = %s", hs[0], hs[2], pc.X, pc.Y))
	}
	return
}

type c28Universe struct {
	decls c28Decls
	n     int
	terms []*c28Term // 1-based
	gm    [][]int32  // sorted rows
	gos   [][]int32
}

func c28Has(row []int32, j int) bool {
	k := sort.Search(len(row), func(i int) bool { return int(row[i]) >= j })
	return k < len(row) && int(row[k]) == j
}

func (u *c28Universe) add(r *c28Row) error {
	if r.I < 1 || r.I > u.n || u.terms[r.I] != nil || r.Term == nil {
		return core.Infra("bad row record from TLC: i=%d n=%d", r.I, u.n)
	}
	u.terms[r.I] = r.Term
	conv := func(s []int) []int32 {
		o := make([]int32, len(s))
		for i, v := range s {
			o[i] = int32(v)
		}
		sort.Slice(o, func(a, b int) bool { return o[a] < o[b] })
		return o
	}
	u.gm[r.I] = conv(r.Gm)
	u.gos[r.I] = conv(r.Go)
	return nil
}

// c28CheckUniverse runs the all-pairs comparison. Returns an Infra error or nil; violations
// go through c.Violation after confirmation in a fresh world.
func c28CheckUniverse(c *core.Ctx, u *c28Universe) error {
	n := u.n
	for i := 1; i <= n; i++ {
		if u.terms[i] == nil {
			return core.Infra("TLC did not print row %d of %d", i, n)
		}
	}
	if err := c28CheckDecls(&u.decls, u.terms[1:]); err != nil {
		return err
	}
	wa, err := newC28World(&u.decls)
	if err != nil {
		return core.Infra("%v", err)
	}
	wb := newC28Derived(wa)
	sa, err := newC28Std(&u.decls)
	if err != nil {
		return core.Infra("standard go/types: %v", err)
	}
	sb := newC28StdDerived(sa)
	A := make([]types.Type, n+1)
	B := make([]types.Type, n+1)
	SA := make([]stdtypes.Type, n+1)
	SB := make([]stdtypes.Type, n+1)
	index := map[string]int{}
	for i := 1; i <= n; i++ {
		t := u.terms[i]
		if A[i], err = wa.Build(t); err != nil {
			return core.Infra("%v", err)
		}
		if B[i], err = wb.Build(t); err != nil {
			return core.Infra("%v", err)
		}
		if SA[i], err = sa.Build(t); err != nil {
			return core.Infra("standard go/types: %v", err)
		}
		if SB[i], err = sb.Build(t); err != nil {
			return core.Infra("standard go/types: %v", err)
		}
		index[t.key()] = i
	}
	// hashes: one shared (memoising) hasher, and a fresh hasher per term
	shared := typeutil.MakeHasher()
	hA := make([]uint32, n+1)
	hB := make([]uint32, n+1)
	hF := make([]uint32, n+1)
	hashPanic := make([]string, n+1)
	for i := 1; i <= n; i++ {
		var p1, p2, p3 string
		hA[i], p1 = c28Hash(shared, A[i])
		hB[i], p2 = c28Hash(shared, B[i])
		hF[i], p3 = c28Hash(typeutil.MakeHasher(), A[i])
		hashPanic[i] = p1 + p2 + p3
	}
	// gate: the Go-rule rows against the standard library, row by row
	bad := make([]bool, n+1)
	var mu sync.Mutex
	gateMsgs := 0
	core.ParDo(n, c28Workers, func(k int) {
		i := k + 1
		ok := true
		for j := 1; j <= n; j++ {
			want := c28Has(u.gos[i], j)
			g1 := stdtypes.Identical(SA[i], SA[j])
			g2 := stdtypes.Identical(SA[i], SB[j])
			if g1 != want || g2 != want {
				ok = false
				mu.Lock()
				if gateMsgs < 5 {
					gateMsgs++
					fmt.Printf("GATE: go/types.Identical = %v/%v, specification (Go rule) says %v for\n  x = %s\n  y = %s\n", g1, g2, want, u.terms[i], u.terms[j])
				}
				mu.Unlock()
			}
		}
		c.Gate(ok)
		if !ok {
			bad[i] = true
		}
	})
	// conformance: every ordered pair
	type viol struct{ i, j int }
	var viols []viol
	var evals, hashChecked int64
	core.ParDo(n, c28Workers, func(k int) {
		i := k + 1
		if bad[i] {
			return
		}
		x := u.terms[i]
		shx := x.shape()
		var local []viol
		var ev, hc int64
		for j := 1; j <= n; j++ {
			if bad[j] {
				continue
			}
			want := c28Has(u.gm[i], j)
			a1 := c28Identical(A[i], A[j])
			a2 := c28Identical(A[i], B[j])
			a3 := c28Identical(B[i], A[j])
			ev++
			okk := a1.Panic == "" && a2.Panic == "" && a3.Panic == "" && a1.Val == want && a2.Val == want && a3.Val == want
			if want {
				hc++
				if hA[i] != hA[j] || hA[i] != hB[j] || hA[i] != hF[j] {
					okk = false
				}
			}
			if i == j && hashPanic[i] != "" {
				okk = false
			}
			if !okk {
				local = append(local, viol{i, j})
			}
			if shx == u.terms[j].shape() {
				c.Case(fmt.Sprintf("%d|%d|%d", n, i, j), true)
			}
		}
		mu.Lock()
		viols = append(viols, local...)
		evals += ev
		hashChecked += hc
		mu.Unlock()
	})
	trivial := evals - c.Evaluations
	if trivial > 0 {
		c.Evaluations += trivial // pairs with different outermost shapes: counted, not distinct
	}
	c.Trace() // one identity matrix compared with the implementation
	if x, ok := c.Extra["pairs_checked"].(int64); ok {
		evals += x
	}
	c.Extra["pairs_checked"] = evals
	c.Extra["identical_pairs_hash_checked"] = hashChecked
	c.Extra["terms"] = n
	if len(viols) == 0 {
		return nil
	}
	// root causes: a disagreement on (x, y) is derived when some pair of proper sub-terms
	// already disagrees
	vset := map[viol]bool{}
	for _, v := range viols {
		vset[v] = true
	}
	subs := map[int][]int{}
	subOf := func(i int) []int {
		if s, ok := subs[i]; ok {
			return s
		}
		seen := map[int]bool{}
		var s []int
		u.terms[i].subterms(func(t *c28Term) {
			if k, ok := index[t.key()]; ok && !seen[k] {
				seen[k] = true
				s = append(s, k)
			}
		})
		subs[i] = s
		return s
	}
	var roots []viol
	for _, v := range viols {
		derived := false
		for _, a := range subOf(v.i) {
			for _, b := range subOf(v.j) {
				if vset[viol{a, b}] {
					derived = true
				}
			}
		}
		if !derived {
			roots = append(roots, v)
		}
	}
	sort.Slice(roots, func(a, b int) bool {
		la := len(u.terms[roots[a].i].key()) + len(u.terms[roots[a].j].key())
		lb := len(u.terms[roots[b].i].key()) + len(u.terms[roots[b].j].key())
		if la != lb {
			return la < lb
		}
		if roots[a].i != roots[b].i {
			return roots[a].i < roots[b].i
		}
		return roots[a].j < roots[b].j
	})
	c.Extra["disagreeing_pairs"] = len(viols)
	c.Extra["disagreeing_pairs_root"] = len(roots)
	perSig := map[string]int{}
	for _, v := range roots {
		pc := &c28PairCase{Kind: "pair", Decls: u.decls, X: u.terms[v.i], Y: u.terms[v.j],
			Gm: c28Has(u.gm[v.i], v.j), Go: c28Has(u.gos[v.i], v.j)}
		// confirm in a fresh world
		sigs, whats, err := c28PairCheck(pc)
		if err != nil {
			return err
		}
		if len(sigs) == 0 {
			return core.Infra("disagreement on pair (%s, %s) not reproducible in a fresh world", pc.X, pc.Y)
		}
		for k, sig := range sigs {
			perSig[sig]++
			if perSig[sig] <= 2 {
				c.Violation(sig, whats[k], pc)
			} else {
				c.Violation(sig, "", nil) // counted by the backbone, not printed
			}
		}
	}
	return nil
}

// ---------------------------------------------------------------------------------------
// the map

type c28MapCase struct {
	Kind  string     `json:"kind"` // "map"
	Decls c28Decls   `json:"decls"`
	Keys  []*c28Term `json:"keys"`
	Kid   [][]int    `json:"kid"`
	Ops   []c28Op    `json:"ops"`
}

type c28Keys struct {
	decls c28Decls
	terms []*c28Term
	kid   [][]int
	class []int // class representative (smallest identical key), 1-based
	raw   string
	inst  *c28KeyInst // instances shared by the histories of a run (a confirmation builds its own)
}

type c28KeyInst struct {
	inst  [2][]types.Type // [instance][key], 1-based
	where map[types.Type]int
}

func (k *c28Keys) build() (*c28KeyInst, error) {
	w, e := newC28World(&k.decls)
	if e != nil {
		return nil, core.Infra("%v", e)
	}
	d := newC28Derived(w)
	nk := len(k.terms)
	ki := &c28KeyInst{inst: [2][]types.Type{make([]types.Type, nk+1), make([]types.Type, nk+1)}, where: map[types.Type]int{}}
	for a := 1; a <= nk; a++ {
		for i, wd := range []*c28World{w, d} {
			t, e := wd.Build(k.terms[a-1])
			if e != nil {
				return nil, core.Infra("%v", e)
			}
			ki.inst[i][a] = t
			ki.where[t] = a
		}
	}
	return ki, nil
}

func (k *c28Keys) init() {
	k.class = make([]int, len(k.terms)+1)
	for a := 1; a <= len(k.terms); a++ {
		rep := a
		for _, b := range k.kid[a-1] {
			if b < rep {
				rep = b
			}
		}
		k.class[a] = rep
	}
}

func c28Protect(what string, f func()) (p string) {
	defer func() {
		if r := recover(); r != nil {
			p = what + " panics [" + c28PanicText(r) + "]"
		}
	}()
	f()
	return ""
}

// c28MapReplay replays one history on a fresh typeutil.Map (count=true: over the key instances
// of the run; count=false, i.e. confirmation / replay: over freshly built keys); returns the
// first disagreement (signature, text) or "".
func c28MapReplay(c *core.Ctx, ks *c28Keys, ops []c28Op, hasher *typeutil.Hasher, count bool) (sig, what string, err error) {
	ki := ks.inst
	if ki == nil || !count {
		if ki, err = ks.build(); err != nil {
			return "", "", err
		}
	}
	nk := len(ks.terms)
	inst, where := ki.inst, ki.where
	var m typeutil.Map
	if hasher != nil {
		m.SetHasher(*hasher)
	}
	native := map[int]int{} // the Go gate: a built-in map keyed by identity class
	val := func(x interface{}) int {
		if x == nil {
			return 0
		}
		return x.(int)
	}
	fail := func(i int, op c28Op, s, format string, a ...interface{}) (string, string, error) {
		return "map:" + op.Op + ":" + s, fmt.Sprintf("step %d %s(%s instance %d): ", i, op.Op, ks.terms[op.K-1], op.Inst) + fmt.Sprintf(format, a...), nil
	}
	gateOK := true
	for i, op := range ops {
		if op.K < 1 || op.K > nk || op.Inst < 1 || op.Inst > 2 || len(op.Obs.At) != nk {
			return "", "", core.Infra("bad map record from TLC")
		}
		key := inst[op.Inst-1][op.K]
		var ret int
		p := c28Protect("Map."+op.Op, func() {
			switch op.Op {
			case "set":
				ret = val(m.Set(key, op.V))
			case "del":
				if m.Delete(key) {
					ret = 1
				}
			case "at":
				ret = val(m.At(key))
			}
		})
		if p != "" {
			return fail(i, op, "panics", "%s", p)
		}
		// native gate
		rep := ks.class[op.K]
		nret := native[rep]
		switch op.Op {
		case "set":
			native[rep] = op.V
		case "del":
			if _, ok := native[rep]; ok {
				nret = 1
			}
			delete(native, rep)
		}
		if nret != op.Ret || len(native) != op.Obs.Len {
			gateOK = false
		}
		if count {
			c.Case(fmt.Sprintf("m%d|%v", nk, ops[:i+1]), op.Op == "set" || op.Ret != 0)
		}
		if ret != op.Ret {
			return fail(i, op, "result", "returned %d, the specification says %d", ret, op.Ret)
		}
		if m.Len() != op.Obs.Len {
			return fail(i, op, "len", "Len() = %d afterwards, the specification says %d", m.Len(), op.Obs.Len)
		}
		for a := 1; a <= nk; a++ {
			for k := 0; k < 2; k++ {
				var got int
				if p := c28Protect("Map.At", func() { got = val(m.At(inst[k][a])) }); p != "" {
					return fail(i, op, "at-panics", "%s on key %s", p, ks.terms[a-1])
				}
				if got != op.Obs.At[a-1] {
					return fail(i, op, "at", "afterwards At(%s instance %d) = %d, the specification says %d", ks.terms[a-1], k+1, got, op.Obs.At[a-1])
				}
				if native[ks.class[a]] != op.Obs.At[a-1] {
					gateOK = false
				}
			}
		}
		// Keys / Iterate: a permutation of the stored keys, compared as identity classes
		want := map[int]bool{}
		for _, a := range op.Obs.Keys {
			want[ks.class[a]] = true
		}
		keys := m.Keys()
		got := map[int]bool{}
		for _, kt := range keys {
			a, ok := where[kt]
			if !ok {
				return fail(i, op, "keys", "Keys() returns a type that was never inserted: %v", kt)
			}
			got[ks.class[a]] = true
		}
		if len(keys) != op.Obs.Len || len(got) != len(want) {
			return fail(i, op, "keys", "Keys() has %d entries in %d identity classes, the specification says %d entries", len(keys), len(got), op.Obs.Len)
		}
		for r := range want {
			if !got[r] {
				return fail(i, op, "keys", "Keys() misses the class of %s", ks.terms[r-1])
			}
		}
		visits := 0
		okIter := true
		m.Iterate(func(kt types.Type, v interface{}) {
			visits++
			if a, ok := where[kt]; !ok || val(v) != op.Obs.At[a-1] {
				okIter = false
			}
		})
		if visits != op.Obs.Len || !okIter {
			return fail(i, op, "iterate", "Iterate visits %d entries (values consistent: %v), the specification says %d", visits, okIter, op.Obs.Len)
		}
	}
	if count {
		c.Gate(gateOK)
		c.Trace()
	}
	return "", "", nil
}

func c28MapVerdict(c *core.Ctx, ks *c28Keys, ops []c28Op, hasher *typeutil.Hasher) error {
	sig, what, err := c28MapReplay(c, ks, ops, hasher, true)
	if err != nil || sig == "" {
		return err
	}
	// confirm: fresh keys, fresh map, private hasher
	sig2, what2, err := c28MapReplay(c, ks, ops, nil, false)
	if err != nil {
		return err
	}
	if sig2 == "" {
		return core.Infra("map disagreement not reproducible: %s", what)
	}
	c.Violation(sig2, what2, &c28MapCase{Kind: "map", Decls: ks.decls, Keys: ks.terms, Kid: ks.kid, Ops: ops})
	return nil
}

// ---------------------------------------------------------------------------------------

func runC28(c *core.Ctx) error {
	var firstErr error
	var u *c28Universe
	var ks *c28Keys
	hasher := typeutil.MakeHasher()
	nhist := 0
	handle := func(line []byte) {
		if firstErr != nil {
			return
		}
		var r c28Row
		if err := json.Unmarshal(line, &r); err != nil {
			firstErr = core.Infra("bad record from TLC: %v", err)
			return
		}
		switch r.T {
		case "meta":
			u = &c28Universe{decls: c28Decls{Objs: r.Objs, Pkgs: r.Pkgs, Exported: r.Exported}, n: r.N,
				terms: make([]*c28Term, r.N+1), gm: make([][]int32, r.N+1), gos: make([][]int32, r.N+1)}
		case "row":
			if u == nil {
				firstErr = core.Infra("row before meta record")
				return
			}
			if r.I%97 == 0 {
				c.Sample(json.RawMessage(append([]byte(nil), line...)))
			}
			firstErr = u.add(&r)
		case "keys":
			if ks != nil && ks.raw == string(line) {
				return
			}
			ks = &c28Keys{decls: c28Decls{Objs: r.Objs, Pkgs: r.Pkgs, Exported: r.Exported}, terms: r.Keys, kid: r.Kid, raw: string(line)}
			ks.init()
			if firstErr = c28CheckDecls(&ks.decls, ks.terms); firstErr != nil {
				return
			}
			if ks.inst, firstErr = ks.build(); firstErr != nil {
				return
			}
			// coverage: non-identical keys whose real hashes collide share a bucket of the Map
			coll := 0
			hh := typeutil.MakeHasher()
			for a := 1; a <= len(ks.terms); a++ {
				for b := a + 1; b <= len(ks.terms); b++ {
					ha, _ := c28Hash(hh, ks.inst.inst[0][a])
					hb, _ := c28Hash(hh, ks.inst.inst[0][b])
					if ha == hb && ks.class[a] != ks.class[b] {
						coll++
					}
				}
			}
			c.Extra[fmt.Sprintf("map_keys_%d_nonidentical_pairs_in_one_bucket", len(ks.terms))] = coll
		case "hist":
			if ks == nil {
				firstErr = core.Infra("history before keys record")
				return
			}
			nhist++
			if nhist%4001 == 0 {
				c.Sample(json.RawMessage(append([]byte(nil), line...)))
			}
			var h *typeutil.Hasher
			if nhist%2 == 0 {
				h = &hasher // hasher shared by many maps
			}
			firstErr = c28MapVerdict(c, ks, r.Ops, h)
		default:
			firstErr = core.Infra("unknown record type %q", r.T)
		}
	}
	// (M)+(R) identity: all terms, all pairs
	t0 := time.Now()
	_, err := c.TLC(core.TLCOpts{Spec: "TypeId", CfgName: "identity-rows", Workers: c28Workers,
		Cfg:    c28Cfg("SpecRows", c.Pick(1, 2), "none", true, 0, 0, "{1}", 4, c28RowInvs),
		OnLine: handle, Coverage: false})
	if err != nil {
		return err
	}
	if firstErr != nil {
		return firstErr
	}
	if u == nil {
		return core.Infra("TLC printed no universe")
	}
	c.Extra["tlc_rows_s"] = time.Since(t0).Seconds()
	if err := c28CheckUniverse(c, u); err != nil {
		return err
	}
	c.Exhaustive = true
	// (M)+(R) map: every history up to the bound (BFS) ...
	_, err = c.TLC(core.TLCOpts{Spec: "TypeId", CfgName: "map-bfs", Workers: c28Workers,
		Cfg:    c28Cfg("SpecMap", 1, "none", true, 4, 4, "{1}", c.Pick(4, 8), c28MapInvs),
		OnLine: handle})
	if err != nil {
		return err
	}
	if firstErr != nil {
		return firstErr
	}
	// ... and seeded random histories with interleaved At, both key instances, all keys
	depth := c.Pick(12, 30)
	_, err = c.TLC(core.TLCOpts{Spec: "TypeId", CfgName: "map-sim", Workers: c28Workers,
		Cfg:      c28Cfg("SpecMapL", 1, "none", true, depth, depth, "{1, 2}", 12, c28MapInvs),
		Simulate: true, SimNum: c.Pick(10, 80), SimDepth: depth + 1, Seed: c.Seed, OnLine: handle})
	if err != nil {
		return err
	}
	c.Extra["map_histories"] = nhist
	c.Assume("interfaces are completed (Interface.Complete) before use, as go/types requires; embedded interface types are declared (named) types, as typeutil's comment states; a method name is declared once per interface; no negative array lengths; signatures of function types have no receiver")
	c.Assume("typeutil's documented interface rule (explicit methods + embedded declarations) is taken as the meaning of Identical; TLC proves it refines the Go rule, which is gated against the standard library")
	return firstErr
}

func replayC28(c *core.Ctx, raw json.RawMessage) error {
	var k struct {
		Kind string `json:"kind"`
	}
	if err := json.Unmarshal(raw, &k); err != nil {
		return err
	}
	switch k.Kind {
	case "pair":
		var pc c28PairCase
		if err := json.Unmarshal(raw, &pc); err != nil {
			return err
		}
		sigs, whats, err := c28PairCheck(&pc)
		if err != nil {
			return err
		}
		for i, s := range sigs {
			c.Violation(s, whats[i], &pc)
		}
		return nil
	case "map":
		var mc c28MapCase
		if err := json.Unmarshal(raw, &mc); err != nil {
			return err
		}
		ks := &c28Keys{decls: mc.Decls, terms: mc.Keys, kid: mc.Kid}
		ks.init()
		sig, what, err := c28MapReplay(c, ks, mc.Ops, nil, false)
		if err != nil {
			return err
		}
		if sig != "" {
			c.Violation(sig, what, &mc)
		}
		return nil
	}
	return core.Infra("unknown replay case kind %q", k.Kind)
}

func selfTestC28(c *core.Ctx) error {
	// broken variant: the asymmetric interface rule must violate Symmetric
	r, err := c.TLC(core.TLCOpts{Spec: "TypeId", CfgName: "broken-asym-embed", Workers: 2,
		Cfg:         c28Cfg("SpecRows", 1, "asym-embed", false, 0, 0, "{1}", 4, "Reflexive Symmetric"),
		ExpectError: true})
	if err != nil {
		return err
	}
	if r.Violated != "Symmetric" {
		return fmt.Errorf("broken variant asym-embed not detected by TLC (violated=%q)\n%s", r.Violated, r.Output)
	}
	// the same broken rule must also break the map laws
	r, err = c.TLC(core.TLCOpts{Spec: "TypeId", CfgName: "broken-asym-embed-map", Workers: 2,
		Cfg:         c28Cfg("SpecMap", 1, "asym-embed", false, 3, 3, "{1}", 8, "MapLaws"),
		ExpectError: true})
	if err != nil {
		return err
	}
	if r.Violated != "MapLaws" {
		return fmt.Errorf("broken variant asym-embed does not break the map laws (violated=%q)", r.Violated)
	}
	// a correct pair record is accepted, corrupted ones are rejected
	res, err := c.TLC(core.TLCOpts{Spec: "TypeId", CfgName: "selftest-keys", Workers: 1,
		Cfg: c28Cfg("SpecMap", 1, "none", true, 1, 1, "{1}", 8, c28MapInvs)})
	if err != nil {
		return err
	}
	var ks *c28Keys
	var hist *c28Row
	for _, l := range res.Lines {
		var rr c28Row
		if json.Unmarshal(l, &rr) != nil {
			continue
		}
		if rr.T == "keys" {
			ks = &c28Keys{decls: c28Decls{Objs: rr.Objs, Pkgs: rr.Pkgs, Exported: rr.Exported}, terms: rr.Keys, kid: rr.Kid}
			ks.init()
		} else if rr.T == "hist" && rr.Ops[0].Op == "set" && rr.Ops[0].K == 3 {
			h := rr
			hist = &h
		}
	}
	if ks == nil || hist == nil {
		return fmt.Errorf("no keys / history record printed")
	}
	// keys 3,4 = uint8, byte (identical); 1,2 = [3]int, []int8 (not identical)
	good := &c28PairCase{Kind: "pair", Decls: ks.decls, X: ks.terms[2], Y: ks.terms[3], Gm: true, Go: true}
	if s, _, err := c28PairCheck(good); err != nil || len(s) != 0 {
		return fmt.Errorf("correct pair record rejected: %v %v", s, err)
	}
	badp := *good
	badp.Gm = false
	if s, _, _ := c28PairCheck(&badp); len(s) == 0 {
		return fmt.Errorf("corrupted pair record (identical types expected non-identical) accepted")
	}
	bad2 := &c28PairCase{Kind: "pair", Decls: ks.decls, X: ks.terms[0], Y: ks.terms[1], Gm: true, Go: true}
	if s, _, _ := c28PairCheck(bad2); len(s) == 0 {
		return fmt.Errorf("corrupted pair record (distinct types expected identical) accepted")
	}
	if s, w, err := c28MapReplay(c, ks, hist.Ops, nil, false); err != nil || s != "" {
		return fmt.Errorf("correct map history rejected: %s %s %v", s, w, err)
	}
	ops := append([]c28Op(nil), hist.Ops...)
	ops[0].Obs.At = append([]int(nil), ops[0].Obs.At...)
	ops[0].Obs.At[3] = 0 // At(byte) after Set(uint8) must find the entry
	if s, _, _ := c28MapReplay(c, ks, ops, nil, false); s == "" {
		return fmt.Errorf("corrupted map history accepted")
	}
	return nil
}

package props

import (
	"encoding/json"
	"fmt"
	"math"
	"reflect"
	"strconv"
	"strings"

	"github.com/cosmos72/gomacro/fast"

	"verif/harness/core"
	"verif/harness/gm"
	"verif/harness/show"
)

// ---------------------------------------------------------------------------------------
// values: c01Val extended with the complex kinds (Bits = float64 bits of the real part,
// Im = float64 bits of the imaginary part; complex64 parts are widened exactly)

type c02Val struct {
	c01Val
	Im uint64
}

var c02Kinds = append(append([]string{}, c01Kinds...), "complex64", "complex128")

func c02IsCplx(kind string) bool { return strings.HasPrefix(kind, "complex") }

func c02V(kind string, bits uint64) c02Val { return c02Val{c01Val: c01Val{Kind: kind, Bits: bits}} }

func c02Decode(kind string, raw json.RawMessage) (c02Val, error) {
	if !c02IsCplx(kind) {
		v, err := c01Decode(kind, raw)
		return c02Val{c01Val: v}, err
	}
	var parts struct {
		Re json.RawMessage `json:"re"`
		Im json.RawMessage `json:"im"`
	}
	if err := json.Unmarshal(raw, &parts); err != nil {
		return c02Val{}, fmt.Errorf("complex value %s: %v", raw, err)
	}
	pk := "float64"
	if kind == "complex64" {
		pk = "float32"
	}
	re, err := c01Decode(pk, parts.Re)
	if err != nil {
		return c02Val{}, err
	}
	im, err := c01Decode(pk, parts.Im)
	if err != nil {
		return c02Val{}, err
	}
	return c02Val{c01Val: c01Val{Kind: kind, Bits: math.Float64bits(re.Float())}, Im: math.Float64bits(im.Float())}, nil
}

func (v c02Val) Complex() complex128 {
	return complex(math.Float64frombits(v.Bits), math.Float64frombits(v.Im))
}

func c02FloatEq(a, b float64) bool {
	if math.IsNaN(a) || math.IsNaN(b) {
		return math.IsNaN(a) && math.IsNaN(b)
	}
	return math.Float64bits(a) == math.Float64bits(b)
}

func (v c02Val) Equal(w c02Val) bool {
	if c02IsCplx(v.Kind) {
		return v.Kind == w.Kind && c02FloatEq(real(v.Complex()), real(w.Complex())) && c02FloatEq(imag(v.Complex()), imag(w.Complex()))
	}
	return v.c01Val.Equal(w.c01Val)
}

func c02FloatText(f float64) string {
	if f == 0 && math.Signbit(f) {
		return "-0"
	}
	return strconv.FormatFloat(f, 'g', -1, 64)
}

func (v c02Val) Text() string {
	if c02IsCplx(v.Kind) {
		return "(" + c02FloatText(real(v.Complex())) + "," + c02FloatText(imag(v.Complex())) + ")"
	}
	return v.c01Val.Text()
}

// c02Lit renders the typed constant T(c); c02Untyped the untyped constant.
func c02Lit(v c02Val) string {
	if c02IsCplx(v.Kind) {
		return fmt.Sprintf("%s(complex(%s, %s))", v.Kind, c02FloatText(real(v.Complex())), c02FloatText(imag(v.Complex())))
	}
	return c01Lit(v.c01Val)
}

func c02Untyped(v c02Val) string {
	switch {
	case c02IsCplx(v.Kind):
		im := c02FloatText(imag(v.Complex()))
		if !strings.HasPrefix(im, "-") {
			im = "+" + im
		}
		return "(" + c02FloatText(real(v.Complex())) + im + "i)"
	case v.Kind == "string":
		return strconv.Quote(v.Str)
	case c01IsFloat(v.Kind):
		s := strconv.FormatFloat(v.Float(), 'g', -1, 64)
		if !strings.ContainsAny(s, ".e") {
			s += ".0"
		}
		return s
	}
	return v.c01Val.Text()
}

// c02Show projects the value as show.Show does for the Go value (floats by bit pattern,
// NaN normalised).
func c02Show(v c02Val) string {
	switch {
	case c02IsCplx(v.Kind):
		return fmt.Sprintf("%s:%016x,%016x", v.Kind, v.Bits, v.Im)
	case v.Kind == "string":
		return fmt.Sprintf("string:%q", v.Str)
	case v.Kind == "bool":
		return fmt.Sprintf("bool:%v", v.Bits != 0)
	case v.IsNaN():
		return v.Kind + ":NaN"
	case v.Kind == "float32":
		return fmt.Sprintf("float32:%08x", uint32(v.Bits))
	case v.Kind == "float64":
		return fmt.Sprintf("float64:%016x", v.Bits)
	}
	return v.Kind + ":" + v.c01Val.Text()
}

// c02NormEvents replaces the bit patterns of NaNs in projected values by "NaN".
func c02NormEvent(e string) string {
	if !strings.Contains(e, "float") {
		return e
	}
	fields := strings.FieldsFunc(e, func(r rune) bool { return strings.ContainsRune(" []{},()|#", r) })
	for _, f := range fields {
		i := strings.LastIndex(f, "float32:")
		w := 32
		if i < 0 {
			i = strings.LastIndex(f, "float64:")
			w = 64
		}
		if i < 0 {
			continue
		}
		hex := f[i+8:]
		u, err := strconv.ParseUint(hex, 16, 64)
		if err != nil {
			continue
		}
		isNaN := (w == 32 && math.IsNaN(float64(math.Float32frombits(uint32(u))))) || (w == 64 && math.IsNaN(math.Float64frombits(u)))
		if isNaN {
			e = strings.ReplaceAll(e, f[i:], f[i:i+8]+"NaN")
		}
	}
	return e
}

func c02SetRV(p reflect.Value, v c02Val) {
	switch {
	case c02IsCplx(v.Kind):
		p.SetComplex(v.Complex())
	case v.Kind == "string":
		p.SetString(v.Str)
	case v.Kind == "bool":
		p.SetBool(v.Bits != 0)
	case c01IsFloat(v.Kind):
		p.SetFloat(v.Float())
		if v.Kind == "float32" && v.IsNaN() {
			p.Set(reflect.ValueOf(math.Float32frombits(uint32(v.Bits))))
		}
	case c01IsSigned(v.Kind):
		p.SetInt(v.Signed())
	default:
		p.SetUint(v.Bits)
	}
}

func c02GoValue(v c02Val) reflect.Value {
	p := reflect.New(c02GoType(v.Kind)).Elem()
	c02SetRV(p, v)
	return p
}

var c02GoTypes = map[string]reflect.Type{
	"int8": reflect.TypeOf(int8(0)), "int16": reflect.TypeOf(int16(0)), "int32": reflect.TypeOf(int32(0)), "int64": reflect.TypeOf(int64(0)),
	"int": reflect.TypeOf(int(0)), "uint8": reflect.TypeOf(uint8(0)), "uint16": reflect.TypeOf(uint16(0)), "uint32": reflect.TypeOf(uint32(0)),
	"uint64": reflect.TypeOf(uint64(0)), "uint": reflect.TypeOf(uint(0)), "uintptr": reflect.TypeOf(uintptr(0)),
	"float32": reflect.TypeOf(float32(0)), "float64": reflect.TypeOf(float64(0)), "string": reflect.TypeOf(""), "bool": reflect.TypeOf(false),
	"complex64": reflect.TypeOf(complex64(0)), "complex128": reflect.TypeOf(complex128(0)),
}

func c02GoType(kind string) reflect.Type { return c02GoTypes[kind] }

func c02FromRV(rv reflect.Value) c02Val {
	switch rv.Kind() {
	case reflect.Complex64, reflect.Complex128:
		c := rv.Complex()
		return c02Val{c01Val: c01Val{Kind: rv.Kind().String(), Bits: math.Float64bits(real(c))}, Im: math.Float64bits(imag(c))}
	}
	return c02Val{c01Val: c01FromReflect(rv)}
}

// canary values: what the places that a statement must not touch hold
func c02Canary(kind string, j int) c02Val {
	switch {
	case c02IsCplx(kind):
		return c02Val{c01Val: c01Val{Kind: kind, Bits: math.Float64bits(float64(100 + j))}, Im: math.Float64bits(float64(-1 - j))}
	case kind == "string":
		return c02Val{c01Val: c01Val{Kind: kind, Str: fmt.Sprintf("c%d", j)}}
	case kind == "bool":
		return c02V(kind, uint64(j&1))
	case kind == "float32":
		return c02V(kind, uint64(math.Float32bits(float32(1000+j))))
	case kind == "float64":
		return c02V(kind, math.Float64bits(float64(1000+j)))
	}
	return c02V(kind, (0x5555555555555540+uint64(j))&c01Mask(kind))
}

// ---------------------------------------------------------------------------------------
// the interpreter

// c02State is the content of the globals of one kind.
type c02State struct {
	X, BX, T c02Val    // int-slot global, boxed global, target of the pointer c02p_K
	R, BR    c02Val    // right-hand side variables (of the right-hand side's kind)
	A, S     [3]c02Val // array, slice
	M        map[int]c02Val
	F, H     c02Val // struct fields
}

func (s c02State) clone() c02State {
	m := make(map[int]c02Val, len(s.M))
	for k, v := range s.M {
		m[k] = v
	}
	s.M = m
	return s
}

// c02Diff names the first slot in which two states differ ("" if none).
func (s c02State) diff(o c02State) string {
	one := func(name string, a, b c02Val) string {
		if !a.Equal(b) {
			return fmt.Sprintf("%s: expected %s, observed %s", name, a.Text(), b.Text())
		}
		return ""
	}
	checks := []string{one("x", s.X, o.X), one("bx", s.BX, o.BX), one("t", s.T, o.T), one("r", s.R, o.R), one("br", s.BR, o.BR),
		one("st.f", s.F, o.F), one("st.h", s.H, o.H)}
	for i := 0; i < 3; i++ {
		checks = append(checks, one(fmt.Sprintf("a[%d]", i), s.A[i], o.A[i]), one(fmt.Sprintf("s[%d]", i), s.S[i], o.S[i]))
	}
	for _, c := range checks {
		if c != "" {
			return c
		}
	}
	for k := 0; k < 4; k++ {
		a, ok1 := s.M[k]
		b, ok2 := o.M[k]
		if ok1 != ok2 {
			return fmt.Sprintf("m[%d]: expected present=%v, observed present=%v", k, ok1, ok2)
		}
		if ok1 {
			if c := one(fmt.Sprintf("m[%d]", k), a, b); c != "" {
				return c
			}
		}
	}
	if len(s.M) != len(o.M) {
		return fmt.Sprintf("len(m): expected %d, observed %d", len(s.M), len(o.M))
	}
	return ""
}

// c02Env is one fast interpreter prepared for C02 (same construction as c01Env: globals in
// integer slots declared first, then the slot array is saturated so that later numeric
// globals are boxed in reflect.Values).
type c02Env struct {
	g   *gm.Interp
	ptr map[string]reflect.Value
}

// names of the globals of a kind
func c02N(prefix, kind string) string { return "c02" + prefix + "_" + kind }

var c02SlotVars = []string{"x", "r", "g", "w0", "w1", "w2", "w3"} // integer slots (strings: reflect.Value slots)
var c02BoxedVars = []string{"bx", "br", "gb", "t", "wt"}          // boxed

// c02TypeDecls / c02ContainerDecls are also used by the native gate programs.
// c02KeyDecl: the struct type of the index variable / map key in the KeyBox variant of a sequence
const c02KeyDecl = "type c02K struct { A int }"

func c02TypeDecl(k string) string { return fmt.Sprintf("type c02T_%s struct { F %s; H %s }", k, k, k) }

func c02Field(st reflect.Value, i int) reflect.Value { return st.Field(i) }

func c02ContainerDecls(k string) []string {
	return []string{
		fmt.Sprintf("var c02p_%s = &c02t_%s", k, k),
		fmt.Sprintf("var c02a_%s [3]%s", k, k),
		fmt.Sprintf("var c02s_%s = make([]%s, 3)", k, k),
		fmt.Sprintf("var c02m_%s = map[int]%s{}", k, k),
		fmt.Sprintf("var c02st_%s c02T_%s", k, k),
		fmt.Sprintf("var c02pa_%s = &c02a_%s", k, k),
		fmt.Sprintf("var c02ps_%s = &c02st_%s", k, k),
		// the flat world of the statement sequences
		fmt.Sprintf("var c02wp_%s = &c02wt_%s", k, k),
		fmt.Sprintf("var c02wa_%s [2]%s", k, k),
		fmt.Sprintf("var c02ws_%s = make([]%s, 2)", k, k),
		fmt.Sprintf("var c02wm_%s = map[int]%s{}", k, k),
		fmt.Sprintf("var c02wst_%s c02T_%s", k, k),
	}
}

var c02ContainerVars = []string{"p", "a", "s", "m", "st", "pa", "ps", "wp", "wa", "ws", "wm", "wst"}

func newC02Env() (*c02Env, error) {
	e := &c02Env{g: gm.New(), ptr: map[string]reflect.Value{}}
	ir := e.g.Ir
	ev := func(src string) error {
		if r := e.g.Eval(src); r.Panicked {
			return core.Infra("C02 environment: %s: %s", src, r.Panic)
		}
		return nil
	}
	addr := func(name string) error {
		v := ir.AddressOfVar(name)
		if !v.IsValid() {
			return core.Infra("C02 environment: no address for %s", name)
		}
		e.ptr[name] = v.ReflectValue()
		return nil
	}
	declare := func(prefixes []string) error {
		for _, k := range c02Kinds {
			names := make([]string, len(prefixes))
			for i, p := range prefixes {
				names[i] = c02N(p, k)
			}
			if err := ev("var " + strings.Join(names, ", ") + " " + k); err != nil {
				return err
			}
		}
		for _, k := range c02Kinds {
			for _, p := range prefixes {
				if err := addr(c02N(p, k)); err != nil {
					return err
				}
			}
		}
		return nil
	}
	if err := declare(c02SlotVars); err != nil {
		return nil, err
	}
	if err := ev("var c02wix int"); err != nil {
		return nil, err
	}
	if err := addr("c02wix"); err != nil {
		return nil, err
	}
	// saturate the integer slots (see c01env.go)
	if err := ev("0"); err != nil {
		return nil, err
	}
	for i := 0; ir.Comp.IntBindMax == 0 || ir.Comp.IntBindNum < ir.Comp.IntBindMax; i++ {
		if ir.Comp.IntBindMax == 0 || i > 4096 {
			return nil, core.Infra("C02 environment: cannot saturate the integer slots (IntBindNum=%d IntBindMax=%d)", ir.Comp.IntBindNum, ir.Comp.IntBindMax)
		}
		if err := ev(fmt.Sprintf("var c02fill%d int", i)); err != nil {
			return nil, err
		}
	}
	if err := declare(c02BoxedVars); err != nil {
		return nil, err
	}
	if err := ev(c02KeyDecl); err != nil {
		return nil, err
	}
	for _, k := range c02Kinds {
		if err := ev(c02TypeDecl(k)); err != nil {
			return nil, err
		}
		for _, d := range c02ContainerDecls(k) {
			if err := ev(d); err != nil {
				return nil, err
			}
		}
		for _, p := range c02ContainerVars {
			if err := addr(c02N(p, k)); err != nil {
				return nil, err
			}
		}
	}
	if err := e.checkClasses(); err != nil {
		return nil, err
	}
	e.g.Out.Reset()
	return e, nil
}

func (e *c02Env) checkClasses() error {
	check := func(prefixes []string, boxed bool) error {
		for _, k := range c02Kinds {
			for _, p := range prefixes {
				name := c02N(p, k)
				sym := e.g.Ir.Comp.TryResolve(name)
				if sym == nil {
					return core.Infra("C02 environment: %s not declared", name)
				}
				want := fast.IntBind
				if boxed || k == "string" {
					want = fast.VarBind
				}
				if sym.Desc.Class() != want {
					return core.Infra("C02 environment: %s has storage class %v, want %v", name, sym.Desc.Class(), want)
				}
			}
		}
		return nil
	}
	if err := check(c02SlotVars, false); err != nil {
		return err
	}
	return check(c02BoxedVars, true)
}

func (e *c02Env) at(prefix, kind string) reflect.Value { return e.ptr[c02N(prefix, kind)].Elem() }

// arm writes a state into the globals of kind k (right-hand side variables: kind rk).
func (e *c02Env) arm(k, rk string, s c02State) {
	c02SetRV(e.at("x", k), s.X)
	c02SetRV(e.at("bx", k), s.BX)
	c02SetRV(e.at("t", k), s.T)
	c02SetRV(e.at("r", rk), s.R)
	c02SetRV(e.at("br", rk), s.BR)
	a, sl, m, st := e.at("a", k), e.at("s", k), e.at("m", k), e.at("st", k)
	for i := 0; i < 3; i++ {
		c02SetRV(a.Index(i), s.A[i])
		c02SetRV(sl.Index(i), s.S[i])
	}
	for _, key := range m.MapKeys() {
		m.SetMapIndex(key, reflect.Value{})
	}
	for key, v := range s.M {
		m.SetMapIndex(reflect.ValueOf(key), c02GoValue(v))
	}
	c02SetRV(c02Field(st, 0), s.F)
	c02SetRV(c02Field(st, 1), s.H)
}

func (e *c02Env) read(k, rk string) c02State {
	s := c02State{X: c02FromRV(e.at("x", k)), BX: c02FromRV(e.at("bx", k)), T: c02FromRV(e.at("t", k)),
		R: c02FromRV(e.at("r", rk)), BR: c02FromRV(e.at("br", rk)), M: map[int]c02Val{}}
	a, sl, m, st := e.at("a", k), e.at("s", k), e.at("m", k), e.at("st", k)
	for i := 0; i < 3 && i < sl.Len(); i++ {
		s.A[i] = c02FromRV(a.Index(i))
		s.S[i] = c02FromRV(sl.Index(i))
	}
	for _, key := range m.MapKeys() {
		s.M[int(key.Int())] = c02FromRV(m.MapIndex(key))
	}
	s.F, s.H = c02FromRV(c02Field(st, 0)), c02FromRV(c02Field(st, 1))
	return s
}

// c02Obs is what one evaluation shows.
type c02Obs struct {
	T      string   // "ok" | "p" run-time panic | "c" rejected at compile time
	Cls    string   // panic class
	Msg    string   // message of the panic / rejection
	Ret    []c02Val // values returned by the snippet (local places), flattened
	State  c02State // the globals afterwards
	Events []string // evi() calls
}

// run compiles and runs a snippet and collects the observation.
func (e *c02Env) run(src, k, rk string) (obs c02Obs) {
	ir := e.g.Ir
	e.g.ResetEvents()
	var expr *fast.Expr
	func() {
		defer func() {
			if r := recover(); r != nil {
				obs.T, obs.Msg = "c", c01Trunc(fmt.Sprint(r))
			}
		}()
		expr = ir.Compile(src)
	}()
	if obs.T == "" {
		func() {
			defer func() {
				if r := recover(); r != nil {
					msg := fmt.Sprint(r)
					if err, ok := r.(error); ok {
						msg = err.Error()
					}
					obs.T, obs.Cls, obs.Msg = "p", show.PanicClass(msg), c01Trunc(msg)
				}
			}()
			vs, _ := ir.RunExpr(expr)
			obs.T = "ok"
			for _, v := range vs {
				if v.IsValid() {
					obs.Ret = append(obs.Ret, c02Flatten(v.ReflectValue())...)
				}
			}
		}()
	}
	obs.Events = append([]string(nil), e.g.Events...)
	obs.State = e.read(k, rk)
	e.g.Out.Reset()
	return obs
}

// c02Flatten projects a returned value: a basic value, an array or a struct of basic values.
func c02Flatten(rv reflect.Value) []c02Val {
	switch rv.Kind() {
	case reflect.Array:
		var out []c02Val
		for i := 0; i < rv.Len(); i++ {
			out = append(out, c02FromRV(rv.Index(i)))
		}
		return out
	case reflect.Struct:
		if !rv.CanAddr() {
			cp := reflect.New(rv.Type()).Elem()
			cp.Set(rv)
			rv = cp
		}
		var out []c02Val
		for i := 0; i < rv.NumField(); i++ {
			out = append(out, c02FromRV(c02Field(rv, i)))
		}
		return out
	}
	return []c02Val{c02FromRV(rv)}
}

package props

import (
	"bytes"
	"encoding/json"
	"fmt"
	"go/ast"
	goparser "go/parser"
	"go/token"
	"os"
	"reflect"
	"sort"
	"strconv"
	"strings"
	"sync"
	"time"

	"github.com/cosmos72/gomacro/go/etoken"
	mparser "github.com/cosmos72/gomacro/go/parser"

	"verif/harness/core"
)

// C24: the forked parser parses extension-free Go exactly like the Go parser.
// Spec: spec/front/GoSyntax.tla (Go's grammar as data; a behaviour is a leftmost derivation that
// carries the abstract syntax tree with extents and the text).
// (M) TLC checks on every finished derivation: token extents hold the spellings, the yield of the
//     tree is the token list, extents are nested consistently, the tree implied by the layered
//     expression grammar equals the precedence-climbing tree.
// (R) the text of each derivation is parsed by gomacro's go/parser (mode 0 and ParseComments);
//     every returned top-level node is projected (kind, attributes, children, positions) and
//     compared with the derivation's tree.
// Gate: the standard library's go/parser on the same text must produce the model's tree.
// Second, model-independent oracle: fork vs go/parser directly (reflective comparison of the
// two go/ast trees, comments included).
// Invalid inputs: single-token deletions, duplications and adjacent swaps, classified by go/parser.

func init() {
	core.Register(&core.Prop{
		ID: "C24",
		Rule: "TLC enumerates leftmost derivations of Go's grammar (spec/front/GoSyntax.tla: every declaration, statement, expression and type form of Go without type parameters) - " +
			"bounded-exhaustively up to a node budget for expressions, statements, files (BFS, canonical separators) and by seeded simulation with random separators (blanks, newlines where allowed, comments), spellings and semicolon forms; " +
			"each derivation carries its syntax tree with positions; its text is parsed by gomacro's parser with and without ParseComments and every top-level node compared with the derivation's tree and with go/parser's; " +
			"then every single-token deletion, duplication and adjacent swap of the token list is classified by go/parser and gomacro's parser must report an error whenever go/parser does; " +
			"a case is one input text (derivation or mutant); non-trivial = a derivation with at least 3 tokens, or a mutant that go/parser rejects; distinct by text",
		Run:      runC24,
		Replay:   replayC24,
		SelfTest: selfTestC24,
	})
}

// ---------------------------------------------------------------- menus handed to the model

type c24Sep struct {
	Txt string
	NL  bool
	Cm  bool
}

// the first three separators are the canonical ones ("" / blank / newline)
var c24Seps = []c24Sep{
	{"", false, false}, {" ", false, false}, {"\n", true, false},
	{"  ", false, false}, {"\t", false, false}, {" \n ", true, false}, {"\r\n", true, false}, {"\n\n", true, false},
	{"/*c*/", false, true}, {" /*c*/ ", false, true}, {"/**/", false, true}, {"/*\n*/", true, true},
	{"//c\n", true, true}, {" // c\n\t", true, true}, {"/*c*/\n", true, true}, {"\n//c\n", true, false},
	{" /* a\n b */ ", true, true},
}
var c24FinalSeps = []c24Sep{
	{"", false, false}, {"\n", true, false}, {" ", false, false}, {"/*c*/", false, true}, {" //c", false, true},
	{"//c\n", true, true}, {"\n\n", true, false}, {"\n/*c*/", true, false},
}

var c24SpellClasses = []string{"IDENT", "INT", "FLOAT", "IMAG", "CHAR", "STRING", "IMPORTPATH"}

// c24Spell: class -> spellings; literal spellings come from the scanner check's menu (C23)
func c24Spell() map[string][]string {
	m := map[string][]string{}
	for _, e := range c23Menu() {
		switch e.K {
		case "IDENT", "INT", "FLOAT", "IMAG", "CHAR", "STRING":
			if strings.ContainsAny(e.Sp, "\r") {
				continue // carriage returns inside raw strings are the scanner's business (C23)
			}
			m[e.K] = append(m[e.K], e.Sp)
		}
	}
	m["IDENT"] = append([]string{"a", "b", "x", "T", "iota", "nil"}, m["IDENT"][1:]...)
	m["IMPORTPATH"] = []string{`"a"`, `"a/b.c"`, "`c_d`"}
	return m
}

func c24SepTLA(seps []c24Sep) string {
	var ss []string
	up := func(b bool) string { return strings.ToUpper(fmt.Sprint(b)) }
	for _, s := range seps {
		ss = append(ss, fmt.Sprintf("[txt |-> %s, nl |-> %s, cm |-> %s]", c23Seq(c23Codes(s.Txt)), up(s.NL), up(s.Cm)))
	}
	return "<<" + strings.Join(ss, ",\n  ") + ">>"
}

// c24Start is one <<start nonterminal, node budget>> pair of the model's constant Starts.
type c24Start struct {
	NT     string
	Budget int
}

func c24MCDefs(starts []c24Start) string {
	var b strings.Builder
	var ss []string
	for _, s := range starts {
		ss = append(ss, fmt.Sprintf("<<%q, %d>>", s.NT, s.Budget))
	}
	fmt.Fprintf(&b, "c_Starts == {%s}\n", strings.Join(ss, ", "))
	sp := c24Spell()
	var cls []string
	for _, k := range c24SpellClasses {
		var es []string
		for _, s := range sp[k] {
			es = append(es, c23Seq(c23Codes(s)))
		}
		cls = append(cls, fmt.Sprintf("(%q :> <<%s>>)", k, strings.Join(es, ", ")))
	}
	fmt.Fprintf(&b, "c_Spell == %s\n", strings.Join(cls, " @@\n  "))
	fmt.Fprintf(&b, "c_Seps == %s\nc_Final == %s\n", c24SepTLA(c24Seps), c24SepTLA(c24FinalSeps))
	return b.String()
}

type c24CfgOpts struct {
	MaxSpell int
	Canon    bool
	Rand     bool
	Broken   string
	Emit     bool
	Invs     string
}

func c24Cfg(o c24CfgOpts) string {
	up := func(b bool) string { return strings.ToUpper(fmt.Sprint(b)) }
	if o.Invs == "" {
		o.Invs = "TokensOK YieldOK TreeOK PrecAgree Emit1"
	}
	if o.MaxSpell == 0 {
		o.MaxSpell = 1
	}
	return fmt.Sprintf("SPECIFICATION Spec\nCONSTANTS\n Starts <- c_Starts\n Spell <- c_Spell\n MaxSpell = %d\n Seps <- c_Seps\n FinalSeps <- c_Final\n"+
		" CanonSep = %s\n RandPick = %s\n Salts = %d\n Broken = %q\n EmitOn = %s\nINVARIANTS %s\n",
		o.MaxSpell, up(o.Canon), up(o.Rand), map[bool]int{false: 0, true: 64}[o.Rand], o.Broken, up(o.Emit), o.Invs)
}

// ---------------------------------------------------------------- model records

type c24Tok struct {
	K      string
	Si, Xi int
	O, E   int // code offsets
	BO, BE int // byte offsets in the rendered text
}

type c24Fld struct {
	Name string
	Tag  int // 0 pos, 1 token kind, 2 spelling, 3 constant, 4 child, 5 list element, 6 handed-down pos
	V    int
	S    string
	Node *c24MNode
}

type c24MNode struct {
	K      string
	Ti, Le int
	Side   int
	F      []c24Fld
}

type c24Rec struct {
	Start string   `json:"start"`
	Names []string `json:"names"`
	Flat  []int    `json:"flat"`
	Seed  int64    `json:"seed"`
	Mut   string   `json:"mutation,omitempty"` // replay of a mutant: "del:3" | "dup:3" | "swap:3"

	ext  bool // a top-level statement starts with the keyword func: outside the property
	fin  int
	toks []c24Tok
	root *c24MNode
}

func c24ParseFlat(line []byte) ([]int, error) {
	s := strings.TrimSpace(string(line))
	if !strings.HasPrefix(s, "<<") || !strings.HasSuffix(s, ">>") {
		return nil, fmt.Errorf("not a tuple: %.60s", s)
	}
	s = s[2 : len(s)-2]
	var v []int
	for _, f := range strings.Split(s, ",") {
		n, err := strconv.Atoi(strings.TrimSpace(f))
		if err != nil {
			return nil, fmt.Errorf("bad integer %q", f)
		}
		v = append(v, n)
	}
	return v, nil
}

func (r *c24Rec) decode() error {
	v, p := r.Flat, 0
	var derr error
	next := func() int {
		if p >= len(v) {
			derr = fmt.Errorf("record too short")
			return 0
		}
		p++
		return v[p-1]
	}
	name := func(i int) string {
		if i < 1 || i > len(r.Names) {
			derr = fmt.Errorf("bad name index %d", i)
			return ""
		}
		return r.Names[i-1]
	}
	r.Start = name(next())
	r.ext = next() != 0
	r.fin = next()
	nt := next()
	if nt < 0 || nt > len(v) {
		return fmt.Errorf("bad token count")
	}
	r.toks = nil
	for i := 0; i < nt && derr == nil; i++ {
		t := c24Tok{K: name(next())}
		t.Si, t.Xi, t.O, t.E = next(), next(), next(), next()
		r.toks = append(r.toks, t)
	}
	var node func(depth int) *c24MNode
	node = func(depth int) *c24MNode {
		if depth > 400 || derr != nil {
			derr = fmt.Errorf("tree too deep or damaged")
			return nil
		}
		n := &c24MNode{K: name(next())}
		n.Ti, n.Le, n.Side = next(), next(), next()
		nf := next()
		if nf < 0 || nf > len(v) {
			derr = fmt.Errorf("bad field count")
			return nil
		}
		for i := 0; i < nf && derr == nil; i++ {
			f := c24Fld{Name: name(next())}
			f.Tag = next()
			switch f.Tag {
			case 4, 5:
				f.Node = node(depth + 1)
			case 3:
				f.S = name(next())
			case 0, 1, 2, 6:
				f.V = next()
			default:
				derr = fmt.Errorf("bad field tag %d", f.Tag)
			}
			n.F = append(n.F, f)
		}
		return n
	}
	r.root = node(0)
	if derr != nil {
		return derr
	}
	if p != len(v) {
		return fmt.Errorf("trailing data in record")
	}
	return nil
}

// ---------------------------------------------------------------- rendering

type c24Text struct {
	Src  []byte
	Toks []c24Tok // with byte offsets
}

// c24Render rebuilds the text from the token list (separator, spelling) and checks the model's
// running offsets against it.
func c24Render(r *c24Rec, spell map[string][]string, seed int64) (*c24Text, error) {
	var codes []int
	toks := append([]c24Tok(nil), r.toks...)
	for i := range toks {
		t := &toks[i]
		if t.Xi < 1 || t.Xi > len(c24Seps) {
			return nil, fmt.Errorf("bad separator index")
		}
		codes = append(codes, c23Codes(c24Seps[t.Xi-1].Txt)...)
		var sp string
		if t.Si == 0 {
			sp = t.K
		} else {
			if t.Si < 1 || t.Si > len(spell[t.K]) {
				return nil, fmt.Errorf("bad spelling index %d for %s", t.Si, t.K)
			}
			sp = spell[t.K][t.Si-1]
		}
		if t.O != len(codes) {
			return nil, fmt.Errorf("token %d (%s): model offset %d, text offset %d", i+1, t.K, t.O, len(codes))
		}
		codes = append(codes, c23Codes(sp)...)
		if t.E != len(codes) {
			return nil, fmt.Errorf("token %d (%s): model end %d, text end %d", i+1, t.K, t.E, len(codes))
		}
	}
	if r.fin < 1 || r.fin > len(c24FinalSeps) {
		return nil, fmt.Errorf("bad final separator index")
	}
	codes = append(codes, c23Codes(c24FinalSeps[r.fin-1].Txt)...)
	src, off := c23Render(codes, seed)
	for i := range toks {
		toks[i].BO, toks[i].BE = off[toks[i].O], off[toks[i].E]
	}
	return &c24Text{Src: src, Toks: toks}, nil
}

// ---------------------------------------------------------------- abstract trees

// c24Node is the abstract form both sides are projected to.
type c24Node struct {
	Kind string
	S, E int
	Pos  map[string]int
	Val  map[string]string
	Kid  map[string]*c24Node
	List map[string][]*c24Node
}

func c24NewNode(kind string) *c24Node {
	return &c24Node{Kind: kind, Pos: map[string]int{}, Val: map[string]string{}, Kid: map[string]*c24Node{}, List: map[string][]*c24Node{}}
}

// c24FromModel projects the derivation's tree on the rendered text.
func c24FromModel(m *c24MNode, tx *c24Text) (*c24Node, error) {
	tok := func(i int) (*c24Tok, error) {
		if i < 1 || i > len(tx.Toks) {
			return nil, fmt.Errorf("token index %d out of range", i)
		}
		return &tx.Toks[i-1], nil
	}
	n := c24NewNode(m.K)
	t, err := tok(m.Ti)
	if err != nil {
		return nil, err
	}
	n.S = t.BO
	if t, err = tok(m.Le); err != nil {
		return nil, err
	}
	if m.Side == 0 {
		n.E = t.BO
	} else {
		n.E = t.BE
	}
	for _, f := range m.F {
		switch f.Tag {
		case 0, 6:
			if t, err = tok(f.V); err != nil {
				return nil, err
			}
			n.Pos[f.Name] = t.BO
		case 1:
			if t, err = tok(f.V); err != nil {
				return nil, err
			}
			k := t.K
			if k == "IMPORTPATH" {
				k = "STRING"
			}
			n.Val[f.Name] = k
		case 2:
			if t, err = tok(f.V); err != nil {
				return nil, err
			}
			n.Val[f.Name] = string(tx.Src[t.BO:t.BE])
		case 3:
			n.Val[f.Name] = f.S
		case 4, 5:
			c, err := c24FromModel(f.Node, tx)
			if err != nil {
				return nil, err
			}
			if f.Tag == 4 {
				n.Kid[f.Name] = c
			} else {
				n.List[f.Name] = append(n.List[f.Name], c)
			}
		}
	}
	return n, nil
}

var c24SkipField = map[string]bool{"Doc": true, "Comment": true, "Obj": true, "Scope": true, "Unresolved": true, "Imports": true,
	"Comments": true, "FileStart": true, "FileEnd": true, "GoVersion": true, "TypeParams": true}

var (
	c24PosType  = reflect.TypeOf(token.NoPos)
	c24TokType  = reflect.TypeOf(token.ILLEGAL)
	c24DirType  = reflect.TypeOf(ast.SEND)
	c24NodeType = reflect.TypeOf((*ast.Node)(nil)).Elem()
)

// c24FromAst projects a go/ast node; base is the file-set position of byte offset 0 of the text.
// withPos = false leaves all positions out.
func c24FromAst(x ast.Node, base int, withPos bool) *c24Node {
	v := reflect.ValueOf(x)
	for v.Kind() == reflect.Interface || v.Kind() == reflect.Ptr {
		if v.IsNil() {
			return nil
		}
		v = v.Elem()
	}
	n := c24NewNode(v.Type().Name())
	n.S, n.E = -1, -1
	if withPos {
		n.S, n.E = int(x.Pos())-base, int(x.End())-base
	}
	for i := 0; i < v.NumField(); i++ {
		name := v.Type().Field(i).Name
		if c24SkipField[name] {
			continue
		}
		f := v.Field(i)
		switch {
		case f.Type() == c24PosType:
			if withPos && f.Int() != 0 {
				n.Pos[name] = int(f.Int()) - base
			}
		case f.Type() == c24TokType:
			if t := token.Token(f.Int()); t != token.ILLEGAL {
				n.Val[name] = t.String()
			}
		case f.Type() == c24DirType:
			switch ast.ChanDir(f.Int()) {
			case ast.SEND | ast.RECV:
				n.Val[name] = "BOTH"
			case ast.SEND:
				n.Val[name] = "SEND"
			case ast.RECV:
				n.Val[name] = "RECV"
			default:
				n.Val[name] = fmt.Sprint(f.Int())
			}
		case f.Kind() == reflect.String:
			n.Val[name] = f.String()
		case f.Kind() == reflect.Bool:
			if f.Bool() {
				n.Val[name] = "true"
			}
		case f.Kind() == reflect.Slice:
			for j := 0; j < f.Len(); j++ {
				if c, ok := f.Index(j).Interface().(ast.Node); ok {
					if cn := c24FromAst(c, base, withPos); cn != nil {
						n.List[name] = append(n.List[name], cn)
					} else {
						n.List[name] = append(n.List[name], c24NewNode("nil"))
					}
				}
			}
		case f.Kind() == reflect.Interface || f.Kind() == reflect.Ptr:
			if f.IsNil() {
				continue
			}
			if c, ok := f.Interface().(ast.Node); ok {
				if cn := c24FromAst(c, base, withPos); cn != nil {
					n.Kid[name] = cn
				}
			}
		}
	}
	return n
}

// c24Strip returns a copy without positions.
func c24Strip(n *c24Node) *c24Node {
	if n == nil {
		return nil
	}
	m := c24NewNode(n.Kind)
	m.S, m.E = -1, -1
	for k, v := range n.Val {
		m.Val[k] = v
	}
	for k, c := range n.Kid {
		m.Kid[k] = c24Strip(c)
	}
	for k, l := range n.List {
		for _, c := range l {
			m.List[k] = append(m.List[k], c24Strip(c))
		}
	}
	return m
}

// one difference between an expected and an observed tree
type c24Diff struct {
	Key  string // "<Kind>.<Field>:<shape>" with shape position-differs | tree-differs
	What string
}

// c24Compare collects the differences between the expected tree a and the observed tree b.
func c24Compare(a, b *c24Node, path string, out *[]c24Diff) {
	add := func(field, shape, what string) {
		if len(*out) < 12 {
			*out = append(*out, c24Diff{Key: a.Kind + field + ":" + shape, What: path + field + ": " + what})
		}
	}
	if a.Kind != b.Kind {
		add("", "tree-differs", fmt.Sprintf("expected node %s, got %s", a.Kind, b.Kind))
		return
	}
	if a.S != b.S {
		add(".Pos()", "position-differs", fmt.Sprintf("expected start %d, got %d", a.S, b.S))
	}
	if a.E != b.E {
		add(".End()", "position-differs", fmt.Sprintf("expected end %d, got %d", a.E, b.E))
	}
	names := map[string]bool{}
	for k := range a.Pos {
		names[k] = true
	}
	for k := range b.Pos {
		names[k] = true
	}
	for _, k := range c24Sorted(names) {
		x, okx := a.Pos[k]
		y, oky := b.Pos[k]
		if okx != oky || x != y {
			add("."+k, "position-differs", fmt.Sprintf("expected %s, got %s", c24PosStr(x, okx), c24PosStr(y, oky)))
		}
	}
	names = map[string]bool{}
	for k := range a.Val {
		names[k] = true
	}
	for k := range b.Val {
		names[k] = true
	}
	for _, k := range c24Sorted(names) {
		if a.Val[k] != b.Val[k] {
			add("."+k, "tree-differs", fmt.Sprintf("expected %q, got %q", a.Val[k], b.Val[k]))
		}
	}
	names = map[string]bool{}
	for k := range a.Kid {
		names[k] = true
	}
	for k := range b.Kid {
		names[k] = true
	}
	for _, k := range c24Sorted(names) {
		x, y := a.Kid[k], b.Kid[k]
		switch {
		case x == nil:
			add("."+k, "tree-differs", "expected no node, got "+y.Kind)
		case y == nil:
			add("."+k, "tree-differs", "expected "+x.Kind+", got no node")
		default:
			c24Compare(x, y, path+"."+k+"("+x.Kind+")", out)
		}
	}
	names = map[string]bool{}
	for k := range a.List {
		names[k] = true
	}
	for k := range b.List {
		names[k] = true
	}
	for _, k := range c24Sorted(names) {
		x, y := a.List[k], b.List[k]
		if len(x) != len(y) {
			add("."+k, "tree-differs", fmt.Sprintf("expected %d elements, got %d", len(x), len(y)))
			continue
		}
		for i := range x {
			c24Compare(x[i], y[i], fmt.Sprintf("%s.%s[%d](%s)", path, k, i, x[i].Kind), out)
		}
	}
}

func c24PosStr(x int, ok bool) string {
	if !ok {
		return "none"
	}
	return strconv.Itoa(x)
}

func c24Sorted(m map[string]bool) []string {
	var ks []string
	for k := range m {
		ks = append(ks, k)
	}
	sort.Strings(ks)
	return ks
}

// ---------------------------------------------------------------- the two parsers

// (the line break keeps a comment at the start of the text from becoming a line comment of "{")
const c24Prefix = "package p; func _() {\n"

type c24Parsed struct {
	Nodes  []ast.Node
	Base   int    // file-set position of byte offset 0 of the unwrapped text
	Err    string // first error ("" = none)
	ErrOff int    // byte offset of the first error in the unwrapped text, -1 unknown
	Panic  string
	Pkg    *ast.File // file mode: the whole file
}

func (p *c24Parsed) Failed() bool { return p.Err != "" || p.Panic != "" }

// c24ParseStd parses with the standard library. file = the text is a source file; otherwise it
// is wrapped in a function body and the body's statements are returned.
func c24ParseStd(src []byte, file bool, comments bool) c24Parsed {
	res, _ := c24ParseStdWith(src, file, comments)
	return res
}

// c24ParseStdWith also returns the file set of the parse.
func c24ParseStdWith(src []byte, file bool, comments bool) (res c24Parsed, fs *token.FileSet) {
	fs = token.NewFileSet()
	return c24ParseStdIn(fs, src, file, comments), fs
}

// c24ParseStdIn parses into the given file set.
func c24ParseStdIn(fs *token.FileSet, src []byte, file bool, comments bool) (res c24Parsed) {
	defer func() {
		if r := recover(); r != nil {
			res.Panic = fmt.Sprint(r)
		}
	}()
	mode := goparser.SkipObjectResolution
	if comments {
		mode |= goparser.ParseComments
	}
	text := src
	shift := 0
	if !file {
		text = append(append([]byte(c24Prefix), src...), "\n}"...)
		shift = len(c24Prefix)
	}
	f, err := goparser.ParseFile(fs, "x.go", text, mode)
	res.ErrOff = -1
	if err != nil {
		res.Err = strings.Split(err.Error(), "\n")[0]
		return
	}
	res.Base = fs.File(f.Pos()).Base() + shift
	if file {
		res.Pkg = f
		for _, d := range f.Decls {
			res.Nodes = append(res.Nodes, d)
		}
		return
	}
	if len(f.Decls) != 1 {
		res.Err = "the text closes the enclosing function"
		return
	}
	fd, ok := f.Decls[0].(*ast.FuncDecl)
	if !ok || fd.Body == nil || int(fd.Body.Rbrace)-res.Base != len(src)+1 {
		res.Err = "the text closes the enclosing function"
		return
	}
	for _, s := range fd.Body.List {
		res.Nodes = append(res.Nodes, s)
	}
	return
}

// c24ParseFork parses with gomacro's parser, set up as base.Globals.ParseBytes does.
func c24ParseFork(src []byte, comments bool) c24Parsed {
	res, _ := c24ParseForkWith(src, comments)
	return res
}

// c24ParseForkFs parses in mode 0 and also returns the file set of the parse.
func c24ParseForkFs(src []byte) (c24Parsed, *etoken.FileSet) { return c24ParseForkWith(src, false) }

func c24ParseForkWith(src []byte, comments bool) (res c24Parsed, fs *etoken.FileSet) {
	defer func() {
		if r := recover(); r != nil {
			res.Panic = fmt.Sprint(r)
			res.Nodes = nil
		}
	}()
	var mode mparser.Mode
	if comments {
		mode |= mparser.ParseComments
	}
	var p mparser.Parser
	fs = etoken.NewFileSet()
	p.Configure(mode, '~')
	p.Init(fs, "x.go", 0, src)
	res.ErrOff = -1
	res.Base = fs.Base() // the file is added by Init at the set's base
	fs.Iterate(func(f *token.File) bool { res.Base = f.Base(); return false })
	nodes, err := p.Parse()
	if err != nil {
		res.Err = strings.Split(err.Error(), "\n")[0]
		// "x.go:LINE:COL: msg"
		parts := strings.SplitN(res.Err, ":", 4)
		if len(parts) == 4 {
			line, e1 := strconv.Atoi(parts[1])
			col, e2 := strconv.Atoi(parts[2])
			if e1 == nil && e2 == nil {
				off := 0
				for l := 1; l < line && off < len(src); off++ {
					if src[off] == '\n' {
						l++
					}
				}
				res.ErrOff = off + col - 1
			}
		}
		return
	}
	res.Nodes = nodes
	return
}

// ---------------------------------------------------------------- reflective comparison (oracle 2)

type c24Deep struct {
	b1, b2   int
	comments bool
	diffs    []c24Diff
}

func (c *c24Deep) add(kind, field, shape, what string) {
	if len(c.diffs) < 12 {
		c.diffs = append(c.diffs, c24Diff{Key: kind + field + ":" + shape, What: what})
	}
}

// eq compares the go/ast values a (go/parser) and b (gomacro's parser); kind is the name of the
// enclosing node type.
func (c *c24Deep) eq(a, b reflect.Value, kind, field, path string) {
	if a.Type() != b.Type() {
		c.add(kind, field, "tree-differs", fmt.Sprintf("%s: go/parser has %v, gomacro %v", path, a.Type(), b.Type()))
		return
	}
	switch a.Kind() {
	case reflect.Interface, reflect.Ptr:
		if a.IsNil() != b.IsNil() {
			c.add(kind, field, "tree-differs", fmt.Sprintf("%s: go/parser nil=%v, gomacro nil=%v", path, a.IsNil(), b.IsNil()))
			return
		}
		if a.IsNil() {
			return
		}
		if a.Elem().Type() != b.Elem().Type() {
			c.add(kind, field, "tree-differs", fmt.Sprintf("%s: go/parser has %v, gomacro %v", path, a.Elem().Type(), b.Elem().Type()))
			return
		}
		c.eq(a.Elem(), b.Elem(), kind, field, path)
	case reflect.Struct:
		k := a.Type().Name()
		for i := 0; i < a.NumField(); i++ {
			n := a.Type().Field(i).Name
			switch n {
			case "Obj", "Scope", "Unresolved", "Imports", "FileStart", "FileEnd", "GoVersion", "Comments":
				continue
			case "Doc", "Comment":
				if !c.comments {
					continue
				}
			}
			c.eq(a.Field(i), b.Field(i), k, "."+n, path+"."+n)
		}
	case reflect.Slice:
		if a.Len() != b.Len() {
			c.add(kind, field, "tree-differs", fmt.Sprintf("%s: go/parser has %d elements, gomacro %d", path, a.Len(), b.Len()))
			return
		}
		for i := 0; i < a.Len(); i++ {
			c.eq(a.Index(i), b.Index(i), kind, field, fmt.Sprintf("%s[%d]", path, i))
		}
	default:
		if a.Type() == c24PosType {
			x, y := int(a.Int()), int(b.Int())
			if x != 0 {
				x -= c.b1
			} else {
				x = -1
			}
			if y != 0 {
				y -= c.b2
			} else {
				y = -1
			}
			if x != y {
				c.add(kind, field, "position-differs", fmt.Sprintf("%s: go/parser %d, gomacro %d", path, x, y))
			}
			return
		}
		if a.Interface() != b.Interface() {
			c.add(kind, field, "tree-differs", fmt.Sprintf("%s: go/parser %v, gomacro %v", path, a.Interface(), b.Interface()))
		}
	}
}

// c24Unwrap removes the wrapping that gomacro's top-level loop documents: a bare expression
// instead of an expression statement, a declaration instead of a declaration statement.
func c24UnwrapAst(n ast.Node) ast.Node {
	switch s := n.(type) {
	case *ast.ExprStmt:
		return s.X
	case *ast.DeclStmt:
		return s.Decl
	}
	return n
}

func c24UnwrapNode(n *c24Node) *c24Node {
	switch n.Kind {
	case "ExprStmt":
		return n.Kid["X"]
	case "DeclStmt":
		return n.Kid["Decl"]
	}
	return n
}

// ---------------------------------------------------------------- verdict for one derivation

type c24Verdict struct {
	GateOK   bool
	GateWhat string
	Sigs     map[string]string // signature -> what
}

func (v *c24Verdict) add(sig, what string) {
	if _, ok := v.Sigs[sig]; !ok {
		v.Sigs[sig] = what
	}
}

type c24Case struct {
	Start   string
	File    bool
	Tx      *c24Text
	Root    *c24Node   // the derivation's tree on the rendered text
	Items   []*c24Node // its top-level items as go/parser returns them
	FItems  []*c24Node // ... as gomacro's parser returns them
	Extents [][2]int   // byte extents of the top-level items
}

func c24Prepare(r *c24Rec, spell map[string][]string, seed int64) (*c24Case, error) {
	tx, err := c24Render(r, spell, seed)
	if err != nil {
		return nil, err
	}
	root, err := c24FromModel(r.root, tx)
	if err != nil {
		return nil, err
	}
	cs := &c24Case{Start: r.Start, File: root.Kind == "File", Tx: tx, Root: root}
	switch root.Kind {
	case "File":
		cs.Items = root.List["Decls"]
		pkg := c24NewNode("GenDecl")
		pkg.S, pkg.E = root.Pos["Package"], root.Kid["Name"].E
		pkg.Pos["TokPos"] = root.Pos["Package"]
		pkg.Val["Tok"] = "package"
		vs := c24NewNode("ValueSpec")
		vs.S, vs.E = root.Kid["Name"].S, root.Kid["Name"].E
		vs.List["Names"] = []*c24Node{root.Kid["Name"]}
		pkg.List["Specs"] = []*c24Node{vs}
		cs.FItems = append([]*c24Node{pkg}, cs.Items...)
	case "Top":
		cs.Items = root.List["List"]
		for _, it := range cs.Items {
			cs.FItems = append(cs.FItems, c24UnwrapNode(it))
		}
	default:
		return nil, fmt.Errorf("unexpected root node %s", root.Kind)
	}
	for _, it := range cs.Items {
		cs.Extents = append(cs.Extents, [2]int{it.S, it.E})
	}
	return cs, nil
}

// c24StdItems parses the case with go/parser the way its start symbol requires: a file, a
// function body, or (mixed top level) item by item.
func c24StdItems(cs *c24Case, comments bool) (nodes []ast.Node, bases []int, pkg *ast.File, err string) {
	if cs.Start != "TopMixed" {
		p := c24ParseStd(cs.Tx.Src, cs.File, comments)
		if p.Failed() {
			return nil, nil, nil, p.Err + p.Panic
		}
		for range p.Nodes {
			bases = append(bases, p.Base)
		}
		return p.Nodes, bases, p.Pkg, ""
	}
	for i, ex := range cs.Extents {
		txt := cs.Tx.Src[ex[0]:ex[1]]
		k := cs.Items[i].Kind
		if k == "FuncDecl" || k == "GenDecl" && cs.Items[i].Val["Tok"] == "import" {
			full := append([]byte("package p;"), txt...)
			p := c24ParseStd(full, true, comments)
			if p.Failed() || len(p.Nodes) != 1 {
				return nil, nil, nil, fmt.Sprintf("item %d: %s%s", i, p.Err, p.Panic)
			}
			nodes = append(nodes, p.Nodes[0])
			bases = append(bases, p.Base+len("package p;")-ex[0])
		} else {
			p := c24ParseStd(txt, false, comments)
			if p.Failed() || len(p.Nodes) != 1 {
				return nil, nil, nil, fmt.Sprintf("item %d: %s%s", i, p.Err, p.Panic)
			}
			nodes = append(nodes, p.Nodes[0])
			bases = append(bases, p.Base-ex[0])
		}
	}
	return nodes, bases, nil, ""
}

func c24Judge(cs *c24Case) c24Verdict {
	v := c24Verdict{GateOK: true, Sigs: map[string]string{}}
	// gate: go/parser against the model
	stdNodes, stdBases, pkg, serr := c24StdItems(cs, false)
	switch {
	case serr != "":
		v.GateOK, v.GateWhat = false, "go/parser rejects the derivation: "+serr
	case len(stdNodes) != len(cs.Items):
		v.GateOK, v.GateWhat = false, fmt.Sprintf("go/parser returns %d top-level nodes, the derivation has %d", len(stdNodes), len(cs.Items))
	default:
		var ds []c24Diff
		if pkg != nil {
			if int(pkg.Package)-stdBases0(stdBases, pkg) != cs.Root.Pos["Package"] {
				ds = append(ds, c24Diff{Key: "File.Package:position-differs", What: "package keyword"})
			}
			c24Compare(cs.Root.Kid["Name"], c24FromAst(pkg.Name, stdBases0(stdBases, pkg), true), "File.Name", &ds)
		}
		for i, n := range stdNodes {
			c24Compare(cs.Items[i], c24FromAst(n, stdBases[i], true), fmt.Sprintf("[%d](%s)", i, cs.Items[i].Kind), &ds)
		}
		if len(ds) > 0 {
			v.GateOK, v.GateWhat = false, "go/parser's tree differs from the derivation's: "+ds[0].Key+" "+ds[0].What
		}
	}
	for _, comments := range []bool{false, true} {
		mode := "mode 0"
		if comments {
			mode = "ParseComments"
		}
		fork := c24ParseFork(cs.Tx.Src, comments)
		if fork.Failed() {
			kind := c24Localise(cs, fork)
			shape := "error-spurious"
			msg := fork.Err
			if fork.Panic != "" {
				shape, msg = "panic", "panic: "+fork.Panic
			}
			if v.GateOK {
				v.add("parse("+kind+"):"+shape+"@model+std", fmt.Sprintf("%s: gomacro's parser fails on valid input: %s", mode, msg))
			} else if serr == "" {
				v.add("parse("+kind+"):"+shape+"@std", fmt.Sprintf("%s: gomacro's parser fails on input that go/parser accepts: %s", mode, msg))
			}
			continue
		}
		model := map[string]string{}
		std := map[string]string{}
		// oracle 1: the derivation's tree
		if v.GateOK {
			if len(fork.Nodes) != len(cs.FItems) {
				model["Top.List:tree-differs"] = fmt.Sprintf("expected %d top-level nodes, got %d", len(cs.FItems), len(fork.Nodes))
			} else {
				var ds []c24Diff
				for i, n := range fork.Nodes {
					got := c24FromAst(n, fork.Base, true)
					if got == nil {
						ds = append(ds, c24Diff{Key: cs.FItems[i].Kind + ":tree-differs", What: "nil node returned"})
						continue
					}
					c24Compare(cs.FItems[i], got, fmt.Sprintf("[%d](%s)", i, cs.FItems[i].Kind), &ds)
				}
				for _, d := range ds {
					if _, ok := model[d.Key]; !ok {
						model[d.Key] = d.What
					}
				}
			}
		}
		// oracle 2: go/parser's tree, node by node
		if serr == "" {
			sn, sb := stdNodes, stdBases
			var spkg *ast.File = pkg
			// (a mixed top level is handed to go/parser item by item, without the comments around
			// the items: there the association of comments cannot be compared)
			withComments := comments && cs.Start != "TopMixed"
			if withComments {
				var e2 string
				sn, sb, spkg, e2 = c24StdItems(cs, true)
				if e2 != "" {
					sn = nil
				}
			}
			if sn != nil {
				fn := fork.Nodes
				d := &c24Deep{comments: withComments}
				if cs.File && spkg != nil {
					if len(fn) == 0 {
						std["Top.List:tree-differs"] = "no package clause returned"
					} else {
						c24PkgCompare(d, spkg, stdBases0(sb, spkg), fn[0], fork.Base)
						fn = fn[1:]
					}
				}
				if len(fn) != len(sn) {
					std["Top.List:tree-differs"] = fmt.Sprintf("go/parser has %d top-level nodes, gomacro %d", len(sn), len(fn))
				} else {
					for i := range sn {
						d.b1, d.b2 = sb[i], fork.Base
						a := c24UnwrapAst(sn[i])
						d.eq(reflect.ValueOf(&a).Elem(), reflect.ValueOf(&fn[i]).Elem(), "Top", ".List", fmt.Sprintf("[%d]", i))
					}
				}
				for _, x := range d.diffs {
					if _, ok := std[x.Key]; !ok {
						std[x.Key] = x.What
					}
				}
			}
		}
		for k, w := range model {
			if w2, ok := std[k]; ok {
				v.add("parse("+k[:strings.Index(k, ":")]+")"+k[strings.Index(k, ":"):]+"@model+std", mode+": "+w+" ("+w2+")")
			} else {
				v.add("parse("+k[:strings.Index(k, ":")]+")"+k[strings.Index(k, ":"):]+"@model", mode+": "+w)
			}
		}
		for k, w := range std {
			if strings.HasSuffix(k, ".Doc:tree-differs") || strings.HasSuffix(k, ".Comment:tree-differs") {
				// the association of comments with declarations where go/parser >= go1.20 changed its
				// rule together with the scanner's placement of automatic semicolons (cf. C23)
				if p := c24CommentPredicate(cs.Tx.Src); p != "" {
					v.add("parse("+p+"):comment-association-differs@std", mode+": "+w)
					continue
				}
			}
			if _, ok := model[k]; !ok {
				v.add("parse("+k[:strings.Index(k, ":")]+")"+k[strings.Index(k, ":"):]+"@std", mode+": "+w)
			}
		}
	}
	return v
}

// c24CommentPredicate names the situation in the text in which the line-comment rule of
// go/parser >= go1.20 differs from the older rule: a general comment that spans a line end
// ("comment-holding-line-end"), a comment followed by an explicit semicolon on its line
// ("comment-before-semicolon"), a comment that ends the input ("comment-ends-input").
func c24CommentPredicate(src []byte) string {
	multi, semi, last := false, false, false
	for i := 0; i < len(src); i++ {
		switch {
		case src[i] == '/' && i+1 < len(src) && src[i+1] == '/':
			j := bytes.IndexByte(src[i:], '\n')
			if j < 0 {
				last = true
				i = len(src)
			} else {
				i += j
			}
		case src[i] == '/' && i+1 < len(src) && src[i+1] == '*':
			j := bytes.Index(src[i+2:], []byte("*/"))
			if j < 0 {
				i = len(src)
				break
			}
			if bytes.IndexByte(src[i:i+2+j], '\n') >= 0 {
				multi = true
			}
			i += j + 3
			// what follows the comment on its line?
			k := i + 1
			for k < len(src) && (src[k] == ' ' || src[k] == '\t' || src[k] == '\r') {
				k++
			}
			if k >= len(src) {
				last = true
			} else if src[k] == ';' {
				semi = true
			}
		case src[i] == '"' || src[i] == '\'':
			q := src[i]
			for i++; i < len(src) && src[i] != q && src[i] != '\n'; i++ {
				if src[i] == '\\' {
					i++
				}
			}
		case src[i] == '`':
			j := bytes.IndexByte(src[i+1:], '`')
			if j < 0 {
				i = len(src)
			} else {
				i += j + 1
			}
		}
	}
	switch {
	case multi:
		return "comment-holding-line-end"
	case semi:
		return "comment-before-semicolon"
	case last:
		return "comment-ends-input"
	}
	return ""
}

// stdBases0: the file-set position of byte offset 0 of a file parsed by go/parser.
func stdBases0(bases []int, pkg *ast.File) int {
	return int(pkg.FileStart)
}

// c24PkgCompare: gomacro returns the package clause as GenDecl{Tok: PACKAGE, Specs: [ValueSpec{Names: [name]}]}.
func c24PkgCompare(d *c24Deep, f *ast.File, b1 int, n ast.Node, b2 int) {
	g, ok := n.(*ast.GenDecl)
	if !ok || g.Tok != token.PACKAGE || len(g.Specs) != 1 {
		d.add("File", ".Package", "tree-differs", "the first node is not the package clause")
		return
	}
	vs, ok := g.Specs[0].(*ast.ValueSpec)
	if !ok || len(vs.Names) != 1 || vs.Type != nil || len(vs.Values) != 0 {
		d.add("File", ".Name", "tree-differs", "package clause without a single name")
		return
	}
	if int(g.TokPos)-b2 != int(f.Package)-b1 || g.Lparen != 0 || g.Rparen != 0 {
		d.add("File", ".Package", "position-differs", fmt.Sprintf("go/parser %d, gomacro %d", int(f.Package)-b1, int(g.TokPos)-b2))
	}
	d.b1, d.b2 = b1, b2
	d.eq(reflect.ValueOf(f.Name), reflect.ValueOf(vs.Names[0]), "File", ".Name", "File.Name")
	if d.comments {
		d.eq(reflect.ValueOf(f.Doc), reflect.ValueOf(vs.Doc), "File", ".Doc", "File.Doc")
	}
}

// c24Localise names the smallest node of the derivation on which gomacro's parser fails when
// the node's text is parsed alone (expressions as "_ = text").
func c24Localise(cs *c24Case, fork c24Parsed) string {
	best, bestLen := "", 1<<30
	parsable := map[string]bool{"FuncDecl": true, "GenDecl": true}
	var walk func(n *c24Node)
	walk = func(n *c24Node) {
		if n == nil {
			return
		}
		isStmt := strings.HasSuffix(n.Kind, "Stmt")
		isExpr := strings.HasSuffix(n.Kind, "Expr") || strings.HasSuffix(n.Kind, "Type") || strings.HasSuffix(n.Kind, "Lit") || n.Kind == "Ident"
		if (isStmt || isExpr || parsable[n.Kind]) && n.E > n.S && n.E-n.S < bestLen && n.E <= len(cs.Tx.Src) {
			txt := string(cs.Tx.Src[n.S:n.E])
			if isExpr {
				txt = "_ = " + txt
			}
			if n.Kind == "FuncType" && !strings.HasPrefix(strings.TrimSpace(txt[4:]), "func") && isExpr {
				txt = "" // a method signature is not a type on its own
			}
			if txt != "" {
				f := c24ParseFork([]byte(txt), false)
				if f.Failed() && (f.Panic != "") == (fork.Panic != "") {
					best, bestLen = n.Kind, n.E-n.S
				}
			}
		}
		for _, k := range c24SortedKids(n) {
			walk(n.Kid[k])
		}
		for _, k := range c24SortedLists(n) {
			for _, c := range n.List[k] {
				walk(c)
			}
		}
	}
	walk(cs.Root)
	if best == "" {
		best = cs.Root.Kind
	}
	return best
}

func c24SortedKids(n *c24Node) []string {
	m := map[string]bool{}
	for k := range n.Kid {
		m[k] = true
	}
	return c24Sorted(m)
}
func c24SortedLists(n *c24Node) []string {
	m := map[string]bool{}
	for k := range n.List {
		m[k] = true
	}
	return c24Sorted(m)
}

// ---------------------------------------------------------------- mutants (invalid inputs)

type c24Mutant struct {
	Op  string // del | dup | swap
	Idx int    // 0-based token index
	Src []byte
}

func c24Mutants(tx *c24Text) []c24Mutant {
	var out []c24Mutant
	n := len(tx.Toks)
	piece := func(i int) (sep, tok []byte) {
		prev := 0
		if i > 0 {
			prev = tx.Toks[i-1].BE
		}
		return tx.Src[prev:tx.Toks[i].BO], tx.Src[tx.Toks[i].BO:tx.Toks[i].BE]
	}
	tail := []byte{}
	if n > 0 {
		tail = tx.Src[tx.Toks[n-1].BE:]
	}
	build := func(op string, idx int) {
		var b []byte
		for i := 0; i < n; i++ {
			sep, tok := piece(i)
			switch {
			case op == "del" && i == idx:
				b = append(b, sep...)
			case op == "dup" && i == idx:
				b = append(b, sep...)
				b = append(b, tok...)
				b = append(b, ' ')
				b = append(b, tok...)
			case op == "swap" && i == idx:
				_, t2 := piece(i + 1)
				b = append(b, sep...)
				b = append(b, t2...)
			case op == "swap" && i == idx+1:
				_, t1 := piece(i - 1)
				b = append(b, sep...)
				b = append(b, t1...)
			default:
				b = append(b, sep...)
				b = append(b, tok...)
			}
		}
		b = append(b, tail...)
		out = append(out, c24Mutant{Op: op, Idx: idx, Src: b})
	}
	for i := 0; i < n; i++ {
		build("del", i)
		build("dup", i)
		if i+1 < n && !bytes.Equal(tx.Src[tx.Toks[i].BO:tx.Toks[i].BE], tx.Src[tx.Toks[i+1].BO:tx.Toks[i+1].BE]) {
			build("swap", i)
		}
	}
	return out
}

type c24MutResult struct {
	StdRejects bool
	Sig, What  string
	ForkOnly   bool // gomacro rejects, go/parser accepts (information)
	BothAccept bool
	TreeDiff   string // both accept, trees differ (information unless confirmed inside the language)
	Extension  string // gomacro accepts through a documented syntax extension
}

// c24UsesExtension: gomacro's tree contains one of the parser's documented syntax extensions that
// need no lexical extension: a block in operand position (returned as UnaryExpr{Op: MACRO,
// X: FuncLit}, "patch: accept block statements inside expressions") or an import declaration in
// statement position ("patch: allow imports inside statements").
func c24UsesExtension(nodes []ast.Node) string {
	found := ""
	for i, n := range nodes {
		if n == nil || reflect.ValueOf(n).IsNil() {
			continue
		}
		top := i
		_ = top
		ast.Inspect(n, func(x ast.Node) bool {
			switch y := x.(type) {
			case *ast.UnaryExpr:
				if y.Op >= etoken.QUOTE {
					found = "block-expression"
				}
			case *ast.DeclStmt:
				if g, ok := y.Decl.(*ast.GenDecl); ok && g.Tok == token.IMPORT {
					found = "import-in-statement"
				}
			case *ast.SwitchStmt:
				if f := c24NonCase(y.Body); f != "" {
					found = f
				}
			case *ast.TypeSwitchStmt:
				if f := c24NonCase(y.Body); f != "" {
					found = f
				}
			case *ast.Field:
				// "name [...]T" in a parameter or field declaration: go/parser rejects it only
				// because it reads "name [" as the possible start of a type instantiation (type
				// parameters, outside the property); "[...]T" without a name is accepted by both
				if a, ok := y.Type.(*ast.ArrayType); ok && len(y.Names) > 0 && found == "" {
					if _, ok := a.Len.(*ast.Ellipsis); ok {
						found = "ellipsis-array-after-name"
					}
				}
			}
			return found == ""
		})
	}
	return found
}

// c24NonCase: a statement other than a case clause in a switch body ("patch: support
// switch foo { ~,{bar} }": the statement is meant to be a macro call that expands to clauses).
func c24NonCase(b *ast.BlockStmt) string {
	if b != nil {
		for _, s := range b.List {
			if _, ok := s.(*ast.CaseClause); !ok {
				return "statement-in-switch-body"
			}
		}
	}
	return ""
}

// c24UsesNewSyntax: the go/parser tree uses syntax that is not part of the property's language.
func c24UsesNewSyntax(nodes []ast.Node) bool {
	found := false
	for _, n := range nodes {
		ast.Inspect(n, func(x ast.Node) bool {
			switch y := x.(type) {
			case *ast.IndexListExpr:
				found = true
			case *ast.FuncType:
				if y.TypeParams != nil {
					found = true
				}
			case *ast.TypeSpec:
				if y.TypeParams != nil {
					found = true
				}
			case *ast.InterfaceType:
				for _, m := range y.Methods.List {
					if len(m.Names) == 0 {
						switch m.Type.(type) {
						case *ast.Ident, *ast.SelectorExpr:
						default:
							found = true
						}
					}
				}
			case *ast.UnaryExpr:
				if y.Op == token.TILDE {
					found = true
				}
			}
			return !found
		})
	}
	return found
}

// c24JudgeMutant: whenever go/parser reports an error, gomacro's parser must report one too.
// go/parser "rejects" a text if it rejects it as a whole (file / function body, as the start
// symbol says) and gomacro's acceptance is not explained by its documented top-level loop:
// every node gomacro returned must then be rejected or differ when handed to go/parser alone.
func c24JudgeMutant(cs *c24Case, m c24Mutant) c24MutResult {
	var res c24MutResult
	file := cs.File
	std := c24ParseStd(m.Src, file, false)
	fork := c24ParseFork(m.Src, false)
	if fork.Panic != "" {
		res.StdRejects = std.Failed()
		res.Sig = "parse(mutant):panic(" + strings.TrimPrefix(fork.Panic, "go/parser internal error: ") + ")"
		res.What = "gomacro's parser panics: " + fork.Panic
		return res
	}
	if !std.Failed() {
		if fork.Failed() {
			res.ForkOnly = true
			return res
		}
		res.BothAccept = true
		if c24UsesNewSyntax(std.Nodes) {
			return res
		}
		fn := fork.Nodes
		d := &c24Deep{}
		if file {
			if len(fn) == 0 {
				res.TreeDiff = "no package clause"
				return res
			}
			c24PkgCompare(d, std.Pkg, std.Base, fn[0], fork.Base)
			fn = fn[1:]
		}
		if len(fn) != len(std.Nodes) {
			res.TreeDiff = fmt.Sprintf("Top.List:tree-differs: go/parser has %d top-level nodes, gomacro %d", len(std.Nodes), len(fn))
			return res
		}
		for i := range fn {
			d.b1, d.b2 = std.Base, fork.Base
			a := c24UnwrapAst(std.Nodes[i])
			d.eq(reflect.ValueOf(&a).Elem(), reflect.ValueOf(&fn[i]).Elem(), "Top", ".List", fmt.Sprintf("[%d]", i))
		}
		if len(d.diffs) > 0 {
			res.TreeDiff = d.diffs[0].Key + ": " + d.diffs[0].What
		}
		return res
	}
	res.StdRejects = true
	if fork.Failed() {
		return res
	}
	if ext := c24UsesExtension(fork.Nodes); ext != "" {
		res.Extension = ext
		return res
	}
	// gomacro accepts what go/parser rejects as a whole: is every returned node valid on its own
	// and is nothing but separators and semicolons left between the nodes?
	prev := 0
	bad := ""
	for i, n := range fork.Nodes {
		if n == nil || reflect.ValueOf(n).IsNil() {
			bad = "Top"
			break
		}
		s, e := int(n.Pos())-fork.Base, int(n.End())-fork.Base
		if s < prev || e > len(m.Src) || s > e || !c24OnlySeparators(m.Src[prev:s]) {
			bad = reflect.TypeOf(n).Elem().Name()
			break
		}
		prev = e
		txt := m.Src[s:e]
		var alone c24Parsed
		switch n.(type) {
		case *ast.FuncDecl:
			alone = c24ParseStd(append([]byte("package p;"), txt...), true, false)
		case *ast.GenDecl:
			g := n.(*ast.GenDecl)
			if g.Tok == token.IMPORT {
				alone = c24ParseStd(append([]byte("package p;"), txt...), true, false)
			} else if g.Tok == token.PACKAGE {
				alone = c24ParseStd(txt, true, false)
			} else {
				alone = c24ParseStd(txt, false, false)
			}
		default:
			alone = c24ParseStd(txt, false, false)
		}
		if alone.Failed() {
			if g, ok := n.(*ast.GenDecl); ok && g.Tok == token.TYPE && c24TypeParamAmbiguity(g) {
				// "type T [ id ..." is where go/parser >= go1.18 first tries a type parameter list:
				// an array length that begins with an identifier may be rejected by its heuristic
				// although it is an expression of the language without type parameters
				continue
			}
			bad = reflect.TypeOf(n).Elem().Name()
			break
		}
		_ = i
	}
	if bad == "" && !c24OnlySeparators(m.Src[prev:]) {
		bad = "Top"
	}
	if bad != "" {
		// the signature names the node gomacro returned and the class of go/parser's error
		res.Sig = "parse(" + bad + "):error-missed(" + c24ErrClass(std.Err) + ")"
		if strings.Contains(std.Err, "cannot parenthesize type in composite literal") {
			// "(struct{...}) {": go/parser >= go1.17 reads a parenthesized literal type in front of "{"
			// as a (wrongly written) composite literal; the older rule lets a block begin there
			res.Sig = "parse(parenthesized-literal-type-before-brace):error-missed"
		}
		res.What = "go/parser: " + std.Err + "; gomacro's parser reports no error"
	}
	return res
}

// c24TypeParamAmbiguity: a type declaration whose array length begins with an identifier.
func c24TypeParamAmbiguity(g *ast.GenDecl) bool {
	for _, sp := range g.Specs {
		ts, ok := sp.(*ast.TypeSpec)
		if !ok {
			continue
		}
		at, ok := ts.Type.(*ast.ArrayType)
		if !ok || at.Len == nil {
			continue
		}
		x := at.Len
		for {
			switch y := x.(type) {
			case *ast.BinaryExpr:
				x = y.X
				continue
			case *ast.IndexExpr:
				x = y.X
				continue
			case *ast.SliceExpr:
				x = y.X
				continue
			case *ast.CallExpr:
				x = y.Fun
				continue
			case *ast.SelectorExpr:
				x = y.X
				continue
			case *ast.TypeAssertExpr:
				x = y.X
				continue
			}
			break
		}
		if _, ok := x.(*ast.Ident); ok {
			return true
		}
	}
	return false
}

// c24ErrClass: go/parser's first error message without position, found token and error count.
func c24ErrClass(e string) string {
	if parts := strings.SplitN(e, ": ", 2); len(parts) == 2 && strings.Contains(parts[0], ".go:") {
		e = parts[1]
	}
	if i := strings.Index(e, " (and "); i >= 0 {
		e = e[:i]
	}
	if i := strings.Index(e, ", found"); i >= 0 {
		e = e[:i]
	}
	return e
}

func c24OnlySeparators(b []byte) bool {
	for i := 0; i < len(b); i++ {
		switch b[i] {
		case ' ', '\t', '\r', '\n', ';':
		case '/':
			if i+1 < len(b) && b[i+1] == '/' {
				j := bytes.IndexByte(b[i:], '\n')
				if j < 0 {
					return true
				}
				i += j
			} else if i+1 < len(b) && b[i+1] == '*' {
				j := bytes.Index(b[i+2:], []byte("*/"))
				if j < 0 {
					return false
				}
				i += j + 3
			} else {
				return false
			}
		default:
			return false
		}
	}
	return true
}

// ---------------------------------------------------------------- runner

type c24Line struct {
	names []string
	line  []byte
}

type c24Runner struct {
	c       *core.Ctx
	start   string
	spell   map[string][]string
	judge   func(r *c24Runner, rec *c24Rec, cs *c24Case, count bool)
	mu      sync.Mutex
	names   []string
	err     error
	lines   chan c24Line
	wg      sync.WaitGroup
	stats   map[string]int64
	gateBad []string
	infoEx  map[string]string
	sampled int
	mutate  bool
}

func newC24Runner(c *core.Ctx, judge func(r *c24Runner, rec *c24Rec, cs *c24Case, count bool)) *c24Runner {
	r := &c24Runner{c: c, spell: c24Spell(), judge: judge, lines: make(chan c24Line, 4096), stats: map[string]int64{}, infoEx: map[string]string{}, mutate: true}
	for w := 0; w < 6; w++ {
		r.wg.Add(1)
		go func() {
			defer r.wg.Done()
			for l := range r.lines {
				r.handle(l.names, l.line)
			}
		}()
	}
	return r
}

func (r *c24Runner) fail(err error) {
	r.mu.Lock()
	if r.err == nil {
		r.err = err
	}
	r.mu.Unlock()
}

func (r *c24Runner) stat(k string, n int64) {
	r.mu.Lock()
	r.stats[k] += n
	r.mu.Unlock()
}

func (r *c24Runner) info(k, ex string) {
	r.mu.Lock()
	r.stats[k]++
	if old, ok := r.infoEx[k]; !ok || len(ex) < len(old) {
		r.infoEx[k] = ex // keep the shortest example
	}
	r.mu.Unlock()
}

// onLine returns the line handler of one TLC run (each run announces its own name table).
func (r *c24Runner) onLine() func(line []byte) {
	var names []string
	return func(line []byte) {
		if len(line) > 0 && line[0] == '{' {
			var h struct {
				Names []string `json:"names"`
			}
			if err := json.Unmarshal(line, &h); err != nil || len(h.Names) == 0 {
				r.fail(core.Infra("bad header from TLC: %.80s", line))
				return
			}
			names = h.Names
			return
		}
		r.lines <- c24Line{names, append([]byte(nil), line...)}
	}
}

func (r *c24Runner) handle(names []string, line []byte) {
	r.mu.Lock()
	failed := r.err != nil
	r.mu.Unlock()
	if failed {
		return
	}
	flat, err := c24ParseFlat(line)
	if err != nil {
		r.fail(core.Infra("bad record from TLC: %v", err))
		return
	}
	rec := &c24Rec{Names: names, Flat: flat, Seed: r.c.Seed}
	if err := rec.decode(); err != nil {
		r.fail(core.Infra("bad record from TLC: %v", err))
		return
	}
	if rec.ext {
		r.stat("excluded_top_level_statement_starting_with_func", 1)
		return
	}
	cs, err := c24Prepare(rec, r.spell, rec.Seed)
	if err != nil {
		r.fail(core.Infra("record does not render: %v", err))
		return
	}
	r.judge(r, rec, cs, true)
}

func (r *c24Runner) finish() error {
	close(r.lines)
	r.wg.Wait()
	return r.err
}

func c24JudgeRun(r *c24Runner, rec *c24Rec, cs *c24Case, count bool) {
	c := r.c
	v := c24Judge(cs)
	if count {
		c.Case(string(cs.Tx.Src), len(cs.Tx.Toks) >= 3)
		c.Trace()
		c.Gate(v.GateOK)
		r.mu.Lock()
		r.stats["derivations"]++
		r.stats["tokens"] += int64(len(cs.Tx.Toks))
		if !v.GateOK && len(r.gateBad) < 30 {
			r.gateBad = append(r.gateBad, fmt.Sprintf("%q: %s", cs.Tx.Src, v.GateWhat))
		}
		if r.sampled < 5 && len(cs.Tx.Toks) >= 8 && len(cs.Tx.Toks) <= 40 {
			r.sampled++
			c.Sample(map[string]interface{}{"start": cs.Start, "text": string(cs.Tx.Src), "tokens": len(cs.Tx.Toks), "top_level_nodes": len(cs.Items)})
		}
		r.mu.Unlock()
	}
	for sig, what := range v.Sigs {
		// confirm on a second, fresh parse
		v2 := c24Judge(cs)
		if _, ok := v2.Sigs[sig]; !ok {
			r.fail(core.Infra("mismatch not reproducible on %q: %s", cs.Tx.Src, sig))
			return
		}
		if c24Debug {
			r.info("debug_violation "+sig, fmt.Sprintf("%q: %s", cs.Tx.Src, what))
		}
		c.Violation(sig, fmt.Sprintf("input %q: %s", cs.Tx.Src, what), rec)
	}
	if !v.GateOK || !r.mutate {
		return // mutants are derived from valid derivations only
	}
	for _, m := range c24Mutants(cs.Tx) {
		tag := fmt.Sprintf("%s:%d", m.Op, m.Idx)
		if rec.Mut != "" && rec.Mut != tag {
			continue // replay of one mutant
		}
		res := c24JudgeMutant(cs, m)
		if count {
			c.Case(string(m.Src), res.StdRejects)
			r.mu.Lock()
			r.stats["mutants"]++
			if res.StdRejects {
				r.stats["mutants_rejected_by_go/parser"]++
			}
			if res.BothAccept {
				r.stats["mutants_accepted_by_both"]++
			}
			r.mu.Unlock()
			if res.ForkOnly {
				r.info("info_mutants_rejected_only_by_gomacro", string(m.Src))
			}
			if res.TreeDiff != "" {
				k := res.TreeDiff
				if i := strings.Index(k, ": "); i > 0 {
					k = k[:i]
				}
				r.info("info_valid_mutants_with_different_trees "+k, fmt.Sprintf("%q: %s", m.Src, res.TreeDiff))
			}
			if res.Extension != "" {
				r.info("info_mutants_accepted_through_documented_extension "+res.Extension, string(m.Src))
			}
		}
		if res.Sig != "" {
			res2 := c24JudgeMutant(cs, m)
			if res2.Sig != res.Sig {
				r.fail(core.Infra("mismatch not reproducible on mutant %q", m.Src))
				return
			}
			rc := *rec
			rc.Mut = tag
			c.Violation(res.Sig, fmt.Sprintf("input %q (%s of token %d of %q): %s", m.Src, m.Op, m.Idx, cs.Tx.Src, res.What), &rc)
		}
	}
}

var c24Debug = os.Getenv("C24_DEBUG") != ""

func c24Workers() int {
	if s := os.Getenv("VERIF_TLC_WORKERS"); s != "" {
		if n, err := strconv.Atoi(s); err == nil && n > 0 {
			return n
		}
	}
	return 6
}

type c24Plan struct {
	Name   string
	Starts []c24Start
	Sim    bool
	Num    int // simulation: behaviours per worker
	Depth  int
}

func c24Plans(c *core.Ctx) []c24Plan {
	if c.Thorough() {
		return []c24Plan{
			// (statements with budget 4 are another 1.9 M states / 130 k derivations: measured once, 0 gate
			// rejects and nothing new; left out to keep the tier inside its time budget on a loaded machine)
			{Name: "bfs", Starts: []c24Start{{"TopExpr", 5}, {"TopStmt", 3}, {"File", 4}}},
			{Name: "sim", Starts: []c24Start{{"File", 6}, {"File", 15}, {"File", 30}, {"File", 50}, {"Top", 5}, {"Top", 12}, {"Top", 25}, {"Top", 40},
				{"TopMixed", 8}, {"TopMixed", 20}}, Sim: true, Num: 5500, Depth: 1500},
		}
	}
	return []c24Plan{
		{Name: "bfs", Starts: []c24Start{{"TopExpr", 4}, {"TopStmt", 3}, {"File", 3}}},
		{Name: "sim", Starts: []c24Start{{"File", 5}, {"File", 12}, {"File", 25}, {"Top", 4}, {"Top", 10}, {"Top", 20}, {"Top", 35}, {"TopMixed", 8}, {"TopMixed", 18}},
			Sim: true, Num: 1500, Depth: 1200},
	}
}

// c24RunPlans runs the plans concurrently (the TLC workers are shared out among them).
func c24RunPlans(c *core.Ctx, r *c24Runner, plans []c24Plan) error {
	errs := make([]error, len(plans))
	var wg sync.WaitGroup
	for i, p := range plans {
		w := c24Workers() / len(plans)
		if len(plans) == 2 && c.Thorough() { // the simulation is the longer run
			if p.Sim {
				w = c24Workers() * 2 / 3
			} else {
				w = c24Workers() / 2
			}
		}
		if w < 1 {
			w = 1
		}
		o := core.TLCOpts{Spec: "GoSyntax", MCDefs: c24MCDefs(p.Starts), CfgName: p.Name + "-" + c.Tier, Workers: w, OnLine: r.onLine(), Timeout: 40 * time.Minute,
			Cfg: c24Cfg(c24CfgOpts{Canon: !p.Sim, Rand: p.Sim, Emit: true})}
		if p.Sim {
			o.Simulate, o.SimNum, o.SimDepth, o.Seed = true, p.Num, p.Depth, c.Seed
		}
		wg.Add(1)
		go func(i int, o core.TLCOpts) {
			defer wg.Done()
			_, errs[i] = c.TLC(o)
		}(i, o)
	}
	wg.Wait()
	for _, e := range errs {
		if e != nil {
			return e
		}
	}
	return nil
}

func runC24(c *core.Ctx) error {
	r := newC24Runner(c, c24JudgeRun)
	plans := c24Plans(c)
	if f := os.Getenv("C24_PLANS"); f != "" { // development aid: run only the named plans
		var sel []c24Plan
		for _, p := range plans {
			if strings.Contains(","+f+",", ","+p.Name+",") {
				sel = append(sel, p)
			}
		}
		plans = sel
		c.MaxViolations = 60
	}
	if os.Getenv("C24_NOMUT") != "" {
		r.mutate = false
	}
	runErr := c24RunPlans(c, r, plans)
	if err := r.finish(); err != nil {
		return err
	}
	if runErr != nil {
		return runErr
	}
	c.Exhaustive = false
	for k, v := range r.stats {
		c.Extra[k] = v
	}
	if len(r.infoEx) > 0 {
		c.Extra["information_examples"] = r.infoEx
	}
	if len(r.gateBad) > 0 {
		c.Extra["gate_reject_examples"] = r.gateBad
		if os.Getenv("C24_DEBUG") != "" {
			for _, g := range r.gateBad {
				fmt.Println("GATE-REJECT", g)
			}
		}
	}
	if os.Getenv("C24_DEBUG") != "" {
		for k, v := range r.infoEx {
			fmt.Println("INFO", k, r.stats[k], v)
		}
	}
	c.Assume("the reference is go/parser of the installed toolchain (go1.23) with SkipObjectResolution; resolver artefacts (Obj, Scope, Unresolved) are not part of the tree; error messages are not compared, only error presence")
	c.Assume("gomacro's parser returns bare expressions / declarations at top level and the package clause as a GenDecl: exactly this documented wrapping is normalised; a top-level statement that starts with the keyword func is read as a declaration by design and is not generated at top level")
	c.Assume("'~', '#', the words macro and template, quote/quasiquote syntax and type parameters are outside the property and are not generated; mutants that go/parser accepts are compared only as information when they use newer syntax")
	c.Assume("on mutants that go/parser rejects as a whole but gomacro accepts, gomacro's result is admitted if every node it returns is accepted by go/parser on its own (the documented top-level loop of declarations, statements and expressions)")
	return nil
}

func replayC24(c *core.Ctx, raw json.RawMessage) error {
	var rec c24Rec
	if err := json.Unmarshal(raw, &rec); err != nil {
		return err
	}
	if err := rec.decode(); err != nil {
		return core.Infra("replay record: %v", err)
	}
	r := newC24Runner(c, c24JudgeRun)
	cs, err := c24Prepare(&rec, r.spell, rec.Seed)
	if err != nil {
		return core.Infra("replay record does not render: %v", err)
	}
	r.judge(r, &rec, cs, false)
	return r.finish()
}

func selfTestC24(c *core.Ctx) error {
	return c24SelfTest(c)
}

package props

import (
	"encoding/json"
	"fmt"
	"go/constant"
	"go/token"
	"math"
	"math/big"
	"strings"
	"sync"
	"time"

	"github.com/cosmos72/gomacro/base/untyped"

	"verif/harness/core"
)

// C32: serialization of untyped constants. Spec: spec/sem/ConstCodec.tla over spec/lib/{BigNat,Rat}.tla.
// (M) TLC checks decode(encode(v)) = v, the kind prefix and the unique spelling of zero on every
//     value of the walk; broken variant: splitting at the last ':'.
// (R) every emitted (kind, exact value, predicted text) is built as a go/constant value in
//     several internal representations, marshalled and unmarshalled by the real functions;
//     kind, exact value (constant.Compare EQL) and text are compared.
// (G) go/constant itself must give the model's value for the built constant and the model's
//     text for ExactString(): otherwise the record is dropped as a specification defect.

func init() {
	core.Register(&core.Prop{
		ID: "C32",
		Rule: "TLC walks over untyped constant values (edge seeds: nil, booleans, zero, huge/tiny and non-dyadic rationals, runes, complex pairs, strings with ':' '/' non-ASCII and invalid UTF-8; steps: negate, scale, divide by 3/7, powers of ten, square, kind changes, 2^+-5000 and beyond, string appends) " +
			"breadth-first to a bounded number of steps and by seeded simulation; each value is built as a go/constant value in every internal representation the harness knows (variants) and round-tripped through untyped.Marshal/Unmarshal; " +
			"a case is one (value, representation variant); non-trivial = not one of the seeds nil/true/false; distinct by kind, value and variant",
		Run:      runC32,
		Replay:   replayC32,
		SelfTest: selfTestC32,
	})
}

type c32Rec struct {
	K    string  `json:"k"`
	B    bool    `json:"b,omitempty"`
	Re   *c04Rat `json:"re,omitempty"`
	Im   *c04Rat `json:"im,omitempty"`
	S    []int   `json:"s,omitempty"`
	Neg  bool    `json:"neg,omitempty"`
	M    string  `json:"m,omitempty"`
	E    int     `json:"e,omitempty"`
	Text []int   `json:"text,omitempty"`
}

func (r *c32Rec) valid() error {
	switch r.K {
	case "nil", "bool", "string":
	case "int", "rune", "float":
		if r.Re == nil || r.Re.Rat() == nil {
			return fmt.Errorf("malformed value")
		}
	case "complex":
		if r.Re == nil || r.Im == nil || r.Re.Rat() == nil || r.Im.Rat() == nil {
			return fmt.Errorf("malformed value")
		}
	case "float2":
		if _, ok := new(big.Int).SetString(r.M, 10); !ok {
			return fmt.Errorf("malformed mantissa")
		}
		return nil
	default:
		return fmt.Errorf("unknown kind %q", r.K)
	}
	if r.Text == nil {
		return fmt.Errorf("missing text")
	}
	return nil
}

var c32Kinds = map[string]untyped.Kind{"nil": untyped.None, "bool": untyped.Bool, "int": untyped.Int, "rune": untyped.Rune,
	"float": untyped.Float, "float2": untyped.Float, "complex": untyped.Complex, "string": untyped.String}

func c32Int(dec string, neg bool) constant.Value {
	v := constant.MakeFromLiteral(dec, token.INT, 0)
	if neg {
		v = constant.UnaryOp(token.SUB, v, 0)
	}
	return v
}

// c32RatConst builds the rational r as a go/constant value; the variant selects the internal
// representation / construction path.
func c32RatConst(r *c04Rat, variant int) constant.Value {
	isInt := r.Den == "1"
	zero := r.Num == "0"
	switch variant {
	case 1: // float literals divided
		x := constant.MakeFromLiteral(r.Num+".0", token.FLOAT, 0)
		if !isInt {
			x = constant.BinaryOp(x, token.QUO, constant.MakeFromLiteral(r.Den+"e0", token.FLOAT, 0))
		}
		if r.Neg {
			x = constant.UnaryOp(token.SUB, x, 0)
		}
		return x
	case 2: // integer-valued: an Int-kind constant.Value; otherwise numerator * (1/denominator)
		if isInt {
			return c32Int(r.Num, r.Neg)
		}
		inv := constant.BinaryOp(constant.MakeInt64(1), token.QUO, c32Int(r.Den, false))
		return constant.BinaryOp(c32Int(r.Num, r.Neg), token.MUL, inv)
	case 3: // negative-zero-like constructions (zero only), else via big.Rat text
		if zero {
			return constant.MakeFloat64(math.Copysign(0, -1))
		}
		s := r.Num + "/" + r.Den
		if r.Neg {
			s = "-" + s
		}
		br, _ := new(big.Rat).SetString(s)
		return constant.Make(br)
	case 4:
		if zero {
			return constant.UnaryOp(token.SUB, constant.MakeFromLiteral("0.0", token.FLOAT, 0), 0)
		}
		fallthrough
	default: // integers divided
		x := c32Int(r.Num, r.Neg)
		if isInt {
			return constant.ToFloat(x)
		}
		return constant.BinaryOp(x, token.QUO, c32Int(r.Den, false))
	}
}

const c32Variants = 5

// c32Build returns the untyped kind and the go/constant value of the record.
func c32Build(rec *c32Rec, variant int) (untyped.Kind, constant.Value) {
	kind := c32Kinds[rec.K]
	switch rec.K {
	case "nil":
		return kind, nil
	case "bool":
		return kind, constant.MakeBool(rec.B)
	case "string":
		return kind, constant.MakeString(core.BytesToString(rec.S))
	case "int", "rune":
		if variant%2 == 1 { // via big.Int
			n, _ := new(big.Int).SetString(rec.Re.Num, 10)
			if rec.Re.Neg {
				n.Neg(n)
			}
			return kind, constant.Make(n)
		}
		return kind, c32Int(rec.Re.Num, rec.Re.Neg)
	case "float":
		return kind, c32RatConst(rec.Re, variant)
	case "complex":
		re, im := c32RatConst(rec.Re, variant), c32RatConst(rec.Im, (variant+1)%c32Variants)
		return kind, constant.BinaryOp(constant.ToComplex(re), token.ADD, constant.MakeImag(im))
	case "float2":
		x := constant.ToFloat(c32Int(rec.M, rec.Neg))
		e := rec.E
		if e >= 0 {
			p := constant.ToFloat(constant.Shift(constant.MakeInt64(1), token.SHL, uint(e)))
			return kind, constant.BinaryOp(x, token.MUL, p)
		}
		p := constant.ToFloat(constant.Shift(constant.MakeInt64(1), token.SHL, uint(-e)))
		return kind, constant.BinaryOp(x, token.QUO, p)
	}
	return kind, nil
}

// c32Gate: go/constant must agree with the model on the value built and on the text of the
// payload (ExactString). Returns "" if they agree.
func c32Gate(rec *c32Rec, x constant.Value) string {
	switch rec.K {
	case "nil", "bool", "string", "float2":
		if rec.K == "float2" && (x == nil || x.Kind() != constant.Float) {
			return "huge value is not a Float constant"
		}
		return ""
	}
	if x == nil || x.Kind() == constant.Unknown {
		return "constant could not be built"
	}
	want := []*big.Rat{rec.Re.Rat(), new(big.Rat)}
	if rec.K == "complex" {
		want[1] = rec.Im.Rat()
	}
	got := []*big.Rat{c04ConstRat(constant.Real(x)), c04ConstRat(constant.Imag(x))}
	for i := range want {
		if got[i] == nil || got[i].Cmp(want[i]) != 0 {
			return fmt.Sprintf("built constant has value %v, specification %v", got[i], want[i])
		}
	}
	// text of the payload as go/constant spells it
	text := core.BytesToString(rec.Text)
	var native string
	switch rec.K {
	case "complex":
		native = "complex:" + constant.Real(x).ExactString() + ":" + constant.Imag(x).ExactString()
	default:
		native = rec.K + ":" + x.ExactString()
	}
	if native != text {
		return fmt.Sprintf("go/constant spells %q, specification predicts %q", native, text)
	}
	return ""
}

func c32Same(k1 untyped.Kind, x constant.Value, k2 untyped.Kind, y constant.Value) (shape string) {
	defer func() {
		if r := recover(); r != nil {
			shape = "roundtrip-differs"
		}
	}()
	if k1 != k2 {
		return "kind-differs"
	}
	if x == nil || y == nil {
		if x == nil && y == nil {
			return ""
		}
		return "roundtrip-differs"
	}
	if y.Kind() == constant.Unknown {
		return "unmarshal-fails"
	}
	if !constant.Compare(x, token.EQL, y) {
		return "roundtrip-differs"
	}
	return ""
}

type c32Mismatch struct {
	Shape, What string
}

// c32Check round-trips one record in one representation variant through the real functions.
func c32Check(rec *c32Rec, variant int) (mm []c32Mismatch, gateWhy string) {
	kind, x := c32Build(rec, variant)
	if why := c32Gate(rec, x); why != "" {
		return nil, why
	}
	show := func(v constant.Value) string {
		if v == nil {
			return "<nil>"
		}
		s := v.ExactString()
		if len(s) > 200 {
			s = s[:200] + "…"
		}
		return s
	}
	run := func(name string, marshal func() string, unmarshal func(string) (untyped.Kind, constant.Value)) {
		var text string
		var k2 untyped.Kind
		var y constant.Value
		failed := ""
		func() {
			defer func() {
				if r := recover(); r != nil {
					failed = fmt.Sprint(r)
				}
			}()
			text = marshal()
			k2, y = unmarshal(text)
		}()
		if failed != "" {
			mm = append(mm, c32Mismatch{"unmarshal-fails", fmt.Sprintf("%s of {%v %s} panics: %s (text %q)", name, kind, show(x), failed, text)})
			return
		}
		if rec.Text != nil {
			if want := core.BytesToString(rec.Text); text != want {
				mm = append(mm, c32Mismatch{"text-differs", fmt.Sprintf("%s of {%v %s} = %q, specification %q", name, kind, show(x), text, want)})
			}
		}
		if shape := c32Same(kind, x, k2, y); shape != "" {
			mm = append(mm, c32Mismatch{shape, fmt.Sprintf("%s: {%v %s} -> %q -> {%v %s}", name, kind, show(x), text, k2, show(y))})
		}
	}
	run("Marshal/Unmarshal", func() string { return untyped.Marshal(kind, x) }, untyped.Unmarshal)
	run("Val.Marshal/UnmarshalVal", func() string { v := untyped.Val{Kind: kind, Val: x}; return v.Marshal() },
		func(s string) (untyped.Kind, constant.Value) { v := untyped.UnmarshalVal(s); return v.Kind, v.Val })
	return mm, ""
}

func c32SigKind(rec *c32Rec) string {
	if rec.K == "float2" {
		return "float-huge-exponent"
	}
	return rec.K
}

func c32NVariants(rec *c32Rec) int {
	switch rec.K {
	case "float", "complex":
		return c32Variants
	case "int", "rune":
		return 2
	}
	return 1
}

type c32Runner struct {
	c        *core.Ctx
	mu       sync.Mutex
	seen     map[string]bool
	firstErr error
	gateMsgs int
	samples  int
}

func (r *c32Runner) handle(line []byte) {
	c := r.c
	key := string(line)
	r.mu.Lock()
	dup := r.seen[key]
	r.seen[key] = true
	r.mu.Unlock()
	if dup {
		return
	}
	var rec c32Rec
	if err := json.Unmarshal(line, &rec); err == nil {
		err = rec.valid()
		if err != nil {
			r.firstErr = core.Infra("bad record from TLC: %v: %s", err, line)
			return
		}
	} else {
		r.firstErr = core.Infra("bad record from TLC: %v", err)
		return
	}
	nontrivial := rec.K != "nil" && rec.K != "bool"
	for variant := 0; variant < c32NVariants(&rec); variant++ {
		mm, gateWhy := c32Check(&rec, variant)
		if gateWhy != "" {
			c.Gate(false)
			if r.gateMsgs < 5 {
				r.gateMsgs++
				fmt.Printf("GATE-REJECT property=C32 (specification disagrees with go/constant; value dropped): variant %d of %s: %s\n", variant, line, gateWhy)
			}
			continue
		}
		c.Gate(true)
		c.Case(fmt.Sprintf("%s#%d", key, variant), nontrivial)
		c.Trace()
		if len(mm) == 0 {
			continue
		}
		again, _ := c32Check(&rec, variant) // second run (pure functions: must reproduce)
		if len(again) == 0 {
			r.firstErr = core.Infra("disagreement not reproducible: %v", mm)
			continue
		}
		for _, m := range again {
			c.Violation("codec("+c32SigKind(&rec)+"):"+m.Shape, m.What, map[string]interface{}{"record": json.RawMessage(line), "variant": variant, "what": m.What})
		}
	}
	if r.samples < 5 && (rec.K == "float" || rec.K == "complex" || rec.K == "string") && len(rec.Text) > 12 {
		r.samples++
		c.Sample(map[string]interface{}{"kind": rec.K, "re": rec.Re, "im": rec.Im, "text": core.BytesToString(rec.Text)})
	}
}

// ---------------------------------------------------------------- configuration

func c32Seeds() string {
	N := func(dec string) string { return c04Limbs(dec) }
	I := func(k string, neg bool, dec string) string {
		return fmt.Sprintf("CInt(%q, %s, %s)", k, strings.ToUpper(fmt.Sprint(neg)), N(dec))
	}
	R := func(neg bool, num, den string) string {
		return fmt.Sprintf("CRat(%s, %s, %s)", strings.ToUpper(fmt.Sprint(neg)), N(num), N(den))
	}
	F := func(neg bool, num, den string) string { return "VFloat(" + R(neg, num, den) + ")" }
	C := func(re, im string) string { return "VComplex(" + re + ", " + im + ")" }
	S := func(s string) string { return "VStr(" + core.TLASeq(s) + ")" }
	p := c04Pow
	seeds := []string{"VNil", "VBool(TRUE)", "VBool(FALSE)",
		I("int", false, "0"), I("int", false, "1"), I("int", true, "1"), I("int", false, p(2, 63)), I("int", true, p(2, 63)), I("int", false, p(2, 64)),
		I("int", false, p(10, 38)), I("int", true, "12345678901234567890123"), I("int", false, "10000"), I("int", false, "99999999"),
		I("rune", false, "97"), I("rune", false, "0"), I("rune", false, "1114111"), I("rune", true, "1"),
		F(false, "0", "1"), F(false, "1", "2"), F(true, "1", "2"), F(false, "1", "3"), F(true, "2", "3"), F(false, "1", "10"), F(false, "22", "7"),
		F(false, "1", p(10, 40)), F(false, p(10, 40), "1"), F(false, c04Pm(2, 53, 1), p(2, 60)), F(false, "7", p(10, 19)),
		F(false, "123456789", "1000000007"), F(false, "3", "1"), F(true, "10000", "1"), F(false, "1", "10000"),
		F(false, c04Pm(10, 80, 7), c04Pm(10, 79, 9)),
		C(R(false, "0", "1"), R(false, "0", "1")), C(R(false, "1", "1"), R(false, "0", "1")), C(R(false, "0", "1"), R(false, "1", "1")),
		C(R(false, "1", "3"), R(true, "2", "7")), C(R(false, p(10, 40), "1"), R(false, "1", p(10, 40))), C(R(true, "5", "2"), R(false, "3", "1")),
		S(""), S(":"), S("a:b"), S("::"), S("int:5"), S("é"), S("\xff"), S("a/b"), S("nil"), S("string:"), S("true"), S("1/2:3"), S("-0"),
	}
	return "c_Seeds == {" + strings.Join(seeds, ",\n  ") + "}\n"
}

var c32Steps = []string{"neg", "not", "x10p7", "sq", "shl64", "dec", "kind", "tofloat", "tocomplex", "swap", "div3", "div7", "half", "e-9", "e+9",
	"add1", "inv", "sqr", "huge", "tiny", "e*17", "m3", "colon", "colon0", "slash", "utf8", "byte", "nul", "kindname", "dup"}

func c32MC() string {
	var q []string
	for _, s := range c32Steps {
		q = append(q, fmt.Sprintf("%q", s))
	}
	return c32Seeds() + "c_Steps == {" + strings.Join(q, ", ") + "}\n"
}

func c32Cfg(maxSteps int, firstColon bool, view bool, invs string) string {
	s := fmt.Sprintf("SPECIFICATION Spec\nCONSTANTS\n Seeds <- c_Seeds\n Steps <- c_Steps\n MaxSteps = %d\n MaxLimbsC = 24\n MaxStrLen = 24\n FirstColon = %s\n EmitOn = TRUE\nINVARIANTS %s\n",
		maxSteps, strings.ToUpper(fmt.Sprint(firstColon)), invs)
	if view {
		s += "VIEW CView\n"
	}
	return s
}

const c32Invs = "TypeOK RoundTrip KindPrefix ZeroText Emit"

func runC32(c *core.Ctx) error {
	tlcW := 6
	// (M) the limb arithmetic the codec rests on (decimal rendering, parsing, gcd) is anchored in
	// C04's larger anchor run; here a reduced one
	if err := c04RunAnchor(c, c.Pick(20, 120), c.Pick(5, 10), c.Pick(3, 6), tlcW); err != nil {
		return err
	}
	r := &c32Runner{c: c, seen: map[string]bool{}}
	handle := func(line []byte) {
		if r.firstErr == nil {
			r.handle(line)
		}
	}
	// (M)+(R) every value within MaxSteps steps of a seed
	_, err := c.TLC(core.TLCOpts{Spec: "ConstCodec", MCDefs: c32MC(), CfgName: "values-bfs",
		Cfg: c32Cfg(c.Pick(2, 3), true, true, c32Invs), Workers: tlcW, OnLine: handle, Timeout: 9 * time.Minute})
	if err != nil {
		return err
	}
	if r.firstErr != nil {
		return r.firstErr
	}
	c.Exhaustive = true
	// (R) longer seeded walks
	depth := c.Pick(6, 9)
	_, err = c.TLC(core.TLCOpts{Spec: "ConstCodec", MCDefs: c32MC(), CfgName: "values-sim",
		Cfg: c32Cfg(depth, true, false, "RoundTrip KindPrefix ZeroText Emit"), Simulate: true, SimNum: c.Pick(25, 120), SimDepth: depth + 1, Seed: c.Seed,
		Workers: tlcW, OnLine: handle, Timeout: 9 * time.Minute})
	if err != nil {
		return err
	}
	c.Assume("numerators and denominators are bounded by 10^96 and stay in go/constant's exact *big.Rat regime, where the text is predicted; values m*2^e with |e| >= 5000 (512-bit *big.Float regime) are round-tripped without text prediction")
	c.Assume("the value handed to Marshal is the go/constant value the harness builds; representation variants (Int-kind value under Float kind, big.Rat, products, negative-zero constructions) are chosen by the harness")
	return r.firstErr
}

func replayC32(c *core.Ctx, raw json.RawMessage) error {
	var w struct {
		Record  json.RawMessage `json:"record"`
		Variant int             `json:"variant"`
	}
	if err := json.Unmarshal(raw, &w); err != nil {
		return err
	}
	var rec c32Rec
	if err := json.Unmarshal(w.Record, &rec); err != nil {
		return err
	}
	if err := rec.valid(); err != nil {
		return err
	}
	mm, gateWhy := c32Check(&rec, w.Variant)
	if gateWhy != "" {
		return core.Infra("go gate rejects the stored record: %s", gateWhy)
	}
	for _, m := range mm {
		c.Violation("codec("+c32SigKind(&rec)+"):"+m.Shape, m.What, map[string]interface{}{"record": w.Record, "variant": w.Variant, "what": m.What})
	}
	return nil
}

func selfTestC32(c *core.Ctx) error {
	// broken variant: splitting at the last ':' must violate RoundTrip
	res, err := c.TLC(core.TLCOpts{Spec: "ConstCodec", MCDefs: c32MC(), CfgName: "broken-last-colon",
		Cfg: strings.Replace(c32Cfg(1, false, true, "RoundTrip"), "EmitOn = TRUE", "EmitOn = FALSE", 1), ExpectError: true, Workers: 2})
	if err != nil {
		return err
	}
	if res.Violated != "RoundTrip" {
		return fmt.Errorf("broken variant FirstColon=FALSE not detected by TLC (violated=%q)\n%s", res.Violated, res.Output)
	}
	// correct records accepted
	good := []string{
		`{"k":"float","re":{"neg":true,"num":"2","den":"3"},"text":[102,108,111,97,116,58,45,50,47,51]}`,
		`{"k":"string","s":[97,58,98],"text":[115,116,114,105,110,103,58,97,58,98]}`,
		`{"k":"float2","neg":false,"m":"3","e":5000}`,
		`{"k":"nil","text":[110,105,108]}`,
	}
	for _, g := range good {
		var rec c32Rec
		if err := json.Unmarshal([]byte(g), &rec); err != nil || rec.valid() != nil {
			return fmt.Errorf("selftest record malformed: %s", g)
		}
		for v := 0; v < c32NVariants(&rec); v++ {
			if mm, why := c32Check(&rec, v); len(mm) != 0 || why != "" {
				return fmt.Errorf("correct record rejected: %s: %v %s", g, mm, why)
			}
		}
	}
	// corrupted records rejected: by the gate (value vs text) or by the replay (text)
	var rec c32Rec
	json.Unmarshal([]byte(`{"k":"float","re":{"neg":true,"num":"2","den":"3"},"text":[102,108,111,97,116,58,50,47,51]}`), &rec) // sign lost in text
	if mm, why := c32Check(&rec, 0); len(mm) == 0 && why == "" {
		return fmt.Errorf("corrupted record (sign lost) accepted")
	}
	json.Unmarshal([]byte(`{"k":"string","s":[97,58,98],"text":[115,116,114,105,110,103,58,97]}`), &rec) // truncated at ':'
	if mm, _ := c32Check(&rec, 0); len(mm) == 0 {
		return fmt.Errorf("corrupted record (string truncated at ':') accepted")
	}
	var bad c32Rec
	json.Unmarshal([]byte(`{"k":"float","text":[1]}`), &bad)
	if bad.valid() == nil {
		return fmt.Errorf("malformed record accepted")
	}
	return nil
}

package props

import (
	"bytes"
	"encoding/json"
	"fmt"
	"go/ast"
	"reflect"
	"sort"
	"strings"
	"time"

	"github.com/cosmos72/gomacro/classic"
	"github.com/cosmos72/gomacro/fast"

	"verif/harness/core"
)

// C21: ~quote and ~quasiquote build the documented syntax trees in both interpreters.
// Spec: spec/front/Quasi.tla (+ Forms.tla).
// (M) TLC checks the laws of EvalQuasi on every generated template (identity without unquotes,
// depth bookkeeping, splicing, list positions, leaves).
// (R) every template is rendered as gomacro source inside a function  func qN() interface{}
// { return ~quasiquote{...} }  with the unquoted names bound to the specification's environment
// (x := ~quote{u + 1}, lists as blocks and as []ast.Node), declared in a fast and a classic
// interpreter and called three times: results are projected and compared exactly with the
// specification and with each other; the first result is then mutated destructively - the second
// result and a third call must still be the specified tree (freshness).
// Gate: the projection of the parser's output of the rendered template must be the template; the
// environment variables must evaluate to the specification's environment.

func init() {
	core.Register(&core.Prop{
		ID: "C21",
		Rule: "TLC derives every quasiquote template within the node budget (BFS) and random larger ones (seeded simulation) with ~unquote / ~unquote_splice of environment names at depth 1..3, " +
			"and a corpus of arbitrary forms under ~quote; a case is one (template, interpreter); non-trivial = the template contains an unquote, or (quote corpus) a composite form",
		Run:      runC21,
		Replay:   replayC21,
		SelfTest: selfTestC21,
	})
}

type c21Dev struct {
	Name string   `json:"name"`
	O    *c20Node `json:"o"`
}

type c21Case struct {
	T     string              `json:"t"`
	In    *c20Node            `json:"in"`
	Spec  *c20Node            `json:"spec"`
	Devs  []c21Dev            `json:"devs"`
	Depth int                 `json:"depth"`
	Unq   bool                `json:"unq"`
	Env   map[string]*c20Node `json:"env,omitempty"`
}

var c21QuasiKinds = []string{"bin", "unary", "call", "q", "qq", "uq", "uqs", "if", "for", "ret", "assign", "define"}

func c21Cfg(maxNodes int, mode, roots, broken string, emit bool, invs string) string {
	env := " EnvT = {\"x\", \"y\"}\n EnvTL = {\"l\"}\n EnvL = {\"l\", \"l1\", \"l0\", \"ls\"}\n"
	if mode == "macro" {
		env = " EnvT = {}\n EnvTL = {}\n EnvL = {}\n"
	}
	return fmt.Sprintf("SPECIFICATION Spec\nCONSTANTS\n MaxNodes = %d\n Mode = \"%s\"\n Kinds <- c_Kinds\n%s Roots = %s\n Broken = %s\n EmitOn = %s\nINVARIANTS %s\n",
		maxNodes, mode, env, roots, broken, strings.ToUpper(fmt.Sprint(emit)), invs)
}

const c21Laws = "TypeOK IdentityLaw DepthLaw SpliceLaw NestedSpliceLaw PositionLaw LeavesLaw"

// ---------------------------------------------------------------------------------------

type c21Interp struct {
	name string
	ir   *fast.Interp
	cl   *classic.Interp
	out  *bytes.Buffer
	env  map[ast.Node]bool // nodes of the environment values (shared with results by design)
	nfun int
}

func (g *c21Interp) eval(src string) (v interface{}, p string) {
	p = c20Recover(func() {
		if g.ir != nil {
			vs, _ := g.ir.Eval(src)
			if len(vs) > 0 && vs[0].IsValid() && vs[0].CanInterface() {
				v = vs[0].Interface()
			}
		} else {
			r, _ := g.cl.Eval(src)
			if r.IsValid() && r.CanInterface() {
				v = r.Interface()
			}
		}
	})
	g.out.Reset()
	return
}

// envDecl renders one environment entry as a declaration.
func c21EnvDecl(name string, v *c20Node) string {
	switch v.K {
	case "block":
		switch len(v.C) {
		case 0:
			return name + " := ~quote{{}}"
		case 1:
			return name + " := ~quote{{" + c20Render(v.C[0]) + "}}"
		}
		return name + " := ~quote" + c20Render(v)
	case "list":
		var es []string
		for _, e := range v.C {
			es = append(es, "~quote{"+c20Render(e)+"}")
		}
		return "var " + name + " = []ast.Node{" + strings.Join(es, ", ") + "}"
	}
	return name + " := ~quote{" + c20Render(v) + "}"
}

func c21CollectNodes(x interface{}, set map[ast.Node]bool) {
	switch v := x.(type) {
	case []ast.Node:
		for _, n := range v {
			c21CollectNodes(n, set)
		}
	case ast.Node:
		if v == nil || reflect.ValueOf(v).IsNil() {
			return
		}
		ast.Inspect(v, func(n ast.Node) bool {
			if n != nil && !reflect.ValueOf(n).IsNil() {
				set[n] = true
			}
			return true
		})
	}
}

// newC21Interp creates one interpreter with the environment declared; the environment is
// verified against the specification's (gate).
func newC21Interp(c *core.Ctx, name string, env map[string]*c20Node, gate bool) (*c21Interp, error) {
	g := &c21Interp{name: name, out: &bytes.Buffer{}, env: map[ast.Node]bool{}}
	if name == "fast" {
		g.ir = fast.New()
		g.ir.Comp.Globals.Stdout = g.out
		g.ir.Comp.Globals.Stderr = g.out
	} else {
		g.cl = classic.New()
		g.cl.Stdout = g.out
		g.cl.Stderr = g.out
	}
	if _, p := g.eval(`import "go/ast"`); p != "" {
		return nil, core.Infra("%s: import go/ast: %s", name, p)
	}
	names := make([]string, 0, len(env))
	for n := range env {
		names = append(names, n)
	}
	sort.Strings(names)
	for _, n := range names {
		d := c21EnvDecl(n, env[n])
		if _, p := g.eval(d); p != "" {
			return nil, core.Infra("%s interpreter rejects the environment declaration %q: %s", name, d, p)
		}
		v, p := g.eval(n)
		var got *c20Node
		var err error
		if p == "" {
			got, err = c20Project(v)
		}
		ok := p == "" && err == nil && c20Equal(got, env[n])
		if gate {
			c.Gate(ok)
		}
		if !ok {
			return nil, core.Infra("%s: environment entry %s declared as %q evaluates to %v (%s %v), specification says %v", name, n, d, got, p, err, env[n])
		}
		c21CollectNodes(v, g.env)
	}
	return g, nil
}

// mutate destroys a result tree in place, leaving alone the nodes that belong to the
// environment values (an unquoted value is inserted by reference, as in Lisp).
func (g *c21Interp) mutate(root ast.Node) {
	if root == nil || reflect.ValueOf(root).IsNil() {
		return
	}
	ast.Inspect(root, func(n ast.Node) bool {
		if n == nil || reflect.ValueOf(n).IsNil() {
			return false
		}
		if g.env[n] {
			return false
		}
		switch v := n.(type) {
		case *ast.Ident:
			v.Name = "MUT"
		case *ast.BasicLit:
			v.Value = "666"
		case *ast.BinaryExpr:
			v.X, v.Y = v.Y, v.X
		case *ast.CallExpr:
			for i, j := 0, len(v.Args)-1; i < j; i, j = i+1, j-1 {
				v.Args[i], v.Args[j] = v.Args[j], v.Args[i]
			}
		case *ast.BlockStmt:
			for i, j := 0, len(v.List)-1; i < j; i, j = i+1, j-1 {
				v.List[i], v.List[j] = v.List[j], v.List[i]
			}
		case *ast.ReturnStmt:
			if len(v.Results) > 1 {
				v.Results[0], v.Results[len(v.Results)-1] = v.Results[len(v.Results)-1], v.Results[0]
			}
		}
		return true
	})
}

type c21Mismatch struct{ sig, what string }

// c21QNorm is the Go side of Quasi.tla's QNorm: a quote whose body is one block of n # 1
// statements is the quote of these statements (go/parser/quote.go MakeQuote).
func c21QNorm(t *c20Node) *c20Node {
	if t == nil {
		return nil
	}
	cs := make([]*c20Node, len(t.C))
	for i, c := range t.C {
		cs[i] = c21QNorm(c)
	}
	switch t.K {
	case "q", "qq", "uq", "uqs":
		if len(cs) == 1 && len(cs[0].C) == 1 && cs[0].C[0].K == "block" && len(cs[0].C[0].C) != 1 {
			return &c20Node{K: t.K, A: t.A, C: []*c20Node{cs[0].C[0]}}
		}
	}
	return &c20Node{K: t.K, A: t.A, C: cs}
}

// position kind of the first unquote of the template (signature data)
func c21Position(in *c20Node) string {
	pos := "none"
	var walk func(n, parent *c20Node, top bool) bool
	walk = func(n, parent *c20Node, top bool) bool {
		if n.K == "uq" || n.K == "uqs" {
			switch {
			case top:
				pos = "top"
			case parent.K == "block" || parent.K == "ret" || parent.K == "list":
				pos = parent.K
			default:
				pos = "slot-" + parent.K
			}
			return true
		}
		for _, c := range n.C {
			if walk(c, n, false) {
				return true
			}
		}
		return false
	}
	if len(in.C) == 1 {
		for _, e := range in.C[0].C {
			if walk(e, in.C[0], len(in.C[0].C) == 1 && (e.K == "uq" || e.K == "uqs")) {
				break
			}
		}
	}
	return pos
}

func c21SameLeaves(x, y *c20Node) bool {
	var lx, ly []string
	var walk func(n *c20Node, l *[]string)
	walk = func(n *c20Node, l *[]string) {
		if n.K == "id" || n.K == "int" {
			*l = append(*l, n.A)
		}
		for _, c := range n.C {
			walk(c, l)
		}
	}
	walk(x, &lx)
	walk(y, &ly)
	sort.Strings(lx)
	sort.Strings(ly)
	return strings.Join(lx, " ") == strings.Join(ly, " ")
}

func c21HasSplice(n *c20Node) bool {
	return n.count(func(x *c20Node) bool { return x.K == "uqs" }) > 0
}

// c21DevOf names the deviation of Quasi.tla that explains a real outcome ("" if none).
func c21DevOf(cs *c21Case, got *c20Node, panicked string) string {
	for _, d := range cs.Devs {
		if (d.O.K == "error" && panicked != "") || (panicked == "" && got != nil && c20Equal(got, d.O)) {
			return d.Name
		}
	}
	return ""
}

func c21Classify(cs *c21Case, interp string, got *c20Node, panicked string) string {
	pos := c21Position(cs.In)
	class := "tree-differs"
	if c21HasSplice(cs.In) && got != nil && (got.size() != cs.Spec.size() || c21SameLeaves(got, cs.Spec)) {
		// a different number of elements, or the same leaves in another arrangement
		class = "splice-differs"
	}
	if d := c21DevOf(cs, got, panicked); d != "" {
		pos = "as-" + d
		if d == "topsplice" {
			class = "tree-differs"
		} else {
			class = "splice-differs"
		}
	}
	if panicked != "" {
		class = "panics"
	}
	return fmt.Sprintf("quasi(%d,%s):%s@%s", cs.Depth, pos, class, interp)
}

// check one case on one interpreter. Returns the projected first result (nil if none).
func (g *c21Interp) check(cs *c21Case) (first *c20Node, panicked string, mism []c21Mismatch, err error) {
	src := c20Render(cs.In)
	g.nfun++
	fn := fmt.Sprintf("q%d", g.nfun)
	if _, p := g.eval("func " + fn + "() interface{} { return " + src + " }"); p != "" {
		sig := c21Classify(cs, g.name, nil, p)
		return nil, p, []c21Mismatch{{sig, fmt.Sprintf("%s: declaring a function returning %s panics: %s; specification says %v", g.name, src, p, cs.Spec)}}, nil
	}
	call := fn + "()"
	var rs [3]interface{}
	var ps [3]*c20Node
	get := func(i int) (string, error) {
		v, p := g.eval(call)
		if p != "" {
			return p, nil
		}
		if n, ok := v.(ast.Node); ok && (n == nil || reflect.ValueOf(n).IsNil()) {
			v = nil
		}
		rs[i] = v
		n, e := c20Project(v)
		if e != nil {
			return "", core.Infra("%s: cannot project the value of %s: %v", g.name, src, e)
		}
		ps[i] = c21QNorm(n)
		return "", nil
	}
	for i := 0; i < 2; i++ {
		p, e := get(i)
		if e != nil {
			return nil, "", nil, e
		}
		if p != "" {
			sig := c21Classify(cs, g.name, nil, p)
			return nil, p, []c21Mismatch{{sig, fmt.Sprintf("%s: %s panics: %s; specification says %v", g.name, src, p, cs.Spec)}}, nil
		}
	}
	first = ps[0]
	if !c20Equal(ps[0], cs.Spec) {
		mism = append(mism, c21Mismatch{c21Classify(cs, g.name, ps[0], ""),
			fmt.Sprintf("%s: %s = %v, specification says %v", g.name, src, ps[0], cs.Spec)})
		return first, "", mism, nil
	}
	if !c20Equal(ps[1], cs.Spec) {
		mism = append(mism, c21Mismatch{fmt.Sprintf("quasi(%d,%s):tree-differs@%s", cs.Depth, "second-evaluation", g.name),
			fmt.Sprintf("%s: the second evaluation of %s = %v, the first %v", g.name, src, ps[1], ps[0])})
		return first, "", mism, nil
	}
	if cs.In.K != "qq" {
		return first, "", nil, nil // ~quote is a literal: the same tree every time
	}
	// freshness: destroy the first result
	if n, ok := rs[0].(ast.Node); ok {
		g.mutate(n)
	}
	after, e := c20Project(rs[1])
	after = c21QNorm(after)
	if e != nil {
		return first, "", nil, core.Infra("%s: cannot project the second value of %s after mutating the first: %v", g.name, src, e)
	}
	kind := func(n *c20Node) string {
		if n.count(func(x *c20Node) bool { return (x.K == "id" && x.A == "MUT") || (x.K == "int" && x.A == "666") }) > 0 {
			return "atom"
		}
		return "node"
	}
	if !c20Equal(after, cs.Spec) {
		mism = append(mism, c21Mismatch{fmt.Sprintf("quasi(%d,%s):not-fresh@%s", cs.Depth, kind(after), g.name),
			fmt.Sprintf("%s: two evaluations of %s share structure: after mutating the first result the second reads %v instead of %v", g.name, src, after, cs.Spec)})
		return first, "", mism, nil
	}
	p, e := get(2)
	if e != nil {
		return first, "", nil, e
	}
	if p != "" {
		mism = append(mism, c21Mismatch{fmt.Sprintf("quasi(%d,%s):not-fresh@%s", cs.Depth, "panic", g.name),
			fmt.Sprintf("%s: after mutating the first result, evaluating %s again panics: %s", g.name, src, p)})
	} else if !c20Equal(ps[2], cs.Spec) {
		mism = append(mism, c21Mismatch{fmt.Sprintf("quasi(%d,%s):not-fresh@%s", cs.Depth, kind(ps[2]), g.name),
			fmt.Sprintf("%s: the result of %s shares structure with the program: after mutating the first result a new evaluation gives %v instead of %v", g.name, src, ps[2], cs.Spec)})
	}
	return first, "", mism, nil
}

type c21Pair struct {
	fast, clas *c21Interp
	n          int
}

func newC21Pair(c *core.Ctx, env map[string]*c20Node, gate bool) (*c21Pair, error) {
	f, err := newC21Interp(c, "fast", env, gate)
	if err != nil {
		return nil, err
	}
	k, err := newC21Interp(c, "classic", env, gate)
	if err != nil {
		return nil, err
	}
	return &c21Pair{fast: f, clas: k}, nil
}

func (pr *c21Pair) check(c *core.Ctx, cs *c21Case, count bool) ([]c21Mismatch, error) {
	src := c20Render(cs.In)
	// gate: the parser's output, projected, is the template
	var parsed *c20Node
	var perr error
	p := c20Recover(func() {
		nodes := pr.fast.ir.Comp.ParseBytes([]byte(src))
		if len(nodes) != 1 {
			perr = fmt.Errorf("%d nodes", len(nodes))
			return
		}
		parsed, perr = c20Project(nodes[0])
	})
	pr.fast.out.Reset()
	ok := p == "" && perr == nil && c20Equal(parsed, cs.In)
	if count {
		c.Gate(ok)
	}
	if !ok {
		if count && c.GateRejects <= 3 {
			fmt.Printf("GATE-REJECT C21: source %q parses to %v (%s %v), specification form %v\n", src, parsed, p, perr, cs.In)
		}
		return nil, nil
	}
	nontrivial := cs.Unq || (cs.In.K == "q" && cs.In.size() > 3)
	var mism []c21Mismatch
	f1, fp, fm, err := pr.fast.check(cs)
	if err != nil {
		return nil, err
	}
	k1, kp, km, err := pr.clas.check(cs)
	if err != nil {
		return nil, err
	}
	if count {
		c.Case("fast|"+src, nontrivial)
		c.Case("classic|"+src, nontrivial)
	}
	mism = append(append(mism, fm...), km...)
	if (fp == "") != (kp == "") || (fp == "" && !c20Equal(f1, k1)) {
		pos := c21Position(cs.In)
		if d := c21DevOf(cs, f1, fp); d != "" && (fp != "" || !c20Equal(f1, cs.Spec)) {
			pos = "as-" + d
		} else if d := c21DevOf(cs, k1, kp); d != "" && (kp != "" || !c20Equal(k1, cs.Spec)) {
			pos = "as-" + d
		}
		mism = append(mism, c21Mismatch{fmt.Sprintf("quasi(%d,%s):fast-classic-differ", cs.Depth, pos),
			fmt.Sprintf("%s: fast gives %v %s, classic gives %v %s", src, f1, fp, k1, kp)})
	}
	return mism, nil
}

// confirmed counts, per signature, the disagreements already reproduced in fresh interpreters:
// the first three of every signature are re-run in a fresh pair before they are reported, later
// ones (the working pair is itself renewed every 400 cases) are reported as they are.
var c21Confirmed = map[string]int{}

func c21Verdict(c *core.Ctx, pr *c21Pair, cs *c21Case) error {
	mism, err := pr.check(c, cs, true)
	if err != nil {
		return err
	}
	c.Trace()
	if len(mism) == 0 {
		return nil
	}
	again := mism
	need := false
	for _, m := range mism {
		if c21Confirmed[m.sig] < 3 {
			need = true
		}
	}
	if need {
		fresh, err := newC21Pair(c, cs.Env, false)
		if err != nil {
			return err
		}
		again, err = fresh.check(c, cs, false)
		if err != nil {
			return err
		}
		if len(again) == 0 {
			return core.Infra("mismatch not reproducible in fresh interpreters: %s", mism[0].what)
		}
		for _, m := range again {
			c21Confirmed[m.sig]++
		}
	}
	seen := map[string]bool{}
	for _, m := range again {
		if seen[m.sig] {
			continue
		}
		seen[m.sig] = true
		c.Violation(m.sig, "environment: "+c21EnvText(cs.Env)+"\n"+m.what, cs)
	}
	return nil
}

func c21EnvText(env map[string]*c20Node) string {
	var names []string
	for n := range env {
		names = append(names, n)
	}
	sort.Strings(names)
	var ds []string
	for _, n := range names {
		ds = append(ds, c21EnvDecl(n, env[n]))
	}
	return strings.Join(ds, "; ")
}

type c21Runner struct {
	c     *core.Ctx
	env   map[string]*c20Node
	pair  *c21Pair
	seen  map[string]bool
	err   error
	nSamp int
}

func (r *c21Runner) line(line []byte) {
	if r.err != nil {
		return
	}
	var cs c21Case
	if err := json.Unmarshal(line, &cs); err != nil {
		r.err = core.Infra("bad record from TLC: %v", err)
		return
	}
	if cs.T == "env" {
		r.env = cs.Env
		return
	}
	if r.env == nil {
		r.err = core.Infra("case before the environment record")
		return
	}
	cs.Env = r.env
	key := c20Render(cs.In)
	if r.seen[key] {
		return
	}
	r.seen[key] = true
	if r.pair == nil || r.pair.n >= 400 {
		pr, err := newC21Pair(r.c, r.env, r.pair == nil)
		if err != nil {
			r.err = err
			return
		}
		r.pair = pr
	}
	r.pair.n++
	if r.nSamp < 5 && cs.Unq && cs.In.size() >= 9 && r.nSamp*800 < len(r.seen) {
		r.nSamp++
		r.c.Sample(map[string]interface{}{"template": key, "value": cs.Spec.String(), "environment": c21EnvText(r.env)})
	}
	if err := c21Verdict(r.c, r.pair, &cs); err != nil {
		r.err = err
	}
}

func runC21(c *core.Ctx) error {
	r := &c21Runner{c: c, seen: map[string]bool{}}
	invs := c21Laws + " Emit EmitMeta"
	to := 30 * time.Minute
	if c.Thorough() {
		to = 45 * time.Minute
	}
	qk := "c_Kinds == " + c20TLAStrs(c21QuasiKinds, "{", "}") + "\n"
	ak := "c_Kinds == " + c20TLAStrs(c20AllKinds, "{", "}") + "\n"
	type run struct {
		name, defs, cfg string
		sim             bool
		num             int
		exhaustive      bool
	}
	runs := []run{
		// (M)+(R) every quasiquote template within the node budget
		{"templates-bfs", qk, c21Cfg(c.Pick(7, 8), "quasi", `{"qq"}`, "{}", true, invs), false, 0, true},
		// (R) random larger templates, nesting up to 3
		{"templates-sim", qk, c21Cfg(c.Pick(13, 16), "quasi", `{"qq"}`, "{}", true, invs), true, c.Pick(60, 500), false},
		// (R) the ~quote corpus: arbitrary forms, verbatim
		{"quote-bfs", ak, c21Cfg(c.Pick(5, 6), "macro", `{"q"}`, "{}", true, "TypeOK IdentityLaw Emit EmitMeta"), false, 0, false},
		{"quote-sim", ak, c21Cfg(c.Pick(12, 15), "macro", `{"q"}`, "{}", true, "TypeOK IdentityLaw Emit EmitMeta"), true, c.Pick(25, 200), false},
	}
	for _, x := range runs {
		q := newC20Queue(r.line)
		_, err := c.TLC(core.TLCOpts{Spec: "Quasi", MCDefs: x.defs, CfgName: x.name, Cfg: x.cfg,
			Simulate: x.sim, SimNum: x.num, SimDepth: 70, Seed: c.Seed, OnLine: q.put, Workers: 6, Timeout: to})
		q.wait()
		if err != nil {
			return err
		}
		if r.err != nil {
			return r.err
		}
		if x.exhaustive {
			c.Exhaustive = true
		}
	}
	c.Assume("unquoted expressions are names bound to the specification's environment (trees; lists as blocks and as []ast.Node)")
	c.Assume("~quote is a literal (the same tree at every evaluation, as Lisp's quote); freshness is required of ~quasiquote, whose unquoted values are inserted by reference")
	c.Assume("templates contain no parentheses and no bare blocks (gomacro drops or looks through them while building the tree); ~unquote_splice only as an element of a list")
	return r.err
}

func replayC21(c *core.Ctx, raw json.RawMessage) error {
	var cs c21Case
	if err := json.Unmarshal(raw, &cs); err != nil {
		return err
	}
	pr, err := newC21Pair(c, cs.Env, false)
	if err != nil {
		return err
	}
	return c21Verdict(c, pr, &cs)
}

func selfTestC21(c *core.Ctx) error {
	qk := "c_Kinds == " + c20TLAStrs([]string{"bin", "call", "qq", "uq", "uqs", "ret"}, "{", "}") + "\n"
	for _, bv := range []struct{ broken, law string }{{`{"splice1"}`, "SpliceLaw"}, {`{"naive"}`, "NestedSpliceLaw"}} {
		r, err := c.TLC(core.TLCOpts{Spec: "Quasi", MCDefs: qk, CfgName: "broken-" + bv.broken,
			Cfg: c21Cfg(9, "quasi", `{"qq"}`, bv.broken, false, bv.law), ExpectError: true, Workers: 4})
		if err != nil {
			return err
		}
		if r.Violated != bv.law {
			return fmt.Errorf("broken variant %s not rejected (violated=%q)\n%s", bv.broken, r.Violated, r.Output)
		}
	}
	// correct / corrupted records
	env := map[string]*c20Node{
		"x": c20N("bin", "+", c20N("id", "u"), c20N("int", "1")),
		"l": c20N("block", "", c20N("int", "7"), c20N("int", "8")),
	}
	uq := func(k, name string) *c20Node { return c20N(k, "", c20N("block", "", c20N("id", name))) }
	in := c20N("qq", "", c20N("block", "", c20N("id", "a1"), uq("uqs", "l"), c20N("call", "", c20N("id", "f"), c20N("list", "", uq("uq", "x")))))
	spec := c20N("block", "", c20N("id", "a1"), c20N("int", "7"), c20N("int", "8"), c20N("call", "", c20N("id", "f"), c20N("list", "", env["x"])))
	cs := &c21Case{In: in, Spec: spec, Depth: 1, Unq: true, Env: env}
	pr, err := newC21Pair(c, env, false)
	if err != nil {
		return err
	}
	m, err := pr.check(c, cs, false)
	if err != nil {
		return err
	}
	for _, x := range m {
		if !strings.Contains(x.sig, "not-fresh@classic") {
			return fmt.Errorf("correct record rejected: %v", x)
		}
	}
	bad := *cs
	bad.Spec = c20N("block", "", c20N("id", "a1"), env["l"], spec.C[3])
	m, _ = pr.check(c, &bad, false)
	found := false
	for _, x := range m {
		if strings.Contains(x.sig, "@fast") && strings.Contains(x.sig, "-differs") {
			found = true
		}
	}
	if !found {
		return fmt.Errorf("corrupted expectation accepted: %v", m)
	}
	// a sharing interpreter must be caught: the environment value IS shared, so a result that
	// consists of it alone must not be reported
	cs2 := &c21Case{In: c20N("qq", "", c20N("block", "", uq("uq", "x"))), Spec: env["x"], Depth: 1, Unq: true, Env: env}
	m, err = pr.check(c, cs2, false)
	if err != nil || len(m) != 0 {
		return fmt.Errorf("a template that is only an unquoted value must conform (its tree is the environment's): %v %v", m, err)
	}
	return nil
}

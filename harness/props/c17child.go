package props

import (
	"bufio"
	"encoding/json"
	"fmt"
	"os"
	"strconv"
	"strings"
	"syscall"
	"time"

	"verif/harness/core"
	"verif/harness/gm"
)

// Guarded observation: inputs on which the code under test may not return (a goroutine cannot
// be stopped) are observed in a child process - this same binary, started as
// `vcheck <id> sub <job file> <cpu limit ms>` (core.RunSub) - that a watchdog ends.
// The child only observes; comparing and reporting stay in the parent.

type c17Job struct {
	Src  string `json:"src"`
	Runs int    `json:"runs"`
}

type c17ChildRes struct {
	Hang bool
	Obs  json.RawMessage
}

const c17ObsPrefix = "C17OBS "
const c17HangPrefix = "C17HANG "

// c17SubMain is Prop.Sub of C17 and C16: args = <job file> <cpu limit ms>.
func c17SubMain(prop string, args []string) int {
	if len(args) != 2 {
		return 2
	}
	b, err := os.ReadFile(args[0])
	if err != nil {
		return 2
	}
	var jobs []json.RawMessage
	ms, err2 := strconv.Atoi(args[1])
	if json.Unmarshal(b, &jobs) != nil || err2 != nil {
		return 2
	}
	c17ChildMain(prop, jobs, time.Duration(ms)*time.Millisecond)
	return 0
}

func c17CPUTime() time.Duration {
	var ru syscall.Rusage
	if syscall.Getrusage(syscall.RUSAGE_SELF, &ru) != nil {
		return 0
	}
	return time.Duration(ru.Utime.Nano() + ru.Stime.Nano())
}

// c17ChildMain runs in the child: one line per job; exits with status 3 when the watchdog
// fires. `limit` bounds the CPU time of the process during one job (a job normally needs
// milliseconds): unlike a wall-clock limit it does not fire because the machine is busy, so a
// non-returning call is told apart from a starved one. A wall-clock limit of ten minutes
// backs it up.
func c17ChildMain(prop string, jobs []json.RawMessage, limit time.Duration) {
	out := bufio.NewWriter(os.Stdout)
	var st interface{}
	if prop == "C16" {
		// creating the first interpreter of a process runs `go list` (export data lookup) and
		// can take seconds: it must not count against a job's time limit
		st = &c16State{g: gm.New()}
	}
	for k, raw := range jobs {
		done := make(chan []byte, 1)
		go func() {
			var res interface{}
			switch prop {
			case "C17":
				var j c17Job
				if err := json.Unmarshal(raw, &j); err != nil {
					res = &c17Obs{ParseErr: "bad job: " + err.Error()}
				} else {
					res = c17Observe(j.Src, j.Runs, true)
				}
			case "C16":
				res, st = c16ChildObserve(raw, st)
			}
			b, _ := json.Marshal(res)
			done <- b
		}()
		cpu0 := c17CPUTime()
		wall0 := time.Now()
		tick := time.NewTicker(5 * time.Millisecond)
	wait:
		for {
			select {
			case b := <-done:
				fmt.Fprintf(out, "%s%d %s\n", c17ObsPrefix, k, b)
				out.Flush()
				break wait
			case <-tick.C:
				if c17CPUTime()-cpu0 > limit || time.Since(wall0) > 10*time.Minute {
					fmt.Fprintf(out, "%s%d\n", c17HangPrefix, k)
					out.Flush()
					os.Exit(3)
				}
			}
		}
		tick.Stop()
	}
	out.Flush()
	os.Exit(0)
}

// c17Children observes the jobs in child processes; a job during which the child consumes more
// than `limit` of CPU time is reported as Hang and the remaining jobs continue in a new child.
func c17Children(prop string, jobs []interface{}, limit time.Duration) ([]c17ChildRes, error) {
	return c17ChildrenOpt(prop, jobs, limit, false)
}

// c17ChildrenUntilHang stops at the first job that hangs (later results stay empty).
func c17ChildrenUntilHang(prop string, jobs []interface{}, limit time.Duration) ([]c17ChildRes, error) {
	return c17ChildrenOpt(prop, jobs, limit, true)
}

func c17ChildrenOpt(prop string, jobs []interface{}, limit time.Duration, stopAtHang bool) ([]c17ChildRes, error) {
	res := make([]c17ChildRes, len(jobs))
	start := 0
	for start < len(jobs) {
		var raws []json.RawMessage
		for _, j := range jobs[start:] {
			b, err := json.Marshal(j)
			if err != nil {
				return nil, core.Infra("child job: %v", err)
			}
			raws = append(raws, b)
		}
		f, err := os.CreateTemp("", "verif-child-*.json")
		if err != nil {
			return nil, core.Infra("child job file: %v", err)
		}
		body, _ := json.Marshal(raws)
		f.Write(body)
		f.Close()
		// the whole child is bounded too (start-up is outside the per-job watchdog)
		stdout, stderr, code := core.RunSub(prop, 5*time.Second*time.Duration(len(raws))+3*time.Minute,
			f.Name(), strconv.Itoa(int(limit/time.Millisecond)))
		os.Remove(f.Name())
		got := 0
		hung := -1
		sc := bufio.NewScanner(strings.NewReader(stdout))
		sc.Buffer(make([]byte, 1<<20), 1<<26)
		for sc.Scan() {
			line := sc.Text()
			switch {
			case strings.HasPrefix(line, c17ObsPrefix):
				rest := line[len(c17ObsPrefix):]
				sp := strings.IndexByte(rest, ' ')
				if sp < 0 {
					continue
				}
				k, err := strconv.Atoi(rest[:sp])
				if err != nil || k != got {
					return nil, core.Infra("child protocol error at job %d: %.200s", got, line)
				}
				res[start+k].Obs = json.RawMessage(rest[sp+1:])
				got++
			case strings.HasPrefix(line, c17HangPrefix):
				k, err := strconv.Atoi(strings.TrimSpace(line[len(c17HangPrefix):]))
				if err != nil || k != got {
					return nil, core.Infra("child protocol error at job %d: %.200s", got, line)
				}
				hung = k
			}
		}
		switch {
		case hung >= 0:
			res[start+hung].Hang = true
			start += hung + 1
			if stopAtHang {
				return res, nil
			}
		case got == len(raws):
			start += got
		default:
			return nil, core.Infra("child process ended (exit code %d) after %d of %d jobs\n%s\n%s", code, got, len(raws),
				tailOf(stdout, 600), tailOf(stderr, 1200))
		}
	}
	return res, nil
}

func tailOf(s string, n int) string {
	if len(s) > n {
		return s[len(s)-n:]
	}
	return s
}

#!/bin/bash
# usage: tools/tryseed.sh <patch.diff> <check id>...   — applies the patch to a scratch copy of
# /repo and runs the given quick checks against it (never touches /repo).
P="$1"; shift
S=/tmp/repo-seed-$$
rm -rf "$S"; cp -a /repo "$S" && (cd "$S" && git checkout -q -- . && git apply "$P") || { echo "patch does not apply"; rm -rf "$S"; exit 2; }
for id in "$@"; do
  out=$(REPO="$S" timeout 3000 /verif/bin/check "$id" quick 2>&1 | grep -v "^// warn")
  echo "== $id on $(basename $(dirname $P))/$(basename $P): rc=$? $(echo "$out" | grep -c '^VIOLATION') VIOLATION lines"
  echo "$out" | grep "violations with\|SUMMARY\|INCONCL" | cut -c1-260
done
rm -rf "$S"

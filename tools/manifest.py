#!/usr/bin/env python3
"""Regenerates /verif/MANIFEST.json from the table below (one entry per claimed property)."""
import json, os, subprocess
V = os.path.dirname(os.path.dirname(os.path.abspath(__file__)))
TRUST = "TLC/SANY; the harness's renderer and projection; JSON plumbing; the specification module as the statement of the property"
CHECKS = {
 "C37": dict(
   technique="TLA+ spec Cmds.tla: TLC refinement check (binary/prefix search vs linear-scan definition) on every table + replay of every TLC table and seeded TLC histories on fast.Commands and Interp.Cmd",
   text="TLC exhaustively enumerates every command table over a name set sharing prefixes (2^11 quick, 2^16 thorough) and checks that the implementation-level lookup refines the linear-scan definition; every distinct table and tens of thousands of simulated add/del/lookup histories are replayed on the real fast.Commands and Interp.Cmd and compared lookup by lookup. Exhaustive inside the bound, which is the right level for a small pure data structure.",
   ref="§6 C37", note=TRUST + "; only the package-level table is constructible; built-in commands are looked up but not executed"),
 "C07": dict(
   technique="TLA+ spec Defer.tla (Go semantics of defer/panic/recover with lazily revealed programs): TLC BFS + simulation emit (program, event log, outcome); replayed event-by-event on the fast interpreter; Go gate compiles the same programs natively",
   text="TLC enumerates every program up to the operation bound together with the event log and outcome Go prescribes (hundreds of thousands of states, tens of thousands of distinct programs; simulation for deeper programs over the full operation alphabet including executor phase 2) and checks the semantics' own invariants; every emitted program is run on the real interpreter and compared event by event; a seeded fraction (quick) or all (thorough) is also compiled and run natively so that the specification itself is pinned to Go.",
   ref="§6 C07", note=TRUST + "; the Go toolchain as gate; call graph acyclic by construction; recover across compiled/interpreted frames excluded (documented limitation)"),
 "C12": dict(
   technique="TLA+ spec Defer.tla with environment action 'injected hook panics at its k-th call': TLC enumerates (program, fault point) pairs; replay with the hook armed, then run-state snapshot + battery of specification behaviours in the same interpreter",
   text="Fault enumeration driven by the specification: TLC enumerates every program of the bounded space crossed with every call k at which the injected compiled hook panics (inside interpreted code, inside deferred calls incl. deferred compiled functions, while another panic is handled) with the outcome Go prescribes; each pair is executed on the real interpreter, then the executor bookkeeping (ExecFlags, current frame, debug signal, pending defer) is read through a verif hook and a battery of fault-free specification behaviours is replayed in the same interpreter and compared event by event, including the IsDefer flag and call depth observed at every event.",
   ref="§6 C12", note=TRUST + "; fast.VerifSnapshot (verif tag) reads Run fields without side effects; behaviours with two panics in flight have their own log judged by C07's known finding, their after-state is still checked"),
 "C13": dict(
   technique="TLA+ spec Exec.tla (executor polling protocol with the code's constants): TLC safety (bounded response, no new activation) + liveness under fairness; replay of every (loop shape, k) with the hook raising Interp.Interrupt; asynchronous interrupts from another goroutine",
   text="TLC model-checks the executor's two polling phases (5x14 unrolled statements, then blocks of 15), the flag tests at activation entry and exit and the environment action 'interrupt at the k-th hook call': at most 14 further statements run, no new activation runs a statement, and under weak fairness the interrupt is always serviced; two broken variants are rejected. Every (shape, k) pair of the model is then executed on the real interpreter: the evaluation must end with the interrupt signal after at most the model's bound of further hook calls (counted by the hook itself, never by a timeout), the bookkeeping must be quiescent, the program must still run to completion afterwards and a battery of Defer.tla behaviours must give the specified results; asynchronous delivery from another goroutine at seeded delays covers loops without calls.",
   ref="§6 C13", note=TRUST + "; one hook call >= one statement (one-sided bound); async runs allow 200000 iterations of slack for store visibility; interrupts during a single long compiled call are out of scope"),
 "C06": dict(
   technique="TLA+ specs Frames.tla (frame pool: alloc/mark/take-address/free, NoStaleRef, three broken variants) and Calls.tla (Go-level histories of escaping closures/pointers with frame-recycling calls): TLC BFS+simulation histories rendered per closure-signature cell, run with poisoned pooled frames (verif hook), gated natively",
   text="TLC model-checks the pool discipline (no escaped closure or pointer can reach a pooled or re-issued frame or slot array, for every interleaving of calls, captures, address-taking and returns in the bound) and enumerates Go-level histories with their expected observations; each history is rendered with a closure signature selecting one generated func{0,1,2}ret{0,1} specialisation (all 17x17 kind cells get the canonical escaping history, other histories take cells by seed) and executed on the interpreter with every pooled frame poisoned, so a missing protection in one cell yields a visibly wrong value.",
   ref="§6 C06", note=TRUST + "; poisoning of pooled frames is invisible to correct code (baseline passes with it); Go toolchain as gate for a seeded fraction"),
 "C28": dict(
   technique="TLA+ spec TypeId.tla: finite type terms + recursive Id operator (Go rule and typeutil's documented interface rule) checked by TLC for reflexivity/symmetry/transitivity/refinement on every generated term, association-list map model with history variable and map laws; the TLC-printed identity matrix is compared pair by pair with typeutil.Identical / Hasher.Hash on types built with the real go/types fork constructors (two pointer-distinct instances per term), TLC map histories (BFS + seeded simulation) are replayed on typeutil.Map; the Go-rule matrix is gated against the standard library go/types.Identical, map histories against a native Go map",
   text="TLC generates every term of a bounded grammar (375 terms quick, 3655 thorough: basic incl. byte alias, named types sharing declarations, pointer, slice, array, map, chan, func incl. variadic, struct with names/packages/embedding/tags, interface with explicit methods and embedded declarations incl. the recursive 'm() interface{T}' shape), checks that identity is an equivalence under both rules and that the documented rule refines Go's, and prints one matrix row per term; all ordered pairs (140 k quick, 13.4 M thorough) are run through the real Identical (a panic is a violation) and every model-identical pair through the real hash; all map histories of length 4 over 4 (quick) / 8 (thorough) keys chosen so that real hashes collide, plus seeded simulated histories over 12 keys, are replayed on typeutil.Map comparing result, Len, At (both instances of every key), Keys and Iterate after each step. Exhaustive inside the bound, which is the right level for pure functions over a small grammar.",
   ref="§6 C28", note=TRUST + "; standard go/types as gate; interfaces completed before use, embedded interfaces are declared types, one declaration per method name, no receivers on function types, no negative array lengths"),
}
NA = {
 "C31": "no state or transition to model: the property equates ~150 generated data tables with the linked standard library's symbol universe; deciding it needs regenerate-and-compare, a different technique (DESIGN §7)",
}
def main():
    props = [json.loads(l)["id"] for l in open(os.path.join(V, "properties.jsonl"))]
    checks = []
    for pid in props:
        if pid not in CHECKS: continue
        c = CHECKS[pid]
        checks.append({
            "property_id": pid,
            "quick_cmd": f"bin/check {pid} quick",
            "thorough_cmd": f"bin/check {pid} thorough",
            "evidence_file": f"/verif/evidence/{pid}.json",
            "replay_cmd_template": f"bin/check {pid} replay {{path}}",
            "engine": "vcheck",
            "level_claimed": {"category": c.get("level", "model_checking"), "text": c["text"], "design_ref": c["ref"]},
            "level_note": c["note"],
            "technique": c["technique"],
        })
    na = [{"property_id": p, "reason": r} for p, r in NA.items()]
    for pid in props:
        if pid not in CHECKS and pid not in NA:
            na.append({"property_id": pid, "reason": "check not built yet in this round (planned: DESIGN §6); not claimed until its TLA+ module and conformance driver are green"})
    hooks_commits = subprocess.run(["git", "-C", "/repo", "log", "--format=%h", "--grep=^verif hook"], capture_output=True, text=True).stdout.split()
    m = {
        "version": 1,
        "setup_cmd": "bin/setup",
        "hooks": {"guard": "verif", "enable": "go build -tags verif (bin/check rebuilds the harness against /repo's working tree with the tag on)",
                  "baseline_off_cmd": "bin/baseline off", "source_commits": hooks_commits, "add_only": True},
        "engines": [{"name": "vcheck", "path": "/verif/harness", "serves_properties": [c["property_id"] for c in checks],
                     "kind_free_text": "Go driver: runs TLC on the TLA+ modules under /verif/spec, replays the emitted behaviours into the real packages from /repo (or validates recorded traces), writes evidence"}],
        "checks": checks,
        "not_applicable": na,
        "notes": "Exit codes: 0 held, 1 VIOLATION line printed, 2 inconclusive (TLC timeout, build failure). known_findings.json lists genuine defects (open ones are reported as KNOWN-FINDING).",
    }
    json.dump(m, open(os.path.join(V, "MANIFEST.json"), "w"), indent=1)
    print("MANIFEST.json:", len(checks), "checks,", len(na), "not_applicable")
main()

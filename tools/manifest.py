#!/usr/bin/env python3
"""Regenerates /verif/MANIFEST.json from the table below (one entry per claimed property)."""
import json, os, subprocess
V = os.path.dirname(os.path.dirname(os.path.abspath(__file__)))
TRUST = "TLC/SANY; the harness's renderer and projection; JSON plumbing; the specification module as the statement of the property"
CHECKS = {}
for fn in sorted(os.listdir(os.path.join(V, "manifest.d"))):
    if fn.endswith(".json"):
        CHECKS[fn[:-5]] = json.load(open(os.path.join(V, "manifest.d", fn)))
NA = {
 "C31": "no state or transition to model: the property equates ~150 generated data tables with the linked standard library's symbol universe; deciding it needs regenerate-and-compare, a different technique (DESIGN §7)",
}
def main():
    props = [json.loads(l)["id"] for l in open(os.path.join(V, "properties.jsonl"))]
    checks = []
    for pid in props:
        if pid not in CHECKS: continue
        c = CHECKS[pid]
        checks.append({
            "property_id": pid,
            "quick_cmd": f"bin/check {pid} quick",
            "thorough_cmd": f"bin/check {pid} thorough",
            "evidence_file": f"/verif/evidence/{pid}.json",
            "replay_cmd_template": f"bin/check {pid} replay {{path}}",
            "engine": "vcheck",
            "level_claimed": {"category": c.get("level", "model_checking"), "text": c["text"], "design_ref": c["ref"]},
            "level_note": c["note"],
            "technique": c["technique"],
        })
    na = [{"property_id": p, "reason": r} for p, r in NA.items()]
    for pid in props:
        if pid not in CHECKS and pid not in NA:
            na.append({"property_id": pid, "reason": "check not built yet in this round (planned: DESIGN §6); not claimed until its TLA+ module and conformance driver are green"})
    hooks_commits = subprocess.run(["git", "-C", "/repo", "log", "--format=%h", "--grep=^verif hook"], capture_output=True, text=True).stdout.split()
    m = {
        "version": 1,
        "setup_cmd": "bin/setup",
        "hooks": {"guard": "verif", "enable": "go build -tags verif (bin/check rebuilds the harness against /repo's working tree with the tag on)",
                  "baseline_off_cmd": "bin/baseline off", "source_commits": hooks_commits, "add_only": True},
        "engines": [{"name": "vcheck", "path": "/verif/harness", "serves_properties": [c["property_id"] for c in checks],
                     "kind_free_text": "Go driver: runs TLC on the TLA+ modules under /verif/spec, replays the emitted behaviours into the real packages from /repo (or validates recorded traces), writes evidence"}],
        "checks": checks,
        "not_applicable": na,
        "notes": "Exit codes: 0 held, 1 VIOLATION line printed, 2 inconclusive (TLC timeout, build failure). known_findings.json lists genuine defects (open ones are reported as KNOWN-FINDING).",
    }
    json.dump(m, open(os.path.join(V, "MANIFEST.json"), "w"), indent=1)
    print("MANIFEST.json:", len(checks), "checks,", len(na), "not_applicable")
main()

#!/usr/bin/env python3
import json,jsonschema,glob,sys
jsonschema.validate(json.load(open('/verif/MANIFEST.json')),json.load(open('/root/.vp/MANIFEST.schema.json')))
s=json.load(open('/root/.vp/EVIDENCE.schema.json'))
bad=0
for f in sorted(glob.glob('/verif/evidence/*.json')):
    try: jsonschema.validate(json.load(open(f)),s)
    except Exception as e: print('INVALID',f,str(e)[:300]); bad+=1
print('validated manifest +',len(glob.glob('/verif/evidence/*.json')),'evidence files; invalid:',bad)
sys.exit(1 if bad else 0)

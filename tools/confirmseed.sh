#!/bin/bash
# usage: tools/confirmseed.sh <seed dir with patch.diff> <demo file> <dest dir rel. to repo> <test regex> <package>
# Confirms a seeded change in a scratch worktree of /repo's HEAD: the demonstration passes without
# the change, the change applies and compiles, the demonstration fails with it, and the stable
# baseline suite (947 tests) still passes with it. Prints one CONFIRMED / NOT-CONFIRMED line.
D="$1"; DEMO="$2"; DEST="$3"; RX="$4"; PKG="$5"
export GOFLAGS=-mod=mod GOPROXY=off GOSUMDB=off GOTOOLCHAIN=local
W=/tmp/seedconf-$$
git -C /repo worktree add -q --detach "$W" HEAD || exit 2
trap 'git -C /repo worktree remove --force "$W" >/dev/null 2>&1' EXIT
cp "$D/$DEMO" "$W/$DEST/" || exit 2
(cd "$W" && go test -vet=off -count=1 -run "$RX" "$PKG" >/tmp/seedconf-$$.a 2>&1); a=$?
(cd "$W" && git apply "$D/patch.diff") || { echo "NOT-CONFIRMED $D: patch does not apply to HEAD"; exit 1; }
(cd "$W" && go build ./... >/dev/null 2>&1) || { echo "NOT-CONFIRMED $D: does not compile"; exit 1; }
(cd "$W" && go test -vet=off -count=1 -run "$RX" "$PKG" >/tmp/seedconf-$$.b 2>&1); b=$?
rm -f "$W/$DEST/$DEMO"
base=$(REPO="$W" /verif/bin/baseline off | head -1)
rm -f /tmp/seedconf-$$.a /tmp/seedconf-$$.b
if [ $a -eq 0 ] && [ $b -ne 0 ] && echo "$base" | grep -q "947/947"; then echo "CONFIRMED $D: demo passes without / fails with the change; $base"; else echo "NOT-CONFIRMED $D: demo-without rc=$a demo-with rc=$b; $base"; fi

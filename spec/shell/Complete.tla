------------------------------ MODULE Complete ------------------------------
(***************************************************************************)
(* Code completion of the gomacro REPL (property C36).                     *)
(*   fast/repl.go      Interp.CompleteWords, Comp.CompleteWords,           *)
(*                     completeWords, completeWord, completeLastWord,      *)
(*                     sortUnique, TailIdentifier (imports/util/util.go)   *)
(*   fast/selector.go  Comp.listFieldsAndMethods, TryLookupFieldOrMethod   *)
(*   xreflect/lookup.go Universe.VisitFields                               *)
(*                                                                         *)
(* STATE.  A scope chain  universe <- main <- inner  (the outermost Comp   *)
(* of a fresh interpreter, the file scope "main" of fast.New(), and one    *)
(* fast.NewInnerInterp on top of it).  `decl` is the set of catalogue      *)
(* items declared so far; an item is a struct type (fields, embedded       *)
(* fields by value or by pointer), a method, a variable of such a type, a  *)
(* function, a constant, or the import of ONE synthetic package whose      *)
(* member list is a constant of the model (the harness registers exactly   *)
(* that package in imports.Packages).  The catalogue `Items` is INPUT      *)
(* DATA rendered by the harness from one table (it also renders the Go     *)
(* source of every item from the same table); the names of the universe    *)
(* scope are INPUT read from a fresh interpreter's outermost Comp; the     *)
(* keywords are Go's 25 keywords plus gomacro's `macro` and `template`.    *)
(* Names and lines are sequences of character codes (TLC cannot index      *)
(* strings); names share prefixes on purpose.                              *)
(*                                                                         *)
(* WHAT "IN SCOPE" MEANS (decided by reading the code; choices of the code *)
(* that do not contradict the property are modelled as the code does and   *)
(* listed by the harness under assumptions):                               *)
(*  - a single EMPTY word completes to nothing (completeWord: size = 0);   *)
(*  - a single non-empty word: every name of Comp.Binds and Comp.Types of  *)
(*    the current Comp and of all outer Comps (variables, constants,       *)
(*    functions, imported package names, TYPE NAMES, the universe's        *)
(*    builtin functions, constants and types) plus every KEYWORD;          *)
(*  - pkg.<w>: every name of Import.Binds and Import.Types (what the       *)
(*    package registers; here exported names only);                        *)
(*  - x.<w> where x is a variable OR A TYPE of (pointer to) struct type:   *)
(*    all fields (exported or not: the REPL is one package), all methods   *)
(*    declared on the named type WHATEVER THE RECEIVER (pointer-receiver   *)
(*    methods are listed for values and for type names too), and the same  *)
(*    for every embedded field, transitively (Go's promotion; an embedded  *)
(*    field may be a struct or a pointer to a struct);                     *)
(*  - an intermediate word must be a FIELD found by Go's shallowest-depth  *)
(*    rule (a method, an unknown or an ambiguous name ends the chain with  *)
(*    no completions); a chain whose head is unknown has no completions;   *)
(*  - functions, constants, basic types, builtins have no members.         *)
(* Names declared inside function bodies are out of reach of the API       *)
(* (completion works on the top-level Comp of the Interp) and are not      *)
(* modelled.                                                               *)
(*                                                                         *)
(* REASSEMBLY LAW.  With p = min(pos, Len(line)), w = the longest valid    *)
(* identifier that is a suffix of line[..p] (TailIdent):                   *)
(*    tail = line[p+1..]                                                   *)
(*    head = line[..p - Len(w)]   if there is at least one completion      *)
(*    head = line[..p]            otherwise                                *)
(* so that head \o c \o tail is the line with the partial word w replaced  *)
(* by the completion c (text after the cursor is kept, even when it is the *)
(* rest of the same word), and head \o tail = line when nothing is offered.*)
(*                                                                         *)
(* Two levels, as in Cmds.tla.  Go-level: CandSet, a direct set            *)
(* comprehension.  Implementation-level: CandImpl follows the code (walk   *)
(* of the Comp chain collecting names with duplicates, sortUnique =        *)
(* sort + adjacent de-duplication, breadth-first VisitFields with a `seen` *)
(* set and collectMethods).  ImplAgrees is the refinement; `Flags` selects *)
(* broken variants of the implementation level that TLC must reject.       *)
(***************************************************************************)
EXTENDS Naturals, Sequences, FiniteSets, TLC, Json

CONSTANTS Items,      \* <<item>>: [k, scope, name, recv, ptr, fields, typ, deps], index = item id
                      \*   k \in {"type","method","var","func","const","import"}
                      \*   fields: <<[name, typ, emb]>> (k = "type");  typ: type of a "var"
                      \*   a type expression is [k, n], k \in {"named","ptr","pkgtype","pkgptr",
                      \*   "basic","func","untyped"}, n = type name for the first four
          Pkg,        \* [name, members: <<[name, k \in {"value","type"}, typ]>>,
                      \*  types: <<[name, fields, methods: <<name>>]>>]  the synthetic package
          Universe,   \* set of names bound in the outermost scope (input)
          Keywords,   \* set of keywords offered by completeWord (input)
          NameTab,    \* every name that can be a candidate, as a sequence (JSON encoding only)
          Queries,    \* <<[line, pos, view]>>, view \in {"main","inner"}
          ItemIds,    \* items the declaration actions may use in this configuration
          MaxOps,     \* bound on the history length
          Flags,      \* {} = the implementation level as it should be; broken variants:
                      \*   "skip-outer"         completeWord does not visit the outermost Comp
                      \*   "no-embedded"        VisitFields does not descend into embedded fields
                      \*   "keep-dups"          sortUnique only sorts
                      \*   "field-type-methods" collectMethods on EVERY field's type, embedded or not
                      \*                        (fast/selector.go as found)
                      \*   "ptr-no-methods"     a pointer type lists no methods: members promoted
                      \*                        through an embedded *T lose T's methods (as found)
          MonoEvery,  \* Monotone looks at every MonoEvery-th query
          RandPick,   \* simulation: one random successor per state (linear traces)
          AllowRedecl,\* a declared var/func/const/import may be declared again (stutter on decl)
          EmitOn

VARIABLES decl,       \* set of item ids declared so far
          hist        \* sequence of item ids in declaration order (history variable)

vars == <<decl, hist>>

MaxEmbed == 3         \* embedding depth explored (the catalogue has depth <= 2)

---------------------------------------------------------------------------
(* sequences of codes *)

RECURSIVE LessAt(_, _, _)
LessAt(a, b, i) == IF i > Len(a) THEN i <= Len(b)
                   ELSE IF i > Len(b) THEN FALSE
                   ELSE IF a[i] < b[i] THEN TRUE
                   ELSE IF a[i] > b[i] THEN FALSE
                   ELSE LessAt(a, b, i + 1)
Less(a, b) == LessAt(a, b, 1)   \* byte-wise order of Go strings

HasPrefix(n, p) == Len(p) <= Len(n) /\ SubSeq(n, 1, Len(p)) = p

\* SequencesExt (CommunityModules) evaluates SetToSeq / SetToSortSeq in Java
SE == INSTANCE SequencesExt
\* the elements of a set of names in increasing order
SortedSeqOf(S) == SE!SetToSortSeq(S, Less)
\* the elements of a set in SOME order (Go map iteration order is arbitrary)
SetToSeq(S) == SE!SetToSeq(S)

Range(s) == {s[i] : i \in 1..Len(s)}
StrictlySorted(s) == \A i \in 1..(Len(s) - 1) : Less(s[i], s[i + 1])

RECURSIVE FilterPrefix(_, _)
FilterPrefix(s, w) == IF s = <<>> THEN <<>>
                      ELSE (IF HasPrefix(Head(s), w) THEN <<Head(s)>> ELSE <<>>) \o FilterPrefix(Tail(s), w)

IsDigit(c) == c \in 48..57
IsLetter(c) == c \in 65..90 \/ c \in 97..122 \/ c = 95
IsIdChar(c) == IsLetter(c) \/ IsDigit(c)
IsSpace(c) == c = 32 \/ c = 9
Dot == 46

---------------------------------------------------------------------------
(* Go-level: the word chain ending at the cursor *)

\* 1-based index of the first character of the trailing run of identifier characters
RECURSIVE RunStart(_, _)
RunStart(s, i) == IF i >= 1 /\ IsIdChar(s[i]) THEN RunStart(s, i - 1) ELSE i + 1

RECURSIVE SkipDigits(_, _)
SkipDigits(s, i) == IF i <= Len(s) /\ IsDigit(s[i]) THEN SkipDigits(s, i + 1) ELSE i

\* the longest suffix of s that is a valid identifier (an identifier does not start with a digit)
TailIdent(s) == SubSeq(s, SkipDigits(s, RunStart(s, Len(s))), Len(s))

RECURSIVE TrimRight(_)
TrimRight(s) == IF s # <<>> /\ IsSpace(s[Len(s)]) THEN TrimRight(SubSeq(s, 1, Len(s) - 1)) ELSE s

\* the words before the last one: text `s` is what precedes the last word.
\*   [ok |-> TRUE,  words]  a (possibly empty) sequence of identifiers joined by dots, spaces
\*                          around the dots tolerated, preceded by something that is not a dot
\*   [ok |-> FALSE]         the chain is a selector applied to something that is not an
\*                          identifier ( `f().x`, `a..x`, `.x` ): nothing can be resolved
RECURSIVE Before(_)
Before(s) ==
    LET r == TrimRight(s) IN
    IF r = <<>> \/ r[Len(r)] # Dot THEN [ok |-> TRUE, words |-> <<>>]
    ELSE LET r2 == TrimRight(SubSeq(r, 1, Len(r) - 1))
             pw == TailIdent(r2)
         IN IF pw = <<>> THEN [ok |-> FALSE, words |-> <<>>]
            ELSE LET b == Before(SubSeq(r2, 1, Len(r2) - Len(pw)))
                 IN [ok |-> b.ok, words |-> b.words \o <<pw>>]

\* Words(line, pos): the identifier chain ending at the cursor; the last word may be empty
Words(line, pos) ==
    LET hd == SubSeq(line, 1, pos)
        w == TailIdent(hd)
        b == Before(SubSeq(hd, 1, Len(hd) - Len(w)))
    IN [ok |-> b.ok, words |-> b.words \o <<w>>]

---------------------------------------------------------------------------
(* Go-level: scopes, types, members *)

ScopeChain(view) == IF view = "inner" THEN <<"inner", "main", "universe">> ELSE <<"main", "universe">>

Bindable == {"type", "var", "func", "const", "import"}
NamesIn(d, s) == IF s = "universe" THEN Universe
                 ELSE {Items[i].name : i \in {j \in d : Items[j].k \in Bindable /\ Items[j].scope = s}}

Visible(d, view) == UNION {NamesIn(d, ScopeChain(view)[j]) : j \in 1..Len(ScopeChain(view))} \cup Keywords

NoDef == [ok |-> FALSE, name |-> <<>>, fields |-> <<>>, pkg |-> FALSE]
Basic == [k |-> "basic", n |-> <<>>]

DefOfName(d, n, pkg) ==
    IF pkg
    THEN LET J == {j \in 1..Len(Pkg.types) : Pkg.types[j].name = n} IN
         IF J = {} THEN NoDef
         ELSE [ok |-> TRUE, name |-> n, fields |-> Pkg.types[CHOOSE j \in J : TRUE].fields, pkg |-> TRUE]
    ELSE LET I == {i \in d : Items[i].k = "type" /\ Items[i].name = n} IN
         IF I = {} THEN NoDef
         ELSE [ok |-> TRUE, name |-> n, fields |-> Items[CHOOSE i \in I : TRUE].fields, pkg |-> FALSE]

\* the struct a type expression denotes after at most one pointer dereference
DefOf(d, t) == IF t.k \in {"named", "ptr"} THEN DefOfName(d, t.n, FALSE)
               ELSE IF t.k \in {"pkgtype", "pkgptr"} THEN DefOfName(d, t.n, TRUE)
               ELSE NoDef

\* methods declared on the named type, whatever the receiver
MethodsOf(d, def) ==
    IF ~def.ok THEN {}
    ELSE IF def.pkg THEN Range(Pkg.types[CHOOSE j \in 1..Len(Pkg.types) : Pkg.types[j].name = def.name].methods)
    ELSE {Items[i].name : i \in {j \in d : Items[j].k = "method" /\ Items[j].recv = def.name}}

EmbIdx(def) == {j \in 1..Len(def.fields) : def.fields[j].emb}

\* Go-level member set: own fields, own methods, and the members of every embedded field
RECURSIVE Members(_, _, _)
Members(d, def, depth) ==
    IF ~def.ok \/ depth > MaxEmbed THEN {}
    ELSE {def.fields[j].name : j \in 1..Len(def.fields)} \cup MethodsOf(d, def)
         \cup UNION {Members(d, DefOf(d, def.fields[j].typ), depth + 1) : j \in EmbIdx(def)}

RECURSIVE Flatten(_)
Flatten(ss) == IF ss = <<>> THEN <<>> ELSE Head(ss) \o Flatten(Tail(ss))

RECURSIVE EmbDefs(_, _, _)   \* defs of the embedded fields of def, in field order
EmbDefs(d, def, j) ==
    IF j > Len(def.fields) THEN <<>>
    ELSE (IF def.fields[j].emb /\ DefOf(d, def.fields[j].typ).ok THEN <<DefOf(d, def.fields[j].typ)>> ELSE <<>>)
         \o EmbDefs(d, def, j + 1)

\* field selected by  x.w : shallowest depth wins; a method at that depth, or two fields, is
\* no field (Comp.TryLookupFieldOrMethod)
RECURSIVE FieldAt(_, _, _, _)
FieldAt(d, defs, w, depth) ==
    LET hits == {p \in (1..Len(defs)) \X (1..8) : p[2] <= Len(defs[p[1]].fields) /\ defs[p[1]].fields[p[2]].name = w}
        mh == {a \in 1..Len(defs) : w \in MethodsOf(d, defs[a])}
    IN IF hits # {} \/ mh # {}
       THEN (IF Cardinality(hits) = 1 /\ mh = {}
             THEN LET h == CHOOSE x \in hits : TRUE IN [ok |-> TRUE, typ |-> defs[h[1]].fields[h[2]].typ]
             ELSE [ok |-> FALSE, typ |-> Basic])
       ELSE IF depth >= MaxEmbed \/ defs = <<>> THEN [ok |-> FALSE, typ |-> Basic]
       ELSE FieldAt(d, Flatten([a \in 1..Len(defs) |-> EmbDefs(d, defs[a], 1)]), w, depth + 1)

\* what a name resolves to, seen from `view`: the innermost scope declaring it
\* (value names and type names are disjoint in the catalogue)
\* via: an intermediate word was selected on a POINTER to a struct (Go dereferences implicitly)
Node(k, t) == [k |-> k, t |-> t, via |-> FALSE]
Resolve(d, view, w) ==
    LET ch == ScopeChain(view)
        S == {j \in 1..Len(ch) : w \in NamesIn(d, ch[j])}
    IN IF S = {} THEN Node("none", Basic)
       ELSE LET s == ch[CHOOSE j \in S : \A x \in S : j <= x] IN
            IF s = "universe" THEN Node("universe", Basic)
            ELSE LET it == Items[CHOOSE i \in d : Items[i].k \in Bindable /\ Items[i].scope = s /\ Items[i].name = w] IN
                 CASE it.k = "import" -> Node("pkg", Basic)
                   [] it.k = "var" -> Node("val", it.typ)
                   [] it.k = "type" -> Node("val", [k |-> "named", n |-> it.name])
                   [] it.k = "func" -> Node("val", [k |-> "func", n |-> <<>>])
                   [] OTHER -> Node("val", [k |-> "untyped", n |-> <<>>])

\* one intermediate word
StepNode(d, node, w) ==
    IF node.k = "pkg"
    THEN LET J == {j \in 1..Len(Pkg.members) : Pkg.members[j].name = w} IN
         IF J = {} THEN Node("fail", Basic) ELSE Node("val", Pkg.members[CHOOSE j \in J : TRUE].typ)
    ELSE IF node.k = "val" /\ DefOf(d, node.t).ok
    THEN LET f == FieldAt(d, <<DefOf(d, node.t)>>, w, 0) IN
         IF f.ok THEN Node("val", f.typ) ELSE Node("fail", Basic)
    ELSE Node("fail", Basic)

RECURSIVE Walk(_, _, _, _)
Walk(d, node, ws, i) ==
    IF i >= Len(ws) \/ node.k \in {"fail", "none", "universe"} THEN node
    ELSE Walk(d, [StepNode(d, node, ws[i]) EXCEPT !.via = node.via \/ (node.k = "val" /\ node.t.k \in {"ptr", "pkgptr"})],
              ws, i + 1)

\* node reached by all words but the last
EndNode(d, view, ws) == Walk(d, Resolve(d, view, ws[1]), ws, 2)

MembersOfNode(d, node) ==
    IF node.k = "pkg" THEN {Pkg.members[j].name : j \in 1..Len(Pkg.members)}
    ELSE IF node.k = "val" THEN Members(d, DefOf(d, node.t), 0)
    ELSE {}

\* The same set with its state-independent parts handed in (uni, kw: the universe names and
\* the keywords that start with the last word); FastIsDef states the equality.
PrefUni(w) == {n \in Universe : HasPrefix(n, w)}
PrefKw(w) == {n \in Keywords : HasPrefix(n, w)}
DeclVisible(d, view) == UNION {NamesIn(d, s) : s \in Range(ScopeChain(view)) \ {"universe"}}

SingleCands(d, view, w, uni, kw) ==
    IF w = <<>> THEN {} ELSE uni \cup kw \cup {n \in DeclVisible(d, view) : HasPrefix(n, w)}
NodeCands(d, node, w) == {n \in MembersOfNode(d, node) : HasPrefix(n, w)}

\* THE DEFINITION: the candidate set of a word chain, a direct set comprehension
CandSet(d, view, wr) ==
    IF ~wr.ok THEN {}
    ELSE LET ws == wr.words
             w == ws[Len(ws)]
         IN IF Len(ws) = 1
            THEN (IF w = <<>> THEN {} ELSE {n \in Visible(d, view) : HasPrefix(n, w)})
            ELSE {n \in MembersOfNode(d, EndNode(d, view, ws)) : HasPrefix(n, w)}

---------------------------------------------------------------------------
(* Implementation level: the code's mechanism *)

InsSort(s) == SortSeq(s, Less)   \* sort.Strings (TLC!SortSeq, evaluated in Java)
RECURSIVE Compress(_)   \* drop an element equal to its predecessor
Compress(s) == IF Len(s) <= 1 THEN s
               ELSE IF s[1] = s[2] THEN Compress(Tail(s))
               ELSE <<s[1]>> \o Compress(Tail(s))
SortUnique(s) == IF "keep-dups" \in Flags THEN InsSort(s) ELSE Compress(InsSort(s))

\* completeWord: Binds and Types of each Comp from the current one outwards, then keywords.
\* sn: the names bound in each declared scope (NamesIn, handed in so that it is computed once)
ScopeNames(d) == [s \in {"main", "inner"} |-> NamesIn(d, s)]
RECURSIVE ScopeWalk(_, _, _, _, _)
ScopeWalk(sn, ch, j, w, uni) ==
    IF j > Len(ch) \/ (j = Len(ch) /\ "skip-outer" \in Flags) THEN <<>>
    ELSE SetToSeq(IF ch[j] = "universe" THEN uni ELSE {n \in sn[ch[j]] : HasPrefix(n, w)})
         \o ScopeWalk(sn, ch, j + 1, w, uni)
CompleteWordImpl(sn, view, w, uni, kw) ==
    IF w = <<>> THEN <<>>
    ELSE SortUnique(ScopeWalk(sn, ScopeChain(view), 1, w, uni) \o SetToSeq(kw))

\* collectMethods(typ): typ.NumMethod() / typ.Method(i)
CollectMethods(d, t) ==
    IF t.k \in {"named", "pkgtype"} THEN SetToSeq(MethodsOf(d, DefOf(d, t)))
    ELSE IF t.k \in {"ptr", "pkgptr"} /\ "ptr-no-methods" \notin Flags THEN SetToSeq(MethodsOf(d, DefOf(d, t)))
    ELSE <<>>

\* the visitor applied to the fields j.. of one struct: [out, tovisit]
RECURSIVE VisitStruct(_, _, _)
VisitStruct(d, def, j) ==
    IF j > Len(def.fields) THEN [out |-> <<>>, tovisit |-> <<>>]
    ELSE LET f == def.fields[j]
             rest == VisitStruct(d, def, j + 1)
         IN [out |-> <<f.name>>
                     \o (IF f.emb \/ "field-type-methods" \in Flags THEN CollectMethods(d, f.typ) ELSE <<>>)
                     \o rest.out,
             tovisit |-> (IF f.emb THEN <<f.typ>> ELSE <<>>) \o rest.tovisit]

\* Universe.VisitFields: breadth-first, one level = sequence of type expressions
RECURSIVE VisitCurr(_, _, _, _)     \* fold over the current level: [out, tovisit, seen]
VisitCurr(d, curr, j, seen) ==
    IF j > Len(curr) THEN [out |-> <<>>, tovisit |-> <<>>, seen |-> seen]
    ELSE LET def == DefOf(d, curr[j]) IN
         IF ~def.ok \/ <<def.pkg, def.name>> \in seen THEN VisitCurr(d, curr, j + 1, seen)
         ELSE LET v == VisitStruct(d, def, 1)
                  r == VisitCurr(d, curr, j + 1, seen \cup {<<def.pkg, def.name>>})
              IN [out |-> v.out \o r.out, tovisit |-> v.tovisit \o r.tovisit, seen |-> r.seen]
RECURSIVE VisitFields(_, _, _, _)
VisitFields(d, curr, seen, depth) ==
    IF curr = <<>> \/ depth > MaxEmbed + 1 THEN <<>>
    ELSE LET r == VisitCurr(d, curr, 1, seen) IN
         r.out \o (IF "no-embedded" \in Flags THEN <<>> ELSE VisitFields(d, r.tovisit, r.seen, depth + 1))

\* listFieldsAndMethods(t, prefix) after the pointer dereference, before the prefix filter
\* (the code filters while it collects: the same sequence)
ListRaw(d, t) ==
    LET base == IF t.k = "ptr" THEN [k |-> "named", n |-> t.n]
                ELSE IF t.k = "pkgptr" THEN [k |-> "pkgtype", n |-> t.n] ELSE t
    IN CollectMethods(d, base) \o VisitFields(d, <<base>>, {}, 0)

\* completeLastWord on the node reached by the chain: every name it looks at ...
NodeRaw(d, node) ==
    IF node.k = "pkg" THEN SetToSeq(MembersOfNode(d, node))
    ELSE IF node.k = "val" THEN ListRaw(d, node.t)
    ELSE <<>>
\* ... filtered by the last word, sorted, de-duplicated
NodeImpl(d, node, w) == SortUnique(FilterPrefix(NodeRaw(d, node), w))

CandImpl(d, view, wr) ==
    IF ~wr.ok THEN <<>>
    ELSE LET ws == wr.words
             w == ws[Len(ws)]
         IN IF Len(ws) = 1 THEN CompleteWordImpl(ScopeNames(d), view, w, PrefUni(w), PrefKw(w))
            ELSE NodeImpl(d, EndNode(d, view, ws), w)

---------------------------------------------------------------------------
(* Complete(line, pos) = <<head, sorted unique candidates, tail>> *)

ClampPos(q) == IF q.pos > Len(q.line) THEN Len(q.line) ELSE q.pos

\* head is SubSeq(line, 1, k), tail is SubSeq(line, p + 1, Len(line))
CompleteQ(d, q) ==
    LET p == ClampPos(q)
        wr == Words(q.line, p)
        w == wr.words[Len(wr.words)]
        comps == SortedSeqOf(CandSet(d, q.view, wr))
    IN [k |-> IF comps = <<>> THEN p ELSE p - Len(w), c |-> comps, p |-> p, w |-> w]

Complete(d, line, pos, view) ==
    LET r == CompleteQ(d, [line |-> line, pos |-> pos, view |-> view])
    IN <<SubSeq(line, 1, r.k), r.c, SubSeq(line, r.p + 1, Len(line))>>

\* The cursor stands after an identifier followed only by blanks ( `fo |` ).  The word at the
\* cursor is empty, so Complete offers nothing.  A completer may instead regard the blanks as
\* part of the partial word; then it must also REPLACE them: the alternative acceptable answer
\* is the completion of the line cut at the identifier, with the blanks dropped from head.
HasAlt(q) == LET hd == SubSeq(q.line, 1, ClampPos(q)) IN
             hd # <<>> /\ IsSpace(hd[Len(hd)]) /\ TrimRight(hd) # <<>> /\ IsIdChar(TrimRight(hd)[Len(TrimRight(hd))])
AltQ(d, q) == LET hd == TrimRight(SubSeq(q.line, 1, ClampPos(q))) IN
              CompleteQ(d, [line |-> hd, pos |-> Len(hd), view |-> q.view])

\* classification of what the prefix of the chain resolved to (for signatures only)
RECURSIVE HasEmbPtr(_, _, _)
HasEmbPtr(d, def, depth) ==
    def.ok /\ depth <= MaxEmbed /\
    \E j \in EmbIdx(def) : def.fields[j].typ.k \in {"ptr", "pkgptr"} \/ HasEmbPtr(d, DefOf(d, def.fields[j].typ), depth + 1)
RECURSIVE HasNamedField(_, _, _)
HasNamedField(d, def, depth) ==
    def.ok /\ depth <= MaxEmbed /\
    \/ \E j \in 1..Len(def.fields) : ~def.fields[j].emb /\ DefOf(d, def.fields[j].typ).ok
    \/ \E j \in EmbIdx(def) : HasNamedField(d, DefOf(d, def.fields[j].typ), depth + 1)

NodeKind(d, wr, node) ==
    IF ~wr.ok THEN "selector-on-non-identifier"
    ELSE IF Len(wr.words) = 1 THEN "scope"
    ELSE CASE node.k = "pkg" -> "package"
           [] node.k = "none" -> "unresolved"
           [] node.k = "universe" -> "universe"
           [] node.k = "fail" -> "no-such-field"
           [] OTHER ->
              LET def == DefOf(d, node.t) IN
              IF ~def.ok THEN node.t.k
              ELSE IF node.via THEN "through-pointer"
              ELSE IF HasEmbPtr(d, def, 0) THEN "struct+embedded-pointer"
              ELSE IF HasNamedField(d, def, 0) THEN "struct+field-of-named-type"
              ELSE IF def.pkg THEN "imported-struct"
              ELSE IF node.t.k = "ptr" THEN "pointer-to-struct"
              ELSE "struct"

---------------------------------------------------------------------------
(* Evaluation of the fixed query set.  What does not depend on the state (the word chain   *)
(* of a query, the universe names and keywords matching its last word, the distinct chain  *)
(* prefixes) is computed once; what does not depend on the last word (the node a chain     *)
(* prefix resolves to, its members) is computed once per state and chain prefix.           *)

QIdx == 1..Len(Queries)
QW == [i \in QIdx |-> Words(Queries[i].line, ClampPos(Queries[i]))]
QLast == [i \in QIdx |-> QW[i].words[Len(QW[i].words)]]
QSingle == [i \in QIdx |-> Len(QW[i].words) = 1]
QUni == [i \in QIdx |-> IF QSingle[i] THEN PrefUni(QLast[i]) ELSE {}]
QKw == [i \in QIdx |-> IF QSingle[i] THEN PrefKw(QLast[i]) ELSE {}]
QHasAlt == [i \in QIdx |-> HasAlt(Queries[i])]
\* chain prefix of a dotted query: the scope it is asked in and all words but the last
QPre == [i \in QIdx |-> [view |-> Queries[i].view,
                          ws |-> IF QW[i].ok /\ ~QSingle[i] THEN SubSeq(QW[i].words, 1, Len(QW[i].words) - 1) ELSE <<>>]]
Prefixes == SetToSeq({QPre[i] : i \in QIdx})
QPreIdx == [i \in QIdx |-> CHOOSE j \in 1..Len(Prefixes) : Prefixes[j] = QPre[i]]

NoNode == Node("none", Basic)
\* per state: node, member set and raw listing of every chain prefix; declared names per scope
Memo(d) ==
    LET nodes == [j \in 1..Len(Prefixes) |->
                    IF Prefixes[j].ws = <<>> THEN NoNode
                    ELSE EndNode(d, Prefixes[j].view, Append(Prefixes[j].ws, <<>>))]
    IN [node |-> nodes,
        mem |-> [j \in 1..Len(Prefixes) |-> MembersOfNode(d, nodes[j])],
        raw |-> [j \in 1..Len(Prefixes) |-> NodeRaw(d, nodes[j])],
        kind |-> [j \in 1..Len(Prefixes) |-> NodeKind(d, [ok |-> TRUE, words |-> <<<<>>, <<>>>>], nodes[j])],
        sn |-> ScopeNames(d),
        vis |-> [v \in {"main", "inner"} |-> DeclVisible(d, v)]]

\* one query in state d: the definition's answer (c), the mechanism's answer (impl), the kind
QResM(d, i, m) ==
    LET q == Queries[i]
        p == ClampPos(q)
        wr == QW[i]
        w == QLast[i]
        j == QPreIdx[i]
        set == IF ~wr.ok THEN {}
               ELSE IF QSingle[i]
               THEN (IF w = <<>> THEN {} ELSE QUni[i] \cup QKw[i] \cup {n \in m.vis[q.view] : HasPrefix(n, w)})
               ELSE {n \in m.mem[j] : HasPrefix(n, w)}
        comps == SortedSeqOf(set)
        impl == IF ~wr.ok THEN <<>>
                ELSE IF QSingle[i] THEN CompleteWordImpl(m.sn, q.view, w, QUni[i], QKw[i])
                ELSE SortUnique(FilterPrefix(m.raw[j], w))
    IN [k |-> IF comps = <<>> THEN p ELSE p - Len(w), c |-> comps, p |-> p, w |-> w,
        impl |-> impl,
        kd |-> IF ~wr.ok \/ QSingle[i] THEN NodeKind(d, wr, NoNode) ELSE m.kind[j]]

QRes(d, i) == QResM(d, i, Memo(d))

(***************************************************************************)
(* Behaviours: declaration histories                                      *)
(***************************************************************************)

Init == decl = {} /\ hist = <<>>

CanDecl(i) == i \notin decl /\ Items[i].deps \subseteq decl
CanRedecl(i) == AllowRedecl /\ i \in decl /\ Items[i].k \in {"var", "func", "const", "import"}
Moves == {i \in ItemIds : CanDecl(i) \/ CanRedecl(i)}

Declare(i) == /\ decl' = decl \cup {i}
              /\ hist' = Append(hist, i)

Next == /\ Len(hist) < MaxOps
        /\ Moves # {}
        /\ \E i \in (IF RandPick THEN {RandomElement(Moves)} ELSE Moves) : Declare(i)

Spec == Init /\ [][Next]_vars

DeclView == decl

---------------------------------------------------------------------------
(* Properties checked by TLC on the specification itself (M) *)

\* the clauses, on one answer
ClImpl(r) == r.impl = r.c                      \* refinement: the mechanism computes the definition
ClSorted(r) == StrictlySorted(r.c)             \* sorted and duplicate-free
ClPrefix(r) == \A j \in 1..Len(r.c) : HasPrefix(r.c[j], r.w)
ClReassembly(q, r) ==
    LET head == SubSeq(q.line, 1, r.k)
        tail == SubSeq(q.line, r.p + 1, Len(q.line))
    IN /\ IF r.c = <<>> THEN head \o tail = q.line ELSE head \o r.w \o tail = q.line
       /\ \A j \in 1..Len(r.c) : HasPrefix(head \o r.c[j] \o tail, SubSeq(q.line, 1, r.p))
       /\ \A j \in 1..Len(r.w) : IsIdChar(r.w[j])
       /\ (r.w # <<>> => ~IsDigit(r.w[1]))
       /\ (r.k > 0 /\ r.c # <<>> => ~IsLetter(q.line[r.k]))
ClAll(q, r) == ClImpl(r) /\ ClSorted(r) /\ ClPrefix(r) /\ ClReassembly(q, r)

\* named invariants (each evaluates the query set again: small configurations, self-test)
ImplAgrees == LET m == Memo(decl) IN \A i \in QIdx : ClImpl(QResM(decl, i, m))
SortedUnique == LET m == Memo(decl) IN \A i \in QIdx : ClSorted(QResM(decl, i, m))
PrefixOK == LET m == Memo(decl) IN \A i \in QIdx : ClPrefix(QResM(decl, i, m))
Reassembly == LET m == Memo(decl) IN \A i \in QIdx : ClReassembly(Queries[i], QResM(decl, i, m))
\* the evaluation with precomputed parts is the definition
FastIsDef == LET m == Memo(decl) IN
             \A i \in QIdx : LET q == Queries[i]
                                 r == QResM(decl, i, m)
                             IN /\ r.c = CompleteQ(decl, q).c /\ r.k = CompleteQ(decl, q).k
                                /\ r.impl = CandImpl(decl, q.view, Words(q.line, ClampPos(q)))

\* declaring one more name never removes a candidate (against the previous state; every
\* MonoEvery-th query)
Monotone == (hist # <<>> /\ hist[Len(hist)] \notin Range(SubSeq(hist, 1, Len(hist) - 1))) =>
               LET mp == Memo(decl \ {hist[Len(hist)]})
                   mc == Memo(decl)
               IN \A i \in {j \in QIdx : j % MonoEvery = 0} :
                     Range(QResM(decl \ {hist[Len(hist)]}, i, mp).c) \subseteq Range(QResM(decl, i, mc).c)

TypeOK == /\ decl \subseteq ItemIds /\ Range(hist) = decl
          /\ \A i \in decl : Items[i].deps \subseteq decl

---------------------------------------------------------------------------
(* Behaviour emission (R): one JSON record per state; the clauses are checked on the very    *)
(* answers that are printed (one evaluation of the query set per state)                      *)

NameIdx == [n \in Range(NameTab) |-> CHOOSE i \in 1..Len(NameTab) : NameTab[i] = n]
EncNames(s) == [j \in 1..Len(s) |-> NameIdx[s[j]]]

\* kind of the alternative reading (the chain that ends before the blanks)
AltKind(d, q) ==
    LET hd == TrimRight(SubSeq(q.line, 1, ClampPos(q)))
        wr == Words(hd, Len(hd))
    IN NodeKind(d, wr, IF wr.ok /\ Len(wr.words) > 1 THEN EndNode(d, q.view, wr.words) ELSE NoNode)

Enc(d, q, r, alt) ==
    LET base == [k |-> r.k, c |-> EncNames(r.c), kd |-> r.kd]
    IN IF alt
       THEN LET a == AltQ(d, q) IN base @@ [ak |-> a.k, ac |-> EncNames(a.c), akd |-> AltKind(d, q)]
       ELSE base

CheckedEmit ==
    LET m == Memo(decl)
        rs == [i \in QIdx |-> QResM(decl, i, m)] IN
    /\ \A i \in QIdx : ClAll(Queries[i], rs[i])
    /\ IF EmitOn
       THEN PrintT(ToJson([h |-> hist,
                           main |-> EncNames(SortedSeqOf(NamesIn(decl, "main"))),
                           inner |-> EncNames(SortedSeqOf(NamesIn(decl, "inner"))),
                           q |-> [i \in QIdx |-> Enc(decl, Queries[i], rs[i], QHasAlt[i])]]))
       ELSE TRUE
=============================================================================

------------------------------ MODULE Options ------------------------------
(***************************************************************************)
(* Semantics-neutral interpreter options (property C18).                    *)
(* The semantics modules (Defer, Calls, ...) never mention an option, so    *)
(* the observation they prescribe for a program is a constant function of   *)
(* the option set.  This module only enumerates the configuration space:    *)
(* every subset of the neutral options x the three states of the generics   *)
(* extension x every program of the corpus, and states the law.             *)
(***************************************************************************)
EXTENDS Naturals, FiniteSets, TLC, Json

CONSTANTS NProgs,      \* size of the corpus (programs are identified by index)
          OptNames,    \* the neutral options
          Generics,    \* states of the process-wide generics switch
          EmitOn

VARIABLES prog, opts, gen, phase

vars == <<prog, opts, gen, phase>>

\* the observation the semantics prescribes for program p: independent of opts and gen
Expected(p, o, g) == p

Init == /\ prog \in 1..NProgs /\ opts \in SUBSET OptNames /\ gen \in Generics /\ phase = "run"
Next == phase = "run" /\ phase' = "done" /\ UNCHANGED <<prog, opts, gen>>
Spec == Init /\ [][Next]_vars

Neutral == \A o \in SUBSET OptNames, g \in Generics : Expected(prog, o, g) = Expected(prog, {}, CHOOSE x \in Generics : TRUE)

Emit == IF EmitOn /\ phase = "done" THEN PrintT(ToJson([prog |-> prog, opts |-> opts, gen |-> gen])) ELSE TRUE
=============================================================================

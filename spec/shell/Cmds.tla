------------------------------- MODULE Cmds -------------------------------
(***************************************************************************)
(* REPL special-command table of gomacro (fast/cmd.go).                    *)
(*                                                                         *)
(* Go-level part : `names` is the set of registered command names and     *)
(*   LookupSpec is the linear-scan definition the property C37 states.    *)
(* Impl-level part: `tab` mirrors  Cmds.m map[byte][]Cmd  (first byte ->  *)
(*   vector sorted by name) and Add/Del/LookupImpl follow the code one    *)
(*   step per function: binarySearch, prefixSearch, removeCmd.            *)
(* A name / prefix is a sequence of byte codes (TLC cannot index strings).*)
(***************************************************************************)
EXTENDS Naturals, Sequences, FiniteSets, TLC, Json

CONSTANTS NameSet,     \* names that Add/Del may use
          Probes,      \* prefixes looked up in every state
          Builtins,    \* names registered in the initial table
          MaxOps,      \* bound on history length (replay configs)
          ExactFirst,  \* TRUE: prefixSearch returns an exact match at once (the property).
                       \* FALSE: broken variant = the code before the fix of C37
          EmitOn,      \* TRUE: print JSON records
          EmitAt       \* 0: one record per distinct state; n > 0: only when Len(hist) = n

VARIABLES tab,         \* [byte -> sorted sequence of names], only non-empty vectors
          names,       \* Go-level: set of registered names
          hist         \* sequence of operations performed so far (history variable)

vars == <<tab, names, hist>>

RECURSIVE Less(_, _)
Less(a, b) == IF a = <<>> THEN b # <<>>
              ELSE IF b = <<>> THEN FALSE
              ELSE IF a[1] < b[1] THEN TRUE
              ELSE IF a[1] > b[1] THEN FALSE
              ELSE Less(Tail(a), Tail(b))

HasPrefix(n, p) == Len(p) <= Len(n) /\ SubSeq(n, 1, Len(p)) = p

\* Cmd.Match: 0 if name starts with prefix, -1 (here 2) if name < prefix, 1 otherwise
Match(n, p) == IF HasPrefix(n, p) THEN 0 ELSE IF Less(n, p) THEN 2 ELSE 1

Sorted(vec) == \A i \in 1..(Len(vec) - 1) : Less(vec[i], vec[i + 1])

---------------------------------------------------------------------------
(* Go-level specification: linear scan over the set of names *)

RECURSIVE SortedSeqOf(_)
SortedSeqOf(S) == IF S = {} THEN <<>>
                  ELSE LET m == CHOOSE x \in S : \A y \in S \ {x} : Less(x, y)
                       IN <<m>> \o SortedSeqOf(S \ {m})

LookupSpec(N, p) ==
    IF p = <<>> THEN [r |-> "none"]
    ELSE IF p \in N THEN [r |-> "found", name |-> p]
    ELSE LET M == {n \in N : HasPrefix(n, p)} IN
         IF M = {} THEN [r |-> "none"]
         ELSE IF Cardinality(M) = 1 THEN [r |-> "found", name |-> CHOOSE n \in M : TRUE]
         ELSE [r |-> "ambiguous", names |-> SortedSeqOf(M)]

---------------------------------------------------------------------------
(* Implementation-level: fast/cmd.go *)

\* binarySearch(vec, exact) -> <<index (1-based insertion point or match), found>>
RECURSIVE BinSearch(_, _, _, _)
BinSearch(vec, x, lo, hi) ==
    IF lo > hi THEN <<lo, FALSE>>
    ELSE LET mid == (lo + hi) \div 2 IN
         IF Less(vec[mid], x) THEN BinSearch(vec, x, mid + 1, hi)
         ELSE IF Less(x, vec[mid]) THEN BinSearch(vec, x, lo, mid - 1)
         ELSE <<mid, TRUE>>

RECURSIVE ScanLo(_, _, _)   \* first loop of prefixSearch; 0 = io.EOF
ScanLo(vec, p, lo) ==
    IF lo > Len(vec) THEN 0
    ELSE LET m == Match(vec[lo], p) IN
         IF m = 2 THEN ScanLo(vec, p, lo + 1)
         ELSE IF m = 0 THEN lo ELSE 0

RECURSIVE ScanHi(_, _, _)   \* second loop of prefixSearch
ScanHi(vec, p, hi) ==
    IF hi > Len(vec) THEN hi
    ELSE IF Match(vec[hi], p) = 1 THEN hi ELSE ScanHi(vec, p, hi + 1)

PrefixSearch(vec, p) ==
    LET bs == BinSearch(vec, p, 1, Len(vec))
        lo == ScanLo(vec, p, bs[1])
    IN IF lo = 0 THEN [r |-> "none"]
       ELSE IF ExactFirst /\ vec[lo] = p THEN [r |-> "found", name |-> p]
       ELSE LET hi == ScanHi(vec, p, lo + 1) IN
            IF lo + 1 = hi THEN [r |-> "found", name |-> vec[lo]]
            ELSE [r |-> "ambiguous", names |-> SubSeq(vec, lo, hi - 1)]

LookupImpl(t, p) ==
    IF p # <<>> /\ p[1] \in DOMAIN t THEN PrefixSearch(t[p[1]], p) ELSE [r |-> "none"]

InsertSorted(vec, n) ==
    LET k == Cardinality({i \in 1..Len(vec) : Less(vec[i], n)}) IN
    SubSeq(vec, 1, k) \o <<n>> \o SubSeq(vec, k + 1, Len(vec))

RemoveAt(vec, pos) == SubSeq(vec, 1, pos - 1) \o SubSeq(vec, pos + 1, Len(vec))

Restrict(f, S) == [x \in S |-> f[x]]

Add(n) ==
    /\ n # <<>>
    /\ LET c == n[1]
           vec == IF c \in DOMAIN tab THEN tab[c] ELSE <<>>
           bs == BinSearch(vec, n, 1, Len(vec))
       IN tab' = IF bs[2] THEN tab   \* overwrite in place: same names
                 ELSE [x \in DOMAIN tab \cup {c} |-> IF x = c THEN InsertSorted(vec, n) ELSE tab[x]]
    /\ names' = names \cup {n}
    /\ hist' = Append(hist, [op |-> "add", name |-> n, ok |-> TRUE])

Del(n) ==
    /\ n # <<>>
    /\ LET c == n[1]
           vec == IF c \in DOMAIN tab THEN tab[c] ELSE <<>>
           bs == BinSearch(vec, n, 1, Len(vec))
       IN /\ tab' = IF ~bs[2] THEN tab
                    ELSE IF Len(vec) = 1 THEN Restrict(tab, DOMAIN tab \ {c})
                    ELSE [tab EXCEPT ![c] = RemoveAt(vec, bs[1])]
          /\ hist' = Append(hist, [op |-> "del", name |-> n, ok |-> bs[2]])
    /\ names' = names \ {n}

\* a lookup is an observation: it changes only the history
Lookup(p) ==
    /\ hist' = Append(hist, [op |-> "lookup", name |-> p, res |-> LookupSpec(names, p)])
    /\ UNCHANGED <<tab, names>>

Init ==
    /\ names = Builtins
    /\ tab = [c \in {b[1] : b \in Builtins} |-> SortedSeqOf({b \in Builtins : b[1] = c})]
    /\ hist = <<>>

Next == /\ Len(hist) < MaxOps
        /\ \E n \in NameSet : Add(n) \/ Del(n)

\* histories with interleaved lookups (simulation configs)
NextL == /\ Len(hist) < MaxOps
         /\ \/ \E n \in NameSet : Add(n) \/ Del(n)
            \/ \E p \in Probes : Lookup(p)
SpecL == Init /\ [][NextL]_vars

Spec == Init /\ [][Next]_vars

---------------------------------------------------------------------------
(* Properties checked by TLC on the specification itself (M) *)

TableNames == UNION {{tab[c][i] : i \in 1..Len(tab[c])} : c \in DOMAIN tab}

TypeOK == /\ \A c \in DOMAIN tab : tab[c] # <<>> /\ Sorted(tab[c])
                                   /\ \A i \in 1..Len(tab[c]) : tab[c][i][1] = c
Refines == TableNames = names
LookupAgrees == \A p \in Probes : LookupImpl(tab, p) = LookupSpec(names, p)
\* the property's clauses, stated directly on the Go-level definition
UniqueClause == \A p \in Probes \ {<<>>} :
                  LET M == {n \in names : HasPrefix(n, p)} IN
                  /\ (Cardinality(M) = 1 => LookupSpec(names, p) = [r |-> "found", name |-> CHOOSE n \in M : TRUE])
                  /\ (p \in names => LookupSpec(names, p) = [r |-> "found", name |-> p])
                  /\ (M = {} => LookupSpec(names, p).r = "none")
                  /\ (Cardinality(M) > 1 /\ p \notin names => LookupSpec(names, p).r = "ambiguous")

---------------------------------------------------------------------------
(* Behaviour emission (R): one JSON record per distinct state *)

ProbeSeq == SortedSeqOf(Probes)
Emit == IF EmitOn /\ (EmitAt = 0 \/ Len(hist) = EmitAt)
        THEN PrintT(ToJson([ops |-> hist,
                            list |-> SortedSeqOf(names),
                            lookups |-> [i \in 1..Len(ProbeSeq) |->
                                           [p |-> ProbeSeq[i], res |-> LookupSpec(names, ProbeSeq[i])]]]))
        ELSE TRUE

TabView == tab
=============================================================================

------------------------------ MODULE Collect ------------------------------
(***************************************************************************)
(* Preprocessor mode (property C39): `gomacro -m -w file.gomacro` parses   *)
(* and macroexpands a source chunk by chunk, COLLECTS its top-level nodes  *)
(* and WRITES them as a Go file; nothing of the source is executed.        *)
(*                                                                         *)
(* Two levels, both in this module:                                        *)
(*                                                                         *)
(*  Go level (the statement of the property) -- Exp*(f): the file written  *)
(*  for source f is defined from the source alone: the package clause, the *)
(*  import declarations, the declarations in source order (`x := e`        *)
(*  becomes `var x = e`; a macro declaration has no Go counterpart and is  *)
(*  left out; a macro call stands for its expansion), and the top-level    *)
(*  statements and expressions wrapped in one `func init()` written last.  *)
(*  Lines prefixed with ':' are the documented escape: they are evaluated, *)
(*  not collected (this is how macros get defined), and are the only code  *)
(*  that runs.  Options in effect are those the run was started with.      *)
(*                                                                         *)
(*  Mechanism level -- what the code does, one operator per piece of code: *)
(*   Parsed(n)        fast.Comp.Parse: go/parser fork + MacroExpandCodewalk *)
(*                    (AST node classes as CollectNode's type switch sees   *)
(*                    them; a macro call is replaced by its expansion only  *)
(*                    if the macro was defined by an earlier ':' line)      *)
(*   CollectNode      base/global.go Globals.CollectNode                   *)
(*   ForceEval        fast/repl.go cmdOptForceEval (':' lines)             *)
(*   BeginFile        cmd/cmd.go Cmd.EvalFile prologue + the reset at the  *)
(*                    end of each argument in Cmd.Main                     *)
(*   WriteFile        base/output/write_decl.go WriteDeclsToStream         *)
(*  held in the variable g (= base.Globals: PackagePath, Imports,          *)
(*  Declarations, Statements, Options).                                    *)
(*                                                                         *)
(* TLC checks (M) that the mechanism refines the Go-level definition       *)
(* (Refines) plus the properties listed at the end.  Variant selects the   *)
(* mechanism: "ok" is the mechanism that meets the property; every other   *)
(* value is a broken variant that TLC must reject.  Two of them describe   *)
(* the code as it was found in the pinned tree:                            *)
(*   "dir-keeps-imports"  Cmd.EvalFile clears Declarations and Statements  *)
(*                        but not Imports, so with a directory argument    *)
(*                        the imports of earlier files leak into later ones*)
(*   "force-enables-all"  cmdOptForceEval re-enables MacroExpandOnly,      *)
(*                        CollectDeclarations and CollectStatements after a*)
(*                        ':' line even if they were off before            *)
(* A behaviour is a RUN: a sequence of source files revealed node by node  *)
(* (lazy revelation), so BFS enumerates every run up to the bounds; the    *)
(* final state prints the sources and the Go-level expectation.            *)
(*                                                                         *)
(* Abstract nodes [k |-> kind, v |-> variant]; the harness renders them.   *)
(* A written item [f, i, as] names source node i of file f and the form in *)
(* which it is written: "same", "var" (from `:=`), "arg1"/"arg2" (first /  *)
(* second declaration of a two-declaration chunk or of a macro call's      *)
(* arguments), "name" (the bare identifier of an undefined macro).         *)
(***************************************************************************)
EXTENDS Naturals, Sequences, FiniteSets, TLC, Json

CONSTANTS Profiles,   \* generation profiles, one is chosen per run: records
                      \*   [name, kinds (enabled node kinds), maxNodes (per file), maxFiles,
                      \*    opts (option sets [d, s] to start a run with),
                      \*    modes ("args": one argument per file / "dir": one directory argument),
                      \*    pkgFirst (every file begins with its package clause and has no other)]
          Variant,
          EmitOn

VARIABLES prof,      \* the generation profile of this run
          files,     \* the sources revealed so far: sequence of sequences of nodes
          mode, opts0,
          g,         \* base.Globals of the one interpreter of the run
          defined,   \* macros defined so far by ':' lines
          astImp,    \* go/ast imported by a ':' line (macro signatures need it)
          written,   \* files written so far (mechanism)
          executed,  \* calls of the hook made while preprocessing (mechanism)
          phase      \* "file" | "between" | "done"

vars == <<prof, files, mode, opts0, g, defined, astImp, written, executed, phase>>

ASSUME \A p \in Profiles : p.maxFiles > 1 => p.pkgFirst

Variants == {"ok", "dir-keeps-imports", "force-enables-all", "no-methods", "by-kind", "define-as-statement"}
ASSUME Variant \in Variants

----------------------------------------------------------------------------
(* node alphabet *)

\* "funcparen": a function whose body contains parentheses the Go grammar requires;
\* "funcdiv": a function whose body divides by a parenthesised operand, written `a/(b+1)`
\* (both are plain function declarations for the model; they exist as kinds of their own because
\* the pinned code mishandles exactly these texts, see the harness's signatures)
FuncKinds   == {"func", "funcparen", "funcdiv"}
DeclKinds   == {"const", "constiota", "type", "var", "method"} \cup FuncKinds
ImportKinds == {"import1", "importN"}
DefineKinds == {"define"}
StmtKinds   == {"assign", "forstmt", "expr"}
ForcedKinds == {"fimport", "fvar", "ffunc", "mdef"}
CallKinds   == {"inv1", "inv2"}
AllKinds    == DeclKinds \cup ImportKinds \cup DefineKinds \cup StmtKinds \cup ForcedKinds
               \cup CallKinds \cup {"pkg", "macrodecl", "chunk2"}

VariantsOf(k) == CASE k = "pkg"     -> {1, 2}      \* main / other
                   [] k = "import1" -> {1, 2}      \* two paths, two forms
                   [] k = "type"    -> {1, 2}      \* single / grouped
                   [] k = "var"     -> {1, 2, 3}   \* single / grouped / initialiser calls the hook
                   [] k = "funcparen" -> {1, 2}   \* body with parentheses Go requires: conversion to a channel type / composite literal in an if header
                   [] k = "define"  -> {1, 2}      \* one name / two names, second calls the hook
                   [] k = "expr"    -> {1, 2}      \* call of the hook / arithmetic
                   [] k = "mdef"    -> {1, 2}      \* macro `ident` / macro `two`
                   [] k = "inv1"    -> {1, 2}      \* argument: var / func
                   [] OTHER         -> {1}

NodeSet(kinds) == UNION {{[k |-> kk, v |-> vv] : vv \in VariantsOf(kk)} : kk \in kinds \ {"pkg"}}
PkgNodes == {[k |-> "pkg", v |-> vv] : vv \in VariantsOf("pkg")}

MacroOf(n) == IF n.k = "inv1" THEN 1 ELSE 2    \* which macro a call node invokes

----------------------------------------------------------------------------
(* Go level: the written file as a function of the run *)

Item(f, i, as) == [f |-> f, i |-> i, as |-> as]

\* concatenation of C(i) for i = lo..hi
Flat(C(_), lo, hi) == LET RECURSIVE F(_)
                          F(i) == IF i > hi THEN <<>> ELSE C(i) \o F(i + 1)
                      IN F(lo)

\* macros defined / go/ast imported by the ':' lines of the run that precede node i of file f
RECURSIVE ForcedBefore(_, _, _)
ForcedBefore(fs, f, i) ==
    IF i <= 1
    THEN (IF f <= 1 THEN [ast |-> FALSE, defs |-> {}]
          ELSE ForcedBefore(fs, f - 1, Len(fs[f - 1]) + 1))
    ELSE LET b == ForcedBefore(fs, f, i - 1)
             n == fs[f][i - 1]
         IN IF n.k = "fimport" THEN [b EXCEPT !.ast = TRUE]
            ELSE IF n.k = "mdef" /\ b.ast THEN [b EXCEPT !.defs = @ \cup {n.v}]
            ELSE b

IsDefinedAt(fs, f, i) == MacroOf(fs[f][i]) \in ForcedBefore(fs, f, i).defs

ExpImports(fs, f, o) ==
    LET C(i) == IF o.d /\ fs[f][i].k \in ImportKinds THEN <<Item(f, i, "same")>> ELSE <<>>
    IN Flat(C, 1, Len(fs[f]))

ExpDecls(fs, f, o) ==
    LET C(i) == LET n == fs[f][i] IN
                IF ~o.d THEN <<>>
                ELSE IF n.k \in DeclKinds THEN <<Item(f, i, "same")>>
                ELSE IF n.k \in DefineKinds THEN <<Item(f, i, "var")>>
                ELSE IF n.k = "chunk2" \/ n.k = "inv2" THEN <<Item(f, i, "arg1"), Item(f, i, "arg2")>>
                ELSE IF n.k = "inv1" THEN <<Item(f, i, "arg1")>>
                ELSE <<>>      \* imports, package clause, macro declarations, statements, ':' lines
    IN Flat(C, 1, Len(fs[f]))

ExpStmts(fs, f, o) ==
    LET C(i) == LET n == fs[f][i] IN
                IF ~o.s THEN <<>>
                ELSE IF n.k \in StmtKinds THEN <<Item(f, i, "same")>>
                ELSE IF n.k \in CallKinds /\ ~IsDefinedAt(fs, f, i) THEN <<Item(f, i, "name")>>
                ELSE <<>>
    IN Flat(C, 1, Len(fs[f]))

\* the package clause in effect: the last one read so far in the run, "main" (1) by default
RECURSIVE ExpPkg(_, _, _)
ExpPkg(fs, f, o) ==
    IF f = 0 THEN 1
    ELSE LET idx == {i \in 1..Len(fs[f]) : fs[f][i].k = "pkg"}
         IN IF o.d /\ idx # {} THEN fs[f][CHOOSE i \in idx : \A j \in idx : j <= i].v
            ELSE ExpPkg(fs, f - 1, o)

ExpFile(fs, f, o) == [pkg |-> ExpPkg(fs, f, o), imports |-> ExpImports(fs, f, o),
                      decls |-> ExpDecls(fs, f, o), stmts |-> ExpStmts(fs, f, o)]

\* the only code that runs: ':' lines (here: `:var h = hook()`)
ExpExecuted(fs) ==
    LET RECURSIVE Cnt(_)
        Cnt(f) == IF f = 0 THEN 0
                  ELSE Cardinality({i \in 1..Len(fs[f]) : fs[f][i].k = "fvar"}) + Cnt(f - 1)
    IN Cnt(Len(fs))

----------------------------------------------------------------------------
(* mechanism level *)

\* what Comp.Parse hands to CollectAst for node n (at position f, i): a sequence of AST nodes
\*   [ast, tok / recv, it]  with `it` the written item the AST node stands for
A(ast, sub, it) == [ast |-> ast, sub |-> sub, it |-> it]

ArgAst(f, i, as, isFunc) == IF isFunc THEN A("FuncDecl", "norecv", Item(f, i, as))
                            ELSE A("GenDecl", "var", Item(f, i, as))

Parsed(f, i, n) ==
    LET same == Item(f, i, "same") IN
    CASE n.k = "pkg"       -> <<A("GenDecl", "package", [same EXCEPT !.as = n.v])>>
      [] n.k \in ImportKinds -> <<A("GenDecl", "import", same)>>
      [] n.k \in {"const", "constiota"} -> <<A("GenDecl", "const", same)>>
      [] n.k = "type"      -> <<A("GenDecl", "type", same)>>
      [] n.k = "var"       -> <<A("GenDecl", "var", same)>>
      [] n.k \in FuncKinds -> <<A("FuncDecl", "norecv", same)>>
      [] n.k = "method"    -> <<A("FuncDecl", "recv", same)>>
      [] n.k = "macrodecl" -> <<A("FuncDecl", "emptyrecv", same)>>   \* parser marks macros with an empty receiver list
      [] n.k = "define"    -> <<A("AssignStmt", "define", same)>>
      [] n.k = "assign"    -> <<A("AssignStmt", "assign", same)>>
      [] n.k = "forstmt"   -> <<A("Stmt", "for", same)>>
      [] n.k = "expr"      -> <<A("Expr", "", same)>>
      [] n.k = "chunk2"    -> <<ArgAst(f, i, "arg1", FALSE), ArgAst(f, i, "arg2", TRUE)>>
      [] n.k = "inv1"      -> (IF MacroOf(n) \in defined THEN <<>> ELSE <<A("Expr", "", Item(f, i, "name"))>>)
                              \o <<ArgAst(f, i, "arg1", n.v = 2)>>
      [] n.k = "inv2"      -> (IF MacroOf(n) \in defined THEN <<>> ELSE <<A("Expr", "", Item(f, i, "name"))>>)
                              \o <<ArgAst(f, i, "arg1", FALSE), ArgAst(f, i, "arg2", TRUE)>>
      [] OTHER             -> <<>>

\* Globals.CollectNode: one AST node
CollectNode(gg, a) ==
    LET D == gg.d
        S == gg.s
    IN CASE a.ast = "GenDecl" ->
              IF ~D THEN gg
              ELSE IF a.sub = "import" THEN [gg EXCEPT !.imports = Append(@, a.it)]
              ELSE IF a.sub = "package" THEN [gg EXCEPT !.pkg = a.it.as]
              ELSE [gg EXCEPT !.decls = Append(@, a.it)]
         [] a.ast = "FuncDecl" ->
              IF D /\ (a.sub = "norecv" \/ (a.sub = "recv" /\ Variant # "no-methods"))
              THEN [gg EXCEPT !.decls = Append(@, a.it)]
              ELSE gg                                   \* macro declarations are skipped
         [] a.ast = "AssignStmt" ->
              IF a.sub = "define" /\ Variant # "define-as-statement"
              THEN (IF D THEN [gg EXCEPT !.decls = Append(@, [a.it EXCEPT !.as = "var"])] ELSE gg)
              ELSE (IF S THEN [gg EXCEPT !.stmts = Append(@, a.it)] ELSE gg)
         [] a.ast = "Stmt" -> IF S THEN [gg EXCEPT !.stmts = Append(@, a.it)] ELSE gg
         [] a.ast = "Expr" -> IF S THEN [gg EXCEPT !.stmts = Append(@, a.it)] ELSE gg
         [] OTHER -> gg

RECURSIVE CollectAll(_, _)
CollectAll(gg, as) == IF as = <<>> THEN gg ELSE CollectAll(CollectNode(gg, Head(as)), Tail(as))

\* a ':' line: collection and macro-only are switched off while it is evaluated, then restored
ForceEval(gg) == IF Variant = "force-enables-all" /\ (gg.d \/ gg.s)
                 THEN [gg EXCEPT !.d = TRUE, !.s = TRUE]   \* restores all three options, not the ones that were on
                 ELSE gg

EmptyG(o) == [pkg |-> 1, imports |-> <<>>, decls |-> <<>>, stmts |-> <<>>, d |-> o.d, s |-> o.s]

\* Cmd.EvalFile's prologue (and, between arguments, the reset at the end of Cmd.Main's loop body)
BeginFile(gg) == [gg EXCEPT !.decls = <<>>, !.stmts = <<>>,
                            !.imports = IF mode = "dir" /\ Variant = "dir-keeps-imports" THEN @ ELSE <<>>]

\* WriteDeclsToStream: package clause, imports, declarations in collection order, statements
IsGen(it) == LET n == files[it.f][it.i] IN
             ~(n.k \in FuncKinds \cup {"method"} \/ (n.k \in {"chunk2", "inv2"} /\ it.as = "arg2") \/ (n.k = "inv1" /\ n.v = 2))
WriteFile(gg) == [pkg |-> gg.pkg, imports |-> gg.imports,
                  decls |-> IF Variant = "by-kind"
                            THEN SelectSeq(gg.decls, IsGen) \o SelectSeq(gg.decls, LAMBDA it : ~IsGen(it))
                            ELSE gg.decls,
                  stmts |-> gg.stmts]

----------------------------------------------------------------------------
Cur == Len(files)

Init == /\ prof \in Profiles
        /\ files = <<<<>>>>
        /\ mode \in prof.modes /\ opts0 \in prof.opts
        /\ g = EmptyG(opts0)
        /\ defined = {} /\ astImp = FALSE
        /\ written = <<>> /\ executed = 0
        /\ phase = "file"

\* reveal the next top-level node of the current file and process it
AddNode ==
    /\ phase = "file" /\ Len(files[Cur]) < prof.maxNodes
    /\ \E n \in (IF prof.pkgFirst /\ files[Cur] = <<>> THEN PkgNodes
                 ELSE IF prof.pkgFirst THEN NodeSet(prof.kinds)
                 ELSE NodeSet(prof.kinds) \cup (IF "pkg" \in prof.kinds THEN PkgNodes ELSE {})) :
         LET i == Len(files[Cur]) + 1 IN
         /\ files' = [files EXCEPT ![Cur] = Append(@, n)]
         /\ IF n.k \in ForcedKinds
            THEN /\ g' = ForceEval(g)
                 /\ astImp' = (astImp \/ n.k = "fimport")
                 /\ defined' = IF n.k = "mdef" /\ astImp THEN defined \cup {n.v} ELSE defined
                 /\ executed' = IF n.k = "fvar" THEN executed + 1 ELSE executed
            ELSE /\ g' = CollectAll(g, Parsed(Cur, i, n))
                 /\ UNCHANGED <<astImp, defined, executed>>
    /\ UNCHANGED <<prof, mode, opts0, written, phase>>

EndFile ==
    /\ phase = "file" /\ (prof.pkgFirst => files[Cur] # <<>>)
    /\ written' = Append(written, WriteFile(g))
    /\ phase' = "between"
    /\ UNCHANGED <<prof, files, mode, opts0, g, defined, astImp, executed>>

NextFile ==
    /\ phase = "between" /\ Cur < prof.maxFiles
    /\ files' = Append(files, <<>>)
    /\ g' = BeginFile(g)
    /\ phase' = "file"
    /\ UNCHANGED <<prof, mode, opts0, defined, astImp, written, executed>>

Finish ==
    /\ phase = "between"
    /\ phase' = "done"
    /\ UNCHANGED <<prof, files, mode, opts0, g, defined, astImp, written, executed>>

Next == AddNode \/ EndFile \/ NextFile \/ Finish
Spec == Init /\ [][Next]_vars

----------------------------------------------------------------------------
(* (M) properties *)

TypeOK == /\ phase \in {"file", "between", "done"}
          /\ Len(files) <= prof.maxFiles /\ Len(written) <= Len(files)
          /\ \A f \in 1..Len(files) : Len(files[f]) <= prof.maxNodes

\* the mechanism writes, for every file, exactly what the Go-level definition says,
\* and runs exactly the ':' lines
Refines == /\ \A f \in 1..Len(written) : written[f] = ExpFile(files, f, opts0)
           /\ (phase # "file" => executed = ExpExecuted(files))

\* a macro-free source made of declarations only is written declaration by declaration,
\* same order, same count
DeclOnly(f) == \A i \in 1..Len(files[f]) : files[f][i].k \in DeclKinds \cup ImportKinds \cup {"pkg"}
DeclsPreserved ==
    \A f \in 1..Len(written) :
        (opts0.d /\ DeclOnly(f)) =>
            LET idx == SelectSeq([i \in 1..Len(files[f]) |-> i], LAMBDA i : files[f][i].k \in DeclKinds)
            IN /\ Len(written[f].decls) = Len(idx)
               /\ \A j \in 1..Len(idx) : written[f].decls[j] = Item(f, idx[j], "same")
               /\ written[f].stmts = <<>>

\* imports: exactly the file's own, in order
ImportsPreserved ==
    \A f \in 1..Len(written) : opts0.d =>
        LET idx == SelectSeq([i \in 1..Len(files[f]) |-> i], LAMBDA i : files[f][i].k \in ImportKinds)
        IN written[f].imports = [j \in 1..Len(idx) |-> Item(f, idx[j], "same")]

\* nothing is written twice, neither inside a file nor across the files of a run
AllItems(w) == w.imports \o w.decls \o w.stmts
NothingTwice ==
    LET all == Flat(LAMBDA f : AllItems(written[f]), 1, Len(written))
    IN \A a, b \in 1..Len(all) : a # b => all[a] # all[b]

\* every written item belongs to the file it is written for
NothingForeign == \A f \in 1..Len(written) :
                    \A j \in 1..Len(AllItems(written[f])) : AllItems(written[f])[j].f = f

\* options are what the run was started with
OptionsStable == g.d = opts0.d /\ g.s = opts0.s

\* no macro declaration and no ':' line is ever written
NeverWritten == \A f \in 1..Len(written) :
                  \A j \in 1..Len(AllItems(written[f])) :
                     files[f][AllItems(written[f])[j].i].k \notin ForcedKinds \cup {"macrodecl"}

----------------------------------------------------------------------------
(* emission for the conformance harness: the sources and the GO-LEVEL expectation *)

\* spec-level predicates naming the situations in which the pinned code is known to differ
LaterDirFile == mode = "dir" /\ Len(files) >= 2
ForcedWithOptionOff == ~(opts0.d /\ opts0.s) /\ (opts0.d \/ opts0.s) /\
                       \E f \in 1..Len(files) : \E i \in 1..Len(files[f]) : files[f][i].k \in ForcedKinds

Emit == IF EmitOn /\ phase = "done"
        THEN PrintT(ToJson([profile |-> prof.name, files |-> files, mode |-> mode, opts |-> opts0,
                            expect |-> [f \in 1..Len(files) |-> ExpFile(files, f, opts0)],
                            executed |-> ExpExecuted(files),
                            laterDirFile |-> LaterDirFile,
                            forcedWithOptionOff |-> ForcedWithOptionOff]))
        ELSE TRUE
=============================================================================

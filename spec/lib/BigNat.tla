------------------------------- MODULE BigNat -------------------------------
(***************************************************************************)
(* Arbitrary-precision natural numbers for TLC, whose integers are 32-bit. *)
(* A natural is a little-endian sequence of limbs in base 10^4 without     *)
(* trailing (most significant) zero limbs; zero is the empty sequence.     *)
(* Base 10^4 keeps every intermediate product limb*limb + carry below 2^31 *)
(* and makes decimal rendering a matter of padding limbs to four digits,   *)
(* so that values leave TLC as decimal STRINGS.                            *)
(*                                                                         *)
(* Everything is defined from the schoolbook algorithms; the operators     *)
(* named Anchor* state the correspondence with TLC's native integers that  *)
(* TLC checks on all small operands and on boundary operands around 10^4   *)
(* and 10^8 (configuration "anchor" of the checks C04/C32).                *)
(***************************************************************************)
EXTENDS Naturals, Sequences, TLC
LOCAL INSTANCE Bitwise   \* CommunityModules: a & b, a | b, a ^^ b on native naturals

BNB == 10000          \* the base
BNZero == <<>>
BNOne == <<1>>

IsBN(a) == /\ DOMAIN a = 1..Len(a)
           /\ \A i \in 1..Len(a) : a[i] \in 0..(BNB - 1)
           /\ (Len(a) > 0 => a[Len(a)] # 0)

RECURSIVE BNTrim(_)
BNTrim(a) == IF a = <<>> THEN <<>>
             ELSE IF a[Len(a)] = 0 THEN BNTrim(SubSeq(a, 1, Len(a) - 1)) ELSE a

\* native natural (< 2^31) -> BigNat
RECURSIVE BNFromInt(_)
BNFromInt(n) == IF n = 0 THEN <<>> ELSE <<n % BNB>> \o BNFromInt(n \div BNB)

\* BigNat -> native natural; only for values below 2^31 (at most 3 limbs, checked by caller)
RECURSIVE BNToInt(_)
BNToInt(a) == IF a = <<>> THEN 0 ELSE a[1] + BNB * BNToInt(Tail(a))

BNFitsInt(a) == Len(a) <= 2     \* < 10^8, safely inside the native range

BNIsZero(a) == a = <<>>
BNIsOdd(a) == a # <<>> /\ a[1] % 2 = 1

Limb(a, i) == IF i <= Len(a) THEN a[i] ELSE 0
Max2(x, y) == IF x >= y THEN x ELSE y

----------------------------------------------------------------------------
\* comparison: 0 equal, 1 a > b, 2 a < b   (naturals only: no negative results)
BNCmp(a, b) ==
    IF Len(a) # Len(b) THEN (IF Len(a) > Len(b) THEN 1 ELSE 2)
    ELSE LET RECURSIVE At(_)
             At(i) == IF i = 0 THEN 0
                      ELSE IF a[i] > b[i] THEN 1
                      ELSE IF a[i] < b[i] THEN 2
                      ELSE At(i - 1)
         IN At(Len(a))
BNLt(a, b) == BNCmp(a, b) = 2
BNLe(a, b) == BNCmp(a, b) # 1
BNGe(a, b) == BNCmp(a, b) # 2
BNGt(a, b) == BNCmp(a, b) = 1

\* addition
BNAdd(a, b) ==
    LET n == Max2(Len(a), Len(b))
        RECURSIVE Go(_, _)
        Go(i, c) == IF i > n THEN (IF c = 0 THEN <<>> ELSE <<c>>)
                    ELSE LET x == Limb(a, i) + Limb(b, i) + c
                         IN <<x % BNB>> \o Go(i + 1, x \div BNB)
    IN Go(1, 0)

\* subtraction a - b, requires a >= b
BNSub(a, b) ==
    LET RECURSIVE Go(_, _)
        Go(i, br) == IF i > Len(a) THEN <<>>
                     ELSE LET x == a[i] + BNB - Limb(b, i) - br
                          IN <<x % BNB>> \o Go(i + 1, 1 - (x \div BNB))
    IN BNTrim(Go(1, 0))

\* multiplication by a native m, 0 <= m <= 200000 (limb * m + carry < 2^31)
BNMulSmall(a, m) ==
    IF m = 0 THEN <<>>
    ELSE LET RECURSIVE Go(_, _)
             Go(i, c) == IF i > Len(a) THEN BNFromInt(c)
                         ELSE LET x == a[i] * m + c
                              IN <<x % BNB>> \o Go(i + 1, x \div BNB)
         IN Go(1, 0)

\* multiply by BNB^k
BNShiftLimbs(a, k) == IF a = <<>> \/ k = 0 THEN a ELSE [i \in 1..k |-> 0] \o a

RECURSIVE BNMul(_, _)
BNMul(a, b) ==
    IF a = <<>> \/ b = <<>> THEN <<>>
    ELSE IF Len(b) > Len(a) THEN BNMul(b, a)
    ELSE BNAdd(BNMulSmall(a, b[1]), BNShiftLimbs(BNMul(a, Tail(b)), 1))

\* division by a native m, 1 <= m <= 200000: <<quotient, remainder (native)>>
BNDivModSmall(a, m) ==
    LET RECURSIVE Go(_, _)
        \* processes limbs i..1 with incoming remainder r; returns <<low limbs of q, rem>>
        Go(i, r) == IF i = 0 THEN <<<<>>, r>>
                    ELSE LET cur == r * BNB + a[i]
                             rest == Go(i - 1, cur % m)
                         IN <<Append(rest[1], cur \div m), rest[2]>>
        res == Go(Len(a), 0)
    IN <<BNTrim(res[1]), res[2]>>

\* general division, b # 0: <<quotient, remainder>>.  Schoolbook long division (Knuth's
\* algorithm D without the two-limb estimate): both operands are scaled by f so that the leading
\* limb of the divisor is at least BNB/2, which pins every quotient limb between two bounds at
\* most a few units apart; the limb is then found by bisection between the bounds.
BNDivMod(a, b) ==
    IF Len(b) = 1 THEN LET qr == BNDivModSmall(a, b[1]) IN <<qr[1], BNFromInt(qr[2])>>
    ELSE IF BNLt(a, b) THEN <<<<>>, a>>
    ELSE
    LET f == BNB \div (b[Len(b)] + 1)
        aa == IF f = 1 THEN a ELSE BNMulSmall(a, f)
        bb == IF f = 1 THEN b ELSE BNMulSmall(b, f)     \* same length as b
        nb == Len(bb)
        na == Len(aa)
        btop == bb[nb]
        \* largest d in lo..hi with d*bb <= r  (invariant: lo*bb <= r, (hi+1)*bb > r)
        RECURSIVE Bis(_, _, _)
        Bis(r, lo, hi) == IF lo = hi THEN lo
                          ELSE LET mid == (lo + hi + 1) \div 2
                               IN IF BNLe(BNMulSmall(bb, mid), r) THEN Bis(r, mid, hi)
                                  ELSE Bis(r, lo, mid - 1)
        Digit(r) ==
            IF BNLt(r, bb) THEN 0
            ELSE LET nr == Len(r)
                     \* r < bb * BNB, hence nr <= nb + 1; leading part of r aligned with btop
                     rtop == IF nr = nb THEN r[nr] ELSE r[nr] * BNB + r[nr - 1]
                     hi0 == rtop \div btop
                     hi == IF hi0 > BNB - 1 THEN BNB - 1 ELSE hi0
                     lo == rtop \div (btop + 1)
                 IN Bis(r, lo, hi)
        RECURSIVE Go(_, _)
        \* limbs i..1 of aa still to bring down, current remainder r < bb: <<low limbs of q, rem>>
        Go(i, r) == IF i = 0 THEN <<<<>>, r>>
                    ELSE LET r1 == BNTrim(<<aa[i]>> \o r)
                             d == Digit(r1)
                             r2 == IF d = 0 THEN r1 ELSE BNSub(r1, BNMulSmall(bb, d))
                             rest == Go(i - 1, r2)
                         IN <<Append(rest[1], d), rest[2]>>
        \* the leading nb-1 limbs of aa are below bb: start there
        res == Go(na - nb + 1, SubSeq(aa, na - nb + 2, na))
    IN <<BNTrim(res[1]), IF f = 1 THEN res[2] ELSE BNDivModSmall(res[2], f)[1]>>

BNDiv(a, b) == BNDivMod(a, b)[1]
BNMod(a, b) == BNDivMod(a, b)[2]

RECURSIVE GcdNative(_, _)
GcdNative(x, y) == IF y = 0 THEN x ELSE GcdNative(y, x % y)

RECURSIVE BNGcd(_, _)
BNGcd(a, b) ==
    IF b = <<>> THEN a
    ELSE IF BNFitsInt(a) /\ BNFitsInt(b) THEN BNFromInt(GcdNative(BNToInt(a), BNToInt(b)))
    ELSE BNGcd(b, BNMod(a, b))

----------------------------------------------------------------------------
\* powers and shifts by small counts
RECURSIVE Pow2Native(_)
Pow2Native(k) == IF k = 0 THEN 1 ELSE 2 * Pow2Native(k - 1)     \* k <= 17
RECURSIVE Pow10Native(_)
Pow10Native(k) == IF k = 0 THEN 1 ELSE 10 * Pow10Native(k - 1)  \* k <= 4

RECURSIVE BNShl(_, _)      \* a * 2^k
BNShl(a, k) == IF k = 0 \/ a = <<>> THEN a
               ELSE IF k >= 17 THEN BNShl(BNMulSmall(a, 131072), k - 17)
               ELSE BNMulSmall(a, Pow2Native(k))

RECURSIVE BNShr(_, _)      \* floor(a / 2^k)
BNShr(a, k) == IF k = 0 \/ a = <<>> THEN a
               ELSE IF k >= 17 THEN BNShr(BNDivModSmall(a, 131072)[1], k - 17)
               ELSE BNDivModSmall(a, Pow2Native(k))[1]

BNPow2(k) == BNShl(BNOne, k)
BNPow10(k) == BNShiftLimbs(<<Pow10Native(k % 4)>>, k \div 4)

\* little-endian digits in base 2^13 (for bit length and bitwise operators)
RECURSIVE BNToB13(_)
BNToB13(a) == IF a = <<>> THEN <<>>
              ELSE LET qr == BNDivModSmall(a, 8192) IN <<qr[2]>> \o BNToB13(qr[1])
RECURSIVE BNFromB13(_)
BNFromB13(d) == IF d = <<>> THEN <<>>
                ELSE BNAdd(BNFromInt(d[1]), BNMulSmall(BNFromB13(Tail(d)), 8192))

RECURSIVE BitLenNative(_)
BitLenNative(x) == IF x = 0 THEN 0 ELSE 1 + BitLenNative(x \div 2)

\* number of bits of a (0 for zero)
BNBitLen(a) == IF a = <<>> THEN 0
               ELSE LET d == BNToB13(a) IN 13 * (Len(d) - 1) + BitLenNative(d[Len(d)])

\* bitwise operators on naturals, digit by digit in base 2^13
BNBitOp(op, a, b) ==
    LET x == BNToB13(a)
        y == BNToB13(b)
        n == Max2(Len(x), Len(y))
        D(i) == LET p == Limb(x, i)
                    q == Limb(y, i)
                IN CASE op = "and" -> p & q
                     [] op = "or" -> p | q
                     [] op = "xor" -> p ^^ q
                     [] op = "andnot" -> p - (p & q)
    IN BNFromB13([i \in 1..n |-> D(i)])
BNAnd(a, b) == BNBitOp("and", a, b)
BNOr(a, b) == BNBitOp("or", a, b)
BNXor(a, b) == BNBitOp("xor", a, b)
BNAndNot(a, b) == BNBitOp("andnot", a, b)

----------------------------------------------------------------------------
\* decimal rendering: values leave TLC as strings
Pad4(n) == IF n < 10 THEN "000" \o ToString(n)
           ELSE IF n < 100 THEN "00" \o ToString(n)
           ELSE IF n < 1000 THEN "0" \o ToString(n)
           ELSE ToString(n)
BNStr(a) ==
    IF a = <<>> THEN "0"
    ELSE LET RECURSIVE Go(_)
             Go(i) == IF i = 0 THEN "" ELSE Pad4(a[i]) \o Go(i - 1)
         IN ToString(a[Len(a)]) \o Go(Len(a) - 1)

\* decimal rendering as a sequence of ASCII codes (most significant digit first)
DigitCodes4(n) == <<48 + (n \div 1000), 48 + ((n \div 100) % 10), 48 + ((n \div 10) % 10), 48 + (n % 10)>>
RECURSIVE StripZeros(_)
StripZeros(s) == IF Len(s) > 1 /\ s[1] = 48 THEN StripZeros(Tail(s)) ELSE s
BNCodes(a) ==
    IF a = <<>> THEN <<48>>
    ELSE LET RECURSIVE Go(_)
             Go(i) == IF i = 0 THEN <<>> ELSE DigitCodes4(a[i]) \o Go(i - 1)
         IN StripZeros(Go(Len(a)))

\* parsing a sequence of ASCII digit codes (most significant first); leading zeros allowed
RECURSIVE BNParse(_)
BNParse(s) ==
    IF s = <<>> THEN <<>>
    ELSE BNAdd(BNMulSmall(BNParse(SubSeq(s, 1, Len(s) - 1)), 10), BNFromInt(s[Len(s)] - 48))
IsDigits(s) == s # <<>> /\ \A i \in 1..Len(s) : s[i] \in 48..57

----------------------------------------------------------------------------
(* Anchors (M): every operator equals the native one wherever native integers suffice. *)
RECURSIVE AndNative(_, _)
AndNative(x, y) == IF x = 0 \/ y = 0 THEN 0 ELSE (x % 2) * (y % 2) + 2 * AndNative(x \div 2, y \div 2)
RECURSIVE OrNative(_, _)
OrNative(x, y) == IF x = 0 THEN y ELSE IF y = 0 THEN x
                  ELSE (IF (x % 2) + (y % 2) > 0 THEN 1 ELSE 0) + 2 * OrNative(x \div 2, y \div 2)
RECURSIVE XorNative(_, _)
XorNative(x, y) == IF x = 0 THEN y ELSE IF y = 0 THEN x
                   ELSE ((x + y) % 2) + 2 * XorNative(x \div 2, y \div 2)

\* x, y native with x*y < 2^31
BNAnchorPair(x, y) ==
    LET a == BNFromInt(x)
        b == BNFromInt(y)
    IN /\ IsBN(a) /\ IsBN(b)
       /\ BNToInt(a) = x
       /\ BNToInt(BNAdd(a, b)) = x + y
       /\ IsBN(BNAdd(a, b)) /\ IsBN(BNMul(a, b))
       /\ BNToInt(BNMul(a, b)) = x * y
       /\ (x >= y => BNToInt(BNSub(a, b)) = x - y /\ IsBN(BNSub(a, b)))
       /\ BNCmp(a, b) = (IF x = y THEN 0 ELSE IF x > y THEN 1 ELSE 2)
       /\ (y > 0 => LET qr == BNDivMod(a, b) IN
                    /\ BNToInt(qr[1]) = x \div y /\ BNToInt(qr[2]) = x % y
                    /\ IsBN(qr[1]) /\ IsBN(qr[2]))
       /\ (y > 0 /\ y <= 200000 =>
              LET qr == BNDivModSmall(a, y) IN BNToInt(qr[1]) = x \div y /\ qr[2] = x % y)
       /\ (y <= 200000 /\ x <= 10000 => BNToInt(BNMulSmall(a, y)) = x * y)
       /\ BNToInt(BNGcd(a, b)) = GcdNative(x, y)
       /\ BNToInt(BNAnd(a, b)) = AndNative(x, y)
       /\ BNToInt(BNOr(a, b)) = OrNative(x, y)
       /\ BNToInt(BNXor(a, b)) = XorNative(x, y)
       /\ BNToInt(BNAndNot(a, b)) = x - AndNative(x, y)
       /\ BNBitLen(a) = BitLenNative(x)
       /\ BNStr(a) = ToString(x)
       /\ BNParse(BNCodes(a)) = a
       /\ (y <= 12 /\ x < 500000 => BNToInt(BNShl(a, y)) = x * Pow2Native(y))
       /\ (y <= 40 => BNShr(a, y) = BNFromInt(IF y > 30 THEN 0 ELSE x \div Pow2Native(y)))

\* multi-limb laws that native integers cannot state directly: checked algebraically on
\* operands far beyond 2^31 (a, b, c are BigNats)
BNAnchorBig(a, b, c) ==
    LET ab == BNMul(a, b) IN
    /\ IsBN(ab)
    /\ ab = BNMul(b, a)
    /\ BNMul(a, BNAdd(b, c)) = BNAdd(ab, BNMul(a, c))
    /\ BNSub(BNAdd(a, b), b) = a
    /\ (b # <<>> => LET qr == BNDivMod(BNAdd(ab, c), b) IN
                    \* (a*b + c) div b = a + c div b ; remainder = c mod b
                    /\ BNLt(qr[2], b)
                    /\ BNAdd(BNMul(qr[1], b), qr[2]) = BNAdd(ab, c)
                    /\ BNDivMod(ab, b) = <<a, <<>>>>)
    /\ (a # <<>> /\ b # <<>> =>
          LET g == BNGcd(a, b) IN
          /\ BNMod(a, g) = <<>> /\ BNMod(b, g) = <<>>
          /\ BNGcd(BNDiv(a, g), BNDiv(b, g)) = BNOne
          /\ BNGcd(BNMul(a, c), BNMul(b, c)) = BNMul(g, c))
    /\ BNShr(BNShl(a, 45), 45) = a
    /\ BNShl(a, 45) = BNMul(a, BNPow2(45))
    /\ BNFromB13(BNToB13(a)) = a
    /\ BNXor(BNXor(a, b), b) = a
    /\ BNAdd(BNAnd(a, b), BNOr(a, b)) = BNAdd(a, b)
    /\ BNAdd(BNAndNot(a, b), BNAnd(a, b)) = a
    /\ BNParse(BNCodes(a)) = a
    /\ (a # <<>> => BNLe(BNPow2(BNBitLen(a) - 1), a) /\ BNLt(a, BNPow2(BNBitLen(a))))
=============================================================================

-------------------------------- MODULE Rat --------------------------------
(***************************************************************************)
(* Signed arbitrary-precision integers and rationals over BigNat.          *)
(*                                                                         *)
(* A signed integer is  [neg |-> BOOLEAN, mag |-> BigNat]  with zero never *)
(* negative.  A rational is  [neg, num, den]  in lowest terms, den >= 1,   *)
(* zero = [neg |-> FALSE, num |-> <<>>, den |-> <<1>>].                    *)
(* Integer operators follow Go's constant semantics: quotient truncates    *)
(* toward zero, remainder has the sign of the dividend, shifts right are   *)
(* arithmetic (floor), bitwise operators act on the infinite two's         *)
(* complement representation (go/constant, math/big).                      *)
(***************************************************************************)
EXTENDS BigNat, Integers

SI(neg, mag) == [neg |-> neg /\ mag # <<>>, mag |-> mag]
SIZero == SI(FALSE, <<>>)
SIFromInt(n) == IF n < 0 THEN SI(TRUE, BNFromInt(-n)) ELSE SI(FALSE, BNFromInt(n))
SIToInt(x) == IF x.neg THEN -BNToInt(x.mag) ELSE BNToInt(x.mag)
SIIsZero(x) == x.mag = <<>>
SISign(x) == IF x.mag = <<>> THEN 0 ELSE IF x.neg THEN -1 ELSE 1
SINeg(x) == SI(~x.neg, x.mag)

\* -1, 0, 1
SICmp(x, y) ==
    IF x.neg # y.neg THEN (IF x.neg THEN -1 ELSE 1)
    ELSE LET c == BNCmp(x.mag, y.mag)
         IN IF c = 0 THEN 0 ELSE IF (c = 1) # x.neg THEN 1 ELSE -1

SIAdd(x, y) ==
    IF x.neg = y.neg THEN SI(x.neg, BNAdd(x.mag, y.mag))
    ELSE IF BNGe(x.mag, y.mag) THEN SI(x.neg, BNSub(x.mag, y.mag))
    ELSE SI(y.neg, BNSub(y.mag, x.mag))
SISub(x, y) == SIAdd(x, SINeg(y))
SIMul(x, y) == SI(x.neg # y.neg, BNMul(x.mag, y.mag))
\* Go: truncated division, y # 0
SIQuo(x, y) == SI(x.neg # y.neg, BNDiv(x.mag, y.mag))
SIRem(x, y) == SI(x.neg, BNMod(x.mag, y.mag))
SIShl(x, k) == SI(x.neg, BNShl(x.mag, k))
\* arithmetic shift right = floor(x / 2^k)
SIShr(x, k) == IF ~x.neg THEN SI(FALSE, BNShr(x.mag, k))
               ELSE SI(TRUE, BNAdd(BNShr(BNSub(x.mag, BNOne), k), BNOne))

\* bitwise operators on infinite two's complement: for x < 0, x = ~(|x| - 1)
M1(x) == BNSub(x.mag, BNOne)                  \* |x| - 1 for negative x
NegP1(m) == SI(TRUE, BNAdd(m, BNOne))         \* -(m + 1) = ~m
SIAnd(x, y) ==
    IF ~x.neg /\ ~y.neg THEN SI(FALSE, BNAnd(x.mag, y.mag))
    ELSE IF x.neg /\ y.neg THEN NegP1(BNOr(M1(x), M1(y)))
    ELSE IF x.neg THEN SI(FALSE, BNAndNot(y.mag, M1(x)))
    ELSE SI(FALSE, BNAndNot(x.mag, M1(y)))
SIOr(x, y) ==
    IF ~x.neg /\ ~y.neg THEN SI(FALSE, BNOr(x.mag, y.mag))
    ELSE IF x.neg /\ y.neg THEN NegP1(BNAnd(M1(x), M1(y)))
    ELSE IF x.neg THEN NegP1(BNAndNot(M1(x), y.mag))
    ELSE NegP1(BNAndNot(M1(y), x.mag))
SIXor(x, y) ==
    IF ~x.neg /\ ~y.neg THEN SI(FALSE, BNXor(x.mag, y.mag))
    ELSE IF x.neg /\ y.neg THEN SI(FALSE, BNXor(M1(x), M1(y)))
    ELSE IF x.neg THEN NegP1(BNXor(M1(x), y.mag))
    ELSE NegP1(BNXor(x.mag, M1(y)))
SIAndNot(x, y) ==
    IF ~x.neg /\ ~y.neg THEN SI(FALSE, BNAndNot(x.mag, y.mag))
    ELSE IF x.neg /\ y.neg THEN SI(FALSE, BNAndNot(M1(y), M1(x)))
    ELSE IF x.neg THEN NegP1(BNOr(M1(x), y.mag))
    ELSE SI(FALSE, BNAnd(x.mag, M1(y)))
SINot(x) == SISub(SINeg(x), SIFromInt(1))     \* ^x = -x - 1

SIStr(x) == IF x.neg THEN "-" \o BNStr(x.mag) ELSE BNStr(x.mag)

----------------------------------------------------------------------------
\* rationals
RMake(neg, n, d) ==      \* d # 0; normalises
    IF n = <<>> THEN [neg |-> FALSE, num |-> <<>>, den |-> BNOne]
    ELSE IF d = BNOne THEN [neg |-> neg, num |-> n, den |-> d]
    ELSE LET g == BNGcd(n, d)
         IN IF g = BNOne THEN [neg |-> neg, num |-> n, den |-> d]
            ELSE [neg |-> neg, num |-> BNDiv(n, g), den |-> BNDiv(d, g)]
RZero == RMake(FALSE, <<>>, BNOne)
RFromSI(x) == [neg |-> x.neg, num |-> x.mag, den |-> BNOne]
RFromInt(n) == RFromSI(SIFromInt(n))
RIsZero(r) == r.num = <<>>
RIsInt(r) == r.den = BNOne
RNum(r) == SI(r.neg, r.num)      \* signed numerator
RNeg(r) == IF r.num = <<>> THEN r ELSE [r EXCEPT !.neg = ~r.neg]
RAbs(r) == [r EXCEPT !.neg = FALSE]
RSign(r) == IF r.num = <<>> THEN 0 ELSE IF r.neg THEN -1 ELSE 1

RAdd(a, b) ==
    IF a.den = b.den
    THEN LET s == SIAdd(RNum(a), RNum(b)) IN RMake(s.neg, s.mag, a.den)
    ELSE LET s == SIAdd(SI(a.neg, BNMul(a.num, b.den)), SI(b.neg, BNMul(b.num, a.den)))
         IN RMake(s.neg, s.mag, BNMul(a.den, b.den))
RSub(a, b) == RAdd(a, RNeg(b))
RMul(a, b) == RMake(a.neg # b.neg, BNMul(a.num, b.num), BNMul(a.den, b.den))
RQuo(a, b) == RMake(a.neg # b.neg, BNMul(a.num, b.den), BNMul(a.den, b.num))   \* b # 0
\* -1, 0, 1
RCmp(a, b) ==
    IF a.den = b.den THEN SICmp(RNum(a), RNum(b))
    ELSE SICmp(SI(a.neg, BNMul(a.num, b.den)), SI(b.neg, BNMul(b.num, a.den)))
REq(a, b) == a = b               \* canonical representation

\* m * 2^e and m * 10^e for a signed integer m and a native (possibly negative) exponent e
RScale2(m, e) == IF e >= 0 THEN RFromSI(SIShl(m, e)) ELSE RMake(m.neg, m.mag, BNPow2(-e))
RScale10(m, e) == IF e >= 0 THEN RFromSI(SIMul(m, SI(FALSE, BNPow10(e))))
                  ELSE RMake(m.neg, m.mag, BNPow10(-e))

\* floor(log2(|r|)) for r # 0
RFloorLog2(r) ==
    LET e0 == BNBitLen(r.num) - BNBitLen(r.den)
        ge == IF e0 >= 0 THEN BNGe(r.num, BNShl(r.den, e0)) ELSE BNGe(BNShl(r.num, -e0), r.den)
    IN IF ge THEN e0 ELSE e0 - 1

\* q * 2^qe in lowest terms (q natural, qe native)
RECURSIVE RDyadic(_, _, _)
RDyadic(neg, q, qe) ==
    IF q = <<>> THEN RZero
    ELSE IF qe >= 0 THEN [neg |-> neg, num |-> BNShl(q, qe), den |-> BNOne]
    ELSE IF ~BNIsOdd(q) THEN RDyadic(neg, BNDivModSmall(q, 2)[1], qe + 1)
    ELSE [neg |-> neg, num |-> q, den |-> BNPow2(-qe)]

\* IEEE-754 round-to-nearest-even of r to a binary format with p significand bits, minimum
\* normal exponent emin and maximum exponent emax (binary32: 24, -126, 127; binary64: 53,
\* -1022, 1023).  Result: [ok |-> TRUE, v |-> rounded rational] or [ok |-> FALSE] on overflow
\* (rounds to infinity).  Subnormals and underflow to zero are handled by clamping the quantum.
RRoundBin(r, p, emin, emax) ==
    IF r.num = <<>> THEN [ok |-> TRUE, v |-> RZero]
    ELSE LET e == RFloorLog2(r)
             qe == IF e - (p - 1) >= emin - (p - 1) THEN e - (p - 1) ELSE emin - (p - 1)
             nn == IF qe <= 0 THEN BNShl(r.num, -qe) ELSE r.num
             dd == IF qe <= 0 THEN r.den ELSE BNShl(r.den, qe)
             qr == BNDivMod(nn, dd)
             c == BNCmp(BNShl(qr[2], 1), dd)
             up == c = 1 \/ (c = 0 /\ BNIsOdd(qr[1]))
             q == IF up THEN BNAdd(qr[1], BNOne) ELSE qr[1]
             \* overflow iff q * 2^qe >= 2^(emax+1)  (for e <= emax: qe <= emax - p + 1)
             over == e > emax \/ BNGe(q, BNPow2(emax + 1 - qe))
         IN IF over THEN [ok |-> FALSE] ELSE [ok |-> TRUE, v |-> RDyadic(r.neg, q, qe)]

RStrNum(r) == BNStr(r.num)
RStrDen(r) == BNStr(r.den)

----------------------------------------------------------------------------
(* Anchors (M) against native integers: x, y native, |x|,|y| small enough that x*y fits *)
RECURSIVE AbsN(_)
AbsN(x) == IF x < 0 THEN -x ELSE x
QuoN(x, y) == LET q == AbsN(x) \div AbsN(y) IN IF (x < 0) # (y < 0) THEN -q ELSE q
RemN(x, y) == x - y * QuoN(x, y)
FloorDivN(x, m) == x \div m        \* TLC's \div is floor division for positive m

\* two's complement reference on a window of W bits (W large enough for the operands)
ToTC(x, W) == IF x < 0 THEN Pow2Native(W) + x ELSE x
FromTC(u, W) == IF u >= Pow2Native(W - 1) THEN u - Pow2Native(W) ELSE u

SIAnchorPair(x, y) ==
    LET a == SIFromInt(x)
        b == SIFromInt(y)
        W == 14     \* |x|,|y| < 2^12 in the bitwise anchor
    IN /\ SIToInt(a) = x
       /\ SIToInt(SIAdd(a, b)) = x + y
       /\ SIToInt(SISub(a, b)) = x - y
       /\ SIToInt(SIMul(a, b)) = x * y
       /\ SICmp(a, b) = (IF x = y THEN 0 ELSE IF x > y THEN 1 ELSE -1)
       /\ (y # 0 => SIToInt(SIQuo(a, b)) = QuoN(x, y) /\ SIToInt(SIRem(a, b)) = RemN(x, y))
       /\ SIToInt(SINot(a)) = -x - 1
       /\ \A k \in {0, 1, 2, 5} : SIToInt(SIShr(a, k)) = FloorDivN(x, Pow2Native(k))
       /\ \A k \in {0, 1, 3} : SIToInt(SIShl(a, k)) = x * Pow2Native(k)
       /\ (AbsN(x) < 4096 /\ AbsN(y) < 4096 =>
             /\ SIToInt(SIAnd(a, b)) = FromTC(AndNative(ToTC(x, W), ToTC(y, W)), W)
             /\ SIToInt(SIOr(a, b)) = FromTC(OrNative(ToTC(x, W), ToTC(y, W)), W)
             /\ SIToInt(SIXor(a, b)) = FromTC(XorNative(ToTC(x, W), ToTC(y, W)), W)
             /\ SIToInt(SIAndNot(a, b)) =
                  FromTC(ToTC(x, W) - AndNative(ToTC(x, W), ToTC(y, W)), W))
       /\ SIStr(a) = ToString(x)

\* rationals x/y and u/v with native components (y, v > 0)
RAnchorQuad(x, y, u, v) ==
    LET a == RMake(x < 0, BNFromInt(AbsN(x)), BNFromInt(y))
        b == RMake(u < 0, BNFromInt(AbsN(u)), BNFromInt(v))
        Val(r, n, d) == \* r = n/d as rationals (d > 0)
            SIToInt(RNum(r)) * d = n * BNToInt(r.den) /\ BNToInt(BNGcd(r.num, r.den)) <= 1
    IN /\ Val(a, x, y) /\ Val(b, u, v)
       /\ Val(RAdd(a, b), x * v + u * y, y * v)
       /\ Val(RSub(a, b), x * v - u * y, y * v)
       /\ Val(RMul(a, b), x * u, y * v)
       /\ (u # 0 => Val(RQuo(a, b), (IF u < 0 THEN -1 ELSE 1) * x * v, y * AbsN(u)))
       /\ RCmp(a, b) = (IF x * v = u * y THEN 0 ELSE IF x * v > u * y THEN 1 ELSE -1)
       /\ (x # 0 => LET e == RFloorLog2(a) IN
                    IF e >= 0 THEN Pow2Native(e) * y <= AbsN(x) /\ AbsN(x) < Pow2Native(e + 1) * y
                    ELSE y <= AbsN(x) * Pow2Native(-e) /\ AbsN(x) * Pow2Native(-e) < 2 * y)

\* rounding anchor: a toy binary format with p = 4 significand bits, emin = -2, emax = 3
\* (largest finite value 15 * 2^0 = 15; quantum never below 2^-5): the result must be the
\* multiple of the quantum nearest to x/y, ties to the even multiple.
RAnchorRound(x, y) ==
    LET r == RMake(FALSE, BNFromInt(x), BNFromInt(y))
        res == RRoundBin(r, 4, -2, 3)
        \* reference by exhaustive search over the representable grid m * 2^qe, in units of 1/32
        Grid == {m * Pow2Native(k) : m \in 0..15, k \in 0..5}      \* values * 32
        X32n == 32 * x                                                  \* x/y * 32 = X32n / y
        Dist(g) == AbsN(g * y - X32n)                                   \* |g - x*32/y| * y
        Best == {g \in Grid : \A h \in Grid : Dist(g) <= Dist(h)}
        \* tie -> even significand at the finer quantum: choose the g whose m is even
        Even(g) == \E k \in 0..5 : g % Pow2Native(k) = 0 /\ (g \div Pow2Native(k)) % 2 = 0
                                   /\ (g \div Pow2Native(k)) <= 15
                                   /\ (k = 0 \/ (g \div Pow2Native(k)) >= 8)
    IN IF x * 2 >= 31 * y       \* >= 15.5 rounds to 16 = overflow
       THEN ~res.ok
       ELSE /\ res.ok
            /\ LET g == SIToInt(RNum(res.v)) * (32 \div BNToInt(res.v.den)) IN
               /\ 32 % BNToInt(res.v.den) = 0
               /\ g \in Best
               /\ (\A h \in Best : h = g) \/ Even(g) \/ g = 0
=============================================================================

------------------------------- MODULE BitVec -------------------------------
(***************************************************************************)
(* Fixed-width two's-complement integers for widths of 1, 2, 4, 8 (and, for *)
(* exactness tests, 16) bytes.  TLC integers are 32-bit, therefore a value  *)
(* is a little-endian sequence of bytes (0..255); its length K is the width *)
(* in bytes.  One generic code path serves every width: the (M) check in    *)
(* BitVecMC.tla compares every operator with the direct definition on       *)
(* Integers at widths 8 (all operand pairs) and 16 (boundary pairs), which  *)
(* anchors exactly the code that is used at 32 and 64 bits.                 *)
(*                                                                          *)
(* Go semantics (The Go Programming Language Specification, "Arithmetic     *)
(* operators", "Integer overflow"): + - * << wrap around; / truncates       *)
(* towards zero and x = (x/y)*y + x%y; MinInt / -1 = MinInt, MinInt % -1 = 0;*)
(* >> is arithmetic on signed and logical on unsigned operands; a shift     *)
(* count >= width gives 0 (or -1 for >> of a negative signed operand).      *)
(***************************************************************************)
EXTENDS Naturals, Integers, Sequences

---------------------------------------------------------------------------
(* construction *)

BVZero(K) == [i \in 1..K |-> 0]
BVOnes(K) == [i \in 1..K |-> 255]

RECURSIVE BVFromNat(_, _)       \* n >= 0 (a TLC integer), truncated to K bytes
BVFromNat(K, n) == IF K = 0 THEN <<>> ELSE <<n % 256>> \o BVFromNat(K - 1, n \div 256)

BVIsNeg(a) == a[Len(a)] >= 128

\* sign (sg = TRUE) or zero extension / truncation to K2 bytes
BVExt(a, K2, sg) ==
    LET fill == IF sg /\ BVIsNeg(a) THEN 255 ELSE 0
    IN [i \in 1..K2 |-> IF i <= Len(a) THEN a[i] ELSE fill]

---------------------------------------------------------------------------
(* addition, subtraction, negation *)

RECURSIVE BVAddFrom(_, _, _, _)
BVAddFrom(a, b, i, c) ==
    IF i > Len(a) THEN <<>>
    ELSE LET s == a[i] + b[i] + c
         IN <<s % 256>> \o BVAddFrom(a, b, i + 1, s \div 256)

BVNot(a)    == [i \in 1..Len(a) |-> 255 - a[i]]
BVAdd(a, b) == BVAddFrom(a, b, 1, 0)
BVSub(a, b) == BVAddFrom(a, BVNot(b), 1, 1)
BVNeg(a)    == BVAddFrom(BVZero(Len(a)), BVNot(a), 1, 1)

BVFromInt(K, n) == IF n >= 0 THEN BVFromNat(K, n) ELSE BVNeg(BVFromNat(K, 0 - n))

---------------------------------------------------------------------------
(* bitwise operators, one byte at a time through a 16 x 16 table of nibbles *)

RECURSIVE BVAndBits(_, _, _)
BVAndBits(x, y, n) == IF n = 0 THEN 0
                      ELSE (x % 2) * (y % 2) + 2 * BVAndBits(x \div 2, y \div 2, n - 1)
BVNibbleAnd == [x \in 0..15 |-> [y \in 0..15 |-> BVAndBits(x, y, 4)]]
BVByteAnd(x, y) == BVNibbleAnd[x % 16][y % 16] + 16 * BVNibbleAnd[x \div 16][y \div 16]

BVAnd(a, b)    == [i \in 1..Len(a) |-> BVByteAnd(a[i], b[i])]
BVOr(a, b)     == [i \in 1..Len(a) |-> a[i] + b[i] - BVByteAnd(a[i], b[i])]
BVXor(a, b)    == [i \in 1..Len(a) |-> a[i] + b[i] - 2 * BVByteAnd(a[i], b[i])]
BVAndNot(a, b) == [i \in 1..Len(a) |-> a[i] - BVByteAnd(a[i], b[i])]

---------------------------------------------------------------------------
(* multiplication (schoolbook, truncated to the operand width) *)

RECURSIVE BVMulRowFrom(_, _, _, _)       \* low Len(a) bytes of a * d, d a byte
BVMulRowFrom(a, d, i, c) ==
    IF i > Len(a) THEN <<>>
    ELSE LET p == a[i] * d + c
         IN <<p % 256>> \o BVMulRowFrom(a, d, i + 1, p \div 256)

BVShlBytes(a, q) == [i \in 1..Len(a) |-> IF i > q THEN a[i - q] ELSE 0]

RECURSIVE BVMulAcc(_, _, _, _)
BVMulAcc(a, b, j, acc) ==
    IF j > Len(b) THEN acc
    ELSE BVMulAcc(a, b, j + 1,
                  IF b[j] = 0 THEN acc
                  ELSE BVAdd(acc, BVShlBytes(BVMulRowFrom(a, b[j], 1, 0), j - 1)))

BVMul(a, b) == BVMulAcc(a, b, 1, BVZero(Len(a)))

---------------------------------------------------------------------------
(* comparison *)

RECURSIVE BVULessFrom(_, _, _)           \* from the most significant byte down
BVULessFrom(a, b, i) ==
    IF i = 0 THEN FALSE
    ELSE IF a[i] < b[i] THEN TRUE
    ELSE IF a[i] > b[i] THEN FALSE
    ELSE BVULessFrom(a, b, i - 1)

BVULess(a, b) == BVULessFrom(a, b, Len(a))
\* signed order = unsigned order after flipping the sign bit
BVFlip(a) == [i \in 1..Len(a) |-> IF i = Len(a) THEN (a[i] + 128) % 256 ELSE a[i]]
BVSLess(a, b) == BVULess(BVFlip(a), BVFlip(b))
BVLess(a, b, sg) == IF sg THEN BVSLess(a, b) ELSE BVULess(a, b)

---------------------------------------------------------------------------
(* shifts by a natural number n (n already known to be non-negative) *)

BVPow2(r) == CASE r = 0 -> 1 [] r = 1 -> 2 [] r = 2 -> 4 [] r = 3 -> 8 [] r = 4 -> 16
               [] r = 5 -> 32 [] r = 6 -> 64 [] r = 7 -> 128 [] r = 8 -> 256

BVShlN(a, n) ==
    LET K == Len(a) IN
    IF n >= 8 * K THEN BVZero(K)
    ELSE LET q == n \div 8
             r == n % 8
             At(i) == IF i >= 1 THEN a[i] ELSE 0
         IN [i \in 1..K |-> ((At(i - q) * BVPow2(r)) % 256) + ((At(i - q - 1) * BVPow2(r)) \div 256)]

\* fill = 0 (logical) or 255 (arithmetic shift of a negative value)
BVShrFill(a, n, fill) ==
    LET K == Len(a) IN
    IF n >= 8 * K THEN [i \in 1..K |-> fill]
    ELSE LET q == n \div 8
             r == n % 8
             At(i) == IF i <= K THEN a[i] ELSE fill
         IN [i \in 1..K |-> (At(i + q) \div BVPow2(r)) + ((At(i + q + 1) * BVPow2(8 - r)) % 256)]

BVShrN(a, n, sg) == BVShrFill(a, n, IF sg /\ BVIsNeg(a) THEN 255 ELSE 0)

\* A shift count is itself a bit vector c of some integer kind (csg: signed).
\* BVCountNeg: the count is negative;  BVCountBig(c, w): count >= w (w <= 255);
\* otherwise the count is c[1].
BVCountNeg(c, csg) == csg /\ BVIsNeg(c)
BVCountBig(c, w)   == c[1] >= w \/ \E i \in 2..Len(c) : c[i] # 0
BVShl(a, c)     == IF BVCountBig(c, 8 * Len(a)) THEN BVZero(Len(a)) ELSE BVShlN(a, c[1])
BVShr(a, c, sg) == IF BVCountBig(c, 8 * Len(a)) THEN BVShrN(a, 8 * Len(a), sg) ELSE BVShrN(a, c[1], sg)

---------------------------------------------------------------------------
(* division: restoring shift-and-subtract on K+1 byte remainders *)

BVBit(a, i) == (a[(i \div 8) + 1] \div BVPow2(i % 8)) % 2       \* bit i, 0 = least significant
BVSetBit(a, i) == [a EXCEPT ![(i \div 8) + 1] = @ + BVPow2(i % 8)]

RECURSIVE BVShl1From(_, _, _)            \* (a << 1) | carry-in, same length
BVShl1From(a, i, c) ==
    IF i > Len(a) THEN <<>>
    ELSE <<((2 * a[i]) % 256) + c>> \o BVShl1From(a, i + 1, a[i] \div 128)

RECURSIVE BVDivStep(_, _, _, _, _)
BVDivStep(a, bx, i, q, r) ==
    IF i < 0 THEN <<q, SubSeq(r, 1, Len(a))>>
    ELSE LET r2 == BVShl1From(r, 1, BVBit(a, i))
         IN IF BVULess(r2, bx)
            THEN BVDivStep(a, bx, i - 1, q, r2)
            ELSE BVDivStep(a, bx, i - 1, BVSetBit(q, i), BVSub(r2, bx))

\* index of the most significant non-zero byte (0 for the value zero)
RECURSIVE BVTopByte(_, _)
BVTopByte(a, i) == IF i = 0 THEN 0 ELSE IF a[i] # 0 THEN i ELSE BVTopByte(a, i - 1)

\* unsigned quotient and remainder, b # 0:  <<q, r>>.  The leading zero bytes of the
\* dividend contribute nothing: the loop starts at its most significant non-zero byte.
BVUDivMod(a, b) ==
    LET K == Len(a)
    IN BVDivStep(a, BVExt(b, K + 1, FALSE), 8 * BVTopByte(a, K) - 1, BVZero(K), BVZero(K + 1))

BVAbs(a) == IF BVIsNeg(a) THEN BVNeg(a) ELSE a   \* as an unsigned value (|MinInt| = 2^(w-1) fits)

\* signed quotient / remainder, b # 0.  trunc = TRUE is Go (and C99): the quotient is
\* truncated towards zero, the remainder has the sign of the dividend.  trunc = FALSE is
\* the BROKEN variant used by the self-test (floored division: sign fix-up removed).
BVSDivModT(a, b, trunc) ==
    LET qr == BVUDivMod(BVAbs(a), BVAbs(b))
        qn == BVIsNeg(a) # BVIsNeg(b)
        q0 == IF qn THEN BVNeg(qr[1]) ELSE qr[1]
        r0 == IF BVIsNeg(a) THEN BVNeg(qr[2]) ELSE qr[2]
    IN IF trunc \/ ~qn \/ r0 = BVZero(Len(a)) THEN <<q0, r0>>
       ELSE <<BVSub(q0, BVFromNat(Len(a), 1)), BVAdd(r0, b)>>

BVSDivMod(a, b) == BVSDivModT(a, b, TRUE)

BVQuo(a, b, sg) == IF sg THEN BVSDivMod(a, b)[1] ELSE BVUDivMod(a, b)[1]
BVRem(a, b, sg) == IF sg THEN BVSDivMod(a, b)[2] ELSE BVUDivMod(a, b)[2]

---------------------------------------------------------------------------
(* exactness: is the mathematical result representable in K bytes?  Used for *)
(* typed CONSTANT expressions, which Go evaluates exactly and rejects when   *)
(* the result overflows the type.  Computed by widening to 2K bytes.         *)

BVFits(wide, K, sg) == BVExt(SubSeq(wide, 1, K), Len(wide), sg) = wide

BVAddExact(a, b, sg) == BVFits(BVAdd(BVExt(a, 2 * Len(a), sg), BVExt(b, 2 * Len(a), sg)), Len(a), sg)
BVSubExact(a, b, sg) == BVFits(BVSub(BVExt(a, 2 * Len(a), sg), BVExt(b, 2 * Len(a), sg)), Len(a), sg)
BVMulExact(a, b, sg) == BVFits(BVMul(BVExt(a, 2 * Len(a), sg), BVExt(b, 2 * Len(a), sg)), Len(a), sg)
BVNegExact(a, sg)    == BVFits(BVNeg(BVExt(a, 2 * Len(a), sg)), Len(a), sg)
\* a << c is exact iff shifting the truncated result back returns a
BVShlExact(a, c, sg) == IF BVCountBig(c, 8 * Len(a)) THEN a = BVZero(Len(a))
                        ELSE BVShrN(BVShlN(a, c[1]), c[1], sg) = a
BVMin(K) == [i \in 1..K |-> IF i = K THEN 128 ELSE 0]
BVMax(K) == [i \in 1..K |-> IF i = K THEN 127 ELSE 255]
BVQuoExact(a, b, sg) == ~(sg /\ a = BVMin(Len(a)) /\ b = BVOnes(Len(a)))
=============================================================================

------------------------------ MODULE BitVecMC ------------------------------
(***************************************************************************)
(* (M) check of BitVec: every limb operator equals the direct definition   *)
(* on Integers, Wrap(w, a op b), on ALL operand pairs at width 8 and on    *)
(* boundary pairs at width 16 (two limbs: carries, borrows, cross-limb     *)
(* shifts, multi-limb division).  The definitions on the right-hand sides  *)
(* are the Go specification's: wrap-around modulo 2^w, quotient truncated  *)
(* towards zero with x = q*y + r and |r| < |y|, shifts as multiplication / *)
(* floored division by 2^n.                                                *)
(*                                                                         *)
(* State: (lvl, hi, x).  Level 1 fans out over 16 values so that TLC       *)
(* workers share the load; level 2 fixes the left operand a; the invariant *)
(* quantifies over every right operand b.                                  *)
(***************************************************************************)
EXTENDS BitVec, TLC

CONSTANTS Trunc,    \* TRUE: Go's truncated division (the specification).  FALSE: broken variant
          W16       \* TRUE: also check width 16 on boundary pairs

VARIABLES lvl, hi, x
vars == <<lvl, hi, x>>

Init == lvl = 0 /\ hi = 0 /\ x = 0
Next == \/ lvl = 0 /\ \E h \in 0..15 : lvl' = 1 /\ hi' = h /\ x' = 0
        \/ lvl = 1 /\ \E l \in 0..15 : lvl' = 2 /\ hi' = hi /\ x' = hi * 16 + l
Spec == Init /\ [][Next]_vars

---------------------------------------------------------------------------
(* direct definitions on Integers; N = 2^w *)

Abs(n) == IF n < 0 THEN 0 - n ELSE n
RECURSIVE Pow2R(_)
Pow2R(n) == IF n = 0 THEN 1 ELSE 2 * Pow2R(n - 1)
Pow2Tab == [n \in 0..30 |-> Pow2R(n)]
Pow2(n) == Pow2Tab[n]

ToNat(a)  == IF Len(a) = 1 THEN a[1] ELSE a[1] + 256 * a[2]
ToInt(a)  == IF BVIsNeg(a) THEN ToNat(a) - Pow2(8 * Len(a)) ELSE ToNat(a)
Val(a, sg) == IF sg THEN ToInt(a) ELSE ToNat(a)
Wrap(K, n) == BVFromNat(K, n % Pow2(8 * K))      \* % is the mathematical modulus (result >= 0)

\* the Go specification's integer quotient: truncated towards zero
TQuo(p, q) == IF (p < 0) = (q < 0) THEN Abs(p) \div Abs(q) ELSE 0 - (Abs(p) \div Abs(q))
TRem(p, q) == p - TQuo(p, q) * q
\* ... which is the unique (qq, rr) with p = qq*q + rr, |rr| < |q|, rr = 0 or sign(rr) = sign(p)
QuoLaw(p, q) == LET qq == TQuo(p, q)
                    rr == TRem(p, q)
                IN p = qq * q + rr /\ Abs(rr) < Abs(q) /\ (rr = 0 \/ (rr < 0) = (p < 0))

RECURSIVE AndDef(_, _, _)
AndDef(p, q, n) == IF n = 0 THEN 0 ELSE (p % 2) * (q % 2) + 2 * AndDef(p \div 2, q \div 2, n - 1)

\* floor(p / 2^n) for any integer p (arithmetic shift right)
FloorDivPow2(p, n) == IF p >= 0 THEN p \div Pow2(n) ELSE 0 - ((0 - p + Pow2(n) - 1) \div Pow2(n))

\* product modulo 2^16 without leaving 32-bit integers
MulMod(K, p, q) == IF K = 1 THEN (p * q) % 256
                   ELSE ((p % 256) * q + 256 * (((p \div 256) * q) % 256)) % 65536

---------------------------------------------------------------------------

Counts(K) == 0..(8 * K + 2)

PairOK(K, a, b) ==
    LET pa == ToNat(a)
        pb == ToNat(b)
        sa == ToInt(a)
        sb == ToInt(b)
        N  == Pow2(8 * K)
        ab == AndDef(pa, pb, 8 * K)
    IN /\ BVAdd(a, b) = Wrap(K, pa + pb)
       /\ BVSub(a, b) = Wrap(K, pa - pb)
       /\ BVMul(a, b) = BVFromNat(K, MulMod(K, pa, pb))
       /\ BVAnd(a, b) = BVFromNat(K, ab)
       /\ BVOr(a, b) = BVFromNat(K, pa + pb - ab)
       /\ BVXor(a, b) = BVFromNat(K, pa + pb - 2 * ab)
       /\ BVAndNot(a, b) = BVFromNat(K, pa - ab)
       /\ BVULess(a, b) = (pa < pb)
       /\ BVSLess(a, b) = (sa < sb)
       /\ (a = b) = (pa = pb)
       /\ BVAddExact(a, b, TRUE) = (sa + sb >= 0 - (N \div 2) /\ sa + sb < N \div 2)
       /\ BVAddExact(a, b, FALSE) = (pa + pb < N)
       /\ BVSubExact(a, b, TRUE) = (sa - sb >= 0 - (N \div 2) /\ sa - sb < N \div 2)
       /\ BVSubExact(a, b, FALSE) = (pa >= pb)
       /\ (K = 1 => /\ BVMulExact(a, b, TRUE) = (sa * sb >= 0 - 128 /\ sa * sb < 128)
                    /\ BVMulExact(a, b, FALSE) = (pa * pb < 256))
       /\ (K = 2 => /\ BVMulExact(a, b, TRUE) = (sa * sb >= 0 - 32768 /\ sa * sb < 32768)   \* |sa*sb| <= 2^30
                    /\ (pa < 32768 => BVMulExact(a, b, FALSE) = (pa * pb < 65536)))         \* pa*pb < 2^31
       /\ (pb # 0 =>
             /\ BVUDivMod(a, b) = <<BVFromNat(K, pa \div pb), BVFromNat(K, pa % pb)>>
             /\ QuoLaw(sa, sb)
             /\ BVSDivModT(a, b, Trunc) = <<Wrap(K, TQuo(sa, sb)), Wrap(K, TRem(sa, sb))>>
             /\ BVQuoExact(a, b, TRUE) = (TQuo(sa, sb) < N \div 2))

UnaryOK(K, a) ==
    LET pa == ToNat(a)
        sa == ToInt(a)
        N  == Pow2(8 * K)
    IN /\ BVNot(a) = BVFromNat(K, N - 1 - pa)
       /\ BVNeg(a) = Wrap(K, 0 - pa)
       /\ BVFromInt(K, sa) = a
       /\ BVNegExact(a, TRUE) = (sa # 0 - (N \div 2))
       /\ BVNegExact(a, FALSE) = (pa = 0)
       /\ BVAbs(a) = Wrap(K, Abs(sa))
       /\ Len(BVExt(a, K + 1, TRUE)) = K + 1 /\ BVIsNeg(BVExt(a, K + 1, TRUE)) = (sa < 0)
       /\ \A n \in Counts(K) :
             /\ BVShlN(a, n) = (IF n >= 8 * K THEN BVZero(K) ELSE BVFromNat(K, (pa % Pow2(8 * K - n)) * Pow2(n)))
             /\ BVShrN(a, n, FALSE) = BVFromNat(K, pa \div Pow2(n))
             /\ BVShrN(a, n, TRUE) = Wrap(K, FloorDivPow2(sa, n))
             /\ BVShlExact(a, BVFromNat(2, n), FALSE) = ((n >= 8 * K => pa = 0) /\ (n < 8 * K => pa < Pow2(8 * K - n)))
             /\ BVShlExact(a, BVFromNat(2, n), TRUE) =
                   (IF sa >= 0 THEN (IF n >= 8 * K - 1 THEN sa = 0 ELSE sa < Pow2(8 * K - 1 - n))
                    ELSE (n < 8 * K /\ 0 - sa <= Pow2(8 * K - 1 - n)))
       \* shift counts given as bit vectors of another kind
       /\ \A c \in {<<0>>, <<7>>, <<8>>, <<15>>, <<16>>, <<17>>, <<255>>, <<0, 1>>, <<3, 0>>, <<3, 128>>, <<255, 255>>,
                    <<9, 0, 0, 0>>, <<9, 0, 0, 1>>, <<1, 0, 0, 0, 0, 0, 0, 0>>, <<1, 0, 0, 0, 0, 0, 0, 128>>} :
             LET big == \E i \in 2..Len(c) : c[i] # 0
                 n   == IF big \/ c[1] >= 8 * K THEN 8 * K ELSE c[1]
             IN /\ BVShl(a, c) = BVShlN(a, n)
                /\ BVShr(a, c, TRUE) = BVShrN(a, n, TRUE)
                /\ BVShr(a, c, FALSE) = BVShrN(a, n, FALSE)
                /\ BVCountNeg(c, TRUE) = (c[Len(c)] >= 128)
                /\ ~BVCountNeg(c, FALSE)

\* width 8: every pair
All8 == lvl = 2 => /\ UnaryOK(1, <<x>>)
                   /\ \A b \in 0..255 : PairOK(1, <<x>>, <<b>>)

\* width 16: boundary values (carry / borrow / sign / cross-limb cases)
B16 == {0, 1, 2, 3, 127, 128, 129, 255, 256, 257, 511, 4660, 21845, 32766, 32767, 32768, 32769,
        43690, 65024, 65279, 65280, 65281, 65407, 65408, 65534, 65535}
V16(n) == <<n % 256, n \div 256>>
\* the 256 level-2 states share the 26 x 26 pairs: state x checks left operands with index = x mod 26
RECURSIVE SetToSeq(_)
SetToSeq(S) == IF S = {} THEN <<>> ELSE LET m == CHOOSE m \in S : \A y \in S : m <= y IN <<m>> \o SetToSeq(S \ {m})
B16Seq == SetToSeq(B16)
All16 == (W16 /\ lvl = 2 /\ x < Len(B16Seq)) =>
            LET a == V16(B16Seq[x + 1])
            IN /\ UnaryOK(2, a)
               /\ \A b \in B16 : PairOK(2, a, V16(b))
=============================================================================

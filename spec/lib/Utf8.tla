-------------------------------- MODULE Utf8 --------------------------------
(***************************************************************************)
(* UTF-8 as Go defines it for string(rune), string([]rune), []rune(string) *)
(* and range-over-string (property C03).                                   *)
(*                                                                         *)
(* Code points are TLC integers (any int32 value may be *asked* to be      *)
(* encoded), byte strings are sequences of 0..255.                         *)
(*                                                                         *)
(*  Encode(r)      : UTF-8 of r; an invalid code point (negative, a        *)
(*                   surrogate half D800..DFFF, > 10FFFF) yields the       *)
(*                   encoding of U+FFFD.                                   *)
(*  Decode(s)      : the DEFINITION: a maximal well-formed sequence        *)
(*                   (shortest form, not a surrogate, <= 10FFFF) yields    *)
(*                   its code point; otherwise ONE byte is consumed and    *)
(*                   yields U+FFFD (Go: "each invalid byte -> U+FFFD").    *)
(*  DecodeTab(s)   : the table-driven decoder of Go's unicode/utf8         *)
(*                   (first-byte class + accept range of the second byte); *)
(*                   Conv.tla checks (M) DecodeTab = Decode.               *)
(* Utf8Broken = "surrogates" is the broken variant: the definition forgets *)
(* to exclude surrogate halves.                                            *)
(***************************************************************************)
EXTENDS Integers, Sequences

CONSTANT Utf8Broken      \* "none" | "surrogates"

RuneError == 65533
MaxRune == 1114111
IsSurrogate(r) == r >= 55296 /\ r <= 57343
ValidRune(r) == /\ r >= 0
                /\ r <= MaxRune
                /\ (Utf8Broken = "surrogates" \/ ~IsSurrogate(r))

EncodeValid(r) ==
    IF r < 128 THEN <<r>>
    ELSE IF r < 2048 THEN <<192 + r \div 64, 128 + (r % 64)>>
    ELSE IF r < 65536 THEN <<224 + r \div 4096, 128 + ((r \div 64) % 64), 128 + (r % 64)>>
    ELSE <<240 + r \div 262144, 128 + ((r \div 4096) % 64), 128 + ((r \div 64) % 64), 128 + (r % 64)>>

Encode(r) == IF ValidRune(r) THEN EncodeValid(r) ELSE EncodeValid(RuneError)

RECURSIVE EncodeAll(_)
EncodeAll(rs) == IF rs = <<>> THEN <<>> ELSE Encode(rs[1]) \o EncodeAll(Tail(rs))

---------------------------------------------------------------------------
(* the definition of decoding *)

IsCont(b) == b >= 128 /\ b <= 191

SeqLen(b0) == IF b0 < 128 THEN 1
              ELSE IF b0 >= 192 /\ b0 < 224 THEN 2
              ELSE IF b0 >= 224 /\ b0 < 240 THEN 3
              ELSE IF b0 >= 240 /\ b0 < 248 THEN 4
              ELSE 0
MinCp(n) == CASE n = 1 -> 0 [] n = 2 -> 128 [] n = 3 -> 2048 [] n = 4 -> 65536

Payload(s, n) ==
    CASE n = 2 -> (s[1] - 192) * 64 + (s[2] - 128)
      [] n = 3 -> (s[1] - 224) * 4096 + (s[2] - 128) * 64 + (s[3] - 128)
      [] n = 4 -> (s[1] - 240) * 262144 + (s[2] - 128) * 4096 + (s[3] - 128) * 64 + (s[4] - 128)

\* <<rune, width>> of the first rune of a non-empty byte string
DecodeFirst(s) ==
    LET n == SeqLen(s[1]) IN
    IF n = 1 THEN <<s[1], 1>>
    ELSE IF n = 0 \/ Len(s) < n THEN <<RuneError, 1>>
    ELSE IF \E i \in 2..n : ~IsCont(s[i]) THEN <<RuneError, 1>>
    ELSE LET cp == Payload(s, n)
         IN IF cp < MinCp(n) \/ ~ValidRune(cp) THEN <<RuneError, 1>> ELSE <<cp, n>>

RECURSIVE Decode(_)
Decode(s) == IF s = <<>> THEN <<>>
             ELSE LET f == DecodeFirst(s) IN <<f[1]>> \o Decode(SubSeq(s, f[2] + 1, Len(s)))

---------------------------------------------------------------------------
(* Go's unicode/utf8 decoder: table `first` and `acceptRanges` *)

TabLen(b0) == IF b0 < 128 THEN 1
              ELSE IF b0 >= 194 /\ b0 <= 223 THEN 2
              ELSE IF b0 >= 224 /\ b0 <= 239 THEN 3
              ELSE IF b0 >= 240 /\ b0 <= 244 THEN 4
              ELSE 0                                   \* 80..C1, F5..FF: invalid
Lo2(b0) == IF b0 = 224 THEN 160 ELSE IF b0 = 240 THEN 144 ELSE 128
Hi2(b0) == IF b0 = 237 THEN 159 ELSE IF b0 = 244 THEN 143 ELSE 191

DecodeFirstTab(s) ==
    LET b0 == s[1]
        n  == TabLen(b0)
    IN IF n = 1 THEN <<b0, 1>>
       ELSE IF n = 0 \/ Len(s) < n THEN <<RuneError, 1>>
       ELSE IF s[2] < Lo2(b0) \/ s[2] > Hi2(b0) THEN <<RuneError, 1>>
       ELSE IF n = 2 THEN <<Payload(s, 2), 2>>
       ELSE IF ~IsCont(s[3]) THEN <<RuneError, 1>>
       ELSE IF n = 3 THEN <<Payload(s, 3), 3>>
       ELSE IF ~IsCont(s[4]) THEN <<RuneError, 1>>
       ELSE <<Payload(s, 4), 4>>

RECURSIVE DecodeTab(_)
DecodeTab(s) == IF s = <<>> THEN <<>>
                ELSE LET f == DecodeFirstTab(s) IN <<f[1]>> \o DecodeTab(SubSeq(s, f[2] + 1, Len(s)))

---------------------------------------------------------------------------
(* laws checked by TLC (instantiated over chunks by Conv.tla) *)

RoundTrip(r) == ValidRune(r) => Decode(Encode(r)) = <<r>> /\ DecodeTab(Encode(r)) = <<r>>
InvalidToError(r) == ~(r >= 0 /\ r <= MaxRune /\ ~IsSurrogate(r)) => Encode(r) = <<239, 191, 189>>
DecodeAgrees(s) == Decode(s) = DecodeTab(s)
NoSurrogateOut(s) == LET d == Decode(s) IN \A i \in 1..Len(d) : ~IsSurrogate(d[i])
=============================================================================

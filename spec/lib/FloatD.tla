------------------------------- MODULE FloatD -------------------------------
(***************************************************************************)
(* An EXACT model of IEEE-754 binary32 / binary64 arithmetic (round to     *)
(* nearest, ties to even) on a sub-domain: NaN, +-Inf, +-0 and the dyadic  *)
(* rationals  (-1)^s * m * 2^e  with m odd, 0 < m < 2^30 (TLC integers are *)
(* 32-bit) and a normal exponent.                                          *)
(*                                                                         *)
(* An operation whose exact result cannot be produced inside the domain    *)
(* (not dyadic: 1/3; needs more than 30 bits; needs rounding at binary64;  *)
(* subnormal) returns FSkip: the generator does not emit such a case       *)
(* instead of approximating it.  At binary32 one exact round-to-nearest-   *)
(* even step from at most 30 to 24 bits is modelled (2^24 + 1 -> 2^24).    *)
(*                                                                         *)
(* A value is a record [c, s, m, e]: c in {"nan","inf","zero","fin"},      *)
(* s = 1 for negative; m, e only meaningful for "fin" (m odd).             *)
(***************************************************************************)
EXTENDS Naturals, Integers

FNaN     == [c |-> "nan",  s |-> 0, m |-> 0, e |-> 0]
FInf(s)  == [c |-> "inf",  s |-> s, m |-> 0, e |-> 0]
FZero(s) == [c |-> "zero", s |-> s, m |-> 0, e |-> 0]
FSkip    == [c |-> "skip", s |-> 0, m |-> 0, e |-> 0]

FPrec(fmt) == IF fmt = "float32" THEN 24 ELSE 53
FEmax(fmt) == IF fmt = "float32" THEN 127 ELSE 1023
FEmin(fmt) == IF fmt = "float32" THEN 0 - 126 ELSE 0 - 1022

RECURSIVE FPow2(_)
FPow2(n) == IF n = 0 THEN 1 ELSE 2 * FPow2(n - 1)        \* n <= 30
RECURSIVE FBitLen(_)
FBitLen(m) == IF m = 0 THEN 0 ELSE 1 + FBitLen(m \div 2)

\* strip factors of two: <<m, e>> with m odd (m > 0)
RECURSIVE FNorm(_, _)
FNorm(m, e) == IF m % 2 = 1 THEN <<m, e>> ELSE FNorm(m \div 2, e + 1)

FFin(s, m, e) == LET n == FNorm(m, e) IN [c |-> "fin", s |-> s, m |-> n[1], e |-> n[2]]
\* exponent of the leading bit
FTop(x) == x.e + FBitLen(x.m) - 1

\* range check of a value whose mantissa already fits the precision
FFinish(fmt, x) ==
    IF FTop(x) > FEmax(fmt) THEN FInf(x.s)
    ELSE IF FTop(x) < FEmin(fmt) THEN FSkip       \* subnormal range: outside the domain
    ELSE x

\* the value (-1)^s * m * 2^e (m > 0, m < 2^31) rounded to the format
FRound(fmt, s, m, e) ==
    LET x == FFin(s, m, e)
        L == FBitLen(x.m)
        P == FPrec(fmt)
    IN IF L <= P THEN FFinish(fmt, x)
       ELSE LET sh   == L - P
                q    == x.m \div FPow2(sh)
                r    == x.m % FPow2(sh)
                half == FPow2(sh - 1)
                q2   == IF r > half \/ (r = half /\ q % 2 = 1) THEN q + 1 ELSE q
            IN FFinish(fmt, FFin(s, q2, x.e + sh))

FIsNaN(x) == x.c = "nan"
FNeg(x) == IF x.c = "nan" THEN x ELSE [x EXCEPT !.s = 1 - x.s]
FXorS(x, y) == IF x.s = y.s THEN 0 ELSE 1
FMin(p, q) == IF p < q THEN p ELSE q

FAdd(fmt, x, y) ==
    IF x.c = "nan" \/ y.c = "nan" THEN FNaN
    ELSE IF x.c = "inf" THEN (IF y.c = "inf" /\ y.s # x.s THEN FNaN ELSE x)
    ELSE IF y.c = "inf" THEN y
    ELSE IF x.c = "zero" THEN (IF y.c = "zero" THEN FZero(IF x.s = 1 /\ y.s = 1 THEN 1 ELSE 0) ELSE y)
    ELSE IF y.c = "zero" THEN x
    ELSE \* both finite and non-zero
         IF FTop(x) - FTop(y) >= FPrec(fmt) + 2 THEN x          \* y is below a quarter ulp of x
         ELSE IF FTop(y) - FTop(x) >= FPrec(fmt) + 2 THEN y
         ELSE LET e0 == FMin(x.e, y.e) IN
              IF FBitLen(x.m) + (x.e - e0) > 29 \/ FBitLen(y.m) + (y.e - e0) > 29 THEN FSkip
              ELSE LET mx == x.m * FPow2(x.e - e0)
                       my == y.m * FPow2(y.e - e0)
                       sum == (IF x.s = 1 THEN 0 - mx ELSE mx) + (IF y.s = 1 THEN 0 - my ELSE my)
                   IN IF sum = 0 THEN FZero(0)                    \* exact cancellation: +0 under RNE
                      ELSE IF sum < 0 THEN FRound(fmt, 1, 0 - sum, e0)
                      ELSE FRound(fmt, 0, sum, e0)

FSub(fmt, x, y) == FAdd(fmt, x, FNeg(y))

FMul(fmt, x, y) ==
    IF x.c = "nan" \/ y.c = "nan" THEN FNaN
    ELSE IF x.c = "inf" \/ y.c = "inf"
         THEN (IF x.c = "zero" \/ y.c = "zero" THEN FNaN ELSE FInf(FXorS(x, y)))
    ELSE IF x.c = "zero" \/ y.c = "zero" THEN FZero(FXorS(x, y))
    ELSE IF FBitLen(x.m) + FBitLen(y.m) > 30 THEN FSkip
    ELSE FRound(fmt, FXorS(x, y), x.m * y.m, x.e + y.e)

FQuo(fmt, x, y) ==
    IF x.c = "nan" \/ y.c = "nan" THEN FNaN
    ELSE IF x.c = "inf" THEN (IF y.c = "inf" THEN FNaN ELSE FInf(FXorS(x, y)))
    ELSE IF y.c = "inf" THEN FZero(FXorS(x, y))
    ELSE IF y.c = "zero" THEN (IF x.c = "zero" THEN FNaN ELSE FInf(FXorS(x, y)))
    ELSE IF x.c = "zero" THEN FZero(FXorS(x, y))
    ELSE IF x.m % y.m # 0 THEN FSkip                              \* quotient not dyadic (m's are odd)
    ELSE FRound(fmt, FXorS(x, y), x.m \div y.m, x.e - y.e)

\* comparison; every comparison with NaN is false except #
FMagLess(x, y) ==       \* |x| < |y|, neither NaN
    IF x.c = "inf" THEN FALSE
    ELSE IF y.c = "inf" THEN TRUE
    ELSE IF y.c = "zero" THEN FALSE
    ELSE IF x.c = "zero" THEN TRUE
    ELSE IF FTop(x) # FTop(y) THEN FTop(x) < FTop(y)
    ELSE LET e0 == FMin(x.e, y.e) IN x.m * FPow2(x.e - e0) < y.m * FPow2(y.e - e0)
FSign(x) == IF x.c = "zero" THEN 0 ELSE IF x.s = 1 THEN 0 - 1 ELSE 1
FEq(x, y) == /\ x.c # "nan" /\ y.c # "nan"
             /\ \/ x.c = "zero" /\ y.c = "zero"
                \/ x = y
FLess(x, y) == /\ x.c # "nan" /\ y.c # "nan"
               /\ \/ FSign(x) < FSign(y)
                  \/ FSign(x) = FSign(y) /\ FSign(x) = 1 /\ FMagLess(x, y)
                  \/ FSign(x) = FSign(y) /\ FSign(x) = 0 - 1 /\ FMagLess(y, x)

\* can the value be written as a Go constant?  (constants are exact numbers: no NaN, no
\* infinity, no negative zero)
FConstable(x) == x.c = "fin" \/ (x.c = "zero" /\ x.s = 0)
=============================================================================

------------------------------ MODULE ConvBits ------------------------------
(***************************************************************************)
(* Fixed-width integers and arbitrary naturals as LITTLE-ENDIAN BYTE       *)
(* SEQUENCES (TLC integers are 32-bit), used by Conv.tla (property C03).   *)
(*                                                                         *)
(*  - a Go integer of width w bytes is a sequence of w bytes, two's        *)
(*    complement;                                                          *)
(*  - a magnitude (natural number of any size) is a *trimmed* byte         *)
(*    sequence (no most-significant zero byte; zero is <<>>);              *)
(*  - a bit string is a little-endian sequence of 0/1, trimmed when its    *)
(*    last element is 1 (zero is <<>>).                                    *)
(*                                                                         *)
(* The section "Definitions over Integers" restates every operator on TLC  *)
(* integers for values < 2^24; Conv.tla checks (M) that the limb code      *)
(* equals those definitions on exhaustive 8/16-bit domains.                *)
(***************************************************************************)
EXTENDS Integers, Sequences

Rep(n, x) == [i \in 1..n |-> x]

RECURSIVE NatBytes(_, _)          \* natural (TLC int) -> exactly w bytes (wraps mod 256^w)
NatBytes(n, w) == IF w = 0 THEN <<>> ELSE <<n % 256>> \o NatBytes(n \div 256, w - 1)

RECURSIVE BytesNat(_)             \* bytes -> natural; only for values < 2^31
BytesNat(b) == IF b = <<>> THEN 0 ELSE b[1] + 256 * BytesNat(Tail(b))

RECURSIVE Trim(_)
Trim(b) == IF b # <<>> /\ b[Len(b)] = 0 THEN Trim(SubSeq(b, 1, Len(b) - 1)) ELSE b

IsNegB(b) == b # <<>> /\ b[Len(b)] >= 128

\* change the width of a two's-complement integer: truncate, or sign-/zero-extend
Resize(b, signed, w) ==
    IF w <= Len(b) THEN SubSeq(b, 1, w)
    ELSE b \o Rep(w - Len(b), IF signed /\ IsNegB(b) THEN 255 ELSE 0)

NotB(b) == [i \in 1..Len(b) |-> 255 - b[i]]

RECURSIVE IncB(_)                 \* b + 1 mod 256^Len(b)
IncB(b) == IF b = <<>> THEN <<>>
           ELSE IF b[1] = 255 THEN <<0>> \o IncB(Tail(b))
           ELSE <<b[1] + 1>> \o Tail(b)

NegB(b) == IncB(NotB(b))          \* two's complement negation, same width
DecB(b) == NotB(IncB(NotB(b)))    \* b - 1 mod 256^Len(b)

---------------------------------------------------------------------------
(* bits *)

ByteBits(x) == [i \in 1..8 |-> (x \div (2 ^ (i - 1))) % 2]

RECURSIVE ToBits(_)
ToBits(b) == IF b = <<>> THEN <<>> ELSE ByteBits(b[1]) \o ToBits(Tail(b))

RECURSIVE TrimBits(_)
TrimBits(s) == IF s # <<>> /\ s[Len(s)] = 0 THEN TrimBits(SubSeq(s, 1, Len(s) - 1)) ELSE s

BitAt(s, i) == IF i <= Len(s) THEN s[i] ELSE 0

\* bits -> trimmed bytes
FromBits(s) ==
    LET n == (Len(s) + 7) \div 8
    IN Trim([k \in 1..n |-> BitAt(s, 8 * k - 7) + 2 * BitAt(s, 8 * k - 6) + 4 * BitAt(s, 8 * k - 5)
                            + 8 * BitAt(s, 8 * k - 4) + 16 * BitAt(s, 8 * k - 3) + 32 * BitAt(s, 8 * k - 2)
                            + 64 * BitAt(s, 8 * k - 1) + 128 * BitAt(s, 8 * k)])

MagBits(m) == TrimBits(ToBits(m))       \* magnitude bytes -> trimmed bits
BitLen(m) == Len(MagBits(m))

RECURSIVE IncBits(_)                     \* s + 1, may grow by one bit
IncBits(s) == IF s = <<>> THEN <<1>>
              ELSE IF s[1] = 0 THEN <<1>> \o Tail(s)
              ELSE <<0>> \o IncBits(Tail(s))

\* number of trailing zero bits of a trimmed non-empty bit string
RECURSIVE Tz(_)
Tz(s) == IF s = <<>> \/ s[1] = 1 THEN 0 ELSE 1 + Tz(Tail(s))
SigBits(s) == Len(s) - Tz(s)             \* span of significant bits (0 for zero)

\* IEEE-754 round-to-nearest, ties-to-even, of the natural s (trimmed bits) to p significant bits.
\* `mode` = "even" is the definition; "up" / "trunc" are broken variants for self-tests.
RoundBitsM(s, p, mode) ==
    LET L == Len(s) IN
    IF L <= p THEN s
    ELSE LET sh     == L - p
             kept   == SubSeq(s, sh + 1, L)
             guard  == s[sh]
             sticky == \E i \in 1..(sh - 1) : s[i] = 1
             up     == CASE mode = "even"  -> guard = 1 /\ (sticky \/ kept[1] = 1)
                         [] mode = "up"    -> guard = 1
                         [] mode = "trunc" -> FALSE
         IN Rep(sh, 0) \o (IF up THEN IncBits(kept) ELSE kept)

Pow2Bits(k) == Rep(k, 0) \o <<1>>                 \* 2^k
Pow2(k) == FromBits(Pow2Bits(k))                   \* as trimmed bytes

\* magnitude comparison a <= b on trimmed byte sequences
RECURSIVE LeqFrom(_, _, _)
LeqFrom(a, b, i) == IF i = 0 THEN TRUE
                    ELSE IF a[i] < b[i] THEN TRUE
                    ELSE IF a[i] > b[i] THEN FALSE
                    ELSE LeqFrom(a, b, i - 1)
MagLeq(a, b) == IF Len(a) # Len(b) THEN Len(a) < Len(b) ELSE LeqFrom(a, b, Len(a))

---------------------------------------------------------------------------
(* Definitions over Integers (the mathematical statements), for small values *)

\* value of a w-byte two's complement integer
IntVal(b, signed) == IF signed /\ IsNegB(b) THEN BytesNat(b) - 256 ^ Len(b) ELSE BytesNat(b)
\* the unique representative of x modulo 256^w as w bytes
WrapDef(x, w) == NatBytes(x % (256 ^ w), w)
\* nearest multiple of 2^sh to n, ties to the even quotient (n < 2^24)
RoundDef(n, p) ==
    LET L == BitLen(Trim(NatBytes(n, 3))) IN
    IF L <= p THEN n
    ELSE LET u == 2 ^ (L - p)
             q == n \div u
             r == n % u
         IN IF 2 * r < u THEN q * u
            ELSE IF 2 * r > u THEN (q + 1) * u
            ELSE IF q % 2 = 0 THEN q * u ELSE (q + 1) * u
=============================================================================

----------------------------- MODULE ConstCodec -----------------------------
(***************************************************************************)
(* Text form of untyped constants in gomacro's import tables                *)
(* (base/untyped/val.go: Marshal / Unmarshal).                              *)
(*                                                                          *)
(* Grammar actually used by the code (texts are sequences of byte codes):   *)
(*   "nil"                                                                  *)
(*   "bool:true" | "bool:false"                                             *)
(*   "int:"  Int        "rune:" Int          Int = ["-"] digits             *)
(*   "float:" Rat       Rat = Int | Int "/" digits   (lowest terms, den>1)  *)
(*   "complex:" Rat ":" Rat                                                 *)
(*   "string:" bytes    (verbatim: may contain ':' and any byte)            *)
(* Decoding splits at the FIRST ':'; an unknown kind name decodes to nil.   *)
(*                                                                          *)
(* A behaviour is a walk over constant values: it starts at an edge value   *)
(* (Seeds) and applies value-mutating steps.  In every state                *)
(*   RoundTrip:  Decode(Encode(cv)) = cv                                    *)
(* must hold, and the state is emitted together with the text the model     *)
(* predicts.  Values of kind "float2" (mantissa * 2^exponent with a huge    *)
(* exponent) are beyond the exact-rational regime of go/constant: their     *)
(* text is not modelled, they are emitted for the round trip on the code    *)
(* only.                                                                    *)
(***************************************************************************)
EXTENDS Rat, Json

CONSTANTS Seeds,       \* set of initial values
          Steps,       \* enabled step names
          MaxSteps,    \* length of a walk
          MaxLimbsC,   \* magnitude bound (limbs) for numerators / denominators
          MaxStrLen,
          FirstColon,  \* TRUE: Decode splits at the first ':' (the code). FALSE: broken variant
          EmitOn

VARIABLES cv,  \* current value
          n    \* steps taken

vars == <<cv, n>>

----------------------------------------------------------------------------
(* Values *)
VNil == [k |-> "nil"]
VBool(b) == [k |-> "bool", b |-> b]
VInt(k, i) == [k |-> k, i |-> i]                     \* k in {"int","rune"}, i signed integer
VFloat(r) == [k |-> "float", r |-> r]
VComplex(re, im) == [k |-> "complex", re |-> re, im |-> im]
VStr(s) == [k |-> "string", s |-> s]
VFloat2(neg, m, e) == [k |-> "float2", neg |-> neg, m |-> m, e |-> e]   \* m * 2^e, m # 0

\* constructors for the configuration (native components)
CInt(k, neg, mag) == VInt(k, SI(neg, mag))
CRat(neg, num, den) == RMake(neg, num, den)
CFloat(neg, num, den) == VFloat(CRat(neg, num, den))

----------------------------------------------------------------------------
(* Encoding *)
Colon == 58
Slash == 47
Minus == 45
T_nil == <<110, 105, 108>>
T_bool == <<98, 111, 111, 108>>
T_true == <<116, 114, 117, 101>>
T_false == <<102, 97, 108, 115, 101>>
T_int == <<105, 110, 116>>
T_rune == <<114, 117, 110, 101>>
T_float == <<102, 108, 111, 97, 116>>
T_complex == <<99, 111, 109, 112, 108, 101, 120>>
T_string == <<115, 116, 114, 105, 110, 103>>

SICodes(i) == (IF i.neg THEN <<Minus>> ELSE <<>>) \o BNCodes(i.mag)
RCodes(r) == (IF r.neg THEN <<Minus>> ELSE <<>>) \o BNCodes(r.num)
             \o (IF r.den = BNOne THEN <<>> ELSE <<Slash>> \o BNCodes(r.den))

Encode(v) ==
    CASE v.k = "nil" -> T_nil
      [] v.k = "bool" -> T_bool \o <<Colon>> \o (IF v.b THEN T_true ELSE T_false)
      [] v.k = "int" -> T_int \o <<Colon>> \o SICodes(v.i)
      [] v.k = "rune" -> T_rune \o <<Colon>> \o SICodes(v.i)
      [] v.k = "float" -> T_float \o <<Colon>> \o RCodes(v.r)
      [] v.k = "complex" -> T_complex \o <<Colon>> \o RCodes(v.re) \o <<Colon>> \o RCodes(v.im)
      [] v.k = "string" -> T_string \o <<Colon>> \o v.s

----------------------------------------------------------------------------
(* Decoding, following Unmarshal / unmarshalFloat *)
\* index of the first (last, in the broken variant) occurrence of c in t, 0 if none
IndexOf(t, c, first) ==
    LET S == {i \in 1..Len(t) : t[i] = c} IN
    IF S = {} THEN 0
    ELSE IF first THEN CHOOSE i \in S : \A j \in S : i <= j
    ELSE CHOOSE i \in S : \A j \in S : i >= j

Before(t, i) == SubSeq(t, 1, i - 1)
After(t, i) == SubSeq(t, i + 1, Len(t))

\* ["-"] digits  ->  signed integer  (the code: constant.MakeFromLiteral / big parsing)
ParseSI(t) == IF t # <<>> /\ t[1] = Minus THEN SI(TRUE, BNParse(Tail(t))) ELSE SI(FALSE, BNParse(t))
\* Int | Int "/" digits  ->  rational: numerator and denominator parsed separately, then divided
ParseR(t) ==
    LET s == IndexOf(t, Slash, TRUE) IN
    IF s = 0 THEN RFromSI(ParseSI(t))
    ELSE LET x == ParseSI(Before(t, s))
             y == ParseSI(After(t, s))
         IN RMake(x.neg # y.neg, x.mag, y.mag)

Decode(t) ==
    LET sep == IndexOf(t, Colon, FirstColon)
        skind == IF sep = 0 THEN t ELSE Before(t, sep)
        str == IF sep = 0 THEN <<>> ELSE After(t, sep)
    IN CASE skind = T_bool -> VBool(str = T_true)
         [] skind = T_int -> VInt("int", ParseSI(str))
         [] skind = T_rune -> VInt("rune", ParseSI(str))
         [] skind = T_float -> VFloat(ParseR(str))
         [] skind = T_complex ->
               LET s2 == IndexOf(str, Colon, FirstColon) IN
               IF s2 = 0 THEN VComplex(ParseR(str), RZero)
               ELSE VComplex(ParseR(Before(str, s2)), ParseR(After(str, s2)))
         [] skind = T_string -> VStr(str)
         [] OTHER -> VNil

Modelled(v) == v.k # "float2"

----------------------------------------------------------------------------
(* Steps: value-mutating actions of the walk *)
Small(x) == SIFromInt(x)
RSmall(x, y) == RMake(x < 0, BNFromInt(IF x < 0 THEN -x ELSE x), BNFromInt(y))

BoundedR(r) == Len(r.num) <= MaxLimbsC /\ Len(r.den) <= MaxLimbsC
BoundedV(v) ==
    CASE v.k \in {"int", "rune"} -> Len(v.i.mag) <= MaxLimbsC
      [] v.k = "float" -> BoundedR(v.r)
      [] v.k = "complex" -> BoundedR(v.re) /\ BoundedR(v.im)
      [] v.k = "string" -> Len(v.s) <= MaxStrLen
      [] v.k = "float2" -> Len(v.m) <= MaxLimbsC /\ v.e > -200000 /\ v.e < 200000
      [] OTHER -> TRUE

\* the real part viewed as a rational, for kind changes
AsR(v) == CASE v.k \in {"int", "rune"} -> RFromSI(v.i)
            [] v.k = "float" -> v.r
            [] v.k = "complex" -> v.re
            [] OTHER -> RZero
IsNumC(v) == v.k \in {"int", "rune", "float", "complex"}

IsPow2C(d) == d = BNPow2(BNBitLen(d) - 1)

MapR(v, F(_)) ==      \* apply a rational function to a float / complex value
    IF v.k = "float" THEN VFloat(F(v.r)) ELSE VComplex(F(v.re), F(v.im))

Apply(st, v) ==
    CASE st = "neg" /\ v.k \in {"int", "rune"} -> VInt(v.k, SINeg(v.i))
      [] st = "neg" /\ v.k \in {"float", "complex"} -> MapR(v, RNeg)
      [] st = "neg" /\ v.k = "float2" -> [v EXCEPT !.neg = ~v.neg]
      [] st = "not" /\ v.k = "bool" -> VBool(~v.b)
      [] st = "x10p7" /\ v.k \in {"int", "rune"} -> VInt(v.k, SIAdd(SIMul(v.i, Small(10)), Small(7)))
      [] st = "sq" /\ v.k \in {"int", "rune"} -> VInt(v.k, SIMul(v.i, v.i))
      [] st = "shl64" /\ v.k \in {"int", "rune"} -> VInt(v.k, SIShl(v.i, 64))
      [] st = "dec" /\ v.k \in {"int", "rune"} -> VInt(v.k, SISub(v.i, Small(1)))
      [] st = "kind" /\ v.k = "int" -> VInt("rune", v.i)
      [] st = "kind" /\ v.k = "rune" -> VInt("int", v.i)
      [] st = "tofloat" /\ v.k \in {"int", "rune"} -> VFloat(RFromSI(v.i))
      [] st = "tocomplex" /\ v.k \in {"int", "rune", "float"} ->
             VComplex(AsR(v), RQuo(RAdd(AsR(v), RSmall(1, 1)), RSmall(-3, 1)))
      [] st = "swap" /\ v.k = "complex" -> VComplex(v.im, v.re)
      [] st = "div3" /\ v.k \in {"float", "complex"} -> MapR(v, LAMBDA r : RQuo(r, RSmall(3, 1)))
      [] st = "div7" /\ v.k \in {"float", "complex"} -> MapR(v, LAMBDA r : RQuo(r, RSmall(7, 1)))
      [] st = "half" /\ v.k \in {"float", "complex"} -> MapR(v, LAMBDA r : RQuo(r, RSmall(2, 1)))
      [] st = "e-9" /\ v.k \in {"float", "complex"} -> MapR(v, LAMBDA r : RQuo(r, RFromSI(SI(FALSE, BNPow10(9)))))
      [] st = "e+9" /\ v.k \in {"float", "complex"} -> MapR(v, LAMBDA r : RMul(r, RFromSI(SI(FALSE, BNPow10(9)))))
      [] st = "add1" /\ v.k \in {"float", "complex"} -> MapR(v, LAMBDA r : RAdd(r, RSmall(1, 1)))
      [] st = "inv" /\ v.k = "float" /\ ~RIsZero(v.r) -> VFloat(RQuo(RSmall(1, 1), v.r))
      [] st = "sqr" /\ v.k = "float" -> VFloat(RMul(v.r, v.r))
      [] st = "huge" /\ v.k = "float" /\ ~RIsZero(v.r) /\ IsPow2C(v.r.den) ->
             VFloat2(v.r.neg, v.r.num, 5000 - BNBitLen(v.r.den) + 1)
      [] st = "tiny" /\ v.k = "float" /\ ~RIsZero(v.r) /\ IsPow2C(v.r.den) ->
             VFloat2(v.r.neg, v.r.num, -7000 - BNBitLen(v.r.den) + 1)
      [] st = "e*17" /\ v.k = "float2" -> [v EXCEPT !.e = v.e * 17]
      [] st = "m3" /\ v.k = "float2" -> [v EXCEPT !.m = BNAdd(BNMulSmall(v.m, 3), BNOne)]
      [] st = "colon" /\ v.k = "string" -> VStr(v.s \o <<Colon>>)
      [] st = "colon0" /\ v.k = "string" -> VStr(<<Colon>> \o v.s)
      [] st = "slash" /\ v.k = "string" -> VStr(v.s \o <<Slash>>)
      [] st = "utf8" /\ v.k = "string" -> VStr(v.s \o <<195, 169>>)
      [] st = "byte" /\ v.k = "string" -> VStr(v.s \o <<255>>)
      [] st = "nul" /\ v.k = "string" -> VStr(v.s \o <<0, 10>>)
      [] st = "kindname" /\ v.k = "string" -> VStr(T_int \o <<Colon>> \o v.s)
      [] st = "dup" /\ v.k = "string" -> VStr(v.s \o v.s)
      [] OTHER -> v

Init == cv \in Seeds /\ n = 0
Next == /\ n < MaxSteps
        /\ \E st \in Steps : LET w == Apply(st, cv) IN w # cv /\ BoundedV(w) /\ cv' = w
        /\ n' = n + 1
Spec == Init /\ [][Next]_vars

----------------------------------------------------------------------------
(* (M) laws *)
Canonical(v) ==
    CASE v.k \in {"int", "rune"} -> IsBN(v.i.mag) /\ (v.i.mag = <<>> => ~v.i.neg)
      [] v.k = "float" -> v.r = RMake(v.r.neg, v.r.num, v.r.den)
      [] v.k = "complex" -> v.re = RMake(v.re.neg, v.re.num, v.re.den) /\ v.im = RMake(v.im.neg, v.im.num, v.im.den)
      [] OTHER -> TRUE

RoundTrip == Modelled(cv) => Decode(Encode(cv)) = cv
\* the first field of the text is the kind name and contains no ':'
KindPrefix == Modelled(cv) /\ cv.k # "nil" =>
                LET t == Encode(cv)
                    s == IndexOf(t, Colon, TRUE)
                IN s > 0 /\ Before(t, s) \in {T_bool, T_int, T_rune, T_float, T_complex, T_string}
\* zero has one spelling: no "-0", no "0/1"
ZeroText == /\ (cv.k = "float" /\ RIsZero(cv.r) => Encode(cv) = T_float \o <<Colon, 48>>)
            /\ (cv.k = "int" /\ SIIsZero(cv.i) => Encode(cv) = T_int \o <<Colon, 48>>)
TypeOK == Canonical(cv) /\ BoundedV(cv)

----------------------------------------------------------------------------
(* Behaviour emission (R) *)
RStrC(r) == [neg |-> r.neg, num |-> BNStr(r.num), den |-> BNStr(r.den)]
Out(v) ==
    CASE v.k = "nil" -> [k |-> "nil", text |-> Encode(v)]
      [] v.k = "bool" -> [k |-> "bool", b |-> v.b, text |-> Encode(v)]
      [] v.k \in {"int", "rune"} -> [k |-> v.k, re |-> RStrC(RFromSI(v.i)), text |-> Encode(v)]
      [] v.k = "float" -> [k |-> "float", re |-> RStrC(v.r), text |-> Encode(v)]
      [] v.k = "complex" -> [k |-> "complex", re |-> RStrC(v.re), im |-> RStrC(v.im), text |-> Encode(v)]
      [] v.k = "string" -> [k |-> "string", s |-> v.s, text |-> Encode(v)]
      [] v.k = "float2" -> [k |-> "float2", neg |-> v.neg, m |-> BNStr(v.m), e |-> v.e]

Emit == IF EmitOn THEN PrintT(ToJson(Out(cv))) ELSE TRUE
CView == cv
=============================================================================

-------------------------------- MODULE Conv --------------------------------
(***************************************************************************)
(* Go conversions T(x) between basic, string and byte/rune slice types     *)
(* (property C03; Go specification, sections "Conversions",                *)
(* "Representability", "Constant expressions").                            *)
(*                                                                         *)
(* TYPES   [u |-> kind, n |-> 0/1]: u is the underlying kind (17 basic     *)
(*   kinds, "bytes" = []byte, "runes" = []rune, "nbytes" = []Myuint8,      *)
(*   "nrunes" = []Myint32), n = 1 the declared named variant               *)
(*   (type Myint8 int8, type Mybytes []byte, ...).  Untyped constants are  *)
(*   the source kinds k_int, k_rune, k_float, k_complex, k_string, k_bool. *)
(* VALUES  integer of width w: w little-endian bytes, two's complement;    *)
(*   float: [s, m, h, sp] = (-1)^s * (m + h/2) with m a trimmed byte       *)
(*   magnitude, or sp = "inf" / "nan" -- the EXACT sub-domain of binary32/ *)
(*   binary64: integers and half-integers with at most 24 / 53 significant *)
(*   bits; complex: [re, im]; bool: BOOLEAN; string, []byte: bytes;        *)
(*   []rune: sequence of int32 code points; untyped numeric constants:     *)
(*   float records of unbounded precision.                                 *)
(* Convertible(S, D)     the non-constant convertibility table.            *)
(* Convert(S, D, v)      run-time conversion (wrap / sign-extend /         *)
(*   truncate toward zero / round to nearest even / UTF-8 rules).          *)
(* DefinedVar(S, D, v)   FALSE where Go leaves the result implementation-  *)
(*   defined (float -> integer of NaN, Inf, out-of-range): not generated.  *)
(* ConstConvert(S, D, v) constant conversion: value (typed constant, or    *)
(*   run-time conversion of a constant string to a slice) or compile error *)
(*   (overflow | truncated | not-convertible).                             *)
(* Behaviours: start -> pair [src, dst, shape] -> cell [.., val]; every    *)
(*   cell state is printed with its expected outcome (Emit).  `lib` states *)
(*   check the byte/bit/UTF-8 helper code against integer definitions.     *)
(***************************************************************************)
EXTENDS Integers, Sequences, FiniteSets, TLC, Json, ConvBits, Utf8

CONSTANTS Tier,      \* "quick" | "thorough": size of the value sets
          DoLib,     \* BOOLEAN: generate the library-check states
          DoCells,   \* BOOLEAN: generate boundary-value cells (BFS)
          SimK,      \* > 0: generate SimK random-valued cells per pair instead (simulation)
          Broken,    \* "none" | "zeroext" | "roundup" | "constwrap" | "boolnum": broken variants
          EmitOn     \* BOOLEAN: print JSON records

VARIABLES phase, cell
vars == <<phase, cell>>

---------------------------------------------------------------------------
(* kinds and types *)

IntKinds == {"int", "int8", "int16", "int32", "int64", "uint", "uint8", "uint16", "uint32", "uint64", "uintptr"}
FloatKinds == {"float32", "float64"}
ComplexKinds == {"complex64", "complex128"}
BasicKinds == IntKinds \cup FloatKinds \cup ComplexKinds \cup {"bool", "string"}
SliceKinds == {"bytes", "runes"}
NSliceKinds == {"nbytes", "nrunes"}
UntypedKinds == {"k_int", "k_rune", "k_float", "k_complex", "k_string", "k_bool"}

Types == [u : BasicKinds \cup SliceKinds, n : {0, 1}] \cup [u : NSliceKinds, n : {0}]
ConstSrcTypes == [u : BasicKinds, n : {0, 1}] \cup [u : UntypedKinds, n : {0}]

Width(k) == CASE k \in {"int8", "uint8"} -> 1
              [] k \in {"int16", "uint16"} -> 2
              [] k \in {"int32", "uint32"} -> 4
              [] OTHER -> 8                       \* int, uint, uintptr, int64, uint64 on amd64
Signed(k) == k \in {"int", "int8", "int16", "int32", "int64"}
Prec(k) == IF k \in {"float32", "complex64"} THEN 24 ELSE IF k \in {"float64", "complex128"} THEN 53 ELSE 4096
MaxExp(k) == IF k \in {"float32", "complex64"} THEN 128 ELSE 1024
IsUntyped(k) == k \in UntypedKinds

Class(k) == CASE k \in IntKinds \cup {"k_int", "k_rune"} -> "int"
              [] k \in FloatKinds \cup {"k_float"} -> "float"
              [] k \in ComplexKinds \cup {"k_complex"} -> "complex"
              [] k \in {"bool", "k_bool"} -> "bool"
              [] k \in {"string", "k_string"} -> "string"
              [] k \in {"bytes", "nbytes"} -> "bytes"
              [] k \in {"runes", "nrunes"} -> "runes"

\* Go spec "Conversions", non-constant x of type S to type D (restricted to this type universe)
Convertible(S, D) ==
    LET cs == Class(S.u)
        cd == Class(D.u)
    IN \/ S.u = D.u                                            \* identical (underlying) types
       \/ cs \in {"int", "float"} /\ cd \in {"int", "float"}   \* both integer or floating point
       \/ cs = "complex" /\ cd = "complex"
       \/ cs \in {"int", "bytes", "runes"} /\ cd = "string"
       \/ cs = "string" /\ cd \in {"bytes", "runes"}
       \/ Broken = "boolnum" /\ cs = "bool" /\ cd = "int"

---------------------------------------------------------------------------
(* floating point on the exact sub-domain *)

F(s, m, h) == [s |-> s, m |-> m, h |-> h, sp |-> ""]
FZero == F(0, <<>>, 0)
FInf(s) == [s |-> s, m |-> <<>>, h |-> 0, sp |-> "inf"]
FNaN == [s |-> 0, m |-> <<>>, h |-> 0, sp |-> "nan"]
IsZeroF(f) == f.sp = "" /\ f.m = <<>> /\ f.h = 0

\* the value in units of 1/2, as trimmed bits
HalfBits(f) == TrimBits(<<f.h>> \o ToBits(f.m))
FitsPrec(f, p) == f.sp # "" \/ SigBits(HalfBits(f)) <= p

RoundMode == IF Broken = "roundup" THEN "up" ELSE "even"

RoundF(f, p) ==
    IF f.sp # "" THEN f
    ELSE LET nb == RoundBitsM(HalfBits(f), p, RoundMode)
         IN [s |-> f.s, m |-> IF nb = <<>> THEN <<>> ELSE FromBits(Tail(nb)),
             h |-> IF nb = <<>> THEN 0 ELSE nb[1], sp |-> ""]

\* mathematical value of a typed integer
IntMV(b, signed) == LET neg == signed /\ IsNegB(b)
                    IN F(IF neg THEN 1 ELSE 0, Trim(IF neg THEN NegB(b) ELSE b), 0)

IntToInt(b, signed, w) == Resize(b, IF Broken = "zeroext" THEN FALSE ELSE signed, w)
IntToFloat(b, signed, p) == RoundF(IntMV(b, signed), p)
\* truncation toward zero, for values whose truncation is in range
FloatToInt(f, w) == LET r == Resize(f.m, FALSE, w) IN IF f.s = 1 THEN NegB(r) ELSE r

\* is (-1)^s * m (a truncated value) representable in an integer of w bytes?
InRangeInt(s, m, w, signed) ==
    LET n == 8 * w IN
    IF signed THEN BitLen(m) <= n - 1 \/ (s = 1 /\ m = Pow2(n - 1))
    ELSE IF s = 0 THEN BitLen(m) <= n ELSE m = <<>>

\* code point of an integer value, -1 when outside 0 .. 2^24-1 (any such value is invalid)
MagRune(s, m) == IF s = 1 /\ m # <<>> THEN -1 ELSE IF Len(m) > 3 THEN -1 ELSE BytesNat(m)
IntToRune(b, signed) == LET v == IntMV(b, signed) IN MagRune(v.s, v.m)

DefinedVar(S, D, v) ==
    Class(S.u) = "float" /\ Class(D.u) = "int"
        => v.sp = "" /\ InRangeInt(v.s, v.m, Width(D.u), Signed(D.u))

Convert(S, D, v) ==
    LET cs == Class(S.u)
        cd == Class(D.u)
    IN CASE cs = "int" /\ cd = "int"       -> IntToInt(v, Signed(S.u), Width(D.u))
         [] cs = "int" /\ cd = "float"     -> IntToFloat(v, Signed(S.u), Prec(D.u))
         [] cs = "float" /\ cd = "int"     -> FloatToInt(v, Width(D.u))
         [] cs = "float" /\ cd = "float"   -> RoundF(v, Prec(D.u))
         [] cs = "complex" /\ cd = "complex" -> [re |-> RoundF(v.re, Prec(D.u)), im |-> RoundF(v.im, Prec(D.u))]
         [] cs = "int" /\ cd = "string"    -> Encode(IntToRune(v, Signed(S.u)))
         [] cs = "string" /\ cd = "runes"  -> Decode(v)
         [] cs = "runes" /\ cd = "string"  -> EncodeAll(v)
         [] OTHER -> v                     \* string <-> []byte, identical underlying types

---------------------------------------------------------------------------
(* constant conversions *)

Val(D, v) == [r |-> "value", v |-> v, ty |-> D]
Err(why) == [r |-> "compile-error", why |-> why]

Overflows(f, k) == BitLen(f.m) > MaxExp(k)

ConstConvert(S, D, v) ==
    LET cs == Class(S.u)
        cd == Class(D.u)
        numeric == cs \in {"int", "float", "complex"}
        re == IF cs = "complex" THEN v.re
              ELSE IF cs = "int" /\ ~IsUntyped(S.u) THEN IntMV(v, Signed(S.u))
              ELSE v
        im == IF cs = "complex" THEN v.im ELSE FZero
    IN CASE cd = "int" ->
              IF ~numeric THEN Err("not-convertible")
              ELSE IF ~IsZeroF(im) \/ re.h = 1 THEN Err("truncated")
              ELSE IF Broken # "constwrap" /\ ~InRangeInt(re.s, re.m, Width(D.u), Signed(D.u)) THEN Err("overflow")
              ELSE Val(D, FloatToInt(re, Width(D.u)))
         [] cd = "float" ->
              IF ~numeric THEN Err("not-convertible")
              ELSE IF ~IsZeroF(im) THEN Err("truncated")
              ELSE LET r == RoundF(re, Prec(D.u))
                   IN IF Overflows(r, D.u) THEN Err("overflow") ELSE Val(D, r)
         [] cd = "complex" ->
              IF ~numeric THEN Err("not-convertible")
              ELSE LET r == RoundF(re, Prec(D.u))
                       i == RoundF(im, Prec(D.u))
                   IN IF Overflows(r, D.u) \/ Overflows(i, D.u) THEN Err("overflow")
                      ELSE Val(D, [re |-> r, im |-> i])
         [] cd = "string" ->
              IF cs = "string" THEN Val(D, v)
              ELSE IF cs = "int" THEN Val(D, Encode(MagRune(re.s, re.m)))
              ELSE Err("not-convertible")
         [] cd = "bool" -> IF cs = "bool" THEN Val(D, v) ELSE Err("not-convertible")
         [] cd \in {"bytes", "runes"} ->     \* not a constant type: run-time conversion of the constant
              IF cs = "string" THEN Val(D, Convert([u |-> "string", n |-> 0], D, v))
              ELSE Err("not-convertible")

Expected(c) ==
    IF c.shape = "var"
    THEN IF Convertible(c.src, c.dst) THEN Val(c.dst, Convert(c.src, c.dst, c.val))
         ELSE Err("not-convertible")
    ELSE ConstConvert(c.src, c.dst, c.val)

---------------------------------------------------------------------------
(* value sets: boundary values per source kind, selected by the destination *)

AllK == {0, 7, 8, 15, 16, 23, 24, 25, 31, 32, 52, 53, 54, 62, 63, 64}
DstK(D) == CASE Class(D.u) = "int" -> {8 * Width(D.u) - 1, 8 * Width(D.u)}
             [] Class(D.u) \in {"float", "complex"} -> {Prec(D.u), Prec(D.u) + 1}
             [] OTHER -> {}
Reduced(S, D) == Tier = "quick" /\ (S.n = 1 \/ D.n = 1)
SetMin(X) == CHOOSE x \in X : \A y \in X : x <= y
KFor(S, D, top) ==
    IF Tier = "thorough" THEN AllK \cup {top}
    ELSE IF Reduced(S, D) THEN {0, SetMin(DstK(D) \cup {top})}
    ELSE {0, top} \cup DstK(D)

CpSet == {65, 127, 128, 2047, 2048, 55295, 55296, 57343, 57344, 65533, 65535, 65536, 1114111, 1114112}
CpSetR == {65, 128, 55296, 1114111, 1114112}

IntVals(S, D) ==
    LET w    == Width(S.u)
        ks   == {k \in KFor(S, D, 8 * w - 1) : k < 8 * w}
        base == UNION {LET p == Resize(Pow2(k), FALSE, w) IN {p, DecB(p), IncB(p)} : k \in ks}
        cps  == IF Class(D.u) = "string"
                THEN {NatBytes(cp, w) : cp \in IF Reduced(S, D) THEN CpSetR ELSE CpSet}
                ELSE {}
    IN base \cup {NegB(b) : b \in base} \cup cps

\* bits of the largest p-bit-precision value below 2^k and of the smallest above it
PredBits(k, p) == IF k = 0 THEN <<>> ELSE IF k <= p THEN Rep(k, 1) ELSE Rep(k - p, 0) \o Rep(p, 1)
SuccBits(k, p) == IF k = 0 THEN <<0, 1>>
                  ELSE IF k <= p - 1 THEN <<1>> \o Rep(k - 1, 0) \o <<1>>
                  ELSE Rep(k - p + 1, 0) \o <<1>> \o Rep(p - 2, 0) \o <<1>>
FBits(s, b) == F(s, FromBits(b), 0)

\* values whose rounding to 24 bits exercises every branch (tie to even down / up, below, above, carry)
RoundingSet == {FBits(0, <<1>> \o Rep(23, 0) \o <<1>>),          \* 2^24+1   tie, even below
                FBits(1, <<1, 1>> \o Rep(22, 0) \o <<1>>),       \* -(2^24+3) tie, even above
                FBits(0, <<1, 0>> \o Rep(23, 0) \o <<1>>),       \* 2^25+1   below half
                FBits(0, <<1, 1>> \o Rep(23, 0) \o <<1>>),       \* 2^25+3   above half
                FBits(1, Rep(53, 1)),                              \* -(2^53-1) carry into a new bit
                F(0, FromBits(Rep(24, 1)), 1)}                     \* 2^24-1+1/2 tie with carry

FloatValsP(p, ks, const, toInt) ==
    LET mags  == UNION {{Pow2Bits(k), PredBits(k, p), SuccBits(k, p)} : k \in ks}
        ints  == {FBits(s, b) : s \in {0, 1}, b \in mags}
        halfs == {F(s, m, 1) : s \in {0, 1}, m \in {<<>>, <<1>>, <<2>>}}
        rnd   == IF p > 24 /\ ~toInt THEN RoundingSet ELSE {}
        spec  == IF const \/ toInt THEN {} ELSE {FInf(0), FInf(1), FNaN}
        all   == ints \cup halfs \cup rnd \cup spec
    IN IF const THEN {f \in all : ~(f.s = 1 /\ IsZeroF(f))} ELSE all

FloatVals(S, D, const) ==
    LET ks == IF Tier = "thorough" THEN AllK
              ELSE IF Reduced(S, D) THEN {0, SetMin(DstK(D) \cup {24})}
              ELSE {0} \cup DstK(D)
        r  == FloatValsP(Prec(S.u), ks, const, Class(D.u) = "int")
    IN IF Reduced(S, D) THEN {f \in r : f.sp # "" \/ f.h = 1 \/ f.s = 1 \/ BitLen(f.m) > 6} ELSE r

\* untyped integer constants: both signs, up to 2^64+1, and the float32 overflow boundary
BigInts == {FBits(0, Rep(128, 0) \o <<1>>),                       \* 2^128: overflows float32
            FBits(0, Rep(104, 0) \o Rep(24, 1)),                   \* largest float32
            FBits(1, Rep(103, 0) \o Rep(25, 1)),                   \* -(2^128-2^103): rounds to -2^128: overflows
            FBits(0, Rep(103, 1) \o <<0>> \o Rep(24, 1))}          \* 2^128-2^103-1: rounds to the largest float32
UIntVals(S, D) ==
    LET ks   == IF Tier = "thorough" THEN AllK ELSE {0, 63, 64} \cup DstK(D)
        mags == UNION {{Pow2Bits(k), PredBits(k, 4096), SuccBits(k, 4096)} : k \in ks}
        ints == {FBits(s, b) : s \in {0, 1}, b \in mags}
        cps  == IF Class(D.u) = "string" THEN {F(0, Trim(NatBytes(cp, 3)), 0) : cp \in CpSet} ELSE {}
        big  == IF Class(D.u) \in {"float", "complex"} THEN BigInts \cup RoundingSet ELSE {}
    IN {f \in ints \cup cps \cup big : f.h = 0 /\ ~(f.s = 1 /\ IsZeroF(f))}
URuneVals == {F(0, Trim(NatBytes(cp, 3)), 0) : cp \in {0, 65, 127, 128, 255, 256, 2047, 2048, 55295, 57344, 65533, 65535, 65536, 1114111}}

ComplexVals(S, D, const) ==
    LET p    == Prec(S.u)
        a    == F(0, <<1>>, 1)
        b    == F(1, <<2>>, 1)
        n3   == F(0, <<3>>, 0)
        n300 == F(1, <<44, 1>>, 0)
        r1   == FBits(0, <<1>> \o Rep(23, 0) \o <<1>>)
        r2   == FBits(1, <<1, 1>> \o Rep(22, 0) \o <<1>>)
        r5   == F(0, FromBits(Rep(24, 1)), 1)
        base == {<<FZero, FZero>>, <<a, b>>, <<n3, FZero>>, <<n300, FZero>>, <<a, FZero>>, <<FZero, n3>>,
                 <<FBits(0, Rep(24, 1)), FBits(1, Pow2Bits(24))>>}
        wide == IF p > 24 THEN {<<r1, r2>>, <<r1, FZero>>, <<r5, FBits(0, <<1, 1>> \o Rep(23, 0) \o <<1>>)>>} ELSE {}
        \* specials only for the unnamed complex types: a named complex variable holding an
        \* infinity cannot be written down without using a conversion in the set-up
        spec == IF const \/ S.n = 1 THEN {} ELSE {<<FInf(0), FNaN>>, <<F(1, <<>>, 0), FInf(1)>>}
        all  == IF Reduced(S, D) THEN {<<a, b>>, <<n3, FZero>>} \cup wide ELSE base \cup wide \cup spec
    IN {[re |-> x[1], im |-> x[2]] : x \in all}

StrsQ == {<<>>, <<97>>, <<0>>, <<97, 195, 169, 226, 130, 172, 240, 159, 152, 128>>,
          <<255>>, <<128>>, <<192, 128>>, <<193, 191>>, <<224, 159, 191>>, <<237, 160, 128>>, <<237, 159, 191, 238, 128, 128>>,
          <<240, 143, 191, 191>>, <<244, 143, 191, 191>>, <<244, 144, 128, 128>>, <<226, 130>>, <<97, 226, 130, 98>>,
          <<240, 159, 152>>, <<239, 191, 189>>, <<248, 136, 128, 128, 128>>, <<226, 40, 161>>, <<194, 127, 194, 128>>}
StrsR == {<<>>, <<97, 195, 169, 226, 130, 172, 240, 159, 152, 128>>, <<97, 226, 130, 98>>, <<237, 160, 128>>}
LeadB == {97, 128, 191, 192, 193, 194, 223, 224, 225, 236, 237, 238, 239, 240, 241, 243, 244, 245, 247, 248, 255}
ContB == {0, 127, 128, 143, 144, 159, 160, 191, 192, 255}
StrsT == StrsQ \cup {<<a, b, c>> : a \in LeadB, b \in ContB, c \in {128, 98}}
                \cup {<<a, b, 128, c>> : a \in {240, 241, 244, 245}, b \in {128, 143, 144, 191}, c \in {127, 128, 191, 192}}
StrVals(S, D) == IF Tier = "thorough" THEN StrsT ELSE IF Reduced(S, D) THEN StrsR ELSE StrsQ

RunesQ == {<<>>, <<65>>, <<8364, 128512>>, <<-1>>, <<55296>>, <<57343>>, <<1114112>>,
           <<1114111, 0, 127, 128, 2047, 2048, 55295, 57344, 65535, 65536>>, <<2147483647>>, <<-2147483647 - 1>>,
           <<97, 56320, 98>>, <<65533>>}
RunesR == {<<>>, <<8364, 128512>>, <<97, 56320, 98>>, <<-1>>}
RuneVals(S, D) == IF Reduced(S, D) THEN RunesR ELSE RunesQ

DefaultVal(S) ==
    CASE S.u \in IntKinds -> NatBytes(65, Width(S.u))
      [] Class(S.u) = "int" -> F(0, <<65>>, 0)                 \* k_int, k_rune
      [] Class(S.u) = "float" -> F(0, <<65>>, 0)
      [] Class(S.u) = "complex" -> [re |-> F(0, <<65>>, 0), im |-> FZero]
      [] Class(S.u) = "bool" -> TRUE
      [] OTHER -> <<97>>

\* can a constant of kind S ever be converted to D?
ConstMaybe(S, D) ==
    LET cs == Class(S.u)
        cd == Class(D.u)
    IN \/ cs \in {"int", "float", "complex"} /\ cd \in {"int", "float", "complex"}
       \/ cs = "int" /\ cd = "string"
       \/ cs = "string" /\ cd \in {"string", "bytes", "runes"}
       \/ cs = "bool" /\ cd = "bool"

ValsFor(S, D, shape) ==
    LET const == shape = "const"
        cs    == Class(S.u)
    IN IF ~(IF const THEN ConstMaybe(S, D) ELSE Convertible(S, D)) THEN {DefaultVal(S)}
       ELSE CASE S.u \in IntKinds -> IntVals(S, D)
              [] S.u = "k_int" -> UIntVals(S, D)
              [] S.u = "k_rune" -> URuneVals
              [] cs = "float" -> FloatVals(S, D, const)
              [] cs = "complex" -> ComplexVals(S, D, const)
              [] cs = "bool" -> {TRUE, FALSE}
              [] cs = "string" -> StrVals(S, D)
              [] cs = "bytes" -> StrVals(S, D)
              [] cs = "runes" -> RuneVals(S, D)

---------------------------------------------------------------------------
(* random values (simulation).  Every draw is a separate RandomElement call inside the *)
(* assignment to cell'; `d` is a dummy state-level argument that keeps TLC from folding  *)
(* the definitions into constants.                                                      *)

RB(d) == RandomElement(0..255)
Rand8(d) == <<RB(d), RB(d), RB(d), RB(d), RB(d), RB(d), RB(d), RB(d)>>

RandInt(w, d) ==
    LET mode == RandomElement(0..4) IN
    IF mode = 0 THEN Resize(<<RB(d)>>, TRUE, w)                        \* small, either sign
    ELSE IF mode = 1 THEN Resize(<<RB(d), RB(d), RB(d)>>, FALSE, w)    \* code-point sized
    ELSE IF mode = 2 THEN Resize(<<RB(d), RB(d), RB(d), RB(d)>>, TRUE, w)
    ELSE Resize(Rand8(d), FALSE, w)

\* a float with at most p significant bits: random mantissa, random exponent, sometimes a half
RandFloat(p, maxbits, const, d) ==
    LET L    == RandomElement(1..p)
        mant == SubSeq(ToBits(Rand8(d)), 1, L - 1) \o <<1>>
        e    == RandomElement(0..(IF maxbits > L THEN maxbits - L ELSE 0))
        sel  == RandomElement(0..9)
        s    == RandomElement({0, 1})
    IN IF sel = 0 /\ ~const THEN RandomElement({FInf(0), FInf(1), FNaN, F(1, <<>>, 0)})
       ELSE IF sel <= 3 /\ L < p THEN F(s, FromBits(mant), 1)
       ELSE F(s, FromBits(Rep(e, 0) \o mant), 0)

RandStr(d) ==
    LET pool == <<97, 127, 128, 191, 192, 194, 224, 160, 159, 237, 239, 240, 144, 143, 244, 245, 255, 226, 130, 172, 195, 169, 0, 98, 189>>
        pick(x) == IF x < 200 THEN pool[1 + (x % Len(pool))] ELSE RandomElement(0..255)
        n == RandomElement(0..7)
    IN [i \in 1..n |-> pick(RandomElement(0..255))]

RandRune(d) ==
    LET sel == RandomElement(0..5) IN
    IF sel = 0 THEN RandomElement({-1, 55295, 55296, 56319, 56320, 57343, 57344, 1114111, 1114112, 65533, 2147483647, -2147483647})
    ELSE IF sel = 1 THEN RandomElement(0..127)
    ELSE IF sel = 2 THEN RandomElement(128..2047)
    ELSE IF sel = 3 THEN RandomElement(2048..65535)
    ELSE RandomElement(65536..1200000)
RandRunes(d) == LET n == RandomElement(0..5) IN [i \in 1..n |-> RandRune(d)]

RandVal(S, D, shape, d) ==
    LET const == shape = "const"
        cs    == Class(S.u)
        fmax  == IF Class(D.u) = "int" THEN 8 * Width(D.u) ELSE 64
    IN CASE S.u \in IntKinds -> RandInt(Width(S.u), d)
         [] S.u = "k_int" -> LET f == RandFloat(64, 66, TRUE, d) IN [f EXCEPT !.h = 0]
         [] S.u = "k_rune" -> LET r == RandRune(d) IN F(0, Trim(NatBytes(IF r < 0 \/ r > 1114111 \/ IsSurrogate(r) THEN 65 ELSE r, 3)), 0)
         [] cs = "float" -> RandFloat(IF IsUntyped(S.u) THEN 60 ELSE Prec(S.u), fmax, const, d)
         [] cs = "complex" -> [re |-> RandFloat(IF IsUntyped(S.u) THEN 60 ELSE Prec(S.u), 64, const \/ S.n = 1, d),
                               im |-> IF RandomElement(0..2) = 0 THEN FZero
                                      ELSE RandFloat(IF IsUntyped(S.u) THEN 60 ELSE Prec(S.u), 64, const \/ S.n = 1, d)]
         [] cs = "bool" -> RandomElement({TRUE, FALSE})
         [] cs = "runes" -> RandRunes(d)
         [] OTHER -> RandStr(d)

---------------------------------------------------------------------------
(* behaviours *)

Shapes == {"const", "var"}
SrcTypes(shape) == IF shape = "const" THEN ConstSrcTypes ELSE Types

\* a constant never has the value -0, an infinity or a NaN
ConstOK(v, S) ==
    CASE Class(S.u) = "float" /\ ~IsUntyped(S.u) -> v.sp = "" /\ ~(v.s = 1 /\ IsZeroF(v))
      [] Class(S.u) = "complex" -> /\ v.re.sp = "" /\ ~(v.re.s = 1 /\ IsZeroF(v.re))
                                   /\ v.im.sp = "" /\ ~(v.im.s = 1 /\ IsZeroF(v.im))
      [] IsUntyped(S.u) /\ Class(S.u) \in {"int", "float"} -> v.sp = "" /\ ~(v.s = 1 /\ IsZeroF(v))
      [] OTHER -> TRUE

CellOK(c) == /\ (c.shape = "var" /\ Convertible(c.src, c.dst)) => DefinedVar(c.src, c.dst, c.val)
             /\ c.shape = "const" => ConstOK(c.val, c.src)

Init == phase = "start" /\ cell = [i |-> 0]

\* two steps, so that the (expensive) LibOK of chunk i is evaluated by the worker that expands
\* libq(i) and the chunks are checked in parallel
ToLibQ == /\ DoLib /\ phase = "start"
          /\ \E i \in 0..255 : cell' = [i |-> i]
          /\ phase' = "libq"
ToLib == /\ phase = "libq"
         /\ cell' = cell
         /\ phase' = "lib"

ToPair == /\ phase = "start" /\ DoCells
          /\ \E shape \in Shapes : \E S \in SrcTypes(shape), D \in Types :
                cell' = [src |-> S, dst |-> D, shape |-> shape]
          /\ phase' = "pair"

\* simulation: ONE random pair among those that can be accepted (a single draw, so that a
\* trace costs 1 + SimK states instead of evaluating every pair successor)
SimPairs == UNION {{[src |-> S, dst |-> D, shape |-> shape] : S \in SrcTypes(shape), D \in Types} : shape \in Shapes}
SimPairsOK == {p \in SimPairs : IF p.shape = "const" THEN ConstMaybe(p.src, p.dst) ELSE Convertible(p.src, p.dst)}
ToPairRand == /\ phase = "start" /\ SimK > 0
              /\ cell' = RandomElement(SimPairsOK)
              /\ phase' = "pair"

ToCell == /\ phase = "pair" /\ DoCells
          /\ \E v \in ValsFor(cell.src, cell.dst, cell.shape) :
                cell' = [src |-> cell.src, dst |-> cell.dst, shape |-> cell.shape, val |-> v]
          /\ CellOK(cell')
          /\ phase' = "cell"

ToRand == /\ phase = "pair" /\ SimK > 0
          /\ \E i \in 1..SimK :
                cell' = [src |-> cell.src, dst |-> cell.dst, shape |-> cell.shape,
                         val |-> RandVal(cell.src, cell.dst, cell.shape, cell)]
          /\ CellOK(cell')
          /\ phase' = "cell"

Next == ToLibQ \/ ToLib \/ ToPair \/ ToPairRand \/ ToCell \/ ToRand
Spec == Init /\ [][Next]_vars

---------------------------------------------------------------------------
(* (M) properties of the specification itself *)

IsCell == phase = "cell"

\* the table is symmetric except integer/slice -> string
TableLaws ==
    phase = "start" =>
      \A S \in Types, D \in Types :
        /\ Convertible(S, S)
        /\ (Convertible(S, D) /\ ~Convertible(D, S)) => (Class(S.u) = "int" /\ Class(D.u) = "string")
        /\ Class(S.u) = "bool" => (Convertible(S, D) <=> Class(D.u) = "bool")
        /\ Class(S.u) = "complex" => (Convertible(S, D) <=> Class(D.u) = "complex")
        /\ (Class(S.u) = "float" /\ Class(D.u) = "string") => ~Convertible(S, D)
        /\ \A N \in Types : (N.u = S.u) => (Convertible(S, D) <=> Convertible(N, D))   \* named variants

\* integer -> integer equals "the unique value congruent modulo 2^n" for 8/16-bit kinds
IntDef ==
    (IsCell /\ cell.shape = "var" /\ cell.src.u \in IntKinds /\ cell.dst.u \in IntKinds
        /\ Width(cell.src.u) <= 2 /\ Width(cell.dst.u) <= 2)
    => Convert(cell.src, cell.dst, cell.val) = WrapDef(IntVal(cell.val, Signed(cell.src.u)), Width(cell.dst.u))

\* widening then narrowing back is the identity; so is int -> float -> int on exact values
RoundTrips ==
    (IsCell /\ cell.shape = "var" /\ Convertible(cell.src, cell.dst)) =>
      LET S == cell.src
          D == cell.dst
          v == cell.val
          r == Convert(S, D, v)
      IN /\ (S.u \in IntKinds /\ D.u \in IntKinds /\ Width(D.u) >= Width(S.u)) => Convert(D, S, r) = v
         /\ (S.u \in IntKinds /\ Class(D.u) = "float" /\ SigBits(HalfBits(IntMV(v, Signed(S.u)))) <= Prec(D.u))
                => (DefinedVar(D, S, r) /\ Convert(D, S, r) = v)
         /\ (Class(S.u) = "float" /\ Class(D.u) = "float" /\ Prec(D.u) >= Prec(S.u)) => r = v
         /\ (Class(S.u) = "float" /\ Class(D.u) = "float") => FitsPrec(r, Prec(D.u))
         /\ (Class(S.u) = "string" /\ Class(D.u) = "bytes") => Convert(D, S, r) = v
         /\ (Class(S.u) = "runes" /\ Class(D.u) = "string" /\ \A i \in 1..Len(v) : ValidRune(v[i]))
                => Convert([u |-> "string", n |-> 0], S, r) = v
         /\ (Class(S.u) = "string" /\ Class(D.u) = "runes") => DecodeTab(v) = r

\* generated values are inside the exact sub-domain
WellFormed ==
    IsCell =>
      LET S == cell.src
          v == cell.val
      IN CASE S.u \in IntKinds -> Len(v) = Width(S.u) /\ \A i \in 1..Len(v) : v[i] \in 0..255
           [] S.u \in FloatKinds -> FitsPrec(v, Prec(S.u)) /\ v.m = Trim(v.m)
           [] S.u \in ComplexKinds -> FitsPrec(v.re, Prec(S.u)) /\ FitsPrec(v.im, Prec(S.u))
           [] OTHER -> TRUE

\* a constant conversion that is accepted agrees with the run-time conversion of the same
\* typed value, and preserves the mathematical value when the destination is an integer
ConstLaws ==
    (IsCell /\ cell.shape = "const") =>
      LET S == cell.src
          D == cell.dst
          v == cell.val
          e == ConstConvert(S, D, v)
      IN /\ (e.r = "value" /\ ~IsUntyped(S.u) /\ Convertible(S, D))
                => (DefinedVar(S, D, v) /\ Convert(S, D, v) = e.v)
         /\ (e.r = "value" /\ Class(D.u) = "int" /\ S.u \in IntKinds)
                => IntMV(e.v, Signed(D.u)) = IntMV(v, Signed(S.u))
         /\ (e.r = "value" /\ Class(D.u) = "int" /\ Class(S.u) = "float")
                => IntMV(e.v, Signed(D.u)) = v
         /\ (~ConstMaybe(S, D)) => e.r = "compile-error"

\* library code against the integer definitions, one chunk per lib state
BmpSample == IF Tier = "thorough" THEN 0..255 ELSE {0, 1, 127, 128, 254, 255}
LoSample(i) == IF Tier = "thorough" THEN 0..255 ELSE {0, 1, 2, 3, 7, 8, 64, 127, 128, 129, 191, 192, 254, 255, i, 255 - i}
LibOK ==
    phase = "lib" =>
      LET i == cell.i IN
      /\ \A b2 \in (IF Tier = "thorough" THEN 0..255 ELSE LeadB \cup ContB \cup {i, 255 - i}) :
            DecodeAgrees(<<i, b2>>) /\ NoSurrogateOut(<<i, b2>>)
      /\ DecodeAgrees(<<i>>)
      /\ i >= 192 => \A b2 \in ContB, b3 \in ContB :
            /\ DecodeAgrees(<<i, b2, b3>>) /\ NoSurrogateOut(<<i, b2, b3>>)
            /\ i >= 240 => \A b4 \in ContB : DecodeAgrees(<<i, b2, b3, b4>>) /\ NoSurrogateOut(<<i, b2, b3, b4>>)
      /\ i < 192 => \A b2 \in {194, 224, 237, 240, 244}, b3 \in ContB : DecodeAgrees(<<i, b2, b3, 128, 128>>)
      /\ \A j \in BmpSample : LET r == i * 256 + j IN RoundTrip(r) /\ InvalidToError(r)
      /\ \A r \in {65536 + i * 4096, 65536 + i * 4096 + 4095, 1114111 - i, 1114112 + i, 0 - 1 - i,
                   55296 + i, 57343 - i, 55295 - i, 57344 + i, 127 + i, 2047 - i + 128} :
            RoundTrip(r) /\ InvalidToError(r)
      /\ \A lo \in LoSample(i) :
            LET b == <<lo, i>>
                n == BytesNat(b)
            IN /\ NegB(b) = WrapDef(0 - IntVal(b, TRUE), 2)
               /\ IncB(b) = WrapDef(n + 1, 2)
               /\ DecB(b) = WrapDef(n - 1, 2)
               /\ Resize(b, TRUE, 3) = WrapDef(IntVal(b, TRUE), 3)
               /\ Resize(b, FALSE, 3) = WrapDef(n, 3)
               /\ Resize(b, TRUE, 1) = WrapDef(IntVal(b, TRUE), 1)
               /\ FromBits(ToBits(b)) = Trim(b)
               /\ BitLen(Trim(b)) = (IF n = 0 THEN 0 ELSE CHOOSE k \in 1..16 : 2 ^ (k - 1) <= n /\ n < 2 ^ k)
               /\ \A p \in {1, 3, 8, 11} :
                     BytesNat(FromBits(RoundBitsM(MagBits(Trim(b)), p, RoundMode))) = RoundDef(n, p)
               /\ MagLeq(Trim(b), Trim(<<i, lo>>)) = (n <= BytesNat(<<i, lo>>))

---------------------------------------------------------------------------
(* emission (R): one JSON record per cell state *)

Emit == IF EmitOn /\ IsCell
        THEN PrintT(ToJson([src |-> cell.src, dst |-> cell.dst, shape |-> cell.shape,
                            val |-> cell.val, exp |-> Expected(cell)]))
        ELSE TRUE
=============================================================================

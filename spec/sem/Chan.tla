---------------------------- MODULE Chan ----------------------------
(* C10: goroutines, channels, select, sync.Mutex, sync.WaitGroup -- Go-level meaning on EVERY
   schedule.

   A behaviour of this module is one schedule of one program.  The program set is the constant
   sequence Progs (template instances built below); Init picks one, Next interleaves the
   goroutines of that program.  A program is a sequence of goroutine bodies (proc 1 = the entry
   function) over a small structured statement language; the structured form is what the harness
   renders as Go source, the model executes its flattening (Flat) into straight-line code with
   relative jumps.

   Linearisation points (one TLC step each), as in Go's runtime where every channel operation is
   atomic under the channel lock(s):
     - buffered send / receive, receive from a closed channel, send / close on a closed or nil
       channel (run-time panic), close;
     - unbuffered send+receive as ONE combined step of the two goroutines (rendezvous); at least
       one side must be a blocking operation (a select with default never waits, so two polling
       selects cannot meet);
     - select: one successor per ready case (buffer-ready or rendezvous partner); default only
       when no case is buffer/closed-ready.  Whether a rendezvous partner "is already parked" is
       not observable by any program without timing, so for a select with default both the
       rendezvous and the default are admitted when the partner stands at its operation;
     - nil channels are never ready; Lock, Unlock, WaitGroup Add/Done/Wait, go statement
       (argument evaluated by the parent), plain loads and stores of shared variables, Log.
   A run-time panic in a goroutine runs its deferred statements and is then recovered by the
   rendered wrapper, which logs the negated panic class; in the entry function it becomes the
   outcome's panic class.

   Outcomes.  At every state without successor the module prints (program, outcome): "ok" with the
   log, the shared variables and the entry's panic class when exactly the goroutines declared
   leaky are still blocked, otherwise "deadlock".  Race: by the Boehm-Adve characterisation a
   program has a Go-level data race iff some sequentially consistent execution reaches a state in
   which two goroutines both stand at a plain access of the same variable, one of them a store;
   every such state prints "race".  The harness keeps only programs all of whose records are "ok".

   (M) invariants: TypeOK-ish BufBound, Fifo (received = prefix of sent, nothing received that
   was not sent, closed channels deliver buffered values first), ClosedZero, MutexExcl.
   Broken variants (constant Broken) must violate them. *)
EXTENDS Integers, Sequences, FiniteSets, TLC, Json

CONSTANTS Size,     \* 1 = quick program set, 2 = thorough
          Broken,   \* "none" | "select-nonready" | "range-no-end" | "lock-shared" | "closed-ok"
          EmitOn

----------------------------------------------------------------------
(* value expressions and statement constructors *)
C(n) == [k |-> "c", n |-> n]        \* constant
V(n) == [k |-> "v", n |-> n]        \* last received value + n
I(n) == [k |-> "i", n |-> n]        \* innermost loop index + n
A(n) == [k |-> "a", n |-> n]        \* goroutine argument + n
AY(n) == [k |-> "ay", n |-> n]      \* the same value, computed by a call that yields the processor
                                    \* (no difference here: the operands of a select are
                                    \* evaluated once, on entering it, by the goroutine itself)
T(n) == [k |-> "t", n |-> n]        \* last loaded value + n
OKV  == [k |-> "ok", n |-> 0]       \* 1 if the last comma-ok receive had ok, else 0

Send(c, v)   == [op |-> "send", ch |-> c, val |-> v]
Recv(c, f)   == [op |-> "recv", ch |-> c, form |-> f]     \* f: "v" | "vok" | "drop"
Close(c)     == [op |-> "close", ch |-> c]
Log(v)       == [op |-> "log", val |-> v]
Go(p, a)     == [op |-> "go", proc |-> p, pstep |-> 0, arg |-> a]
GoI(p, a)    == [op |-> "go", proc |-> p, pstep |-> 1, arg |-> a]   \* proc p + loop index
Lock(m)      == [op |-> "lock", mu |-> m]
Unlock(m)    == [op |-> "unlock", mu |-> m]
WgAdd(w, n)  == [op |-> "wgadd", wg |-> w, n |-> n]
WgDone(w)    == [op |-> "wgdone", wg |-> w]
WgWait(w)    == [op |-> "wgwait", wg |-> w]
Ld(x)        == [op |-> "ld", var |-> x]
St(x, v)     == [op |-> "st", var |-> x, val |-> v]
Inc(x)       == [op |-> "inc", var |-> x]
For(n, b)    == [op |-> "for", n |-> n, body |-> b]
Range(c, b)  == [op |-> "range", ch |-> c, body |-> b]
Loop(b)      == [op |-> "loop", body |-> b]
IfNok(b)     == [op |-> "ifnok", body |-> b]
Brk          == [op |-> "brk"]
CaseR(c, f, b)  == [dir |-> "recv", ch |-> c, val |-> C(0), form |-> f, body |-> b]  \* f: v vok vdef vokdef drop
CaseS(c, v, b)  == [dir |-> "send", ch |-> c, val |-> v, form |-> "", body |-> b]
Select(cs)      == [op |-> "select", cases |-> cs, hasdef |-> FALSE, def |-> <<>>]
SelectD(cs, d)  == [op |-> "select", cases |-> cs, hasdef |-> TRUE, def |-> d]

P(b)       == [body |-> b, defers |-> <<>>, leaky |-> FALSE]
PD(b, d)   == [body |-> b, defers |-> d, leaky |-> FALSE]
PL(b)      == [body |-> b, defers |-> <<>>, leaky |-> TRUE]
Prog(t, par, caps, nmu, nwg, nvar, procs) ==
  [tpl |-> t, par |-> par, caps |-> caps, nmu |-> nmu, nwg |-> nwg, nvar |-> nvar, procs |-> procs]

----------------------------------------------------------------------
(* flattening: structured statements -> straight-line code with relative jumps *)
SubI(v, i) == IF v.k = "i" THEN C(v.n + i) ELSE v

ResolveBrk(cd) == [j \in 1..Len(cd) |->
                     IF cd[j].op = "brk" THEN [op |-> "jmp", off |-> Len(cd) - j + 1] ELSE cd[j]]

RECURSIVE Flat(_, _), FlatFor(_, _, _), FlatSel(_, _, _, _, _, _)
FlatOne(s, i) ==
  CASE s.op \in {"send", "log", "st"} -> << [s EXCEPT !.val = SubI(@, i)] >>
    [] s.op = "go"     -> << [op |-> "go", proc |-> s.proc + s.pstep * i, arg |-> SubI(s.arg, i)] >>
    [] s.op = "inc"    -> << [op |-> "ldu", var |-> s.var], [op |-> "stu", var |-> s.var] >>   \* x++ : load, then store
    [] s.op = "for"    -> ResolveBrk(FlatFor(s.body, 0, s.n))
    [] s.op = "range"  -> LET b == Flat(s.body, i)
                          IN ResolveBrk(<< [op |-> "rrecv", ch |-> s.ch, exit |-> Len(b) + 2] >> \o b
                                        \o << [op |-> "jmp", off |-> 0 - (Len(b) + 1)] >>)
    [] s.op = "loop"   -> LET b == Flat(s.body, i)
                          IN ResolveBrk(b \o << [op |-> "jmp", off |-> 0 - Len(b)] >>)
    [] s.op = "ifnok"  -> LET b == Flat(s.body, i)
                          IN << [op |-> "jok", off |-> Len(b) + 1] >> \o b
    [] s.op = "select" ->
         LET bs   == [k \in 1..Len(s.cases) |-> Flat(s.cases[k].body, i)]
             d    == Flat(s.def, i)
         IN FlatSel(s, i, bs, d, 1, <<>>)
    [] OTHER -> << s >>

(* start offset (relative to the select instruction) of case k given the bodies *)
RECURSIVE SelStart(_, _)
SelStart(bs, k) == IF k = 1 THEN 1 ELSE SelStart(bs, k - 1) + Len(bs[k - 1]) + 1

FlatSel(s, i, bs, d, k, acc) ==
  LET n     == Len(s.cases)
      endo  == SelStart(bs, n + 1) + Len(d)       \* offset of the first instruction after the select
  IN IF k > n
     THEN << [op |-> "select",
              alts |-> [j \in 1..n |-> [dir |-> s.cases[j].dir, ch |-> s.cases[j].ch,
                                         val |-> SubI(s.cases[j].val, i),
                                         form |-> s.cases[j].form, to |-> SelStart(bs, j)]],
              hasdef |-> s.hasdef, defto |-> SelStart(bs, n + 1)] >> \o acc \o d
     ELSE FlatSel(s, i, bs, d, k + 1,
                  acc \o bs[k] \o << [op |-> "jmp", off |-> endo - (SelStart(bs, k) + Len(bs[k]))] >>)

Flat(ss, i) == IF ss = <<>> THEN <<>> ELSE FlatOne(Head(ss), i) \o Flat(Tail(ss), i)
FlatFor(b, j, n) == IF j >= n THEN <<>> ELSE Flat(b, j) \o FlatFor(b, j + 1, n)

RECURSIVE Rev(_)
Rev(s) == IF s = <<>> THEN <<>> ELSE Rev(Tail(s)) \o << Head(s) >>

(* deferred statements are written at the top of the body and run last-in first-out at exit *)
FlatProc(pr) == LET b == Flat(pr.body, 0)
                IN [cd |-> b \o Rev(Flat(pr.defers, 0)), dstart |-> Len(b) + 1]

----------------------------------------------------------------------
(* the program set: template instances *)
SeqOf(S, f(_)) == LET RECURSIVE go(_)
                      go(SS) == IF SS = {} THEN <<>>
                                ELSE LET x == CHOOSE y \in SS : TRUE IN << f(x) >> \o go(SS \ {x})
                  IN go(S)
RECURSIVE Cat(_)
Cat(ss) == IF ss = <<>> THEN <<>> ELSE Head(ss) \o Cat(Tail(ss))
Hi(a, b) == IF Size = 1 THEN a ELSE b
Rep(n, x) == [j \in 1..n |-> x]

Producer(c, n, base) == << For(n, << Send(c, I(base)) >>), Close(c) >>

TPipeline(s, n, k) ==
  Prog("pipeline", <<s, n, k>>, Rep(s - 1, k), 0, 0, 0,
       IF s = 2
       THEN << P(<< Go(2, C(0)), Range(1, << Log(V(0)) >>) >>), P(Producer(1, n, 1)) >>
       ELSE IF s = 3
       THEN << P(<< Go(2, C(0)), Go(3, C(0)), Range(2, << Log(V(0)) >>) >>),
               P(Producer(1, n, 1)),
               P(<< Range(1, << Send(2, V(10)) >>), Close(2) >>) >>
       ELSE << P(<< Go(2, C(0)), Go(3, C(0)), Go(4, C(0)), Range(3, << Log(V(0)) >>) >>),
               P(Producer(1, n, 1)),
               P(<< Range(1, << Send(2, V(10)) >>), Close(2) >>),
               P(<< Range(2, << Send(3, V(100)) >>), Close(3) >>) >>)

TFanin(n1, n2, k, join) ==
  Prog("fanin", <<n1, n2, k, join>>, <<k>>, 0, join, 0,
       IF join = 0
       THEN << P(<< Go(2, C(0)), Go(3, C(0)), For(n1 + n2, << Recv(1, "v"), Log(V(0)) >>) >>),
               P(<< For(n1, << Send(1, I(10)) >>) >>),
               P(<< For(n2, << Send(1, I(20)) >>) >>) >>
       ELSE << P(<< WgAdd(1, 2), Go(2, C(0)), Go(3, C(0)), Go(4, C(0)), Range(1, << Log(V(0)) >>) >>),
               PD(<< For(n1, << Send(1, I(10)) >>) >>, << WgDone(1) >>),
               PD(<< For(n2, << Send(1, I(20)) >>) >>, << WgDone(1) >>),
               P(<< WgWait(1), Close(1) >>) >>)

TCloseRange(n, k, f) ==
  Prog("closerange", <<n, k, f>>, <<k>>, 0, 0, 0,
       << P(<< Go(2, C(0)) >> \o
            (IF f = 0 THEN << Range(1, << Log(V(0)) >>) >>
             ELSE << Loop(<< Recv(1, "vok"), IfNok(<< Brk >>), Log(V(0)) >>) >>) \o
            << Recv(1, "vok"), Log(V(50)), Log(OKV), Recv(1, "v"), Log(V(60)) >>),
          P(Producer(1, n, 1)) >>)

TSelPoll(n, m, k) ==
  Prog("selpoll", <<n, m, k>>, <<k>>, 0, 0, 0,
       << P(<< Go(2, C(0)),
               For(n, << SelectD(<< CaseR(1, "vdef", << Log(V(0)) >>) >>, << Log(C(0 - 5)) >>) >>),
               Range(1, << Log(V(100)) >>) >>),
          P(Producer(1, m, 1)) >>)

TSel2(v) ==
  CASE v = 0 -> Prog("sel2", <<v>>, <<1, 1>>, 0, 0, 0,
         << P(<< Send(1, C(1)), Send(2, C(2)),
                 For(2, << Select(<< CaseR(1, "v", << Log(V(10)) >>), CaseR(2, "vdef", << Log(V(20)) >>) >>) >>) >>) >>)
    [] v = 1 -> Prog("sel2", <<v>>, <<1, 1>>, 0, 0, 0,
         << P(<< Send(1, C(1)),
                 For(2, << Select(<< CaseR(1, "v", << Log(V(10)) >>), CaseS(2, A(7), << Log(C(70)) >>) >>) >>),
                 Recv(2, "v"), Log(V(0)) >>) >>)
    [] v = 2 -> Prog("sel2", <<v>>, <<1, 1>>, 0, 0, 0,
         << P(<< Close(1), Send(2, C(2)),
                 For(2, << Select(<< CaseR(1, "v", << Log(V(10)) >>), CaseR(2, "v", << Log(V(20)) >>) >>) >>) >>) >>)
    [] v = 3 -> Prog("sel2", <<v>>, <<1, 1>>, 0, 0, 0,
         << P(<< Send(1, C(1)), Send(2, C(2)),
                 For(3, << SelectD(<< CaseR(1, "v", << Log(V(10)) >>), CaseR(2, "v", << Log(V(20)) >>) >>,
                                   << Log(C(0 - 5)) >>) >>) >>) >>)
    [] v = 4 -> Prog("sel2", <<v>>, <<1, 0 - 1, 2>>, 0, 0, 0,
         << P(<< Send(1, C(1)), Send(3, C(3)), Send(3, C(4)),
                 For(3, << Select(<< CaseR(1, "v", << Log(V(10)) >>), CaseR(2, "v", << Log(V(20)) >>),
                                     CaseR(3, "vdef", << Log(V(30)) >>) >>) >>) >>) >>)
    [] v = 5 -> Prog("sel2", <<v>>, <<1, 1>>, 0, 0, 0,
         << P(<< Close(1), Send(2, C(2)),
                 Select(<< CaseS(1, A(1), << Log(C(1)) >>), CaseR(2, "v", << Log(V(20)) >>) >>),
                 Log(C(9)) >>) >>)
    [] v = 6 -> Prog("sel2", <<v>>, <<0, 0>>, 0, 0, 0,      \* two senders parked on two channels
         << P(<< Go(2, C(1)), Go(3, C(2)),
                 For(2, << Select(<< CaseR(1, "v", << Log(V(10)) >>), CaseR(2, "v", << Log(V(20)) >>) >>) >>) >>),
            P(<< Send(1, A(0)) >>), P(<< Send(2, A(0)) >>) >>)
    [] OTHER -> Prog("sel2", <<v>>, <<0, 0>>, 0, 0, 0,      \* select send against two receivers
         << P(<< Go(2, C(0)), Go(3, C(0)),
                 Select(<< CaseS(1, A(1), << Log(C(1)) >>), CaseS(2, A(2), << Log(C(2)) >>) >>),
                 Select(<< CaseS(1, A(3), << Log(C(3)) >>), CaseS(2, A(4), << Log(C(4)) >>) >>),
                 Close(1), Close(2) >>),
            P(<< Range(1, << Log(V(10)) >>) >>), P(<< Range(2, << Log(V(20)) >>) >>) >>)

TProdCons(k, n, style) ==
  Prog("prodcons", <<k, n, style>>, <<k, 0>>, 0, 0, 0,
       << P(<< Go(2, C(0)), Go(3, C(0)), Recv(2, "drop"), Log(C(99)) >>),
          P(IF style = 0 THEN << For(n, << Send(1, I(1)) >>) >> ELSE Producer(1, n, 1)),
          P((IF style = 0 THEN << For(n, << Recv(1, "v"), Log(V(0)) >>) >>
             ELSE IF style = 1 THEN << Range(1, << Log(V(0)) >>) >>
             ELSE << Loop(<< Recv(1, "vok"), IfNok(<< Brk >>), Log(V(0)) >>) >>)
            \o (IF style = 1 THEN << Close(2) >> ELSE << Send(2, C(0)) >>)) >>)

Worker(k) == << For(k, << Lock(1), Ld(1), St(1, T(1)), Log(T(0)), Unlock(1) >>) >>
TMutexCtr(g, k, join) ==
  Prog("mutexctr", <<g, k, join>>, IF join = 0 THEN <<>> ELSE << join - 1 >>, 1, 1 - (IF join = 0 THEN 0 ELSE 1), 1,
       << IF join = 0
          THEN P(<< For(g, << WgAdd(1, 1), GoI(2, I(0)) >>), WgWait(1), Ld(1), Log(T(100)) >>)
          ELSE P(<< For(g, << GoI(2, I(0)) >>), For(g, << Recv(1, "drop") >>), Ld(1), Log(T(100)) >>) >>
       \o Rep(g, IF join = 0 THEN PD(Worker(k), << WgDone(1) >>)
                 ELSE P(Worker(k) \o << Send(1, C(0)) >>)))

TWgJoin(g, m) ==
  Prog("wgjoin", <<g, m>>, <<>>, 0, 1, 0,
       << P(<< For(g, << WgAdd(1, 1), GoI(2, I(1)) >>), WgWait(1), Log(C(99)) >>) >>
       \o Rep(g, PD(IF m = 0 THEN << Log(A(0)) >> ELSE << Log(A(0)), Log(A(10)) >>, << WgDone(1) >>)))

TPanics(v, k) ==
  CASE v = 0 -> Prog("panics", <<v, k>>, <<k>>, 0, 0, 0,
         << P(<< Close(1), Send(1, C(1)), Log(C(7)) >>) >>)
    [] v = 1 -> Prog("panics", <<v, k>>, <<k>>, 0, 1, 0,
         << P(<< WgAdd(1, 1), Go(2, C(0)), WgWait(1), Log(C(99)) >>),
            PD(<< Close(1), Send(1, C(1)), Log(C(7)) >>, << WgDone(1) >>) >>)
    [] v = 2 -> Prog("panics", <<v, k>>, <<k>>, 0, 0, 0,
         << P(<< Close(1), Log(C(6)), Close(1), Log(C(7)) >>) >>)
    [] v = 3 -> Prog("panics", <<v, k>>, <<0 - 1>>, 0, 0, 0,
         << P(<< Log(C(6)), Close(1), Log(C(7)) >>) >>)
    [] v = 4 -> Prog("panics", <<v, k>>, <<k>>, 0, 0, 0,      \* close while a sender may be parked
         << P(<< Go(2, C(0)), Close(1) >>), P(<< Send(1, C(1)), Log(C(5)) >>) >>)
    [] v = 5 -> Prog("panics", <<v, k>>, <<k>>, 0, 0, 0,      \* close while a receiver may be parked
         << P(<< Go(2, C(0)), Close(1) >>), P(<< Recv(1, "vok"), Log(V(40)), Log(OKV) >>) >>)
    [] v = 6 -> Prog("panics", <<v, k>>, <<k>>, 0, 0, 0,      \* deferred statements run while panicking
         << PD(<< Close(1), Send(1, C(1)), Log(C(7)) >>, << Log(C(8)), Log(C(9)) >>) >>)
    [] v = 7 -> Prog("panics", <<v, k>>, <<k>>, 0, 0, 0,      \* goroutine closes twice, main continues
         << P(<< Go(2, C(0)), Recv(1, "vok"), Log(OKV) >>),
            P(<< Close(1), Close(1), Log(C(7)) >>) >>)
    [] OTHER -> Prog("panics", <<v, k>>, <<k, 0 - 1>>, 0, 0, 0, \* goroutine closes a nil channel
         << P(<< Go(2, C(0)), Recv(1, "vok"), Log(OKV) >>),
            PD(<< Send(1, C(4)), Close(2), Log(C(7)) >>, << Log(C(8)) >>) >>)

TNilSel(v) ==
  CASE v = 0 -> Prog("nilsel", <<v>>, <<0 - 1>>, 0, 0, 0,
         << P(<< SelectD(<< CaseR(1, "v", << Log(C(1)) >>) >>, << Log(C(0 - 5)) >>) >>) >>)
    [] v = 1 -> Prog("nilsel", <<v>>, <<0 - 1>>, 0, 0, 0,
         << P(<< SelectD(<< CaseS(1, A(1), << Log(C(1)) >>) >>, << Log(C(0 - 5)) >>) >>) >>)
    [] v = 2 -> Prog("nilsel", <<v>>, <<0 - 1, 1>>, 0, 0, 0,
         << P(<< Send(2, C(2)),
                 Select(<< CaseR(1, "drop", << Log(C(1)) >>), CaseR(2, "v", << Log(V(20)) >>) >>) >>) >>)
    [] v = 3 -> Prog("nilsel", <<v>>, <<0 - 1, 1>>, 0, 0, 0,
         << P(<< Close(2),
                 For(2, << Select(<< CaseS(1, A(3), << Log(C(1)) >>), CaseR(2, "v", << Log(V(20)) >>) >>) >>) >>) >>)
    [] OTHER -> Prog("nilsel", <<v>>, <<0 - 1, 0>>, 0, 0, 0,  \* blocks on {nil, c2} until the goroutine sends
         << P(<< Go(2, C(4)),
                 Select(<< CaseS(1, A(3), << Log(C(1)) >>), CaseR(2, "vdef", << Log(V(20)) >>) >>) >>),
            P(<< Send(2, A(0)) >>) >>)

TNilBlock(v) ==
  Prog("nilblock", <<v>>, <<0 - 1, 0>>, 0, 0, 0,
       << P(<< Go(2, C(0)), Recv(2, "v"), Log(V(0)) >>),
          PL(<< Send(2, C(1)) >> \o
             (IF v = 0 THEN << Recv(1, "v") >>
              ELSE IF v = 1 THEN << Send(1, C(1)) >>
              ELSE << Select(<< CaseR(1, "drop", <<>>), CaseS(1, A(2), <<>>) >>) >>)
             \o << Log(C(66)) >>) >>)

(* programs the model must REJECT: races and deadlocks *)
TRejected(v) ==
  CASE v = 0 -> Prog("rejected", <<v>>, <<>>, 0, 1, 1,       \* unprotected counter
         << P(<< WgAdd(1, 2), Go(2, C(0)), Go(3, C(0)), WgWait(1), Ld(1), Log(T(0)) >>),
            PD(<< Inc(1) >>, << WgDone(1) >>), PD(<< Inc(1) >>, << WgDone(1) >>) >>)
    [] v = 1 -> Prog("rejected", <<v>>, <<0>>, 0, 0, 0,        \* nobody sends
         << P(<< Recv(1, "v"), Log(V(0)) >>) >>)
    [] v = 2 -> Prog("rejected", <<v>>, <<1>>, 0, 0, 0,        \* deadlock on some schedules only
         << P(<< Go(2, C(0)), Send(1, C(1)), Recv(1, "v"), Log(V(0)) >>),
            P(<< SelectD(<< CaseR(1, "v", <<>>) >>, <<>>) >>) >>)
    [] v = 3 -> Prog("rejected", <<v>>, <<1>>, 0, 0, 1,        \* store not ordered before the load
         << P(<< Go(2, C(0)), Ld(1), Log(T(0)), Recv(1, "drop") >>),
            P(<< St(1, C(5)), Send(1, C(0)) >>) >>)
    [] v = 4 -> Prog("rejected", <<v>>, <<>>, 1, 0, 0,         \* locks twice
         << P(<< Lock(1), Lock(1), Log(C(1)) >>) >>)
    [] OTHER -> Prog("rejected", <<v>>, <<0>>, 0, 0, 1,        \* mutex missing on one side only
         << P(<< Go(2, C(0)), Inc(1), Recv(1, "drop") >>),
            P(<< Inc(1), Send(1, C(0)) >>) >>)

TSelSend(n, k) ==
  Prog("selsend", <<n, k>>, <<k, k>>, 0, 0, 0,
       << P(<< Go(2, C(0)), Go(3, C(0)),
               For(n, << Select(<< CaseS(1, I(1), <<>>), CaseS(2, I(1), <<>>) >>) >>),
               Close(1), Close(2) >>),
          P(<< Range(1, << Log(V(10)) >>) >>), P(<< Range(2, << Log(V(20)) >>) >>) >>)

(* comma-ok receive inside select *)
TSelClosed(v) ==
  CASE v = 0 -> Prog("selclosed", <<v>>, <<1>>, 0, 0, 0,
         << P(<< Close(1), Select(<< CaseR(1, "vok", << Log(V(0)), Log(OKV) >>) >>) >>) >>)
    [] v = 1 -> Prog("selclosed", <<v>>, <<1>>, 0, 0, 0,
         << P(<< Close(1), Select(<< CaseR(1, "vokdef", << Log(V(0)), Log(OKV) >>) >>) >>) >>)
    [] v = 2 -> Prog("selclosed", <<v>>, <<2>>, 0, 0, 0,
         << P(<< Send(1, C(1)), Close(1),
                 For(2, << Select(<< CaseR(1, "vok", << Log(V(0)), Log(OKV) >>) >>) >>) >>) >>)
    [] OTHER -> Prog("selclosed", <<v>>, <<0>>, 0, 0, 0,
         << P(<< Go(2, C(0)),
                 For(2, << Select(<< CaseR(1, "vokdef", << Log(V(0)), Log(OKV) >>) >>) >>) >>),
            P(Producer(1, 1, 1)) >>)

(* comma-ok receive inside select on OPEN channels (ok must be true) *)
TSelOk(v, k) ==
  Prog("selok", <<v, k>>, <<k>>, 0, 0, 0,
       << P(<< Go(2, C(0)),
               Select(<< CaseR(1, IF v = 0 THEN "vok" ELSE "vokdef", << Log(V(0)), Log(OKV) >>) >>) >>),
          P(<< Send(1, C(3)) >>) >>)

(* an untyped constant as the value of a select send case *)
TSelSendConst(v, k) ==
  Prog("selsendconst", <<v, k>>, <<k>>, 0, 0, 0,
       << P(<< Go(2, C(0)) >> \o
            (IF v = 0 THEN << Select(<< CaseS(1, C(7), << Log(C(1)) >>) >>) >>
             ELSE << Loop(<< SelectD(<< CaseS(1, C(7), << Log(C(1)), Brk >>) >>, <<>>) >>) >>)),
          P(<< Recv(1, "v"), Log(V(10)) >>) >>)

TDeferClose(n, k) ==
  Prog("deferclose", <<n, k>>, <<k>>, 0, 0, 0,
       << P(<< Go(2, C(0)), Range(1, << Log(V(0)) >>) >>),
          PD(<< For(n, << Send(1, I(1)) >>) >>, << Close(1) >>) >>)

TPingPong(n) ==
  Prog("pingpong", <<n>>, <<0, 0>>, 0, 0, 0,
       << P(<< Go(2, C(0)), For(n, << Send(1, I(1)), Recv(2, "v"), Log(V(0)) >>), Close(1) >>),
          P(<< Range(1, << Log(V(0)), Send(2, V(100)) >>) >>) >>)

TGoArg(v) ==
  IF v = 0
  THEN Prog("goarg", <<v>>, <<>>, 0, 1, 1,
         << P(<< St(1, C(5)), Ld(1), WgAdd(1, 1), Go(2, T(1)), St(1, C(7)), WgWait(1), Ld(1), Log(T(0)) >>),
            PD(<< Log(A(0)) >>, << WgDone(1) >>) >>)
  ELSE Prog("goarg", <<v>>, <<0>>, 0, 0, 0,                   \* nested go statements
         << P(<< Go(2, C(3)), Recv(1, "v"), Log(V(0)), Recv(1, "v"), Log(V(0)) >>),
            P(<< Go(3, A(10)), Send(1, A(0)) >>),
            P(<< Send(1, A(100)) >>) >>)

(* a channel of capacity 1 used as a lock: the k-th receive happens before the (k+1)-th send *)
TSemaphore(g, k) ==
  Prog("semaphore", <<g, k>>, <<1>>, 0, 1, 1,
       << P(<< For(g, << WgAdd(1, 1), GoI(2, I(0)) >>), WgWait(1), Ld(1), Log(T(100)) >>) >>
       \o Rep(g, PD(<< For(k, << Send(1, C(0)), Ld(1), St(1, T(1)), Log(T(0)), Recv(1, "drop") >>) >>,
                    << WgDone(1) >>)))

(* mutex handed from one goroutine to another (unlock by a different goroutine is legal) *)
TMutexHandoff(v) ==
  Prog("mutexhandoff", <<v>>, <<v>>, 1, 0, 1,
       << P(<< Lock(1), Go(2, C(0)), St(1, C(4)), Send(1, C(0)), Lock(1), Ld(1), Log(T(0)), Unlock(1) >>),
          P(<< Recv(1, "drop"), Inc(1), Unlock(1) >>) >>)

(* worker pool: feeder -> jobs channel -> w workers -> results channel, closed after the join *)
TWorkerPool(w, j, k) ==
  Prog("workerpool", <<w, j, k>>, <<k, k>>, 0, 1, 0,
       << P(<< WgAdd(1, w), Go(2, C(0)), Go(3, C(0)), For(w, << GoI(4, I(1)) >>),
               Range(2, << Log(V(0)) >>) >>),
          P(Producer(1, j, 1)),
          P(<< WgWait(1), Close(2) >>) >>
       \o Rep(w, PD(<< Range(1, << Send(2, V(100)) >>) >>, << WgDone(1) >>)))

(* w goroutines started by ONE go statement in a loop execute the same select statement, each
   with its own operands: worker a sends its argument (computed by a yielding call) on ITS
   channel a (form "bya": the source text says cx[a]).  No goroutine may see the channel or
   the value of another: channel j receives j *)
CaseSA(c, v) == [dir |-> "send", ch |-> c, val |-> v, form |-> "bya", body |-> <<>>]
TSelWorkers(w, k) ==
  Prog("selworkers", <<w, k>>, [j \in 1..w |-> 1 + k], 0, 1, 0,
       << P(<< WgAdd(1, w), For(w, << GoI(2, I(1)) >>), WgWait(1) >>
            \o Cat([j \in 1..w |-> << Recv(j, "v"), Log(V(100 * j)) >>])) >>
       \o [j \in 1..w |-> PD(<< Select(<< CaseSA(j, AY(0)) >>) >>, << WgDone(1) >>)])

(* quit channel: the consumer leaves when done is closed, possibly before draining *)
TQuit(n, k) ==
  Prog("quit", <<n, k>>, <<k, 0, 0>>, 0, 0, 0,
       << P(<< Go(2, C(0)), For(n, << Send(1, I(1)) >>), Close(2), Recv(3, "drop"), Log(C(99)) >>),
          P(<< Loop(<< Select(<< CaseR(1, "vdef", << Log(V(0)) >>), CaseR(2, "drop", << Brk >>) >>) >>),
               Close(3) >>) >>)

(* deferred Unlock and Done *)
TMutexDefer(g) ==
  Prog("mutexdefer", <<g>>, <<>>, 1, 1, 1,
       << P(<< For(g, << WgAdd(1, 1), GoI(2, I(0)) >>), WgWait(1), Lock(1), Ld(1), Unlock(1), Log(T(100)) >>) >>
       \o Rep(g, PD(<< Lock(1), Ld(1), St(1, T(1)), Log(T(0)) >>, << WgDone(1), Unlock(1) >>)))

(* non-blocking sends into a buffer until it is full *)
TBufferFill(k, extra) ==
  Prog("bufferfill", <<k, extra>>, <<k>>, 0, 0, 0,
       << P(<< For(k + extra, << SelectD(<< CaseS(1, I(1), << Log(C(1)) >>) >>, << Log(C(0 - 5)) >>) >>),
               Close(1), Range(1, << Log(V(10)) >>) >>) >>)

Progs ==
  Cat(<< SeqOf((2..Hi(3, 4)) \X (1..Hi(2, 4)) \X (0..2), LAMBDA x : TPipeline(x[1], x[2], x[3])),
         SeqOf((1..Hi(2, 3)) \X (1..Hi(1, 3)) \X (0..2) \X (0..1), LAMBDA x : TFanin(x[1], x[2], x[3], x[4])),
         SeqOf((0..2) \X (0..2) \X (0..1), LAMBDA x : TCloseRange(x[1], x[2], x[3])),
         SeqOf((1..Hi(2, 3)) \X (0..Hi(2, 3)) \X (0..2), LAMBDA x : TSelPoll(x[1], x[2], x[3])),
         SeqOf(0..7, LAMBDA x : TSel2(x)),
         SeqOf((0..2) \X (1..Hi(2, 3)) \X (0..2), LAMBDA x : TProdCons(x[1], x[2], x[3])),
         SeqOf({x \in (2..Hi(2, 4)) \X (1..Hi(2, 3)) \X (0..2) : x[1] * x[2] <= 8}, LAMBDA x : TMutexCtr(x[1], x[2], x[3])),
         SeqOf((1..Hi(3, 4)) \X (0..1), LAMBDA x : TWgJoin(x[1], x[2])),
         SeqOf((0..8) \X (0..1), LAMBDA x : TPanics(x[1], x[2])),
         SeqOf(0..4, LAMBDA x : TNilSel(x)),
         SeqOf(0..2, LAMBDA x : TNilBlock(x)),
         SeqOf(0..5, LAMBDA x : TRejected(x)),
         SeqOf((1..Hi(2, 4)) \X (0..Hi(1, 2)), LAMBDA x : TSelSend(x[1], x[2])),
         SeqOf(0..3, LAMBDA x : TSelClosed(x)),
         SeqOf((0..1) \X (0..1), LAMBDA x : TSelOk(x[1], x[2])),
         SeqOf((0..2) \X (0..1), LAMBDA x : TDeferClose(x[1], x[2])),
         SeqOf((0..1) \X (0..1), LAMBDA x : TSelSendConst(x[1], x[2])),
         SeqOf(1..Hi(3, 5), LAMBDA x : TPingPong(x)),
         SeqOf(0..1, LAMBDA x : TGoArg(x)),
         SeqOf((2..Hi(2, 3)) \X (1..Hi(2, 3)), LAMBDA x : TSemaphore(x[1], x[2])),
         SeqOf(0..1, LAMBDA x : TMutexHandoff(x)),
         SeqOf((2..Hi(2, 3)) \X (1..Hi(2, 3)) \X (0..1), LAMBDA x : TWorkerPool(x[1], x[2], x[3])),
         SeqOf((2..Hi(2, 3)) \X (0..1), LAMBDA x : TSelWorkers(x[1], x[2])),
         SeqOf((1..Hi(2, 3)) \X (0..2), LAMBDA x : TQuit(x[1], x[2])),
         SeqOf(2..Hi(3, 4), LAMBDA x : TMutexDefer(x)),
         SeqOf((0..2) \X (0..2), LAMBDA x : TBufferFill(x[1], x[2])) >>)

Codes == [j \in 1..Len(Progs) |-> [p \in 1..Len(Progs[j].procs) |-> FlatProc(Progs[j].procs[p])]]

----------------------------------------------------------------------
VARIABLES id, st
vars == <<id, st>>

Pr       == Progs[id]
NP       == Len(Pr.procs)
Procs    == 1..NP
Cd(p)    == Codes[id][p].cd
DStart(p) == Codes[id][p].dstart
IsNil(c) == Pr.caps[c] = 0 - 1

Regs0 == [v |-> 0, ok |-> FALSE, a |-> 0, t |-> 0, u |-> 0, pend |-> 0]

RECURSIVE Follow(_, _, _)
Follow(cd, k, ok) ==
  IF k > Len(cd) THEN k
  ELSE IF cd[k].op = "jmp" THEN Follow(cd, k + cd[k].off, ok)
  ELSE IF cd[k].op = "jok" THEN Follow(cd, IF ok THEN k + cd[k].off ELSE k + 1, ok)
  ELSE k

InitSt(j) ==
  LET pr == Progs[j] IN
  [pc   |-> [p \in 1..Len(pr.procs) |-> IF p = 1 THEN Follow(Codes[j][1].cd, 1, FALSE) ELSE 0],
   regs |-> [p \in 1..Len(pr.procs) |-> Regs0],
   chs  |-> [c \in 1..Len(pr.caps) |-> [buf |-> <<>>, closed |-> FALSE]],
   mus  |-> [m \in 1..pr.nmu |-> 0],
   wgs  |-> [w \in 1..pr.nwg |-> 0],
   xs   |-> [x \in 1..pr.nvar |-> 0],
   log  |-> <<>>,
   sent |-> [c \in 1..Len(pr.caps) |-> <<>>],     \* history: every value sent on c
   rcvd |-> [c \in 1..Len(pr.caps) |-> <<>>],     \* history: every sent value received from c
   cs   |-> {},                                    \* history: <<p, m>> p acquired m and nobody released it
   last |-> [v |-> 0, ok |-> TRUE, empty |-> FALSE, closed |-> FALSE],  \* history: the last receive
   bad  |-> ""]

Init == id \in 1..Len(Progs) /\ st = InitSt(id)

Eval(s, p, e) ==
  CASE e.k = "c" -> e.n
    [] e.k = "v" -> s.regs[p].v + e.n
    [] e.k = "a" -> s.regs[p].a + e.n
    [] e.k = "ay" -> s.regs[p].a + e.n
    [] e.k = "t" -> s.regs[p].t + e.n
    [] e.k = "ok" -> IF s.regs[p].ok THEN 1 ELSE 0
    [] OTHER -> e.n

Running(p) == st.pc[p] >= 1 /\ st.pc[p] <= Len(Cd(p))
Ins(p)     == Cd(p)[st.pc[p]]

SetPc(s, p, k) == [s EXCEPT !.pc[p] = Follow(Cd(p), k, s.regs[p].ok)]
Unsupported(s) == [s EXCEPT !.bad = "unsupported"]
PanicS(s, p, code) ==
  IF s.pc[p] >= DStart(p) THEN Unsupported(s)
  ELSE SetPc([s EXCEPT !.regs[p].pend = code], p, DStart(p))

(* communication alternatives offered by p at its current instruction *)
Alt(d, c, v, f, to, ex) == [dir |-> d, ch |-> c, val |-> v, form |-> f, to |-> to, exit |-> ex]
Alts(p) ==
  IF ~Running(p) THEN {}
  ELSE LET ins == Ins(p) pc == st.pc[p] IN
    CASE ins.op = "send"  -> { Alt("send", ins.ch, Eval(st, p, ins.val), "", pc + 1, 0) }
      [] ins.op = "recv"  -> { Alt("recv", ins.ch, 0, ins.form, pc + 1, 0) }
      [] ins.op = "rrecv" -> { Alt("recv", ins.ch, 0, "range", pc + 1, pc + ins.exit) }
      [] ins.op = "select" ->
           { Alt(ins.alts[k].dir, ins.alts[k].ch,
                 IF ins.alts[k].dir = "send" THEN Eval(st, p, ins.alts[k].val) ELSE 0,
                 ins.alts[k].form, pc + ins.alts[k].to, 0) : k \in DOMAIN ins.alts }
      [] OTHER -> {}
HasDef(p) == Running(p) /\ Ins(p).op = "select" /\ Ins(p).hasdef
IsSelect(p) == Running(p) /\ Ins(p).op = "select"

Cap(c) == Pr.caps[c]
SoloReady(a) ==
  /\ ~IsNil(a.ch)
  /\ IF a.dir = "send" THEN st.chs[a.ch].closed \/ Len(st.chs[a.ch].buf) < Cap(a.ch)
     ELSE st.chs[a.ch].closed \/ Len(st.chs[a.ch].buf) > 0

(* registers after a receive of (v, ok) through form f *)
RecvRegs(s, p, f, v, ok) ==
  CASE f \in {"v", "vdef", "range"}  -> [s EXCEPT !.regs[p].v = v]
    [] f \in {"vok", "vokdef"}        -> [s EXCEPT !.regs[p].v = v, !.regs[p].ok = ok]
    [] OTHER -> s

DoSolo(p, a) ==
  LET c == a.ch ch == st.chs[c] IN
  IF a.dir = "send"
  THEN IF ch.closed THEN PanicS(st, p, 1)
       ELSE SetPc([st EXCEPT !.chs[c].buf = Append(@, a.val), !.sent[c] = Append(@, a.val)], p, a.to)
  ELSE IF ch.buf # <<>>
       THEN SetPc(RecvRegs([st EXCEPT !.chs[c].buf = Tail(@), !.rcvd[c] = Append(@, Head(ch.buf)),
                                      !.last = [v |-> Head(ch.buf), ok |-> TRUE, empty |-> FALSE, closed |-> ch.closed]],
                           p, a.form, Head(ch.buf), TRUE), p, a.to)
       ELSE \* closed and drained
            IF a.form = "range" /\ Broken # "range-no-end"
            THEN SetPc(st, p, a.exit)
            ELSE IF Broken = "range-no-end" /\ a.form = "range"
            THEN SetPc(RecvRegs([st EXCEPT !.rcvd[c] = Append(@, 0)], p, a.form, 0, TRUE), p, a.to)
            ELSE LET okv == (Broken = "closed-ok") IN
                 SetPc(RecvRegs([st EXCEPT !.last = [v |-> 0, ok |-> okv, empty |-> TRUE, closed |-> TRUE]],
                                p, a.form, 0, okv), p, a.to)

Solo(p) == \E a \in Alts(p) :
             /\ \/ SoloReady(a)
                \/ Broken = "select-nonready" /\ IsSelect(p) /\ a.dir = "recv" /\ ~IsNil(a.ch)
                   /\ ~st.chs[a.ch].closed /\ st.chs[a.ch].buf = <<>>
             /\ st' = IF SoloReady(a) THEN DoSolo(p, a)
                      ELSE SetPc(RecvRegs([st EXCEPT !.rcvd[a.ch] = Append(@, 0)], p, a.form, 0, TRUE), p, a.to)

Rendezvous(p, q) ==
  /\ p # q
  /\ ~(HasDef(p) /\ HasDef(q))
  /\ \E a \in Alts(p), b \in Alts(q) :
       /\ a.dir = "send" /\ b.dir = "recv" /\ a.ch = b.ch
       /\ ~IsNil(a.ch) /\ Cap(a.ch) = 0 /\ ~st.chs[a.ch].closed
       /\ st' = SetPc(SetPc(RecvRegs([st EXCEPT !.sent[a.ch] = Append(@, a.val), !.rcvd[a.ch] = Append(@, a.val),
                                                !.last = [v |-> a.val, ok |-> TRUE, empty |-> FALSE, closed |-> FALSE]],
                                     q, b.form, a.val, TRUE), q, b.to), p, a.to)

Default(p) ==
  /\ HasDef(p)
  /\ \A a \in Alts(p) : ~SoloReady(a)
  /\ st' = SetPc(st, p, st.pc[p] + Ins(p).defto)

Local(p) ==
  /\ Running(p)
  /\ LET ins == Ins(p) nx == st.pc[p] + 1 IN
     CASE ins.op = "close" ->
            st' = IF IsNil(ins.ch) THEN PanicS(st, p, 3)
                  ELSE IF st.chs[ins.ch].closed THEN PanicS(st, p, 2)
                  ELSE SetPc([st EXCEPT !.chs[ins.ch].closed = TRUE], p, nx)
       [] ins.op = "log"  -> st' = SetPc([st EXCEPT !.log = Append(@, Eval(st, p, ins.val))], p, nx)
       [] ins.op = "go"   ->
            st' = IF ins.proc \notin Procs \/ st.pc[ins.proc] # 0 THEN Unsupported(st)
                  ELSE SetPc([SetPc(st, p, nx) EXCEPT !.regs[ins.proc].a = Eval(st, p, ins.arg)], ins.proc, 1)
       [] ins.op = "lock" ->
            /\ st.mus[ins.mu] = 0 \/ Broken = "lock-shared"
            /\ st' = SetPc([st EXCEPT !.mus[ins.mu] = p, !.cs = @ \cup {<<p, ins.mu>>}], p, nx)
       [] ins.op = "unlock" ->
            st' = IF st.mus[ins.mu] = 0 THEN Unsupported(st)
                  ELSE SetPc([st EXCEPT !.mus[ins.mu] = 0, !.cs = {e \in @ : e[2] # ins.mu}], p, nx)
       [] ins.op = "wgadd"  -> st' = SetPc([st EXCEPT !.wgs[ins.wg] = @ + ins.n], p, nx)
       [] ins.op = "wgdone" ->
            st' = IF st.wgs[ins.wg] = 0 THEN Unsupported(st)
                  ELSE SetPc([st EXCEPT !.wgs[ins.wg] = @ - 1], p, nx)
       [] ins.op = "wgwait" -> st.wgs[ins.wg] = 0 /\ st' = SetPc(st, p, nx)
       [] ins.op = "ld"   -> st' = SetPc([st EXCEPT !.regs[p].t = st.xs[ins.var]], p, nx)
       [] ins.op = "st"   -> st' = SetPc([st EXCEPT !.xs[ins.var] = Eval(st, p, ins.val)], p, nx)
       [] ins.op = "ldu"  -> st' = SetPc([st EXCEPT !.regs[p].u = st.xs[ins.var]], p, nx)
       [] ins.op = "stu"  -> st' = SetPc([st EXCEPT !.xs[ins.var] = st.regs[p].u + 1], p, nx)
       [] OTHER -> FALSE

(* the rendered wrapper of a goroutine recovers a run-time panic and logs its negated class *)
Recover(p) ==
  /\ p # 1 /\ st.pc[p] = Len(Cd(p)) + 1 /\ st.regs[p].pend # 0
  /\ st' = [st EXCEPT !.log = Append(@, 0 - st.regs[p].pend), !.regs[p].pend = 0]

Step == /\ st.bad = ""
        /\ \/ \E p \in Procs : Solo(p) \/ Default(p) \/ Local(p) \/ Recover(p)
           \/ \E p \in Procs, q \in Procs : Rendezvous(p, q)
Next == Step /\ id' = id
Spec == Init /\ [][Next]_vars

----------------------------------------------------------------------
(* (M) invariants *)
BufBound == \A c \in DOMAIN st.chs : Len(st.chs[c].buf) <= (IF Cap(c) < 0 THEN 0 ELSE Cap(c))
(* everything received was sent, in order; what is buffered is exactly the rest *)
Fifo == \A c \in DOMAIN st.chs : st.sent[c] = st.rcvd[c] \o st.chs[c].buf
(* a receive answers ok = false exactly on a closed and drained channel, with the zero value *)
ClosedZero == /\ ~st.last.ok => st.last.closed /\ st.last.empty /\ st.last.v = 0
              /\ st.last.empty => ~st.last.ok
MutexExcl == \A e \in st.cs, f \in st.cs : e[2] = f[2] => e[1] = f[1]

----------------------------------------------------------------------
(* outcomes *)
Done(p)   == st.pc[p] = Len(Cd(p)) + 1 /\ (p = 1 \/ st.regs[p].pend = 0)
NotDone   == {p \in Procs : st.pc[p] # 0 /\ ~Done(p)}
LeakySet  == {p \in Procs : Pr.procs[p].leaky}
Access(p) == IF Running(p) /\ Ins(p).op \in {"ld", "ldu"} THEN << Ins(p).var, "ld" >>
             ELSE IF Running(p) /\ Ins(p).op \in {"st", "stu"} THEN << Ins(p).var, "st" >>
             ELSE << 0, "" >>
RaceNow   == \E p \in Procs, q \in Procs :
               /\ p # q /\ Access(p)[1] # 0 /\ Access(p)[1] = Access(q)[1]
               /\ "st" \in {Access(p)[2], Access(q)[2]}
Key == [tpl |-> Pr.tpl, par |-> Pr.par]
Outcome(kind) == [key |-> Key, kind |-> kind, log |-> st.log, xs |-> st.xs, pan |-> st.regs[1].pend]

Emit ==
  IF ~EmitOn THEN TRUE
  ELSE /\ (st = InitSt(id)) => PrintT(ToJson([key |-> Key, kind |-> "prog", prog |-> Pr]))
       /\ RaceNow => PrintT(ToJson(Outcome("race")))
       /\ (st.bad # "") => PrintT(ToJson(Outcome(st.bad)))
       /\ (st.bad = "" /\ ~ENABLED Step) =>
            PrintT(ToJson(Outcome(IF NotDone = LeakySet THEN "ok" ELSE "deadlock")))
======================================================================

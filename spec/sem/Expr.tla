-------------------------------- MODULE Expr --------------------------------
(***************************************************************************)
(* C01: typed expressions over basic types.  A CELL is one operator        *)
(* application                                                             *)
(*     [op, kind, (count kind), shape in {vv, cL, cR, cc}, a, b]           *)
(* and its meaning is Values!EvalBin / EvalShift / EvalUn.  This module    *)
(* ENUMERATES cells and prints them with their expected results:           *)
(*                                                                         *)
(*  Mode = "bfs": bounded-exhaustive.  The state descends                  *)
(*       start -> combo (group, kind, count kind) -> left operand a        *)
(*    and one record is printed per leaf: every operator of the kind, on   *)
(*    every right operand of the kind's boundary list, in every shape.     *)
(*    (Fan-out over combos lets TLC workers share the limb arithmetic.)    *)
(*  Mode = "sim": TLC -simulate walks once through all combos; the         *)
(*    operands are random byte patterns / random dyadic floats drawn with  *)
(*    RandomElement (reproducible from -seed).                             *)
(*                                                                         *)
(* (M) ShortcutsOK: the algebraic rewrites of Values (power-of-two         *)
(* multiplication / division / remainder with the signed fix-up, identity  *)
(* operands, MinInt / -1, MinInt % -1) equal the plain operators on ALL    *)
(* 8-bit values and on the boundary values of the wider kinds.             *)
(* QuoFix = FALSE is the broken variant (fix-up removed).                  *)
(***************************************************************************)
EXTENDS Values, Sequences, TLC, Json

CONSTANTS Mode,      \* "bfs" | "sim" | "m" (only the (M) invariants, nothing printed)
          Level,     \* 1 = quick value lists, 2 = thorough
          CKRot,     \* quick: which count kinds are paired with which shifted kind (seed)
          QuoFix,    \* TRUE = specification; FALSE = broken variant for the self-test
          NRows      \* sim: number of random right operands per record

VARIABLES cur
vars == <<cur>>

---------------------------------------------------------------------------
(* kinds and combos *)

\* Kinds with the same width and signedness have the same meaning (platform pinned to
\* amd64: int = int64, uint = uintptr = uint64).  TLC computes one record per
\* representative kind; the record lists the kinds it stands for (field ks / cks) and a
\* result's static type equal to the representative means "the kind itself".
IntKindSeq == <<"int8", "int16", "int32", "int64", "uint8", "uint16", "uint32", "uint64">>
Aliases(k) == IF k = "int64" THEN <<"int64", "int">>
              ELSE IF k = "uint64" THEN <<"uint64", "uint", "uintptr">>
              ELSE IF k = "" THEN <<>> ELSE <<k>>
KindSeq == IntKindSeq \o <<"float32", "float64", "string", "bool">>
NI == Len(IntKindSeq)

\* count kinds paired with the i-th shifted kind
CKIdx(i) == IF Level >= 2 \/ Mode = "sim" THEN 1..NI
            ELSE {((i + CKRot + 3 * j) % NI) + 1 : j \in 0..2}

BinCombos   == [i \in 1..Len(KindSeq) |-> [g |-> "bin", k |-> KindSeq[i], ck |-> ""]]
RECURSIVE SetToSeq(_)
SetToSeq(S) == IF S = {} THEN <<>>
               ELSE LET m == CHOOSE m \in S : \A y \in S : m <= y IN <<m>> \o SetToSeq(S \ {m})
RECURSIVE ShiftCombosFrom(_)
ShiftCombosFrom(i) ==
    IF i > NI THEN <<>>
    ELSE LET cks == SetToSeq(CKIdx(i))
         IN [j \in 1..Len(cks) |-> [g |-> "shift", k |-> IntKindSeq[i], ck |-> IntKindSeq[cks[j]]]]
            \o ShiftCombosFrom(i + 1)
Combos == BinCombos \o ShiftCombosFrom(1)
NC == Len(Combos)

---------------------------------------------------------------------------
(* boundary value lists *)

IV(K, n) == BVFromInt(K, n)
Rep(K, byte) == [i \in 1..K |-> byte]
BigP2(K) == BVPow2At(K, 8 * K - 2)

IntVals(k) ==
    LET K == KWidth(k)
        q == <<IV(K, 0), IV(K, 1), IV(K, 0 - 1), IV(K, 2), IV(K, 3), IV(K, 4), IV(K, 0 - 4),
               IF K >= 2 THEN IV(K, 256) ELSE IV(K, 8),
               BVMin(K), BVMax(K), BigP2(K)>>
        t == <<IV(K, 7), BVAdd(BVMin(K), IV(K, 1)), IV(K, 0 - 2), IF K >= 2 THEN IV(K, 8) ELSE IV(K, 16), IV(K, 0 - 3),
               IV(K, 100), BVSub(BVMax(K), IV(K, 1)), Rep(K, 85), Rep(K, 170), BVNeg(BigP2(K))>>
    IN IF Level >= 2 THEN q \o t ELSE q

ShiftLeftVals(k) ==
    LET K == KWidth(k)
        q == <<IV(K, 0), IV(K, 1), IV(K, 0 - 1), BVMin(K), BVMax(K), IV(K, 3), Rep(K, 85), IV(K, 0 - 4)>>
        t == <<BVAdd(BVMin(K), IV(K, 1)), Rep(K, 170)>>
    IN IF Level >= 2 THEN q \o t ELSE q

CountVals(ck) ==
    LET K == KWidth(ck)
        q == <<IV(K, 0), IV(K, 1), IV(K, 7), IV(K, 8), IV(K, 9), IV(K, 31), IV(K, 32), IV(K, 63), IV(K, 64),
               IV(K, 0 - 1), BVMin(K), IV(K, 5)>>
        t == <<IV(K, 15), IV(K, 16), IV(K, 17), IV(K, 65), BVMax(K), IF K >= 2 THEN IV(K, 255) ELSE IV(K, 0 - 2)>>
    IN IF Level >= 2 THEN q \o t ELSE q

FI(s, m, e) == FFin(s, m, e)
FloatVals(k) ==
    LET big  == IF k = "float32" THEN FI(0, 16777215, 104) ELSE FI(0, 1, 1023)     \* MaxFloat32 / 2^1023
        tiny == IF k = "float32" THEN FI(0, 1, 0 - 126) ELSE FI(0, 1, 0 - 1022)    \* smallest normal
        q == <<FZero(0), FZero(1), FI(0, 1, 0), FI(1, 1, 0), FI(0, 1, 0 - 1), FI(1, 2, 0), FI(0, 3, 0),
               FI(0, 1, 24), FI(0, 16777215, 0), big, tiny, FInf(0), FInf(1), FNaN,
               FI(0, 3, 0 - 1), FI(1, 3, 0 - 2)>>
        t == <<FI(0, 2, 0), FI(1, 1, 0 - 1), FI(1, 3, 0), FI(0, 10, 0), FI(0, 16777218, 0),
               IF k = "float32" THEN FI(0, 1, 25) ELSE FI(0, 1, 53), FNeg(big), FI(0, 7, 0), FI(0, 1, 0 - 2),
               IF k = "float32" THEN FI(0, 8388609, 0) ELSE FI(0, 1073741823, 0), FI(0, 100, 0), FI(1, 3, 0 - 1)>>
    IN IF Level >= 2 THEN q \o t ELSE q

StrVals == LET q == << <<>>, <<97>>, <<98>>, <<97, 98>>, <<97, 97>>, <<66>> >>
               t == << <<97, 98, 99>>, <<97, 0>>, <<255>>, <<97, 195, 169>> >>
           IN IF Level >= 2 THEN q \o t ELSE q

BoolVals == <<FALSE, TRUE>>

LeftVals(c) == IF c.g = "shift" THEN ShiftLeftVals(c.k)
               ELSE IF c.k \in IntKinds THEN IntVals(c.k)
               ELSE IF c.k \in FloatKinds THEN FloatVals(c.k)
               ELSE IF c.k = "string" THEN StrVals ELSE BoolVals
RightVals(c) == IF c.g = "shift" THEN CountVals(c.ck) ELSE LeftVals(c)

---------------------------------------------------------------------------
(* random operands (simulation) *)

RandBV(K) == [i \in 1..K |-> RandomElement(0..255)]
RandIntBy(K, list, mode) ==
    CASE mode = 1 -> RandBV(K)
      [] mode = 2 -> IV(K, RandomElement(0..24) - 12)
      [] mode = 3 -> BVAdd(BVPow2At(K, RandomElement(0..(8 * K - 1))), IV(K, RandomElement(0..2) - 1))
      [] mode = 4 -> BVNeg(BVPow2At(K, RandomElement(0..(8 * K - 1))))
      [] OTHER    -> list[RandomElement(1..Len(list))]
RandCountBy(K, list, mode) ==
    CASE mode = 1 -> RandBV(K)
      [] mode = 2 -> IV(K, RandomElement(0..70) - 2)
      [] OTHER    -> list[RandomElement(1..Len(list))]
RandFloatBy(k, list, mode) ==
    CASE mode = 1 -> FI(RandomElement(0..1), 1 + RandomElement(0..4095), RandomElement(0..24) - 12)
      [] mode = 2 -> FI(RandomElement(0..1), 1 + RandomElement(0..15), RandomElement(0..6) - 3)
      [] OTHER    -> list[RandomElement(1..Len(list))]
RandStr(n) == [i \in 1..n |-> 97 + RandomElement(0..2)]

RandLeft(c) ==
    IF c.k \in IntKinds THEN RandIntBy(KWidth(c.k), LeftVals(c), RandomElement(1..5))
    ELSE IF c.k \in FloatKinds THEN RandFloatBy(c.k, LeftVals(c), RandomElement(1..3))
    ELSE IF c.k = "string" THEN RandStr(RandomElement(0..3))
    ELSE RandomElement({FALSE, TRUE})
RandRight(c) ==
    IF c.g = "shift" THEN RandCountBy(KWidth(c.ck), RightVals(c), RandomElement(1..3)) ELSE RandLeft(c)

---------------------------------------------------------------------------
(* state machine *)

Start == [lvl |-> 0, ci |-> 0, a |-> 0, bs |-> <<>>]

Init == cur = Start

NextBfs ==
    \/ /\ cur.lvl = 0
       /\ \E i \in 1..NC : cur' = [lvl |-> 1, ci |-> i, a |-> 0, bs |-> <<>>]
    \/ /\ cur.lvl = 1
       /\ \E j \in 1..Len(LeftVals(Combos[cur.ci])) :
             cur' = [lvl |-> 2, ci |-> cur.ci, a |-> LeftVals(Combos[cur.ci])[j], bs |-> RightVals(Combos[cur.ci])]

SimState(i) == [lvl |-> 2, ci |-> i, a |-> RandLeft(Combos[i]),
                bs |-> [j \in 1..NRows |-> RandRight(Combos[i])]]
NextSim ==
    \/ /\ cur.lvl = 0
       /\ \E i \in 1..NC : cur' = SimState(i)
    \/ /\ cur.lvl = 2
       /\ cur' = SimState((cur.ci % NC) + 1)

\* Mode = "m": fan out over the operands of the (M) check ShortcutsOK
All8 == [x \in 1..256 |-> <<x - 1>>]
WideOf(K) == <<IV(K, 0), IV(K, 1), IV(K, 0 - 1), IV(K, 0 - 7), BVMin(K), BVMax(K), BVAdd(BVMin(K), IV(K, 1)), Rep(K, 85)>>
WideVals == WideOf(2) \o WideOf(4) \o WideOf(8)
MItems == All8 \o WideVals
NextM ==
    \/ /\ cur.lvl = 0
       /\ \E g \in 0..7 : cur' = [lvl |-> 1, ci |-> g, a |-> 0, bs |-> <<>>]
    \/ /\ cur.lvl = 1
       /\ \E i \in 1..Len(MItems) : i % 8 = cur.ci /\ cur' = [lvl |-> 2, ci |-> 0, a |-> MItems[i], bs |-> <<0>>]

Next == IF Mode = "sim" THEN NextSim ELSE IF Mode = "bfs" THEN NextBfs ELSE NextM
Spec == Init /\ [][Next]_vars

---------------------------------------------------------------------------
(* the record printed for a leaf *)

Tup(v) == IF DOMAIN v = {} THEN <<>> ELSE [i \in 1..Len(v) |-> v[i]]
Same(r, vv) == IF r = vv THEN "=" ELSE r

FourBin(op, k, a, b) ==
    LET vv == RunBin(op, k, a, b)
    IN <<vv, Same(EvalBinR(op, k, "cL", a, b, vv), vv), Same(EvalBinR(op, k, "cR", a, b, vv), vv),
         Same(EvalBinR(op, k, "cc", a, b, vv), vv)>>
FourShift(op, k, ck, a, n) ==
    LET vv == Shift(op, k, a, ck, n)
    IN <<vv, Same(EvalShiftR(op, k, ck, "cL", a, n, vv), vv), Same(EvalShiftR(op, k, ck, "cR", a, n, vv), vv),
         Same(EvalShiftR(op, k, ck, "cc", a, n, vv), vv)>>
TwoUn(op, k, a) ==
    LET vv == RunUn(op, k, a) IN <<vv, Same(EvalUnR(op, k, "cc", a, vv), vv)>>

Record(s) ==
    LET c == Combos[s.ci] IN
    IF c.g = "shift"
    THEN [g |-> "shift", k |-> c.k, ck |-> c.ck, ks |-> Aliases(c.k), cks |-> Aliases(c.ck), a |-> s.a,
          un |-> <<>>,
          rows |-> [j \in 1..Len(s.bs) |->
                      [b |-> s.bs[j], r |-> [o \in ShiftOps |-> FourShift(o, c.k, c.ck, s.a, s.bs[j])]]]]
    ELSE [g |-> "bin", k |-> c.k, ck |-> "", ks |-> Aliases(c.k), cks |-> <<>>, a |-> s.a,
          un |-> [o \in UnOpsOf(c.k) |-> TwoUn(o, c.k, s.a)],
          rows |-> [j \in 1..Len(s.bs) |->
                      [b |-> s.bs[j], r |-> [o \in BinOpsOf(c.k) |-> FourBin(o, c.k, s.a, s.bs[j])]]]]

Emit == IF Mode # "m" /\ cur.lvl = 2 THEN PrintT(ToJson(Record(cur))) ELSE TRUE

TypeOK == /\ cur.lvl \in 0..2
          /\ cur.ci \in 0..(NC + 8)
          /\ cur.lvl = 2 => Len(cur.bs) > 0

---------------------------------------------------------------------------
(* (M) the rewrites equal the plain operators *)

\* exponents j checked: all of them at width 8, the limb boundaries at the wider widths
JSet(K, top) == IF K = 1 THEN 0..top
                ELSE {j \in {0, 1, 2, 3, 7, 8, 9, 15, 16, 17, 8 * K - 3, 8 * K - 2, 8 * K - 1} : j <= top}

ShortcutsAt(a) ==
    LET K == Len(a)
        z == BVZero(K)
        one == BVFromNat(K, 1)
        m1 == BVOnes(K)
    IN /\ \A sg \in BOOLEAN :
            \* powers of two 2^j that are representable as a positive value of the kind
            /\ \A j \in JSet(K, IF sg THEN 8 * K - 2 ELSE 8 * K - 1) :
                  LET p == BVPow2At(K, j) IN
                  /\ MulPow2(a, j, FALSE) = BVMul(a, p)
                  /\ QuoPow2(a, j, sg, FALSE, QuoFix) = BVQuo(a, p, sg)
                  /\ RemPow2(a, j, sg) = BVRem(a, p, sg)
            \* negative powers of two -(2^j), j up to the sign bit (MinInt itself)
            /\ sg => \A j \in JSet(K, 8 * K - 1) :
                  LET p == BVNeg(BVPow2At(K, j)) IN
                  /\ MulPow2(a, j, TRUE) = BVMul(a, p)
                  /\ QuoPow2(a, j, TRUE, TRUE, QuoFix) = BVQuo(a, p, TRUE)
                  /\ RemPow2(a, j, TRUE) = BVRem(a, p, TRUE)
            \* identities, MinInt / -1 and MinInt % -1 included (a ranges over MinInt)
            /\ BVQuo(a, one, sg) = a
            /\ BVRem(a, one, sg) = z
            /\ sg => BVQuo(a, m1, TRUE) = BVNeg(a) /\ BVRem(a, m1, TRUE) = z
       /\ BVAdd(a, z) = a /\ BVSub(a, z) = a /\ BVMul(a, one) = a /\ BVMul(a, z) = z
       /\ BVMul(a, m1) = BVNeg(a)
       /\ BVAnd(a, z) = z /\ BVAnd(a, m1) = a /\ BVOr(a, z) = a /\ BVOr(a, m1) = m1
       /\ BVXor(a, z) = a /\ BVXor(a, m1) = BVNot(a) /\ BVAndNot(a, z) = a /\ BVAndNot(a, m1) = z
       /\ BVShlN(a, 0) = a /\ BVShrN(a, 0, TRUE) = a /\ BVShrN(a, 0, FALSE) = a

ShortcutsOK == (Mode = "m" /\ cur.lvl = 2) => ShortcutsAt(cur.a)

\* FloatD on small integers and halves agrees with integer arithmetic
FOfInt(n) == IF n = 0 THEN FZero(0) ELSE IF n < 0 THEN FFin(1, 0 - n, 0) ELSE FFin(0, n, 0)
FloatSmallOK ==
    cur.lvl = 0 =>
      \A fmt \in FloatKinds : \A i \in (0 - 9)..9 : \A j \in (0 - 9)..9 :
         /\ FAdd(fmt, FOfInt(i), FOfInt(j)) = FOfInt(i + j)
         /\ FSub(fmt, FOfInt(i), FOfInt(j)) = FOfInt(i - j)
         /\ (i # 0 /\ j # 0 => FMul(fmt, FOfInt(i), FOfInt(j)) = FOfInt(i * j))
         /\ (i # 0 /\ j # 0 => FQuo(fmt, FOfInt(i * j), FOfInt(j)) = FOfInt(i))
         /\ FLess(FOfInt(i), FOfInt(j)) = (i < j)
         /\ FEq(FOfInt(i), FOfInt(j)) = (i = j)
         /\ FAdd(fmt, FOfInt(i), FNeg(FOfInt(i))) = FZero(0)
=============================================================================

---------------------------- MODULE InteropTrace ----------------------------
(***************************************************************************)
(* Binding V of C11: callback logs RECORDED while the real standard        *)
(* library (sort.Sort, sort.Stable, sort.Slice, sort.SliceStable,          *)
(* strings.FieldsFunc) drove interpreted callbacks are validated against   *)
(* the admissible-log predicates of InteropLaws.tla.  One JSON object per  *)
(* line:                                                                    *)
(*   {"k":"sort",  "in":[keys], "ord":"asc", "stable":false,               *)
(*    "log":[["len",n] | ["less",i,j,answer] | ["swap",i,j] ...],          *)
(*    "final":[identities]}                                                *)
(*   {"k":"slice", ... "log":[["lessS",i,j,idi,idj,answer] ...], ...}      *)
(*   {"k":"fields","s":[runes],"sep":r,"log":[["ff",rune,answer] ...]}     *)
(* Positions and identities are 1-based.  The variable l walks the file;   *)
(* the invariant must hold for every line.                                  *)
(***************************************************************************)
EXTENDS InteropLaws, TLC, Json

Recs == ndJsonDeserialize("c11_logs.ndjson")

VARIABLE l
Init == l = 0
Next == l < Len(Recs) /\ l' = l + 1
Spec == Init /\ [][Next]_l

RecOK(r) == CASE r.k = "sort" -> SortLogOK(r.in, r.ord, r.log, r.final, r.stable)
              [] r.k = "slice" -> SliceLogOK(r.in, r.ord, r.log, r.final, r.stable)
              [] r.k = "fields" -> FieldsLogOK(r.s, r.sep, r.log)
              [] OTHER -> FALSE

Accepted == l \in 1..Len(Recs) => RecOK(Recs[l])
\* the number of the first rejected line is the value of l in the reported state
AllSeen == TLCGet("stats").diameter = Len(Recs) + 1
=============================================================================

------------------------------ MODULE Selector ------------------------------
(***************************************************************************)
(* Selectors, method sets, interface satisfaction, type assertions and     *)
(* type switches of Go over a hierarchy of named struct types (property    *)
(* C09; gomacro: fast/selector.go, fast/interface.go, fast/switch_type.go, *)
(* xreflect/lookup.go).                                                    *)
(*                                                                         *)
(* State = one hierarchy: NT named struct types T0..T(NT-1); type t has    *)
(*   own fields fld[t] (names), own methods mth[t][n] ("-" none, "v" value *)
(*   receiver, "p" pointer receiver) and embedded fields emb[t][u] ("-",   *)
(*   "v" = embeds T_u, "p" = embeds *T_u) with u < t (acyclic; every DAG   *)
(*   has such a numbering).  Actions add one member at a time, so TLC      *)
(*   enumerates every hierarchy within the bounds (BFS) or samples larger  *)
(*   ones (simulation).  A second part of the state is a type-switch       *)
(*   clause list cl grown clause by clause.                                *)
(*                                                                         *)
(* Part 1  Find(t, n): the Go selector rule stated declaratively over the  *)
(*   set of embedding paths (shallowest depth, unique or ambiguous), and   *)
(*   FindBFS: the level-by-level search go/types and xreflect implement.   *)
(* Part 2  method sets: MethodSet (through Find: a method is promoted iff  *)
(*   the selector is legal) and MSRec (the inductive text of the Go spec). *)
(* Part 3  values: every struct instance reachable from a root value has   *)
(*   its own tags, so that a result identifies the embedded receiver.      *)
(* Part 4  sites: every selector / method value / method expression /      *)
(*   interface call / assertion / type switch over the hierarchy with the  *)
(*   outcome Go prescribes: value + events, compile error (class), panic.  *)
(***************************************************************************)
EXTENDS Naturals, Sequences, FiniteSets, TLC, Json, SequencesExt

CONSTANTS NT,          \* number of named struct types (<= 4)
          FieldSeq,    \* field names, e.g. <<"A", "B">> or <<"A", "M">>
          MethSeq,     \* method names, <<"M", "N">>
          MaxFields,   \* own fields per type
          MaxSize,     \* bound on the number of members of a hierarchy
          MaxClauses,  \* bound on the length of the explored clause list
          Broken,      \* "none" | "deeper" | "ptr-in-valset"  (self-test variants)
          EmitOn,      \* print JSON records
          EmitFrom,    \* ... for hierarchies with at least this many members
          AssertAll,   \* TRUE: assertion sites for every dynamic type; FALSE: top type only
          Kinds        \* site kinds to emit: subset of {"sel","mval","mexpr","iface","assert","aiface","tswitch"}

VARIABLES fld, mth, emb, cl,
          ft,    \* derived: ft[t][n] = FindRaw(t, n)    (tables computed once per state: TLC
          mst    \* derived: mst[t][star] = MSRecRaw(t, star)   does not memoise operators)
vars == <<fld, mth, emb, cl, ft, mst>>

Types == 0..(NT - 1)
\* (Range and Last come from SequencesExt / Functions)
FieldNames == Range(FieldSeq)
MethNames == Range(MethSeq)
TNames == <<"T0", "T1", "T2", "T3">>
TName(u) == TNames[u + 1]
Modes == {"-", "v", "p"}
MinOf(S) == CHOOSE x \in S : \A y \in S : x <= y
MaxOf(S) == CHOOSE x \in S : \A y \in S : x >= y
IdxIn(s, x) == MinOf({i \in 1..Len(s) : s[i] = x})

NMeth(t) == Cardinality({n \in MethNames : mth[t][n] # "-"})
NEmb(t) == Cardinality({u \in Types : emb[t][u] # "-"})
RECURSIVE SumTo(_, _)
SumTo(f, n) == IF n < 0 THEN 0 ELSE f[n] + SumTo(f, n - 1)
Size == SumTo([t \in Types |-> Cardinality(fld[t]) + NMeth(t) + NEmb(t)], NT - 1)

---------------------------------------------------------------------------
(* Part 1: selectors *)

Embedded(t) == {u \in Types : emb[t][u] # "-"}

\* every embedding path starting at t: <<t, u1, u2, ...>>, depth = Len - 1
RECURSIVE PathsFrom(_)
PathsFrom(t) == {<<t>>} \cup UNION {{<<t>> \o p : p \in PathsFrom(u)} : u \in Embedded(t)}

\* what the name n denotes directly in type u
MemberKind(u, n) ==
    IF n \in fld[u] THEN "field"
    ELSE IF n \in MethNames /\ mth[u][n] # "-" THEN "method"
    ELSE IF \E w \in Embedded(u) : TName(w) = n THEN "embed"
    ELSE "none"

Missing == [k |-> "missing", path |-> <<>>, kind |-> "none"]
Ambiguous == [k |-> "ambiguous", path |-> <<>>, kind |-> "none"]
Found(p, n) == [k |-> "found", path |-> p, kind |-> MemberKind(Last(p), n)]

\* Go: x.f denotes the field or method at the shallowest depth; there must be exactly one
FindRaw(t, n) ==
    LET C == {p \in PathsFrom(t) : MemberKind(Last(p), n) # "none"}
    IN IF C = {} THEN Missing
       ELSE LET lens == {Len(p) : p \in C}
                d == IF Broken = "deeper" THEN MaxOf(lens) ELSE MinOf(lens)
                S == {p \in C : Len(p) = d}
            IN IF Cardinality(S) > 1 THEN Ambiguous ELSE Found(CHOOSE p \in S : TRUE, n)

AllNames == FieldNames \cup MethNames \cup Range(SubSeq(TNames, 1, NT))
FindTable == [t \in Types |-> [n \in AllNames |-> FindRaw(t, n)]]
Find(t, n) == IF n \in AllNames THEN ft[t][n] ELSE Missing

\* the operational search: one level at a time, stop at the first level with a hit
RECURSIVE BFS(_, _)
BFS(front, n) ==
    IF front = {} THEN Missing
    ELSE LET hits == {p \in front : MemberKind(Last(p), n) # "none"}
         IN IF hits # {}
            THEN IF Cardinality(hits) > 1 THEN Ambiguous ELSE Found(CHOOSE p \in hits : TRUE, n)
            ELSE BFS(UNION {{p \o <<u>> : u \in Embedded(Last(p))} : p \in front}, n)
FindBFS(t, n) == BFS({<<t>>}, n)

PtrOnPath(p) == \E i \in 1..(Len(p) - 1) : emb[p[i]][p[i + 1]] = "p"

---------------------------------------------------------------------------
(* Part 2: method sets *)

IsMethod(f) == f.k = "found" /\ f.kind = "method"

\* star = FALSE: method set of T_t;  star = TRUE: method set of *T_t
MethodSet(t, star) ==
    {n \in MethNames :
        LET f == Find(t, n)
        IN /\ IsMethod(f)
           /\ \/ star
              \/ PtrOnPath(f.path)
              \/ mth[Last(f.path)][n] = "v"
              \/ Broken = "ptr-in-valset"}

\* the inductive rule of the Go specification ("Struct types": promoted methods)
RECURSIVE MSRecRaw(_, _)
MSRecRaw(t, star) ==
    {n \in MethNames : mth[t][n] = "v" \/ (star /\ mth[t][n] = "p")}
    \cup {n \in MethNames :
            \E u \in Embedded(t) :
               /\ n \in MSRecRaw(u, star \/ emb[t][u] = "p")
               /\ LET f == FindBFS(t, n)        \* promoted: t.n is a legal selector denoting it
                  IN f.k = "found" /\ Len(f.path) >= 2 /\ f.path[2] = u}

MSTable == [t \in Types |-> [s \in BOOLEAN |-> MSRecRaw(t, s)]]
MSRec(t, star) == mst[t][star]

Ifaces == {s \in SUBSET MethNames : s # {}}
Implements(t, star, I) == I \subseteq MSRec(t, star)
IfaceSeq(I) == SelectSeq(MethSeq, LAMBDA m : m \in I)

---------------------------------------------------------------------------
(* Part 3: values *)

\* every struct instance reachable from a root value of type p[1] is identified by its path
RECURSIVE PathCode(_)
PathCode(p) == IF p = <<>> THEN 0 ELSE PathCode(SubSeq(p, 1, Len(p) - 1)) * 5 + Last(p) + 1
InstTag(p, f) == PathCode(p) * 8 + IdxIn(FieldSeq, f)
MTag(u, n) == 10000 + u * 10 + IdxIn(MethSeq, n)
Mutated == 7777

IsField(f) == f.k = "found" /\ f.kind = "field"
\* the field a method of type u reads from its receiver ("" if u has no selectable field)
ReadField(u) ==
    LET ok == {i \in 1..Len(FieldSeq) : IsField(Find(u, FieldSeq[i]))}
    IN IF ok = {} THEN "" ELSE FieldSeq[MinOf(ok)]
\* instance path and tag of that field, seen from the instance at path q (Last(q) = u)
ReadPath(q) == LET u == Last(q) IN q \o Tail(Find(u, ReadField(u)).path)
ReadTag(q) == IF ReadField(Last(q)) = "" THEN 0 ELSE InstTag(ReadPath(q), ReadField(Last(q)))

OkR(ev, val) == [k |-> "ok", why |-> "", ev |-> ev, val |-> val]
Cerr(why) == [k |-> "cerr", why |-> why, ev |-> <<>>, val |-> 0]
PanicR == [k |-> "panic", why |-> "", ev |-> <<>>, val |-> 0]

\* calling the method denoted by f (a Find result rooted at the value): the method logs the
\* field it reads from its receiver -- the instance at f.path -- and returns its own tag
CallOut(f, n) ==
    LET u == Last(f.path)
    IN OkR(<<[t |-> u, n |-> n, v |-> ReadTag(f.path)]>>, MTag(u, n))

---------------------------------------------------------------------------
(* Part 4: sites *)

\* would a lookup restricted to members of one kind (fields only / methods only) be ambiguous
\* at its own shallowest depth?  (implementations that look fields and methods up separately
\* have to get this case right)
KindOnlyAmbiguous(t, n, kind) ==
    LET C == {p \in PathsFrom(t) : MemberKind(Last(p), n) = kind}
    IN C # {} /\ Cardinality({p \in C : Len(p) = MinOf({Len(q) : q \in C})}) > 1

Shape(f, n) ==
    IF f.k # "found" THEN [what |-> f.k, how |-> "", depth |-> 0]
    ELSE LET u == Last(f.path)
             what == IF f.kind = "method" THEN (IF mth[u][n] = "p" THEN "pmeth" ELSE "vmeth") ELSE f.kind
             how == IF Len(f.path) = 1 THEN "direct"
                    ELSE IF PtrOnPath(f.path) THEN "promoted-ptr" ELSE "promoted-val"
             split == \E kind \in {"field", "method"} : KindOnlyAmbiguous(f.path[1], n, kind)
         IN [what |-> what, how |-> IF split THEN how \o "+shadowed-ambiguity" ELSE how,
             depth |-> Len(f.path) - 1]

SelNames(r) == FieldNames \cup MethNames \cup {TName(w) : w \in {w \in Types : w < r}}
EmbType(n) == CHOOSE w \in Types : TName(w) = n

\* x.n for x an addressable variable ("val"), a pointer ("ptr"), a non-addressable value ("rval")
SelSites ==
  UNION {
    {[k |-> "sel", via |-> via, r |-> r, n |-> n,
      nk |-> Find(r, n).kind,
      rf |-> IF Find(r, n).kind = "embed" THEN ReadField(EmbType(n)) ELSE "",
      sh |-> Shape(Find(r, n), n),
      x |-> LET f == Find(r, n)
            IN IF f.k = "missing" THEN Cerr("missing")
               ELSE IF f.k = "ambiguous" THEN Cerr("ambiguous")
               ELSE IF f.kind = "field" THEN OkR(<<>>, InstTag(f.path, n))
               ELSE IF f.kind = "embed"
                    THEN LET q == f.path \o <<EmbType(n)>>
                         IN OkR(<<>>, IF ReadField(EmbType(n)) = "" THEN 1 ELSE ReadTag(q))
               ELSE IF via = "rval" /\ n \notin MethodSet(r, FALSE) THEN Cerr("ptrmethod")
               ELSE CallOut(f, n)]
     : via \in {"val", "ptr", "rval"}, n \in SelNames(r)}
    : r \in Types}

\* method values: f := x.n; [x.<path>.rf = Mutated;] f()
MvalSites ==
    UNION {
      LET f == Find(r, n)
          u == Last(f.path)
          rfu == ReadField(u)
          plain == {[k |-> "mval", via |-> via, r |-> r, n |-> n, mut |-> FALSE, mp |-> <<>>, rf |-> "",
                     sh |-> Shape(f, n), x |-> CallOut(f, n)]}
          \* a value receiver is copied when the method value is evaluated; the copy shares
          \* only what it reaches through embedded pointers
          seesNew == mth[u][n] = "p" \/ PtrOnPath(Find(u, rfu).path)
          muted == IF rfu = "" THEN {}
                   ELSE {[k |-> "mval", via |-> via, r |-> r, n |-> n, mut |-> TRUE,
                          mp |-> ReadPath(f.path), rf |-> rfu, sh |-> Shape(f, n),
                          x |-> OkR(<<[t |-> u, n |-> n, v |-> IF seesNew THEN Mutated ELSE ReadTag(f.path)]>>,
                                    MTag(u, n))]}
      IN IF IsMethod(f) THEN plain \cup muted ELSE {}
      : via \in {"val", "ptr"}, r \in Types, n \in MethNames}

\* method expressions T.n(v) and (*T).n(&v)
MexprSites ==
    {[k |-> "mexpr", star |-> star, r |-> r, n |-> n, sh |-> Shape(Find(r, n), n),
      x |-> LET f == Find(r, n)
            IN IF f.k = "missing" THEN Cerr("missing")
               ELSE IF f.k = "ambiguous" THEN Cerr("ambiguous")
               ELSE IF f.kind # "method" THEN Cerr("missing")
               ELSE IF n \notin MethodSet(r, star) THEN Cerr("ptrmethod")
               ELSE CallOut(f, n)]
     : star \in BOOLEAN, r \in Types, n \in FieldNames \cup MethNames}

\* var i I = v (or &v); i.m()
IfaceSites ==
    UNION {
      LET ok == Implements(r, dptr, I)
          ms == IF ok THEN I ELSE {MethSeq[MinOf({i \in 1..Len(MethSeq) : MethSeq[i] \in I})]}
      IN {[k |-> "iface", r |-> r, dptr |-> dptr, ifc |-> IfaceSeq(I), n |-> m,
           sh |-> Shape(Find(r, m), m),
           x |-> IF ok THEN CallOut(Find(r, m), m) ELSE Cerr("notimpl")] : m \in ms}
      : r \in Types, dptr \in BOOLEAN, I \in Ifaces}

\* static interface types a value of dynamic type (r, dptr) is stored in: the empty interface
\* and the largest interface it implements
Statics(r, dptr) ==
    {<<>>} \cup (IF MSRec(r, dptr) = {} THEN {} ELSE {IfaceSeq(MSRec(r, dptr))})

Relation(r, dptr, w, wp) ==
    IF w = r /\ wp = dptr THEN "same"
    ELSE IF w = r THEN "ptr-vs-val"
    ELSE IF wp = dptr /\ fld[w] = fld[r] /\ emb[w] = emb[r] THEN "twin"   \* identical underlying types
    ELSE "other"

AssertRoots == IF AssertAll THEN Types ELSE {NT - 1}

\* e.(X) with X = T_w or *T_w, single-value and comma-ok forms
AssertSites ==
    UNION {
      {[k |-> "assert", r |-> r, dptr |-> dptr, st |-> st, w |-> w, wp |-> wp, form |-> form,
        rf |-> ReadField(w), sh |-> Relation(r, dptr, w, wp),
        x |-> IF ~(Range(st) \subseteq MSRec(w, wp)) THEN Cerr("impossible")
              ELSE IF w = r /\ wp = dptr
                   THEN OkR(<<>>, IF ReadField(r) = "" THEN 1 ELSE ReadTag(<<r>>))
              ELSE IF form = "one" THEN PanicR ELSE OkR(<<>>, 0)]
       : st \in Statics(r, dptr), w \in Types, wp \in BOOLEAN, form \in {"one", "two"}}
      : r \in AssertRoots, dptr \in BOOLEAN}

\* e.(I) on an interpreted dynamic type: a documented limitation of gomacro; the sites are
\* generated (and gated against Go) but not replayed
AIfaceSites ==
    {[k |-> "aiface", r |-> r, dptr |-> dptr, ifc |-> IfaceSeq(I), lim |-> "iface-to-iface",
      sh |-> "to-interface",
      x |-> OkR(<<>>, IF Implements(r, dptr, I) THEN 1 ELSE 0)]
     : r \in AssertRoots, dptr \in BOOLEAN, I \in Ifaces}

\* type switches ---------------------------------------------------------
Lbl(w, p) == [k |-> "T", t |-> w, p |-> p]
NilL == [k |-> "nil", t |-> 0, p |-> FALSE]
DefL == [k |-> "default", t |-> 0, p |-> FALSE]
TypeLabels == {Lbl(w, p) : w \in Types, p \in BOOLEAN}
CaseLabels == TypeLabels \cup {NilL}
Clauses == {{a} : a \in CaseLabels} \cup {{a, b} : a, b \in CaseLabels} \cup {{DefL}}

\* the clause executed for the dynamic type label d (NilL for a nil interface): the first
\* clause listing d, otherwise the default clause wherever it stands, otherwise none (0)
Branch(d, c) ==
    LET hits == {i \in 1..Len(c) : d \in c[i]}
        defs == {i \in 1..Len(c) : DefL \in c[i]}
    IN IF hits # {} THEN MinOf(hits) ELSE IF defs # {} THEN MinOf(defs) ELSE 0

Canon1 == [i \in 1..NT |-> {Lbl(i - 1, FALSE)}] \o <<{DefL}>>
Canon2 == <<{DefL}>> \o [i \in 1..NT |-> {Lbl(NT - i, TRUE), Lbl(NT - i, FALSE)}] \o <<{NilL}>>
Canon3 == <<{NilL, Lbl(0, TRUE)}>> \o [i \in 1..(NT - 1) |-> {Lbl(i, TRUE)}]
\* the canonical lists of every hierarchy, or (configurations exploring clause lists) the
\* list built so far
CLists == IF MaxClauses = 0 THEN {Canon1, Canon2, Canon3} ELSE {cl} \ {<<>>}

\* a switch on a value of static interface type st may only list types implementing st
RECURSIVE FilterCl(_, _)
FilterCl(c, st) ==
    IF c = <<>> THEN <<>>
    ELSE LET keep == {a \in c[1] : a.k # "T" \/ Range(st) \subseteq MSRec(a.t, a.p)}
         IN (IF keep = {} THEN <<>> ELSE <<keep>>) \o FilterCl(Tail(c), st)

\* a distinct named type with an identical underlying type is listed where the dynamic type
\* has not been matched yet
TwinFirst(d, c) ==
    LET typed == \E i \in 1..Len(c) : d \in c[i]
        b == Branch(d, c)
    IN \E i \in 1..Len(c) : /\ typed => i < b
                            /\ \E a \in c[i] : a.k = "T" /\ Relation(d.t, d.p, a.t, a.p) = "twin"

SwitchOut(d, r, c, bind) ==
    LET b == Branch(d, c)
        single == b > 0 /\ c[b] = {d} /\ d.k = "T"
    IN OkR(<<>>, b * 100000 + (IF bind /\ single THEN ReadTag(<<r>>) ELSE 0))

TswitchSitesAll ==
    UNION {
      {[k |-> "tswitch", dyn |-> Lbl(r, dp), r |-> r, st |-> st, cls |-> FilterCl(c, st), bind |-> bind,
        rf |-> ReadField(r),
        sh |-> IF TwinFirst(Lbl(r, dp), FilterCl(c, st)) THEN "twin-listed-first"
               ELSE IF st = <<>> THEN "on-empty-interface" ELSE "on-interface",
        x |-> SwitchOut(Lbl(r, dp), r, FilterCl(c, st), bind)]
       : st \in Statics(r, dp), c \in CLists, bind \in BOOLEAN}
      : r \in AssertRoots, dp \in BOOLEAN}
    \cup
    \* nil interface values of every interface type
    {[k |-> "tswitch", dyn |-> NilL, r |-> 0, st |-> st, cls |-> FilterCl(c, st), bind |-> bind,
      rf |-> "", sh |-> IF st = <<>> THEN "nil-empty-interface" ELSE "nil-interface",
      x |-> SwitchOut(NilL, 0, FilterCl(c, st), bind)]
     : st \in {<<>>, <<MethSeq[1]>>, MethSeq}, c \in CLists, bind \in BOOLEAN}

\* (an empty switch with a bound variable does not compile: "declared and not used")
TswitchSites == {s \in TswitchSitesAll : s.cls # <<>>}

AsSeq(S) == SetToSeq(S)

---------------------------------------------------------------------------
(* Behaviours *)

Init == /\ fld = [t \in Types |-> {}]
        /\ mth = [t \in Types |-> [n \in MethNames |-> "-"]]
        /\ emb = [t \in Types |-> [u \in Types |-> "-"]]
        /\ cl = <<>>
        /\ ft = FindTable
        /\ mst = MSTable

AddField(t, f) ==
    /\ f \notin fld[t] /\ Cardinality(fld[t]) < MaxFields
    /\ (f \in MethNames => mth[t][f] = "-")       \* Go: field and method with the same name
    /\ fld' = [fld EXCEPT ![t] = @ \cup {f}]
    /\ UNCHANGED <<mth, emb, cl>>

AddMeth(t, n, rcv) ==
    /\ mth[t][n] = "-" /\ n \notin fld[t]
    /\ mth' = [mth EXCEPT ![t][n] = rcv]
    /\ UNCHANGED <<fld, emb, cl>>

AddEmb(t, u, m) ==
    /\ u < t /\ emb[t][u] = "-"
    /\ emb' = [emb EXCEPT ![t][u] = m]
    /\ UNCHANGED <<fld, mth, cl>>

AddClause(c) ==
    /\ Len(cl) < MaxClauses
    /\ \A i \in 1..Len(cl) : cl[i] \cap c = {}       \* Go: duplicate case / multiple defaults
    /\ cl' = Append(cl, c)
    /\ UNCHANGED <<fld, mth, emb>>

Grow == /\ Size < MaxSize
        /\ cl = <<>>
        /\ \E t \in Types :
              \/ \E f \in FieldNames : AddField(t, f)
              \/ \E n \in MethNames : \E rcv \in {"v", "p"} : AddMeth(t, n, rcv)
              \/ \E u \in Types : \E m \in {"v", "p"} : AddEmb(t, u, m)

Next == /\ Grow \/ \E c \in Clauses : AddClause(c)
        /\ ft' = FindTable'
        /\ mst' = MSTable'
Spec == Init /\ [][Next]_vars

---------------------------------------------------------------------------
(* Properties of the rules themselves (M) *)

\* the derived variables are nothing but tables of the definitions
DerivedOK == ft = FindTable /\ mst = MSTable

TypeOK == /\ fld \in [Types -> SUBSET FieldNames]
          /\ mth \in [Types -> [MethNames -> Modes]]
          /\ emb \in [Types -> [Types -> Modes]]
          /\ \A t \in Types : \A u \in Types : emb[t][u] # "-" => u < t
          /\ \A t \in Types : \A n \in fld[t] \cap MethNames : mth[t][n] = "-"

\* lookup is a function or an ambiguity: a found selector names exactly one member, on a real
\* embedding path, and nothing shallower carries the name
LookupFunctional ==
    \A t \in Types : \A n \in AllNames :
       LET f == Find(t, n)
       IN /\ f.k \in {"missing", "ambiguous", "found"}
          /\ f.k = "found" =>
               /\ f.path \in PathsFrom(t)
               /\ f.kind = MemberKind(Last(f.path), n) /\ f.kind # "none"
               /\ \A p \in PathsFrom(t) : MemberKind(Last(p), n) # "none" =>
                                             Len(p) > Len(f.path) \/ p = f.path
          /\ f.k = "missing" => \A p \in PathsFrom(t) : MemberKind(Last(p), n) = "none"

\* the declarative rule and the level-by-level search agree
ShallowestWins == \A t \in Types : \A n \in AllNames : Find(t, n) = FindBFS(t, n)

\* method sets: the two formulations agree; T's is contained in *T's; a pointer-receiver
\* method is never in the method set of its own value type
MethodSetsAgree == \A t \in Types : \A s \in BOOLEAN : MethodSet(t, s) = MSRec(t, s)
ValueInPointer == \A t \in Types : MethodSet(t, FALSE) \subseteq MethodSet(t, TRUE)
PtrRecvNotInValueSet == \A t \in Types : \A n \in MethNames : mth[t][n] = "p" => n \notin MethodSet(t, FALSE)

\* interface satisfaction is method-set inclusion, and an addressable value can call exactly
\* the methods of its pointer type
ImplementsIsInclusion ==
    \A t \in Types : \A s \in BOOLEAN : \A I \in Ifaces :
        Implements(t, s, I) <=> \A m \in I : m \in MethodSet(t, s)
AddressableCalls == \A t \in Types : \A n \in MethNames : IsMethod(Find(t, n)) <=> n \in MethodSet(t, TRUE)

\* monotone under embedding: a method of an embedded type never vanishes (it is promoted,
\* shadowed or made ambiguous), and a promoted method is the embedded type's own choice,
\* bound to that embedded instance
MonotoneEmbedding ==
    \A t \in Types : \A u \in Embedded(t) : \A n \in MethodSet(u, TRUE) :
        LET f == Find(t, n)
        IN /\ f.k # "missing"
           /\ (f.k = "found" /\ Len(f.path) >= 2 /\ f.path[2] = u) => Tail(f.path) = Find(u, n).path
           /\ (f.k = "found" /\ Len(f.path) >= 2 /\ f.path[2] = u /\ f.kind = "method") =>
                 (n \in MethodSet(t, FALSE) <=> (emb[t][u] = "p" \/ n \in MethodSet(u, FALSE)))

\* type switch: exactly the first clause listing the dynamic type, else default, else none
SwitchFirstMatch ==
    \A d \in CaseLabels : \A c \in CLists :
        LET b == Branch(d, c)
        IN /\ b \in 0..Len(c)
           /\ b > 0 => \/ (d \in c[b] /\ \A i \in 1..(b - 1) : d \notin c[i])
                       \/ (DefL \in c[b] /\ \A i \in 1..Len(c) : d \notin c[i])
           /\ b = 0 => \A i \in 1..Len(c) : d \notin c[i] /\ DefL \notin c[i]

---------------------------------------------------------------------------
(* Behaviour emission (R) *)

TagTable ==
    UNION {{[p |-> q, f |-> g, v |-> InstTag(q, g)] : g \in fld[Last(q)]} :
           q \in UNION {PathsFrom(r) : r \in Types}}

TypeRec(t) == [f |-> SelectSeq(FieldSeq, LAMBDA g : g \in fld[t]),
               m |-> mth[t],
               e |-> [i \in 1..NT |-> emb[t][i - 1]],
               rf |-> ReadField(t),
               mt |-> [n \in MethNames |-> MTag(t, n)]]

Pick(kind, S) == IF kind \in Kinds THEN AsSeq(S) ELSE <<>>
AllSites == Pick("sel", SelSites) \o Pick("mval", MvalSites) \o Pick("mexpr", MexprSites)
            \o Pick("iface", IfaceSites) \o Pick("assert", AssertSites)
            \o Pick("aiface", AIfaceSites) \o Pick("tswitch", TswitchSites)

Emit == IF EmitOn /\ Size >= EmitFrom /\ (MaxClauses = 0 \/ cl # <<>>)
        THEN PrintT(ToJson([nt |-> NT, size |-> Size,
                            types |-> [i \in 1..NT |-> TypeRec(i - 1)],
                            tags |-> TagTable, cl |-> cl, sites |-> AllSites]))
        ELSE TRUE
=============================================================================

------------------------------- MODULE Defer -------------------------------
(***************************************************************************)
(* Go-level semantics of defer / panic / recover (the Go specification,     *)
(* "Defer statements", "Handling panics", and the run-time rule that a      *)
(* recover() stops a panic only when called DIRECTLY by a deferred function *)
(* that is being run by that panic's unwinding).                            *)
(*                                                                          *)
(* A behaviour is a PROGRAM together with its unique execution: function    *)
(* bodies are state (`body`) and grow by lazy revelation exactly when       *)
(* control reaches a position that has no operation yet, so BFS enumerates  *)
(* every program up to the bounds with its expected event log.              *)
(*                                                                          *)
(* Program shape (rendered by the harness):                                 *)
(*   func fI() (res int) { op; op; ... }      I in 0..NF-1                   *)
(* calls and defers only target higher-numbered functions (termination).    *)
(* Operations:                                                              *)
(*   L           ev("L", I, pc)                                             *)
(*   call g      ev("ret", g, fg())                                         *)
(*   defer g     defer fg()                                                 *)
(*   deferloop g for i := 0; i < 2; i++ { defer fg() }                      *)
(*   deferclo g  defer func() { res += 10 * fg() }()    (fg one call deeper)*)
(*   deferrec v  defer func() { r := recover(); ev("R", I, pc, r);          *)
(*                              if r != nil { res = v } }()                 *)
(*   rec         ev("R", I, pc, recover())      (direct call in fI's body)  *)
(*   panic v     panic(<value v>)                                           *)
(*   set v       res = v                                                    *)
(*   ret v       return v                                                   *)
(*   spin        a counted loop of 100 trivial statements (executor phase 2)*)
(***************************************************************************)
EXTENDS Naturals, Sequences, FiniteSets, TLC, Json

CONSTANTS NF,         \* number of functions
          MaxOps,     \* maximum operations per body
          MaxTotal,   \* maximum operations in the whole program
          PanicVals,  \* values that may be panicked with
          OpKinds,    \* enabled operation kinds
          EmitOn

VARIABLES body, closed, st, pans, log, outcome,
          maxp   \* history: largest number of panics in flight at the same time

vars == <<body, closed, st, pans, log, outcome, maxp>>

Funs == 0..(NF - 1)

TotalOps == LET RECURSIVE Sum(_)
                Sum(i) == IF i = NF THEN 0 ELSE Len(body[i]) + Sum(i + 1)
            IN Sum(0)

\* operations that may be revealed at the next position of function f
OpsFor(f) ==
    (IF "L" \in OpKinds THEN {[k |-> "L"]} ELSE {})
    \cup (IF "rec" \in OpKinds THEN {[k |-> "rec"]} ELSE {})
    \cup (IF "spin" \in OpKinds THEN {[k |-> "spin"]} ELSE {})
    \cup (IF "set" \in OpKinds THEN {[k |-> "set", v |-> 5]} ELSE {})
    \cup (IF "ret" \in OpKinds THEN {[k |-> "ret", v |-> 6]} ELSE {})
    \cup (IF "deferrec" \in OpKinds THEN {[k |-> "deferrec", v |-> 7]} ELSE {})
    \cup (IF "panic" \in OpKinds THEN {[k |-> "panic", v |-> v] : v \in PanicVals} ELSE {})
    \cup UNION {{[k |-> kk, g |-> g] : g \in {h \in Funs : h > f}} :
                  kk \in {"call", "defer", "deferloop", "deferclo"} \cap OpKinds}

\* frames --------------------------------------------------------------------
\* kind "fn":  fn, pc, defs, res, direct (invoked as the deferred call itself),
\*             runner (index in `pans` of the panic whose unwinding started this
\*             deferred call, 0 if none), mode in {"run","exit","panic"},
\*             onret in {"top","log","drop","clo"}
\* kind "clo": the closure of `deferclo g`: g, runner, pc (1: call fg, 2: add), acc
FnFrame(f, direct, runner, onret) ==
    [kind |-> "fn", fn |-> f, pc |-> 1, defs |-> <<>>, res |-> 0, direct |-> direct,
     runner |-> runner, mode |-> "run", onret |-> onret, acc |-> 0]
CloFrame(g, runner) ==
    [kind |-> "clo", fn |-> g, pc |-> 1, defs |-> <<>>, res |-> 0, direct |-> FALSE,
     runner |-> runner, mode |-> "run", onret |-> "drop", acc |-> 0]

Top == st[Len(st)]
SetTop(f) == [st EXCEPT ![Len(st)] = f]
Pop == SubSeq(st, 1, Len(st) - 1)
Push(f) == Append(st, f)
Evt(e) == log' = Append(log, e)

RemoveAt(s, i) == SubSeq(s, 1, i - 1) \o SubSeq(s, i + 1, Len(s))

\* recover() called directly in the body of frame T: effective iff T is the deferred call
\* itself and was started by the unwinding of the current (top, not yet recovered) panic.
Eligible(T) == /\ T.direct /\ T.runner > 0 /\ T.runner = Len(pans)
               /\ ~pans[T.runner].recovered

----------------------------------------------------------------------------
Init == /\ body = [f \in Funs |-> <<>>]
        /\ closed = [f \in Funs |-> FALSE]
        /\ st = <<FnFrame(0, FALSE, 0, "top")>>
        /\ pans = <<>>
        /\ log = <<>>
        /\ outcome = <<>>
        /\ maxp = 0

Running == outcome = <<>> /\ st # <<>>

\* reveal the next operation of the running function, or close its body
Reveal ==
    /\ Running /\ Top.kind = "fn" /\ Top.mode = "run"
    /\ LET f == Top.fn IN
       /\ Top.pc = Len(body[f]) + 1 /\ ~closed[f]
       /\ \/ /\ Len(body[f]) < MaxOps /\ TotalOps < MaxTotal
             /\ \E op \in OpsFor(f) : body' = [body EXCEPT ![f] = Append(@, op)]
             /\ UNCHANGED closed
          \/ /\ closed' = [closed EXCEPT ![f] = TRUE]
             /\ UNCHANGED body
    /\ UNCHANGED <<st, pans, log, outcome>>

\* execute one operation of the running function
ExecOp ==
    /\ Running /\ Top.kind = "fn" /\ Top.mode = "run"
    /\ LET T == Top
           f == T.fn
       IN /\ T.pc <= Len(body[f])
          /\ LET op == body[f][T.pc]
                 T1 == [T EXCEPT !.pc = @ + 1]
             IN CASE op.k = "L" ->
                       /\ Evt(<<"L", f, T.pc>>) /\ st' = SetTop(T1) /\ UNCHANGED pans
                  [] op.k = "spin" ->
                       /\ st' = SetTop(T1) /\ UNCHANGED <<pans, log>>
                  [] op.k = "set" ->
                       /\ st' = SetTop([T1 EXCEPT !.res = op.v]) /\ UNCHANGED <<pans, log>>
                  [] op.k = "ret" ->
                       /\ st' = SetTop([T1 EXCEPT !.res = op.v, !.mode = "exit"])
                       /\ UNCHANGED <<pans, log>>
                  [] op.k = "call" ->
                       /\ st' = Append(SetTop(T1), FnFrame(op.g, FALSE, 0, "log"))
                       /\ UNCHANGED <<pans, log>>
                  [] op.k = "defer" ->
                       /\ st' = SetTop([T1 EXCEPT !.defs = Append(@, [t |-> "fn", g |-> op.g])])
                       /\ UNCHANGED <<pans, log>>
                  [] op.k = "deferloop" ->
                       /\ st' = SetTop([T1 EXCEPT !.defs = @ \o <<[t |-> "fn", g |-> op.g], [t |-> "fn", g |-> op.g]>>])
                       /\ UNCHANGED <<pans, log>>
                  [] op.k = "deferclo" ->
                       /\ st' = SetTop([T1 EXCEPT !.defs = Append(@, [t |-> "clo", g |-> op.g])])
                       /\ UNCHANGED <<pans, log>>
                  [] op.k = "deferrec" ->
                       /\ st' = SetTop([T1 EXCEPT !.defs = Append(@, [t |-> "rec", v |-> op.v, f |-> f, pc |-> T.pc])])
                       /\ UNCHANGED <<pans, log>>
                  [] op.k = "rec" ->
                       IF Eligible(T)
                       THEN /\ Evt(<<"R", f, T.pc, pans[T.runner].val>>)
                            /\ pans' = [pans EXCEPT ![T.runner].recovered = TRUE]
                            /\ st' = SetTop(T1)
                       ELSE /\ Evt(<<"R", f, T.pc, 0>>) /\ st' = SetTop(T1) /\ UNCHANGED pans
                  [] op.k = "panic" ->
                       /\ pans' = Append(pans, [val |-> op.v, recovered |-> FALSE])
                       /\ st' = SetTop([T1 EXCEPT !.mode = "panic"])
                       /\ UNCHANGED log
    /\ UNCHANGED <<body, closed, outcome>>

\* the body is finished (closed or full): start running deferred calls normally
EndBody ==
    /\ Running /\ Top.kind = "fn" /\ Top.mode = "run"
    /\ Top.pc = Len(body[Top.fn]) + 1
    /\ (closed[Top.fn] \/ Len(body[Top.fn]) = MaxOps \/ TotalOps >= MaxTotal)
    /\ st' = SetTop([Top EXCEPT !.mode = "exit"])
    /\ closed' = [closed EXCEPT ![Top.fn] = TRUE]
    /\ UNCHANGED <<body, pans, log, outcome>>

\* a deferred call started with `runner` has returned normally; s = stack whose top is the
\* deferred frame itself. If its panic was recovered the deferring frame goes on normally.
AfterDeferred(runner, s) ==
    LET n == Len(s)
        rest == SubSeq(s, 1, n - 1)
    IN IF runner > 0 /\ pans[runner].recovered
       THEN /\ pans' = SubSeq(pans, 1, runner - 1)
            /\ st' = [rest EXCEPT ![n - 1].mode = "exit"]
            /\ UNCHANGED log
       ELSE /\ st' = rest /\ UNCHANGED <<pans, log>>

\* the closure of `deferclo g`
CloStep ==
    /\ Running /\ Top.kind = "clo" /\ Top.mode = "run"
    /\ IF Top.pc = 1
       THEN /\ st' = Append(SetTop([Top EXCEPT !.pc = 2]), FnFrame(Top.fn, FALSE, 0, "clo"))
            /\ UNCHANGED <<pans, log>>
       ELSE \* res += 10 * acc in the deferring frame, then return
            /\ LET n == Len(st)
                   below == [st[n - 1] EXCEPT !.res = @ + 10 * Top.acc]
               IN AfterDeferred(Top.runner, [st EXCEPT ![n - 1] = below])
    /\ UNCHANGED <<body, closed, outcome>>

\* run the next deferred call of the top frame (normally, or under the top panic)
RunDeferred ==
    /\ Running /\ Top.kind = "fn" /\ Top.mode \in {"exit", "panic"} /\ Top.defs # <<>>
    /\ LET T == Top
           d == T.defs[Len(T.defs)]
           T1 == [T EXCEPT !.defs = SubSeq(@, 1, Len(@) - 1)]
           runner == IF T.mode = "panic" THEN Len(pans) ELSE 0
       IN CASE d.t = "fn" ->
                 /\ st' = Append(SetTop(T1), FnFrame(d.g, TRUE, runner, "drop"))
                 /\ UNCHANGED <<pans, log>>
            [] d.t = "clo" ->
                 /\ st' = Append(SetTop(T1), CloFrame(d.g, runner))
                 /\ UNCHANGED <<pans, log>>
            [] d.t = "rec" ->
                 IF runner > 0
                 THEN \* direct recover in a deferred closure run by the panic: stops it
                      /\ Evt(<<"R", d.f, d.pc, pans[runner].val>>)
                      /\ pans' = SubSeq(pans, 1, runner - 1)
                      /\ st' = SetTop([T1 EXCEPT !.res = d.v, !.mode = "exit"])
                 ELSE /\ Evt(<<"R", d.f, d.pc, 0>>)
                      /\ st' = SetTop(T1) /\ UNCHANGED pans
    /\ UNCHANGED <<body, closed, outcome>>

\* normal return of a function frame whose deferred calls are done
Return ==
    /\ Running /\ Top.kind = "fn" /\ Top.mode = "exit" /\ Top.defs = <<>>
    /\ LET T == Top
           n == Len(st)
       IN CASE T.onret = "top" ->
                 /\ outcome' = <<"done", T.res>> /\ st' = <<>> /\ UNCHANGED <<pans, log>>
            [] T.onret = "log" ->
                 /\ Evt(<<"ret", T.fn, T.res>>) /\ st' = Pop /\ UNCHANGED <<pans, outcome>>
            [] T.onret = "clo" ->
                 /\ st' = [Pop EXCEPT ![n - 1].acc = T.res] /\ UNCHANGED <<pans, log, outcome>>
            [] T.onret = "drop" ->
                 /\ AfterDeferred(T.runner, st) /\ UNCHANGED outcome
    /\ UNCHANGED <<body, closed>>

\* the top frame has no deferred call left while the top panic is unwinding it: abandon it
Unwind ==
    /\ Running /\ Top.mode = "panic" /\ Top.defs = <<>>
    /\ LET T == Top
           n == Len(st)
           \* abandoning a deferred call that an earlier panic started aborts that panic
           pans1 == IF T.runner > 0 /\ T.runner < Len(pans) THEN RemoveAt(pans, T.runner) ELSE pans
       IN /\ pans' = pans1
          /\ IF n = 1
             THEN /\ outcome' = <<"escape", pans[Len(pans)].val>> /\ st' = <<>>
             ELSE /\ st' = [Pop EXCEPT ![n - 1].mode = "panic"] /\ UNCHANGED outcome
    /\ UNCHANGED <<body, closed, log>>

\* a panic raised inside the function called by a `deferclo` closure reaches the closure
\* frame in mode "run": closures have no deferred calls of their own
Step == Reveal \/ ExecOp \/ EndBody \/ CloStep \/ RunDeferred \/ Return \/ Unwind
Next == Step /\ maxp' = IF Len(pans') > maxp THEN Len(pans') ELSE maxp

Spec == Init /\ [][Next]_vars

----------------------------------------------------------------------------
(* Properties of the semantics itself, checked by TLC (M) *)

TypeOK == /\ \A i \in 1..Len(st) : st[i].mode \in {"run", "exit", "panic"}
          /\ \A i \in 1..Len(pans) : pans[i].val \in PanicVals

\* a frame is unwound by a panic only while a panic is active
PanicModeHasPanic == \A i \in 1..Len(st) : st[i].mode = "panic" => pans # <<>>

\* every deferred call started by a panic refers to an active panic
RunnerValid == \A i \in 1..Len(st) : st[i].runner <= Len(pans)

\* when the program is over nothing is left: a recovered panic never resurfaces and an
\* escaping panic is the last one raised and not recovered
DoneClean == outcome # <<>> =>
               /\ st = <<>>
               /\ (outcome[1] = "done" => pans = <<>>)
               /\ (outcome[1] = "escape" => pans # <<>> /\ ~pans[Len(pans)].recovered)

\* recover() that is not made directly by a deferred function returns nil: every
\* successful recovery is logged from a frame that is a direct deferred call
Emit == IF EmitOn /\ outcome # <<>>
        THEN PrintT(ToJson([body |-> body, log |-> log, outcome |-> outcome, maxp |-> maxp]))
        ELSE TRUE
=============================================================================

------------------------------- MODULE Defer -------------------------------
(***************************************************************************)
(* Go-level semantics of defer / panic / recover (the Go specification,     *)
(* "Defer statements", "Handling panics", and the run-time rule that a      *)
(* recover() stops a panic only when called DIRECTLY by a deferred function *)
(* that is being run by that panic's unwinding), with                       *)
(*   - an environment action: the injected compiled hook ev() may panic at  *)
(*     its faultAt-th call (fault injection, property C12);                 *)
(*   - an implementation-level annotation: gomacro's single                 *)
(*     Run.PanicFun slot and its recover test (IsDefer /\ PanicFun # nil /\ *)
(*     DeferOfFun = PanicFun, fast/builtin.go callRecover; fast/code.go     *)
(*     rundefer / pushDefer / maybeRepanic), checked by TLC to agree with   *)
(*     the Go rule whenever at most one panic is in flight.                 *)
(*                                                                          *)
(* A behaviour is a PROGRAM together with its unique execution: function    *)
(* bodies are state (`body`) and grow by lazy revelation exactly when       *)
(* control reaches a position that has no operation yet, so BFS enumerates  *)
(* every program up to the bounds with its expected event log.              *)
(*                                                                          *)
(* Program shape (rendered by the harness):                                 *)
(*   func fI() (res int) { op; op; ... }      I in 0..NF-1                   *)
(* calls and defers only target higher-numbered functions (termination).    *)
(* Operations:                                                              *)
(*   L           ev("L", I, pc)                                             *)
(*   call g      ev("ret", g, fg())                                         *)
(*   defer g     defer fg()                                                 *)
(*   deferloop g for i := 0; i < 2; i++ { defer fg() }                      *)
(*   deferclo g  defer func() { res += 10 * fg() }()    (fg one call deeper)*)
(*   deferrec v  defer func() { r := recover(); ev("R", I, pc, r);          *)
(*                              if r != nil { res = v } }()                 *)
(*   deferev     defer ev("D", I, pc)           (deferred COMPILED function) *)
(*   rec         ev("R", I, pc, recover())      (direct call in fI's body)  *)
(*   panic v     panic(<value v>)                                           *)
(*   set v       res = v                                                    *)
(*   ret v       return v                                                   *)
(*   spin        a counted loop of 100 trivial statements (executor phase 2)*)
(* Every event carries two observations of the executor's bookkeeping at    *)
(* the time of the ev() call: whether the running function is a deferred    *)
(* call (ExecFlags.IsDefer) and the call depth (Run.CurrEnv.CallDepth).     *)
(* The depth is only predicted until the first panic of the evaluation: a   *)
(* frame abandoned by a panic restores Run.CurrEnv only if it runs on the   *)
(* executor's slow path, which depends on code not yet revealed (0 = not    *)
(* predicted).                                                              *)
(***************************************************************************)
EXTENDS Naturals, Sequences, FiniteSets, TLC, Json

CONSTANTS NF,         \* number of functions
          MaxOps,     \* maximum operations per body
          MaxTotal,   \* maximum operations in the whole program
          PanicVals,  \* values that may be panicked with
          OpKinds,    \* enabled operation kinds
          MaxFault,   \* the hook may panic at its k-th call, k in 1..MaxFault (0: never)
          ImplChecksDeferOf, \* TRUE: the code's test DeferOfFun = PanicFun. FALSE: broken variant
          EmitOn

VARIABLES body, closed, st, pans, log, outcome,
          maxp,      \* history: largest number of panics in flight at the same time
          faultAt,   \* 0, or the index of the ev() call at which the hook panics
          nev,       \* number of ev() calls made so far
          fid,       \* frame id counter
          panicFun,  \* implementation: id of the frame stored in Run.PanicFun, 0 = nil
          disagree   \* history: the implementation-level test differed from the Go rule

vars == <<body, closed, st, pans, log, outcome, maxp, faultAt, nev, fid, panicFun, disagree>>

FaultVal == 9
Funs == 0..(NF - 1)

TotalOps == LET RECURSIVE Sum(_)
                Sum(i) == IF i = NF THEN 0 ELSE Len(body[i]) + Sum(i + 1)
            IN Sum(0)

\* operations that may be revealed at the next position of function f
OpsFor(f) ==
    (IF "L" \in OpKinds THEN {[k |-> "L"]} ELSE {})
    \cup (IF "rec" \in OpKinds THEN {[k |-> "rec"]} ELSE {})
    \cup (IF "spin" \in OpKinds THEN {[k |-> "spin"]} ELSE {})
    \cup (IF "deferev" \in OpKinds THEN {[k |-> "deferev"]} ELSE {})
    \* sv.V++ on a struct-typed local, and  defer evT("V", I, pc, sv)  with an INTERPRETED callee:
    \* the argument is evaluated (copied) when the defer statement executes
    \cup (IF "mut" \in OpKinds THEN {[k |-> "mut"]} ELSE {})
    \cup (IF "deferval" \in OpKinds THEN {[k |-> "deferval"]} ELSE {})
    \cup (IF "bp" \in OpKinds THEN {[k |-> "bp"]} ELSE {})   \* _ = "break": a debugger breakpoint, no effect
    \cup (IF "set" \in OpKinds THEN {[k |-> "set", v |-> 5]} ELSE {})
    \cup (IF "ret" \in OpKinds THEN {[k |-> "ret", v |-> 6]} ELSE {})
    \cup (IF "deferrec" \in OpKinds THEN {[k |-> "deferrec", v |-> 7]} ELSE {})
    \cup (IF "panic" \in OpKinds THEN {[k |-> "panic", v |-> v] : v \in PanicVals} ELSE {})
    \cup UNION {{[k |-> kk, g |-> g] : g \in {h \in Funs : h > f}} :
                  kk \in {"call", "defer", "deferloop", "deferclo"} \cap OpKinds}

\* frames --------------------------------------------------------------------
\* kind "fn":  fn, pc, defs, res, direct (invoked as the deferred call itself),
\*             runner (index in `pans` of the panic whose unwinding started this
\*             deferred call, 0 if none), mode in {"run","exit","panic"},
\*             onret in {"top","log","drop","clo"}, id
\* kind "clo": the closure of `deferclo g`: g, runner, pc (1: call fg, 2: add), acc
FnFrame(f, direct, runner, onret) ==
    [kind |-> "fn", fn |-> f, pc |-> 1, defs |-> <<>>, res |-> 0, direct |-> direct,
     runner |-> runner, mode |-> "run", onret |-> onret, acc |-> 0, id |-> fid, sv |-> 0]
CloFrame(g, runner) ==
    [kind |-> "clo", fn |-> g, pc |-> 1, defs |-> <<>>, res |-> 0, direct |-> FALSE,
     runner |-> runner, mode |-> "run", onret |-> "drop", acc |-> 0, id |-> fid, sv |-> 0]

Top == st[Len(st)]
SetTop(f) == [st EXCEPT ![Len(st)] = f]
Pop == SubSeq(st, 1, Len(st) - 1)

RemoveAt(s, i) == SubSeq(s, 1, i - 1) \o SubSeq(s, i + 1, Len(s))

\* ExecFlags.IsDefer while frame T runs: T was started as a deferred call
IsDeferFrame(T) == T.direct \/ T.kind = "clo"

\* recover() called directly in the body of frame T: effective iff T is the deferred call
\* itself and was started by the unwinding of the current (top, not yet recovered) panic.
Eligible(T) == /\ T.direct /\ T.runner > 0 /\ T.runner = Len(pans)
               /\ ~pans[T.runner].recovered

\* the implementation's test (callRecover) for the top frame T; DeferOfFun is the frame
\* that deferred the innermost running deferred call = the frame just below T when T is one
ImplEligible(T) == /\ IsDeferFrame(T) /\ T.direct
                   /\ panicFun # 0
                   /\ (ImplChecksDeferOf => st[Len(st) - 1].id = panicFun)

----------------------------------------------------------------------------
\* one ev() call made by the code of the top frame.
\*   e: the event; sOk/pOk: stack and panics after the step when the hook returns;
\*   sF/pF: stack (its top frame is the one calling ev) and panics when the hook panics
Fires == faultAt > 0 /\ nev + 1 = faultAt
EvCall2(e, sOk, pOk, sF, pF) ==
    /\ nev' = nev + 1
    /\ IF Fires
       THEN /\ log' = log
            /\ pans' = Append(pF, [val |-> FaultVal, recovered |-> FALSE])
            /\ st' = [sF EXCEPT ![Len(sF)].mode = "panic"]
       ELSE /\ log' = Append(log, e) /\ pans' = pOk /\ st' = sOk
EvCall(e, s, p) == EvCall2(e, s, p, s, p)

Init == /\ body = [f \in Funs |-> <<>>]
        /\ closed = [f \in Funs |-> FALSE]
        /\ fid = 2
        /\ st = <<[FnFrame(0, FALSE, 0, "top") EXCEPT !.id = 1]>>
        /\ pans = <<>>
        /\ log = <<>>
        /\ outcome = <<>>
        /\ maxp = 0
        /\ faultAt \in 0..MaxFault
        /\ nev = 0
        /\ panicFun = 0
        /\ disagree = FALSE

Running == outcome = <<>> /\ st # <<>>

\* reveal the next operation of the running function, or close its body
Reveal ==
    /\ Running /\ Top.kind = "fn" /\ Top.mode = "run"
    /\ LET f == Top.fn IN
       /\ Top.pc = Len(body[f]) + 1 /\ ~closed[f]
       /\ \/ /\ Len(body[f]) < MaxOps /\ TotalOps < MaxTotal
             /\ \E op \in OpsFor(f) : body' = [body EXCEPT ![f] = Append(@, op)]
             /\ UNCHANGED closed
          \/ /\ closed' = [closed EXCEPT ![f] = TRUE]
             /\ UNCHANGED body
    /\ UNCHANGED <<st, pans, log, outcome, nev, fid, panicFun, disagree>>

\* execute one operation of the running function
ExecOp ==
    /\ Running /\ Top.kind = "fn" /\ Top.mode = "run"
    /\ LET T == Top
           f == T.fn
           isd == IsDeferFrame(T)
           dep == IF maxp = 0 THEN Len(st) ELSE 0
       IN /\ T.pc <= Len(body[f])
          /\ LET op == body[f][T.pc]
                 T1 == [T EXCEPT !.pc = @ + 1]
             IN CASE op.k = "L" ->
                       /\ EvCall(<<"L", f, T.pc, isd, dep>>, SetTop(T1), pans)
                       /\ UNCHANGED <<fid, panicFun, disagree>>
                  [] op.k = "bp" ->
                       /\ st' = SetTop(T1) /\ UNCHANGED <<pans, log, nev, fid, panicFun, disagree>>
                  [] op.k = "spin" ->
                       /\ st' = SetTop(T1) /\ UNCHANGED <<pans, log, nev, fid, panicFun, disagree>>
                  [] op.k = "set" ->
                       /\ st' = SetTop([T1 EXCEPT !.res = op.v])
                       /\ UNCHANGED <<pans, log, nev, fid, panicFun, disagree>>
                  [] op.k = "ret" ->
                       /\ st' = SetTop([T1 EXCEPT !.res = op.v, !.mode = "exit"])
                       /\ UNCHANGED <<pans, log, nev, fid, panicFun, disagree>>
                  [] op.k = "call" ->
                       /\ st' = Append(SetTop(T1), FnFrame(op.g, FALSE, 0, "log"))
                       /\ fid' = fid + 1
                       /\ UNCHANGED <<pans, log, nev, panicFun, disagree>>
                  [] op.k = "defer" ->
                       /\ st' = SetTop([T1 EXCEPT !.defs = Append(@, [t |-> "fn", g |-> op.g])])
                       /\ UNCHANGED <<pans, log, nev, fid, panicFun, disagree>>
                  [] op.k = "deferloop" ->
                       /\ st' = SetTop([T1 EXCEPT !.defs = @ \o <<[t |-> "fn", g |-> op.g], [t |-> "fn", g |-> op.g]>>])
                       /\ UNCHANGED <<pans, log, nev, fid, panicFun, disagree>>
                  [] op.k = "deferclo" ->
                       /\ st' = SetTop([T1 EXCEPT !.defs = Append(@, [t |-> "clo", g |-> op.g])])
                       /\ UNCHANGED <<pans, log, nev, fid, panicFun, disagree>>
                  [] op.k = "deferrec" ->
                       /\ st' = SetTop([T1 EXCEPT !.defs = Append(@, [t |-> "rec", v |-> op.v, f |-> f, pc |-> T.pc])])
                       /\ UNCHANGED <<pans, log, nev, fid, panicFun, disagree>>
                  [] op.k = "mut" ->
                       /\ st' = SetTop([T1 EXCEPT !.sv = @ + 1])
                       /\ UNCHANGED <<pans, log, nev, fid, panicFun, disagree>>
                  [] op.k = "deferval" ->
                       /\ st' = SetTop([T1 EXCEPT !.defs = Append(@, [t |-> "val", f |-> f, pc |-> T.pc, v |-> T.sv])])
                       /\ UNCHANGED <<pans, log, nev, fid, panicFun, disagree>>
                  [] op.k = "deferev" ->
                       /\ st' = SetTop([T1 EXCEPT !.defs = Append(@, [t |-> "ev", f |-> f, pc |-> T.pc])])
                       /\ UNCHANGED <<pans, log, nev, fid, panicFun, disagree>>
                  [] op.k = "rec" ->
                       LET go == Eligible(T)
                           impl == ImplEligible(T)
                           val == IF go THEN pans[T.runner].val ELSE 0
                           p1 == IF go THEN [pans EXCEPT ![T.runner].recovered = TRUE] ELSE pans
                       IN /\ EvCall(<<"R", f, T.pc, val, isd, dep>>, SetTop(T1), p1)
                          /\ panicFun' = IF impl THEN 0 ELSE panicFun
                          /\ disagree' = (disagree \/ (go # impl))
                          /\ UNCHANGED fid
                  [] op.k = "panic" ->
                       /\ pans' = Append(pans, [val |-> op.v, recovered |-> FALSE])
                       /\ st' = SetTop([T1 EXCEPT !.mode = "panic"])
                       /\ UNCHANGED <<log, nev, fid, panicFun, disagree>>
    /\ UNCHANGED <<body, closed, outcome>>

\* the body is finished (closed or full): start running deferred calls normally
EndBody ==
    /\ Running /\ Top.kind = "fn" /\ Top.mode = "run"
    /\ Top.pc = Len(body[Top.fn]) + 1
    /\ (closed[Top.fn] \/ Len(body[Top.fn]) = MaxOps \/ TotalOps >= MaxTotal)
    /\ st' = SetTop([Top EXCEPT !.mode = "exit"])
    /\ closed' = [closed EXCEPT ![Top.fn] = TRUE]
    /\ UNCHANGED <<body, pans, log, outcome, nev, fid, panicFun, disagree>>

\* a deferred call started with `runner` has returned normally; s = stack whose top is the
\* deferred frame itself. If its panic was recovered the deferring frame goes on normally.
\* (rundefer: `if panicking { panicking = maybeRepanic(run) }` tests PanicFun # nil.)
AfterDeferred(runner, s) ==
    LET n == Len(s)
        rest == SubSeq(s, 1, n - 1)
    IN /\ IF runner > 0 /\ pans[runner].recovered
          THEN /\ pans' = SubSeq(pans, 1, runner - 1)
               /\ st' = [rest EXCEPT ![n - 1].mode = "exit"]
          ELSE /\ st' = rest /\ UNCHANGED pans
       /\ disagree' = (disagree \/ (runner > 0 /\ (pans[runner].recovered # (panicFun = 0))))
       /\ UNCHANGED <<log, nev, fid, panicFun>>

\* the closure of `deferclo g`
CloStep ==
    /\ Running /\ Top.kind = "clo" /\ Top.mode = "run"
    /\ IF Top.pc = 1
       THEN /\ st' = Append(SetTop([Top EXCEPT !.pc = 2]), FnFrame(Top.fn, FALSE, 0, "clo"))
            /\ fid' = fid + 1
            /\ UNCHANGED <<pans, log, nev, panicFun, disagree>>
       ELSE \* res += 10 * acc in the deferring frame, then return
            /\ LET n == Len(st)
                   below == [st[n - 1] EXCEPT !.res = @ + 10 * Top.acc]
               IN AfterDeferred(Top.runner, [st EXCEPT ![n - 1] = below])
    /\ UNCHANGED <<body, closed, outcome>>

\* run the next deferred call of the top frame (normally, or under the top panic)
RunDeferred ==
    /\ Running /\ Top.kind = "fn" /\ Top.mode \in {"exit", "panic"} /\ Top.defs # <<>>
    /\ LET T == Top
           d == T.defs[Len(T.defs)]
           T1 == [T EXCEPT !.defs = SubSeq(@, 1, Len(@) - 1)]
           runner == IF T.mode = "panic" THEN Len(pans) ELSE 0
           pf1 == IF T.mode = "panic" THEN T.id ELSE panicFun   \* pushDefer(run, funenv, panicking)
       IN CASE d.t = "fn" ->
                 /\ st' = Append(SetTop(T1), FnFrame(d.g, TRUE, runner, "drop"))
                 /\ fid' = fid + 1 /\ panicFun' = pf1
                 /\ UNCHANGED <<pans, log, nev, disagree>>
            [] d.t = "clo" ->
                 /\ st' = Append(SetTop(T1), CloFrame(d.g, runner))
                 /\ fid' = fid + 1 /\ panicFun' = pf1
                 /\ UNCHANGED <<pans, log, nev, disagree>>
            [] d.t = "ev" ->
                 \* a deferred compiled function: no interpreted frame. If the hook panics while
                 \* the deferring frame is being unwound, the new panic replaces (aborts) the old one
                 /\ EvCall2(<<"D", d.f, d.pc, IsDeferFrame(T), 0>>, SetTop(T1), pans,
                            SetTop(T1), IF T.mode = "panic" THEN SubSeq(pans, 1, Len(pans) - 1) ELSE pans)
                 /\ panicFun' = pf1
                 /\ UNCHANGED <<fid, disagree>>
            [] d.t = "val" ->
                 \* deferred interpreted function evT(tag, f, pc, x): one frame, one ev() call, no defers
                 /\ EvCall2(<<"V", d.f, d.pc, d.v, TRUE, 0>>, SetTop(T1), pans,
                            SetTop(T1), IF T.mode = "panic" THEN SubSeq(pans, 1, Len(pans) - 1) ELSE pans)
                 /\ panicFun' = pf1
                 /\ UNCHANGED <<fid, disagree>>
            [] d.t = "rec" ->
                 \* the closure runs atomically: r := recover(); ev("R", ...); if r != nil { res = v }
                 LET go == runner > 0
                     impl == pf1 # 0 /\ (ImplChecksDeferOf => pf1 = T.id)
                     pf2 == IF impl THEN 0 ELSE pf1
                 IN /\ IF go
                       THEN \* direct recover in a deferred closure run by the panic: stops it
                            EvCall2(<<"R", d.f, d.pc, pans[runner].val, TRUE, 0>>,
                                    SetTop([T1 EXCEPT !.res = d.v, !.mode = "exit"]),
                                    SubSeq(pans, 1, runner - 1),
                                    SetTop(T1), SubSeq(pans, 1, runner - 1))
                       ELSE EvCall(<<"R", d.f, d.pc, 0, TRUE, IF maxp = 0 THEN Len(st) + 1 ELSE 0>>, SetTop(T1), pans)
                    /\ panicFun' = pf2
                    \* rundefer then tests PanicFun # nil to decide whether to re-panic
                    /\ disagree' = (disagree \/ (go # impl))
                    /\ UNCHANGED fid
    /\ UNCHANGED <<body, closed, outcome>>

\* normal return of a function frame whose deferred calls are done
Return ==
    /\ Running /\ Top.kind = "fn" /\ Top.mode = "exit" /\ Top.defs = <<>>
    /\ LET T == Top
           n == Len(st)
       IN CASE T.onret = "top" ->
                 /\ outcome' = <<"done", T.res>> /\ st' = <<>>
                 /\ UNCHANGED <<pans, log, nev, fid, panicFun, disagree>>
            [] T.onret = "log" ->
                 /\ EvCall(<<"ret", T.fn, T.res, IsDeferFrame(st[n - 1]), IF maxp = 0 THEN n - 1 ELSE 0>>, Pop, pans)
                 /\ UNCHANGED <<outcome, fid, panicFun, disagree>>
            [] T.onret = "clo" ->
                 /\ st' = [Pop EXCEPT ![n - 1].acc = T.res]
                 /\ UNCHANGED <<pans, log, outcome, nev, fid, panicFun, disagree>>
            [] T.onret = "drop" ->
                 /\ AfterDeferred(T.runner, st) /\ UNCHANGED outcome
    /\ UNCHANGED <<body, closed>>

\* the top frame has no deferred call left while the top panic is unwinding it: abandon it
Unwind ==
    /\ Running /\ Top.mode = "panic" /\ Top.defs = <<>>
    /\ LET T == Top
           n == Len(st)
           \* abandoning a deferred call that an earlier panic started aborts that panic
           pans1 == IF T.runner > 0 /\ T.runner < Len(pans) THEN RemoveAt(pans, T.runner) ELSE pans
       IN /\ pans' = pans1
          /\ IF n = 1
             THEN /\ outcome' = <<"escape", pans[Len(pans)].val>> /\ st' = <<>>
             ELSE /\ st' = [Pop EXCEPT ![n - 1].mode = "panic"] /\ UNCHANGED outcome
    /\ UNCHANGED <<body, closed, log, nev, fid, panicFun, disagree>>

Step == Reveal \/ ExecOp \/ EndBody \/ CloStep \/ RunDeferred \/ Return \/ Unwind
Next == /\ Step
        /\ maxp' = IF Len(pans') > maxp THEN Len(pans') ELSE maxp
        /\ UNCHANGED faultAt

Spec == Init /\ [][Next]_vars

----------------------------------------------------------------------------
(* Properties of the semantics itself, checked by TLC (M) *)

TypeOK == /\ \A i \in 1..Len(st) : st[i].mode \in {"run", "exit", "panic"}
          /\ \A i \in 1..Len(pans) : pans[i].val \in PanicVals \cup {FaultVal}

\* a frame is unwound by a panic only while a panic is active
PanicModeHasPanic == \A i \in 1..Len(st) : st[i].mode = "panic" => pans # <<>>

\* every deferred call started by a panic refers to an active panic
RunnerValid == \A i \in 1..Len(st) : st[i].runner <= Len(pans)

\* when the program is over nothing is left: a recovered panic never resurfaces and an
\* escaping panic is the last one raised and not recovered
DoneClean == outcome # <<>> =>
               /\ st = <<>>
               /\ (outcome[1] = "done" => pans = <<>>)
               /\ (outcome[1] = "escape" => pans # <<>> /\ ~pans[Len(pans)].recovered)

\* gomacro's single-slot protocol decides recover() and re-panic exactly as Go does as long
\* as no panic is raised while another one is in flight
ImplAgrees == disagree => maxp >= 2

\* the hook can only fire once, and only if it was armed
FaultOnce == faultAt = 0 => \A i \in 1..Len(pans) : pans[i].val # FaultVal

Emit == IF EmitOn /\ outcome # <<>>
        THEN PrintT(ToJson([body |-> body, log |-> log, outcome |-> outcome, maxp |-> maxp,
                            fault |-> faultAt, nev |-> nev, disagree |-> disagree]))
        ELSE TRUE
=============================================================================

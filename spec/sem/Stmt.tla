------------------------------- MODULE Stmt -------------------------------
(***************************************************************************)
(* Go-level small-step semantics of STRUCTURED statements (Go spec:        *)
(* "If", "For" (three clause forms and range), "Switch" (expression and    *)
(* type switches, fallthrough), "Select", "Break", "Continue", "Goto",     *)
(* "Return", "Blocks" / "Declarations and scope"; Go <= 1.21: the variables *)
(* declared by a for/range header are PER LOOP, not per iteration).        *)
(*                                                                          *)
(* A behaviour is a PROGRAM together with its execution.  A generation     *)
(* phase (GenNode / GenClose) builds a statement tree inside a node budget *)
(* in pre-order (every tree is produced by exactly one action sequence);   *)
(* then the tree is executed by small steps over a continuation stack.     *)
(* Execution is a function of the state (StepResult), except for the       *)
(* iteration order of a map with several entries, which is an environment  *)
(* choice made every time such a range statement is entered.               *)
(*                                                                          *)
(* Rendering (harness/props/c05.go):                                        *)
(*   func pN() (int, int) { x, y := 0, 0; <hidden vars>; <tree>; return x, y } *)
(* Node kinds (field k), parameters f (form), c (second form), n, lay:     *)
(*   tr        ev(id, x, y)                                                 *)
(*   as        f: x++ | y=x+y (mod 8) | x=y | y+=2 | x+=i (innermost loop var) *)
(*   if        f: plain (cond c) | init (if t := x + 1; t > 1); n slots     *)
(*   blk       f: plain | shadow  ({ x := x + 1; ... })                     *)
(*   for3      for i := 0; i < n; i++ ; f: plain | capt (closure over i    *)
(*             appended every iteration, all called right after the loop)  *)
(*   forc      f: cond (for c < n { c++ ..}) | ever (for { if c >= n {break}; c++ ..}) *)
(*   rng       c: slice|array|ptrarray|string|map0|map1|map2|chan          *)
(*             f: kv | k | v | none | kv= | k= | kvc (kv + closure over v) *)
(*   mut       mutate the container of the innermost enclosing range       *)
(*   sw        f: x | y | i | x+y | evi (switch evi(x, id)) | init         *)
(*             (switch t := x + 1; t) | none (no tag) | bool (switch x < 2) *)
(*             lay: clauses [ts: terms, ft: fallthrough, def: default]     *)
(*   tsw       type switch on tab[c % 6] (int, string, bool, nil, D, E: two    *)
(*             named types with a String method); f: bind | nobind;          *)
(*             case terms 0..5 name these types, 6 is the interface          *)
(*             { String() string } (D and E implement it), 7 is interface{}  *)
(*   sel       select, f: d | rd1 | rd0 | r1 | sd1 | sd0 | sx1 | sx0 | rr | rc *)
(*   brk, cnt  t: 0 = unlabelled, else the labelled target node            *)
(*   goto      if g < GotoLim { g++; goto t }   (t: an earlier statement   *)
(*             of an enclosing block: backward only)                        *)
(*   ret       return x, y                                                  *)
(* Observation: the log of events and the final (x, y).                    *)
(*                                                                          *)
(* Generation modes: BFS enumerates every tree over the given Templates /   *)
(* JumpKinds inside MaxNodes / MaxDepth; with Fams the tree must follow one *)
(* of the given shape families (pre-order position -> allowed templates and *)
(* parent: the specialisation cells); with UsePick (simulation) a random    *)
(* walk first draws the category (leaf / compound / jump / close, weighted) *)
(* and the kind of the next statement, so that trees of every shape are     *)
(* sampled although the alphabet has ~100 templates.                        *)
(***************************************************************************)
EXTENDS Naturals, Sequences, FiniteSets, TLC, Json

CONSTANTS MaxNodes,      \* statements in the tree (the function body itself not counted)
          MaxDepth,      \* nesting of compound statements
          Templates,     \* sequence of node templates [nm, k, f, c, n, lay]
          JumpKinds,     \* subset of {"brk","brkL","cnt","cntL","goto","ret"}
          AutoSet,       \* subset of BOOLEAN: log an event at every block entry
          AllowDead,     \* statements may follow an unconditional jump in a block
          GotoLim,       \* a goto statement fires at most GotoLim times
          MaxSteps,      \* bound on execution steps (every program must terminate before)
          ContinueSeesSwitch, \* TRUE: broken variant of unlabelled continue
          MinNodes,      \* the function body is not closed before it has MinNodes statements (simulation)
          UsePick,       \* simulation: pick the category of each generation step first
          Fams,          \* shape families [pt, pp]: per pre-order position the allowed template / jump
                         \* names ({} = any) and the parent (0 = any); <<>> = unconstrained generation
          EmitOn

VARIABLES nodes, open, phase, auto, st, log, outcome, gc, lastJump, steps, ords, gcat, gk, gw, fam,
          famr,  \* = Fams[fam]
          tpls   \* = Templates, never changes (a state variable is looked up, the constant re-evaluated)

vars == <<nodes, open, phase, auto, st, log, outcome, gc, lastJump, steps, ords, gcat, gk, gw, fam, famr, tpls>>

Loops == {"for3", "forc", "rng"}
\* dynamic types matched by the case term v of a type switch: the first clause that lists a
\* term matching the dynamic type is taken (Go specification, "Type switches")
TMembers(v) == IF v = 6 THEN {4, 5} ELSE IF v = 7 THEN {0, 1, 2, 4, 5} ELSE {v}
Breakables == Loops \cup {"sw", "tsw", "sel"}
Jumps == {"brk", "cnt", "ret"}

SelInfo(f) ==
    CASE f = "d"   -> [ns |-> 1, take |-> 1, e |-> <<>>]
      [] f = "rd1" -> [ns |-> 2, take |-> 1, e |-> <<5>>]
      [] f = "rd0" -> [ns |-> 2, take |-> 2, e |-> <<>>]
      [] f = "r1"  -> [ns |-> 1, take |-> 1, e |-> <<5>>]
      [] f = "sd1" -> [ns |-> 2, take |-> 1, e |-> <<>>]
      [] f = "sd0" -> [ns |-> 2, take |-> 2, e |-> <<>>]
      [] f = "sx1" -> [ns |-> 2, take |-> 1, e |-> <<>>]
      [] f = "sx0" -> [ns |-> 2, take |-> 2, e |-> <<>>]
      [] f = "rr"  -> [ns |-> 2, take |-> 2, e |-> <<6>>]
      [] f = "rc"  -> [ns |-> 2, take |-> 1, e |-> <<0, 0>>]

\* number of blocks of a node made from template tp
NSlots(tp) ==
    CASE tp.k \in {"for3", "forc", "rng", "blk"} -> 1
      [] tp.k = "if" -> tp.n
      [] tp.k \in {"sw", "tsw"} -> Len(tp.lay)
      [] tp.k = "sel" -> SelInfo(tp.f).ns
      [] OTHER -> 0

\* items <<key, value>> a range statement iterates over
Items(c, ord) ==
    CASE c \in {"slice", "array", "ptrarray"} -> <<<<0, 4>>, <<1, 5>>, <<2, 6>>>>
      [] c = "string" -> <<<<0, 97>>, <<1, 233>>, <<3, 98>>>>     \* "aéb"
      [] c = "map0" -> <<>>
      [] c = "map1" -> <<<<2, 5>>>>
      [] c = "map2" -> IF ord = "asc" THEN <<<<1, 3>>, <<2, 4>>>> ELSE <<<<2, 4>>, <<1, 3>>>>
      [] c = "chan" -> <<<<8, 0>>, <<9, 0>>>>                      \* only the "key" is bound
Mutable == {"slice", "array", "ptrarray", "string"}
BindsI(nd) == nd.k = "for3" \/ (nd.k = "rng" /\ nd.f \in {"kv", "k", "kvc"})

----------------------------------------------------------------------------
(* static structure of the tree *)

Root == 1
RECURSIVE AncFind(_, _, _)
\* nearest node a on the parent chain starting AT a such that nodes[a].k \in K; 0 if none
AncFind(ns, a, K) == IF a = 0 THEN 0 ELSE IF ns[a].k \in K THEN a ELSE AncFind(ns, ns[a].p, K)
RECURSIVE AncSet(_, _)
AncSet(ns, a) == IF a = 0 THEN {} ELSE {a} \cup AncSet(ns, ns[a].p)
RECURSIVE AncFindI(_, _)
AncFindI(ns, a) == IF a = 0 THEN 0 ELSE IF BindsI(ns[a]) THEN a ELSE AncFindI(ns, ns[a].p)

\* the lexical rule of the Go specification: an unlabelled break refers to the innermost
\* enclosing for / switch / select, an unlabelled continue to the innermost enclosing for
StaticTarget(ns, m) ==
    IF ns[m].t # 0 THEN ns[m].t
    ELSE IF ns[m].k = "brk" THEN AncFind(ns, ns[m].p, Breakables)
    ELSE AncFind(ns, ns[m].p, Loops)

IndexOf(s, x) == CHOOSE i \in 1..Len(s) : s[i] = x

----------------------------------------------------------------------------
(* generation *)

NeedsI(tp) == (tp.k = "as" /\ tp.f = "x+=i") \/ (tp.k = "if" /\ tp.f = "plain" /\ tp.c = "i<1")
              \/ (tp.k = "sw" /\ tp.f = "i")
              \/ (tp.k = "sw" /\ \E j \in 1..Len(tp.lay) : \E q \in 1..Len(tp.lay[j].ts) : tp.lay[j].ts[q].cf = "i<1")

MkNode(tp, p, s, t) ==
    [k |-> tp.k, f |-> tp.f, c |-> tp.c, n |-> tp.n, lay |-> tp.lay, p |-> p, s |-> s,
     d |-> nodes[p].d + (IF NSlots(tp) > 0 THEN 1 ELSE 0),
     b |-> [i \in 1..NSlots(tp) |-> <<>>], t |-> t, lj |-> FALSE, lg |-> FALSE]

JumpTp(k) == [k |-> k, f |-> "", c |-> "", n |-> 0, lay |-> <<>>]

\* statements of enclosing blocks that precede the point of insertion (goto targets)
GotoTargets(p, s) == UNION {{nodes[nodes[a].p].b[nodes[a].s][i] : i \in 1..Len(nodes[nodes[a].p].b[nodes[a].s])} :
                              a \in AncSet(nodes, p) \ {Root}}
                     \cup {nodes[p].b[s][i] : i \in 1..Len(nodes[p].b[s])}

Add(nd, p, s, tgt, isGoto) ==
    LET id == Len(nodes) + 1
        n1 == [nodes EXCEPT ![p].b[s] = Append(@, id)]
        n2 == IF tgt = 0 THEN n1
              ELSE IF isGoto THEN [n1 EXCEPT ![tgt].lg = TRUE] ELSE [n1 EXCEPT ![tgt].lj = TRUE]
    IN /\ nodes' = Append(n2, nd)
       /\ open' = open \o [i \in 1..Len(nd.b) |-> <<id, Len(nd.b) + 1 - i>>]

\* optional constraint on the node generated at each pre-order position (used to enumerate one
\* family of shapes, e.g. the specialisation cells): allowed template / jump names and parent
PosOK(id, name, p) ==
    fam # 0 =>
        /\ id - 1 <= Len(famr.pt)
        /\ famr.pt[id - 1] = {} \/ name \in famr.pt[id - 1]
        /\ famr.pp[id - 1] = 0 \/ famr.pp[id - 1] = p

TplOK(tp, p) ==
    /\ NSlots(tp) > 0 => nodes[p].d < MaxDepth
    /\ NeedsI(tp) => AncFindI(nodes, p) # 0
    /\ tp.k = "mut" => LET r == AncFind(nodes, p, {"rng"}) IN r # 0 /\ nodes[r].c \in Mutable
    /\ PosOK(Len(nodes) + 1, tp.nm, p)

\* candidates for the next statement of block (p, s), by category:
\* [i: template index or 0, jk: jump kind, t: target]
Cands(p, s, cat) ==
    LET id == Len(nodes) + 1
        T == tpls
    IN
    CASE cat = "leaf" -> {[i |-> i, jk |-> "", t |-> 0] : i \in {i \in 1..Len(T) : NSlots(T[i]) = 0 /\ TplOK(T[i], p)}}
      [] cat = "comp" -> {[i |-> i, jk |-> "", t |-> 0] : i \in {i \in 1..Len(T) : NSlots(T[i]) > 0 /\ TplOK(T[i], p)}}
      [] cat = "jump" ->
           (IF "brk" \in JumpKinds /\ AncFind(nodes, p, Breakables) # 0 /\ PosOK(id, "brk", p)
            THEN {[i |-> 0, jk |-> "brk", t |-> 0]} ELSE {})
           \cup (IF "cnt" \in JumpKinds /\ AncFind(nodes, p, Loops) # 0 /\ PosOK(id, "cnt", p)
                 THEN {[i |-> 0, jk |-> "cnt", t |-> 0]} ELSE {})
           \cup (IF "brkL" \in JumpKinds /\ PosOK(id, "brkL", p)
                 THEN {[i |-> 0, jk |-> "brk", t |-> t] : t \in {a \in AncSet(nodes, p) : nodes[a].k \in Breakables}} ELSE {})
           \cup (IF "cntL" \in JumpKinds /\ PosOK(id, "cntL", p)
                 THEN {[i |-> 0, jk |-> "cnt", t |-> t] : t \in {a \in AncSet(nodes, p) : nodes[a].k \in Loops}} ELSE {})
           \cup (IF "goto" \in JumpKinds /\ PosOK(id, "goto", p)
                 THEN {[i |-> 0, jk |-> "goto", t |-> t] : t \in GotoTargets(p, s)} ELSE {})
           \cup (IF "ret" \in JumpKinds /\ p # Root /\ PosOK(id, "ret", p)   \* return from depth
                 THEN {[i |-> 0, jk |-> "ret", t |-> 0]} ELSE {})

Cats == {"leaf", "comp", "jump"}
CanGen == /\ phase = "gen" /\ open # <<>> /\ Len(nodes) <= MaxNodes
          /\ LET p == open[Len(open)][1]
                 blk == nodes[p].b[open[Len(open)][2]]
             IN IF AllowDead \/ blk = <<>> THEN TRUE ELSE nodes[blk[Len(blk)]].k \notin Jumps

CloseOK == (Len(open) = 1 /\ CanGen) => Len(nodes) > MinNodes

\* simulation only: choose the category of the next generation step first, so that random
\* walks close blocks and nest statements with comparable probabilities
TplGroup(tp) == tp.k
CandGroup(T, cd) == IF cd.i # 0 THEN TplGroup(T[cd.i]) ELSE cd.jk

\* (weights: the simulator chooses uniformly among the successor states)
PickCat(w) == IF w <= 2 THEN "leaf" ELSE IF w <= 5 THEN "comp" ELSE IF w = 6 THEN "jump" ELSE "close"
GenPick ==
    /\ UsePick /\ phase = "gen" /\ open # <<>> /\ gcat = ""
    /\ LET ok == IF CanGen THEN {c \in Cats : Cands(open[Len(open)][1], open[Len(open)][2], c) # {}} ELSE {}
           ws == {w \in 1..8 : IF PickCat(w) = "close" THEN CloseOK ELSE PickCat(w) \in ok}
       IN \E w \in ws : gw' = w /\ gcat' = PickCat(w)
    /\ UNCHANGED <<nodes, open, phase, auto, st, log, outcome, gc, lastJump, steps, ords, gk, fam, famr, tpls>>

\* second stage: the kind of the next statement (then GenNode chooses among its templates)
GenPick2 ==
    /\ UsePick /\ phase = "gen" /\ gcat \in Cats /\ gk = ""
    /\ LET T == tpls
       IN \E g \in {CandGroup(T, cd) : cd \in Cands(open[Len(open)][1], open[Len(open)][2], gcat)} : gk' = g
    /\ UNCHANGED <<nodes, open, phase, auto, st, log, outcome, gc, lastJump, steps, ords, gcat, gw, fam, famr, tpls>>

GenNode ==
    /\ CanGen
    /\ UsePick => gk # ""
    /\ LET p == open[Len(open)][1]
           s == open[Len(open)][2]
           T == tpls
       IN \E c \in (IF UsePick THEN {gcat} \cap Cats ELSE Cats) : \E cd \in Cands(p, s, c) :
             /\ UsePick => CandGroup(T, cd) = gk
             /\ IF cd.i # 0 THEN Add(MkNode(T[cd.i], p, s, 0), p, s, 0, FALSE)
                ELSE Add(MkNode(JumpTp(cd.jk), p, s, cd.t), p, s, cd.t, cd.jk = "goto")
    /\ gcat' = "" /\ gk' = "" /\ gw' = 0
    /\ UNCHANGED <<phase, auto, st, log, outcome, gc, lastJump, steps, ords, fam, famr, tpls>>

NoEnv == <<>>
Ctl(n, env, i, items) == [f |-> "ctl", n |-> n, s |-> 0, pc |-> 0, env |-> env, i |-> i,
                          items |-> items, live |-> items, nc |-> 0]
Blk(n, s) == [f |-> "blk", n |-> n, s |-> s, pc |-> 1, env |-> NoEnv, i |-> 0,
              items |-> <<>>, live |-> <<>>, nc |-> 0]

GenClose ==
    /\ phase = "gen" /\ open # <<>>
    /\ (UsePick => gcat = "close") /\ gcat' = "" /\ gw' = 0
    /\ CloseOK
    /\ open' = SubSeq(open, 1, Len(open) - 1)
    /\ IF Len(open) = 1
       THEN /\ phase' = "run"
            /\ st' = <<Ctl(Root, [x |-> 0, y |-> 0, rk |-> 0, rv |-> 0], 0, <<>>), Blk(Root, 1)>>
       ELSE UNCHANGED <<phase, st>>
    /\ UNCHANGED <<nodes, auto, log, outcome, gc, lastJump, steps, ords, gk, fam, famr, tpls>>

----------------------------------------------------------------------------
(* execution: pure functions from (stack, log, ...) to the next configuration *)

RECURSIVE FindVar(_, _, _)
FindVar(s, v, j) == IF j = 0 THEN 0 ELSE IF v \in DOMAIN s[j].env THEN j ELSE FindVar(s, v, j - 1)
Val(s, v) == s[FindVar(s, v, Len(s))].env[v]
SetV(s, v, val) == [s EXCEPT ![FindVar(s, v, Len(s))].env[v] = val]

Cond(s, c) ==
    CASE c = "x<2" -> Val(s, "x") < 2
      [] c = "x<1" -> Val(s, "x") < 1
      [] c = "x==y" -> Val(s, "x") = Val(s, "y")
      [] c = "y%2==0" -> Val(s, "y") % 2 = 0
      [] c = "x!=y" -> Val(s, "x") # Val(s, "y")
      [] c = "i<1" -> Val(s, "i") < 1
      [] c = "true" -> TRUE
      [] c = "false" -> FALSE

Pop(s, k) == SubSeq(s, 1, Len(s) - k)
Top(s) == s[Len(s)]

\* a configuration: stack, log, outcome
Cfg(s, l) == [st |-> s, log |-> l, outcome |-> <<>>]

\* entering block sl of node m (its ctl frame is the top of s); ex = extra values logged;
\* forced = the event is part of the statement's rendering (range, type switch, select)
Enter(s, l, m, sl, tag, ex, forced) ==
    Cfg(Append(s, Blk(m, sl)), IF auto \/ forced THEN Append(l, <<tag, m, sl>> \o ex) ELSE l)

\* the closures captured by loop m are called right after the loop: each logs the variable
Closures(l, m, nc, v) == l \o [j \in 1..nc |-> <<"c", m, v>>]

\* the loop whose ctl frame is on top of s ends (condition false, or break to it)
LoopExit(s, l) ==
    LET F == Top(s)
        nd == nodes[F.n]
    IN Cfg(Pop(s, 1),
           IF nd.k = "for3" /\ nd.f = "capt" THEN Closures(l, F.n, F.nc, F.env["i"])
           ELSE IF nd.k = "rng" /\ nd.f = "kvc" THEN Closures(l, F.n, F.nc, F.env["v"])
           ELSE l)

\* the value seen by iteration j of range frame F: slices (and arrays through a pointer) are
\* read live, arrays and strings were copied / evaluated once
RangeVal(F, nd, j) == IF nd.c \in {"slice", "ptrarray"} THEN F.live[j][2] ELSE F.items[j][2]

\* test the condition of the loop whose ctl frame is on top of s; enter the body or leave
LoopTest(s, l) ==
    LET F == Top(s)
        m == F.n
        nd == nodes[m]
        n == Len(s)
    IN CASE nd.k = "for3" ->
              IF F.env["i"] < nd.n
              THEN Enter([s EXCEPT ![n].nc = @ + 1], l, m, 1, "b", <<>>, FALSE)
              ELSE LoopExit(s, l)
         [] nd.k = "forc" ->
              IF F.i < nd.n
              THEN Enter([s EXCEPT ![n].i = @ + 1], l, m, 1, "b", <<>>, FALSE)
              ELSE LoopExit(s, l)
         [] nd.k = "rng" ->
              IF F.i < Len(F.items)
              THEN LET j == F.i + 1
                       key == F.items[j][1]
                       val == RangeVal(F, nd, j)
                       s1 == [s EXCEPT ![n].i = j, ![n].nc = @ + 1]
                   IN CASE nd.f \in {"kv", "kvc"} ->
                             Enter([s1 EXCEPT ![n].env = [i |-> key, v |-> val]], l, m, 1, "b", <<key, val>>, TRUE)
                        [] nd.f = "k" -> Enter([s1 EXCEPT ![n].env = [i |-> key]], l, m, 1, "b", <<key>>, TRUE)
                        [] nd.f = "v" -> Enter([s1 EXCEPT ![n].env = [v |-> val]], l, m, 1, "b", <<val>>, TRUE)
                        [] nd.f = "none" -> Enter(s1, l, m, 1, "b", <<>>, TRUE)
                        [] nd.f = "kv=" -> Enter(SetV(SetV(s1, "rk", key), "rv", val), l, m, 1, "b", <<key, val>>, TRUE)
                        [] nd.f = "k=" -> Enter(SetV(s1, "rk", key), l, m, 1, "b", <<key>>, TRUE)
              ELSE LoopExit(s, l)

\* post statement of the loop whose ctl frame is on top of s, then the condition
LoopPost(s, l) ==
    LET n == Len(s)
    IN IF nodes[Top(s).n].k = "for3" THEN LoopTest([s EXCEPT ![n].env["i"] = @ + 1], l)
       ELSE LoopTest(s, l)

\* --- expression switch: clause selection. Terms are evaluated top to bottom, left to right,
\* until one matches; evi-terms log their evaluation.
TermVal(s, tm) == IF tm.ty = "y" THEN Val(s, "y") ELSE tm.v
RECURSIVE Match(_, _, _, _, _, _, _, _)
\* returns [j |-> matching clause or 0, l |-> log]
Match(s, m, lay, j, q, tag, notag, l) ==
    IF j > Len(lay) THEN [j |-> 0, l |-> l]
    ELSE IF q > Len(lay[j].ts) THEN Match(s, m, lay, j + 1, 1, tag, notag, l)
    ELSE LET tm == lay[j].ts[q]
             l1 == IF tm.ty = "e" THEN Append(l, <<"e", tm.v, m, j>>) ELSE l
             hit == IF notag THEN Cond(s, tm.cf) ELSE TermVal(s, tm) = tag
         IN IF hit THEN [j |-> j, l |-> l1] ELSE Match(s, m, lay, j, q + 1, tag, notag, l1)
DefaultOf(lay) == IF \E j \in 1..Len(lay) : lay[j].def THEN CHOOSE j \in 1..Len(lay) : lay[j].def ELSE 0

\* --- jumps
RECURSIVE FindCtl(_, _, _, _)
\* index of the innermost ctl frame (scanning down from j) of node t (t # 0) or of a kind in K
FindCtl(s, j, t, K) ==
    IF j = 0 THEN 0
    ELSE IF s[j].f = "ctl" /\ (IF t # 0 THEN s[j].n = t ELSE nodes[s[j].n].k \in K) THEN j
    ELSE FindCtl(s, j - 1, t, K)
RECURSIVE FindBlk(_, _, _, _)
FindBlk(s, j, p, sl) ==
    IF j = 0 THEN 0 ELSE IF s[j].f = "blk" /\ s[j].n = p /\ s[j].s = sl THEN j ELSE FindBlk(s, j - 1, p, sl)

DynTargetIdx(s, nd) ==
    IF nd.k = "brk" THEN FindCtl(s, Len(s), nd.t, Breakables)
    ELSE FindCtl(s, Len(s), nd.t, IF ContinueSeesSwitch THEN Breakables ELSE Loops)

\* --- one statement: m = node id, s = stack whose top blk frame already points past m
ExecStmt(s, l, m, ord) ==
    LET nd == nodes[m]
        X == Val(s, "x")
        Y == Val(s, "y")
    IN CASE nd.k = "tr" -> Cfg(s, Append(l, <<"t", m, X, Y>>))
         [] nd.k = "as" ->
              Cfg(CASE nd.f = "x++" -> SetV(s, "x", X + 1)
                    [] nd.f = "y=x+y" -> SetV(s, "y", (X + Y) % 8)   \* bounded: x = y; y = x + y doubles
                    [] nd.f = "x=y" -> SetV(s, "x", Y)
                    [] nd.f = "y+=2" -> SetV(s, "y", Y + 2)
                    [] nd.f = "x+=i" -> SetV(s, "x", X + Val(s, "i")), l)
         [] nd.k = "if" ->
              LET env == IF nd.f = "init" THEN [t |-> X + 1] ELSE NoEnv
                  s1 == Append(s, Ctl(m, env, 0, <<>>))
                  c == IF nd.f = "init" THEN X + 1 > 1 ELSE Cond(s, nd.c)
              IN IF c THEN Enter(s1, l, m, 1, "b", <<>>, FALSE)
                 ELSE IF nd.n = 2 THEN Enter(s1, l, m, 2, "b", <<>>, FALSE)
                 ELSE Cfg(s, l)
         [] nd.k = "blk" ->
              Enter(Append(s, Ctl(m, IF nd.f = "shadow" THEN [x |-> X + 1] ELSE NoEnv, 0, <<>>)), l, m, 1, "b", <<>>, FALSE)
         [] nd.k = "for3" -> LoopTest(Append(s, Ctl(m, [i |-> 0], 0, <<>>)), l)
         [] nd.k = "forc" -> LoopTest(Append(s, Ctl(m, NoEnv, 0, <<>>)), l)
         [] nd.k = "rng" -> LoopTest(Append(s, Ctl(m, NoEnv, 0, Items(nd.c, ord))), l)
         [] nd.k = "mut" ->
              LET j == FindCtl(s, Len(s), 0, {"rng"})
                  k == Len(s[j].live)
              IN Cfg([s EXCEPT ![j].live[k][2] = 9], l)
         [] nd.k = "sw" ->
              LET env == IF nd.f = "init" THEN [t |-> X + 1] ELSE NoEnv
                  tag == CASE nd.f = "x" -> X
                           [] nd.f = "y" -> Y
                           [] nd.f = "i" -> Val(s, "i")
                           [] nd.f = "x+y" -> X + Y
                           [] nd.f = "evi" -> X
                           [] nd.f = "init" -> X + 1
                           [] nd.f = "bool" -> IF X < 2 THEN 1 ELSE 0
                           [] nd.f = "none" -> 0
                  l0 == IF nd.f = "evi" THEN Append(l, <<"e", X, m>>) ELSE l
                  r == Match(s, m, nd.lay, 1, 1, tag, nd.f = "none", l0)
                  j == IF r.j # 0 THEN r.j ELSE DefaultOf(nd.lay)
              IN IF j = 0 THEN Cfg(s, r.l)
                 ELSE Enter(Append(s, Ctl(m, env, 0, <<>>)), r.l, m, j, "b", <<>>, FALSE)
         [] nd.k = "tsw" ->
              LET ty == Val(s, nd.c) % 6
                  hits == {j \in 1..Len(nd.lay) : \E q \in 1..Len(nd.lay[j].ts) : ty \in TMembers(nd.lay[j].ts[q].v)}
                  j == IF hits # {} THEN CHOOSE j \in hits : \A h \in hits : j <= h ELSE DefaultOf(nd.lay)
              IN IF j = 0 THEN Cfg(s, l)
                 ELSE Enter(Append(s, Ctl(m, NoEnv, 0, <<>>)), l, m, j,
                            IF nd.f = "bind" THEN "ts" ELSE "b", IF nd.f = "bind" THEN <<ty>> ELSE <<>>, TRUE)
         [] nd.k = "sel" ->
              LET si == SelInfo(nd.f)
              IN Enter(Append(s, Ctl(m, NoEnv, 0, <<>>)), l, m, si.take, IF nd.f = "rc" THEN "so" ELSE "b", si.e, TRUE)
         [] nd.k = "brk" ->
              LET j == DynTargetIdx(s, nd)
                  s1 == SubSeq(s, 1, j)
              IN IF nodes[s[j].n].k \in Loops THEN LoopExit(s1, l) ELSE Cfg(Pop(s1, 1), l)
         [] nd.k = "cnt" ->
              LET j == DynTargetIdx(s, nd)
                  s1 == SubSeq(s, 1, j)
              IN IF nodes[s[j].n].k \in Loops THEN LoopPost(s1, l) ELSE Cfg(Pop(s1, 1), l)
         [] nd.k = "goto" ->
              IF gc[m] < GotoLim
              THEN LET T == nodes[nd.t]
                       j == FindBlk(s, Len(s), T.p, T.s)
                   IN Cfg([SubSeq(s, 1, j) EXCEPT ![j].pc = IndexOf(nodes[T.p].b[T.s], nd.t)], l)
              ELSE Cfg(s, l)
         [] nd.k = "ret" -> [st |-> <<>>, log |-> l, outcome |-> <<"ret", X, Y>>]

\* --- the block on top of s is finished
BlockEnd(s, l) ==
    LET B == Top(s)
        s1 == Pop(s, 1)        \* ctl frame of node B.n on top
        nd == nodes[B.n]
    IN CASE nd.k = "func" -> [st |-> <<>>, log |-> l, outcome |-> <<"end", Val(s, "x"), Val(s, "y")>>]
         [] nd.k \in Loops -> LoopPost(s1, l)
         [] nd.k = "sw" -> IF nd.lay[B.s].ft THEN Enter(s1, l, B.n, B.s + 1, "b", <<>>, FALSE) ELSE Cfg(Pop(s1, 1), l)
         [] OTHER -> Cfg(Pop(s1, 1), l)

GAtStmt == phase = "run" /\ outcome = <<>> /\ st # <<>> /\ Top(st).f = "blk"
           /\ Top(st).pc <= Len(nodes[Top(st).n].b[Top(st).s])
GAtEnd == phase = "run" /\ outcome = <<>> /\ st # <<>> /\ Top(st).f = "blk"
          /\ Top(st).pc > Len(nodes[Top(st).n].b[Top(st).s])

CurStmt == nodes[Top(st).n].b[Top(st).s][Top(st).pc]
NeedsOrd == GAtStmt /\ nodes[CurStmt].k = "rng" /\ nodes[CurStmt].c = "map2"

StepResult(ord) ==
    IF GAtStmt
    THEN ExecStmt([st EXCEPT ![Len(st)].pc = @ + 1], log, CurStmt, ord)
    ELSE BlockEnd(st, log)

Exec ==
    /\ GAtStmt \/ GAtEnd
    /\ \E ord \in (IF NeedsOrd THEN {"asc", "desc"} ELSE {"asc"}) :
         LET r == StepResult(ord) IN
         /\ st' = r.st /\ log' = r.log /\ outcome' = r.outcome
         /\ ords' = IF NeedsOrd THEN Append(ords, ord) ELSE ords
    /\ LET m == IF GAtStmt THEN CurStmt ELSE 0
       IN /\ gc' = IF m # 0 /\ nodes[m].k = "goto" /\ gc[m] < GotoLim THEN [gc EXCEPT ![m] = @ + 1] ELSE gc
          /\ lastJump' = IF m # 0 /\ nodes[m].k \in {"brk", "cnt"}
                         THEN <<m, st[DynTargetIdx([st EXCEPT ![Len(st)].pc = @ + 1], nodes[m])].n>>
                         ELSE lastJump
    /\ steps' = steps + 1
    /\ UNCHANGED <<nodes, open, phase, auto, gcat, gk, gw, fam, famr, tpls>>

Init == /\ nodes = <<[k |-> "func", f |-> "", c |-> "", n |-> 0, lay |-> <<>>, p |-> 0, s |-> 0, d |-> 0,
                      b |-> <<<<>>>>, t |-> 0, lj |-> FALSE, lg |-> FALSE]>>
        /\ open = <<<<Root, 1>>>>
        /\ phase = "gen"
        /\ auto \in AutoSet
        /\ st = <<>> /\ log = <<>> /\ outcome = <<>>
        /\ gc = [m \in 1..(MaxNodes + 1) |-> 0]
        /\ lastJump = <<0, 0>>
        /\ steps = 0
        /\ ords = <<>>
        /\ gcat = "" /\ gk = "" /\ gw = 0
        /\ tpls = Templates
        /\ fam \in (IF Fams = <<>> THEN {0} ELSE 1..Len(Fams))
        /\ famr = IF fam = 0 THEN [pt |-> <<>>, pp |-> <<>>] ELSE Fams[fam]

Next == GenPick \/ GenPick2 \/ GenNode \/ GenClose \/ Exec
Spec == Init /\ [][Next]_vars

----------------------------------------------------------------------------
(* Properties checked by TLC (M) *)

NodeIds == 1..Len(nodes)

\* the tree is a tree: every node is listed exactly once, in its parent's block, in pre-order
TreeOK == phase = "gen" => \A m \in NodeIds \ {Root} :
             /\ nodes[m].p \in 1..(m - 1)
             /\ nodes[m].s \in 1..Len(nodes[nodes[m].p].b)
             /\ \E i \in 1..Len(nodes[nodes[m].p].b[nodes[m].s]) : nodes[nodes[m].p].b[nodes[m].s][i] = m
             /\ nodes[m].d <= MaxDepth
             /\ \A sl \in 1..Len(nodes[m].b) : \A i \in 1..Len(nodes[m].b[sl]) :
                    /\ nodes[m].b[sl][i] > m
                    /\ (i > 1 => nodes[m].b[sl][i] > nodes[m].b[sl][i - 1])

\* generated programs are closed and well-labelled: every break / continue / goto has a target
\* that Go accepts, every variable that is used is in scope
Closed == phase = "gen" => \A m \in NodeIds :
    LET nd == nodes[m] IN
    /\ nd.k = "brk" => /\ StaticTarget(nodes, m) # 0
                       /\ (nd.t # 0 => nd.t \in AncSet(nodes, nd.p) /\ nodes[nd.t].k \in Breakables /\ nodes[nd.t].lj)
    /\ nd.k = "cnt" => /\ StaticTarget(nodes, m) # 0
                       /\ (nd.t # 0 => nd.t \in AncSet(nodes, nd.p) /\ nodes[nd.t].k \in Loops /\ nodes[nd.t].lj)
    /\ nd.k = "goto" => /\ nd.t < m /\ nd.t # Root /\ nodes[nd.t].lg
                        \* the label's block encloses the goto (no jump into a block), and the
                        \* label precedes it (backward)
                        /\ \/ nodes[nd.t].p = nd.p /\ nodes[nd.t].s = nd.s
                           \/ \E a \in AncSet(nodes, nd.p) : nodes[a].p = nodes[nd.t].p /\ nodes[a].s = nodes[nd.t].s /\ nd.t <= a
    /\ NeedsI(nd) => AncFindI(nodes, nd.p) # 0
    /\ nd.k = "mut" => AncFind(nodes, nd.p, {"rng"}) # 0
    /\ nd.k = "sw" => \A j \in 1..Len(nd.lay) : nd.lay[j].ft => j < Len(nd.lay)

\* exactly one of the two execution rules applies while the program runs
Deterministic == /\ ~(GAtStmt /\ GAtEnd)
                 /\ (phase = "run" /\ outcome = <<>>) => (GAtStmt \/ GAtEnd)

\* the continuation stack mirrors the lexical nesting: ctl / blk frames alternate, every blk
\* frame executes a block of the ctl frame's node right below it, and every ctl frame's node
\* is a statement of the block below
StackOK == phase = "run" /\ st # <<>> =>
    /\ Len(st) % 2 = 0 /\ Len(st) <= 2 * (MaxDepth + 1)
    /\ st[1].n = Root
    /\ \A j \in 1..Len(st) :
         IF j % 2 = 1
         THEN /\ st[j].f = "ctl"
              /\ j > 1 => /\ nodes[st[j].n].p = st[j - 1].n /\ nodes[st[j].n].s = st[j - 1].s
                          \* the statement being executed is the one before the block's pc
                          /\ nodes[st[j - 1].n].b[st[j - 1].s][st[j - 1].pc - 1] = st[j].n
         ELSE /\ st[j].f = "blk" /\ st[j].n = st[j - 1].n
              /\ st[j].s \in 1..Len(nodes[st[j].n].b)
              /\ st[j].pc \in 1..(Len(nodes[st[j].n].b[st[j].s]) + 1)

\* every executed break / continue reached the statement the lexical rule designates
JumpLexical == lastJump[1] # 0 => lastJump[2] = StaticTarget(nodes, lastJump[1])

Terminates == steps <= MaxSteps
DoneClean == outcome # <<>> => st = <<>> /\ phase = "run"

Emit == IF EmitOn /\ outcome # <<>>
        THEN PrintT(ToJson([nodes |-> nodes, log |-> log, outcome |-> outcome, auto |-> auto,
                            ords |-> ords, steps |-> steps, lim |-> GotoLim, fam |-> fam]))
        ELSE TRUE
=============================================================================

---------------------------- MODULE InteropLaws ----------------------------
(***************************************************************************)
(* Constant-level part of the interoperability contracts (C11): the        *)
(* ADMISSIBLE-LOG predicates of the compiled entry points whose callee is  *)
(* free to choose which callbacks it makes and in which order.             *)
(*                                                                          *)
(* They are used twice:                                                     *)
(*   - Interop.tla proves (TLC) that every behaviour of its nondeterministic*)
(*     callee model satisfies them, and that a broken callback does not;    *)
(*   - InteropTrace.tla validates with them the callback logs RECORDED from *)
(*     the real standard library driving interpreted callbacks (binding V). *)
(*                                                                          *)
(* Slices to be sorted are sequences of keys; element i of the input has    *)
(* identity i, an arrangement is a sequence of identities.                  *)
(***************************************************************************)
EXTENDS Integers, Sequences, FiniteSets

\* the interpreted comparison: a strict weak order on keys
Lt(ord, x, y) == IF ord = "asc" THEN x < y ELSE x > y

Perms(n) == {p \in [1..n -> 1..n] : \A a, b \in 1..n : a # b => p[a] # p[b]}

SortedBy(in, ord, p) == \A q \in 1..(Len(p) - 1) : ~Lt(ord, in[p[q + 1]], in[p[q]])

\* every sorted permutation is an admissible result of an unstable sort
SortedPerms(in, ord) == {p \in Perms(Len(in)) : SortedBy(in, ord, p)}

\* the only admissible result of a stable sort
StablePerm(in, ord) ==
    CHOOSE p \in SortedPerms(in, ord) :
        \A a, b \in 1..Len(in) : (a < b /\ in[p[a]] = in[p[b]]) => p[a] < p[b]

SwapAt(c, i, j) == [c EXCEPT ![i] = c[j], ![j] = c[i]]

(* sort.Sort / sort.Stable on a sort.Interface: Len, Less and Swap are observable.      *)
(* Replaying the swaps gives the contents at the time of every Less(i, j); its answer    *)
(* must be the comparison of the elements THEN at i and j.                               *)
RECURSIVE SortReplay(_, _, _, _, _)
SortReplay(in, ord, c, lg, k) ==
    IF k > Len(lg) THEN [ok |-> TRUE, c |-> c]
    ELSE LET e == lg[k]
             inrange == e[2] \in 1..Len(c) /\ e[3] \in 1..Len(c)
         IN CASE e[1] = "less" ->
                   IF inrange /\ e[4] = Lt(ord, in[c[e[2]]], in[c[e[3]]])
                   THEN SortReplay(in, ord, c, lg, k + 1)
                   ELSE [ok |-> FALSE, c |-> c]
              [] e[1] = "swap" ->
                   IF inrange
                   THEN SortReplay(in, ord, SwapAt(c, e[2], e[3]), lg, k + 1)
                   ELSE [ok |-> FALSE, c |-> c]
              [] e[1] = "len" ->
                   IF e[2] = Len(c)
                   THEN SortReplay(in, ord, c, lg, k + 1)
                   ELSE [ok |-> FALSE, c |-> c]
              [] OTHER -> [ok |-> FALSE, c |-> c]

Identity(n) == [i \in 1..n |-> i]

\* the log alone: every answer is right for the then-current contents; ends in arrangement c
SortAnswersOK(in, ord, lg, c) ==
    LET r == SortReplay(in, ord, Identity(Len(in)), lg, 1) IN r.ok /\ r.c = c

\* log + result of a finished sort
SortLogOK(in, ord, lg, final, stable) ==
    /\ SortAnswersOK(in, ord, lg, final)
    /\ final \in SortedPerms(in, ord)
    /\ (stable => final = StablePerm(in, ord))

(* sort.Slice / sort.SliceStable: the swaps happen inside the callee (reflect.Swapper)   *)
(* and are NOT observable. The interpreted less(i, j) reports the identities it found at *)
(* i and j: <<"lessS", i, j, idi, idj, answer>>. Without the swaps any arrangement is     *)
(* possible at the time of a call, so the contract that can be stated is: the identities *)
(* are elements of the slice, distinct positions hold distinct elements, the answer is   *)
(* the comparison of those two elements, and the result is a sorted permutation.         *)
SliceLogOK(in, ord, lg, final, stable) ==
    /\ \A k \in 1..Len(lg) :
          LET e == lg[k] IN
          /\ e[1] = "lessS"
          /\ e[2] \in 1..Len(in) /\ e[3] \in 1..Len(in)
          /\ e[4] \in 1..Len(in) /\ e[5] \in 1..Len(in)
          /\ (e[2] = e[3]) = (e[4] = e[5])
          /\ e[6] = Lt(ord, in[e[4]], in[e[5]])
    /\ final \in SortedPerms(in, ord)
    /\ (stable => final = StablePerm(in, ord))

(* strings.FieldsFunc(s, f): "makes no guarantees about the order in which it calls      *)
(* f(c) and assumes that f always returns the same value for a given c".                  *)
(* Events <<"ff", rune, answer>>; f(r) = (r = sep).                                       *)
Range(s) == {s[i] : i \in 1..Len(s)}
FieldsLogOK(s, sep, lg) ==
    /\ \A k \in 1..Len(lg) :
          LET e == lg[k] IN e[1] = "ff" /\ e[2] \in Range(s) /\ e[3] = (e[2] = sep)
    /\ {lg[k][2] : k \in 1..Len(lg)} = Range(s)
=============================================================================

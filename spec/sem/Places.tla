------------------------------- MODULE Places -------------------------------
(***************************************************************************)
(* C02: assignment statements on every kind of place (The Go Programming   *)
(* Language Specification, "Assignment statements", "IncDec statements",   *)
(* "Order of evaluation", "Index expressions" for maps).                   *)
(*                                                                         *)
(* PART 1, meaning of ONE assignment operation on a place that currently   *)
(* holds the value a:                                                      *)
(*     place = b      place op= b      place++      place--                *)
(* with the right-hand side a variable (shape "v") or a typed / untyped    *)
(* constant (shape "c").  The result is a Values result: the new value of  *)
(* the place | a run-time panic (the place keeps its value) | a            *)
(* compile-time rejection | outside the modelled domain.  `x op= y` is     *)
(* `x = x op (y)` (Values!EvalBinR / EvalShiftR in shape cR when y is a    *)
(* constant); complex kinds are pairs of FloatD values, exact results only.*)
(* A map place whose key is missing holds the zero value of the kind.      *)
(*                                                                         *)
(* PART 2, a small STORE and statement sequences.  All places of one       *)
(* behaviour have ONE element kind k:                                      *)
(*   variables v0 v1 v2 v3 (declared 0..3 function levels above the        *)
(*   statements), file-level g (integer slot) and gb (boxed), t with the   *)
(*   pointer p = &t, array a[2], slice s[2], map m (key 0 present, key 1   *)
(*   missing), struct st{f, h}, and the int variable ix (an index).        *)
(* Index / key operands are  n  (a literal),  evi(n)  or  evi(ix): evi is  *)
(* the logging identity function, its calls are the history variable log.  *)
(* Statements: Assign, OpAssign, IncDec, MultiAssign (two phases: operands *)
(* of the places left to right, right-hand sides left to right; then the   *)
(* assignments left to right).                                             *)
(*                                                                         *)
(* (M) Laws (invariant LawsOK, all statements of the alphabet at every     *)
(* reachable store):                                                       *)
(*   OpLaw    x op= e  has the store and panic of  x = x op e  and logs    *)
(*            the operands of x ONCE (the expansion logs them twice)       *)
(*   IncLaw   x++ / x-- is x += 1 / x -= 1                                 *)
(*   SwapLaw  p, q = q, p exchanges the two values (all right-hand sides   *)
(*            are read before any write)                                   *)
(*   IxLaw    ix, s[evi(ix)] = n, v writes the element selected by the OLD *)
(*            ix                                                           *)
(*   LogLaw   every statement logs exactly one entry per logged operand    *)
(*   BlankLaw _ = e only evaluates e;  MissLaw: a missing key is created   *)
(*            by a completed assignment and by nothing else                *)
(* Broken = "idx2" (op= expands textually: operands evaluated twice) and   *)
(* Broken = "ltr" (multi-assignment carried out pair by pair) are the      *)
(* broken variants that TLC must reject.                                   *)
(*                                                                         *)
(* Modes: "cells" / "cellsim" enumerate PART 1 by cell = (operator, kind,  *)
(* count kind, rhs shape) over Expr's boundary value lists / random bit    *)
(* patterns (the place shape and the depth / storage class of a cell are   *)
(* supplied by the renderer: the meaning does not depend on them -- that   *)
(* is the property).  "seq" enumerates statement sequences up to MaxLen    *)
(* breadth-first over an alphabet of about AlphaN statements chosen by Rot *)
(* (plus a fixed core), "seqsim" draws random sequences from ALL           *)
(* statements, "m" explores like "seq" and checks the laws.                *)
(***************************************************************************)
EXTENDS Values, Sequences, TLC, Json

CONSTANTS Mode,      \* "cells" | "cellsim" | "seq" | "seqsim" | "m"
          Level,     \* 1 = quick value lists, 2 = thorough
          Rot,       \* rotation derived from the seed (count kinds, alphabet)
          Broken,    \* "none" | "idx2" | "ltr"
          NRows,     \* cellsim: random right operands per record
          SeqKinds,  \* element kinds of the statement sequences (a sequence of kind names)
          MaxLen,    \* length of the statement sequences
          AlphaN     \* seq: approximate size of the alphabet

VARIABLES cur,       \* cell enumeration (as in Expr)
          ms         \* the machine: [k, s = [st, ab, ix, log, pan], prog]
vars == <<cur, ms>>

\* the value lists and combos of C01
E == INSTANCE Expr WITH Mode <- IF Mode = "cellsim" THEN "sim" ELSE "bfs", Level <- Level,
                        CKRot <- Rot, QuoFix <- TRUE, NRows <- NRows, cur <- cur

---------------------------------------------------------------------------
(* PART 1: one assignment operation *)

CplxKinds == {"complex64", "complex128"}
CVal(re, im) == [re |-> re, im |-> im]

\* complex arithmetic on the exact sub-domain: every partial result must be a value of the
\* component format without rounding (computed at binary64, which FloatD only does exactly)
CFit(k, x) == IF k = "complex64" /\ x.c = "fin" /\ (FBitLen(x.m) > 24 \/ FTop(x) > 127 \/ FTop(x) < 0 - 126)
              THEN FSkip ELSE x
CSk(x, y, r) == IF x.c = "skip" \/ y.c = "skip" THEN FSkip ELSE r
CAdd(k, x, y) == CSk(x, y, CFit(k, FAdd("float64", x, y)))
CSub(k, x, y) == CSk(x, y, CFit(k, FSub("float64", x, y)))
CMul(k, x, y) == CSk(x, y, CFit(k, FMul("float64", x, y)))
CQuo(k, x, y) == CSk(x, y, CFit(k, FQuo("float64", x, y)))
CFinite(x) == x.c \in {"fin", "zero"}

\* (a + bi) op (c + di).  Division is only specified for a positive real divisor and a
\* dividend with non-zero parts, where it is the division of the parts.
CplxBin(op, k, a, b) ==
    LET r == CASE op = "add" -> CVal(CAdd(k, a.re, b.re), CAdd(k, a.im, b.im))
               [] op = "sub" -> CVal(CSub(k, a.re, b.re), CSub(k, a.im, b.im))
               [] op = "mul" -> CVal(CSub(k, CMul(k, a.re, b.re), CMul(k, a.im, b.im)),
                                     CAdd(k, CMul(k, a.re, b.im), CMul(k, a.im, b.re)))
               [] op = "quo" -> IF b.im = FZero(0) /\ b.re.c = "fin" /\ b.re.s = 0 /\ a.re.c = "fin" /\ a.im.c = "fin"
                                THEN CVal(CQuo(k, a.re, b.re), CQuo(k, a.im, b.re))
                                ELSE CVal(FSkip, FSkip)
    IN IF CFinite(a.re) /\ CFinite(a.im) /\ CFinite(b.re) /\ CFinite(b.im) /\ CFinite(r.re) /\ CFinite(r.im)
       THEN RVal(k, r) ELSE RSkip

ZeroOf(k) == IF k \in IntKinds THEN BVZero(KWidth(k))
             ELSE IF k \in FloatKinds THEN FZero(0)
             ELSE IF k \in CplxKinds THEN CVal(FZero(0), FZero(0))
             ELSE IF k = "string" THEN <<>> ELSE FALSE
OneOf(k) == IF k \in IntKinds THEN BVFromNat(KWidth(k), 1)
            ELSE IF k \in FloatKinds THEN FFin(0, 1, 0)
            ELSE CVal(FFin(0, 1, 0), FZero(0))
Numeric(k) == k \in IntKinds \cup FloatKinds \cup CplxKinds

\* the operators  op=  defined on a kind ("set" is plain assignment)
AsgOpsOf(k) == IF k \in IntKinds THEN {"set"} \cup ArithOps \cup BitOps
               ELSE IF k \in FloatKinds \cup CplxKinds THEN {"set", "add", "sub", "mul", "quo"}
               ELSE IF k = "string" THEN {"set", "add"}
               ELSE {"set"}

\* run-time value of  a op b  (ck: kind of the shift count)
AsgRun(op, k, ck, a, b) ==
    IF op = "set" THEN RVal(k, b)
    ELSE IF op \in ShiftOps THEN Shift(op, k, a, ck, b)
    ELSE IF k \in CplxKinds THEN CplxBin(op, k, a, b)
    ELSE RunBin(op, k, a, b)

AsgConstable(k, b) == IF k \in CplxKinds THEN FConstable(b.re) /\ FConstable(b.im) ELSE Constable(k, b)

\* place op= b  for a right-hand side of shape sh: "v" variable, "c" constant;
\* rt = AsgRun(op, k, ck, a, b)
AsgResR(op, k, ck, sh, a, b, rt) ==
    IF sh = "v" THEN rt
    ELSE IF op = "set" THEN (IF AsgConstable(k, b) THEN rt ELSE RSkip)
    ELSE IF op \in ShiftOps THEN EvalShiftR(op, k, ck, "cR", a, b, rt)
    ELSE IF k \in CplxKinds THEN (IF AsgConstable(k, b) THEN rt ELSE RSkip)
    ELSE EvalBinR(op, k, "cR", a, b, rt)
AsgRes(op, k, ck, sh, a, b) == AsgResR(op, k, ck, sh, a, b, AsgRun(op, k, ck, a, b))

\* place++ / place--: the constant 1 of the kind is added / subtracted
IncRes(op, k, a) == AsgRes(op, k, "", "c", a, OneOf(k))

---------------------------------------------------------------------------
(* cells: enumeration of PART 1 *)

CplxCombos == << [g |-> "bin", k |-> "complex64", ck |-> ""], [g |-> "bin", k |-> "complex128", ck |-> ""] >>
Combos == E!Combos \o CplxCombos
NC == Len(Combos)

CplxVals(k) ==
    LET Z == FZero(0)
        q == << CVal(Z, Z), CVal(FFin(0, 1, 0), Z), CVal(Z, FFin(0, 1, 0)), CVal(FFin(0, 2, 0), Z),
                CVal(FFin(1, 1, 0), FFin(0, 2, 0)), CVal(FFin(0, 1, 0 - 1), FFin(1, 3, 0)),
                CVal(FFin(0, 3, 0 - 1), FFin(0, 1, 0 - 1)), CVal(FFin(0, 1, 0 - 1), Z) >>
        t == << CVal(FFin(1, 5, 0), FFin(1, 1, 0 - 2)), CVal(FFin(0, 16777215, 0), FFin(0, 1, 0)),
                CVal(FFin(0, 4, 0), Z), CVal(FFin(0, 3, 0), FFin(0, 4, 0)), CVal(Z, FFin(1, 1, 0)) >>
    IN IF Level >= 2 THEN q \o t ELSE q

LeftVals(c)  == IF c.k \in CplxKinds THEN CplxVals(c.k) ELSE E!LeftVals(c)
RightVals(c) == IF c.k \in CplxKinds THEN CplxVals(c.k) ELSE E!RightVals(c)

RandCplx(k) == LET list == CplxVals(k)
                   R == [i \in 1..4 |-> E!RandFloatBy("float32", << FZero(0) >>, 2)]
               IN IF RandomElement(1..3) = 1 THEN list[RandomElement(1..Len(list))]
                  ELSE CVal(R[1], IF RandomElement(1..4) = 1 THEN FZero(0) ELSE R[2])
RandLeft(c)  == IF c.k \in CplxKinds THEN RandCplx(c.k) ELSE E!RandLeft(c)
RandRight(c) == IF c.k \in CplxKinds THEN RandCplx(c.k) ELSE E!RandRight(c)

CellStart == [lvl |-> 0, ci |-> 0, j |-> 0, a |-> 0, bs |-> <<>>]

NextCells ==
    \/ /\ cur.lvl = 0
       /\ \E i \in 1..NC : cur' = [lvl |-> 1, ci |-> i, j |-> 0, a |-> 0, bs |-> <<>>]
    \/ /\ cur.lvl = 1
       /\ \E j \in 1..Len(LeftVals(Combos[cur.ci])) :
             cur' = [lvl |-> 2, ci |-> cur.ci, j |-> j, a |-> LeftVals(Combos[cur.ci])[j], bs |-> RightVals(Combos[cur.ci])]

CellSimState(i) == [lvl |-> 2, ci |-> i, j |-> 0, a |-> RandLeft(Combos[i]),
                    bs |-> [j \in 1..NRows |-> RandRight(Combos[i])]]
NextCellSim ==
    \/ /\ cur.lvl = 0
       /\ \E i \in 1..NC : cur' = CellSimState(i)
    \/ /\ cur.lvl = 2
       /\ cur' = CellSimState((cur.ci % NC) + 1)

Same(r, vv) == IF r = vv THEN "=" ELSE r
Two(op, k, ck, a, b) ==
    LET rt == AsgRun(op, k, ck, a, b)
    IN <<rt, Same(AsgResR(op, k, ck, "c", a, b, rt), rt)>>

CellRecord(s) ==
    LET c == Combos[s.ci]
        ali(k) == IF k \in CplxKinds THEN <<k>> ELSE E!Aliases(k)
    IN IF c.g = "shift"
       THEN [g |-> "shift", k |-> c.k, ck |-> c.ck, ks |-> ali(c.k), cks |-> ali(c.ck), a |-> s.a,
             j |-> s.j, z |-> (s.a = ZeroOf(c.k)), inc |-> <<>>,
             rows |-> [j \in 1..Len(s.bs) |->
                         [b |-> s.bs[j], r |-> [o \in ShiftOps |-> Two(o, c.k, c.ck, s.a, s.bs[j])]]]]
       ELSE [g |-> "bin", k |-> c.k, ck |-> "", ks |-> ali(c.k), cks |-> <<>>, a |-> s.a,
             j |-> s.j, z |-> (s.a = ZeroOf(c.k)),
             inc |-> IF Numeric(c.k) THEN <<IncRes("add", c.k, s.a), IncRes("sub", c.k, s.a)>> ELSE <<>>,
             rows |-> [j \in 1..Len(s.bs) |->
                         [b |-> s.bs[j], r |-> [o \in AsgOpsOf(c.k) |-> Two(o, c.k, "", s.a, s.bs[j])]]]]

---------------------------------------------------------------------------
(* PART 2: places, statements, the store *)

LocSeq == <<"v0", "v1", "v2", "v3", "g", "gb", "t", "a0", "a1", "s0", "s1", "m0", "m1", "f", "h">>
Locs == {LocSeq[i] : i \in 1..Len(LocSeq)}
MapLocs == {"m0", "m1"}

\* index / key operands
IOc(n) == [f |-> "c", n |-> n]       \* the literal n
IOe(n) == [f |-> "e", n |-> n]       \* evi(n)
IOx    == [f |-> "x", n |-> 0]       \* evi(ix)
IOv    == [f |-> "v", n |-> 0]       \* the variable ix itself: nothing is logged; its value
                                     \* when the operands of the statement are evaluated counts

PVar(n)     == [sh |-> "var", n |-> n, io |-> IOc(0)]
PPtr        == [sh |-> "ptr", n |-> "", io |-> IOc(0)]          \* *p, p = &t
PIdx(sh, o) == [sh |-> sh, n |-> "", io |-> o]                  \* sh in {"arr", "sl", "map"}
PFld(n)     == [sh |-> "fld", n |-> n, io |-> IOc(0)]           \* st.f, st.h
PBlank      == [sh |-> "blank", n |-> "", io |-> IOc(0)]
PIx         == [sh |-> "ix", n |-> "", io |-> IOc(0)]           \* the int variable ix

Indexed(p) == p.sh \in {"arr", "sl", "map"}
IOVal(o, ixv) == IF o.f \in {"x", "v"} THEN ixv ELSE o.n
IOLog(p, ixv) == IF Indexed(p) /\ p.io.f \notin {"c", "v"} THEN <<IOVal(p.io, ixv)>> ELSE <<>>
LocOf(p, ixv) ==
    CASE p.sh = "var" -> p.n
      [] p.sh = "ptr" -> "t"
      [] p.sh = "fld" -> p.n
      [] p.sh = "arr" -> <<"a0", "a1">>[IOVal(p.io, ixv) + 1]
      [] p.sh = "sl"  -> <<"s0", "s1">>[IOVal(p.io, ixv) + 1]
      [] p.sh = "map" -> <<"m0", "m1">>[IOVal(p.io, ixv) + 1]
      [] OTHER -> "none"
\* the same place with its operand already evaluated (a literal)
Resolved(p, ixv) == IF Indexed(p) THEN PIdx(p.sh, IOc(IOVal(p.io, ixv))) ELSE p

\* right-hand sides: a constant of the kind, a read of a place, an int constant (for ix and
\* for shift counts), a read of ix (as shift count), and -- only inside the laws -- x op e
RConst(v)      == [f |-> "const", v |-> v, p |-> PBlank, n |-> 0, o |-> "", r |-> <<>>]
RRead(p)       == [f |-> "read", v |-> <<>>, p |-> p, n |-> 0, o |-> "", r |-> <<>>]
RInt(n)        == [f |-> "int", v |-> <<>>, p |-> PBlank, n |-> n, o |-> "", r |-> <<>>]
RIxr           == [f |-> "ixr", v |-> <<>>, p |-> PBlank, n |-> 0, o |-> "", r |-> <<>>]
RBin(o, p, r)  == [f |-> "bin", v |-> <<>>, p |-> p, n |-> 0, o |-> o, r |-> <<r>>]

SAsg(p, r)     == [t |-> "asg", ps |-> <<p>>, o |-> "set", rs |-> <<r>>]
SOp(p, o, r)   == [t |-> "op", ps |-> <<p>>, o |-> o, rs |-> <<r>>]
SInc(p, o)     == [t |-> "inc", ps |-> <<p>>, o |-> o, rs |-> <<>>]       \* o = "add": ++, "sub": --
SMulti(ps, rs) == [t |-> "multi", ps |-> ps, o |-> "set", rs |-> rs]

IntBV(n) == BVFromNat(8, n)
\* kind of a shift count: ix and the int constants are of kind int, reads and constants of kind k
CKOf(r, k) == IF r.f \in {"int", "ixr"} THEN "int" ELSE k

RECURSIVE EvalRhs(_, _, _)
EvalRhs(r, s, k) ==
    CASE r.f = "const" -> RVal(k, r.v)
      [] r.f = "read"  -> RVal(k, s.st[LocOf(r.p, s.ix)])      \* a missing key reads as the zero value
      [] r.f = "int"   -> RVal("int", IntBV(r.n))
      [] r.f = "ixr"   -> RVal("int", IntBV(s.ix))
      [] r.f = "bin"   -> LET y == EvalRhs(r.r[1], s, k)
                          IN IF y[1] # "v" THEN y ELSE AsgRun(r.o, k, CKOf(r.r[1], k), s.st[LocOf(r.p, s.ix)], y[3])
RECURSIVE RhsLog(_, _)
RhsLog(r, s) == IF r.f = "read" THEN IOLog(r.p, s.ix)
                ELSE IF r.f = "bin" THEN IOLog(r.p, s.ix) \o RhsLog(r.r[1], s)
                ELSE <<>>
RECURSIVE PlacesLog(_, _, _)
PlacesLog(ps, i, ixv) == IF i > Len(ps) THEN <<>> ELSE IOLog(ps[i], ixv) \o PlacesLog(ps, i + 1, ixv)
RECURSIVE RhsLogs(_, _, _)
RhsLogs(rs, i, s) == IF i > Len(rs) THEN <<>> ELSE RhsLog(rs[i], s) \o RhsLogs(rs, i + 1, s)

\* carry out one assignment whose operands were already evaluated
Write(s, p, l, v) ==
    IF p.sh = "blank" THEN s
    ELSE IF p.sh = "ix" THEN [s EXCEPT !.ix = v[1]]
    ELSE [s EXCEPT !.st[l] = v, !.ab = @ \ {l}]

Skipped(s) == [s EXCEPT !.pan = "skip"]

\* place = rhs
ExecAsg(p, r, s, k) ==
    LET res == EvalRhs(r, s, k)
        s1  == [s EXCEPT !.log = @ \o IOLog(p, s.ix) \o RhsLog(r, s)]
    IN IF res[1] = "s" THEN Skipped(s)
       ELSE IF res[1] = "p" THEN [s1 EXCEPT !.pan = res[2]]
       ELSE Write(s1, p, LocOf(p, s.ix), res[3])

\* place op= rhs: the operands of the place are evaluated once, then the right-hand side;
\* then the operation on the current value of the place; then the store
ExecOp(p, o, r, s, k) ==
    IF Broken = "idx2" THEN ExecAsg(p, RBin(o, p, r), s, k)
    ELSE LET l   == LocOf(p, s.ix)
             y   == EvalRhs(r, s, k)
             res == AsgRun(o, k, CKOf(r, k), s.st[l], y[3])
             s1  == [s EXCEPT !.log = @ \o IOLog(p, s.ix) \o RhsLog(r, s)]
         IN IF res[1] = "s" THEN Skipped(s)
            \* m[k] op= e  that panics while k is missing: by the Go specification the key stays
            \* missing (the panic precedes the assignment); compiled Go (gc) creates the element
            \* before it evaluates the operation.  Left out of the domain.
            ELSE IF res[1] = "p" /\ l \in s.ab THEN Skipped(s)
            ELSE IF res[1] = "p" THEN [s1 EXCEPT !.pan = res[2]]
            ELSE Write(s1, p, l, res[3])

RECURSIVE WriteAll(_, _, _, _, _)
WriteAll(ps, locs, vals, i, s) ==
    IF i > Len(ps) THEN s ELSE WriteAll(ps, locs, vals, i + 1, Write(s, ps[i], locs[i], vals[i]))
RECURSIVE OneByOne(_, _, _, _, _)
OneByOne(ps, rs, i, s, k) ==
    IF i > Len(ps) THEN s ELSE OneByOne(ps, rs, i + 1, ExecAsg(ps[i], rs[i], s, k), k)

\* p1, ..., pn = r1, ..., rn (right-hand sides here never panic)
ExecMulti(ps, rs, s, k) ==
    IF Broken = "ltr" THEN OneByOne(ps, rs, 1, s, k)
    ELSE LET locs == [i \in 1..Len(ps) |-> LocOf(ps[i], s.ix)]
             vals == [i \in 1..Len(rs) |-> EvalRhs(rs[i], s, k)[3]]
             s1   == [s EXCEPT !.log = @ \o PlacesLog(ps, 1, s.ix) \o RhsLogs(rs, 1, s)]
         IN WriteAll(ps, locs, vals, 1, s1)

Exec(st, s, k) ==
    CASE st.t = "asg"   -> ExecAsg(st.ps[1], st.rs[1], s, k)
      [] st.t = "op"    -> ExecOp(st.ps[1], st.o, st.rs[1], s, k)
      [] st.t = "inc"   -> ExecOp(st.ps[1], st.o, RConst(OneOf(k)), s, k)
      [] st.t = "multi" -> ExecMulti(st.ps, st.rs, s, k)

---------------------------------------------------------------------------
(* statements of a kind *)

SeqVals(k) ==
    IF k \in IntKinds THEN LET K == KWidth(k) IN <<BVFromInt(K, 3), BVMax(K), BVMin(K), BVFromInt(K, 0 - 2)>>
    ELSE IF k \in FloatKinds THEN <<FFin(0, 3, 0 - 1), FFin(1, 2, 0), FZero(0), FFin(0, 1, 0 - 1)>>
    ELSE IF k \in CplxKinds THEN <<CVal(FFin(0, 2, 0), FZero(0)), CVal(FFin(1, 1, 0), FFin(0, 1, 0 - 1)),
                                   CVal(FZero(0), FZero(0)), CVal(FFin(0, 1, 0 - 1), FFin(0, 3, 0))>>
    ELSE IF k = "string" THEN << <<120>>, <<121, 122>>, <<>>, <<113>> >>
    ELSE <<TRUE, FALSE, TRUE, FALSE>>

\* initial value of the i-th location: small, pairwise different
InitVal(k, i) ==
    IF k \in IntKinds THEN BVFromNat(KWidth(k), 2 * i + 3)
    ELSE IF k \in FloatKinds THEN FFin(0, 2 * i + 1, 0 - 1)
    ELSE IF k \in CplxKinds THEN CVal(FFin(0, 2 * i + 1, 0 - 1), FFin(1, i, 0))
    ELSE IF k = "string" THEN <<96 + i>>
    ELSE i % 2 = 0

\* h starts as the zero value (a zero divisor), v3 as the third statement constant (the
\* minimum of a signed kind: a negative shift count)
InitS(k) == [st  |-> [l \in Locs |-> IF l \in {"m1", "h"} THEN ZeroOf(k)
                                     ELSE IF l = "v3" THEN SeqVals(k)[3]
                                     ELSE InitVal(k, CHOOSE i \in 1..Len(LocSeq) : LocSeq[i] = l)],
             ab  |-> {"m1"}, ix |-> 0, log |-> <<>>, pan |-> ""]

PlaceList == << PVar("v0"), PVar("v1"), PVar("v2"), PVar("v3"), PVar("g"), PVar("gb"), PVar("t"), PPtr,
                PIdx("arr", IOc(1)), PIdx("arr", IOe(0)), PIdx("arr", IOx),
                PIdx("sl", IOe(1)), PIdx("sl", IOc(0)), PIdx("sl", IOx),
                PIdx("map", IOe(0)), PIdx("map", IOe(1)), PIdx("map", IOc(1)), PIdx("map", IOx), PIdx("map", IOv),
                PFld("f"), PFld("h") >>
ReadList == << PVar("v1"), PVar("g"), PPtr, PIdx("sl", IOe(0)), PIdx("map", IOe(1)), PFld("h"), PVar("v3") >>

RhsList(k) == [i \in 1..Len(SeqVals(k)) |-> RConst(SeqVals(k)[i])] \o [i \in 1..Len(ReadList) |-> RRead(ReadList[i])]
CountList(k) == << RInt(1), RInt(9), RIxr, RInt(0), RInt(70), RConst(SeqVals(k)[1]),
                   RRead(PVar("v1")), RRead(PIdx("map", IOe(1))), RRead(PVar("v3")) >>
OpList(k) == IF k \in IntKinds THEN <<"add", "sub", "mul", "quo", "rem", "and", "or", "xor", "andnot">>
             ELSE IF k \in FloatKinds \cup CplxKinds THEN <<"add", "sub", "mul", "quo">>
             ELSE IF k = "string" THEN <<"add">> ELSE <<>>

RECURSIVE Flat(_)
Flat(ss) == IF ss = <<>> THEN <<>> ELSE Head(ss) \o Flat(Tail(ss))

\* the core: always part of the alphabet
CoreStmts(k) ==
    LET v == SeqVals(k) IN
    << SMulti(<<PVar("v0"), PVar("v1")>>, <<RRead(PVar("v1")), RRead(PVar("v0"))>>),
       SMulti(<<PIx, PIdx("sl", IOx)>>, <<RInt(1), RConst(v[1])>>),
       \* the key operand is the variable assigned by the same statement: its OLD value is the key
       SMulti(<<PIx, PIdx("map", IOv)>>, <<RInt(1), RConst(v[1])>>),
       SMulti(<<PIdx("map", IOe(0)), PIdx("map", IOe(1))>>, <<RRead(PIdx("map", IOe(1))), RRead(PIdx("map", IOe(0)))>>),
       SAsg(PPtr, RRead(PVar("v2"))),
       SAsg(PIdx("map", IOe(1)), RConst(v[2])) >>
    \o (IF Numeric(k) THEN << SOp(PIdx("map", IOe(1)), "add", RConst(v[1])), SInc(PIdx("sl", IOe(1)), "add"),
                              SOp(PVar("t"), "sub", RRead(PPtr)) >> ELSE <<>>)

MultiStmts(k) ==
    LET v == SeqVals(k)
        sw(p, q) == SMulti(<<p, q>>, <<RRead(q), RRead(p)>>)
    IN << sw(PVar("v2"), PVar("g")), sw(PVar("gb"), PVar("v3")), sw(PPtr, PVar("v0")),
          sw(PIdx("sl", IOe(0)), PIdx("sl", IOe(1))), sw(PIdx("arr", IOe(0)), PVar("v1")),
          sw(PFld("f"), PFld("h")), sw(PVar("gb"), PIdx("map", IOe(1))), sw(PIdx("arr", IOc(0)), PIdx("sl", IOc(1))),
          sw(PVar("t"), PIdx("map", IOc(0))), sw(PFld("h"), PIdx("arr", IOx)),
          SMulti(<<PIdx("sl", IOx), PIx>>, <<RConst(v[2]), RInt(1)>>),
          SMulti(<<PIdx("map", IOv), PIx>>, <<RConst(v[2]), RInt(1)>>),
          SMulti(<<PIx, PVar("v0"), PIdx("map", IOv)>>, <<RInt(1), RRead(PIdx("map", IOv)), RRead(PVar("v0"))>>),
          SMulti(<<PIx, PIdx("arr", IOx), PIdx("map", IOx)>>, <<RInt(1), RConst(v[1]), RRead(PIdx("sl", IOx))>>),
          SMulti(<<PVar("v0"), PVar("v1"), PVar("v2")>>, <<RRead(PVar("v1")), RRead(PVar("v2")), RRead(PVar("v0"))>>),
          SMulti(<<PBlank, PVar("v0")>>, <<RRead(PIdx("sl", IOe(1))), RRead(PVar("v2"))>>),
          SMulti(<<PVar("v0"), PVar("g")>>, <<RConst(v[1]), RConst(v[2])>>),
          SMulti(<<PVar("v3"), PVar("v3")>>, <<RConst(v[1]), RRead(PVar("v1"))>>),
          SMulti(<<PIdx("map", IOe(1)), PVar("v1"), PPtr>>, <<RRead(PVar("v1")), RConst(v[4]), RRead(PIdx("map", IOe(1)))>>) >>

AsgStmts(k) ==
    LET pl == PlaceList \o <<PBlank>>
        rl == RhsList(k)
    IN Flat([pi \in 1..Len(pl) |-> [ri \in 1..Len(rl) |-> SAsg(pl[pi], rl[ri])]])
       \o << SAsg(PIx, RInt(1)), SAsg(PIx, RInt(0)) >>

\* a constant divisor must not be zero (integers): such statements do not compile
DivOK(k, o, r) == ~(k \in IntKinds /\ o \in {"quo", "rem"} /\ r.f = "const" /\ r.v = ZeroOf(k))
\* complex division is only specified for some divisors: the others are left out here
CQuoOK(k, o, r) == ~(k \in CplxKinds /\ o = "quo" /\ r.f = "const" /\ ~(r.v.im = FZero(0) /\ r.v.re.c = "fin" /\ r.v.re.s = 0))

OpStmts(k) ==
    LET rl == RhsList(k)
        ol == OpList(k)
        all == Flat([pi \in 1..Len(PlaceList) |-> Flat([oi \in 1..Len(ol) |->
                       [ri \in 1..Len(rl) |-> SOp(PlaceList[pi], ol[oi], rl[ri])]])])
    IN SelectSeq(all, LAMBDA st : DivOK(k, st.o, st.rs[1]) /\ CQuoOK(k, st.o, st.rs[1]))

ShiftStmts(k) ==
    IF k \notin IntKinds THEN <<>>
    ELSE Flat([pi \in 1..Len(PlaceList) |-> Flat([oi \in 1..2 |->
                 [ri \in 1..Len(CountList(k)) |-> SOp(PlaceList[pi], <<"shl", "shr">>[oi], CountList(k)[ri])]])])

IncStmts(k) ==
    IF ~Numeric(k) THEN <<>>
    ELSE Flat([pi \in 1..Len(PlaceList) |-> <<SInc(PlaceList[pi], "add"), SInc(PlaceList[pi], "sub")>>])

AllStmts(k) == CoreStmts(k) \o MultiStmts(k) \o AsgStmts(k) \o OpStmts(k) \o ShiftStmts(k) \o IncStmts(k)

SeqKindSet == {SeqKinds[i] : i \in 1..Len(SeqKinds)}
StmtsOf == [k \in SeqKindSet |-> AllStmts(k)]

RECURSIVE Good(_)
Good(n) == IF n < 2 THEN 1
           ELSE IF n % 2 = 0 \/ n % 3 = 0 \/ n % 5 = 0 \/ n % 7 = 0 THEN Good(n + 1) ELSE n
\* the alphabet of the breadth-first modes: the core and every M-th statement
AlphaIdx == [k \in SeqKindSet |->
               LET n == Len(StmtsOf[k])
                   M == Good(n \div AlphaN)
               IN {i \in 1..n : i <= Len(CoreStmts(k)) \/ (i + Rot) % M = 0}]

---------------------------------------------------------------------------
(* the machine *)

MStart == [k |-> "none", s |-> InitS("bool"), prog |-> <<>>]

NextSeq ==
    \/ /\ ms.k = "none"
       /\ \E i \in 1..Len(SeqKinds) : ms' = [k |-> SeqKinds[i], s |-> InitS(SeqKinds[i]), prog |-> <<>>]
    \/ /\ ms.k # "none" /\ Len(ms.prog) < MaxLen /\ ms.s.pan = ""
       /\ \E i \in AlphaIdx[ms.k] :
             LET st == StmtsOf[ms.k][i]
                 e  == Exec(st, ms.s, ms.k)
             IN /\ e.pan # "skip"
                /\ ms' = [ms EXCEPT !.s = e, !.prog = Append(@, st)]

NextSeqSim ==
    \* (the random draw is bound by \E over a singleton: a LET would be evaluated at every use)
    \/ /\ ms.k = "none"
       /\ \E j \in {RandomElement(1..Len(SeqKinds))} :
             ms' = [k |-> SeqKinds[j], s |-> InitS(SeqKinds[j]), prog |-> <<>>]
    \/ /\ ms.k # "none" /\ Len(ms.prog) < MaxLen /\ ms.s.pan = ""
       /\ \E j \in {RandomElement(1..Len(StmtsOf[ms.k]))} :
             LET st == StmtsOf[ms.k][j]
                 e  == Exec(st, ms.s, ms.k)
             IN IF e.pan = "skip" THEN ms' = [ms EXCEPT !.prog = Append(@, SAsg(PBlank, RRead(PVar("v0"))))]
                ELSE ms' = [ms EXCEPT !.s = e, !.prog = Append(@, st)]

Init == cur = CellStart /\ ms = MStart

Next == CASE Mode = "cells"   -> NextCells /\ UNCHANGED ms
          [] Mode = "cellsim" -> NextCellSim /\ UNCHANGED ms
          [] Mode = "seqsim"  -> NextSeqSim /\ UNCHANGED cur
          [] OTHER            -> NextSeq /\ UNCHANGED cur
Spec == Init /\ [][Next]_vars

\* compact rendering of places, right-hand sides and statements for the JSON record
PlaceJ(p) == <<p.sh, p.n, p.io.f, p.io.n>>
RhsJ(r)   == <<r.f, r.n, PlaceJ(r.p), r.v>>
StmtJ(st) == [t |-> st.t, o |-> st.o, ps |-> [i \in 1..Len(st.ps) |-> PlaceJ(st.ps[i])],
              rs |-> [i \in 1..Len(st.rs) |-> RhsJ(st.rs[i])]]

\* the initial store of every kind, as printed (a constant: evaluated once)
InitJ == [k \in SeqKindSet |->
            LET s0 == InitS(k)
            IN [i0 |-> [i \in 1..Len(LocSeq) |-> s0.st[LocSeq[i]]], ab0 |-> [i \in 1..2 |-> <<"m0", "m1">>[i] \in s0.ab]]]

SeqRecord(m) ==
    [k |-> m.k, ks |-> E!Aliases(m.k),
     prog |-> [i \in 1..Len(m.prog) |-> StmtJ(m.prog[i])], st |-> [i \in 1..Len(LocSeq) |-> m.s.st[LocSeq[i]]],
     i0 |-> InitJ[m.k].i0, ab0 |-> InitJ[m.k].ab0,
     ab |-> [i \in 1..2 |-> <<"m0", "m1">>[i] \in m.s.ab], ix |-> m.s.ix, log |-> m.s.log, pan |-> m.s.pan]

Emit ==
    CASE Mode \in {"cells", "cellsim"} -> (IF cur.lvl = 2 THEN PrintT(ToJson(CellRecord(cur))) ELSE TRUE)
      [] Mode = "seq"    -> (IF Len(ms.prog) >= 1 THEN PrintT(ToJson(SeqRecord(ms))) ELSE TRUE)
      [] Mode = "seqsim" -> (IF Len(ms.prog) >= 1 /\ (Len(ms.prog) = MaxLen \/ ms.s.pan # "")
                             THEN PrintT(ToJson(SeqRecord(ms))) ELSE TRUE)
      [] OTHER -> TRUE

TypeOK == /\ cur.lvl \in 0..2
          /\ ms.k \in SeqKindSet \cup {"none"}
          /\ Len(ms.prog) <= MaxLen
          /\ ms.s.ix \in 0..1
          /\ ms.s.ab \subseteq MapLocs
          /\ ms.s.pan \in {"", "divide", "shift"}
          /\ ms.k # "none" => \A l \in ms.s.ab : ms.s.st[l] = ZeroOf(ms.k)

---------------------------------------------------------------------------
(* (M) the laws *)

NLogged(st) == Len(PlacesLog(st.ps, 1, 0)) + Len(RhsLogs(st.rs, 1, [ix |-> 0]))

Unchanged(e, s, except) == \A l \in Locs \ except : e.st[l] = s.st[l] /\ (l \in e.ab <=> l \in s.ab)

LawAt(st, s, k) ==
    LET e == Exec(st, s, k) IN
    e.pan = "skip" \/
    /\ Len(e.log) = Len(s.log) + NLogged(st)                                              \* LogLaw
    /\ st.t = "op" =>                                                                     \* OpLaw
          LET p  == st.ps[1]
              x  == ExecAsg(p, RBin(st.o, p, st.rs[1]), s, k)      \* x = x op e, textually
          IN /\ e.st = x.st /\ e.ab = x.ab /\ e.pan = x.pan /\ e.ix = x.ix
             /\ e.log = s.log \o IOLog(p, s.ix) \o RhsLog(st.rs[1], s)
             /\ x.log = s.log \o IOLog(p, s.ix) \o IOLog(p, s.ix) \o RhsLog(st.rs[1], s)
             /\ Unchanged(e, s, {LocOf(p, s.ix)})
             /\ (e.pan # "" => Unchanged(e, s, {}))
             /\ (e.pan = "" => LocOf(p, s.ix) \notin e.ab)                                \* MissLaw
    /\ st.t = "inc" => e = Exec(SOp(st.ps[1], st.o, RConst(OneOf(k))), s, k)              \* IncLaw
    /\ (st.t = "asg" /\ st.ps[1].sh = "blank") =>                                         \* BlankLaw
          e = [s EXCEPT !.log = @ \o RhsLog(st.rs[1], s)]
    /\ (st.t = "multi" /\ Len(st.ps) = 2 /\ st.rs[1].f = "read" /\ st.rs[2].f = "read"
        /\ Resolved(st.rs[1].p, s.ix) = Resolved(st.ps[2], s.ix)
        /\ Resolved(st.rs[2].p, s.ix) = Resolved(st.ps[1], s.ix)) =>                      \* SwapLaw
          LET l1 == LocOf(st.ps[1], s.ix)
              l2 == LocOf(st.ps[2], s.ix)
          IN /\ e.st[l1] = s.st[l2] /\ e.st[l2] = s.st[l1]
             /\ l1 \notin e.ab /\ l2 \notin e.ab
             /\ Unchanged(e, s, {l1, l2})
    /\ (st.t = "multi" /\ st.ps[1].sh = "ix" /\ Len(st.ps) = 2 /\ st.ps[2].sh = "sl" /\ st.ps[2].io.f = "x") =>   \* IxLaw
          /\ e.ix = st.rs[1].n
          /\ e.st[<<"s0", "s1">>[s.ix + 1]] = EvalRhs(st.rs[2], s, k)[3]
          /\ Unchanged(e, s, {<<"s0", "s1">>[s.ix + 1]})

\* every statement at the initial store; at the other stores every 11th (Level >= 2: every
\* 3rd) statement, chosen by Rot
LawsOK == (Mode = "m" /\ ms.k # "none" /\ ms.s.pan = "") =>
             \A i \in 1..Len(StmtsOf[ms.k]) :
                (ms.prog = <<>> \/ (i + Rot) % (IF Level >= 2 THEN 3 ELSE 11) = 0) => LawAt(StmtsOf[ms.k][i], ms.s, ms.k)
=============================================================================

------------------------------- MODULE Calls -------------------------------
(***************************************************************************)
(* Go-level semantics of escaping closures and escaping addresses of local *)
(* variables (Go specification: function literals "may refer to variables  *)
(* defined in a surrounding function. Those variables are then shared ...  *)
(* and survive as long as they are accessible"; &x of a local keeps the    *)
(* variable alive).                                                         *)
(*                                                                          *)
(* A behaviour is a HISTORY of operations performed by a driver function;  *)
(* every `mk*` operation calls a fresh maker function whose frame dies     *)
(* while a closure and/or a pointer to its local variable x escapes.       *)
(* At this level a variable is a cell that lives forever, so the expected  *)
(* observations are independent of how many later calls recycle frames     *)
(* (`burn`, `rec`): that independence is exactly property C06.             *)
(*                                                                          *)
(*   mk s via d a   slot s := closure {x += p; return x} over a new x = a, *)
(*                  created inside d nested function literals, escaping    *)
(*                  via the maker's result / a global / a slice element    *)
(*   mkptr s d a    slot s := &x of a new local x = a; the address is taken *)
(*                  in the variable's own block (d=1) or d-1 nested blocks  *)
(*                  with their own locals further in                        *)
(*   mkboth s d a   slot s := closure and pointer over the same x          *)
(*   recarg n       f(n) = sum3(n, 100, f(n-1)): ev("ra", n, f(n))          *)
(*   use s p        closure: ev("u", s, clo(p)); pointer: ev("p", s, *ptr);*)
(*                  *ptr += 10                                             *)
(*   burn n         n calls of a short function (recycles pooled frames)   *)
(*   rec n          recursion of depth n, ev("r", n, result)               *)
(***************************************************************************)
EXTENDS Naturals, Sequences, FiniteSets, TLC, Json

CONSTANTS Slots, Vias, Depths, Burns, Recs, MaxOps, EmitOn, EmitAt

VARIABLES slots, cells, hist, log

vars == <<slots, cells, hist, log>>

Init == /\ slots = [s \in Slots |-> [t |-> "none", c |-> 0]]
        /\ cells = <<>>
        /\ hist = <<>>
        /\ log = <<>>

NewCell(a) == Len(cells) + 1

Mk(s, via, d, a) ==
    /\ cells' = Append(cells, a)
    /\ slots' = [slots EXCEPT ![s] = [t |-> "clo", c |-> NewCell(a)]]
    /\ hist' = Append(hist, [op |-> "mk", s |-> s, via |-> via, d |-> d, a |-> a])
    /\ UNCHANGED log

MkPtr(s, d, a) ==
    /\ cells' = Append(cells, a)
    /\ slots' = [slots EXCEPT ![s] = [t |-> "ptr", c |-> NewCell(a)]]
    /\ hist' = Append(hist, [op |-> "mkptr", s |-> s, d |-> d, a |-> a])
    /\ UNCHANGED log

MkBoth(s, d, a) ==
    /\ cells' = Append(cells, a)
    /\ slots' = [slots EXCEPT ![s] = [t |-> "both", c |-> NewCell(a)]]
    /\ hist' = Append(hist, [op |-> "mkboth", s |-> s, d |-> d, a |-> a])
    /\ UNCHANGED log

Use(s, p) ==
    /\ slots[s].t # "none"
    /\ LET c == slots[s].c
           t == slots[s].t
           v1 == IF t \in {"clo", "both"} THEN cells[c] + p ELSE cells[c]
           l1 == IF t \in {"clo", "both"} THEN <<<<"u", s, v1>>>> ELSE <<>>
           l2 == IF t \in {"ptr", "both"} THEN <<<<"p", s, v1>>>> ELSE <<>>
           v2 == IF t \in {"ptr", "both"} THEN v1 + 10 ELSE v1
       IN /\ cells' = [cells EXCEPT ![c] = v2]
          /\ log' = log \o l1 \o l2
    /\ hist' = Append(hist, [op |-> "use", s |-> s, p |-> p])
    /\ UNCHANGED slots

Burn(n) == /\ hist' = Append(hist, [op |-> "burn", n |-> n])
           /\ UNCHANGED <<slots, cells, log>>

Rec(n) == /\ hist' = Append(hist, [op |-> "rec", n |-> n])
          /\ log' = Append(log, <<"r", n, n>>)
          /\ UNCHANGED <<slots, cells>>

\* f(n) = sum3(n, 100, f(n-1)), f(0) = 0: a call with three arguments whose last argument
\* re-enters the same call site while the first two are already evaluated
RecArg(n) == /\ hist' = Append(hist, [op |-> "recarg", n |-> n])
             /\ log' = Append(log, <<"ra", n, (n * (n + 1)) \div 2 + 100 * n>>)
             /\ UNCHANGED <<slots, cells>>

Next == /\ Len(hist) < MaxOps
        /\ \/ \E s \in Slots, via \in Vias, d \in Depths : Mk(s, via, d, 3)
           \/ \E s \in Slots, d \in Depths : MkPtr(s, d, 4) \/ MkBoth(s, d, 5)
           \/ \E s \in Slots : Use(s, 2)
           \/ \E n \in Burns : Burn(n)
           \/ \E n \in Recs : Rec(n) \/ RecArg(n)

Spec == Init /\ [][Next]_vars

----------------------------------------------------------------------------
\* a cell is only ever changed through the slot that owns it
TypeOK == \A s \in Slots : slots[s].t = "none" \/ slots[s].c \in 1..Len(cells)
\* observations never depend on burn / rec operations: removing them from the history
\* leaves the "u"/"p" log unchanged (checked by construction: Burn/Rec do not touch cells)
Uses == Cardinality({i \in 1..Len(hist) : hist[i].op = "use"})
Emit == IF EmitOn /\ Len(hist) = EmitAt /\ Uses >= 1
        THEN PrintT(ToJson([hist |-> hist, log |-> log]))
        ELSE TRUE
=============================================================================

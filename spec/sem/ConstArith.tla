----------------------------- MODULE ConstArith -----------------------------
(***************************************************************************)
(* Go's untyped constant expressions (Go specification: "Constants",       *)
(* "Constant expressions", "Representability", "Conversions").             *)
(*                                                                         *)
(* A behaviour builds one expression tree (positions of a binary heap:     *)
(* node p has children 2p and 2p+1, depth of p = bit length of p) by       *)
(* GenNode actions that fill the smallest open position with a literal     *)
(* leaf, a unary or a binary operator.  When no position is open, Eval     *)
(* gives the outcome Go prescribes:                                        *)
(*    ok   : untyped kind + exact value (rationals over BigNat)            *)
(*    err  : the expression is not a valid constant expression             *)
(*    skip : outside the modelled fragment (magnitude bound, gomacro's     *)
(*           documented shift deviations, complex shift counts) -- the     *)
(*           tree is not emitted                                           *)
(* and Repr gives, for every typed context T, whether the constant is      *)
(* representable in T and the typed value (exact; IEEE round-to-nearest-   *)
(* even for the floating-point kinds).                                     *)
(*                                                                         *)
(* Kinds: bool, string, and the numeric kinds ordered int < rune < float   *)
(* < complex.  A numeric value is a pair of rationals (re, im).            *)
(***************************************************************************)
EXTENDS Rat, FiniteSets, Json

CONSTANTS Lits,          \* set of literal leaves (uniform records, see LitVal)
          UnOps, BinOps, \* enabled operators
          MaxDepth,      \* maximum depth of the tree (root = depth 1)
          ForceOpDepth,  \* positions of depth <= ForceOpDepth must be operators
          MaxLimbs,      \* magnitude bound: numerators/denominators up to 10^(4*MaxLimbs)
          MaxShift,      \* largest modelled shift count
          TruncIntQuo,   \* TRUE: integer-kind operands divide with truncation (Go).
                         \* FALSE: broken variant (rational division)
          EmitMod,       \* emit / check the laws on the completed trees whose TreeHash is
          EmitRes,       \*   congruent to EmitRes modulo EmitMod (1, 0 = every tree)
          EmitOn

VARIABLES tree,   \* position -> node
          holes   \* open positions

vars == <<tree, holes>>

----------------------------------------------------------------------------
(* Values *)
Num(k, re, im) == [st |-> "ok", k |-> k, re |-> re, im |-> im]
Bool(b) == [st |-> "ok", k |-> "bool", b |-> b]
Str(s) == [st |-> "ok", k |-> "string", s |-> s]
Err(why) == [st |-> "err", why |-> why, at |-> ""]    \* at: operator where the error arises
Skip(why) == [st |-> "skip", why |-> why]

NumKinds == {"int", "rune", "float", "complex"}
IntKinds == {"int", "rune"}
Rank(k) == CASE k = "int" -> 1 [] k = "rune" -> 2 [] k = "float" -> 3 [] k = "complex" -> 4
MaxKind(j, k) == IF Rank(j) >= Rank(k) THEN j ELSE k
IsNumV(v) == v.k \in NumKinds
IsIntV(v) == v.k \in IntKinds
IsZeroV(v) == RIsZero(v.re) /\ RIsZero(v.im)

TooBig(r) == Len(r.num) > MaxLimbs \/ Len(r.den) > MaxLimbs
Bounded(v) == IF v.st # "ok" THEN v
              ELSE IF TooBig(v.re) \/ TooBig(v.im) THEN Skip("magnitude") ELSE v

\* literal leaves: [k, m, b, e, s]   k in {"int","rune","float","imag","string","bool"}
\*   int/rune : value m                      float : m * b^e  (b = 10 or 2)
\*   imag     : i * m * b^e                  string: byte codes s       bool: m # <<>>
LitMag(l) == IF l.b = 2 THEN RScale2(SI(FALSE, l.m), l.e) ELSE RScale10(SI(FALSE, l.m), l.e)
LitVal(l) ==
    CASE l.k = "int" -> Num("int", RFromSI(SI(FALSE, l.m)), RZero)
      [] l.k = "rune" -> Num("rune", RFromSI(SI(FALSE, l.m)), RZero)
      [] l.k = "float" -> Num("float", LitMag(l), RZero)
      [] l.k = "imag" -> Num("complex", RZero, LitMag(l))
      [] l.k = "string" -> Str(l.s)
      [] l.k = "bool" -> Bool(l.m # <<>>)

----------------------------------------------------------------------------
(* Operators *)
ArithOps == {"+", "-", "*", "/"}
IntOps == {"%", "&", "|", "^", "&^"}
ShiftOps == {"<<", ">>"}
EqOps == {"==", "!="}
OrdOps == {"<", "<=", ">", ">="}
LogicOps == {"&&", "||"}

RECURSIVE LessSeq(_, _)      \* lexicographic order of byte strings
LessSeq(a, b) == IF b = <<>> THEN FALSE
                 ELSE IF a = <<>> THEN TRUE
                 ELSE IF a[1] # b[1] THEN a[1] < b[1]
                 ELSE LessSeq(Tail(a), Tail(b))

CmpResult(op, c) ==     \* c = -1, 0, 1
    CASE op = "==" -> c = 0 [] op = "!=" -> c # 0
      [] op = "<" -> c < 0 [] op = "<=" -> c <= 0 [] op = ">" -> c > 0 [] op = ">=" -> c >= 0

IntBin(op, a, b) ==     \* signed integers
    CASE op = "%" -> SIRem(a, b)
      [] op = "&" -> SIAnd(a, b)
      [] op = "|" -> SIOr(a, b)
      [] op = "^" -> SIXor(a, b)
      [] op = "&^" -> SIAndNot(a, b)

Arith(op, x, y) ==
    LET k == MaxKind(x.k, y.k) IN
    IF k # "complex" THEN
        CASE op = "+" -> Num(k, RAdd(x.re, y.re), RZero)
          [] op = "-" -> Num(k, RSub(x.re, y.re), RZero)
          [] op = "*" -> Num(k, RMul(x.re, y.re), RZero)
          [] op = "/" -> IF RIsZero(y.re) THEN Err("division by zero")
                         ELSE IF k \in IntKinds /\ TruncIntQuo
                              THEN Num(k, RFromSI(SIQuo(RNum(x.re), RNum(y.re))), RZero)
                              ELSE Num(k, RQuo(x.re, y.re), RZero)
    ELSE
        CASE op = "+" -> Num(k, RAdd(x.re, y.re), RAdd(x.im, y.im))
          [] op = "-" -> Num(k, RSub(x.re, y.re), RSub(x.im, y.im))
          [] op = "*" -> Num(k, RSub(RMul(x.re, y.re), RMul(x.im, y.im)),
                                RAdd(RMul(x.re, y.im), RMul(x.im, y.re)))
          [] op = "/" -> IF IsZeroV(y) THEN Err("division by zero")
                         ELSE LET d == RAdd(RMul(y.re, y.re), RMul(y.im, y.im))
                              IN Num(k, RQuo(RAdd(RMul(x.re, y.re), RMul(x.im, y.im)), d),
                                        RQuo(RSub(RMul(x.im, y.re), RMul(x.re, y.im)), d))

Shift(op, x, y) ==
    IF ~IsNumV(x) THEN Err("shift of non-numeric constant")
    ELSE IF ~IsNumV(y) THEN Err("shift count is not numeric")
    ELSE IF ~IsIntV(x) THEN Skip("documented: shift of a float/complex-kind constant")
    ELSE IF y.k = "complex" THEN Skip("complex shift count")
    ELSE IF ~RIsInt(y.re) THEN Err("shift count is not an integer")
    ELSE IF y.re.neg THEN Err("negative shift count")
    ELSE IF Len(y.re.num) > 1 \/ BNToInt(y.re.num) > MaxShift THEN Skip("shift count bound")
    ELSE LET c == BNToInt(y.re.num)
             a == RNum(x.re)
         IN Num(x.k, RFromSI(IF op = "<<" THEN SIShl(a, c) ELSE SIShr(a, c)), RZero)

BinOp0(op, x, y) ==
    IF x.st = "skip" THEN x ELSE IF y.st = "skip" THEN y
    ELSE IF x.st = "err" THEN x ELSE IF y.st = "err" THEN y
    ELSE IF op \in ShiftOps THEN Bounded(Shift(op, x, y))
    ELSE IF op \in LogicOps THEN
        IF x.k = "bool" /\ y.k = "bool"
        THEN Bool(IF op = "&&" THEN x.b /\ y.b ELSE x.b \/ y.b)
        ELSE Err("logical operator on non-boolean constant")
    ELSE IF op \in ArithOps THEN
        IF IsNumV(x) /\ IsNumV(y) THEN
            LET r == Arith(op, x, y) IN IF r.st = "ok" THEN Bounded(r) ELSE r
        ELSE IF op = "+" /\ x.k = "string" /\ y.k = "string" THEN
            (IF Len(x.s) + Len(y.s) > 64 THEN Skip("string length") ELSE Str(x.s \o y.s))
        ELSE Err("mismatched or non-numeric operands")
    ELSE IF op \in IntOps THEN
        IF ~(IsNumV(x) /\ IsNumV(y)) THEN Err("mismatched or non-numeric operands")
        ELSE IF ~(IsIntV(x) /\ IsIntV(y)) THEN Err("operator needs integer constants")
        ELSE IF op = "%" /\ RIsZero(y.re) THEN Err("division by zero")
        ELSE Bounded(Num(MaxKind(x.k, y.k), RFromSI(IntBin(op, RNum(x.re), RNum(y.re))), RZero))
    ELSE IF op \in EqOps \cup OrdOps THEN
        IF IsNumV(x) /\ IsNumV(y) THEN
            IF MaxKind(x.k, y.k) = "complex"
            THEN (IF op \in OrdOps THEN Err("complex constants are not ordered")
                  ELSE Bool((op = "==") = (x.re = y.re /\ x.im = y.im)))
            ELSE Bool(CmpResult(op, RCmp(x.re, y.re)))
        ELSE IF x.k = "string" /\ y.k = "string" THEN
            Bool(CmpResult(op, IF x.s = y.s THEN 0 ELSE IF LessSeq(x.s, y.s) THEN -1 ELSE 1))
        ELSE IF x.k = "bool" /\ y.k = "bool" THEN
            (IF op \in OrdOps THEN Err("boolean constants are not ordered")
             ELSE Bool((op = "==") = (x.b = y.b)))
        ELSE Err("mismatched operands")
    ELSE Err("unknown operator")

UnOp0(op, x) ==
    IF x.st # "ok" THEN x
    ELSE CASE op = "+" -> IF IsNumV(x) THEN x ELSE Err("unary + on non-numeric constant")
           [] op = "-" -> IF IsNumV(x) THEN Num(x.k, RNeg(x.re), RNeg(x.im))
                          ELSE Err("unary - on non-numeric constant")
           [] op = "^" -> IF ~IsNumV(x) THEN Err("unary ^ on non-numeric constant")
                          ELSE IF ~IsIntV(x) THEN Err("unary ^ needs an integer constant")
                          ELSE Num(x.k, RFromSI(SINot(RNum(x.re))), RZero)
           [] op = "!" -> IF x.k = "bool" THEN Bool(~x.b) ELSE Err("! on non-boolean constant")

\* an error is tagged with the operator whose operands were themselves valid
BinOp(op, x, y) ==
    LET r == BinOp0(op, x, y)
    IN IF r.st = "err" /\ x.st = "ok" /\ y.st = "ok" THEN [r EXCEPT !.at = op] ELSE r
UnOp(op, x) ==
    LET r == UnOp0(op, x)
    IN IF r.st = "err" /\ x.st = "ok" THEN [r EXCEPT !.at = "unary" \o op] ELSE r

RECURSIVE Eval(_)
Eval(p) ==
    LET n == tree[p] IN
    CASE n.t = "lit" -> LitVal(n.lit)
      [] n.t = "un" -> UnOp(n.op, Eval(2 * p))
      [] n.t = "bin" -> BinOp(n.op, Eval(2 * p), Eval(2 * p + 1))

----------------------------------------------------------------------------
(* Representability in typed contexts *)
P2(k) == SI(FALSE, BNPow2(k))
IntMin(bits) == SINeg(P2(bits - 1))
IntMax(bits) == SISub(P2(bits - 1), SIFromInt(1))
UintMax(bits) == SISub(P2(bits), SIFromInt(1))
Range8 == <<IntMin(8), IntMax(8)>>
Range16 == <<IntMin(16), IntMax(16)>>
Range32 == <<IntMin(32), IntMax(32)>>
Range64 == <<IntMin(64), IntMax(64)>>
URange8 == <<SIZero, UintMax(8)>>
URange16 == <<SIZero, UintMax(16)>>
URange32 == <<SIZero, UintMax(32)>>
URange64 == <<SIZero, UintMax(64)>>

IntCtx == {"int", "int8", "int16", "int32", "int64", "uint", "uint8", "uint16", "uint32", "uint64", "uintptr"}
FloatCtx == {"float32", "float64"}
ComplexCtx == {"complex64", "complex128"}
BigCtx == {"big.Int", "big.Rat", "big.Float"}
Ctxs == IntCtx \cup FloatCtx \cup ComplexCtx \cup BigCtx \cup {"default"}

RangeOf(T) ==      \* amd64: int, uint, uintptr are 64 bits wide
    CASE T = "int8" -> Range8 [] T = "int16" -> Range16 [] T = "int32" -> Range32
      [] T \in {"int64", "int"} -> Range64
      [] T = "uint8" -> URange8 [] T = "uint16" -> URange16 [] T = "uint32" -> URange32
      [] T \in {"uint64", "uint", "uintptr"} -> URange64

Round32(r) == RRoundBin(r, 24, -126, 127)
Round64(r) == RRoundBin(r, 53, -1022, 1023)

No(why) == [ok |-> FALSE, why |-> why]
Yes(T, re, im) == [ok |-> TRUE, typ |-> T, re |-> re, im |-> im, exact |-> TRUE]

IsPow2(d) == d = BNPow2(BNBitLen(d) - 1)

\* the four roundings of a numeric value, computed once per tree
Rounds(v) == [r32 |-> Round32(v.re), r64 |-> Round64(v.re), i32 |-> Round32(v.im), i64 |-> Round64(v.im)]

RECURSIVE ReprR(_, _, _)
ReprR(v, T, rd) ==
    IF T = "default" THEN
        CASE v.k = "int" -> ReprR(v, "int", rd)
          [] v.k = "rune" -> ReprR(v, "int32", rd)
          [] v.k = "float" -> ReprR(v, "float64", rd)
          [] v.k = "complex" -> ReprR(v, "complex128", rd)
          [] v.k = "bool" -> [ok |-> TRUE, typ |-> "bool", b |-> v.b]
          [] v.k = "string" -> [ok |-> TRUE, typ |-> "string", s |-> v.s]
    ELSE IF ~IsNumV(v) THEN No("not a numeric constant")
    ELSE IF T \in IntCtx THEN
        IF ~RIsZero(v.im) THEN No("non-zero imaginary part")
        ELSE IF ~RIsInt(v.re) THEN No("truncated")
        ELSE LET x == RNum(v.re)
                 rg == RangeOf(T)
             IN IF SICmp(x, rg[1]) < 0 \/ SICmp(x, rg[2]) > 0 THEN No("overflows")
                ELSE Yes(T, v.re, RZero)
    ELSE IF T \in FloatCtx THEN
        IF ~RIsZero(v.im) THEN No("non-zero imaginary part")
        ELSE LET r == IF T = "float32" THEN rd.r32 ELSE rd.r64
             IN IF r.ok THEN Yes(T, r.v, RZero) ELSE No("overflows")
    ELSE IF T \in ComplexCtx THEN
        LET a == IF T = "complex64" THEN rd.r32 ELSE rd.r64
            b == IF T = "complex64" THEN rd.i32 ELSE rd.i64
        IN IF a.ok /\ b.ok THEN Yes(T, a.v, b.v) ELSE No("overflows")
    \* gomacro extension: conversion to *big.Int, *big.Rat, *big.Float (README)
    ELSE IF v.k = "complex" THEN [ok |-> FALSE, why |-> "unmodelled", skip |-> TRUE]
    ELSE IF T = "big.Int" THEN
        (IF RIsInt(v.re) THEN Yes(T, v.re, RZero) ELSE No("not an integer"))
    ELSE IF T = "big.Rat" THEN Yes(T, v.re, RZero)
    ELSE \* big.Float: exact iff the value is a dyadic rational, otherwise an approximation
        [Yes(T, v.re, RZero) EXCEPT !.exact = IsPow2(v.re.den)]

NoRounds == [r32 |-> [ok |-> FALSE], r64 |-> [ok |-> FALSE], i32 |-> [ok |-> FALSE], i64 |-> [ok |-> FALSE]]
Repr(v, T) == ReprR(v, T, IF v.st = "ok" /\ IsNumV(v) THEN Rounds(v) ELSE NoRounds)

----------------------------------------------------------------------------
(* Tree generation *)
Depth(p) == BitLenNative(p)
MinHole == CHOOSE h \in holes : \A g \in holes : h <= g
Put(p, n) == [q \in DOMAIN tree \cup {p} |-> IF q = p THEN n ELSE tree[q]]

Init == tree = <<>> /\ holes = {1}

GenNode ==
    /\ holes # {}
    /\ LET h == MinHole IN
       \/ /\ Depth(h) > ForceOpDepth
          /\ \E l \in Lits : tree' = Put(h, [t |-> "lit", lit |-> l])
          /\ holes' = holes \ {h}
       \/ /\ Depth(h) < MaxDepth
          /\ \E op \in UnOps : tree' = Put(h, [t |-> "un", op |-> op])
          /\ holes' = (holes \ {h}) \cup {2 * h}
       \/ /\ Depth(h) < MaxDepth
          /\ \E op \in BinOps : tree' = Put(h, [t |-> "bin", op |-> op])
          /\ holes' = (holes \ {h}) \cup {2 * h, 2 * h + 1}

Next == GenNode
Spec == Init /\ [][Next]_vars

Done == holes = {}

\* sampling inside the specification: a cheap hash of the completed tree
LitCode(l) == (IF l.m = <<>> THEN 0 ELSE l.m[1]) + 7 * Len(l.m) + 13 * (l.e + 400) + 31 * l.b + 3 * Len(l.s)
NodeCode(n) == IF n.t = "lit" THEN LitCode(n.lit) ELSE IF n.t = "un" THEN 17 ELSE 29
RECURSIVE HashFrom(_)
HashFrom(p) == IF p > 15 THEN 0
               ELSE (IF p \in DOMAIN tree THEN (p * NodeCode(tree[p])) % 9973 ELSE 0) + HashFrom(p + 1)
TreeHash == HashFrom(1)
Sel == Done /\ (EmitMod = 1 \/ TreeHash % EmitMod = EmitRes)

----------------------------------------------------------------------------
(* (M) laws of the semantics, checked on every completed tree *)
TypeOK ==
    /\ \A p \in DOMAIN tree : p = 1 \/ (p \div 2) \in DOMAIN tree
    /\ \A h \in holes : h \notin DOMAIN tree /\ (h = 1 \/ (h \div 2) \in DOMAIN tree)

OperandsOK == Sel /\ tree[1].t = "bin" /\ Eval(2).st = "ok" /\ Eval(3).st = "ok"

\* kind promotion: arithmetic on numeric constants yields the larger kind, comparisons bool
KindLaw ==
    OperandsOK =>
      LET x == Eval(2)
          y == Eval(3)
          op == tree[1].op
          r == BinOp(op, x, y)
      IN r.st = "ok" =>
           /\ (op \in ArithOps \cup IntOps /\ IsNumV(x) => r.k = MaxKind(x.k, y.k))
           /\ (op \in ShiftOps => r.k = x.k)
           /\ (op \in EqOps \cup OrdOps \cup LogicOps => r.k = "bool")
           /\ (r.k \in IntKinds => RIsInt(r.re) /\ RIsZero(r.im))
           /\ (r.k \in {"float"} => RIsZero(r.im))

\* integer division truncates: x = q*y + r, |r| < |y|, r has the sign of x
IntDivLaw ==
    OperandsOK /\ tree[1].op = "/" =>
      LET x == Eval(2)
          y == Eval(3)
          q == BinOp("/", x, y)
          r == BinOp("%", x, y)
      IN IsIntV(x) /\ IsIntV(y) /\ q.st = "ok" /\ r.st = "ok" =>
           /\ RIsInt(q.re)
           /\ RAdd(RMul(q.re, y.re), r.re) = x.re
           /\ BNLt(r.re.num, y.re.num)
           /\ (RIsZero(r.re) \/ r.re.neg = x.re.neg)

\* x << c = x * 2^c ;  x >> c = floor(x / 2^c)
ShiftLaw ==
    OperandsOK /\ tree[1].op \in ShiftOps =>
      LET x == Eval(2)
          y == Eval(3)
          r == BinOp(tree[1].op, x, y)
      IN r.st = "ok" =>
           LET p == RFromSI(P2(BNToInt(y.re.num))) IN
           IF tree[1].op = "<<" THEN r.re = RMul(x.re, p)
           ELSE LET d == RSub(x.re, RMul(r.re, p))      \* 0 <= x - r*2^c < 2^c
                IN ~d.neg /\ RCmp(d, p) < 0

BitLaw ==
    OperandsOK /\ tree[1].op \in {"&", "|", "^", "&^"} =>
      LET x == Eval(2)
          y == Eval(3)
      IN IsIntV(x) /\ IsIntV(y) =>
           LET a == BinOp("&", x, y)
               o == BinOp("|", x, y)
               e == BinOp("^", x, y)
               n == BinOp("&^", x, y)
           IN (a.st = "ok" /\ o.st = "ok" /\ e.st = "ok" /\ n.st = "ok") =>
                /\ RAdd(a.re, o.re) = RAdd(x.re, y.re)
                /\ e.re = RSub(o.re, a.re)
                /\ n.re = RSub(x.re, a.re)

\* exactly one of <, ==, > holds for ordered constants
CmpLaw ==
    OperandsOK /\ tree[1].op \in EqOps \cup OrdOps =>
      LET x == Eval(2)
          y == Eval(3)
          lt == BinOp("<", x, y)
          eq == BinOp("==", x, y)
          gt == BinOp(">", x, y)
      IN (lt.st = "ok" /\ eq.st = "ok" /\ gt.st = "ok") =>
           /\ Cardinality({z \in {"lt", "eq", "gt"} :
                  (z = "lt" /\ lt.b) \/ (z = "eq" /\ eq.b) \/ (z = "gt" /\ gt.b)}) = 1
           /\ BinOp("<=", x, y).b = (lt.b \/ eq.b)
           /\ BinOp("!=", x, y).b = ~eq.b

\* representability: an integer context accepts exactly the integral values in range and the
\* typed value is the value; a floating-point context yields a value within half a quantum
ReprLaw ==
    Sel =>
      LET v == Eval(1) IN
      (v.st = "ok" /\ IsNumV(v)) =>
         LET rd == Rounds(v)
             R(T) == ReprR(v, T, rd)
         IN
         /\ \A T \in IntCtx :
              R(T).ok <=> (RIsZero(v.im) /\ RIsInt(v.re)
                           /\ SICmp(RNum(v.re), RangeOf(T)[1]) >= 0 /\ SICmp(RNum(v.re), RangeOf(T)[2]) <= 0)
         /\ (R("int8").ok => R("int16").ok)
         /\ (R("uint32").ok => R("int64").ok)
         /\ LET r == R("float32") IN
              (r.ok /\ ~RIsZero(v.re)) =>
                 \* |r - v| * 2^24 <= max(|v|, 2^-126)   (half a unit in the last place)
                 LET err == RAbs(RSub(r.re, v.re))
                     av == RAbs(v.re)
                     lo == RScale2(SIFromInt(1), -126)
                     ref == IF RCmp(av, lo) >= 0 THEN av ELSE lo
                 IN RCmp(RMul(err, RFromSI(P2(24))), ref) <= 0
         /\ (R("float32").ok => R("float64").ok)

----------------------------------------------------------------------------
(* Behaviour emission (R) *)
RStr(r) == [neg |-> r.neg, num |-> BNStr(r.num), den |-> BNStr(r.den)]

RECURSIVE Expr(_)
Expr(p) ==
    LET n == tree[p] IN
    CASE n.t = "lit" -> [t |-> "lit", k |-> n.lit.k, m |-> BNStr(n.lit.m), b |-> n.lit.b,
                         e |-> n.lit.e, s |-> n.lit.s]
      [] n.t = "un" -> [t |-> "un", op |-> n.op, x |-> Expr(2 * p)]
      [] n.t = "bin" -> [t |-> "bin", op |-> n.op, x |-> Expr(2 * p), y |-> Expr(2 * p + 1)]

ReprOut(v, T, rd) ==
    LET r == ReprR(v, T, rd) IN
    IF ~r.ok THEN r
    ELSE IF r.typ = "bool" \/ r.typ = "string" THEN r
    ELSE [ok |-> TRUE, typ |-> r.typ, re |-> RStr(r.re), im |-> RStr(r.im), exact |-> r.exact]

\* operand kinds of the root operator (for the signature of a disagreement)
KindOf(v) == IF v.st = "ok" THEN v.k ELSE v.st
RootShape ==
    LET n == tree[1] IN
    CASE n.t = "lit" -> [op |-> "lit", ks |-> <<n.lit.k>>]
      [] n.t = "un" -> [op |-> n.op, ks |-> <<KindOf(Eval(2))>>]
      [] n.t = "bin" -> [op |-> n.op, ks |-> <<KindOf(Eval(2)), KindOf(Eval(3))>>]

Record(v) ==
    IF v.st = "err" THEN [expr |-> Expr(1), st |-> "err", why |-> v.why, at |-> v.at, root |-> RootShape]
    ELSE IF IsNumV(v) THEN
        LET rd == Rounds(v) IN
        [expr |-> Expr(1), st |-> "ok", kind |-> v.k, re |-> RStr(v.re), im |-> RStr(v.im),
         root |-> RootShape,
         \* predicates over the value used to name disagreements
         integral |-> RIsZero(v.im) /\ RIsInt(v.re),
         exact64 |-> rd.r64.ok /\ rd.i64.ok /\ rd.r64.v = v.re /\ rd.i64.v = v.im,
         exact32 |-> rd.r32.ok /\ rd.i32.ok /\ rd.r32.v = v.re /\ rd.i32.v = v.im,
         ctx |-> [T \in Ctxs |-> ReprOut(v, T, rd)]]
    ELSE IF v.k = "bool" THEN
        [expr |-> Expr(1), st |-> "ok", kind |-> "bool", b |-> v.b, root |-> RootShape,
         ctx |-> [T \in Ctxs |-> ReprOut(v, T, NoRounds)]]
    ELSE
        [expr |-> Expr(1), st |-> "ok", kind |-> "string", s |-> v.s, root |-> RootShape,
         ctx |-> [T \in Ctxs |-> ReprOut(v, T, NoRounds)]]

Emit == IF EmitOn /\ Sel
        THEN LET v == Eval(1) IN IF v.st = "skip" THEN TRUE ELSE PrintT(ToJson(Record(v)))
        ELSE TRUE
=============================================================================

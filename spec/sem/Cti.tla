-------------------------------- MODULE Cti --------------------------------
(***************************************************************************)
(* C34: the pre-declared "contract" methods that gomacro's generics        *)
(* flavour CTI (contracts are interfaces) adds to unnamed basic types and   *)
(* to arrays, slices, maps and channels agree with the Go operator or       *)
(* builtin they stand for.                                                  *)
(*                                                                         *)
(* The specification is a TABLE  method |-> (operator or builtin, argument *)
(* convention) and the meaning of a call is the meaning of the operator in *)
(* Values.tla (the semantics pinned to compiled Go by C01) applied to the  *)
(* operands the convention selects:                                        *)
(*    "rb"   a.M(b)      receiver and one argument        Equal Cmp Less   *)
(*    "zab"  z.M(a, b)   the receiver z is IGNORED        Add Sub Mul ...  *)
(*    "za"   z.M(a)      the receiver z is IGNORED        Neg Not          *)
(*    "zan"  z.M(a, n)   receiver ignored, n is a uint8   Lsh Rsh          *)
(*    "r"    a.M()                                        Len Real Imag    *)
(*    "ri"   a.M(i)      i int                            Index (string)   *)
(*    "rij"  a.M(i, j)                                    Slice (string)   *)
(* Containers (array through a pointer receiver, slice, map, chan) have    *)
(* their own small state model below (BoxCall).                            *)
(*                                                                         *)
(* Enumeration BY CELL = (method, kind): one record per (kind, left        *)
(* operand) lists every method of the kind on every right operand of C01's *)
(* boundary lists (Expr!IntVals ...); simulation draws random operands.    *)
(*                                                                         *)
(* (M) CtiLaws: on ALL pairs of 8-bit values the table satisfies           *)
(*   Sub(a,b) = a + (-b); for all left and 24 boundary right operands      *)
(*   Neg(a) = Sub(0,a), AndNot = And(a, Not b), Cmp antisymmetric and      *)
(*   consistent with Less / Equal, Lsh(a,1) = a + a, a = Quo*b + Rem,      *)
(*   Xor = (Or) AndNot (And); BoxLaws: slicing / indexing / append / copy  *)
(*   / FIFO identities on every container state.                           *)
(* SubSwap = TRUE is the broken variant (Sub with swapped operands).       *)
(***************************************************************************)
EXTENDS Expr

CONSTANTS SubSwap,   \* FALSE = specification; TRUE = broken variant for the self-test
          BoxN       \* length of the backing array of the slice states (3 quick, 4 thorough)

---------------------------------------------------------------------------
(* the table: basic kinds *)

CtiTable ==
    [Add    |-> [op |-> "add",    conv |-> "zab"],
     Sub    |-> [op |-> "sub",    conv |-> "zab"],
     Mul    |-> [op |-> "mul",    conv |-> "zab"],
     Quo    |-> [op |-> "quo",    conv |-> "zab"],
     Rem    |-> [op |-> "rem",    conv |-> "zab"],
     And    |-> [op |-> "and",    conv |-> "zab"],
     AndNot |-> [op |-> "andnot", conv |-> "zab"],
     Or     |-> [op |-> "or",     conv |-> "zab"],
     Xor    |-> [op |-> "xor",    conv |-> "zab"],
     Neg    |-> [op |-> "neg",    conv |-> "za"],
     Not    |-> [op |-> "cpl",    conv |-> "za"],      \* ^a on integers, !a on bool
     Lsh    |-> [op |-> "shl",    conv |-> "zan"],
     Rsh    |-> [op |-> "shr",    conv |-> "zan"],
     Cmp    |-> [op |-> "cmp",    conv |-> "rb"],      \* -1 | 0 | 1 from < and >
     Equal  |-> [op |-> "eql",    conv |-> "rb"],
     Less   |-> [op |-> "lss",    conv |-> "rb"],
     Real   |-> [op |-> "real",   conv |-> "r"],
     Imag   |-> [op |-> "imag",   conv |-> "r"],
     Len    |-> [op |-> "len",    conv |-> "r"],
     Index  |-> [op |-> "index",  conv |-> "ri"],
     Slice  |-> [op |-> "slice",  conv |-> "rij"]]

ComplexKinds == {"complex64", "complex128"}
CxPart(k) == IF k = "complex64" THEN "float32" ELSE "float64"

CtiIntMethods     == {"Add", "Sub", "Mul", "Quo", "Neg", "Rem", "And", "AndNot", "Or", "Xor", "Not", "Lsh", "Rsh",
                      "Cmp", "Equal", "Less"}
CtiFloatMethods   == {"Add", "Sub", "Mul", "Quo", "Neg", "Cmp", "Equal", "Less"}
CtiComplexMethods == {"Add", "Sub", "Mul", "Quo", "Neg", "Real", "Imag", "Equal"}
CtiStringMethods  == {"Add", "Index", "Len", "Slice", "Cmp", "Equal", "Less"}
CtiBoolMethods    == {"Not", "Equal"}

CtiMethodsOf(k) == IF k \in IntKinds THEN CtiIntMethods
                   ELSE IF k \in FloatKinds THEN CtiFloatMethods
                   ELSE IF k \in ComplexKinds THEN CtiComplexMethods
                   ELSE IF k = "string" THEN CtiStringMethods
                   ELSE CtiBoolMethods

CtiOp(m, k) == IF m = "Not" /\ k = "bool" THEN "not" ELSE CtiTable[m].op
CtiWith(k, conv) == {m \in CtiMethodsOf(k) : CtiTable[m].conv = conv}

---------------------------------------------------------------------------
(* complex numbers: pairs <<re, im>> of FloatD values of the part format *)

FSk(x) == x.c = "skip"
CAdd(f, x, y) == IF FSk(x) \/ FSk(y) THEN FSkip ELSE FAdd(f, x, y)
CSub(f, x, y) == IF FSk(x) \/ FSk(y) THEN FSkip ELSE FSub(f, x, y)
CMul(f, x, y) == IF FSk(x) \/ FSk(y) THEN FSkip ELSE FMul(f, x, y)
CQuo(f, x, y) == IF FSk(x) \/ FSk(y) THEN FSkip ELSE FQuo(f, x, y)
CTo(f, x)     == IF x.c = "fin" THEN FRound(f, x.s, x.m, x.e) ELSE x     \* float64 -> part format

CxVal(k, re, im) == IF FSk(re) \/ FSk(im) THEN RSkip ELSE RVal(k, <<re, im>>)
CxFinite(a) == a[1].c \in {"fin", "zero"} /\ a[2].c \in {"fin", "zero"}

\* n / m: Go evaluates complex division in float64 by Smith's algorithm (runtime
\* complex128div) and rounds a complex64 result afterwards; operands outside the finite
\* values, a zero divisor and NaN results (the runtime's special cases) are outside the domain
CxQuo(k, n, m) ==
    IF ~CxFinite(n) \/ ~CxFinite(m) \/ (m[1].c = "zero" /\ m[2].c = "zero") THEN RSkip
    ELSE LET f == "float64"
             big == ~FMagLess(m[1], m[2])                    \* |re m| >= |im m|
             ratio == IF big THEN CQuo(f, m[2], m[1]) ELSE CQuo(f, m[1], m[2])
             denom == IF big THEN CAdd(f, m[1], CMul(f, ratio, m[2])) ELSE CAdd(f, m[2], CMul(f, ratio, m[1]))
             e == IF big THEN CQuo(f, CAdd(f, n[1], CMul(f, n[2], ratio)), denom)
                         ELSE CQuo(f, CAdd(f, CMul(f, n[1], ratio), n[2]), denom)
             g == IF big THEN CQuo(f, CSub(f, n[2], CMul(f, n[1], ratio)), denom)
                         ELSE CQuo(f, CSub(f, CMul(f, n[2], ratio), n[1]), denom)
         IN IF FSk(e) \/ FSk(g) \/ e.c = "nan" \/ g.c = "nan" THEN RSkip
            ELSE CxVal(k, CTo(CxPart(k), e), CTo(CxPart(k), g))

CxBin(op, k, a, b) ==
    LET f == CxPart(k) IN
    CASE op = "add" -> CxVal(k, CAdd(f, a[1], b[1]), CAdd(f, a[2], b[2]))
      [] op = "sub" -> CxVal(k, CSub(f, a[1], b[1]), CSub(f, a[2], b[2]))
      [] op = "mul" -> CxVal(k, CSub(f, CMul(f, a[1], b[1]), CMul(f, a[2], b[2])),
                                CAdd(f, CMul(f, a[1], b[2]), CMul(f, a[2], b[1])))
      [] op = "quo" -> CxQuo(k, a, b)
      [] op = "eql" -> RVal("bool", FEq(a[1], b[1]) /\ FEq(a[2], b[2]))

---------------------------------------------------------------------------
(* the meaning of a call *)

BinX(op, k, a, b) == IF k \in ComplexKinds THEN CxBin(op, k, a, b) ELSE RunBin(op, k, a, b)

CmpRes(k, a, b) ==
    LET lt == RunBin("lss", k, a, b)[3]
        gt == RunBin("gtr", k, a, b)[3]
    IN RVal("int", BVFromInt(8, IF lt THEN 0 - 1 ELSE IF gt THEN 1 ELSE 0))

\* conventions "zab" and "rb": two operands of the kind
CtiBin(m, k, a, b) ==
    IF m = "Cmp" THEN CmpRes(k, a, b)
    ELSE IF m = "Sub" /\ SubSwap THEN BinX("sub", k, b, a)
    ELSE BinX(CtiOp(m, k), k, a, b)

\* convention "zan": the count is a uint8
CtiShift(m, k, a, n) == Shift(CtiOp(m, k), k, a, "uint8", n)

\* conventions "za" and "r": one operand
CtiUn(m, k, a) ==
    CASE m = "Real" -> RVal(CxPart(k), a[1])
      [] m = "Imag" -> RVal(CxPart(k), a[2])
      [] m = "Len"  -> RVal("int", BVFromNat(8, Len(a)))
      [] m = "Neg" /\ k \in ComplexKinds -> RVal(k, <<FNeg(a[1]), FNeg(a[2])>>)
      [] OTHER -> RunUn(CtiOp(m, k), k, a)

\* conventions "ri" / "rij" on strings; an index is a small integer, or one of the sentinels
\* IdxMinS / IdxMaxS standing for MinInt64 / MaxInt64 (always out of range)
IdxMinS == 0 - 1000000
IdxMaxS == 1000000
CtiIndex(s, i) == IF 0 <= i /\ i < Len(s) THEN RVal("uint8", <<s[i + 1]>>) ELSE RPanic("index")
CtiSlice(s, i, j) == IF 0 <= i /\ i <= j /\ j <= Len(s) THEN RVal("string", SubSeq(s, i + 1, j))
                     ELSE RPanic("slice")
IdxBV(i) == IF i = IdxMinS THEN BVMin(8) ELSE IF i = IdxMaxS THEN BVMax(8) ELSE BVFromInt(8, i)

---------------------------------------------------------------------------
(* operand lists *)

CtiKindSeq == IntKindSeq \o <<"float32", "float64", "complex64", "complex128", "string", "bool">>
NK == Len(CtiKindSeq)

CxParts == LET q == <<FZero(0), FI(0, 1, 0), FI(1, 1, 0), FI(0, 1, 0 - 1), FI(0, 3, 0), FI(1, 2, 0)>>
               t == <<FI(0, 5, 0 - 2), FI(1, 7, 0), FI(0, 1, 10)>>
           IN IF Level >= 2 THEN q \o t ELSE q
CxSpecial == << <<FInf(0), FZero(0)>>, <<FNaN, FI(0, 1, 0)>>, <<FZero(1), FZero(0)>>, <<FI(0, 1, 0), FInf(1)>>,
                <<FZero(0), FZero(1)>> >>
CxVals == LET n == Len(CxParts)
              grid == [x \in 1..(n * n) |-> <<CxParts[((x - 1) \div n) + 1], CxParts[((x - 1) % n) + 1]>>]
          IN \* every pair of the part list would square the row count: take the pairs on a stride
             [y \in 1..(IF Level >= 2 THEN 20 ELSE 11) |-> grid[((y * 7) % (n * n)) + 1]] \o CxSpecial

CtiVals(k) == IF k \in IntKinds THEN IntVals(k)
              ELSE IF k \in FloatKinds THEN FloatVals(k)
              ELSE IF k \in ComplexKinds THEN CxVals
              ELSE IF k = "string" THEN StrVals ELSE BoolVals

IdxList(s) == <<0 - 1, 0, 1, Len(s) - 1, Len(s), Len(s) + 1, IdxMinS, IdxMaxS>>
IdxPairs(s) == LET l == <<0 - 1, 0, 1, 2, Len(s) - 1, Len(s), Len(s) + 1>>
                   n == Len(l)
               IN [x \in 1..(n * n) |-> <<l[((x - 1) \div n) + 1], l[((x - 1) % n) + 1]>>]
                  \o << <<0, IdxMaxS>>, <<IdxMinS, 0>>, <<IdxMaxS, IdxMaxS>> >>

RandCx == <<RandFloatBy("float32", CxParts, RandomElement(2..3)), RandFloatBy("float32", CxParts, RandomElement(2..3))>>
CtiRand(k) == IF k \in ComplexKinds THEN RandCx ELSE RandLeft([g |-> "bin", k |-> k, ck |-> ""])
CtiRandCount == RandCountBy(1, CountVals("uint8"), RandomElement(1..3))

---------------------------------------------------------------------------
(* containers.  Element and key values are abstract naturals: 0 is the zero *)
(* value of the element type, the renderer maps the others to distinct      *)
(* values of the concrete type.                                             *)
(*                                                                         *)
(* slice / array / bytes state: [arr, off, len, cap, nil] - a window of the *)
(* backing array arr; an array is the window <<0, N, N>>.                   *)
(* map state:   [kv |-> sequence of <<key, value>> sorted by key, nil]      *)
(* chan state:  [buf, cap, closed, nil]                                     *)
(*                                                                         *)
(* A call is [m, of, args]; m is the rendering (a pseudo-method such as     *)
(* "CopySelf" = Copy from a window of the same backing array), of the real  *)
(* method.  Its meaning is [r, post]: r = <<"v", outputs>> | <<"p", class>>,*)
(* post = the container's state afterwards (backing array / pairs / queue). *)
(* outputs: [t |-> "i", v |-> int] [t |-> "e", v |-> element]               *)
(*          [t |-> "b", v |-> bool]                                         *)
(*          [t |-> "s", v |-> contents, cap |-> capacity or -1 (any >= len),*)
(*           nil |-> bool]                                                  *)

BoxTable ==
    [Len      |-> [op |-> "len(x)",          fams |-> {"slice", "array", "bytes", "map", "chan"}],
     Cap      |-> [op |-> "cap(x)",          fams |-> {"slice", "array", "bytes", "chan"}],
     Index    |-> [op |-> "x[i]",            fams |-> {"slice", "array", "bytes", "map"}],
     SetIndex |-> [op |-> "x[i] = v",        fams |-> {"slice", "array", "bytes", "map"}],
     AddrIndex|-> [op |-> "&x[i]",           fams |-> {"slice", "array", "bytes"}],
     Slice    |-> [op |-> "x[i:j]",          fams |-> {"slice", "array", "bytes"}],
     Slice3   |-> [op |-> "x[i:j:k]",        fams |-> {"slice", "array", "bytes"}],
     Append   |-> [op |-> "append(x, v...)", fams |-> {"slice", "bytes"}],
     Copy     |-> [op |-> "copy(x, y)",      fams |-> {"slice", "array", "bytes"}],
     AppendString |-> [op |-> "append(x, s...)", fams |-> {"bytes"}],
     CopyString   |-> [op |-> "copy(x, s)",      fams |-> {"bytes"}],
     TryIndex |-> [op |-> "v, ok = x[k]",    fams |-> {"map"}],
     DelIndex |-> [op |-> "delete(x, k)",    fams |-> {"map"}],
     Recv     |-> [op |-> "v, ok = <-x",     fams |-> {"chan"}],
     Send     |-> [op |-> "x <- v",          fams |-> {"chan"}],
     TryRecv  |-> [op |-> "select { case v, ok = <-x: default: }", fams |-> {"chan"}],
     TrySend  |-> [op |-> "select { case x <- v: default: }",      fams |-> {"chan"}],
     Close    |-> [op |-> "close(x)",        fams |-> {"chan"}]]

BoxFams == <<"slice", "array", "bytes", "map", "chan">>
BoxMethodsOf(fam) == {m \in DOMAIN BoxTable : fam \in BoxTable[m].fams}

OI(n) == [t |-> "i", v |-> n]
OE(v) == [t |-> "e", v |-> v]
OB(b) == [t |-> "b", v |-> b]
OS(vs, cap, isnil) == [t |-> "s", v |-> vs, cap |-> cap, nil |-> isnil]
BOk(outs, post) == [r |-> <<"v", outs>>, post |-> post]
BPanic(cls, post) == [r |-> <<"p", cls>>, post |-> post]
MinI(a, b) == IF a < b THEN a ELSE b

\* --- windows of a backing array
Win(s) == [i \in 1..s.len |-> s.arr[s.off + i]]
WinPut(s, at, vs) ==      \* write vs into the backing array from position at of the window
    [x \in 1..Len(s.arr) |-> IF x > s.off + at /\ x <= s.off + at + Len(vs) THEN vs[x - s.off - at] ELSE s.arr[x]]

SliceCall(s, m, a) ==
    CASE m = "Len" -> BOk(<<OI(s.len)>>, s.arr)
      [] m = "Cap" -> BOk(<<OI(s.cap)>>, s.arr)
      [] m = "Index" -> IF 0 <= a[1] /\ a[1] < s.len THEN BOk(<<OE(s.arr[s.off + a[1] + 1])>>, s.arr)
                        ELSE BPanic("index", s.arr)
      [] m = "SetIndex" -> IF 0 <= a[1] /\ a[1] < s.len THEN BOk(<<>>, WinPut(s, a[1], <<a[2]>>))
                           ELSE BPanic("index", s.arr)
      \* rendered  p := x.AddrIndex(i); old := *p; *p = v : the old element, and the store is visible
      [] m = "AddrIndex" -> IF 0 <= a[1] /\ a[1] < s.len
                            THEN BOk(<<OE(s.arr[s.off + a[1] + 1])>>, WinPut(s, a[1], <<a[2]>>))
                            ELSE BPanic("index", s.arr)
      [] m = "Slice" -> IF 0 <= a[1] /\ a[1] <= a[2] /\ a[2] <= s.cap
                        THEN BOk(<<OS([x \in 1..(a[2] - a[1]) |-> s.arr[s.off + a[1] + x]], s.cap - a[1], s.nil)>>, s.arr)
                        ELSE BPanic("slice", s.arr)
      [] m = "Slice3" -> IF 0 <= a[1] /\ a[1] <= a[2] /\ a[2] <= a[3] /\ a[3] <= s.cap
                         THEN BOk(<<OS([x \in 1..(a[2] - a[1]) |-> s.arr[s.off + a[1] + x]], a[3] - a[1], s.nil)>>, s.arr)
                         ELSE BPanic("slice", s.arr)
      \* append: in place when the capacity suffices (the backing array changes, the result has
      \* the same capacity), otherwise a fresh array of unspecified capacity
      [] m \in {"Append", "AppendSpread", "AppendString"} ->
            IF s.len + Len(a) <= s.cap
            THEN BOk(<<OS(Win(s) \o a, s.cap, s.nil /\ a = <<>>)>>, WinPut(s, s.len, a))
            ELSE BOk(<<OS(Win(s) \o a, 0 - 1, FALSE)>>, s.arr)
      [] m \in {"Copy", "CopyString"} -> BOk(<<>>, WinPut(s, 0, SubSeq(a, 1, MinI(s.len, Len(a)))))
      \* source = the window <<off a[1], len a[2]>> of the same backing array, read before written
      [] m = "CopySelf" -> LET src == [i \in 1..a[2] |-> s.arr[a[1] + i]]
                           IN BOk(<<>>, WinPut(s, 0, SubSeq(src, 1, MinI(s.len, a[2]))))

\* --- maps
MapHas(st, k) == \E i \in 1..Len(st.kv) : st.kv[i][1] = k
MapGet(st, k) == IF MapHas(st, k) THEN (CHOOSE p \in {st.kv[i] : i \in 1..Len(st.kv)} : p[1] = k)[2] ELSE 0
MapDel(kv, k) == SelectSeq(kv, LAMBDA p : p[1] # k)
RECURSIVE MapIns(_, _)
MapIns(kv, p) == IF kv = <<>> THEN <<p>>
                 ELSE IF p[1] < kv[1][1] THEN <<p>> \o kv
                 ELSE <<kv[1]>> \o MapIns(Tail(kv), p)
MapCall(st, m, a) ==
    CASE m = "Len" -> BOk(<<OI(Len(st.kv))>>, st.kv)
      [] m = "Index" -> BOk(<<OE(MapGet(st, a[1]))>>, st.kv)
      [] m = "TryIndex" -> BOk(<<OE(MapGet(st, a[1])), OB(MapHas(st, a[1]))>>, st.kv)
      [] m = "SetIndex" -> IF st.nil THEN BPanic("nilmap", st.kv)
                           ELSE BOk(<<>>, MapIns(MapDel(st.kv, a[1]), <<a[1], a[2]>>))
      [] m = "DelIndex" -> BOk(<<>>, MapDel(st.kv, a[1]))

\* --- channels; calls that would block are not generated (ChanCalls)
ChanPost(buf, closed) == [buf |-> buf, closed |-> closed]
ChanCall(st, m, a) ==
    LET same == ChanPost(st.buf, st.closed) IN
    CASE m = "Len" -> BOk(<<OI(Len(st.buf))>>, same)
      [] m = "Cap" -> BOk(<<OI(st.cap)>>, same)
      [] m = "Send" -> IF st.closed THEN BPanic("sendclosed", same)
                       ELSE BOk(<<>>, ChanPost(Append(st.buf, a[1]), FALSE))
      [] m = "TrySend" -> IF st.nil THEN BOk(<<OB(FALSE)>>, same)
                          ELSE IF st.closed THEN BPanic("sendclosed", same)
                          ELSE IF Len(st.buf) < st.cap THEN BOk(<<OB(TRUE)>>, ChanPost(Append(st.buf, a[1]), FALSE))
                          ELSE BOk(<<OB(FALSE)>>, same)
      [] m \in {"Recv", "TryRecv"} ->
                IF st.buf # <<>> THEN BOk(<<OE(st.buf[1]), OB(TRUE)>>, ChanPost(Tail(st.buf), st.closed))
                ELSE BOk(<<OE(0), OB(FALSE)>>, same)       \* closed and drained | nothing ready
      [] m = "Close" -> IF st.nil THEN BPanic("closenil", same)
                        ELSE IF st.closed THEN BPanic("closeclosed", same)
                        ELSE BOk(<<>>, ChanPost(st.buf, TRUE))

BoxCall(fam, st, m, a) == IF fam = "map" THEN MapCall(st, m, a)
                          ELSE IF fam = "chan" THEN ChanCall(st, m, a)
                          ELSE SliceCall(st, m, a)

\* --- container states
Backing(n) == [i \in 1..n |-> i]
SliceStates ==
    LET N == BoxN
        all == {[arr |-> Backing(N), off |-> o, len |-> l, cap |-> c, nil |-> FALSE] :
                   o \in 0..N, l \in 0..N, c \in 0..N}
    IN {s \in all : s.len <= s.cap /\ s.off + s.cap <= N}
       \cup {[arr |-> <<>>, off |-> 0, len |-> 0, cap |-> 0, nil |-> TRUE]}
ArrayStates == {[arr |-> Backing(n), off |-> 0, len |-> n, cap |-> n, nil |-> FALSE] : n \in {0, 1, BoxN}}
MapStates == {[kv |-> <<>>, nil |-> TRUE], [kv |-> <<>>, nil |-> FALSE], [kv |-> << <<1, 1>> >>, nil |-> FALSE],
              [kv |-> << <<1, 1>>, <<2, 2>> >>, nil |-> FALSE], [kv |-> << <<2, 0>> >>, nil |-> FALSE]}
ChanStates ==
    {[buf |-> <<>>, cap |-> 0, closed |-> FALSE, nil |-> TRUE]}
    \cup {[buf |-> b, cap |-> c, closed |-> cl, nil |-> FALSE] :
             b \in {<<>>, <<1>>, <<1, 2>>, <<0>>}, c \in 0..2, cl \in BOOLEAN}
BoxStatesOf(fam) == IF fam = "map" THEN MapStates
                    ELSE IF fam = "chan" THEN {s \in ChanStates : Len(s.buf) <= s.cap}
                    ELSE IF fam = "array" THEN ArrayStates ELSE SliceStates

\* --- the calls made on a state.  New element values are 7, 8, 9.
C1(m, args) == [m |-> m, of |-> m, args |-> args]
C2(m, of, args) == [m |-> m, of |-> of, args |-> args]
NewVals == << <<>>, <<7>>, <<7, 8>>, <<7, 8, 9>> >>
SliceCalls(fam, s) ==
    LET ix  == (0 - 1)..(s.len + 1)
        cx  == (0 - 1)..(s.cap + 1)
        n   == Len(s.arr)
    IN {C1("Len", <<>>), C1("Cap", <<>>)}
       \cup {C1("Index", <<i>>) : i \in ix}
       \cup {C1("SetIndex", <<i, 7>>) : i \in ix}
       \cup {C1("AddrIndex", <<i, 8>>) : i \in ix}
       \cup {C1("Slice", <<i, j>>) : i \in cx, j \in cx}
       \cup {C1("Slice3", <<i, j, k>>) : i \in cx, j \in cx, k \in cx}
       \cup {C1("Copy", NewVals[v]) : v \in 1..4}
       \cup {C2("CopySelf", "Copy", <<o, n - o>>) : o \in 0..n}
       \cup (IF fam = "array" THEN {}
             ELSE {C1("Append", NewVals[v]) : v \in 1..4} \cup {C2("AppendSpread", "Append", NewVals[v]) : v \in 1..4})
       \cup (IF fam = "bytes" THEN {C1("AppendString", NewVals[v]) : v \in 1..4} \cup {C1("CopyString", NewVals[v]) : v \in 1..4}
             ELSE {})
MapCalls(s) == {C1("Len", <<>>)} \cup {C1("Index", <<k>>) : k \in 1..3} \cup {C1("TryIndex", <<k>>) : k \in 1..3}
               \cup {C1("SetIndex", <<k, 7>>) : k \in 1..3} \cup {C1("SetIndex", <<1, 0>>)}
               \cup {C1("DelIndex", <<k>>) : k \in 1..3}
ChanCalls(s) ==
    {C1("Len", <<>>), C1("Cap", <<>>), C1("TrySend", <<7>>), C1("TryRecv", <<>>), C1("Close", <<>>)}
    \* Send blocks on a nil or full channel; Recv blocks on a nil or an open empty channel
    \cup (IF ~s.nil /\ (s.closed \/ Len(s.buf) < s.cap) THEN {C1("Send", <<7>>)} ELSE {})
    \cup (IF ~s.nil /\ (s.closed \/ s.buf # <<>>) THEN {C1("Recv", <<>>)} ELSE {})
BoxCallsOf(fam, s) == IF fam = "map" THEN MapCalls(s) ELSE IF fam = "chan" THEN ChanCalls(s) ELSE SliceCalls(fam, s)

RECURSIVE SetSeq(_)
SetSeq(S) == IF S = {} THEN <<>> ELSE LET x == CHOOSE x \in S : TRUE IN <<x>> \o SetSeq(S \ {x})

---------------------------------------------------------------------------
(* state machine: start -> kind or container family -> left operand or container state *)

CtiStart == [lvl |-> 0, ci |-> 0, a |-> 0, bs |-> <<>>]
CtiInit == cur = CtiStart

BoxStateSeq(fam) == SetSeq(BoxStatesOf(fam))

CtiNextBfs ==
    \/ /\ cur.lvl = 0
       /\ \E i \in 1..(NK + Len(BoxFams)) : cur' = [lvl |-> 1, ci |-> i, a |-> 0, bs |-> <<>>]
    \/ /\ cur.lvl = 1 /\ cur.ci <= NK
       /\ \E j \in 1..Len(CtiVals(CtiKindSeq[cur.ci])) :
             cur' = [lvl |-> 2, ci |-> cur.ci, a |-> CtiVals(CtiKindSeq[cur.ci])[j], bs |-> CtiVals(CtiKindSeq[cur.ci])]
    \/ /\ cur.lvl = 1 /\ cur.ci > NK
       /\ \E s \in BoxStatesOf(BoxFams[cur.ci - NK]) : cur' = [lvl |-> 3, ci |-> cur.ci, a |-> s, bs |-> <<>>]

CtiSimState(i) == [lvl |-> 2, ci |-> i, a |-> CtiRand(CtiKindSeq[i]), bs |-> [j \in 1..NRows |-> CtiRand(CtiKindSeq[i])]]
CtiNextSim ==
    \/ /\ cur.lvl = 0
       /\ \E i \in 1..NK : cur' = CtiSimState(i)
    \/ /\ cur.lvl = 2
       /\ cur' = CtiSimState((cur.ci % NK) + 1)

CtiNextM ==
    \/ /\ cur.lvl = 0
       /\ \E g \in 0..7 : cur' = [lvl |-> 1, ci |-> g, a |-> 0, bs |-> <<>>]
    \/ /\ cur.lvl = 1
       /\ \E i \in 1..256 : i % 8 = cur.ci /\ cur' = [lvl |-> 2, ci |-> 0, a |-> <<i - 1>>, bs |-> <<>>]
    \/ /\ cur.lvl = 0
       /\ \E f \in 1..Len(BoxFams) : cur' = [lvl |-> 1, ci |-> 100 + f, a |-> 0, bs |-> <<>>]
    \/ /\ cur.lvl = 1 /\ cur.ci > 100
       /\ \E s \in BoxStatesOf(BoxFams[cur.ci - 100]) : cur' = [lvl |-> 3, ci |-> cur.ci - 100 + NK, a |-> s, bs |-> <<>>]

CtiNext == IF Mode = "sim" THEN CtiNextSim ELSE IF Mode = "bfs" THEN CtiNextBfs ELSE CtiNextM
CtiSpec == CtiInit /\ [][CtiNext]_vars

---------------------------------------------------------------------------
(* the records printed *)

\* the table itself, printed once: the harness compares it with the method lists of the code
TableRecord ==
    [g |-> "table",
     basic |-> [i \in 1..NK |-> [k |-> CtiKindSeq[i], ks |-> Aliases(CtiKindSeq[i]),
                                 ms |-> [m \in CtiMethodsOf(CtiKindSeq[i]) |-> CtiTable[m].conv]]],
     box |-> [i \in 1..Len(BoxFams) |-> [fam |-> BoxFams[i], ms |-> [m \in BoxMethodsOf(BoxFams[i]) |-> BoxTable[m].op]]]]

CtiCounts == IF Mode = "sim" THEN [j \in 1..NRows |-> CtiRandCount] ELSE CountVals("uint8")

BasicRecord(s) ==
    LET k == CtiKindSeq[s.ci] IN
    [g |-> "basic", k |-> k, ks |-> (IF k \in ComplexKinds THEN <<k>> ELSE Aliases(k)), a |-> s.a,
     \* conventions "za" and "r"
     un |-> [m \in CtiWith(k, "za") \cup CtiWith(k, "r") |-> CtiUn(m, k, s.a)],
     \* conventions "zab" and "rb"
     rows |-> [j \in 1..Len(s.bs) |->
                 [b |-> s.bs[j], r |-> [m \in CtiWith(k, "zab") \cup CtiWith(k, "rb") |-> CtiBin(m, k, s.a, s.bs[j])]]],
     \* convention "zan"
     sh |-> IF CtiWith(k, "zan") = {} THEN <<>>
            ELSE LET cs == CtiCounts IN
                 [j \in 1..Len(cs) |-> [b |-> cs[j], r |-> [m \in CtiWith(k, "zan") |-> CtiShift(m, k, s.a, cs[j])]]],
     \* conventions "ri" and "rij"
     ix |-> IF k # "string" THEN <<>>
            ELSE LET l == IdxList(s.a) IN [j \in 1..Len(l) |-> [i |-> IdxBV(l[j]), r |-> CtiIndex(s.a, l[j])]],
     sl |-> IF k # "string" THEN <<>>
            ELSE LET l == IdxPairs(s.a) IN
                 [j \in 1..Len(l) |-> [i |-> IdxBV(l[j][1]), j |-> IdxBV(l[j][2]), r |-> CtiSlice(s.a, l[j][1], l[j][2])]]]

BoxRecord(s) ==
    LET fam == BoxFams[s.ci - NK]
        cs  == SetSeq(BoxCallsOf(fam, s.a))
    IN [g |-> "box", fam |-> fam, st |-> s.a,
        calls |-> [j \in 1..Len(cs) |->
                     LET x == BoxCall(fam, s.a, cs[j].m, cs[j].args)
                     IN [m |-> cs[j].m, of |-> cs[j].of, args |-> cs[j].args, r |-> x.r, post |-> x.post]]]

CtiEmit ==
    IF Mode = "m" THEN TRUE
    ELSE IF cur.lvl = 0 THEN PrintT(ToJson(TableRecord))
    ELSE IF cur.lvl = 2 THEN PrintT(ToJson(BasicRecord(cur)))
    ELSE IF cur.lvl = 3 THEN PrintT(ToJson(BoxRecord(cur)))
    ELSE TRUE

CtiTypeOK == /\ cur.lvl \in 0..3
             /\ cur.ci \in 0..(NK + Len(BoxFams) + 200)
             \* the table is total: every method of every kind / family has an entry
             /\ \A i \in 1..NK : CtiMethodsOf(CtiKindSeq[i]) \subseteq DOMAIN CtiTable
             /\ \A m \in DOMAIN BoxTable : BoxTable[m].fams \subseteq {BoxFams[i] : i \in 1..Len(BoxFams)}

---------------------------------------------------------------------------
(* (M) laws of the table on all pairs of 8-bit values *)

V3(r) == r[3]
CtiLawsAt(a) ==
    \A k \in {"int8", "uint8"} :
       LET z == BVZero(1)
           one == <<1>>
           m1 == BVFromInt(8, 0 - 1)
           z8 == BVZero(8)
       IN \* laws in the left operand alone
          /\ V3(CtiUn("Neg", k, a)) = V3(CtiBin("Sub", k, z, a))
          /\ V3(CtiShift("Lsh", k, a, one)) = V3(CtiBin("Add", k, a, a))
          /\ V3(CtiUn("Not", k, a)) = V3(CtiBin("Xor", k, a, BVOnes(1)))
          \* ALL right operands: the subtraction law (the one SubSwap breaks)
          /\ \A x \in 0..255 : V3(CtiBin("Sub", k, a, <<x>>)) = BVAdd(a, BVNeg(<<x>>))
          \* every 32nd right operand and its neighbours (0, 1, 31, 32, 33, ... 127, 128, 129, ... 255):
          \* the other operators
          /\ \A x \in {y \in 0..255 : y % 32 \in {0, 1, 31}} :
                LET b == <<x>>
                    M(m) == V3(CtiBin(m, k, a, b))
                    cmp == M("Cmp")
                IN /\ M("AndNot") = BVAnd(a, V3(CtiUn("Not", k, b)))
                   /\ M("Add") = V3(CtiBin("Add", k, b, a))
                   /\ (cmp = m1) = (V3(CtiBin("Cmp", k, b, a)) = BVFromInt(8, 1))
                   /\ M("Less") = (cmp = m1)
                   /\ M("Equal") = (cmp = z8) /\ M("Equal") = (a = b)
                   /\ M("Xor") = V3(CtiBin("AndNot", k, M("Or"), M("And")))
                   /\ M("Mul") = V3(CtiBin("Mul", k, b, a))
                   /\ (b # z => a = BVAdd(BVMul(M("Quo"), b), M("Rem")))
                   /\ (b = z => CtiBin("Quo", k, a, b) = RPanic("divide") /\ CtiBin("Rem", k, a, b) = RPanic("divide"))
          /\ ~KSigned(k) => \A x \in 0..7 :
                V3(CtiShift("Rsh", k, V3(CtiShift("Lsh", k, a, <<x>>)), <<x>>))
                   = V3(CtiBin("And", k, a, V3(CtiShift("Rsh", k, BVOnes(1), <<x>>))))

CtiLaws == (Mode = "m" /\ cur.lvl = 2) => CtiLawsAt(cur.a)

\* identities of the container model on every generated state
OutS(x) == x.r[2][1]
BoxLawsAt(fam, s) ==
    /\ fam \in {"slice", "array", "bytes"} =>
          /\ \A i \in 0..s.cap : \A j \in i..s.cap :
                LET sl == SliceCall(s, "Slice", <<i, j>>) IN
                /\ sl.r[1] = "v" /\ Len(OutS(sl).v) = j - i /\ OutS(sl).cap = s.cap - i
                /\ sl = SliceCall(s, "Slice3", <<i, j, s.cap>>)
                /\ \A x \in 0..(j - i - 1) : x + i < s.len =>
                      OutS(sl).v[x + 1] = SliceCall(s, "Index", <<i + x>>).r[2][1].v
          /\ \A i \in 0..(s.len - 1) :
                LET st == [s EXCEPT !.arr = SliceCall(s, "SetIndex", <<i, 7>>).post] IN
                /\ SliceCall(st, "Index", <<i>>).r[2][1].v = 7
                /\ \A j \in 0..(s.len - 1) : j # i => SliceCall(st, "Index", <<j>>).r = SliceCall(s, "Index", <<j>>).r
                /\ SliceCall(s, "AddrIndex", <<i, 7>>).post = st.arr
          /\ \A v \in 1..4 :
                LET ap == SliceCall(s, "Append", NewVals[v]) IN
                /\ Len(OutS(ap).v) = s.len + Len(NewVals[v])
                /\ SubSeq(OutS(ap).v, 1, s.len) = Win(s)
                /\ (OutS(ap).cap = 0 - 1) = (s.len + Len(NewVals[v]) > s.cap)
                \* what is outside [len, len + n) of the window never changes
                /\ \A x \in 1..Len(s.arr) : (x <= s.off + s.len \/ x > s.off + s.len + Len(NewVals[v])) => ap.post[x] = s.arr[x]
          /\ SliceCall(s, "CopySelf", <<s.off, s.len>>).post = s.arr
          /\ \A i \in {0 - 1, s.len} : SliceCall(s, "Index", <<i>>).r = <<"p", "index">>
    /\ fam = "map" =>
          \A k \in 1..3 :
             LET st == [s EXCEPT !.kv = MapCall([s EXCEPT !.nil = FALSE], "SetIndex", <<k, 7>>).post] IN
             /\ MapCall(st, "Index", <<k>>).r[2][1].v = 7
             /\ MapCall(st, "Len", <<>>).r[2][1].v = Len(s.kv) + (IF MapHas(s, k) THEN 0 ELSE 1)
             /\ MapCall([st EXCEPT !.kv = MapCall(st, "DelIndex", <<k>>).post], "TryIndex", <<k>>).r[2][2].v = FALSE
             /\ \A i \in 1..(Len(st.kv) - 1) : st.kv[i][1] < st.kv[i + 1][1]
    /\ fam = "chan" =>
          /\ (~s.nil /\ ~s.closed /\ Len(s.buf) < s.cap) =>
                LET st == [s EXCEPT !.buf = ChanCall(s, "Send", <<7>>).post.buf] IN
                /\ ChanCall(s, "TrySend", <<7>>) = [ChanCall(s, "Send", <<7>>) EXCEPT !.r = <<"v", <<OB(TRUE)>> >>]
                /\ Len(st.buf) = Len(s.buf) + 1
                \* FIFO: what was sent last is received after everything queued before
                /\ ChanCall(st, "Recv", <<>>).r[2][1].v = (IF s.buf = <<>> THEN 7 ELSE s.buf[1])
          /\ s.buf # <<>> => ChanCall(s, "Recv", <<>>) = ChanCall(s, "TryRecv", <<>>)

BoxLaws == (Mode = "m" /\ cur.lvl = 3) => BoxLawsAt(BoxFams[cur.ci - NK], cur.a)
=============================================================================

-------------------------------- MODULE Heap --------------------------------
(***************************************************************************)
(* Go-level memory model of composite data types (Go specification:        *)
(* "Array types", "Slice types", "Slice expressions", "Appending to and    *)
(* copying slices", "Map types", "Index expressions", "Composite           *)
(* literals", "Struct types", "Address operators").                        *)
(*                                                                         *)
(* Memory: backing arrays are heap cells  arrs[id] = sequence of small     *)
(* ints; an array VARIABLE a<n> is the cell n+1 (arrays are values:        *)
(* assignment and parameter passing copy the cell's contents); a slice is  *)
(* a header [nil, arr, off, len, cap, cu]; maps are heap cells maps[id]    *)
(* (a function Keys -> value, -1 = absent) referenced by map variables     *)
(* (0 = nil map); structs T{X; In U{Y; Z [2]E}} are cells sts[id], the     *)
(* variable t<n> is cell n+1; pointers pa (to [AL]E), pe (&c[i]), pt (to T) *)
(* hold cell ids (0 = nil); strings are immutable sequences of byte codes. *)
(*                                                                         *)
(* A behaviour is a straight-line HISTORY of operations. Every operation   *)
(* logs its observable result in hist[n].r (values, len, cap) or the class *)
(* of the run-time panic in hist[n].p; a panic ends the history. After the *)
(* history every container is dumped (Dump).                               *)
(*                                                                         *)
(* Nondeterminism: the capacity of a slice returned by a growing append is *)
(* unspecified in Go. The model only records that a NEW backing array is   *)
(* used: the header gets cu = TRUE ("capacity unknown") and cap = the      *)
(* needed length, a lower bound. Operations whose outcome would depend on  *)
(* the exact capacity are not offered on such slices (indices and bounds   *)
(* beyond len; a further growing append unless the array is referenced by  *)
(* nothing else, in which case in-place and reallocation are               *)
(* indistinguishable). A 3-index slice with max <= len makes the capacity  *)
(* known again.                                                            *)
(*                                                                         *)
(* (M) Every action also evaluates, from the state before and after, the   *)
(* VALUE-LEVEL statement of the Go specification for that operation        *)
(* (st.chk): append yields old elements ++ new ones, shares the array iff  *)
(* the capacity suffices and otherwise leaves every existing array         *)
(* untouched; copy behaves as a simultaneous assignment (memmove) although *)
(* the mechanism is an element loop whose direction is chosen from the     *)
(* offsets; s[lo:hi:max] has cap max-lo (so a later append beyond max      *)
(* reallocates); an element write is seen by exactly the slices whose      *)
(* window covers the cell. Broken selects a defective mechanism that TLC    *)
(* must reject.                                                            *)
(***************************************************************************)
EXTENDS Integers, Sequences, FiniteSets, TLC, Json

CONSTANTS Configs,  \* sequence of configurations; a behaviour belongs to one of them (variable cf):
                    \*   name
                    \*   NS       slice variables s0..s<NS-1>
                    \*   NA       array variables a0..a<NA-1> of length AL (pa exists iff NA > 0)
                    \*   NM       map variables
                    \*   NT       struct variables (pt exists iff NT > 0)
                    \*   NStr     string variables
                    \*   Ops      enabled operation kinds
                    \*   MaxOps   number of freely chosen operations
                    \*   Polite   panicking operations only as the last operation of a history ...
                    \*   PanicLast  ... or, if FALSE, not at all
                    \*   Scripts  sequence of fixed operation sequences (the model supplies the
                    \*            results); a history is a script followed by MaxOps free operations
                    \*   Free     TRUE: the empty script is allowed too
                    \*   LitNs    lengths of slice literals
                    \*   MkShapes <<len, cap>> arguments of make
          AL,
          MaxLen,   \* bound on slice / string lengths
          TwoStage, \* choose the operation kind first, then its operands (balanced simulation)
          Broken,   \* "none" | "append-ignores-cap" | "copy-forward" | "slice3-ignores-max"
          EmitOn

VARIABLES st, hist, cf, sc, kind

vars == <<st, hist, cf, sc, kind>>

Cf == Configs[cf]
NS == Cf.NS
NA == Cf.NA
NM == Cf.NM
NT == Cf.NT
NStr == Cf.NStr
Ops == Cf.Ops
MaxOps == Cf.MaxOps
Polite == Cf.Polite
PanicLast == Cf.PanicLast
Scripts == Cf.Scripts
Free == Cf.Free
LitNs == Cf.LitNs
MkShapes == Cf.MkShapes

NK == 3                      \* map keys 0..NK-1
MaxVal == 110

----------------------------------------------------------------------------
\* references to containers
NoRef == [t |-> "", n |-> 0]
Ref(t, n) == [t |-> t, n |-> n]
SRefs == {Ref("s", n) : n \in 0..NS-1}
ARefs == {Ref("a", n) : n \in 0..NA-1}
PaRefs == IF NA > 0 THEN {Ref("pa", 0)} ELSE {}
Vecs == SRefs \cup ARefs \cup PaRefs
MRefs == {Ref("m", n) : n \in 0..NM-1}
TRefs == {Ref("t", n) : n \in 0..NT-1}
PtRefs == IF NT > 0 THEN {Ref("pt", 0)} ELSE {}
StrRefs == {Ref("str", n) : n \in 0..NStr-1}

MkS(nil, arr, off, len, cap, cu) == [nil |-> nil, arr |-> arr, off |-> off, len |-> len, cap |-> cap, cu |-> cu]
NilS == MkS(TRUE, 0, 0, 0, 0, FALSE)
Zeros(n) == [x \in 1..n |-> 0]
ZeroT == [x |-> 0, y |-> 0, z |-> <<0, 0>>]

Init == /\ cf \in 1..Len(Configs)
        /\ st = [arrs |-> [a \in 1..NA |-> Zeros(AL)],
                 sl |-> [n \in 0..NS-1 |-> NilS],
                 pa |-> 0,
                 pe |-> [arr |-> 0, idx |-> 0],
                 maps |-> <<>>,
                 mv |-> [n \in 0..NM-1 |-> 0],
                 sts |-> [t \in 1..NT |-> ZeroT],
                 pt |-> 0,
                 strv |-> [n \in 0..NStr-1 |-> <<>>],
                 nv |-> 0, pan |-> "", chk |-> TRUE]
        /\ hist = <<>>
        /\ sc \in (IF Free THEN {0} ELSE {}) \cup (1..Len(Scripts))
        /\ kind = ""

----------------------------------------------------------------------------
\* a vector container (slice, array variable, *array) seen as a slice header; np = nil pointer
Rs(s, c) ==
    IF c.t = "s" THEN LET h == s.sl[c.n] IN
         [nil |-> h.nil, arr |-> h.arr, off |-> h.off, len |-> h.len, cap |-> h.cap, cu |-> h.cu, np |-> FALSE]
    ELSE IF c.t = "a" THEN
         [nil |-> FALSE, arr |-> c.n + 1, off |-> 0, len |-> AL, cap |-> AL, cu |-> FALSE, np |-> FALSE]
    ELSE [nil |-> FALSE, arr |-> s.pa, off |-> 0, len |-> AL, cap |-> AL, cu |-> FALSE, np |-> (s.pa = 0)]

View(s, h) == [x \in 1..h.len |-> s.arrs[h.arr][h.off + x]]
Min(a, b) == IF a < b THEN a ELSE b
Fresh(s, n) == [x \in 1..n |-> s.nv + x]

\* candidate indices / bounds: around the valid range
VIdx(h) == IF h.np THEN {0, AL - 1}
           ELSE IF h.cu THEN {-1, 0, h.len - 1, h.len}
           ELSE {-1, 0, h.len - 1, h.len, h.cap, h.cap + 1}
SIdx(h) == IF h.np THEN {0, AL} ELSE VIdx(h)

NoW == [s |-> <<>>, a |-> <<>>]
Op(op, c, d, i, j, k, f) ==
    [op |-> op, c |-> c, d |-> d, i |-> i, j |-> j, k |-> k, f |-> f, vs |-> <<>>, r |-> <<>>, p |-> "", w |-> NoW]

\* nothing but slice variable n references array a
Exclusive(s, a, n) == /\ \A m \in 0..NS-1 : m # n => s.sl[m].arr # a
                      /\ s.pe.arr # a
                      /\ s.pa # a
                      /\ a > NA

\* number of violated bound conditions of s[lo:hi] / s[lo:hi:max]: candidates violate at most one
\* (none when slicing through a nil pointer to an array: Go does not specify whether the bounds
\* or the pointer are checked first)
B2I(b) == IF b THEN 1 ELSE 0
Bad2(lo, hi, cap) == B2I(lo < 0) + B2I(hi < lo) + B2I(hi > cap)
Bad3(lo, hi, max, cap) == B2I(lo < 0) + B2I(hi < lo) + B2I(max < hi) + B2I(max > cap)

\* panicking operations are not offered now (Polite: only as the last operation)
ScLen == IF sc = 0 THEN 0 ELSE Len(Scripts[sc])
Limit == ScLen + MaxOps
PoliteNow == Polite /\ (~PanicLast \/ Len(hist) < Limit - 1)
MaxBad(h) == IF h.np \/ PoliteNow THEN 0 ELSE 1
Pairs(h) == {t \in SIdx(h) \X SIdx(h) : Bad2(t[1], t[2], h.cap) <= MaxBad(h)}
Triples(h) == {t \in SIdx(h) \X SIdx(h) \X SIdx(h) : Bad3(t[1], t[2], t[3], h.cap) <= MaxBad(h)}

\* indices of the array field Z [2]E: in range only through a nil pointer (order of the index
\* check and the nil check is not specified)
ZIdx(s, c) == IF c.t = "pt" /\ s.pt = 0 THEN 0..1 ELSE 0..2

AppendOK(s, d, c, nvs) ==
    LET h == s.sl[c.n]
        need == h.len + nvs
    IN /\ need <= MaxLen
       /\ (h.cu /\ need > h.cap /\ nvs > 0) => (d = c /\ Exclusive(s, h.arr, c.n))

CandsOf(s, k) ==
    CASE k = "mk" -> {Op("mk", NoRef, d, sh[1], sh[2], 0, "") : d \in SRefs, sh \in MkShapes}
      [] k = "lit" -> {Op("lit", NoRef, d, n, 0, 0, f) : d \in SRefs, n \in LitNs, f \in {"full"}}
                      \cup {Op("lit", NoRef, d, n, 0, 0, "sparse") : d \in SRefs, n \in LitNs \cap (2..MaxLen)}
      [] k = "nil" -> {Op("nil", NoRef, d, 0, 0, 0, "") : d \in SRefs}
      [] k = "idxr" -> UNION {{Op("idxr", c, NoRef, i, 0, 0, "") : i \in VIdx(Rs(s, c))} : c \in Vecs}
      [] k = "idxw" -> UNION {{Op("idxw", c, NoRef, i, 0, 0, "") : i \in VIdx(Rs(s, c))} : c \in Vecs}
      [] k = "addr" -> UNION {{Op("addr", c, NoRef, i, 0, 0, "") : i \in VIdx(Rs(s, c))} : c \in Vecs}
      [] k = "per" -> {Op("per", NoRef, NoRef, 0, 0, 0, "")}
      [] k = "pew" -> {Op("pew", NoRef, NoRef, 0, 0, 0, "")}
      [] k = "penil" -> {Op("penil", NoRef, NoRef, 0, 0, 0, "")}
      [] k = "sl2" -> UNION {{Op("sl2", c, d, t[1], t[2], 0, "") : d \in SRefs, t \in Pairs(Rs(s, c))} : c \in Vecs}
      [] k = "sl3" -> UNION {{Op("sl3", c, d, t[1], t[2], t[3], "") : d \in SRefs, t \in Triples(Rs(s, c))} : c \in Vecs}
      [] k = "app" -> {o \in {Op("app", c, d, 0, 0, n, "") : c \in SRefs, d \in SRefs, n \in 1..2} : AppendOK(s, o.d, o.c, o.k)}
      [] k = "apps" -> {o \in {Op("apps", c, d, e, 0, 0, "") : c \in SRefs, d \in SRefs, e \in 0..NS-1} : AppendOK(s, o.d, o.c, s.sl[o.i].len)}
      [] k = "copy" -> {Op("copy", c, d, 0, 0, 0, "") : c \in SRefs, d \in SRefs}
      [] k = "range" -> {Op("range", c, NoRef, 0, 0, 0, f) : c \in {v \in Vecs : ~Rs(s, v).np}, f \in {"ro", "w"}}
      [] k = "alit" -> {Op("alit", NoRef, d, 0, 0, 0, f) : d \in ARefs, f \in {"full", "sparse"}}
      [] k = "aasg" -> {o \in {Op("aasg", c, d, 0, 0, 0, "") : c \in ARefs \cup PaRefs, d \in ARefs} : o.c # o.d}
      [] k = "pstore" -> {Op("pstore", c, NoRef, 0, 0, 0, "") : c \in ARefs}
      [] k = "pass" -> {Op("pass", c, NoRef, 0, 0, 0, f) : c \in ARefs, f \in {"val", "ptr"}}
                       \cup {Op("pass", c, NoRef, 0, 0, 0, "slw") : c \in SRefs}
                       \cup {Op("pass", c, NoRef, 0, 0, 0, "slapp") : c \in {v \in SRefs : ~s.sl[v.n].cu /\ s.sl[v.n].len < MaxLen}}
      [] k = "paset" -> {Op("paset", NoRef, NoRef, 0, 0, 0, f) : f \in {"nil", "new", "lit"}}
                        \cup {Op("paset", c, NoRef, 0, 0, 0, "addr") : c \in ARefs}
      [] k = "mmake" -> {Op("mmake", NoRef, d, 0, 0, 0, "") : d \in MRefs}
      [] k = "mlit" -> {Op("mlit", NoRef, d, n, 0, 0, "") : d \in MRefs, n \in 0..2}
      [] k = "mnil" -> {Op("mnil", NoRef, d, 0, 0, 0, "") : d \in MRefs}
      [] k = "malias" -> {o \in {Op("malias", c, d, 0, 0, 0, "") : c \in MRefs, d \in MRefs} : o.c # o.d}
      [] k = "mset" -> {Op("mset", c, NoRef, i, 0, 0, "") : c \in MRefs, i \in 0..NK-1}
      [] k = "mget" -> {Op("mget", c, NoRef, i, 0, 0, f) : c \in MRefs, i \in 0..NK-1, f \in {"v", "ok"}}
      [] k = "mdel" -> {Op("mdel", c, NoRef, i, 0, 0, "") : c \in MRefs, i \in 0..NK-1}
      [] k = "stlit" -> {Op("stlit", NoRef, d, 0, 0, 0, f) : d \in TRefs, f \in {"keyed", "pos", "partial"}}
      [] k = "stasg" -> {o \in {Op("stasg", c, d, 0, 0, 0, "") : c \in TRefs \cup PtRefs, d \in TRefs} : o.c # o.d}
      [] k = "ptstore" -> {Op("ptstore", c, NoRef, 0, 0, 0, "") : c \in TRefs}
      [] k = "fldw" -> {Op("fldw", c, NoRef, 0, 0, 0, f) : c \in TRefs \cup PtRefs, f \in {"x", "y"}}
                       \cup UNION {{Op("fldw", c, NoRef, i, 0, 0, "z") : i \in ZIdx(s, c)} : c \in TRefs \cup PtRefs}
      [] k = "fldr" -> {Op("fldr", c, NoRef, 0, 0, 0, f) : c \in TRefs \cup PtRefs, f \in {"x", "y"}}
                       \cup UNION {{Op("fldr", c, NoRef, i, 0, 0, "z") : i \in ZIdx(s, c)} : c \in TRefs \cup PtRefs}
      [] k = "ptset" -> {Op("ptset", NoRef, NoRef, 0, 0, 0, f) : f \in {"nil", "new", "lit"}}
                        \cup {Op("ptset", c, NoRef, 0, 0, 0, "addr") : c \in TRefs}
      [] k = "passt" -> {Op("passt", c, NoRef, 0, 0, 0, f) : c \in TRefs, f \in {"val", "ptr"}}
      [] k = "strlit" -> {Op("strlit", NoRef, d, n, 0, 0, "") : d \in StrRefs, n \in {0, 2, 3}}
      [] k = "stridx" -> UNION {{Op("stridx", c, NoRef, i, 0, 0, "") : i \in {-1, 0, Len(s.strv[c.n]) - 1, Len(s.strv[c.n])}} : c \in StrRefs}
      [] k = "strsl" -> UNION {{Op("strsl", c, d, i, j, 0, "") : d \in StrRefs,
                                  i \in {-1, 0, Len(s.strv[c.n]) - 1, Len(s.strv[c.n]), Len(s.strv[c.n]) + 1},
                                  j \in {-1, 0, Len(s.strv[c.n]) - 1, Len(s.strv[c.n]), Len(s.strv[c.n]) + 1}} : c \in StrRefs}
      [] k = "strcat" -> {o \in {Op("strcat", c, d, e, 0, 0, "") : c \in StrRefs, d \in StrRefs, e \in 0..NStr-1} :
                             Len(s.strv[o.c.n]) + Len(s.strv[o.i]) <= MaxLen}
      [] k = "strrange" -> {Op("strrange", c, NoRef, 0, 0, 0, "") : c \in StrRefs}
      [] OTHER -> {}

----------------------------------------------------------------------------
\* results
Ret(s, vs, r) == [st |-> s, vs |-> vs, r |-> r, p |-> ""]
Pan(s, cls) == [st |-> [s EXCEPT !.pan = cls], vs |-> <<>>, r |-> <<>>, p |-> cls]
Hdr(h) == <<h.len, h.cap, B2I(h.cu)>>

RECURSIVE CpSeq(_, _, _, _, _, _)
\* the element loop of copy(): cells are moved one by one in the order xs
CpSeq(h, da, do, sa, so, xs) ==
    IF xs = <<>> THEN h
    ELSE CpSeq([h EXCEPT ![da][do + Head(xs)] = h[sa][so + Head(xs)]], da, do, sa, so, Tail(xs))

\* d = append(src, vs...)
AppendTo(s, d, src, vs, fresh) ==
    LET need == src.len + Len(vs)
        inplace == IF Broken = "append-ignores-cap"
                   THEN src.arr # 0 /\ src.off + need <= Len(s.arrs[src.arr])
                   ELSE need <= src.cap
        id == Len(s.arrs) + 1
        s1 == IF Len(vs) = 0 THEN [s EXCEPT !.sl[d.n] = src]
              ELSE IF inplace
              THEN [s EXCEPT !.arrs[src.arr] = [x \in DOMAIN @ |->
                                  IF x - src.off \in (src.len + 1)..need THEN vs[x - src.off - src.len] ELSE @[x]],
                             !.sl[d.n] = [src EXCEPT !.len = need]]
              ELSE [s EXCEPT !.arrs = Append(@, View(s, src) \o vs),
                             !.sl[d.n] = MkS(FALSE, id, 0, need, need, TRUE)]
        nh == s1.sl[d.n]
        ok == /\ View(s1, nh) = View(s, src) \o vs
              /\ (need <= src.cap /\ Len(vs) > 0) => nh.arr = src.arr
              /\ need > src.cap => /\ \A a \in 1..Len(s.arrs) : s1.arrs[a] = s.arrs[a]
                                   /\ nh.arr = id
    IN Ret([s1 EXCEPT !.nv = @ + fresh, !.chk = @ /\ ok], vs, Hdr(nh))

\* the class of the run-time panic raised by operation o in state s ("" = none)
PanicOf(s, o) ==
    CASE o.op = "mk" -> IF o.i < 0 \/ o.j < o.i THEN "makeslice" ELSE ""
      [] o.op \in {"idxr", "idxw", "addr"} ->
           LET h == Rs(s, o.c) IN
           IF h.np THEN "nilderef" ELSE IF o.i < 0 \/ o.i >= h.len THEN "index" ELSE ""
      [] o.op \in {"per", "pew"} -> IF s.pe.arr = 0 THEN "nilderef" ELSE ""
      [] o.op = "sl2" ->
           LET h == Rs(s, o.c) IN
           IF h.np THEN "nilderef" ELSE IF o.i < 0 \/ o.j < o.i \/ o.j > h.cap THEN "slice" ELSE ""
      [] o.op = "sl3" ->
           LET h == Rs(s, o.c) IN
           IF h.np THEN "nilderef" ELSE IF o.i < 0 \/ o.j < o.i \/ o.k < o.j \/ o.k > h.cap THEN "slice" ELSE ""
      [] o.op = "aasg" -> IF o.c.t = "pa" /\ s.pa = 0 THEN "nilderef" ELSE ""
      [] o.op = "pstore" -> IF s.pa = 0 THEN "nilderef" ELSE ""
      [] o.op = "mset" -> IF s.mv[o.c.n] = 0 THEN "nilmap" ELSE ""
      [] o.op = "stasg" -> IF o.c.t = "pt" /\ s.pt = 0 THEN "nilderef" ELSE ""
      [] o.op = "ptstore" -> IF s.pt = 0 THEN "nilderef" ELSE ""
      [] o.op \in {"fldw", "fldr"} ->
           IF o.c.t = "pt" /\ s.pt = 0 THEN "nilderef" ELSE IF o.f = "z" /\ o.i > 1 THEN "index" ELSE ""
      [] o.op = "stridx" -> IF o.i < 0 \/ o.i >= Len(s.strv[o.c.n]) THEN "index" ELSE ""
      [] o.op = "strsl" -> IF o.i < 0 \/ o.j < o.i \/ o.j > Len(s.strv[o.c.n]) THEN "slice" ELSE ""
      [] OTHER -> ""

\* the effect of an operation that does not panic
Eff(s, o) ==
    LET v1 == s.nv + 1
        s1 == [s EXCEPT !.nv = @ + 1]
    IN
    CASE o.op = "mk" ->
           LET id == Len(s.arrs) + 1 IN
           Ret([s EXCEPT !.arrs = Append(@, Zeros(o.j)), !.sl[o.d.n] = MkS(FALSE, id, 0, o.i, o.j, FALSE)],
               <<>>, <<o.i, o.j, 0>>)
      [] o.op = "lit" ->
           LET id == Len(s.arrs) + 1
               vs == IF o.f = "full" THEN Fresh(s, o.i) ELSE [x \in 1..o.i |-> IF x = o.i THEN v1 ELSE 0]
           IN Ret([s EXCEPT !.arrs = Append(@, vs), !.sl[o.d.n] = MkS(FALSE, id, 0, o.i, o.i, FALSE), !.nv = @ + o.i],
                  vs, <<o.i, o.i, 0>>)
      [] o.op = "nil" -> Ret([s EXCEPT !.sl[o.d.n] = NilS], <<>>, <<0, 0, 0>>)
      [] o.op = "idxr" ->
           LET h == Rs(s, o.c) IN Ret(s, <<>>, <<s.arrs[h.arr][h.off + o.i + 1]>>)
      [] o.op = "idxw" ->
           LET h == Rs(s, o.c)
               pos == h.off + o.i + 1
               s2 == [s1 EXCEPT !.arrs[h.arr][pos] = v1]
               ok == \A n \in 0..NS-1 : LET x == s.sl[n] IN
                        IF x.arr = h.arr /\ pos \in (x.off + 1)..(x.off + x.len)
                        THEN View(s2, x) = [View(s, x) EXCEPT ![pos - x.off] = v1]
                        ELSE x.arr = 0 \/ View(s2, x) = View(s, x)
           IN Ret([s2 EXCEPT !.chk = @ /\ ok], <<v1>>, <<>>)
      [] o.op = "addr" ->
           LET h == Rs(s, o.c) IN Ret([s EXCEPT !.pe = [arr |-> h.arr, idx |-> h.off + o.i + 1]], <<>>, <<>>)
      [] o.op = "per" -> Ret(s, <<>>, <<s.arrs[s.pe.arr][s.pe.idx]>>)
      [] o.op = "pew" -> Ret([s1 EXCEPT !.arrs[s.pe.arr][s.pe.idx] = v1], <<v1>>, <<>>)
      [] o.op = "penil" -> Ret([s EXCEPT !.pe = [arr |-> 0, idx |-> 0]], <<>>, <<>>)
      [] o.op = "sl2" ->
           LET h == Rs(s, o.c)
               nh == MkS(h.nil, h.arr, h.off + o.i, o.j - o.i, h.cap - o.i, h.cu)
           IN Ret([s EXCEPT !.sl[o.d.n] = nh], <<>>, Hdr(nh))
      [] o.op = "sl3" ->
           LET h == Rs(s, o.c)
               ncap == IF Broken = "slice3-ignores-max" THEN h.cap - o.i ELSE o.k - o.i
               nh == MkS(h.nil, h.arr, h.off + o.i, o.j - o.i, ncap, FALSE)
               ok == nh.cap = o.k - o.i /\ nh.len = o.j - o.i
           IN Ret([s EXCEPT !.sl[o.d.n] = nh, !.chk = @ /\ ok], <<>>, Hdr(nh))
      [] o.op = "app" -> AppendTo(s, o.d, s.sl[o.c.n], Fresh(s, o.k), o.k)
      [] o.op = "apps" -> AppendTo(s, o.d, s.sl[o.c.n], View(s, s.sl[o.i]), 0)
      [] o.op = "copy" ->
           LET dst == s.sl[o.d.n]
               src == s.sl[o.c.n]
               n == Min(dst.len, src.len)
               bwd == dst.arr = src.arr /\ dst.off > src.off /\ Broken # "copy-forward"
               order == IF bwd THEN [x \in 1..n |-> n + 1 - x] ELSE [x \in 1..n |-> x]
               h2 == IF n = 0 THEN s.arrs ELSE CpSeq(s.arrs, dst.arr, dst.off, src.arr, src.off, order)
               ok == \A x \in 1..n : h2[dst.arr][dst.off + x] = s.arrs[src.arr][src.off + x]
           IN Ret([s EXCEPT !.arrs = h2, !.chk = @ /\ ok], <<>>, <<n>>)
      [] o.op = "range" ->
           LET h == Rs(s, o.c)
               wr == o.f = "w" /\ h.len >= 2
               s2 == IF wr THEN [s1 EXCEPT !.arrs[h.arr][h.off + h.len] = v1] ELSE s
               seen == IF o.c.t = "a" THEN s ELSE s2    \* range over an array value iterates over a copy
               log == [x \in 1..(2 * h.len) |-> IF x % 2 = 1 THEN (x - 1) \div 2
                                                 ELSE IF x = 2 THEN s.arrs[h.arr][h.off + 1]
                                                 ELSE seen.arrs[h.arr][h.off + (x \div 2)]]
           IN Ret(s2, IF wr THEN <<v1>> ELSE <<>>, log)
      [] o.op = "alit" ->
           LET vs == IF o.f = "full" THEN Fresh(s, AL) ELSE [x \in 1..AL |-> IF x = AL THEN v1 ELSE 0]
           IN Ret([s EXCEPT !.arrs[o.d.n + 1] = vs, !.nv = @ + AL], vs, <<>>)
      [] o.op = "aasg" -> Ret([s EXCEPT !.arrs[o.d.n + 1] = s.arrs[Rs(s, o.c).arr]], <<>>, <<>>)
      [] o.op = "pstore" -> Ret([s EXCEPT !.arrs[s.pa] = s.arrs[o.c.n + 1]], <<>>, <<>>)
      [] o.op = "pass" ->
           LET vs == Fresh(s, 2)
               s2 == [s EXCEPT !.nv = @ + 2]
           IN
           IF o.f = "val" THEN Ret(s2, vs, <<vs[1], s.arrs[o.c.n + 1][1]>>)
           ELSE IF o.f = "ptr" THEN Ret([s2 EXCEPT !.arrs[o.c.n + 1][1] = vs[1]], vs, <<vs[1], vs[1]>>)
           ELSE LET h == s.sl[o.c.n]
                    s3 == IF h.len > 0 THEN [s2 EXCEPT !.arrs[h.arr][h.off + 1] = vs[1]] ELSE s2
                    s4 == IF o.f = "slapp" /\ h.len < h.cap
                          THEN [s3 EXCEPT !.arrs[h.arr][h.off + h.len + 1] = vs[2]] ELSE s3
                IN Ret(s4, vs, <<IF o.f = "slapp" THEN h.len + 1 ELSE h.len>>)
      [] o.op = "paset" ->
           IF o.f = "nil" THEN Ret([s EXCEPT !.pa = 0], <<>>, <<>>)
           ELSE IF o.f = "addr" THEN Ret([s EXCEPT !.pa = o.c.n + 1], <<>>, <<>>)
           ELSE IF o.f = "new" THEN Ret([s EXCEPT !.arrs = Append(@, Zeros(AL)), !.pa = Len(s.arrs) + 1], <<>>, <<>>)
           ELSE Ret([s EXCEPT !.arrs = Append(@, Fresh(s, AL)), !.pa = Len(s.arrs) + 1, !.nv = @ + AL], Fresh(s, AL), <<>>)
      [] o.op = "mmake" ->
           Ret([s EXCEPT !.maps = Append(@, [x \in 0..NK-1 |-> -1]), !.mv[o.d.n] = Len(s.maps) + 1], <<>>, <<0>>)
      [] o.op = "mlit" ->
           LET vs == Fresh(s, o.i) IN
           Ret([s EXCEPT !.maps = Append(@, [x \in 0..NK-1 |-> IF x < o.i THEN vs[x + 1] ELSE -1]),
                         !.mv[o.d.n] = Len(s.maps) + 1, !.nv = @ + o.i], vs, <<o.i>>)
      [] o.op = "mnil" -> Ret([s EXCEPT !.mv[o.d.n] = 0], <<>>, <<0>>)
      [] o.op = "malias" -> Ret([s EXCEPT !.mv[o.d.n] = s.mv[o.c.n]], <<>>, <<>>)
      [] o.op = "mset" ->
           LET m == s.mv[o.c.n]
               s2 == [s1 EXCEPT !.maps[m][o.i] = v1]
           IN Ret(s2, <<v1>>, <<Cardinality({x \in 0..NK-1 : s2.maps[m][x] # -1})>>)
      [] o.op = "mget" ->
           LET m == s.mv[o.c.n]
               e == IF m = 0 THEN -1 ELSE s.maps[m][o.i]
           IN Ret(s, <<>>, IF o.f = "ok" THEN <<IF e = -1 THEN 0 ELSE e, B2I(e # -1)>> ELSE <<IF e = -1 THEN 0 ELSE e>>)
      [] o.op = "mdel" ->
           LET m == s.mv[o.c.n] IN
           IF m = 0 THEN Ret(s, <<>>, <<0>>)
           ELSE LET s2 == [s EXCEPT !.maps[m][o.i] = -1] IN
                Ret(s2, <<>>, <<Cardinality({x \in 0..NK-1 : s2.maps[m][x] # -1})>>)
      [] o.op = "stlit" ->
           IF o.f = "partial" THEN Ret([s1 EXCEPT !.sts[o.d.n + 1] = [x |-> 0, y |-> v1, z |-> <<0, 0>>]], <<v1>>, <<>>)
           ELSE LET vs == Fresh(s, 4) IN
                Ret([s EXCEPT !.sts[o.d.n + 1] = [x |-> vs[1], y |-> vs[2], z |-> <<vs[3], vs[4]>>], !.nv = @ + 4], vs, <<>>)
      [] o.op = "stasg" ->
           Ret([s EXCEPT !.sts[o.d.n + 1] = s.sts[IF o.c.t = "pt" THEN s.pt ELSE o.c.n + 1]], <<>>, <<>>)
      [] o.op = "ptstore" -> Ret([s EXCEPT !.sts[s.pt] = s.sts[o.c.n + 1]], <<>>, <<>>)
      [] o.op = "fldw" ->
           LET id == IF o.c.t = "pt" THEN s.pt ELSE o.c.n + 1 IN
           IF o.f = "x" THEN Ret([s1 EXCEPT !.sts[id].x = v1], <<v1>>, <<>>)
           ELSE IF o.f = "y" THEN Ret([s1 EXCEPT !.sts[id].y = v1], <<v1>>, <<>>)
           ELSE Ret([s1 EXCEPT !.sts[id].z[o.i + 1] = v1], <<v1>>, <<>>)
      [] o.op = "fldr" ->
           LET id == IF o.c.t = "pt" THEN s.pt ELSE o.c.n + 1 IN
           IF o.f = "x" THEN Ret(s, <<>>, <<s.sts[id].x>>)
           ELSE IF o.f = "y" THEN Ret(s, <<>>, <<s.sts[id].y>>)
           ELSE Ret(s, <<>>, <<s.sts[id].z[o.i + 1]>>)
      [] o.op = "ptset" ->
           IF o.f = "nil" THEN Ret([s EXCEPT !.pt = 0], <<>>, <<>>)
           ELSE IF o.f = "addr" THEN Ret([s EXCEPT !.pt = o.c.n + 1], <<>>, <<>>)
           ELSE IF o.f = "new" THEN Ret([s EXCEPT !.sts = Append(@, ZeroT), !.pt = Len(s.sts) + 1], <<>>, <<>>)
           ELSE Ret([s1 EXCEPT !.sts = Append(@, [x |-> v1, y |-> 0, z |-> <<0, 0>>]), !.pt = Len(s.sts) + 1], <<v1>>, <<>>)
      [] o.op = "passt" ->
           IF o.f = "val" THEN Ret(s1, <<v1>>, <<v1, s.sts[o.c.n + 1].y>>)
           ELSE Ret([s1 EXCEPT !.sts[o.c.n + 1].y = v1], <<v1>>, <<v1, v1>>)
      [] o.op = "strlit" ->
           LET vs == [x \in 1..o.i |-> 97 + ((s.nv + x) % 26)] IN
           Ret([s EXCEPT !.strv[o.d.n] = vs, !.nv = @ + o.i], vs, <<o.i>>)
      [] o.op = "stridx" -> Ret(s, <<>>, <<s.strv[o.c.n][o.i + 1]>>)
      [] o.op = "strsl" ->
           Ret([s EXCEPT !.strv[o.d.n] = SubSeq(s.strv[o.c.n], o.i + 1, o.j)], <<>>, <<o.j - o.i>>)
      [] o.op = "strcat" ->
           LET str == s.strv[o.c.n] \o s.strv[o.i] IN
           Ret([s EXCEPT !.strv[o.d.n] = str], <<>>, <<Len(str)>>)
      [] o.op = "strrange" ->
           LET str == s.strv[o.c.n] IN
           Ret(s, <<>>, [x \in 1..(2 * Len(str)) |-> IF x % 2 = 1 THEN (x - 1) \div 2 ELSE str[x \div 2]])

Apply(s, o) == LET cls == PanicOf(s, o) IN IF cls # "" THEN Pan(s, cls) ELSE Eff(s, o)

----------------------------------------------------------------------------
Offered(s, k) ==
    IF s.nv > MaxVal THEN {}
    ELSE IF PoliteNow /\ k \notin {"sl2", "sl3"} THEN {o \in CandsOf(s, k) : PanicOf(s, o) = ""}
    ELSE CandsOf(s, k)

\* cheap test that an operation kind has candidates (slicing always has: x[0:0])
HasCands(s, k) == IF k \in {"sl2", "sl3"} THEN s.nv <= MaxVal /\ SRefs # {} /\ Vecs # {} ELSE Offered(s, k) # {}

\* what is visible through every slice and array variable (elements up to cap where the capacity
\* is known): logged after each operation that writes elements, so that an effect appearing
\* through another container is observed at the operation that caused it
SeenSA(s) ==
    [s |-> [n \in 1..NS |-> LET h == s.sl[n - 1] IN
               [nil |-> h.nil, len |-> h.len, cap |-> h.cap, cu |-> h.cu,
                v |-> IF h.arr = 0 THEN <<>> ELSE [x \in 1..(IF h.cu THEN h.len ELSE h.cap) |-> s.arrs[h.arr][h.off + x]]]],
     a |-> [n \in 1..NA |-> s.arrs[n]]]
WOps == {"idxw", "pew", "app", "apps", "copy", "pass", "pstore", "aasg", "range"}

Do(o) == LET a == Apply(st, o) IN
         /\ st' = a.st
         /\ hist' = Append(hist, [o EXCEPT !.vs = a.vs, !.r = a.r, !.p = a.p,
                                          !.w = IF o.op \in WOps /\ a.p = "" THEN SeenSA(a.st) ELSE NoW])

Next == /\ st.pan = ""
        /\ Len(hist) < Limit
        /\ IF Len(hist) < ScLen
           THEN LET o == Scripts[sc][Len(hist) + 1] IN
                o \in CandsOf(st, o.op) /\ Do(o) /\ UNCHANGED <<cf, sc, kind>>
           ELSE IF TwoStage /\ kind = ""
           THEN \E k \in {x \in Ops : HasCands(st, x)} : kind' = k /\ UNCHANGED <<st, hist, cf, sc>>
           ELSE IF TwoStage
           THEN \E o \in Offered(st, kind) : Do(o) /\ kind' = "" /\ UNCHANGED <<cf, sc>>
           ELSE \E k \in Ops : \E o \in Offered(st, k) : Do(o) /\ UNCHANGED <<cf, sc, kind>>

Spec == Init /\ [][Next]_vars

----------------------------------------------------------------------------
\* structural sanity of the memory model
TypeOK ==
    /\ \A n \in 0..NS-1 : LET h == st.sl[n] IN
          /\ h.len >= 0 /\ h.len <= h.cap
          /\ IF h.arr = 0 THEN h.nil /\ h.cap = 0
             ELSE h.arr \in 1..Len(st.arrs) /\ h.off >= 0 /\ h.off + h.cap <= Len(st.arrs[h.arr])
          /\ h.cu => (h.arr > NA /\ h.off + h.cap = Len(st.arrs[h.arr]))
    /\ \A a \in 1..NA : Len(st.arrs[a]) = AL
    /\ st.pa \in 0..Len(st.arrs) /\ (st.pa # 0 => Len(st.arrs[st.pa]) = AL)
    /\ st.pe.arr \in 0..Len(st.arrs) /\ (st.pe.arr # 0 => st.pe.idx \in 1..Len(st.arrs[st.pe.arr]))
    /\ \A n \in 0..NM-1 : st.mv[n] \in 0..Len(st.maps)
    /\ st.pt \in 0..Len(st.sts)

\* (M) the value-level statements of the Go specification hold for every operation performed
ChkOK == st.chk

Dump ==
    [s |-> SeenSA(st).s,
     a |-> SeenSA(st).a,
     pa |-> IF st.pa = 0 THEN <<>> ELSE st.arrs[st.pa],
     pe |-> IF st.pe.arr = 0 THEN <<>> ELSE <<st.arrs[st.pe.arr][st.pe.idx]>>,
     m |-> [n \in 1..NM |-> IF st.mv[n - 1] = 0 THEN <<>> ELSE [x \in 1..NK |-> st.maps[st.mv[n - 1]][x - 1]]],
     mnil |-> [n \in 1..NM |-> st.mv[n - 1] = 0],
     t |-> [n \in 1..NT |-> LET r == st.sts[n] IN <<r.x, r.y, r.z[1], r.z[2]>>],
     pt |-> IF st.pt = 0 THEN <<>> ELSE LET r == st.sts[st.pt] IN <<r.x, r.y, r.z[1], r.z[2]>>,
     str |-> [n \in 1..NStr |-> st.strv[n - 1]]]

Emit == IF EmitOn /\ kind = "" /\ (st.pan # "" \/ Len(hist) = Limit) /\ Len(hist) > 0
        THEN PrintT(ToJson([fam |-> Cf.name, sc |-> sc, hist |-> hist, pan |-> st.pan, dump |-> Dump]))
        ELSE TRUE
=============================================================================
